(* Rawdb/AllocNoPanic.v — the allocator model never panics from a state satisfying the extent
   invariant, for write requests that keep the region below half the 1 TiB reserve limit
   (`no_panic`); the weaker hypothesis `op_fits` alone is refuted (`never_panics_refuted`): a
   region whose reserve already is MAX_RESERVED_SIZE doubles to 2 TiB on a one-byte append and
   trips the assert of region_metadata.rs:92.  Reopen is treated elsewhere (`reopen_no_panic`).
   PROOF FILE. *)
From Anydb Require Import Common.Base Gen.Consts Rawdb.AMap Rawdb.Alloc Rawdb.AllocSpec Rawdb.AllocInv
  Rawdb.AllocFacts Rawdb.AMapFacts Rawdb.CoverFacts Rawdb.InvLayout Rawdb.AllocErr.

Definition op_fits_strong (s : st) (o : op) : Prop :=
  op_fits s o /\
  match o with
  | Write id _ n | WriteAt id _ n _ | TruncWrite id _ n _ =>
      forall i m, find_id s id = Some i -> slot s i = Some m -> r_len m + n <= MAX_RESERVED_SIZE / 2
  | _ => True
  end.

(* ---- the checked doubling of write_with ---- *)
Lemma double_until_not_panic fuel : forall r t, double_until fuel r t <> Panic.
Proof.
  induction fuel as [|fuel IH]; intros r t; cbn [double_until]; destruct (t <=? r); try discriminate.
  destruct (two64 <=? r * RESERVE_FACTOR); [discriminate|]. apply IH.
Qed.

(* the result is the FIRST doubling that reaches the target *)
Lemma double_until_first fuel : forall r t r',
  double_until fuel r t = Ok r' -> (r' = r /\ t <= r) \/ (r < t /\ r' < 2 * t).
Proof.
  induction fuel as [|fuel IH]; intros r t r'; cbn [double_until];
    destruct (t <=? r) eqn:E; try (intros [= <-]; left; lia); try discriminate.
  destruct (two64 <=? r * RESERVE_FACTOR); [discriminate|]. intros H. apply IH in H.
  rewrite RESERVE_FACTOR_2 in H. right. lia.
Qed.

Lemma double_until_mod fuel : forall r t r',
  r mod PAGE_SIZE = 0 -> double_until fuel r t = Ok r' -> r' mod PAGE_SIZE = 0.
Proof.
  induction fuel as [|fuel IH]; intros r t r' Hr; cbn [double_until];
    destruct (t <=? r) eqn:E; try (intros [= <-]; exact Hr); try discriminate.
  destruct (two64 <=? r * RESERVE_FACTOR); [discriminate|]. apply IH.
  rewrite RESERVE_FACTOR_2. apply mod0_mul2; [exact PAGE_nz|exact Hr].
Qed.

(* ---- the data file ---- *)
Lemma set_min_len_ge s n : n <= file_len (set_min_len s n).
Proof.
  unfold set_min_len. pose proof (ceil_page_ge n) as H1. destruct (ceil_page n <=? file_len s) eqn:E; [lia|].
  cbn [file_len set_file_len].
  pose proof (ceil_page_ge (N.max (N.max (ceil_page n) (file_len s * GROW_FACTOR)) GROW_FLOOR)). lia.
Qed.

Lemma db_write_in_bounds s off f n :
  off + n <= file_len s -> db_write s off f n = Some (set_mem s (mem_write (mem s) off f n)).
Proof. intros H. unfold db_write. destruct (off + n <=? file_len s) eqn:E; [reflexivity|lia]. Qed.

Lemma db_copy_no_panic s src dst n :
  src + n <= file_len s -> dst + n <= file_len s -> db_copy s src dst n <> APanic.
Proof.
  intros H1 H2. unfold db_copy. destruct (n =? 0); [discriminate|]. destruct (negb _); [discriminate|].
  destruct ((src + n <=? file_len s) && (dst + n <=? file_len s)) eqn:E; [discriminate|lia].
Qed.

Lemma roc_not_panic s a by_ : remove_or_compress_hole s a by_ <> APanic.
Proof.
  unfold remove_or_compress_hole, remove_hole. destruct (aget a (holes s)); [|discriminate].
  destruct (_ =? _); [discriminate|]. destruct (_ <? _); discriminate.
Qed.

(* ---- consequences of the invariant ---- *)
Lemma inv_set_held s v : Inv s -> Inv (set_held s v).
Proof. intros [H1 H2 H3 H4 H5 H6 H7 H8 H9 H10 H11]. constructor; assumption. Qed.

(* Layout::len is page aligned: it is 0 or the end of an extent *)
Lemma layout_len_aligned s : Inv s -> layout_len s mod PAGE_SIZE = 0.
Proof.
  intros HI. destruct (N.eq_dec (layout_len s) 0) as [->|Hnz]; [reflexivity|].
  pose proof (inv_cover s HI (layout_len s - 1)) as Hc.
  destruct (layout_len s - 1 <? layout_len s) eqn:E; [|lia].
  destruct (owners_pos_ex (extents s) (layout_len s - 1)) as (e & He & Hcov); [lia|].
  pose proof (inv_ext_end s e HI He) as Hend.
  destruct (inv_ext_aligned s e HI He) as (Ha1 & Ha2 & _).
  unfold covers in Hcov.
  replace (layout_len s) with (fst e + snd e) by lia.
  apply mod0_add; [exact PAGE_nz|assumption|assumption].
Qed.

Lemma no_region_at_hole s hs z : Inv s -> aget hs (holes s) = Some z -> aget hs (s2r s) = None.
Proof.
  intros HI Hh. destruct (aget hs (s2r s)) as [j|] eqn:E; [|reflexivity]. exfalso.
  apply (inv_s2r s HI) in E. destruct E as (mj & Hj & Hst).
  destruct (inv_region_aligned s j mj HI Hj) as (_ & _ & Hp1).
  destruct (inv_hole_aligned s hs z HI Hh) as (_ & _ & Hp2). cbn [fst snd rext] in Hp1, Hp2.
  destruct (region_hole_disjoint s j mj hs z HI Hj Hh); lia.
Qed.

Lemma no_region_at_end s : Inv s -> aget (layout_len s) (s2r s) = None.
Proof.
  intros HI. destruct (aget (layout_len s) (s2r s)) as [j|] eqn:E; [|reflexivity]. exfalso.
  apply (inv_s2r s HI) in E. destruct E as (mj & Hj & Hst).
  destruct (inv_region_aligned s j mj HI Hj) as (_ & _ & Hp1). cbn [fst snd rext] in Hp1.
  pose proof (region_end_le s j mj HI Hj). lia.
Qed.

Lemma hole_end_le s a z : Inv s -> aget a (holes s) = Some z -> a + z <= layout_len s.
Proof.
  intros HI Hh. apply (inv_ext_end s (a, z) HI). apply in_extents. right. left. now apply aget_in.
Qed.

Lemma r_reserved_set_reserved m v : r_reserved (m_set_reserved m v) = v.
Proof. unfold m_set_reserved. destruct (r_reserved m =? v) eqn:E; cbn [r_reserved]; lia. Qed.

(* the assert of RegionMetadata::set_reserved holds for the first doubling that reaches a
   target of at most MAX_RESERVED_SIZE / 2 *)
Lemma ok_set_reserved_doubled s i m t nr :
  Inv s -> slot s i = Some m -> r_reserved m < t -> t <= MAX_RESERVED_SIZE / 2 ->
  double_until 64 (r_reserved m) t = Ok nr -> ok_set_reserved m nr = true.
Proof.
  intros HI Hs Hlt Ht Hd.
  destruct (inv_len s HI i m Hs) as [Hlen _].
  destruct (inv_region_aligned s i m HI Hs) as (_ & Hmod & Hpos). cbn [fst snd rext] in Hmod, Hpos.
  pose proof (mod0_ge _ _ PAGE_nz Hmod Hpos) as Hpage.
  pose proof (double_until_mod _ _ _ _ Hmod Hd) as Hm.
  pose proof (double_until_ge _ _ _ _ Hd) as [Hge1 Hge2].
  destruct (double_until_first _ _ _ _ Hd) as [[_ H]|[_ H]]; [lia|].
  unfold ok_set_reserved. rewrite Hm.
  assert (nr <= MAX_RESERVED_SIZE) by lia.
  destruct (r_len m <=? nr) eqn:E1; [|lia]. destruct (PAGE_SIZE <=? nr) eqn:E2; [|lia].
  destruct (nr <=? MAX_RESERVED_SIZE) eqn:E3; [reflexivity|lia].
Qed.

(* ---- the finding: `op_fits` alone does not exclude the panic ---- *)
Definition big_region : rmeta := mkR 0 MAX_RESERVED_SIZE MAX_RESERVED_SIZE 1 ST_CLEAN u64_max 0.
Definition big_state : st :=
  mkSt [Some big_region] [(0, 0)] [] [] [] []
       [Some (0, MAX_RESERVED_SIZE, MAX_RESERVED_SIZE, 1)] MAX_RESERVED_SIZE (fun _ => 0) [].

Lemma slot_big i m : slot big_state i = Some m -> i = 0 /\ m = big_region.
Proof.
  unfold slot, get, big_state. cbn [slots]. destruct (N.to_nat i) as [|[|k]] eqn:E; cbn [nth_opt]; try discriminate.
  intros [= <-]. split; [lia|reflexivity].
Qed.
Lemma slot_big_0 : slot big_state 0 = Some big_region.
Proof. reflexivity. Qed.

Lemma inv_big_state : Inv big_state /\ layout_len big_state = MAX_RESERVED_SIZE.
Proof.
  apply mk_inv.
  - unfold extents, big_state, big_region. cbn [slots holes pend resv region_exts app r_start r_reserved].
    constructor; [|constructor]. unfold aligned. cbn [fst snd].
    split; [reflexivity|]. split; [exact MAX_mod_PAGE|reflexivity].
  - intros a. unfold extents, big_state, big_region. cbn [slots holes pend resv region_exts app r_start r_reserved].
    rewrite owners_one. unfold cov, covers. cbn [fst snd].
    destruct (a <? MAX_RESERVED_SIZE) eqn:E; destruct ((0 <=? a) && (a <? 0 + MAX_RESERVED_SIZE)) eqn:E2; try reflexivity; lia.
  - intros i m H. apply slot_big in H. destruct H as [_ ->]. cbn [big_region r_len r_reserved]. lia.
  - intros a i. unfold big_state at 1. cbn [s2r aget]. split.
    + destruct (a =? 0) eqn:E; [|discriminate]. intros [= <-]. exists big_region. split; [reflexivity|cbn; lia].
    + intros (m & H & Hst). apply slot_big in H. destruct H as [-> ->]. cbn [big_region r_start] in Hst. subst a.
      reflexivity.
  - cbn. tauto.
  - split.
    + intros start size. split; [discriminate|]. intros (l & H & _). discriminate.
    + intros size l H. discriminate.
  - intros a z a' z' H. discriminate.
  - cbn. lia.
  - intros i j mi mj Hi Hj _. apply slot_big in Hi, Hj. destruct Hi as [-> _], Hj as [-> _]. reflexivity.
  - intros i. unfold slot, get, big_state. cbn [slots rfile].
    destruct (N.to_nat i) as [|[|k]] eqn:E; cbn [nth_opt]; auto. reflexivity.
  - reflexivity.
Qed.

Lemma never_panics_refuted : exists s o, Inv s /\ op_fits s o /\ step s o = APanic.
Proof.
  exists big_state, (Write 1 (fun _ => 0) 1). split; [exact (proj1 inv_big_state)|]. split.
  - cbn [op_fits]. discriminate.
  - vm_compute. reflexivity.
Qed.

(* ---- the common tail of write_with ---- *)
Lemma finish_write_no_panic s i start wo f n new_len m :
  slot s i = Some m -> start + wo + n <= file_len s -> new_len <= r_reserved m ->
  finish_write s i start wo f n new_len <> APanic.
Proof.
  intros Hs Hfl Hr. unfold finish_write. rewrite db_write_in_bounds by lia.
  rewrite slot_upd, N.eqb_refl, slot_set_mem, Hs. cbn [option_map].
  unfold ok_set_len, m_mark_dirty. cbn [r_reserved].
  destruct (new_len <=? r_reserved m) eqn:E; [discriminate|lia].
Qed.

(* ---- Region::write_with, relocation path ---- *)
Lemma relocate_no_panic s i m f n wo new_len nr cl :
  Inv s -> slot s i = Some m -> cl <= r_reserved m -> r_reserved m < nr ->
  wo + n <= new_len -> new_len <= nr -> ok_set_reserved m nr = true ->
  relocate s i m f n wo new_len nr cl <> APanic.
Proof.
  intros HI Hs Hc Hr Hwo Hnl Hok. unfold relocate.
  pose proof (region_end_le s i m HI Hs) as Hend.
  pose proof (inv_file s HI) as Hfile.
  destruct (inv_sorted s HI) as (Hsr & _).
  assert (Hfin : forall s1 new_start,
    s2r s1 = s2r s -> (forall j, slot s1 j = slot s j) ->
    resv s1 = ains new_start nr [] ->
    aget new_start (s2r s) = None ->
    new_start mod PAGE_SIZE = 0 ->
    file_len s <= file_len s1 -> new_start + nr <= file_len s1 ->
    (let* s2 := db_copy s1 (r_start m) new_start cl in
     match db_write s2 (new_start + wo) f n with
     | None => APanic
     | Some s3 =>
       let* s4 := layout_remove_region s3 i m in
       match layout_insert_region s4 new_start i with
       | None => APanic
       | Some s5 =>
           match aget new_start (resv s5) with
           | Some z =>
               if negb (z =? nr) then APanic else
               let s6 := set_resv s5 (arem new_start (resv s5)) in
               if negb (ok_set_start new_start) then APanic else
               if negb (ok_set_reserved m nr) then APanic else
               if negb (new_len <=? nr) then APanic else
               let s7 := upd s6 i (fun m => m_set_len (m_set_reserved (m_set_start (m_mark_dirty m 0 new_len) new_start) nr) new_len) in
               AOk (write_if_dirty s7 i, OUnit)
           | None => APanic
           end
       end
     end) <> APanic).
  { intros s1 new_start H1 H2 Hrv Hnone Hal Hfl Hdst.
    destruct (db_copy s1 (r_start m) new_start cl) as [s2| |] eqn:Ec; cbn [abind]; [|discriminate|].
    - apply db_copy_ok in Ec. destruct Ec as [mm ->].
      rewrite db_write_in_bounds by (cbn [file_len set_mem]; lia).
      rewrite layout_remove_region_ok.
      + cbn [abind]. unfold layout_insert_region. cbn [s2r set_pend set_s2r set_mem]. rewrite H1.
        rewrite aget_arem by exact Hsr. rewrite Hnone.
        destruct (new_start =? r_start m);
          cbn [resv set_s2r set_pend set_mem]; rewrite Hrv, aget_ains_same, N.eqb_refl; cbn [negb];
          unfold ok_set_start; rewrite Hal, N.eqb_refl, Hok; cbn [negb];
          (destruct (new_len <=? nr) eqn:E; [cbn [negb]; discriminate|lia]).
      + intros j mj Hj. change (aget (r_start mj) (s2r s1) = Some j). rewrite H1.
        apply (inv_s2r_ok s HI). rewrite <- H2. exact Hj.
      + change (slot s1 i = Some m). rewrite H2. exact Hs.
    - exfalso. revert Ec. apply db_copy_no_panic; lia. }
  destruct (find_hole s nr) as [hs|] eqn:Ef.
  - destruct (find_hole_spec s _ _ (inv_h2s s HI) (proj2 (proj2 (proj2 (proj2 (inv_sorted s HI))))) Ef)
      as (z & Hz & Hle).
    pose proof (hole_end_le s hs z HI Hz) as Hhe.
    destruct (remove_or_compress_hole s hs nr) as [s1| |] eqn:Er; cbn [abind]; [|discriminate|].
    + apply roc_shape in Er. destruct Er as (H & Q & ->). cbn [resv set_holes].
      rewrite (inv_no_resv s HI). cbn [aget abind].
      apply Hfin; try reflexivity.
      * eapply no_region_at_hole; eauto.
      * destruct (inv_hole_aligned s hs z HI Hz) as (Ha & _). exact Ha.
      * cbn [file_len set_resv set_holes]. lia.
    + exfalso. revert Er. apply roc_not_panic.
  - rewrite (inv_no_resv s HI). cbn [aget abind].
    pose proof (set_min_len_ge (set_resv s (ains (layout_len s) nr [])) (layout_len s + nr)) as Hge.
    destruct (set_min_len_shape (set_resv s (ains (layout_len s) nr [])) (layout_len s + nr))
      as (fl & Heq & Hfl). rewrite Heq in *.
    apply Hfin; try reflexivity.
    + now apply no_region_at_end.
    + now apply layout_len_aligned.
    + exact Hfl.
    + exact Hge.
Qed.

(* ---- Region::write_with ---- *)
Lemma write_with_no_panic s i f n at_ tr :
  Inv s ->
  (forall m, slot s i = Some m -> r_len m + n <= MAX_RESERVED_SIZE / 2) ->
  write_with s i f n at_ tr <> APanic.
Proof.
  intros HI Hsz. unfold write_with.
  destruct (slot s i) as [m|] eqn:Hs; [|discriminate]. specialize (Hsz m eq_refl).
  destruct (match at_ with Some a => r_len m <? a | None => false end) eqn:Eat; [discriminate|].
  set (wo := match at_ with Some a => a | None => r_len m end).
  set (new_len := match at_ with None => r_len m + n | Some a => if tr then a + n else N.max (a + n) (r_len m) end).
  assert (Hwo : wo <= r_len m) by (subst wo; destruct at_; lia).
  assert (Hwn : wo + n <= new_len) by (subst wo new_len; destruct at_; [destruct tr|]; lia).
  assert (Hnl : new_len <= r_len m + n) by (subst wo new_len; destruct at_; [destruct tr|]; lia).
  pose proof (region_end_le s i m HI Hs) as Hend.
  pose proof (inv_file s HI) as Hfile.
  destruct (inv_len s HI i m Hs) as [Hlen _].
  destruct (new_len <=? r_reserved m) eqn:Efit.
  { rewrite db_write_in_bounds by lia. destruct (new_len =? r_len m); discriminate. }
  destruct (r_reserved m =? 0); [discriminate|].
  destruct (double_until 64 (r_reserved m) new_len) as [nr|e0|] eqn:Ed; [|discriminate|].
  2:{ exfalso. revert Ed. apply double_until_not_panic. }
  assert (Hok : ok_set_reserved m nr = true).
  { apply (ok_set_reserved_doubled s i m new_len nr HI Hs); [lia|lia|exact Ed]. }
  pose proof (double_until_ge _ _ _ _ Ed) as [Hge1 Hge2].
  assert (Hcl : (if tr then wo else r_len m) <= r_reserved m) by (destruct tr; lia).
  assert (Hrel : relocate s i m f n wo new_len nr (if tr then wo else r_len m) <> APanic).
  { apply relocate_no_panic; auto; lia. }
  destruct (is_last_anything s i).
  { rewrite Hok. cbn [negb].
    pose proof (set_min_len_ge (upd s i (fun m0 => m_set_reserved m0 nr)) (r_start m + nr)) as Hge.
    destruct (set_min_len_shape (upd s i (fun m0 => m_set_reserved m0 nr)) (r_start m + nr)) as (fl & Heq & _).
    apply (finish_write_no_panic _ _ _ _ _ _ _ (m_set_reserved m nr)).
    - rewrite Heq, slot_set_file_len, slot_upd, N.eqb_refl, Hs. reflexivity.
    - lia.
    - rewrite r_reserved_set_reserved. lia. }
  destruct (aget (r_start m + r_reserved m) (holes s)) as [gap|] eqn:Eg; [|exact Hrel].
  destruct (nr - r_reserved m <=? gap) eqn:Ea; [|exact Hrel].
  pose proof (hole_end_le s _ _ HI Eg) as Hhe.
  destruct (remove_or_compress_hole s (r_start m + r_reserved m) (nr - r_reserved m)) as [s1| |] eqn:Er; cbn [abind];
    [|discriminate|].
  - rewrite Hok. cbn [negb]. apply roc_shape in Er. destruct Er as (H & Q & ->).
    apply (finish_write_no_panic _ _ _ _ _ _ _ (m_set_reserved m nr)).
    + rewrite slot_upd, N.eqb_refl, slot_set_holes, Hs. reflexivity.
    + assert (Hf : file_len (upd (set_holes s H Q) i (fun m0 => m_set_reserved m0 nr)) = file_len s).
      { unfold upd. rewrite slot_set_holes, Hs. reflexivity. }
      rewrite Hf. lia.
    + rewrite r_reserved_set_reserved. lia.
  - exfalso. revert Er. apply roc_not_panic.
Qed.

(* ---- Database::create_region_if_needed ---- *)
Lemma create_no_panic s id hold : Inv s -> create s id hold <> APanic.
Proof.
  intros HI0. unfold create. cbv zeta.
  set (s0 := if hold then set_held s (id :: held s) else s).
  assert (HI : Inv s0) by (destruct hold; [apply inv_set_held|]; exact HI0).
  clearbody s0.
  destruct (find_id s0 id); [discriminate|].
  destruct (find_hole s0 PAGE_SIZE) as [a|] eqn:Ef.
  - rewrite Ef.
    destruct (find_hole_spec s0 _ _ (inv_h2s s0 HI) (proj2 (proj2 (proj2 (proj2 (inv_sorted s0 HI))))) Ef)
      as (z & Hz & Hle).
    destruct (remove_or_compress_hole s0 a PAGE_SIZE) as [s1| |] eqn:Er; cbn [abind]; [|discriminate|].
    + apply roc_shape in Er. destruct Er as (H & Q & ->).
      unfold layout_insert_region. cbn [s2r put_slot set_slots set_rfile set_holes].
      rewrite (no_region_at_hole s0 a z HI Hz). discriminate.
    + exfalso. revert Er. apply roc_not_panic.
  - rewrite find_hole_set_min_len, Ef. cbn [abind].
    destruct (set_min_len_shape s0 (layout_len s0 + PAGE_SIZE)) as (fl & -> & _).
    unfold layout_insert_region. cbn [s2r put_slot set_slots set_rfile set_file_len].
    change (layout_len (set_file_len s0 fl)) with (layout_len s0).
    rewrite (no_region_at_end s0 HI). discriminate.
Qed.

(* ---- removal ---- *)
Lemma remove_idx_not_panic s i : remove_idx s i <> APanic.
Proof.
  unfold remove_idx, layout_remove_region. destruct (slot s i) as [m|]; [|discriminate].
  destruct (is_held s (r_id m)); [discriminate|].
  destruct (aget (r_start m) (s2r s)) as [j|]; cbn [abind]; [|discriminate].
  destruct (j =? i); cbn [abind]; discriminate.
Qed.

Lemma retain_from_not_panic fuel : forall s keep i, retain_from fuel s keep i <> APanic.
Proof.
  induction fuel as [|[m|] t IH]; intros s keep i; cbn [retain_from].
  - discriminate.
  - destruct (existsb _ keep); [apply IH|].
    destruct (remove_idx s i) as [s1| |] eqn:Er; cbn [abind]; [apply IH|discriminate|].
    exfalso. revert Er. apply remove_idx_not_panic.
  - apply IH.
Qed.

(* ---- the theorem ---- *)
Theorem no_panic : forall s o, Inv s -> op_fits_strong s o -> o <> Reopen -> step s o <> APanic.
Proof.
  intros s o HI [_ Hfit] Hnr. destruct o; cbn [step]; unfold with_region.
  - now apply create_no_panic.
  - destruct (find_id s id) as [i|] eqn:Ei; [|discriminate].
    apply write_with_no_panic; [exact HI|]. intros m Hm. exact (Hfit i m eq_refl Hm).
  - destruct (find_id s id) as [i|] eqn:Ei; [|discriminate].
    apply write_with_no_panic; [exact HI|]. intros m Hm. exact (Hfit i m eq_refl Hm).
  - destruct (find_id s id) as [i|] eqn:Ei; [|discriminate].
    apply write_with_no_panic; [exact HI|]. intros m Hm. exact (Hfit i m eq_refl Hm).
  - destruct (find_id s id) as [i|]; [|discriminate]. unfold truncate.
    destruct (slot s i) as [m|] eqn:Hs; [|discriminate].
    destruct (from =? r_len m) eqn:E1; [discriminate|]. destruct (r_len m <? from) eqn:E2; [discriminate|].
    destruct (inv_len s HI i m Hs) as [Hlen _]. unfold ok_set_len.
    destruct (from <=? r_reserved m) eqn:E3; [cbn [negb]; discriminate|lia].
  - destruct (find_id s id) as [i|]; [|discriminate]. unfold rename.
    destruct (slot s i) as [m|]; [|discriminate]. destruct (find_id s new_id); discriminate.
  - unfold remove. destruct (find_id s id) as [i|]; [|discriminate].
    destruct (remove_idx s i) as [s1| |] eqn:Er; cbn [abind]; [discriminate|discriminate|].
    exfalso. revert Er. apply remove_idx_not_panic.
  - discriminate.
  - unfold retain. destruct (retain_blocked s keep); [discriminate|].
    destruct (retain_from (slots s) s keep 0) as [s1| |] eqn:Er; cbn [abind];
      [discriminate|discriminate|]. exfalso. revert Er. apply retain_from_not_panic.
  - destruct (flush s). discriminate.
  - destruct (find_id s id) as [i|]; [|discriminate]. unfold flush_region.
    destruct (slot s i) as [m|]; [|discriminate].
    destruct (r_state m =? ST_CLEAN); [discriminate|]. destruct (r_state m =? ST_WRITE); discriminate.
  - destruct (compact s). discriminate.
  - congruence.
  - discriminate.
  - discriminate.
Qed.

(* the hypotheses of no_panic are satisfiable: a fresh database, any small first request *)
Example no_panic_example : Inv (init 0) /\ op_fits_strong (init 0) (Create 1 false) /\ Create 1 false <> Reopen.
Proof. split; [apply inv_init|]. split; [split; exact I|discriminate]. Qed.
