(* Rawdb/AllocDisciplinedSync2.v — tie between the allocator model and the crash monitor, part 7
   (proof file): Region::flush and Database::compact (flush, then the punches of punch_holes and
   their data sync, then the completion marker). *)
From Anydb Require Import Common.Base Gen.Consts Rawdb.AMap Rawdb.Alloc Rawdb.AllocSpec Rawdb.AllocInv
  Rawdb.AllocFacts Rawdb.AMapFacts Rawdb.CoverFacts Rawdb.AllocErr Rawdb.InvLayout Rawdb.CompactFacts Rawdb.InvStep
  Rawdb.Crash Rawdb.CrashFacts Rawdb.CrashInv Rawdb.CrashSound Rawdb.AllocEvents Rawdb.AllocDisciplined
  Rawdb.AllocDisciplinedOps Rawdb.AllocDisciplinedSync.

(* ---- results that leave every slot, the regions file, the pending holes and the length as they are ---- *)
Lemma MS_idle_ext s s' ids :
  (forall j, slot s' j = slot s j) -> (forall j, rf s' j = rf s j) -> pend s' = pend s -> file_len s <= file_len s' ->
  MS s s' ids [] (len (rfile s)) None.
Proof.
  intros Hsl Hrf E3 E4. constructor.
  - exact E4.
  - intros j _. auto.
  - intros p z. rewrite E3. auto.
  - intros mi a Hs Hst Ha. left. exists mi. rewrite Hsl. auto.
  - intros v. unfold rf. rewrite get_len_none. discriminate.
  - intros off len f [].
  - intros mi' Hs Hnd. right. exists mi'. rewrite <- Hsl. repeat split; auto. lia.
  - split; [apply Hrf|]. intros mi Hs Hst. exists mi. rewrite Hsl. auto.
Qed.

Lemma ok_idle_ext orc s o m s' :
  Inv s -> K m -> Cpl s m -> fst (step_total s o) = s' ->
  (forall j, slot s' j = slot s j) -> (forall j, rf s' j = rf s j) -> pend s' = pend s -> file_len s' = file_len s ->
  step_events_o orc s o = [COp (op_ids s o); CEnd] -> step_ok orc s o m.
Proof.
  intros HI HK HC E1 E2 E3 E4 E5 E6.
  apply (ok_by_ms orc s o m (op_ids s o) s' [] (len (rfile s)) None HI HK HC E1).
  - rewrite E6. unfold meta_step_events. rewrite E5, N.eqb_refl. reflexivity.
  - apply MS_idle_ext; auto. lia.
Qed.

Lemma file_len_upd s i f : file_len (upd s i f) = file_len s.
Proof. unfold upd. destruct (slot s i); reflexivity. Qed.
Lemma pend_upd s i f : pend (upd s i f) = pend s.
Proof. unfold upd. destruct (slot s i); reflexivity. Qed.
Lemma rf_upd s i f j : rf (upd s i f) j = rf s j.
Proof. unfold rf, upd. destruct (slot s i); reflexivity. Qed.

Section Sync2.
  Variables (s : st) (m : mon).
  Hypotheses (HI : Inv s) (HK : K m) (HC : Cpl s m).

  (* ---- Region::flush ------------------------------------------------------------------------------------ *)
  Lemma cpl_region_sync s' i mi mi2 mF :
    slot s i = Some mi -> (forall j, slot s' j = if j =? i then Some mi2 else slot s j) ->
    r_start mi2 = r_start mi -> r_reserved mi2 = r_reserved mi -> (r_state mi <> ST_WRITE -> r_state mi2 <> ST_WRITE) ->
    (forall j, rf s' j = rf s j) -> pend s' = pend s -> file_len s' = file_len s ->
    m_len mF = m_len m -> m_cur mF = [] -> (forall j, possible mF j = [vol_of m j]) ->
    m_pend mF = [] -> m_pdata mF = [] -> m_flushed mF = m_flushed m -> m_touched mF = m_touched m ->
    Cpl s' mF.
  Proof.
    intros Hs Hsl E1 E2 E3 Hrf Hpe Hfl F1 F2 F3 F4 F5 F6 F7. constructor.
    - rewrite F1, Hfl. apply (c_len s m HC).
    - exact F2.
    - intros j. unfold vol_of at 1. rewrite F3. cbn [last]. rewrite Hrf. apply (c_vol s m HC).
    - intros j w a Hw Ha. rewrite F3 in Hw. destruct Hw as [Hw|[]].
      assert (Hin : In (Some w) (possible m j)) by (rewrite <- Hw; apply vol_in_possible).
      destruct (c_geo s m HC j w a Hin Ha) as [(mj & Hj & Hst & Hr)|(p & z & Hp & Hr)].
      + left. destruct (N.eq_dec j i) as [->|Hne].
        * rewrite Hs in Hj. injection Hj as <-. exists mi2. rewrite Hsl, N.eqb_refl.
          split; [reflexivity|]. split; [auto|]. rewrite E1, E2. exact Hr.
        * exists mj. rewrite Hsl. replace (j =? i) with false by lia. auto.
      + right. exists p, z. rewrite Hpe. auto.
    - rewrite F6, F7. pose proof (c_fl s m HC) as H. destruct (m_flushed m) as [[fl fm]|]; [|exact I].
      intros k w Hg Ht. rewrite Hrf. exact (H k w Hg Ht).
    - rewrite F4. intros k v [].
    - rewrite F5. intros off len f j mj [].
  Qed.

  Lemma region_sync_run rest :
    mon_run m (COp [] :: CDataSync :: CMetaSync :: rest)
    = mon_run (mkMon (latest_pend (m_pend m) (m_dur m)) [] [] (m_vmem m) (m_vmem m) (m_len m) [] (m_flushed m) (m_touched m)) rest.
  Proof.
    rewrite mon_run_cons. cbn [mon_step fst snd app]. rewrite mon_run_cons. cbn [mon_step fst snd].
    rewrite mon_run_cons. cbn [mon_step fst snd m_dur m_pend m_pdata]. rewrite metasync_ok_nil by reflexivity.
    reflexivity.
  Qed.

  Theorem ok_flush_region orc id : step_ok orc s (FlushRegion id) m.
  Proof.
    destruct (find_id s id) as [i|] eqn:Ef.
    2:{ apply (ok_err orc s _ m RegionNotFound); auto. cbn [step]. unfold with_region. rewrite Ef. reflexivity. }
    destruct (find_id_some s id i Ef) as (mi & Hs & Hid).
    assert (Estep : step s (FlushRegion id) = flush_region s i)
      by (cbn [step]; unfold with_region; rewrite Ef; reflexivity).
    unfold flush_region in Estep. rewrite Hs in Estep.
    set (s1 := upd s i m_clear_dirty) in *.
    assert (S1 : forall j, slot s1 j = if j =? i then Some (m_clear_dirty mi) else slot s j).
    { intros j. unfold s1. rewrite slot_upd, Hs. reflexivity. }
    assert (Hbody : body_events orc s (FlushRegion id)
                    = if m_is_dirty mi || negb (r_state mi =? ST_CLEAN) then [CDataSync; CMetaSync] else []).
    { cbn [body_events]. unfold with_region_ev. rewrite Ef, Hs. reflexivity. }
    (* the outcomes without sync leave the slot as it is *)
    assert (Hquiet : m_is_dirty mi = false -> forall j, slot s1 j = slot s j).
    { intros Hd j. rewrite S1. destruct (j =? i) eqn:E; [|reflexivity]. assert (j = i) by lia. subst j.
      unfold m_clear_dirty. rewrite Hd. symmetry. exact Hs. }
    (* the outcomes with sync *)
    assert (Hsync : forall s2 mi2,
              step s (FlushRegion id) = AOk (s2, ONum 1) ->
              m_is_dirty mi || negb (r_state mi =? ST_CLEAN) = true ->
              (forall j, slot s2 j = if j =? i then Some mi2 else slot s j) ->
              r_start mi2 = r_start mi -> r_reserved mi2 = r_reserved mi -> (r_state mi <> ST_WRITE -> r_state mi2 <> ST_WRITE) ->
              (forall j, rf s2 j = rf s j) -> pend s2 = pend s -> file_len s2 = file_len s ->
              step_ok orc s (FlushRegion id) m).
    { intros s2 mi2 E Hb Hsl A1 A2 A3 Hrf Hpe Hfl. unfold step_ok.
      assert (Est : fst (step_total s (FlushRegion id)) = s2) by (unfold step_total; rewrite E; reflexivity).
      assert (Eev : step_events_o orc s (FlushRegion id) = [COp []; CDataSync; CMetaSync; CRegionFlushed]).
      { unfold step_events_o, closer. rewrite E, Hbody, Hb. reflexivity. }
      rewrite Est, Eev, region_sync_run. rewrite mon_run_cons. cbn [mon_step fst snd mon_run]. split; [reflexivity|].
      apply (cpl_region_sync s2 i mi mi2); try assumption; try reflexivity.
      intros j. rewrite possible_eq. cbn [m_dur m_pend]. rewrite dur_get_latest. reflexivity. }
    destruct (r_state mi =? ST_CLEAN) eqn:Ec.
    - destruct (m_is_dirty mi) eqn:Ed.
      + apply (Hsync s1 (m_clear_dirty mi) Estep); try reflexivity; try exact S1.
        * unfold m_clear_dirty. rewrite Ed. reflexivity.
        * unfold m_clear_dirty. rewrite Ed. reflexivity.
        * unfold m_clear_dirty. rewrite Ed. cbn [r_state]. auto.
        * intros j. apply rf_upd.
        * apply pend_upd.
        * apply file_len_upd.
      + apply (ok_idle_ext orc s _ m s1); auto.
        * unfold step_total. rewrite Estep. reflexivity.
        * intros j. apply rf_upd.
        * apply pend_upd.
        * apply file_len_upd.
        * unfold step_events_o, closer. rewrite Estep, Hbody. reflexivity.
    - destruct (r_state mi =? ST_WRITE) eqn:Ew.
      + (* metadata never written: refused after take_dirty_bounds; such a region is not dirty *)
        pose proof (rf_mirror s i HI) as R. rewrite Hs, Ew in R. destruct R as (_ & _ & Hd).
        apply (ok_idle_ext orc s _ m s1); auto.
        * unfold step_total. rewrite Estep. reflexivity.
        * intros j. apply rf_upd.
        * apply pend_upd.
        * apply file_len_upd.
        * unfold step_events_o. rewrite closer_not_ok by (intros x; rewrite Estep; discriminate).
          rewrite Estep. reflexivity.
      + apply (Hsync (upd s1 i (fun m0 => m_set_state m0 ST_CLEAN)) (m_set_state (m_clear_dirty mi) ST_CLEAN) Estep);
          try reflexivity.
        * apply orb_true_r.
        * intros j. rewrite slot_upd, !S1, N.eqb_refl. destruct (j =? i); reflexivity.
        * unfold m_clear_dirty. destruct (m_is_dirty mi); reflexivity.
        * unfold m_clear_dirty. destruct (m_is_dirty mi); reflexivity.
        * intros _. cbn [r_state m_set_state]. discriminate.
        * intros j. rewrite rf_upd. apply rf_upd.
        * rewrite pend_upd. apply pend_upd.
        * rewrite file_len_upd. apply file_len_upd.
  Qed.
End Sync2.
