(* Rawdb/CrashLibDefs.v — LIB-mode crash images of rawdb (C05, second fault model): pages reach
   the disk only through the library's own syncs.  DEFINITIONS ONLY.
   A crash point is a monitor state m (= an accepted prefix of the trace) plus where the crash
   falls relative to the syncs:
     LQuiet       outside any sync: the disk holds exactly the durable image;
     LInMetaSync  inside fdatasync(regions file) (the next event would be CMetaSync): each
                  4096-byte slot holds its durable version or its LATEST pending version (a page
                  cache holds one content per page: intermediate versions cannot be written);
     LInDataSync  inside fdatasync(data file) (the next event would be CDataSync): each 4 KiB page
                  of the data file holds, uniformly for the page, its durable or its current
                  volatile content. *)
From Anydb Require Import Common.Base Gen.Consts Rawdb.AMap Rawdb.Alloc Rawdb.Crash.

Inductive lib_point := LQuiet | LInDataSync | LInMetaSync.

(* the sync the crash interrupts: the trace is accepted INCLUDING that event *)
Definition lib_next (p : lib_point) : list cev :=
  match p with LQuiet => [] | LInDataSync => [CDataSync] | LInMetaSync => [CMetaSync] end.

(* the volatile version of a slot: the last pending one, else the durable one *)
Definition latest_of (m : mon) (i : N) : option slotrec := last (possible m i) None.

Definition lib_slots (p : lib_point) (m : mon) (sigma : N -> option slotrec) : Prop :=
  match p with
  | LInMetaSync => forall i, sigma i = dur_of m i \/ sigma i = latest_of m i
  | _ => forall i, sigma i = dur_of m i
  end.

Definition page_of (a : N) : N := a / PAGE_SIZE.

Definition lib_data (p : lib_point) (m : mon) (img : content) : Prop :=
  match p with
  | LInDataSync => forall pg, (forall a, page_of a = pg -> img a = m_dmem m a)
                              \/ (forall a, page_of a = pg -> img a = m_vmem m a)
  | _ => forall a, img a = m_dmem m a
  end.

(* two byte maps agree on the content [start, start+len) of a slot version (None: no content) *)
Definition agree_on (v : option slotrec) (f g : content) : Prop :=
  match v with
  | Some w => forall a, sr_start w <= a < sr_start w + sr_len w -> f a = g a
  | None => True
  end.

(* "not overwritten in place": no data write or punch of the trace segment hits the content of
   the version *)
Definition ev_misses (w : slotrec) (e : cev) : bool :=
  match e with
  | CData off len _ => disjoint off len (sr_start w) (sr_len w)
  | CPunch off len => disjoint off len (sr_start w) (sr_len w)
  | _ => true
  end.
Definition not_overwritten (v : option slotrec) (t : list cev) : bool :=
  match v with Some w => forallb (ev_misses w) t | None => true end.
(* ... and none of the data ranges still pending at the checkpoint does *)
Definition pdata_misses (v : option slotrec) (m : mon) : bool :=
  match v with
  | Some w => forallb (fun r => let '(off, len, _) := r in disjoint off len (sr_start w) (sr_len w)) (m_pdata m)
  | None => true
  end.

Definition no_metasync (t : list cev) : bool :=
  forallb (fun e => match e with CMetaSync => false | _ => true end) t.

(* an operation names none of these ids *)
Definition op_avoids (id : N) (e : cev) : bool :=
  match e with COp ids => negb (mem_in id ids) | _ => true end.
Definition meta_avoids (i : N) (e : cev) : bool :=
  match e with CMeta j _ => negb (j =? i) | _ => true end.

(* FULL statement of the LIB-mode clause.  t0 ends with the last completed sync pair
   (CDataSync immediately followed by CMetaSync); no metadata sync completed since (t1); the
   crash falls at the point p after t1.  For every slot whose durable content was not
   overwritten in place since the pair, every LIB image recovers either
     (A) the metadata of the pair together with the bytes the region had at the pair, or
     (B) (only inside a metadata sync) the volatile metadata together with the volatile bytes at
         the start of the interrupted sync
   — never a mixture. *)
Definition C05_lib_full : Prop :=
  forall t0 t1 p,
    let tc := t0 ++ [CDataSync; CMetaSync] in
    snd (mon_run mon_init (tc ++ t1 ++ lib_next p)) = true ->
    no_metasync t1 = true ->
    let m0 := fst (mon_run mon_init tc) in
    let m := fst (mon_run mon_init (tc ++ t1)) in
    forall i sigma img, lib_slots p m sigma -> lib_data p m img ->
      not_overwritten (dur_of m0 i) t1 = true ->
      (sigma i = dur_of m0 i /\ agree_on (sigma i) img (m_vmem m0))
      \/ (p = LInMetaSync /\ sigma i = latest_of m i /\ agree_on (sigma i) img (m_vmem m)).
