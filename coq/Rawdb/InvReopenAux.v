(* Rawdb/InvReopenAux.v — building blocks for `reopen` (Regions::fill + Layout::from):
   value maps over amaps, `h2s_push` keeps the two hole maps in agreement, the loop invariant
   of `gaps`, the characterisation of `s2r_of`.  PROOF FILE. *)
From Anydb Require Import Common.Base Gen.Consts Rawdb.AMap Rawdb.Alloc Rawdb.AllocInv
  Rawdb.AMapFacts Rawdb.CoverFacts Rawdb.InvLayout.

(* ---- small list facts ---- *)
Lemma nth_opt_map {A B} (f : A -> B) l n : nth_opt (map f l) n = option_map f (nth_opt l n).
Proof. revert n. induction l as [|h t IH]; intros [|n]; cbn [map nth_opt option_map]; auto. Qed.

Lemma NoDup_snoc {A} (l : list A) a : NoDup l -> ~ In a l -> NoDup (l ++ [a]).
Proof.
  induction l as [|h t IH]; intros Hn Hi; cbn [app].
  - constructor; [intros []|constructor].
  - inversion Hn as [|? ? Hh Ht]; subst. constructor.
    + rewrite in_app_iff. intros [H|[H|[]]]; [exact (Hh H)|]. apply Hi. left. symmetry. exact H.
    + apply IH; [exact Ht|]. intros H. apply Hi. right. exact H.
Qed.

(* ---- mapping the values of an amap ---- *)
Definition vmap {V W} (f : V -> W) (m : amap V) : amap W := map (fun kv => (fst kv, f (snd kv))) m.

Lemma vmap_ains {V W} (f : V -> W) k v m : vmap f (ains k v m) = ains k (f v) (vmap f m).
Proof.
  unfold vmap. induction m as [|[k1 v1] t IH]; cbn [ains map fst snd]; [reflexivity|].
  destruct (k <? k1); [reflexivity|]. destruct (k =? k1); [reflexivity|].
  cbn [map fst snd]. f_equal. exact IH.
Qed.

Lemma aget_vmap {V W} (f : V -> W) k m : aget k (vmap f m) = option_map f (aget k m).
Proof.
  unfold vmap. induction m as [|[k1 v1] t IH]; cbn [aget map fst snd option_map]; [reflexivity|].
  destruct (k =? k1); [reflexivity|exact IH].
Qed.

(* ---- hole_to_starts agrees with start_to_hole, abstracted over the two maps ---- *)
Definition agrees (H : amap N) (Q : amap (list N)) : Prop :=
  (forall start size, aget start H = Some size <-> exists l, aget size Q = Some l /\ In start l)
  /\ (forall size l, aget size Q = Some l -> l <> [] /\ NoDup l).

Lemma h2s_agrees_agrees s : h2s_agrees s <-> agrees (holes s) (h2s s).
Proof. reflexivity. Qed.

Lemma agrees_nil : agrees [] [].
Proof.
  split.
  - intros start size. split; [discriminate|]. intros (l & H & _). discriminate.
  - intros size l H. discriminate.
Qed.

Lemma asorted_h2s_push Q z a : asorted Q -> asorted (h2s_push Q z a).
Proof. intros H. unfold h2s_push. destruct (aget z Q); now apply asorted_ains. Qed.

Lemma agrees_push H Q a z : agrees H Q -> aget a H = None -> agrees (ains a z H) (h2s_push Q z a).
Proof.
  intros [HA HB] Hn.
  assert (Hnot : forall size l, aget size Q = Some l -> ~ In a l).
  { intros size l Hq Hi. assert (Hc : aget a H = Some size) by (apply HA; eauto). congruence. }
  set (l0 := match aget z Q with Some l => l ++ [a] | None => [a] end).
  assert (Hp : h2s_push Q z a = ains z l0 Q).
  { unfold h2s_push, l0. destruct (aget z Q); reflexivity. }
  rewrite Hp. split.
  - intros start size. rewrite aget_ains. destruct (start =? a) eqn:E.
    + assert (start = a) by lia. subst start. split.
      * intros [= <-]. exists l0. rewrite aget_ains, N.eqb_refl. split; [reflexivity|].
        unfold l0. destruct (aget z Q); [apply in_or_app; right|]; left; reflexivity.
      * intros (l & Hl & Hi). rewrite aget_ains in Hl. destruct (size =? z) eqn:E2.
        { f_equal. lia. }
        exfalso. eapply Hnot; eauto.
    + rewrite HA. split.
      * intros (l & Hl & Hi). destruct (size =? z) eqn:E2.
        -- assert (size = z) by lia. subst size. exists l0. rewrite aget_ains, N.eqb_refl.
           split; [reflexivity|]. unfold l0. rewrite Hl. apply in_or_app. left. exact Hi.
        -- exists l. rewrite aget_ains, E2. auto.
      * intros (l & Hl & Hi). rewrite aget_ains in Hl. destruct (size =? z) eqn:E2.
        -- assert (size = z) by lia. subst size. injection Hl as <-. unfold l0 in Hi.
           destruct (aget z Q) as [l1|] eqn:E3.
           ++ apply in_app_or in Hi. destruct Hi as [Hi|[Hi|[]]]; [eauto|lia].
           ++ destruct Hi as [Hi|[]]. lia.
        -- eauto.
  - intros size l. rewrite aget_ains. destruct (size =? z) eqn:E2.
    + intros [= <-]. unfold l0. destruct (aget z Q) as [l1|] eqn:E3.
      * destruct (HB _ _ E3) as [_ Hnd]. split. { destruct l1; discriminate. }
        apply NoDup_snoc; [exact Hnd|eapply Hnot; eauto].
      * split; [discriminate|]. constructor; [intros []|constructor].
    + apply HB.
Qed.

(* ---- the loop invariant of `gaps` ----
   H, Q: the two hole maps built so far; p: prev_end; X a: how many of the regions already
   passed own address a. *)
Record GI (H : amap N) (Q : amap (list N)) (p : N) (X : N -> nat) : Prop := mkGI {
  gi_sH : asorted H;
  gi_sQ : asorted Q;
  gi_agr : agrees H Q;
  gi_cov : forall a, (owners H a + X a)%nat = if a <? p then 1%nat else 0%nat;
  gi_al : p mod PAGE_SIZE = 0;
  gi_hal : forall a z, In (a, z) H -> aligned (a, z);
  gi_adj : forall a z, In (a, z) H -> (0 < X (a + z)%N)%nat
}.

Lemma GI_nil : GI [] [] 0 (fun _ => 0%nat).
Proof.
  constructor; try exact I.
  - exact agrees_nil.
  - intros a. rewrite owners_nil. destruct (a <? 0) eqn:E; [lia|reflexivity].
  - apply N.mod_0_l. exact PAGE_nz.
  - intros a z [].
  - intros a z [].
Qed.

Lemma GI_key_absent H Q p X : GI H Q p X -> aget p H = None.
Proof.
  intros G. destruct (aget p H) as [z|] eqn:E; [|reflexivity]. exfalso.
  apply aget_in in E. destruct (gi_hal _ _ _ _ G _ _ E) as (_ & _ & Hz). cbn [fst snd] in Hz.
  pose proof (owners_in _ _ p E) as Ho. rewrite cov_true in Ho by (unfold covers; cbn [fst snd]; lia).
  pose proof (gi_cov _ _ _ _ G p) as Hc. destruct (p <? p) eqn:E2; lia.
Qed.

Lemma GI_step s p X start z :
  GI (holes s) (h2s s) p X -> p <= start ->
  start mod PAGE_SIZE = 0 -> z mod PAGE_SIZE = 0 -> 0 < z ->
  let s' := if p =? start then s else insert_hole s p (start - p) in
  GI (holes s') (h2s s') (start + z) (fun a => (X a + cov (start, z) a)%nat)
  /\ exists H Q, s' = set_holes s H Q.
Proof.
  intros G Hle Hs Hz Hpos. cbv zeta.
  assert (Hcs : cov (start, z) start = 1%nat) by (apply cov_true; unfold covers; cbn [fst snd]; lia).
  destruct (p =? start) eqn:E.
  - assert (p = start) by lia. subst start. split; [|exists (holes s), (h2s s); destruct s; reflexivity].
    constructor.
    + exact (gi_sH _ _ _ _ G).
    + exact (gi_sQ _ _ _ _ G).
    + exact (gi_agr _ _ _ _ G).
    + intros a. generalize (gi_cov _ _ _ _ G a). unfold cov, covers. cbn [fst snd].
      destruct ((p <=? a) && (a <? p + z)) eqn:E3; destruct (a <? p) eqn:E1;
        destruct (a <? p + z) eqn:E2; lia.
    + apply mod0_add; [exact PAGE_nz|exact Hs|exact Hz].
    + exact (gi_hal _ _ _ _ G).
    + intros a w HI. pose proof (gi_adj _ _ _ _ G a w HI). lia.
  - split; [|eexists; eexists; reflexivity]. st_simpl.
    pose proof (GI_key_absent _ _ _ _ G) as Habs.
    constructor.
    + apply asorted_ains. exact (gi_sH _ _ _ _ G).
    + apply asorted_h2s_push. exact (gi_sQ _ _ _ _ G).
    + apply agrees_push; [exact (gi_agr _ _ _ _ G)|exact Habs].
    + intros a. rewrite owners_ains_absent by exact Habs.
      generalize (gi_cov _ _ _ _ G a). unfold cov, covers. cbn [fst snd].
      destruct ((start <=? a) && (a <? start + z)) eqn:E3;
        destruct ((p <=? a) && (a <? p + (start - p))) eqn:E4;
        destruct (a <? p) eqn:E1; destruct (a <? start + z) eqn:E2; lia.
    + apply mod0_add; [exact PAGE_nz|exact Hs|exact Hz].
    + intros a w HI. apply in_ains in HI. destruct HI as [HE|HI].
      * inversion HE; subst. repeat split; cbn [fst snd].
        -- exact (gi_al _ _ _ _ G).
        -- apply mod0_sub; [exact PAGE_nz|exact Hs|exact (gi_al _ _ _ _ G)].
        -- lia.
      * exact (gi_hal _ _ _ _ G _ _ HI).
    + intros a w HI. apply in_ains in HI. destruct HI as [HE|HI].
      * inversion HE; subst. replace (p + (start - p)) with start by lia. lia.
      * pose proof (gi_adj _ _ _ _ G a w HI). lia.
Qed.

(* the size recorded for the region of slot i *)
Definition rsv (sl : list (option rmeta)) (i : N) : N :=
  match get sl i with Some (Some m) => r_reserved m | _ => 0 end.

(* `gaps` succeeded: the final hole maps satisfy the loop invariant for every region of t *)
Lemma gaps_spec sl B t : forall p s s1 X,
  (forall a i, In (a, i) t ->
     exists m, get sl i = Some (Some m) /\ r_start m = a /\ aligned (rext m) /\ a + r_reserved m <= B) ->
  GI (holes s) (h2s s) p X -> p <= B ->
  gaps sl t p s = Some s1 ->
  exists H Q L X', s1 = set_holes s H Q /\ GI H Q L X' /\ L <= B /\
     (forall a, X' a = (X a + owners (vmap (rsv sl) t) a)%nat).
Proof.
  induction t as [|[start i] t IH]; intros p s s1 X Ht HG HB Hg; cbn [gaps] in Hg.
  - injection Hg as <-. exists (holes s), (h2s s), p, X. split; [destruct s; reflexivity|].
    split; [exact HG|]. split; [exact HB|]. intros a. cbn [vmap map]. rewrite owners_nil. lia.
  - destruct (Ht start i (or_introl eq_refl)) as (m & Hm & Hst & Hal & Hend).
    rewrite Hm in Hg. destruct (start <? p) eqn:Elt; [discriminate|].
    destruct Hal as (Ha1 & Ha2 & Ha3). cbn [rext fst snd] in Ha1, Ha2, Ha3. rewrite Hst in Ha1.
    destruct (GI_step s p X start (r_reserved m) HG) as [HG' (H0 & Q0 & Hs')]; try assumption; [lia|].
    cbv zeta in HG', Hs'.
    set (s2 := if p =? start then s else insert_hole s p (start - p)) in *.
    destruct (IH _ s2 s1 _ (fun a j HI => Ht a j (or_intror HI)) HG' Hend Hg) as (H & Q & L & X' & E1 & G1 & HL & HX).
    exists H, Q, L, X'. split; [rewrite E1, Hs'; reflexivity|]. split; [exact G1|]. split; [exact HL|].
    intros a. rewrite HX. cbn [vmap map fst snd]. rewrite owners_cons. fold (vmap (rsv sl) t).
    unfold rsv at 2. rewrite Hm. lia.
Qed.

(* ---- s2r_of: every live slot is entered under its start ---- *)
Lemma s2r_of_spec (sl : list (option rmeta)) l : forall i acc,
  (forall n m, nth_opt l n = Some (Some m) -> aget (r_start m) acc = None) ->
  (forall n n' m m', nth_opt l n = Some (Some m) -> nth_opt l n' = Some (Some m') ->
                     r_start m = r_start m' -> n = n') ->
  (forall n m, nth_opt l n = Some (Some m) -> get sl (i + N.of_nat n) = Some (Some m)) ->
  asorted acc ->
  asorted (s2r_of l i acc) /\
  (forall a j, aget a (s2r_of l i acc) = Some j <->
               aget a acc = Some j \/ exists n m, nth_opt l n = Some (Some m) /\ r_start m = a /\ j = i + N.of_nat n) /\
  (forall a, owners (vmap (rsv sl) (s2r_of l i acc)) a
             = (owners (vmap (rsv sl) acc) a + owners (region_exts l) a)%nat).
Proof.
  induction l as [|[m0|] t IH]; intros i acc H1 H2 H3 Hs; cbn [s2r_of region_exts].
  - split; [exact Hs|]. split.
    + intros a j. split; [auto|]. intros [H|(n & m & H & _)]; [exact H|]. destruct n; discriminate.
    + intros a. rewrite owners_nil. lia.
  - assert (Habs : aget (r_start m0) acc = None) by (apply (H1 O m0); reflexivity).
    destruct (IH (i + 1) (ains (r_start m0) i acc)) as (R1 & R2 & R3).
    + intros n m Hn. rewrite aget_ains. destruct (r_start m =? r_start m0) eqn:E.
      * assert (Heq : r_start m = r_start m0) by lia.
        specialize (H2 (S n) O m m0 Hn eq_refl Heq). discriminate.
      * exact (H1 (S n) m Hn).
    + intros n n' m m' Hn Hn' Heq. specialize (H2 (S n) (S n') m m' Hn Hn' Heq). lia.
    + intros n m Hn. specialize (H3 (S n) m Hn).
      replace (i + 1 + N.of_nat n) with (i + N.of_nat (S n)) by lia. exact H3.
    + apply asorted_ains. exact Hs.
    + split; [exact R1|]. split.
      * intros a j. rewrite R2, aget_ains. split.
        -- intros [H|(n & m & Hn & Ha & Hj)].
           ++ destruct (a =? r_start m0) eqn:E; [|left; exact H].
              injection H as <-. right. exists O, m0. split; [reflexivity|]. split; lia.
           ++ right. exists (S n), m. split; [exact Hn|]. split; [exact Ha|lia].
        -- intros [H|(n & m & Hn & Ha & Hj)].
           ++ left. destruct (a =? r_start m0) eqn:E; [|exact H].
              assert (a = r_start m0) by lia. subst a. congruence.
           ++ destruct n as [|n].
              ** cbn [nth_opt] in Hn. injection Hn as <-. left. subst a.
                 rewrite N.eqb_refl. f_equal. lia.
              ** right. exists n, m. split; [exact Hn|]. split; [exact Ha|lia].
      * intros a. rewrite R3, vmap_ains, owners_ains_absent by (rewrite aget_vmap, Habs; reflexivity).
        rewrite owners_cons. unfold rsv at 1. specialize (H3 O m0 eq_refl).
        replace (i + N.of_nat 0) with i in H3 by lia. rewrite H3. lia.
  - destruct (IH (i + 1) acc) as (R1 & R2 & R3).
    + intros n m Hn. exact (H1 (S n) m Hn).
    + intros n n' m m' Hn Hn' Heq. specialize (H2 (S n) (S n') m m' Hn Hn' Heq). lia.
    + intros n m Hn. specialize (H3 (S n) m Hn).
      replace (i + 1 + N.of_nat n) with (i + N.of_nat (S n)) by lia. exact H3.
    + exact Hs.
    + split; [exact R1|]. split; [|exact R3].
      intros a j. rewrite R2. split.
      * intros [H|(n & m & Hn & Ha & Hj)]; [left; exact H|].
        right. exists (S n), m. split; [exact Hn|]. split; [exact Ha|lia].
      * intros [H|(n & m & Hn & Ha & Hj)]; [left; exact H|].
        destruct n as [|n]; [discriminate|].
        right. exists n, m. split; [exact Hn|]. split; [exact Ha|lia].
Qed.
