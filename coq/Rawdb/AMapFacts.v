(* Rawdb/AMapFacts.v — specification lemmas for the sorted association lists of AMap.v
   (aget / ains / arem / alast / apred / afirst_geq over `asorted` lists).  PROOF FILE. *)
From Anydb Require Import Common.Base Rawdb.AMap Rawdb.AllocInv.

Section AMapFacts.
Context {V : Type}.
Implicit Types (m t : amap V) (k : N) (v : V).

(* every key of m is strictly above k *)
Definition alb k m : Prop := forall k' v', In (k', v') m -> k < k'.

Lemma asorted_cons k v t : asorted ((k, v) :: t) <-> alb k t /\ asorted t.
Proof.
  revert k v. induction t as [|[k1 v1] t IH]; intros k v.
  - cbn. split; [intros _; split; [intros k' v' []|exact I]|intros _; exact (conj I I)].
  - change (asorted ((k, v) :: (k1, v1) :: t)) with (k < k1 /\ asorted ((k1, v1) :: t)).
    rewrite (IH k1 v1). unfold alb. split.
    + intros (H1 & H2 & H3). split; [|split; assumption].
      intros k' v' [E|HI]; [inversion E; subst; assumption|].
      specialize (H2 _ _ HI). lia.
    + intros (H1 & H2). split; [apply (H1 k1 v1); left; reflexivity|exact H2].
Qed.

Lemma asorted_nil : asorted (@nil (N * V)).
Proof. exact I. Qed.

Lemma aget_in k v m : aget k m = Some v -> In (k, v) m.
Proof.
  induction m as [|[k1 v1] t IH]; cbn [aget]; [discriminate|].
  destruct (k =? k1) eqn:E.
  - intros [= <-]. left. f_equal. lia.
  - intros H. right. auto.
Qed.

Lemma alb_aget k m : alb k m -> aget k m = None.
Proof.
  induction m as [|[k1 v1] t IH]; intros H; cbn [aget]; [reflexivity|].
  destruct (k =? k1) eqn:E.
  - specialize (H k1 v1 (or_introl eq_refl)). lia.
  - apply IH. intros k' v' HI. apply (H k' v'). right. exact HI.
Qed.

Lemma in_aget k v m : asorted m -> In (k, v) m -> aget k m = Some v.
Proof.
  induction m as [|[k1 v1] t IH]; [intros _ []|].
  rewrite asorted_cons. intros [Hlb Hs] [E|HI]; cbn [aget].
  - inversion E; subst. rewrite N.eqb_refl. reflexivity.
  - specialize (Hlb _ _ HI). destruct (k =? k1) eqn:E; [lia|]. auto.
Qed.

Lemma aget_none_in k v m : aget k m = None -> ~ In (k, v) m.
Proof.
  induction m as [|[k1 v1] t IH]; cbn [aget]; [intros _ []|].
  destruct (k =? k1) eqn:E; [discriminate|].
  intros H [E1|HI]; [inversion E1; lia|]. exact (IH H HI).
Qed.

Lemma in_key_aget k v m : In (k, v) m -> exists v', aget k m = Some v'.
Proof.
  induction m as [|[k1 v1] t IH]; [intros []|]. cbn [aget].
  intros [E|HI].
  - inversion E; subst. rewrite N.eqb_refl. eauto.
  - destruct (k =? k1); eauto.
Qed.

(* ---- ains ---- *)
Lemma aget_ains_same k v m : aget k (ains k v m) = Some v.
Proof.
  induction m as [|[k1 v1] t IH]; cbn [ains aget].
  - now rewrite N.eqb_refl.
  - destruct (k <? k1) eqn:E1; cbn [aget]. { now rewrite N.eqb_refl. }
    destruct (k =? k1) eqn:E2; cbn [aget]. { now rewrite N.eqb_refl. }
    rewrite E2. exact IH.
Qed.

Lemma aget_ains_other k k' v m : k <> k' -> aget k' (ains k v m) = aget k' m.
Proof.
  intros Hne. induction m as [|[k1 v1] t IH]; cbn [ains aget].
  - destruct (k' =? k) eqn:E; [lia|reflexivity].
  - destruct (k <? k1) eqn:E1; cbn [aget].
    { destruct (k' =? k) eqn:E; [lia|reflexivity]. }
    destruct (k =? k1) eqn:E2; cbn [aget].
    { destruct (k' =? k) eqn:E; [lia|]. destruct (k' =? k1) eqn:E3; [lia|reflexivity]. }
    rewrite IH. reflexivity.
Qed.

Lemma aget_ains k k' v m : aget k' (ains k v m) = if k' =? k then Some v else aget k' m.
Proof.
  destruct (k' =? k) eqn:E.
  - assert (k' = k) by lia. subst. apply aget_ains_same.
  - apply aget_ains_other. lia.
Qed.

Lemma in_ains x k v m : In x (ains k v m) -> x = (k, v) \/ In x m.
Proof.
  induction m as [|[k1 v1] t IH]; cbn [ains].
  - intros [E|[]]. left. auto.
  - destruct (k <? k1). { intros [E|HI]; auto. }
    destruct (k =? k1). { intros [E|HI]; auto. right. right. exact HI. }
    intros [E|HI]. { right. left. exact E. }
    destruct (IH HI); auto. right. right. assumption.
Qed.

Lemma in_ains_same k v m : In (k, v) (ains k v m).
Proof. apply aget_in, aget_ains_same. Qed.

Lemma in_ains_other k k' v v' m : In (k', v') m -> k' <> k -> In (k', v') (ains k v m).
Proof.
  intros HI Hne. induction m as [|[k1 v1] t IH]; [destruct HI|]. cbn [ains].
  destruct (k <? k1). { right. exact HI. }
  destruct (k =? k1) eqn:E.
  - destruct HI as [E1|HI]; [inversion E1; lia|]. right. exact HI.
  - destruct HI as [E1|HI]; [left; exact E1|]. right. auto.
Qed.

Lemma asorted_ains k v m : asorted m -> asorted (ains k v m).
Proof.
  induction m as [|[k1 v1] t IH]; cbn [ains].
  - intros _. cbn. auto.
  - intros Hs. pose proof Hs as Hs'. rewrite asorted_cons in Hs'. destruct Hs' as [Hlb Hst].
    destruct (k <? k1) eqn:E1.
    { rewrite asorted_cons. split; [|exact Hs].
      intros k' v' [E|HI]; [inversion E; subst; lia|]. specialize (Hlb _ _ HI). lia. }
    destruct (k =? k1) eqn:E2.
    { rewrite asorted_cons. split; [|exact Hst]. intros k' v' HI. specialize (Hlb _ _ HI). lia. }
    rewrite asorted_cons. split; [|auto]. intros k' v' HI. apply in_ains in HI.
    destruct HI as [E|HI]; [inversion E; subst; lia|]. eauto.
Qed.

(* ---- arem ---- *)
Lemma in_arem x k m : In x (arem k m) -> In x m.
Proof.
  induction m as [|[k1 v1] t IH]; cbn [arem]; [auto|].
  destruct (k =? k1). { intros H. right. exact H. }
  intros [E|HI]; [left; exact E|right; auto].
Qed.

Lemma in_arem_other k k' v' m : In (k', v') m -> k' <> k -> In (k', v') (arem k m).
Proof.
  intros HI Hne. induction m as [|[k1 v1] t IH]; [destruct HI|]. cbn [arem].
  destruct (k =? k1) eqn:E.
  - destruct HI as [E1|HI]; [inversion E1; lia|exact HI].
  - destruct HI as [E1|HI]; [left; exact E1|right; auto].
Qed.

Lemma asorted_arem k m : asorted m -> asorted (arem k m).
Proof.
  induction m as [|[k1 v1] t IH]; cbn [arem]; [auto|].
  rewrite asorted_cons. intros [Hlb Hs].
  destruct (k =? k1); [exact Hs|]. rewrite asorted_cons. split; [|auto].
  intros k' v' HI. apply in_arem in HI. eauto.
Qed.

Lemma aget_arem_other k k' m : k <> k' -> aget k' (arem k m) = aget k' m.
Proof.
  intros Hne. induction m as [|[k1 v1] t IH]; cbn [arem aget]; [reflexivity|].
  destruct (k =? k1) eqn:E; cbn [aget].
  - destruct (k' =? k1) eqn:E2; [lia|reflexivity].
  - rewrite IH. reflexivity.
Qed.

Lemma aget_arem_same k m : asorted m -> aget k (arem k m) = None.
Proof.
  induction m as [|[k1 v1] t IH]; cbn [arem aget]; [reflexivity|].
  rewrite asorted_cons. intros [Hlb Hs].
  destruct (k =? k1) eqn:E; cbn [aget].
  - apply alb_aget. assert (k = k1) by lia. subst. exact Hlb.
  - rewrite E. auto.
Qed.

Lemma aget_arem k k' m : asorted m -> aget k' (arem k m) = if k' =? k then None else aget k' m.
Proof.
  intros Hs. destruct (k' =? k) eqn:E.
  - assert (k' = k) by lia. subst. now apply aget_arem_same.
  - apply aget_arem_other. lia.
Qed.

Lemma arem_absent k m : aget k m = None -> arem k m = m.
Proof.
  induction m as [|[k1 v1] t IH]; cbn [arem aget]; [reflexivity|].
  destruct (k =? k1); [discriminate|]. intros H. now rewrite IH.
Qed.

(* ---- alast ---- *)
Lemma alast_in m x : alast m = Some x -> In x m.
Proof.
  induction m as [|y t IH]; cbn [alast]; [discriminate|].
  destruct t as [|z t']; [intros [= ->]; left; reflexivity|].
  intros H. right. exact (IH H).
Qed.

Lemma alast_none m : alast m = None -> m = [].
Proof.
  induction m as [|y t IH]; cbn [alast]; [reflexivity|].
  destruct t as [|z t']; [discriminate|]. intros H. specialize (IH H). discriminate.
Qed.

Lemma alast_max m k v k' v' : asorted m -> alast m = Some (k, v) -> In (k', v') m -> k' <= k.
Proof.
  induction m as [|[k1 v1] t IH]; [intros _ _ []|].
  rewrite asorted_cons. intros [Hlb Hs] Hl HI.
  destruct t as [|z t'].
  - cbn in Hl. injection Hl as -> ->. destruct HI as [E|[]]. inversion E. lia.
  - change (alast ((k1, v1) :: z :: t')) with (alast (z :: t')) in Hl.
    destruct HI as [E|HI].
    + inversion E; subst. apply alast_in in Hl. specialize (Hlb _ _ Hl). lia.
    + eauto.
Qed.

(* ---- apred: the entry with the largest key strictly below k ---- *)
Lemma apred_some k m k' v' : apred k m = Some (k', v') -> In (k', v') m /\ k' < k.
Proof.
  induction m as [|[k1 v1] t IH]; cbn [apred]; [discriminate|].
  destruct (k1 <? k) eqn:E; [|discriminate].
  destruct (apred k t) as [x|] eqn:Ep.
  - intros [= ->]. destruct (IH eq_refl). split; [right|]; assumption.
  - intros [= -> ->]. split; [left; reflexivity|lia].
Qed.

Lemma apred_max k m k' v' k2 v2 :
  asorted m -> apred k m = Some (k', v') -> In (k2, v2) m -> k2 < k -> k2 <= k'.
Proof.
  induction m as [|[k1 v1] t IH]; cbn [apred]; [intros _ [=]|].
  rewrite asorted_cons. intros [Hlb Hs].
  destruct (k1 <? k) eqn:E; [|discriminate].
  destruct (apred k t) as [x|] eqn:Ep.
  - intros [= ->] [E2|HI] Hlt.
    + inversion E2; subst. apply apred_some in Ep. destruct Ep as [Ep _].
      specialize (Hlb _ _ Ep). lia.
    + eauto.
  - intros [= -> ->] [E2|HI] Hlt; [inversion E2; lia|].
    exfalso. clear IH. induction t as [|[k3 v3] t IH2]; [destruct HI|].
    cbn [apred] in Ep. destruct (k3 <? k) eqn:E3.
    + destruct (apred k t); discriminate.
    + rewrite asorted_cons in Hs. destruct Hs as [Hlb3 Hs3].
      destruct HI as [E4|HI]; [inversion E4; lia|]. specialize (Hlb3 _ _ HI). lia.
Qed.

(* ---- afirst_geq: the entry with the smallest key >= k ---- *)
Lemma afirst_geq_some k m k' v' : afirst_geq k m = Some (k', v') -> In (k', v') m /\ k <= k'.
Proof.
  induction m as [|[k1 v1] t IH]; cbn [afirst_geq]; [discriminate|].
  destruct (k <=? k1) eqn:E.
  - intros [= -> ->]. split; [left; reflexivity|lia].
  - intros H. destruct (IH H). split; [right|]; assumption.
Qed.

Lemma afirst_geq_min k m k' v' k2 v2 :
  asorted m -> afirst_geq k m = Some (k', v') -> In (k2, v2) m -> k <= k2 -> k' <= k2.
Proof.
  induction m as [|[k1 v1] t IH]; cbn [afirst_geq]; [intros _ [=]|].
  rewrite asorted_cons. intros [Hlb Hs].
  destruct (k <=? k1) eqn:E.
  - intros [= -> ->] [E2|HI] _; [inversion E2; lia|]. specialize (Hlb _ _ HI). lia.
  - intros H [E2|HI] Hle; [inversion E2; lia|]. eauto.
Qed.

Lemma afirst_geq_none k m k2 v2 : afirst_geq k m = None -> In (k2, v2) m -> k2 < k.
Proof.
  induction m as [|[k1 v1] t IH]; cbn [afirst_geq]; [intros _ []|].
  destruct (k <=? k1) eqn:E; [discriminate|].
  intros H [E2|HI]; [inversion E2; lia|]. eauto.
Qed.

End AMapFacts.
