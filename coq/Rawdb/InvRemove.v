(* Rawdb/InvRemove.v — Inv is preserved by remove / retain (a region's extent becomes a pending
   hole), and by the operations that only touch handles, the file length or the regions file.
   PROOF FILE. *)
From Anydb Require Import Common.Base Gen.Consts Rawdb.AMap Rawdb.Alloc Rawdb.AllocInv
  Rawdb.AMapFacts Rawdb.CoverFacts Rawdb.InvLayout Rawdb.AllocErr Rawdb.InvOps.

Lemma Forall_ains (P : ext -> Prop) k v (m : amap N) : Forall P m -> P (k, v) -> Forall P (ains k v m).
Proof.
  intros Hm Hk. apply Forall_forall. intros e HI. apply in_ains in HI. destruct HI as [->|HI]; [exact Hk|].
  rewrite Forall_forall in Hm. auto.
Qed.

Lemma Forall_arem (P : ext -> Prop) k (m : amap N) : Forall P m -> Forall P (arem k m).
Proof.
  intros Hm. apply Forall_forall. intros e HI. apply in_arem in HI. rewrite Forall_forall in Hm. auto.
Qed.

Lemma inv_sum_le1 s a : Inv s ->
  (owners (region_exts (slots s)) a + owners (holes s) a + owners (pend s) a + owners (resv s) a <= 1)%nat.
Proof. intros H. rewrite <- owners_extents. now apply inv_owners_le1. Qed.

Lemma inv_region_start_not_pend s i m : Inv s -> slot s i = Some m -> aget (r_start m) (pend s) = None.
Proof.
  intros HI Hs. destruct (aget (r_start m) (pend s)) as [w|] eqn:E; [exfalso|reflexivity].
  apply aget_in in E.
  destruct (inv_region_aligned s i m HI Hs) as (_ & _ & Hp1).
  destruct (inv_ext_aligned s (r_start m, w) HI) as (_ & _ & Hp2). { apply in_extents. auto. }
  cbn [fst snd rext] in Hp1, Hp2.
  pose proof (inv_sum_le1 s (r_start m) HI) as Hle.
  pose proof (owners_in _ _ (r_start m) (slot_in_region_exts s i m Hs)) as Ho1.
  pose proof (owners_in _ _ (r_start m) E) as Ho2.
  rewrite cov_true in Ho1 by (unfold covers, rext; cbn [fst snd]; lia).
  rewrite cov_true in Ho2 by (unfold covers; cbn [fst snd]; lia).
  lia.
Qed.

Lemma inv_start_inj s i j mi mj : Inv s -> slot s i = Some mi -> slot s j = Some mj -> r_start mi = r_start mj -> i = j.
Proof.
  intros HI Hi Hj Heq. pose proof (inv_s2r_ok s HI i mi Hi) as H1. pose proof (inv_s2r_ok s HI j mj Hj) as H2.
  rewrite Heq in H1. rewrite H1 in H2. now inversion H2.
Qed.

Lemma inv_remove_idx s i s' : Inv s -> remove_idx s i = AOk s' -> Inv s' /\ layout_len s' = layout_len s.
Proof.
  intros HI. unfold remove_idx. destruct (slot s i) as [m|] eqn:Hs; [|discriminate].
  destruct (is_held s (r_id m)); [discriminate|].
  rewrite layout_remove_region_ok by (auto using inv_s2r_ok). cbn [abind]. intros [= <-].
  set (s' := set_rfile _ _).
  assert (Hsl : forall j, slot s' j = if j =? i then None else slot s j).
  { intros j. subst s'. rewrite slot_set_rfile, slot_put_slot. reflexivity. }
  destruct (inv_parts_aligned s HI) as (Ar & Ah & Ap & Av).
  destruct (inv_sorted s HI) as (S1 & S2 & S3 & S4 & S5).
  pose proof (inv_region_start_not_pend s i m HI Hs) as Hnp.
  apply mk_inv.
  - apply aligned_extents; subst s'; st_simpl; auto.
    + intros j mj. rewrite Hsl. destruct (j =? i); [discriminate|eauto].
    + apply Forall_ains; auto. apply (Ar i m Hs).
  - intros a. rewrite owners_extents. subst s'. st_simpl.
    pose proof (owners_put_slot s i None a) as Ho. rewrite Hs in Ho. cbn [oext] in Ho.
    rewrite owners_ains_absent by exact Hnp.
    pose proof (inv_cover s HI a) as Hc. rewrite owners_extents in Hc. unfold rext in Ho. lia.
  - intros j mj. rewrite Hsl. destruct (j =? i); [discriminate|apply (inv_len s HI)].
  - intros a j. subst s'. st_simpl. rewrite aget_arem by exact S1.
    fold (set_rfile (put_slot (set_pend (set_s2r s (arem (r_start m) (s2r s))) (ains (r_start m) (r_reserved m) (pend s))) i None)
           (set_at (rfile s) (N.to_nat i) None None)).
    rewrite slot_set_rfile, slot_put_slot, slot_set_pend, slot_set_s2r.
    destruct (a =? r_start m) eqn:Ea.
    + split; [discriminate|]. intros (mj & Hj & Hst). destruct (j =? i) eqn:Ej; [discriminate|].
      assert (i = j) by (eapply inv_start_inj; eauto; lia). lia.
    + rewrite (inv_s2r s HI a j). destruct (j =? i) eqn:Ej; [|reflexivity].
      assert (j = i) by lia; subst j. split; [|intros (mj & [=] & _)].
      intros (mj & Hj & Hst). rewrite Hs in Hj. inversion Hj; subst mj. lia.
  - subst s'. st_simpl. repeat split; auto using asorted_arem, asorted_ains.
  - apply (inv_h2s s HI).
  - apply (inv_no_adjacent_holes s HI).
  - apply (inv_file s HI).
  - apply (ids_put s s' i None (inv_ids s HI) Hsl). exact I.
  - apply (mirrors_gen s s' i None (inv_rfile s HI) Hsl).
    + intros j Hne. subst s'. st_simpl. now apply get_set_at_other.
    + left. subst s'. st_simpl. apply get_set_at_same.
  - apply (inv_no_resv s HI).
Qed.

Lemma inv_remove s id : Inv s ->
  match remove s id with
  | AOk (s', _) => Inv s' /\ layout_len s' = layout_len s
  | AErr s' _ => Inv s' /\ layout_len s' = layout_len s
  | APanic => True
  end.
Proof.
  intros HI. unfold remove. destruct (find_id s id) as [i|]; [|auto].
  destruct (remove_idx s i) as [s1|s1 e|] eqn:Er; cbn [abind]; [|assert (s1 = s) by (eapply remove_idx_err; eauto using inv_s2r_ok); subst s1; auto|exact I].
  eapply inv_remove_idx; eauto.
Qed.

Lemma inv_retain_from fuel : forall s0 keep i, Inv s0 ->
  match retain_from fuel s0 keep i with
  | AOk s1 => Inv s1 /\ layout_len s1 = layout_len s0
  | AErr s1 _ => Inv s1 /\ layout_len s1 = layout_len s0
  | APanic => True
  end.
Proof.
  induction fuel as [|[m|] t IH]; intros s0 keep i HI; cbn [retain_from].
  - auto.
  - destruct (existsb (fun x => x =? r_id m) keep); [apply IH; exact HI|].
    destruct (remove_idx s0 i) as [s1|s1 e|] eqn:Er; cbn [abind].
    + destruct (inv_remove_idx s0 i s1 HI Er) as [H1 H2]. specialize (IH s1 keep (i + 1) H1).
      destruct (retain_from t s1 keep (i + 1)); try rewrite <- H2; exact IH.
    + assert (s1 = s0) by (eapply remove_idx_err; eauto using inv_s2r_ok). subst s1. auto.
    + exact I.
  - apply IH; exact HI.
Qed.

Lemma inv_retain s keep : Inv s ->
  match retain s keep with
  | AOk (s', _) => Inv s' /\ layout_len s' = layout_len s
  | AErr s' _ => Inv s' /\ layout_len s' = layout_len s
  | APanic => True
  end.
Proof.
  intros HI. unfold retain. destruct (retain_blocked s keep); [auto|].
  pose proof (inv_retain_from (slots s) s keep 0 HI) as H.
  destruct (retain_from (slots s) s keep 0) as [s1|s1 e|]; cbn [abind]; auto.
  destruct H as [H1 H2]. destruct (inv_set_held s1 (filter (fun x => existsb (fun y => y =? x) keep) (held s1)) H1) as [H3 H4].
  split; [exact H3|]. now rewrite H4.
Qed.

Lemma inv_set_min_regions s n : Inv s -> Inv (set_min_regions s n) /\ layout_len (set_min_regions s n) = layout_len s.
Proof.
  intros HI. unfold set_min_regions.
  set (rf := if len (rfile s) <? n then rfile s ++ repeat None (N.to_nat (n - len (rfile s))) else rfile s).
  assert (H1 : Inv (set_rfile s rf) /\ layout_len (set_rfile s rf) = layout_len s).
  { split; [|reflexivity]. destruct HI. constructor; try assumption.
    apply (mirrors_gen s (set_rfile s rf) 0 (slot s 0) inv_rfile).
    - intros j. destruct (j =? 0) eqn:E; [|reflexivity]. assert (j = 0) by lia. subst. reflexivity.
    - intros j _. subst rf. cbn [rfile set_rfile]. destruct (len (rfile s) <? n); [apply get_pad|left; reflexivity].
    - specialize (inv_rfile 0). change (slot (set_rfile s rf) 0) with (slot s 0) in *.
      assert (Hp : get rf 0 = get (rfile s) 0 \/ (get (rfile s) 0 = None /\ get rf 0 = Some None)).
      { subst rf. destruct (len (rfile s) <? n); [apply get_pad|left; reflexivity]. }
      cbn [rfile set_rfile]. destruct (slot s 0) as [m0|].
      + destruct Hp as [->|[Hp1 Hp2]]; [exact inv_rfile|].
        destruct (r_state m0 =? ST_WRITE); [destruct inv_rfile as [Hx _]|]; congruence.
      + destruct Hp as [->|[Hp1 Hp2]]; [exact inv_rfile|]. left. exact Hp2. }
  destruct H1 as [H1 H2]. destruct (inv_set_min_len (set_rfile s rf) (n * PAGE_SIZE) H1) as [H3 H4].
  split; [exact H3|]. now rewrite H4.
Qed.
