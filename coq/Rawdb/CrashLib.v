(* Rawdb/CrashLib.v — soundness of the crash monitor in LIB mode (proof file): pages reach the
   disk only through the library's syncs (images of Rawdb/CrashLibDefs.v).
   C05_lib_general_proof   any checkpoint m0 with no metadata sync since: every LIB image holds, for
                           a slot not overwritten in place, the checkpoint pair or (inside a metadata
                           sync) the volatile pair — uses M5 (metasync_ok) and invariant Kvmem;
   C05_lib_proof           the full statement C05_lib_full (checkpoint = last CDataSync;CMetaSync);
   C05_lib_commit_proof    what a completed metadata sync makes durable is the volatile pair (M5);
   lib_unaddressed_proof   a region nobody addresses is never overwritten in place (M3/M4). *)
From Anydb Require Import Common.Base Gen.Consts Rawdb.AMap Rawdb.Alloc Rawdb.Crash Rawdb.CrashFacts
  Rawdb.CrashInv Rawdb.CrashSound Rawdb.CrashLibDefs.

Lemma run_one m e : snd (mon_run m [e]) = snd (mon_step m e) /\ fst (mon_run m [e]) = fst (mon_step m e).
Proof. cbn [mon_run]. destruct (mon_step m e) as [m1 [|]]; split; reflexivity. Qed.

Lemma not_overwritten_cons d e t :
  not_overwritten d (e :: t) = true ->
  match d with Some w => ev_misses w e = true | None => True end /\ not_overwritten d t = true.
Proof.
  destruct d as [w|]; cbn [not_overwritten forallb]; [|tauto]. rewrite andb_true_iff. tauto.
Qed.

Lemma agree_write w vm base off len f :
  disjoint off len (sr_start w) (sr_len w) = true ->
  agree_on (Some w) vm base -> agree_on (Some w) (write_mem vm off len f) base.
Proof.
  intros Hd H a Ha. unfold write_mem. destruct ((off <=? a) && (a <? off + len)) eqn:E.
  - exfalso. apply (disjoint_no_common _ _ _ _ a Hd); [lia|exact Ha].
  - apply H. exact Ha.
Qed.

(* Kvmem + no pending range on the content: volatile = durable there *)
Lemma agree_vmem_dmem m v : Kvmem m -> pdata_misses v m = true -> agree_on v (m_vmem m) (m_dmem m).
Proof.
  intros Hk Hp. destruct v as [w|]; [|exact I]. intros a Ha. cbn [pdata_misses] in Hp.
  destruct (Hk a) as [E|(o & l & g & Hin & Hr & _)]; [exact E|]. exfalso.
  rewrite forallb_forall in Hp. specialize (Hp _ Hin). cbn beta iota in Hp.
  exact (disjoint_no_common _ _ _ _ a Hp Hr Ha).
Qed.

(* ---- frame: durable version and content of a slot between metadata syncs ------------------------ *)
Section Frame.
  Variables (i : N) (d : option slotrec) (base : content).

  Definition Fr (m : mon) : Prop :=
    dur_of m i = d /\ agree_on d (m_dmem m) base /\ agree_on d (m_vmem m) base.

  Lemma Fr_step m e :
    Fr m -> match e with CMetaSync => false | _ => true end = true ->
    match d with Some w => ev_misses w e = true | None => True end ->
    Fr (fst (mon_step m e)).
  Proof.
    intros (H1 & H2 & H3) Hns Hm. destruct e; try discriminate; unfold Fr, dur_of in *; mcbn;
      try (split; [exact H1|split; assumption]).
    - (* CData *) destruct (len =? 0); mcbn; [split; [exact H1|split; assumption]|].
      split; [exact H1|]. split; [exact H2|]. destruct d as [w|]; [|exact I].
      apply agree_write; assumption.
    - (* CPunch *) split; [exact H1|]. split; [exact H2|]. destruct d as [w|]; [|exact I].
      apply agree_write; assumption.
  Qed.

  Lemma Fr_run t : forall m, Fr m -> no_metasync t = true -> not_overwritten d t = true -> Fr (fst (mon_run m t)).
  Proof.
    induction t as [|e t IH]; intros m HF Hn Ho; cbn [mon_run]; [exact HF|].
    apply not_overwritten_cons in Ho. destruct Ho as [Ho1 Ho2].
    unfold no_metasync in Hn. cbn [forallb] in Hn. apply andb_true_iff in Hn. destruct Hn as [Hn1 Hn2].
    pose proof (Fr_step m e HF Hn1 Ho1) as HF1.
    destruct (mon_step m e) as [m1 ok]. cbn [fst] in HF1. destruct ok; [|exact HF1].
    apply IH; assumption.
  Qed.
End Frame.

(* ---- M5 ---------------------------------------------------------------------------------------------- *)
Lemma in_keys_pend_of (l : list (N * option slotrec)) i : In i (map fst l) -> pend_of l i <> [].
Proof.
  rewrite in_map_iff. intros ([j v] & Hj & Hin). cbn [fst] in Hj. subst j.
  apply in_pend_of in Hin. intros E. rewrite E in Hin. destruct Hin.
Qed.

Lemma metasync_ok_latest m i v :
  metasync_ok m = true -> pend_of (m_pend m) i <> [] -> latest_of m i = Some v ->
  pdata_misses (Some v) m = true.
Proof.
  intros Hok Hne Hl. unfold latest_of in Hl. rewrite possible_eq in Hl.
  pose proof (latest_pend_get (m_pend m) [] i) as Hg.
  destruct (pend_of (m_pend m) i) as [|p rest]; [congruence|].
  rewrite last_cons2 in Hl, Hg. rewrite Hl in Hg.
  unfold dur_get in Hg. destruct (assoc_get i (latest_pend (m_pend m) [])) as [x|] eqn:E; [|discriminate].
  subst x. apply assoc_get_in in E.
  unfold metasync_ok in Hok. rewrite forallb_forall in Hok. exact (Hok _ E).
Qed.

(* ---- the LIB-mode theorem, for an arbitrary checkpoint ---------------------------------------------- *)
Theorem C05_lib_general_proof :
  forall t0 t1 p,
    snd (mon_run mon_init (t0 ++ t1 ++ lib_next p)) = true ->
    no_metasync t1 = true ->
    let m0 := fst (mon_run mon_init t0) in
    let m := fst (mon_run mon_init (t0 ++ t1)) in
    forall i sigma img, lib_slots p m sigma -> lib_data p m img ->
      pdata_misses (dur_of m0 i) m0 = true ->
      not_overwritten (dur_of m0 i) t1 = true ->
      (sigma i = dur_of m0 i /\ agree_on (sigma i) img (m_dmem m0))
      \/ (p = LInMetaSync /\ sigma i = latest_of m i /\ agree_on (sigma i) img (m_vmem m)).
Proof.
  intros t0 t1 p H Hnm m0 m i sigma img Hs Hd Hpm Hno.
  pose proof H as H'. apply mon_run_app in H'. destruct H' as [H0 H1]. fold m0 in H1.
  apply mon_run_app in H1. destruct H1 as [H1 H2].
  assert (Em : m = fst (mon_run m0 t1)) by (apply mon_run_app_state; exact H0).
  rewrite <- Em in H2.
  assert (HK0 : K m0) by (apply K_run; [exact K_init|exact H0]).
  assert (HK : K m) by (rewrite Em; apply K_run; assumption).
  assert (HF : Fr i (dur_of m0 i) (m_dmem m0) m).
  { rewrite Em. apply Fr_run; try assumption. split; [reflexivity|]. split.
    - destruct (dur_of m0 i); [intros a _; reflexivity|exact I].
    - apply agree_vmem_dmem; [exact (k_vmem m0 HK0)|exact Hpm]. }
  destruct HF as (F1 & F2 & F3).
  (* case (A) whenever the image holds the durable slot and, on the content, durable or volatile bytes *)
  assert (HA : sigma i = dur_of m i ->
               (forall a, img a = m_dmem m a \/ img a = m_vmem m a) ->
               sigma i = dur_of m0 i /\ agree_on (sigma i) img (m_dmem m0)).
  { intros E Himg. rewrite E, F1. split; [reflexivity|].
    destruct (dur_of m0 i) as [w|]; [|exact I]. intros a Ha.
    destruct (Himg a) as [->| ->]; [apply F2|apply F3]; exact Ha. }
  destruct p; cbn [lib_slots lib_data lib_next] in *.
  - (* outside a sync *) left. apply HA; [apply Hs|]. intros a. left. apply Hd.
  - (* inside the data sync *) left. apply HA; [apply Hs|]. intros a.
    destruct (Hd (page_of a)) as [Hp|Hp]; [left|right]; apply Hp; reflexivity.
  - (* inside the metadata sync *)
    destruct (Hs i) as [E|E]; [left; apply HA; [exact E|intros a; left; apply Hd]|].
    destruct (pend_of (m_pend m) i) as [|p0 rest] eqn:Ep.
    + (* no pending version of this slot: the latest one is the durable one *)
      left. apply HA; [|intros a; left; apply Hd].
      rewrite E. unfold latest_of. rewrite possible_eq, Ep. reflexivity.
    + right. split; [reflexivity|]. split; [exact E|]. rewrite E.
      destruct (latest_of m i) as [v|] eqn:El; [|exact I].
      assert (Hok : metasync_ok m = true).
      { destruct (run_one m CMetaSync) as [R _]. rewrite R in H2. exact H2. }
      assert (Hmiss : pdata_misses (Some v) m = true).
      { apply (metasync_ok_latest m i); [exact Hok|rewrite Ep; discriminate|exact El]. }
      pose proof (agree_vmem_dmem m (Some v) (k_vmem m HK) Hmiss) as Hag.
      intros a Ha. rewrite Hd. symmetry. apply Hag. exact Ha.
Qed.

(* every LIB image is an OS image: all OS-mode conclusions (layout, untouched regions, recovery
   without panic) hold in LIB mode as well *)
Theorem lib_image_is_os_image_proof :
  forall t1 t2, snd (mon_run mon_init (t1 ++ t2)) = true ->
    let m := fst (mon_run mon_init t1) in
    forall p sigma img, lib_slots p m sigma -> lib_data p m img -> os_slots m sigma /\ os_data m img.
Proof.
  intros t1 t2 H m p sigma img Hs Hd. pose proof (K_reach t1 t2 H) as HK. fold m in HK. split.
  - intros i. assert (Hdur : In (dur_of m i) (possible m i)) by (left; reflexivity).
    destruct p; cbn [lib_slots] in Hs; try (rewrite Hs; exact Hdur).
    destruct (Hs i) as [-> | ->]; [exact Hdur|apply vol_in_possible].
  - intros a. destruct p; cbn [lib_data] in Hd; try (left; apply Hd).
    destruct (Hd (page_of a)) as [Hp|Hp]; specialize (Hp a eq_refl); [left; exact Hp|].
    rewrite Hp. destruct (k_vmem m HK a) as [E|(o & l & g & Hin & Hr & E)]; [left; exact E|].
    right. exists o, l, g. split; [exact Hin|]. split; [exact Hr|exact E].
Qed.

(* right after CDataSync; CMetaSync nothing is pending in the data file *)
Lemma pair_pdata m : m_pdata (fst (mon_run m [CDataSync; CMetaSync])) = [].
Proof. cbn [mon_run mon_step]. destruct (metasync_ok _); reflexivity. Qed.

Theorem C05_lib_proof : C05_lib_full.
Proof.
  intros t0 t1 p tc H Hnm m0 m i sigma img Hs Hd Hno.
  assert (Hp0 : m_pdata m0 = []).
  { pose proof H as H'. apply mon_run_app in H'. destruct H' as [H0 _]. unfold tc in H0.
    pose proof H0 as H0'. apply mon_run_app in H0'. destruct H0' as [Ha _].
    unfold m0, tc. rewrite (mon_run_app_state _ _ _ Ha). apply pair_pdata. }
  assert (HK0 : K m0).
  { apply (K_reach tc (t1 ++ lib_next p)). exact H. }
  assert (Hvd : forall a, m_vmem m0 a = m_dmem m0 a).
  { intros a. destruct (k_vmem m0 HK0 a) as [E|(o & l & g & Hin & _)]; [exact E|].
    rewrite Hp0 in Hin. destruct Hin. }
  assert (Hpm : pdata_misses (dur_of m0 i) m0 = true).
  { unfold pdata_misses. rewrite Hp0. destruct (dur_of m0 i); reflexivity. }
  destruct (C05_lib_general_proof tc t1 p H Hnm i sigma img Hs Hd Hpm Hno) as [[E Hag]|HB].
  - left. split; [exact E|]. destruct (sigma i) as [w|]; [|exact I].
    intros a Ha. rewrite Hvd. apply Hag. exact Ha.
  - right. exact HB.
Qed.

(* what a completed metadata sync makes durable for a rewritten slot is the volatile pair: the
   latest version together with the bytes the region had at that moment (M5) *)
Theorem C05_lib_commit_proof :
  forall t, snd (mon_run mon_init (t ++ [CMetaSync])) = true ->
    let m := fst (mon_run mon_init t) in
    let m' := fst (mon_run mon_init (t ++ [CMetaSync])) in
    forall i, In i (map fst (m_pend m)) ->
      dur_of m' i = latest_of m i /\ agree_on (dur_of m' i) (m_dmem m') (m_vmem m).
Proof.
  intros t H m m' i Hin.
  pose proof H as H'. apply mon_run_app in H'. destruct H' as [H0 H1]. fold m in H1.
  assert (Em : m' = fst (mon_step m CMetaSync)).
  { unfold m'. rewrite (mon_run_app_state _ _ _ H0). fold m. apply run_one. }
  assert (HK : K m) by (apply K_run; [exact K_init|exact H0]).
  assert (Hok : metasync_ok m = true).
  { destruct (run_one m CMetaSync) as [R _]. rewrite R in H1. exact H1. }
  assert (Ed : dur_of m' i = latest_of m i) by (rewrite Em; apply dur_after_metasync).
  split; [exact Ed|]. rewrite Ed. destruct (latest_of m i) as [v|] eqn:El; [|exact I].
  assert (Hmiss : pdata_misses (Some v) m = true).
  { apply (metasync_ok_latest m i); [exact Hok|apply in_keys_pend_of; exact Hin|exact El]. }
  pose proof (agree_vmem_dmem m (Some v) (k_vmem m HK) Hmiss) as Hag.
  intros a Ha. rewrite Em. mcbn. symmetry. apply Hag. exact Ha.
Qed.

(* ... and no data range still pending right after that sync hits the content just committed: a
   lone metadata sync (flush without dirty regions) is a valid checkpoint of C05_lib_general for
   every slot it committed *)
Theorem C05_lib_commit_misses_proof :
  forall t, snd (mon_run mon_init (t ++ [CMetaSync])) = true ->
    let m := fst (mon_run mon_init t) in
    let m' := fst (mon_run mon_init (t ++ [CMetaSync])) in
    forall i, In i (map fst (m_pend m)) -> pdata_misses (dur_of m' i) m' = true.
Proof.
  intros t H m m' i Hin.
  pose proof H as H'. apply mon_run_app in H'. destruct H' as [H0 H1]. fold m in H1.
  assert (Em : m' = fst (mon_step m CMetaSync)).
  { unfold m'. rewrite (mon_run_app_state _ _ _ H0). fold m. apply run_one. }
  assert (Hok : metasync_ok m = true).
  { destruct (run_one m CMetaSync) as [R _]. rewrite R in H1. exact H1. }
  rewrite Em, dur_after_metasync. change (vol_of m i) with (latest_of m i).
  destruct (latest_of m i) as [v|] eqn:El; [|reflexivity].
  exact (metasync_ok_latest m i v Hok (in_keys_pend_of _ _ Hin) El).
Qed.

(* ---- M3/M4: a region nobody addresses is never overwritten in place ---------------------------------- *)
Lemma unaddressed_run w i t : forall m,
  possible m i = [Some w] -> mem_in (sr_id w) (m_cur m) = false ->
  forallb (op_avoids (sr_id w)) t = true -> forallb (meta_avoids i) t = true ->
  snd (mon_run m t) = true -> forallb (ev_misses w) t = true.
Proof.
  induction t as [|e t IH]; intros m Hp Hc Ho Hm Hok; [reflexivity|].
  cbn [forallb] in *. apply andb_true_iff in Ho. destruct Ho as [Ho1 Ho2].
  apply andb_true_iff in Hm. destruct Hm as [Hm1 Hm2]. cbn [mon_run] in Hok.
  assert (Hs : snd (mon_step m e) = true /\ snd (mon_run (fst (mon_step m e)) t) = true).
  { destruct (mon_step m e) as [m1 [|]]; cbn [fst snd] in *; [tauto|discriminate]. }
  destruct Hs as [Hd Hrest].
  assert (Hstep : ev_misses w e = true /\ possible (fst (mon_step m e)) i = [Some w]
                  /\ mem_in (sr_id w) (m_cur (fst (mon_step m e))) = false).
  { clear Hrest IH. destruct e; cbn [ev_misses];
      try (mcbn; split; [reflexivity|split; assumption]).
    - (* COp *) mcbn. split; [reflexivity|]. split; [exact Hp|].
      cbn [op_avoids] in Ho1. destruct (mem_in (sr_id w) ids); [discriminate|reflexivity].
    - (* CEnd *) mcbn. split; [reflexivity|]. split; [exact Hp|reflexivity].
    - (* CMeta *) pose proof (possible_meta m slot v i) as Hpm. mcbn.
      split; [reflexivity|]. split; [|exact Hc]. rewrite Hpm. cbn [meta_avoids] in Hm1.
      destruct (slot =? i); [discriminate|exact Hp].
    - (* CData *) mcbn. destruct (len =? 0) eqn:E0; mcbn.
      + split; [unfold disjoint; lia|split; assumption].
      + apply andb_true_iff in Hd. destruct Hd as [Hd _].
        split; [apply (data_ok_protects m _ _ i); assumption|split; assumption].
    - (* CPunch *) mcbn.
      split; [apply (data_ok_protects m _ _ i); assumption|split; assumption].
    - (* CMetaSync *) pose proof (possible_after_metasync m i) as Hpa.
      pose proof (dur_after_metasync m i) as Hda. mcbn.
      split; [reflexivity|]. split; [|exact Hc]. rewrite Hpa, Hda. unfold vol_of. rewrite Hp. reflexivity. }
  destruct Hstep as (S1 & S2 & S3). rewrite S1. cbn [andb]. apply (IH (fst (mon_step m e))); assumption.
Qed.

Theorem lib_unaddressed_proof :
  forall t0 t1, snd (mon_run mon_init (t0 ++ t1)) = true ->
    let m0 := fst (mon_run mon_init t0) in
    forall i w, possible m0 i = [Some w] -> mem_in (sr_id w) (m_cur m0) = false ->
      forallb (op_avoids (sr_id w)) t1 = true -> forallb (meta_avoids i) t1 = true ->
      not_overwritten (Some w) t1 = true.
Proof.
  intros t0 t1 H m0 i w Hp Hc Ho Hm. apply mon_run_app in H. destruct H as [_ H1].
  cbn [not_overwritten]. exact (unaddressed_run w i t1 m0 Hp Hc Ho Hm H1).
Qed.
