(* Rawdb/InvWrite.v — Inv is preserved by the placement paths of write_with that move or grow
   an extent: common finishing lemma, extend-last, expand-into-hole.  PROOF FILE. *)
From Anydb Require Import Common.Base Gen.Consts Rawdb.AMap Rawdb.Alloc Rawdb.AllocInv
  Rawdb.AMapFacts Rawdb.CoverFacts Rawdb.InvLayout Rawdb.AllocErr Rawdb.HolesFacts Rawdb.AllocNoPanic
  Rawdb.InvOps Rawdb.InvRemove Rawdb.InvCreate.

(* ---- the metadata setters ---- *)
Definition quiet (m x : rmeta) : Prop := r_state x <> ST_WRITE -> r_state m <> ST_WRITE /\ srec x = srec m.

Lemma quiet_refl m : quiet m m.
Proof. intros H. auto. Qed.
Lemma quiet_trans m x y : quiet m x -> quiet x y -> quiet m y.
Proof. intros H1 H2 Hy. destruct (H2 Hy) as [Hx E]. destruct (H1 Hx) as [Hm E']. split; [exact Hm|congruence]. Qed.
Lemma quiet_set_len m v : quiet m (m_set_len m v).
Proof. unfold quiet, m_set_len. destruct (r_len m =? v); cbn [r_state]; [auto|]. intros H; exfalso; apply H; reflexivity. Qed.
Lemma quiet_set_reserved m v : quiet m (m_set_reserved m v).
Proof. unfold quiet, m_set_reserved. destruct (r_reserved m =? v); cbn [r_state]; [auto|]. intros H; exfalso; apply H; reflexivity. Qed.
Lemma quiet_set_start m v : quiet m (m_set_start m v).
Proof. unfold quiet, m_set_start. destruct (r_start m =? v); cbn [r_state]; [auto|]. intros H; exfalso; apply H; reflexivity. Qed.
Lemma quiet_mark_dirty m a b : quiet m (m_mark_dirty m a b).
Proof. unfold quiet, m_mark_dirty. cbn [r_state]. auto. Qed.

Lemma set_len_fields m v :
  r_start (m_set_len m v) = r_start m /\ r_len (m_set_len m v) = v /\
  r_reserved (m_set_len m v) = r_reserved m /\ r_id (m_set_len m v) = r_id m.
Proof. unfold m_set_len. destruct (r_len m =? v) eqn:E; cbn [r_start r_len r_reserved r_id]; repeat split; lia. Qed.
Lemma set_reserved_fields m v :
  r_start (m_set_reserved m v) = r_start m /\ r_len (m_set_reserved m v) = r_len m /\
  r_reserved (m_set_reserved m v) = v /\ r_id (m_set_reserved m v) = r_id m.
Proof. unfold m_set_reserved. destruct (r_reserved m =? v) eqn:E; cbn [r_start r_len r_reserved r_id]; repeat split; lia. Qed.
Lemma set_start_fields m v :
  r_start (m_set_start m v) = v /\ r_len (m_set_start m v) = r_len m /\
  r_reserved (m_set_start m v) = r_reserved m /\ r_id (m_set_start m v) = r_id m.
Proof. unfold m_set_start. destruct (r_start m =? v) eqn:E; cbn [r_start r_len r_reserved r_id]; repeat split; lia. Qed.
Lemma mark_dirty_fields m a b :
  r_start (m_mark_dirty m a b) = r_start m /\ r_len (m_mark_dirty m a b) = r_len m /\
  r_reserved (m_mark_dirty m a b) = r_reserved m /\ r_id (m_mark_dirty m a b) = r_id m.
Proof. repeat split. Qed.

(* ---- frames ---- *)
Lemma upd_frame_mem s mm i f : upd (set_mem s mm) i f = set_mem (upd s i f) mm.
Proof. unfold upd. rewrite slot_set_mem. destruct (slot s i); reflexivity. Qed.
Lemma upd_frame_file s fl i f : upd (set_file_len s fl) i f = set_file_len (upd s i f) fl.
Proof. unfold upd. rewrite slot_set_file_len. destruct (slot s i); reflexivity. Qed.
Lemma upd_frame_holes s H Q i f : upd (set_holes s H Q) i f = set_holes (upd s i f) H Q.
Proof. unfold upd. rewrite slot_set_holes. destruct (slot s i); reflexivity. Qed.

Lemma finish_write_ok sA i start wo f n new_len s' r :
  finish_write sA i start wo f n new_len = AOk (s', r) ->
  exists mm mA, slot sA i = Some mA /\ new_len <= r_reserved mA /\
    s' = write_if_dirty (upd (set_mem sA mm) i (fun m => m_set_len (m_mark_dirty m wo n) new_len)) i.
Proof.
  unfold finish_write. destruct (db_write sA (start + wo) f n) as [s1|] eqn:Ew; [|discriminate].
  apply db_write_some in Ew. destruct Ew as [mm ->].
  rewrite slot_upd, N.eqb_refl, slot_set_mem. destruct (slot sA i) as [mA|] eqn:EA; cbn [option_map]; [|discriminate].
  unfold ok_set_len. cbn [r_reserved m_mark_dirty].
  destruct (new_len <=? r_reserved mA) eqn:El; [|discriminate]. intros [= <- _].
  exists mm, mA. split; [reflexivity|]. split; [lia|]. rewrite upd_upd. reflexivity.
Qed.

(* ---- the common finish: slot i receives new metadata x on top of a base state sb ---- *)
Lemma write_finish s sb i m x L' :
  Inv s -> slot s i = Some m ->
  slots sb = slots s -> rfile sb = rfile s -> resv sb = [] ->
  asorted (s2r sb) -> asorted (pend sb) -> holes_wf (holes sb) (h2s sb) ->
  Forall aligned (holes sb) -> Forall aligned (pend sb) ->
  (forall a z a' z', aget a (holes sb) = Some z -> aget a' (holes sb) = Some z' -> a + z <> a') ->
  (forall a j, aget a (s2r sb) = Some j <->
               exists mj, (if j =? i then Some (fin x) else slot s j) = Some mj /\ r_start mj = a) ->
  (forall a, (owners (region_exts (slots s)) a + cov (rext x) a + owners (holes sb) a + owners (pend sb) a)%nat
             = ((if (a <? L')%N then 1 else 0) + cov (rext m) a)%nat) ->
  L' <= file_len sb ->
  aligned (rext x) -> r_len x <= r_reserved x -> r_reserved x <= MAX_RESERVED_SIZE -> r_id x = r_id m ->
  quiet m x ->
  let s' := put_slot (set_rfile sb (if r_state x =? ST_WRITE then set_at (rfile sb) (N.to_nat i) (Some (srec x)) None
                                    else rfile sb)) i (Some (fin x)) in
  (Inv s' /\ layout_len s' = L') /\ (forall j, slot s' j = if j =? i then Some (fin x) else slot s j).
Proof.
  intros HI Hs E1 E2 E3 S1 S3 Hwf Ah Ap Hadj Hmap Hcov Hfile Hax Hlen Hmax Hid Hq s'.
  assert (Hsl : forall j, slot s' j = if j =? i then Some (fin x) else slot s j).
  { intros j. subst s'. rewrite slot_put_slot, slot_set_rfile, (slot_slots_eq s sb E1). reflexivity. }
  split; [|exact Hsl].
  destruct (inv_parts_aligned s HI) as (Ar & _). destruct Hwf as (W1 & W2 & W3).
  apply mk_inv.
  - apply aligned_extents; subst s'; st_simpl; rewrite ?E3; auto.
    intros j mj. rewrite Hsl. destruct (j =? i); [intros [= <-]; rewrite fin_rext; exact Hax|eauto].
  - intros a. rewrite owners_extents. subst s'. st_simpl. rewrite E1, E3, owners_nil.
    pose proof (owners_put_slot s i (Some (fin x)) a) as Ho. rewrite Hs in Ho. cbn [oext] in Ho. rewrite fin_rext in Ho.
    specialize (Hcov a). lia.
  - intros j mj. rewrite Hsl. destruct (j =? i); [intros [= <-]|apply (inv_len s HI)].
    rewrite fin_len, fin_reserved. auto.
  - intros a j. rewrite Hsl. subst s'. st_simpl. apply Hmap.
  - subst s'. st_simpl. rewrite E3. repeat split; auto.
  - exact W3.
  - exact Hadj.
  - exact Hfile.
  - apply (ids_put s s' i (Some (fin x)) (inv_ids s HI) Hsl). left. exists m. rewrite fin_id. auto.
  - apply (mirrors_wid_put s s' i m x (inv_rfile s HI) Hs Hq Hsl). subst s'. st_simpl. rewrite E2. reflexivity.
  - subst s'. st_simpl. exact E3.
Qed.

(* s2r is unchanged and the region keeps its start *)
Lemma s2r_same_start s i m x :
  Inv s -> slot s i = Some m -> r_start x = r_start m ->
  forall a j, aget a (s2r s) = Some j <->
              exists mj, (if j =? i then Some (fin x) else slot s j) = Some mj /\ r_start mj = a.
Proof.
  intros HI Hs Hst a j. rewrite (inv_s2r s HI a j). destruct (j =? i) eqn:E; [|reflexivity].
  assert (j = i) by lia; subst j. split.
  - intros (mj & Hj & Ha). rewrite Hs in Hj. inversion Hj; subst mj. exists (fin x). split; [reflexivity|].
    rewrite fin_start. lia.
  - intros (mj & [= <-] & Ha). exists m. split; [exact Hs|]. rewrite fin_start in Ha. lia.
Qed.

Lemma region_pend_disjoint s i m a z :
  Inv s -> slot s i = Some m -> aget a (pend s) = Some z ->
  r_start m + r_reserved m <= a \/ a + z <= r_start m.
Proof.
  intros HI Hs Hp.
  destruct (inv_region_aligned s i m HI Hs) as (_ & _ & Hp1).
  destruct (inv_ext_aligned s (a, z) HI) as (_ & _ & Hp2). { apply in_extents. right. right. left. now apply aget_in. }
  apply (disjoint_of_count (extents s) (rext m) (a, z)); auto.
  - intros x. now apply inv_owners_le1.
  - intros x. rewrite owners_extents.
    pose proof (owners_in _ _ x (slot_in_region_exts s i m Hs)). pose proof (owners_in _ _ x (aget_in _ _ _ Hp)). lia.
Qed.

Lemma last_anything_end s i m :
  Inv s -> slot s i = Some m -> is_last_anything s i = true -> r_start m + r_reserved m = layout_len s.
Proof.
  intros HI Hs. unfold is_last_anything. destruct (alast (s2r s)) as [[a j]|] eqn:El; [|discriminate].
  intros Hb. apply andb_prop in Hb. destruct Hb as [Hb Hp]. apply andb_prop in Hb. destruct Hb as [Hb Hv].
  apply andb_prop in Hb. destruct Hb as [Hj Hh]. assert (j = i) by lia; subst j.
  destruct (inv_sorted s HI) as (S1 & _).
  pose proof (in_aget _ _ _ S1 (alast_in _ _ El)) as Hg.
  destruct (proj1 (inv_s2r s HI a i) Hg) as (m' & Hm' & Ha). rewrite Hs in Hm'. inversion Hm'; subst m'.
  destruct (inv_region_aligned s i m HI Hs) as (_ & _ & Hpos). cbn [snd rext] in Hpos.
  unfold layout_len, last_region_end. rewrite El, Hs, (inv_no_resv s HI).
  change (last_end []) with 0.
  assert (Hhe : last_end (holes s) <= a).
  { unfold last_end, lt_last_start in *. destruct (alast (holes s)) as [[b w]|] eqn:Eh; [|lia].
    pose proof (in_aget _ _ _ (proj1 (proj2 (inv_sorted s HI))) (alast_in _ _ Eh)) as Hb.
    destruct (region_hole_disjoint s i m b w HI Hs Hb); lia. }
  assert (Hpe : last_end (pend s) <= a).
  { unfold last_end, lt_last_start in *. destruct (alast (pend s)) as [[b w]|] eqn:Eh; [|lia].
    pose proof (in_aget _ _ _ (proj1 (proj2 (proj2 (inv_sorted s HI)))) (alast_in _ _ Eh)) as Hb.
    destruct (region_pend_disjoint s i m b w HI Hs Hb); lia. }
  lia.
Qed.

Lemma ok_set_reserved_facts m nr :
  ok_set_reserved m nr = true -> r_len m <= nr /\ PAGE_SIZE <= nr /\ nr mod PAGE_SIZE = 0 /\ nr <= MAX_RESERVED_SIZE.
Proof. unfold ok_set_reserved. intros H. repeat (apply andb_prop in H; destruct H as [H ?]). repeat split; lia. Qed.

Definition grow_meta (nr wo n new_len : N) (m : rmeta) : rmeta :=
  m_set_len (m_mark_dirty (m_set_reserved m nr) wo n) new_len.

Lemma grow_meta_fields nr wo n new_len m :
  r_start (grow_meta nr wo n new_len m) = r_start m /\ r_len (grow_meta nr wo n new_len m) = new_len /\
  r_reserved (grow_meta nr wo n new_len m) = nr /\ r_id (grow_meta nr wo n new_len m) = r_id m /\
  quiet m (grow_meta nr wo n new_len m).
Proof.
  unfold grow_meta.
  destruct (set_len_fields (m_mark_dirty (m_set_reserved m nr) wo n) new_len) as (A1 & A2 & A3 & A4).
  destruct (set_reserved_fields m nr) as (B1 & B2 & B3 & B4).
  rewrite A1, A2, A3, A4. cbn [m_mark_dirty r_start r_reserved r_id]. rewrite B1, B3, B4.
  split; [auto|split; [auto|split; [auto|split; [auto|]]]].
  apply (quiet_trans m (m_set_reserved m nr)); [apply quiet_set_reserved|].
  apply (quiet_trans _ (m_mark_dirty (m_set_reserved m nr) wo n)); [apply quiet_mark_dirty|apply quiet_set_len].
Qed.

(* extend the last region of the file *)
Lemma inv_extend_last s i m f n wo new_len nr s' r :
  Inv s -> slot s i = Some m -> is_last_anything s i = true -> ok_set_reserved m nr = true -> r_reserved m <= nr ->
  finish_write (set_min_len (upd s i (fun m => m_set_reserved m nr)) (r_start m + nr)) i (r_start m) wo f n new_len = AOk (s', r) ->
  Inv s' /\ reuse_ok s s'.
Proof.
  intros HI Hs Hlast Hok Hge Hfw.
  destruct (ok_set_reserved_facts m nr Hok) as (K1 & K2 & K3 & K4).
  destruct (set_min_len_shape (upd s i (fun m => m_set_reserved m nr)) (r_start m + nr)) as (fl & Efl & _).
  pose proof (set_min_len_ge (upd s i (fun m => m_set_reserved m nr)) (r_start m + nr)) as Hfl. rewrite Efl in *. clear Efl.
  apply finish_write_ok in Hfw. destruct Hfw as (mm & mA & HA & HlenA & ->).
  rewrite slot_set_file_len, slot_upd, N.eqb_refl, Hs in HA. cbn [option_map] in HA. inversion HA; subst mA. clear HA.
  destruct (set_reserved_fields m nr) as (_ & _ & B3 & _). rewrite B3 in HlenA.
  rewrite <- upd_frame_file, <- upd_frame_mem, upd_upd.
  change (fun m0 => m_set_len (m_mark_dirty (m_set_reserved m0 nr) wo n) new_len) with (grow_meta nr wo n new_len).
  set (sb := set_mem (set_file_len s fl) mm).
  assert (Hsb : slot sb i = Some m) by exact Hs.
  rewrite (wid_upd_nf sb i _ m Hsb).
  destruct (grow_meta_fields nr wo n new_len m) as (G1 & G2 & G3 & G4 & G5).
  pose proof (last_anything_end s i m HI Hs Hlast) as HL.
  destruct (inv_region_aligned s i m HI Hs) as (R1 & R2 & R3). cbn [fst snd rext] in R1, R2, R3.
  destruct (inv_parts_aligned s HI) as (_ & Ah & Ap & _).
  destruct (inv_sorted s HI) as (S1 & S2 & S3 & S4 & S5).
  assert (Hcov : forall a, (owners (region_exts (slots s)) a + cov (rext (grow_meta nr wo n new_len m)) a
                             + owners (holes sb) a + owners (pend sb) a)%nat
                           = ((if (a <? r_start m + nr)%N then 1 else 0) + cov (rext m) a)%nat).
  { intros a. pose proof (inv_cover s HI a) as Hc. rewrite owners_extents, (inv_no_resv s HI), owners_nil, <- HL in Hc.
    subst sb. cbn [holes pend set_mem set_file_len]. unfold rext. rewrite G1, G3.
    unfold cov, covers. cbn [fst snd].
    destruct (a <? r_start m + r_reserved m) eqn:E1; destruct (a <? r_start m + nr) eqn:E2;
      destruct (r_start m <=? a) eqn:E3; cbn [andb]; lia. }
  assert (Hax : aligned (rext (grow_meta nr wo n new_len m))).
  { unfold aligned, rext. rewrite G1, G3. cbn [fst snd]. repeat split; auto. pose proof PAGE_pos. lia. }
  destruct (write_finish s sb i m (grow_meta nr wo n new_len m) (r_start m + nr) HI Hs eq_refl eq_refl
              (inv_no_resv s HI) S1 S3 (inv_holes_wf s HI) Ah Ap (inv_no_adjacent_holes s HI)
              (s2r_same_start s i m _ HI Hs G1) Hcov Hfl Hax
              ltac:(rewrite G2, G3; exact HlenA) ltac:(rewrite G3; exact K4) G4 G5) as [[F1 F2] F3].
  split; [exact F1|]. apply reuse_ok_no_move. intros j mj'. rewrite F3. destruct (j =? i) eqn:E.
  - intros [= <-]. assert (j = i) by lia; subst j. exists m. split; [exact Hs|]. rewrite fin_start. lia.
  - eauto.
Qed.

(* expand into the adjacent hole *)
Lemma inv_expand s i m f n wo new_len nr gap s1 s' r :
  Inv s -> slot s i = Some m -> aget (r_start m + r_reserved m) (holes s) = Some gap ->
  nr - r_reserved m <= gap -> r_reserved m < nr -> ok_set_reserved m nr = true ->
  remove_or_compress_hole s (r_start m + r_reserved m) (nr - r_reserved m) = AOk s1 ->
  finish_write (upd s1 i (fun m => m_set_reserved m nr)) i (r_start m) wo f n new_len = AOk (s', r) ->
  Inv s' /\ reuse_ok s s'.
Proof.
  intros HI Hs Hgap Hadd Hlt Hok Er Hfw.
  destruct (ok_set_reserved_facts m nr Hok) as (K1 & K2 & K3 & K4).
  destruct (inv_region_aligned s i m HI Hs) as (R1 & R2 & R3). cbn [fst snd rext] in R1, R2, R3.
  assert (Hbm : (nr - r_reserved m) mod PAGE_SIZE = 0) by (apply mod0_sub; auto using PAGE_nz).
  destruct (roc_spec s (r_start m + r_reserved m) (nr - r_reserved m) gap (inv_holes_wf s HI)) as (H & Q & Er' & Hwf & Hget & Hown); auto; try lia.
  { intros x Hx. eapply hole_inside_absent; eauto. }
  rewrite Er' in Er. inversion Er; subst s1. clear Er.
  assert (Hpos : 0 < nr - r_reserved m) by lia.
  destruct (roc_holes_props s (r_start m + r_reserved m) (nr - r_reserved m) gap H HI Hgap Hpos Hadd Hbm (proj1 Hwf) Hget) as (Hal & Hadj & _).
  apply finish_write_ok in Hfw. destruct Hfw as (mm & mA & HA & HlenA & ->).
  rewrite slot_upd, N.eqb_refl, slot_set_holes, Hs in HA. cbn [option_map] in HA. inversion HA; subst mA. clear HA.
  destruct (set_reserved_fields m nr) as (_ & _ & B3 & _). rewrite B3 in HlenA.
  rewrite <- upd_frame_mem, upd_upd.
  change (fun m0 => m_set_len (m_mark_dirty (m_set_reserved m0 nr) wo n) new_len) with (grow_meta nr wo n new_len).
  set (sb := set_mem (set_holes s H Q) mm).
  assert (Hsb : slot sb i = Some m) by exact Hs.
  rewrite (wid_upd_nf sb i _ m Hsb).
  destruct (grow_meta_fields nr wo n new_len m) as (G1 & G2 & G3 & G4 & G5).
  destruct (inv_parts_aligned s HI) as (_ & Ah & Ap & _).
  destruct (inv_sorted s HI) as (S1 & S2 & S3 & S4 & S5).
  assert (Hcov : forall a, (owners (region_exts (slots s)) a + cov (rext (grow_meta nr wo n new_len m)) a
                             + owners (holes sb) a + owners (pend sb) a)%nat
                           = ((if (a <? layout_len s)%N then 1 else 0) + cov (rext m) a)%nat).
  { intros a. pose proof (inv_cover s HI a) as Hc. rewrite owners_extents, (inv_no_resv s HI), owners_nil in Hc.
    subst sb. cbn [holes pend set_mem set_holes]. unfold rext. rewrite G1, G3.
    specialize (Hown a).
    rewrite (cov_split (r_start m) (r_reserved m) nr a) by lia.
    rewrite (cov_split (r_start m + r_reserved m) (nr - r_reserved m) gap a Hadd) in Hown. lia. }
  assert (Hax : aligned (rext (grow_meta nr wo n new_len m))).
  { unfold aligned, rext. rewrite G1, G3. cbn [fst snd]. repeat split; auto. lia. }
  destruct (write_finish s sb i m (grow_meta nr wo n new_len m) (layout_len s) HI Hs eq_refl eq_refl
              (inv_no_resv s HI) S1 S3 Hwf Hal Ap Hadj
              (s2r_same_start s i m _ HI Hs G1) Hcov (inv_file s HI) Hax
              ltac:(rewrite G2, G3; exact HlenA) ltac:(rewrite G3; exact K4) G4 G5) as [[F1 F2] F3].
  split; [exact F1|]. apply reuse_ok_no_move. intros j mj'. rewrite F3. destruct (j =? i) eqn:E.
  - intros [= <-]. assert (j = i) by lia; subst j. exists m. split; [exact Hs|]. rewrite fin_start. lia.
  - eauto.
Qed.
