(* Rawdb/CoverFacts.v — counting lemmas for `owners`, constants, slot-table access lemmas.
   PROOF FILE. *)
From Anydb Require Import Common.Base Gen.Consts Rawdb.AMap Rawdb.Alloc Rawdb.AllocInv Rawdb.AMapFacts.

(* ---- constants, used through these facts only ---- *)
Lemma PAGE_pos : 0 < PAGE_SIZE. Proof. reflexivity. Qed.
Lemma PAGE_nz : PAGE_SIZE <> 0. Proof. discriminate. Qed.
Lemma PAGE_M1 : PAGE_SIZE_MINUS_1 = PAGE_SIZE - 1. Proof. reflexivity. Qed.
Lemma GROW_FACTOR_2 : GROW_FACTOR = 2. Proof. reflexivity. Qed.
Lemma RESERVE_FACTOR_2 : RESERVE_FACTOR = 2. Proof. reflexivity. Qed.
Lemma NEW_RESERVED_PAGE : NEW_REGION_RESERVED = PAGE_SIZE. Proof. reflexivity. Qed.
Lemma NEW_LEN_0 : NEW_REGION_LEN = 0. Proof. reflexivity. Qed.
Lemma PAGE_le_MAX : PAGE_SIZE <= MAX_RESERVED_SIZE. Proof. discriminate. Qed.
Lemma MAX_mod_PAGE : MAX_RESERVED_SIZE mod PAGE_SIZE = 0. Proof. reflexivity. Qed.
Lemma MAX_lt_two63 : MAX_RESERVED_SIZE * 4 < two64. Proof. reflexivity. Qed.
Lemma PAGE_mod_PAGE : PAGE_SIZE mod PAGE_SIZE = 0. Proof. reflexivity. Qed.

Lemma mod0_add p a b : p <> 0 -> a mod p = 0 -> b mod p = 0 -> (a + b) mod p = 0.
Proof.
  intros Hp Ha Hb. apply N.mod_divides in Ha, Hb; auto. destruct Ha as [c ->], Hb as [d ->].
  rewrite <- N.mul_add_distr_l, N.mul_comm. apply N.mod_mul; auto.
Qed.
Lemma mod0_sub p a b : p <> 0 -> a mod p = 0 -> b mod p = 0 -> (a - b) mod p = 0.
Proof.
  intros Hp Ha Hb. apply N.mod_divides in Ha, Hb; auto. destruct Ha as [c ->], Hb as [d ->].
  rewrite <- N.mul_sub_distr_l, N.mul_comm. apply N.mod_mul; auto.
Qed.
Lemma mod0_mul2 p a : p <> 0 -> a mod p = 0 -> (a * 2) mod p = 0.
Proof.
  intros Hp Ha. replace (a * 2) with (a + a) by lia. now apply mod0_add.
Qed.
Lemma mod0_ge p a : p <> 0 -> a mod p = 0 -> 0 < a -> p <= a.
Proof.
  intros Hp Ha Hpos. apply N.mod_divides in Ha; auto. destruct Ha as [c ->].
  destruct c; [lia|]. nia.
Qed.

Lemma ceil_page_mod n : ceil_page n mod PAGE_SIZE = 0.
Proof. unfold ceil_page. apply N.mod_mul. exact PAGE_nz. Qed.
Lemma ceil_page_ge n : n <= ceil_page n.
Proof. unfold ceil_page, PAGE_SIZE_MINUS_1, PAGE_SIZE. lia. Qed.
Lemma ceil_page_lt n : ceil_page n < n + PAGE_SIZE.
Proof. unfold ceil_page, PAGE_SIZE_MINUS_1, PAGE_SIZE. lia. Qed.
Lemma ceil_page_aligned n : n mod PAGE_SIZE = 0 -> ceil_page n = n.
Proof. unfold ceil_page, PAGE_SIZE_MINUS_1, PAGE_SIZE. lia. Qed.
Lemma ceil_page_mono a b : a <= b -> ceil_page a <= ceil_page b.
Proof. unfold ceil_page, PAGE_SIZE_MINUS_1, PAGE_SIZE. lia. Qed.

(* ---- owners as a sum ---- *)
Definition cov (e : ext) (a : N) : nat := if covers e a then 1%nat else 0%nat.

Lemma owners_nil a : owners [] a = 0%nat.
Proof. reflexivity. Qed.
Lemma owners_cons e l a : owners (e :: l) a = (cov e a + owners l a)%nat.
Proof. unfold owners, cov. cbn [filter]. destruct (covers e a); reflexivity. Qed.
Lemma owners_app l1 l2 a : owners (l1 ++ l2) a = (owners l1 a + owners l2 a)%nat.
Proof. unfold owners. rewrite filter_app, app_length. reflexivity. Qed.
Lemma owners_one e a : owners [e] a = cov e a.
Proof. rewrite owners_cons, owners_nil. lia. Qed.

Lemma owners_in e l a : In e l -> (cov e a <= owners l a)%nat.
Proof.
  induction l as [|x l IH]; [intros []|]. rewrite owners_cons.
  intros [->|HI]; [lia|]. specialize (IH HI). lia.
Qed.

Lemma owners_in2 e1 e2 l a : In e1 l -> In e2 l -> e1 <> e2 -> (cov e1 a + cov e2 a <= owners l a)%nat.
Proof.
  induction l as [|x l IH]; [intros []|]. rewrite owners_cons.
  intros [->|H1] [->|H2] Hne.
  - congruence.
  - pose proof (owners_in e2 l a H2). lia.
  - pose proof (owners_in e1 l a H1). lia.
  - specialize (IH H1 H2 Hne). lia.
Qed.

Lemma cov_true e a : covers e a = true -> cov e a = 1%nat.
Proof. unfold cov. now intros ->. Qed.
Lemma cov_false e a : covers e a = false -> cov e a = 0%nat.
Proof. unfold cov. now intros ->. Qed.
Lemma cov_zero_size k a : cov (k, 0) a = 0%nat.
Proof. unfold cov, covers. cbn [fst snd]. destruct ((k <=? a) && (a <? k + 0)) eqn:E; [lia|reflexivity]. Qed.

Lemma owners_ains_absent k v (m : amap N) a :
  aget k m = None -> owners (ains k v m) a = (cov (k, v) a + owners m a)%nat.
Proof.
  induction m as [|[k1 v1] t IH]; cbn [ains aget]; intros H.
  - rewrite owners_cons. reflexivity.
  - destruct (k <? k1). { rewrite owners_cons. reflexivity. }
    destruct (k =? k1) eqn:E; [discriminate|].
    rewrite !owners_cons, IH by exact H. lia.
Qed.

Lemma owners_arem k v (m : amap N) a :
  aget k m = Some v -> (owners (arem k m) a + cov (k, v) a = owners m a)%nat.
Proof.
  induction m as [|[k1 v1] t IH]; cbn [arem aget]; [discriminate|].
  destruct (k =? k1) eqn:E.
  - intros [= ->]. rewrite owners_cons. assert (k = k1) by lia. subst. lia.
  - intros H. rewrite !owners_cons. specialize (IH H). lia.
Qed.

(* ---- the region extents of a slot table ---- *)
Definition rext (m : rmeta) : ext := (r_start m, r_reserved m).
Definition oext (o : option rmeta) (a : N) : nat :=
  match o with Some m => cov (rext m) a | None => 0%nat end.

Lemma owners_region_set (l : list (option rmeta)) n x a :
  (owners (region_exts (set_at l n x None)) a
     + oext (match nth_opt l n with Some y => y | None => None end) a
   = owners (region_exts l) a + oext x a)%nat.
Proof.
  revert l. induction n as [|n IH]; intros [|h t]; cbn [set_at nth_opt].
  - destruct x; cbn [region_exts oext]; rewrite ?owners_cons, ?owners_nil; unfold rext; lia.
  - destruct x, h; cbn [region_exts oext]; rewrite ?owners_cons; unfold rext; lia.
  - cbn [region_exts]. specialize (IH []). destruct n; cbn [nth_opt] in IH; exact IH.
  - specialize (IH t). destruct h; cbn [region_exts]; rewrite ?owners_cons; lia.
Qed.

Lemma nth_opt_set_at {A} (l : list A) n x d k :
  nth_opt (set_at l n x d) k =
  if Nat.eqb k n then Some x
  else match nth_opt l k with Some y => Some y | None => if Nat.ltb k n then Some d else None end.
Proof.
  unfold Nat.ltb.
  revert l k. induction n as [|n IH]; intros [|h t] [|k]; cbn [set_at nth_opt Nat.eqb Nat.leb];
    rewrite ?IH; cbn [nth_opt]; try reflexivity.
  destruct (nth_opt t k); reflexivity.
Qed.

Lemma in_region_exts l e :
  In e (region_exts l) <-> exists n m, nth_opt l n = Some (Some m) /\ e = rext m.
Proof.
  induction l as [|h t IH].
  - cbn. split; [intros []|intros (n & m & H & _); destruct n; discriminate].
  - destruct h as [m0|]; cbn [region_exts].
    + split.
      * intros [<-|HI]. { exists O, m0. split; reflexivity. }
        apply IH in HI. destruct HI as (n & m & H & E). exists (S n), m. auto.
      * intros (n & m & H & E). destruct n; cbn [nth_opt] in H.
        { inversion H; subst. left. reflexivity. }
        right. apply IH. eauto.
    + rewrite IH. split.
      * intros (n & m & H & E). exists (S n), m. auto.
      * intros (n & m & H & E). destruct n; cbn [nth_opt] in H; [discriminate|]. eauto.
Qed.

(* ---- slots ---- *)
Lemma slot_in_region_exts s i m : slot s i = Some m -> In (rext m) (region_exts (slots s)).
Proof.
  unfold slot, get. intros H. apply in_region_exts. exists (N.to_nat i), m.
  destruct (nth_opt (slots s) (N.to_nat i)) as [[m'|]|]; try discriminate. inversion H. auto.
Qed.

Lemma in_region_exts_slot s e :
  In e (region_exts (slots s)) -> exists i m, slot s i = Some m /\ e = rext m.
Proof.
  intros H. apply in_region_exts in H. destruct H as (n & m & H & E).
  exists (N.of_nat n), m. unfold slot, get. rewrite Nat2N.id, H. auto.
Qed.

Lemma slot_put_slot s i x j : slot (put_slot s i x) j = if j =? i then x else slot s j.
Proof.
  unfold slot, put_slot, get, set_slots. cbn [slots]. rewrite nth_opt_set_at.
  destruct (j =? i) eqn:E.
  - assert (j = i) by lia. subst. rewrite Nat.eqb_refl. destruct x; reflexivity.
  - destruct (Nat.eqb (N.to_nat j) (N.to_nat i)) eqn:E2; [apply Nat.eqb_eq in E2; lia|].
    destruct (nth_opt (slots s) (N.to_nat j)) as [[m|]|]; try reflexivity.
    destruct (Nat.ltb (N.to_nat j) (N.to_nat i)); reflexivity.
Qed.

Lemma slot_upd s i f j :
  slot (upd s i f) j = if j =? i then option_map f (slot s i) else slot s j.
Proof.
  unfold upd. destruct (slot s i) as [m|] eqn:E.
  - rewrite slot_put_slot. destruct (j =? i); reflexivity.
  - destruct (j =? i) eqn:E2; [|reflexivity]. assert (j = i) by lia. subst. rewrite E. reflexivity.
Qed.

Lemma find_id_from_some l id i0 j :
  find_id_from l id i0 = Some j ->
  exists m, nth_opt l (N.to_nat (j - i0)) = Some (Some m) /\ r_id m = id /\ i0 <= j.
Proof.
  revert i0. induction l as [|[m|] t IH]; intros i0; cbn [find_id_from]; [discriminate| |].
  - destruct (r_id m =? id) eqn:E.
    + intros [= <-]. exists m. replace (N.to_nat (i0 - i0)) with O by lia. cbn. split; [reflexivity|lia].
    + intros H. destruct (IH _ H) as (m' & Hn & Hid & Hle). exists m'.
      replace (N.to_nat (j - i0)) with (S (N.to_nat (j - (i0 + 1)))) by lia. cbn [nth_opt]. split; [assumption|lia].
  - intros H. destruct (IH _ H) as (m' & Hn & Hid & Hle). exists m'.
    replace (N.to_nat (j - i0)) with (S (N.to_nat (j - (i0 + 1)))) by lia. cbn [nth_opt]. split; [assumption|lia].
Qed.

Lemma find_id_some s id i : find_id s id = Some i -> exists m, slot s i = Some m /\ r_id m = id.
Proof.
  unfold find_id. intros H. apply find_id_from_some in H. destruct H as (m & Hn & Hid & _).
  exists m. unfold slot, get. rewrite N.sub_0_r in Hn. rewrite Hn. auto.
Qed.

Lemma find_id_from_none l id i0 n m :
  find_id_from l id i0 = None -> nth_opt l n = Some (Some m) -> r_id m <> id.
Proof.
  revert i0 n. induction l as [|[m0|] t IH]; intros i0 n; cbn [find_id_from].
  - destruct n; discriminate.
  - destruct (r_id m0 =? id) eqn:E; [discriminate|]. intros H. destruct n; cbn [nth_opt].
    + intros [= <-]. lia.
    + eauto.
  - intros H. destruct n; cbn [nth_opt]; [discriminate|]. eauto.
Qed.

Lemma find_id_none s id i m : find_id s id = None -> slot s i = Some m -> r_id m <> id.
Proof.
  unfold find_id, slot, get. intros H Hs.
  destruct (nth_opt (slots s) (N.to_nat i)) as [[m'|]|] eqn:E; try discriminate.
  inversion Hs; subst. eapply find_id_from_none; eauto.
Qed.

(* ---- extents of a state, split by map ---- *)
Lemma owners_extents s a :
  owners (extents s) a =
  (owners (region_exts (slots s)) a + owners (holes s) a + owners (pend s) a + owners (resv s) a)%nat.
Proof. unfold extents. rewrite !owners_app. lia. Qed.

Lemma in_extents s e :
  In e (extents s) <-> In e (region_exts (slots s)) \/ In e (holes s) \/ In e (pend s) \/ In e (resv s).
Proof. unfold extents. rewrite !in_app_iff. tauto. Qed.
