(* Rawdb/AllocFacts.v — first facts about the allocator model (proof file). *)
From Anydb Require Import Common.Base Gen.Consts Rawdb.AMap Rawdb.Alloc Rawdb.AllocSpec Rawdb.AllocInv.

Lemma gen_byte_lt w k : gen_byte w k < 256.
Proof. unfold gen_byte. apply N.mod_lt. lia. Qed.

Lemma mem_write_spec m off f n a :
  mem_write m off f n a = if (off <=? a) && (a <? off + n) then f (a - off) else m a.
Proof. reflexivity. Qed.

Lemma mem_copy_spec m src dst n a :
  mem_copy m src dst n a = if (dst <=? a) && (a <? dst + n) then m (a - dst + src) else m a.
Proof. reflexivity. Qed.

(* requests small enough that no reserve exceeds MAX_RESERVED_SIZE (1 TiB): the asserts of
   set_reserved and the checked doubling then never fire *)
Definition op_fits (s : st) (o : op) : Prop :=
  match o with
  | Write _ _ n | WriteAt _ _ n _ | TruncWrite _ _ n _ => n <= MAX_RESERVED_SIZE / 4
  | SetMinLen n => n < two64 / 4
  | SetMinRegions n => n < two64 / (4 * PAGE_SIZE)
  | _ => True
  end.

(* ---- the initial state satisfies the invariant -------------------------------------------- *)
Lemma slot_init min_len i : slot (init min_len) i = None.
Proof. unfold slot, get, init. cbn. destruct (N.to_nat i); reflexivity. Qed.

Lemma inv_init min_len : Inv (init min_len).
Proof.
  constructor.
  - constructor.
  - intros a. cbn. destruct (a <? 0) eqn:E; [lia|reflexivity].
  - intros i m H. rewrite slot_init in H. discriminate.
  - intros a i. split; [discriminate|]. intros (m & H & _). rewrite slot_init in H. discriminate.
  - cbn. tauto.
  - split.
    + intros start size. split; [discriminate|]. intros (l & H & _). discriminate.
    + intros size l H. discriminate.
  - intros a z a' z' H. discriminate.
  - cbn. lia.
  - intros i j mi mj H. rewrite slot_init in H. discriminate.
  - intros i. rewrite slot_init. right. unfold get. cbn. destruct (N.to_nat i); reflexivity.
  - reflexivity.
Qed.
