(* Rawdb/AllocDisciplinedAll.v — tie between the allocator model and the crash monitor, last part
   (proof file): induction over histories.  The step lemma is proved for every operation of crash
   traces (everything but Reopen / SetMinRegions), every outcome. *)
From Anydb Require Import Common.Base Gen.Consts Rawdb.AMap Rawdb.Alloc Rawdb.AllocSpec Rawdb.AllocInv
  Rawdb.AllocFacts Rawdb.InvStep
  Rawdb.Crash Rawdb.CrashFacts Rawdb.CrashInv Rawdb.CrashSound Rawdb.CrashCompact Rawdb.AllocEvents Rawdb.AllocDisciplined
  Rawdb.AllocDisciplinedOps Rawdb.AllocDisciplinedSync Rawdb.AllocDisciplinedWObs Rawdb.AllocDisciplinedWrite
  Rawdb.AllocDisciplinedSync2 Rawdb.AllocDisciplinedCompact Rawdb.AllocDisciplinedRetain.

(* The operations for which the step lemma (monitor accepts the events of the step and the
   coupling invariant Cpl is re-established) is proved: every operation of crash traces, in every
   outcome (all paths of write_with, every subset of punched candidates in compact, refused
   requests and panics included).  Reopen and SetMinRegions are not part of crash traces. *)
Definition covered_op (s : st) (o : op) : Prop :=
  match o with
  | Reopen | SetMinRegions _ => False
  | _ => True
  end.

Fixpoint covered_run (s : st) (ops : list op) : Prop :=
  match ops with
  | [] => True
  | o :: t => covered_op s o /\ covered_run (fst (step_total s o)) t
  end.

Theorem step_covered orc s o m : Inv s -> K m -> Cpl s m -> covered_op s o -> step_ok orc s o m.
Proof.
  intros HI HK HC Hc. destruct o; cbn [covered_op] in Hc; try destruct Hc.
  - apply ok_create; assumption.
  - apply ok_write; assumption.
  - apply ok_write_at; assumption.
  - apply ok_trunc_write; assumption.
  - apply ok_truncate; assumption.
  - apply ok_rename; assumption.
  - apply ok_remove; assumption.
  - apply ok_drop; assumption.
  - apply ok_retain; assumption.
  - apply ok_flush; assumption.
  - apply ok_flush_region; assumption.
  - apply ok_compact; assumption.
  - apply ok_set_min_len; assumption.
Qed.

Lemma run_covered orcs ops : forall k s m,
  Inv s -> K m -> Cpl s m -> covered_run s ops ->
  snd (mon_run m (run_events_o orcs k s ops)) = true.
Proof.
  induction ops as [|o t IH]; intros k s m HI HK HC Hc; [reflexivity|].
  cbn [run_events_o covered_run] in *. destruct Hc as [Hc1 Hc2].
  destruct (step_covered (orcs k) s o m HI HK HC Hc1) as [Hok Hcpl].
  rewrite (mon_run_app_full _ _ _ Hok).
  apply IH; [apply inv_step; exact HI|apply K_run; assumption|exact Hcpl|exact Hc2].
Qed.

Lemma cpl_init min_len : Cpl (init min_len) (fst (mon_step mon_init (CSetLen min_len))).
Proof.
  constructor; cbn [mon_step fst m_len m_cur m_flushed m_pend m_pdata mon_init].
  - reflexivity.
  - reflexivity.
  - intros i. unfold rf, get, init. cbn [rfile]. destruct (N.to_nat i); reflexivity.
  - intros j w a [H|[]]. discriminate.
  - exact I.
  - intros i v [].
  - intros off len f j mj [].
Qed.

(* C05_model_disciplined, PARTIAL (operations of covered_op): the monitor accepts the trace of every
   such history of the allocator model, for every outcome of approx_has_punchable_data *)
Theorem C05_model_disciplined_partial_proof :
  forall orcs min_len ops, covered_run (init min_len) ops ->
    snd (mon_run mon_init (trace_of_o orcs min_len ops)) = true.
Proof.
  intros orcs min_len ops Hc. unfold trace_of_o. rewrite mon_run_cons.
  assert (Hs : snd (mon_step mon_init (CSetLen min_len)) = true) by (cbn [mon_step snd mon_init m_len]; lia).
  rewrite Hs. apply run_covered.
  - apply AllocFacts.inv_init.
  - apply K_step; [exact K_init|exact Hs].
  - apply cpl_init.
  - exact Hc.
Qed.

(* ... hence every crash point of such a history is safe for every choice of page versions *)
Theorem C05_all_histories_partial_proof :
  forall orcs min_len ops, covered_run (init min_len) ops ->
  forall t1 t2, trace_of_o orcs min_len ops = t1 ++ t2 ->
    let m := fst (mon_run mon_init t1) in
    forall sigma img, os_slots m sigma -> os_data m img ->
      pairwise_disjoint (recovered m sigma) /\ inside_file m (recovered m sigma)
      /\ match m_flushed m with
         | Some (fl, fmem) =>
             forall i w, assoc_get i fl = Some w -> mem_in (sr_id w) (m_touched m) = false ->
               sigma i = Some w /\ forall a, sr_start w <= a < sr_start w + sr_len w -> img a = fmem a
         | None => True
         end.
Proof.
  intros orcs min_len ops Hc t1 t2 E. apply (C05_os_proof t1 t2). rewrite <- E.
  apply C05_model_disciplined_partial_proof. exact Hc.
Qed.

(* every history of crash operations is covered *)
Lemma covered_of_crash_ops ops : forall s, forallb crash_op ops = true -> covered_run s ops.
Proof.
  induction ops as [|o t IH]; intros s H; cbn [covered_run forallb] in *; [exact I|].
  apply andb_true_iff in H. destruct H as [H1 H2]. split; [|apply IH; exact H2].
  destruct o; cbn [crash_op covered_op] in *; try exact I; discriminate.
Qed.

(* C05_model_disciplined, FULL: the monitor accepts the trace of EVERY history of the allocator
   model, for every outcome of approx_has_punchable_data *)
Theorem C05_model_disciplined_proof :
  forall orcs min_len ops, forallb crash_op ops = true ->
    snd (mon_run mon_init (trace_of_o orcs min_len ops)) = true.
Proof.
  intros orcs min_len ops H. apply C05_model_disciplined_partial_proof. apply covered_of_crash_ops. exact H.
Qed.

Theorem C05_all_histories_proof :
  forall orcs min_len ops, forallb crash_op ops = true ->
  forall t1 t2, trace_of_o orcs min_len ops = t1 ++ t2 ->
    let m := fst (mon_run mon_init t1) in
    forall sigma img, os_slots m sigma -> os_data m img ->
      pairwise_disjoint (recovered m sigma) /\ inside_file m (recovered m sigma)
      /\ match m_flushed m with
         | Some (fl, fmem) =>
             forall i w, assoc_get i fl = Some w -> mem_in (sr_id w) (m_touched m) = false ->
               sigma i = Some w /\ forall a, sr_start w <= a < sr_start w + sr_len w -> img a = fmem a
         | None => True
         end.
Proof.
  intros orcs min_len ops H. apply C05_all_histories_partial_proof. apply covered_of_crash_ops. exact H.
Qed.

(* non-vacuity: writes (in place, relocation), renames, Region::flush, remove, compact, flush
   without dirty region (metadata sync, then promotion: fix f53a575), retain_regions, reuse of the
   promoted extent by a new region whose metadata then reaches the regions file *)
Definition ex_history : list op :=
  [ Create 1 false; Create 2 false; Write 1 (fun _ => 7) 100; Write 1 (fun _ => 7) 5000; Rename 1 3; Rename 2 4; Flush;
    WriteAt 3 (fun _ => 9) 10 20; FlushRegion 3; Remove 3; Compact;
    Create 5 false; Create 6 false; Rename 6 7; Remove 4; SetMinLen 5000000; Flush; Rename 5 8; Retain [8]; Flush ].

Example ex_history_covered : covered_run (init 0) ex_history.
Proof. vm_compute. repeat split. Qed.

Example ex_history_crash_ops : forallb crash_op ex_history = true.
Proof. reflexivity. Qed.

Example ex_history_trace_nontrivial :
  existsb (fun e => match e with CMetaSync => true | _ => false end) (trace_of 0 ex_history) = true
  /\ existsb (fun e => match e with CMeta 0 (Some (0, 0, 4096, 8)) => true | _ => false end) (trace_of 0 ex_history) = true
  /\ existsb (fun e => match e with CPunch _ _ => true | _ => false end) (trace_of 0 ex_history) = true.
Proof. vm_compute. repeat split; reflexivity. Qed.

(* C12 on every history of the model, PARTIAL in one hypothesis: a punch of the model's trace is
   disjoint from the content of every possibly-durable version of every slot, provided no
   operation ids are current at that point.  (In the model's traces punches occur only inside
   compact, whose COp names no id, so the hypothesis always holds; that structural fact about
   trace_of_o is what is not proved here.) *)
Theorem C12_all_histories_partial_proof :
  forall orcs min_len ops, forallb crash_op ops = true ->
  forall t1 off len t2, trace_of_o orcs min_len ops = t1 ++ CPunch off len :: t2 ->
    let m := fst (mon_run mon_init t1) in
    m_cur m = [] ->
    forall i v, In (Some v) (possible m i) -> disjoint off len (sr_start v) (sr_len v) = true.
Proof.
  intros orcs min_len ops H t1 off len t2 E. apply (CrashCompact.C12_punch_safe_proof t1 off len t2).
  rewrite <- E. apply C05_model_disciplined_proof. exact H.
Qed.
