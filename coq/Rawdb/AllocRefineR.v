(* Rawdb/AllocRefineR.v — C01, the write paths, part 2: the relocating path, the assembly of
   write_with, the refinement of Write / WriteAt / TruncWrite.  PROOF FILE. *)
From Anydb Require Import Common.Base Gen.Consts Rawdb.AMap Rawdb.Alloc Rawdb.AllocSpec Rawdb.AllocInv
  Rawdb.AllocFacts Rawdb.AMapFacts Rawdb.CoverFacts Rawdb.InvLayout Rawdb.AllocErr
  Rawdb.CompactFacts Rawdb.AllocRefine Rawdb.AllocRefineS Rawdb.AllocRefineW.

Lemma set_mem_same s : set_mem s (mem s) = s.
Proof. destruct s; reflexivity. Qed.

Lemma db_copy_mem s src dst n s2 :
  db_copy s src dst n = AOk s2 ->
  exists mm, s2 = set_mem s mm /\ forall a, mm a = mem_copy (mem s) src dst n a.
Proof.
  unfold db_copy. destruct (n =? 0) eqn:E0.
  - intros [= <-]. exists (mem s). split; [symmetry; apply set_mem_same|].
    intros a. unfold mem_copy. destruct ((dst <=? a) && (a <? dst + n)) eqn:E; [lia|reflexivity].
  - destruct (negb _); [discriminate|]. destruct (_ && _); [|discriminate].
    intros [= <-]. eexists. split; [reflexivity|]. reflexivity.
Qed.

(* ---- the relocating path ---- *)
Lemma relocate_refine s i m f n wo nl nr cl s' r r' :
  Inv s -> slot s i = Some m -> wspec s i m f n wo nl r' ->
  wo + n <= nl -> nl <= nr -> r_len m < nl -> cl <= nr ->
  (forall k, k < nl -> (wo <=? k) && (k <? wo + n) = false -> k < cl) ->
  relocate s i m f n wo nl nr cl = AOk (s', r) ->
  spec_eq (abs s') (mkSpec (sput (r_id m) r' (sp_regions (abs s))) (held s)).
Proof.
  intros HI Hs HW Hwn Hnl Hgrow Hcl Hcov. unfold relocate.
  assert (Hfin : forall s1 zs,
    (forall j, slot s1 j = slot s j) -> mem s1 = mem s -> rfile s1 = rfile s -> held s1 = held s ->
    s2r s1 = s2r s ->
    (forall j mj, slot s j = Some mj -> r_start mj + r_reserved mj <= zs \/ zs + nr <= r_start mj) ->
    (let* s2 := db_copy s1 (r_start m) zs cl in
     match db_write s2 (zs + wo) f n with
     | None => APanic
     | Some s3 =>
       let* s4 := layout_remove_region s3 i m in
       match layout_insert_region s4 zs i with
       | None => APanic
       | Some s5 =>
           match aget zs (resv s5) with
           | Some z =>
               if negb (z =? nr) then APanic else
               let s6 := set_resv s5 (arem zs (resv s5)) in
               if negb (ok_set_start zs) then APanic else
               if negb (ok_set_reserved m nr) then APanic else
               if negb (nl <=? nr) then APanic else
               let s7 := upd s6 i (fun m => m_set_len (m_set_reserved (m_set_start (m_mark_dirty m 0 nl) zs) nr) nl) in
               AOk (write_if_dirty s7 i, OUnit)
           | None => APanic
           end
       end
     end) = AOk (s', r) ->
    spec_eq (abs s') (mkSpec (sput (r_id m) r' (sp_regions (abs s))) (held s))).
  { intros s1 zs H1 Hm1 Hr1 Hh1 H2 Hzone.
    destruct (db_copy s1 (r_start m) zs cl) as [s2| |] eqn:Ec; cbn [abind]; [|discriminate|discriminate].
    apply db_copy_mem in Ec. destruct Ec as (mm & -> & Hmm).
    destruct (db_write (set_mem s1 mm) (zs + wo) f n) as [s3|] eqn:Ew; [|discriminate].
    apply db_write_eq in Ew. subst s3. cbn [mem set_mem].
    rewrite layout_remove_region_ok.
    2:{ intros j mj Hj. change (aget (r_start mj) (s2r s1) = Some j). rewrite H2.
        apply (inv_s2r_ok s HI). rewrite <- H1. exact Hj. }
    2:{ change (slot s1 i = Some m). rewrite H1. exact Hs. }
    cbn [abind]. unfold layout_insert_region. destruct (aget zs (s2r _)); [discriminate|].
    destruct (aget zs (resv _)) as [z|]; [|discriminate].
    destruct (negb (z =? nr)); [discriminate|]. cbv zeta.
    destruct (negb (ok_set_start zs)); [discriminate|].
    destruct (negb (ok_set_reserved m nr)); [discriminate|].
    destruct (negb (nl <=? nr)); [discriminate|]. intros [= <- _].
    set (g := fun m0 => m_set_len (m_set_reserved (m_set_start (m_mark_dirty m0 0 nl) zs) nr) nl).
    match goal with |- context [write_if_dirty (upd ?x i g) i] => set (s6 := x) end.
    assert (Hs6 : slot s6 i = Some m) by (change (slot s1 i = Some m); rewrite H1; exact Hs).
    destruct (fin_same (g m)) as ((F1 & F2 & F3) & _).
    destruct (m_set_len_other (m_set_reserved (m_set_start (m_mark_dirty m 0 nl) zs) nr) nl) as (L1 & L2 & _).
    destruct (m_set_reserved_fields (m_set_start (m_mark_dirty m 0 nl) zs) nr) as (R1 & R2 & R3 & _).
    destruct (m_set_start_fields (m_mark_dirty m 0 nl) zs) as (T1 & T2 & T3 & _).
    eapply (write_core s _ i m (fin (g m)) f n wo nl zs nr mm r' HI Hs HW Hwn Hnl).
    - intros j. rewrite (slot_wid_upd s6 i g m j Hs6). change (slot s6 j) with (slot s1 j). now rewrite H1.
    - rewrite F3. subst g. cbv beta. rewrite L2, R2, T2. reflexivity.
    - rewrite F2. apply m_set_len_len.
    - rewrite F1. subst g. cbv beta. rewrite L1, R1, T1. reflexivity.
    - intros j mj _ Hj. exact (Hzone j mj Hj).
    - intros a. rewrite mem_wid_upd. reflexivity.
    - intros a Ha. rewrite Hmm, Hm1. unfold mem_copy.
      destruct ((zs <=? a) && (a <? zs + cl)) eqn:E; [lia|reflexivity].
    - intros k Hk Hnw. pose proof (Hcov k Hk Hnw) as Hkc. rewrite Hmm, Hm1. unfold mem_copy.
      destruct ((zs <=? zs + k) && (zs + k <? zs + cl)) eqn:E; [|lia]. f_equal. lia.
    - intros j Hne. rewrite (rfile_has_wid_upd s6 i g m j Hs6). destruct (j =? i) eqn:E; [lia|].
      unfold rfile_has. change (rfile s6) with (rfile s1). now rewrite Hr1.
    - rewrite (rfile_has_wid_upd s6 i g m i Hs6), N.eqb_refl. subst g. cbv beta. rewrite m_set_len_state, R3, T3.
      cbn [r_len m_mark_dirty].
      destruct (r_len m =? nl) eqn:E1; [lia|]. destruct (nl =? r_len m) eqn:E2; [lia|].
      cbn [negb]. rewrite orb_true_r. reflexivity.
    - rewrite held_wid_upd. change (held s6) with (held s1). exact Hh1. }
  destruct (find_hole s nr) as [hs|] eqn:Ef.
  - destruct (find_hole_spec s _ _ (inv_h2s s HI) (proj2 (proj2 (proj2 (proj2 (inv_sorted s HI))))) Ef)
      as (z & Hz & Hle).
    destruct (remove_or_compress_hole s hs nr) as [s1| |] eqn:Er; cbn [abind]; [|discriminate|discriminate].
    apply roc_shape in Er. destruct Er as (H & Q & ->). cbn [resv set_holes].
    destruct (aget hs (resv s)); cbn [abind]; [discriminate|].
    apply Hfin; try reflexivity.
    intros j mj Hj. destruct (region_hole_disjoint s j mj hs z HI Hj Hz); lia.
  - destruct (aget (layout_len s) (resv s)); cbn [abind]; [discriminate|].
    destruct (set_min_len_shape (set_resv s (ains (layout_len s) nr (resv s))) (layout_len s + nr))
      as (fl & -> & _).
    apply Hfin; try reflexivity.
    intros j mj Hj. pose proof (region_end_le s j mj HI Hj). lia.
Qed.

Lemma double_until_err fuel : forall r t e, double_until fuel r t = Err e -> e = RegionSizeOverflow.
Proof.
  induction fuel as [|fuel IH]; intros r t e; cbn [double_until]; destruct (t <=? r); try discriminate.
  - now intros [= <-].
  - destruct (two64 <=? r * RESERVE_FACTOR); [now intros [= <-]|]. apply IH.
Qed.

(* ---- write_with: a successful call refines the reference write ---- *)
Lemma write_with_ok s i m f n at_ tr s' r r' :
  Inv s -> slot s i = Some m -> w_oob at_ (r_len m) = false ->
  wspec s i m f n (w_off at_ (r_len m)) (w_len at_ tr (r_len m) n) r' ->
  write_with s i f n at_ tr = AOk (s', r) ->
  spec_eq (abs s') (mkSpec (sput (r_id m) r' (sp_regions (abs s))) (held s)).
Proof.
  intros HI Hs Hoob HW.
  destruct (w_off_len at_ tr (r_len m) n Hoob) as [Hwo Hwn].
  pose proof (fun k => w_copy_covers at_ tr (r_len m) n k Hoob) as Hcov.
  destruct (inv_len s HI i m Hs) as [Hlen _].
  destruct (inv_region_aligned s i m HI Hs) as (_ & _ & Hpos). cbn [rext snd] in Hpos.
  unfold write_with. rewrite Hs. cbv zeta.
  change (match at_ with Some a => r_len m <? a | None => false end) with (w_oob at_ (r_len m)).
  change (match at_ with Some a => a | None => r_len m end) with (w_off at_ (r_len m)).
  change (match at_ with None => r_len m + n | Some a => if tr then a + n else N.max (a + n) (r_len m) end)
    with (w_len at_ tr (r_len m) n).
  rewrite Hoob.
  set (wo := w_off at_ (r_len m)) in *. set (nl := w_len at_ tr (r_len m) n) in *.
  destruct (nl <=? r_reserved m) eqn:Efit.
  { intros Hw. eapply fits_refine; eauto. lia. }
  destruct (r_reserved m =? 0) eqn:Ez; [discriminate|].
  destruct (double_until 64 (r_reserved m) nl) as [nr|e0|] eqn:Ed; [|discriminate|discriminate].
  apply double_until_ge in Ed. destruct Ed as [Hnl Hnr].
  assert (Hgrow : r_len m < nl) by lia.
  assert (Hrel : relocate s i m f n wo nl nr (if tr then wo else r_len m) = AOk (s', r) ->
                 spec_eq (abs s') (mkSpec (sput (r_id m) r' (sp_regions (abs s))) (held s))).
  { apply relocate_refine; auto. destruct tr; lia. }
  destruct (is_last_anything s i) eqn:Elast.
  { destruct (negb (ok_set_reserved m nr)); [discriminate|].
    destruct (set_min_len_shape (upd s i (fun m0 => m_set_reserved m0 nr)) (r_start m + nr)) as (fl & -> & _).
    apply (finish_refine s _ i m f n wo nl nr s' r r' HI Hs HW Hwn Hnl Hgrow).
    - intros j. rewrite slot_set_file_len, slot_upd, Hs. destruct (j =? i); reflexivity.
    - cbn [mem set_file_len]. apply mem_upd.
    - intros j. change (rfile_has (set_file_len ?a ?b) j) with (rfile_has a j). apply rfile_has_upd.
    - cbn [held set_file_len]. apply held_upd.
    - intros j mj Hne Hj. left. exact (last_zone s i m HI Hs Elast j mj Hne Hj). }
  destruct (aget (r_start m + r_reserved m) (holes s)) as [gap|] eqn:Eg; [|exact Hrel].
  destruct (nr - r_reserved m <=? gap) eqn:Ea; [|exact Hrel].
  destruct (remove_or_compress_hole s (r_start m + r_reserved m) (nr - r_reserved m)) as [s1| |] eqn:Er;
    cbn [abind]; [|discriminate|discriminate].
  apply roc_shape in Er. destruct Er as (H & Q & ->).
  destruct (negb (ok_set_reserved m nr)); [discriminate|].
  apply (finish_refine s _ i m f n wo nl nr s' r r' HI Hs HW Hwn Hnl Hgrow).
  - intros j. rewrite slot_upd, !slot_set_holes, Hs. destruct (j =? i); reflexivity.
  - rewrite mem_upd. reflexivity.
  - intros j. rewrite rfile_has_upd. reflexivity.
  - rewrite held_upd. reflexivity.
  - apply (expand_zone s i m gap nr HI Hs Eg). lia.
Qed.

(* ---- write_with: which errors are possible ---- *)
Lemma write_with_err_kind s i m f n at_ tr s' e :
  Inv s -> slot s i = Some m -> write_with s i f n at_ tr = AErr s' e ->
  (w_oob at_ (r_len m) = true /\ e = WriteOutOfBounds) \/
  (e = RegionSizeOverflow /\ w_oob at_ (r_len m) = false
   /\ double_until 64 (r_reserved m) (w_len at_ tr (r_len m) n) = Err RegionSizeOverflow).
Proof.
  intros HI Hs. unfold write_with. rewrite Hs. cbv zeta.
  change (match at_ with Some a => r_len m <? a | None => false end) with (w_oob at_ (r_len m)).
  destruct (w_oob at_ (r_len m)) eqn:Eat; [intros [= _ <-]; left; auto|].
  set (wo := match at_ with Some a => a | None => r_len m end).
  set (nl := match at_ with None => r_len m + n | Some a => if tr then a + n else N.max (a + n) (r_len m) end).
  assert (Hwo : wo <= r_len m) by (subst wo; unfold w_oob in Eat; destruct at_; lia).
  destruct (inv_region_aligned s i m HI Hs) as (_ & _ & Hpos). cbn [rext snd] in Hpos.
  destruct (nl <=? r_reserved m) eqn:Efit.
  { destruct (db_write s (r_start m + wo) f n); [|discriminate]. destruct (nl =? r_len m); discriminate. }
  destruct (r_reserved m =? 0) eqn:Ez; [lia|].
  destruct (double_until 64 (r_reserved m) nl) as [nr|e0|] eqn:Ed; [| |discriminate].
  2:{ intros [= _ <-]. right. pose proof (double_until_err _ _ _ _ Ed) as ->. repeat split. exact Ed. }
  apply double_until_ge in Ed.
  destruct (inv_len s HI i m Hs) as [Hlen _].
  assert (Hrel : forall cl, cl <= r_len m -> relocate s i m f n wo nl nr cl <> AErr s' e).
  { intros cl Hcl. apply relocate_no_err; auto; lia. }
  assert (Hcl : (if tr then wo else r_len m) <= r_len m) by (destruct tr; lia).
  destruct (is_last_anything s i).
  { destruct (negb _); [discriminate|]. intros Hr. exfalso. revert Hr. apply finish_write_no_err. }
  destruct (aget (r_start m + r_reserved m) (holes s)) as [gap|] eqn:Eg; [|intros Hr; exfalso; exact (Hrel _ Hcl Hr)].
  destruct (nr - r_reserved m <=? gap) eqn:Ea; [|intros Hr; exfalso; exact (Hrel _ Hcl Hr)].
  destruct (remove_or_compress_hole s (r_start m + r_reserved m) (nr - r_reserved m)) as [s1| |] eqn:Er; cbn [abind].
  - destruct (negb _); [discriminate|]. intros Hr. exfalso. revert Hr. apply finish_write_no_err.
  - exfalso. eapply roc_no_err; eauto. lia.
  - discriminate.
Qed.

Lemma write_with_oob s i m f n at_ tr :
  slot s i = Some m -> w_oob at_ (r_len m) = true -> write_with s i f n at_ tr = AErr s WriteOutOfBounds.
Proof.
  intros Hs Ho. unfold write_with. rewrite Hs. cbv zeta.
  change (match at_ with Some a => r_len m <? a | None => false end) with (w_oob at_ (r_len m)).
  now rewrite Ho.
Qed.

(* ---- the three write operations ---- *)
Lemma refines_write_gen s o id f n at_ tr :
  step s o = with_region s id (fun i => write_with s i f n at_ tr) ->
  spec_step (abs s) o =
    match sget id (sp_regions (abs s)) with
    | None => (abs s, Err RegionNotFound)
    | Some r => match s_write r f n at_ tr with
                | Ok r' => (mkSpec (sput id r' (sp_regions (abs s))) (sp_held (abs s)), Ok OUnit)
                | Err e => (abs s, Err e)
                | Panic => (abs s, Panic)
                end
    end ->
  Inv s -> step s o <> APanic -> (forall s', step s o <> AErr s' RegionSizeOverflow) ->
  refines_step s o.
Proof.
  intros Hstep Hspec HI Hnp Hov. unfold with_region in Hstep.
  destruct (find_id s id) as [i|] eqn:Ef.
  - destruct (find_id_sget_some s id i Ef) as (m & Hs & Hid & Hg). rewrite Hg in Hspec.
    rewrite Hstep in Hnp. 
    destruct (write_with s i f n at_ tr) as [[s' r]|s' e|] eqn:Ew; [| |congruence].
    + destruct (w_oob at_ (r_len m)) eqn:Eo.
      { rewrite (write_with_oob s i m f n at_ tr Hs Eo) in Ew. discriminate. }
      destruct (s_write_char s i m f n at_ tr Eo) as (r' & Hsw & HW). rewrite Hsw in Hspec.
      eapply refines_ok; [exact Hstep|exact Hspec|]. rewrite <- Hid.
      eapply write_with_ok; eauto.
    + pose proof (write_with_err s i f n at_ tr s' e HI Ew) as ->.
      destruct (write_with_err_kind s i m f n at_ tr s e HI Hs Ew) as [[Eo ->]|(-> & _)].
      * rewrite (s_write_oob s i m f n at_ tr Eo) in Hspec.
        eapply refines_err; [exact Hstep|exact Hspec|apply spec_eq_refl].
      * exfalso. exact (Hov s Hstep).
  - rewrite (find_id_sget_none s id Ef) in Hspec.
    eapply refines_err; [exact Hstep|exact Hspec|apply spec_eq_refl].
Qed.

Lemma refines_write s id f n :
  Inv s -> step s (Write id f n) <> APanic -> (forall s', step s (Write id f n) <> AErr s' RegionSizeOverflow) ->
  refines_step s (Write id f n).
Proof. apply (refines_write_gen s _ id f n None false); reflexivity. Qed.

Lemma refines_write_at s id f n a :
  Inv s -> step s (WriteAt id f n a) <> APanic -> (forall s', step s (WriteAt id f n a) <> AErr s' RegionSizeOverflow) ->
  refines_step s (WriteAt id f n a).
Proof. apply (refines_write_gen s _ id f n (Some a) false); reflexivity. Qed.

Lemma refines_trunc_write s id f n a :
  Inv s -> step s (TruncWrite id f n a) <> APanic -> (forall s', step s (TruncWrite id f n a) <> AErr s' RegionSizeOverflow) ->
  refines_step s (TruncWrite id f n a).
Proof. apply (refines_write_gen s _ id f n (Some a) true); reflexivity. Qed.
