(* Rawdb/AMap.v — sorted association lists over N keys: the model of the BTreeMaps of
   rawdb's Layout (insert replaces, remove, get, last_key_value, range(..k).next_back(),
   range(k..).next()). *)
From Anydb Require Import Common.Base.

Definition amap (V : Type) := list (N * V).

Fixpoint ains {V} (k : N) (v : V) (m : amap V) : amap V :=
  match m with
  | [] => [(k, v)]
  | (k', v') :: t =>
      if k <? k' then (k, v) :: m
      else if k =? k' then (k, v) :: t
      else (k', v') :: ains k v t
  end.

Fixpoint arem {V} (k : N) (m : amap V) : amap V :=
  match m with
  | [] => []
  | (k', v') :: t => if k =? k' then t else (k', v') :: arem k t
  end.

Fixpoint aget {V} (k : N) (m : amap V) : option V :=
  match m with
  | [] => None
  | (k', v') :: t => if k =? k' then Some v' else aget k t
  end.

Fixpoint alast {V} (m : amap V) : option (N * V) :=
  match m with
  | [] => None
  | [x] => Some x
  | _ :: t => alast t
  end.

(* range(..k).next_back(): the entry with the largest key strictly below k *)
Fixpoint apred {V} (k : N) (m : amap V) : option (N * V) :=
  match m with
  | [] => None
  | (k', v') :: t =>
      if k' <? k then match apred k t with Some x => Some x | None => Some (k', v') end
      else None
  end.

(* range(k..).next(): the entry with the smallest key >= k *)
Fixpoint afirst_geq {V} (k : N) (m : amap V) : option (N * V) :=
  match m with
  | [] => None
  | (k', v') :: t => if k <=? k' then Some (k', v') else afirst_geq k t
  end.

Definition akeys {V} (m : amap V) : list N := map fst m.
