(* Rawdb/Alloc.v — L1: executable model of rawdb's region allocator (sequential semantics).
   Transcribed branch for branch from crates/rawdb/src/{lib,region,regions,layout,
   region_metadata}.rs; constants come from Gen/Consts.v.  MODEL ONLY: no proofs here. *)
From Anydb Require Import Common.Base Gen.Consts Rawdb.AMap.

Inductive aerr :=
| RegionNotFound | RegionMetadataUnwritten | RegionAlreadyExists | RegionStillReferenced
| WriteOutOfBounds | TruncateInvalid | RegionIndexMismatch | HoleTooSmall
| InvariantViolation | RegionSizeOverflow | OverlappingCopyRanges.

(* RegionState: 0 clean, 1 needs flush (written to the slot, not synced), 2 needs write *)
Definition ST_CLEAN : N := 0.
Definition ST_FLUSH : N := 1.
Definition ST_WRITE : N := 2.

Record rmeta := mkR {
  r_start : N; r_len : N; r_reserved : N; r_id : N;
  r_state : N;
  r_dmin : N; r_dmax : N      (* dirty bounds; (u64_max, 0) = clean *)
}.

(* one slot of the regions file as it would decode: start, len, reserved, id *)
Definition slotrec : Type := (N * N * N * N)%type.

Record st := mkSt {
  slots : list (option rmeta);      (* Regions::index_to_region (id_to_index is derived) *)
  s2r : amap N;                     (* Layout::start_to_region : start -> slot index *)
  holes : amap N;                   (* Layout::start_to_hole *)
  h2s : amap (list N);              (* Layout::hole_to_starts, starts in insertion order *)
  resv : amap N;                    (* Layout::start_to_reserved *)
  pend : amap N;                    (* Layout::pending_holes *)
  rfile : list (option slotrec);    (* the regions file, one entry per 4096-byte slot; None = zeros *)
  file_len : N;                     (* data file length = mmap length *)
  mem : N -> N;                     (* the data mmap *)
  held : list N                     (* ids for which the user holds another Region handle *)
}.

Definition set_slots s v := mkSt v (s2r s) (holes s) (h2s s) (resv s) (pend s) (rfile s) (file_len s) (mem s) (held s).
Definition set_s2r s v := mkSt (slots s) v (holes s) (h2s s) (resv s) (pend s) (rfile s) (file_len s) (mem s) (held s).
Definition set_holes s v w := mkSt (slots s) (s2r s) v w (resv s) (pend s) (rfile s) (file_len s) (mem s) (held s).
Definition set_resv s v := mkSt (slots s) (s2r s) (holes s) (h2s s) v (pend s) (rfile s) (file_len s) (mem s) (held s).
Definition set_pend s v := mkSt (slots s) (s2r s) (holes s) (h2s s) (resv s) v (rfile s) (file_len s) (mem s) (held s).
Definition set_rfile s v := mkSt (slots s) (s2r s) (holes s) (h2s s) (resv s) (pend s) v (file_len s) (mem s) (held s).
Definition set_file_len s v := mkSt (slots s) (s2r s) (holes s) (h2s s) (resv s) (pend s) (rfile s) v (mem s) (held s).
Definition set_mem s v := mkSt (slots s) (s2r s) (holes s) (h2s s) (resv s) (pend s) (rfile s) (file_len s) v (held s).
Definition set_held s v := mkSt (slots s) (s2r s) (holes s) (h2s s) (resv s) (pend s) (rfile s) (file_len s) (mem s) v.

(* Result of an allocator call.  An error carries the state AT THE POINT OF FAILURE: "an
   operation that reports an error has no effect" (C13) is then a theorem, not a convention. *)
Inductive ares (A : Type) : Type :=
| AOk (a : A)
| AErr (s : st) (e : aerr)
| APanic.
Arguments AOk {A} a.
Arguments AErr {A} s e.
Arguments APanic {A}.
Definition abind {A B} (r : ares A) (f : A -> ares B) : ares B :=
  match r with AOk a => f a | AErr s e => AErr s e | APanic => APanic end.
Notation "'let*' x ':=' r 'in' k" := (abind r (fun x => k))
  (at level 200, x pattern, r at level 100, k at level 200, right associativity).

Definition init (min_len : N) : st :=
  mkSt [] [] [] [] [] [] [] min_len (fun _ => 0) [].

(* ---- arithmetic of lib.rs ------------------------------------------------------------ *)
(* (num + PAGE_SIZE_MINUS_1) & !PAGE_SIZE_MINUS_1, PAGE_SIZE a power of two *)
Definition ceil_page (n : N) : N := ((n + PAGE_SIZE_MINUS_1) / PAGE_SIZE) * PAGE_SIZE.

(* Database::set_min_len *)
Definition set_min_len (s : st) (n : N) : st :=
  let n' := ceil_page n in
  if n' <=? file_len s then s
  else set_file_len s (ceil_page (N.max (N.max n' (file_len s * GROW_FACTOR)) GROW_FLOOR)).

(* ---- memory ------------------------------------------------------------------------------ *)
Definition mem_write (m : N -> N) (off : N) (f : N -> N) (n : N) : N -> N :=
  fun a => if (off <=? a) && (a <? off + n) then f (a - off) else m a.
Definition mem_copy (m : N -> N) (src dst n : N) : N -> N :=
  fun a => if (dst <=? a) && (a <? dst + n) then m (a - dst + src) else m a.
Definition mem_zero (m : N -> N) (off n : N) : N -> N :=
  fun a => if (off <=? a) && (a <? off + n) then 0 else m a.

(* write_to_mmap: asserts end <= mmap.len() *)
Definition db_write (s : st) (off : N) (f : N -> N) (n : N) : option st :=
  if off + n <=? file_len s then Some (set_mem s (mem_write (mem s) off f n)) else None.

(* ---- slots --------------------------------------------------------------------------------- *)
Definition slot (s : st) (i : N) : option rmeta :=
  match get (slots s) i with Some (Some m) => Some m | _ => None end.

Fixpoint set_at {A} (l : list A) (n : nat) (x : A) (dflt : A) : list A :=
  match n, l with
  | O, [] => [x]
  | O, _ :: t => x :: t
  | S k, [] => dflt :: set_at [] k x dflt
  | S k, h :: t => h :: set_at t k x dflt
  end.

Definition put_slot (s : st) (i : N) (m : option rmeta) : st :=
  set_slots s (set_at (slots s) (N.to_nat i) m None).

Fixpoint find_id_from (l : list (option rmeta)) (id : N) (i : N) : option N :=
  match l with
  | [] => None
  | Some m :: t => if r_id m =? id then Some i else find_id_from t id (i + 1)
  | None :: t => find_id_from t id (i + 1)
  end.
(* Regions::id_to_index *)
Definition find_id (s : st) (id : N) : option N := find_id_from (slots s) id 0.

Fixpoint first_free (l : list (option rmeta)) (i : N) : N :=
  match l with
  | [] => i
  | None :: _ => i
  | Some _ :: t => first_free t (i + 1)
  end.

(* RegionMetadata setters: update_value_if_different + set_needs_write *)
Definition m_set_len (m : rmeta) (v : N) : rmeta :=
  if r_len m =? v then m else mkR (r_start m) v (r_reserved m) (r_id m) ST_WRITE (r_dmin m) (r_dmax m).
Definition m_set_start (m : rmeta) (v : N) : rmeta :=
  if r_start m =? v then m else mkR v (r_len m) (r_reserved m) (r_id m) ST_WRITE (r_dmin m) (r_dmax m).
Definition m_set_reserved (m : rmeta) (v : N) : rmeta :=
  if r_reserved m =? v then m else mkR (r_start m) (r_len m) v (r_id m) ST_WRITE (r_dmin m) (r_dmax m).
Definition m_set_id (m : rmeta) (v : N) : rmeta :=
  if r_id m =? v then m else mkR (r_start m) (r_len m) (r_reserved m) v ST_WRITE (r_dmin m) (r_dmax m).
Definition m_set_state (m : rmeta) (v : N) : rmeta :=
  mkR (r_start m) (r_len m) (r_reserved m) (r_id m) v (r_dmin m) (r_dmax m).
(* Region::mark_dirty(offset, len) *)
Definition m_mark_dirty (m : rmeta) (off n : N) : rmeta :=
  mkR (r_start m) (r_len m) (r_reserved m) (r_id m) (r_state m) (N.min (r_dmin m) off) (N.max (r_dmax m) (off + n)).
Definition m_is_dirty (m : rmeta) : bool := r_dmin m <? r_dmax m.
(* Region::take_dirty_bounds: resets the bounds only when they are non-empty *)
Definition m_clear_dirty (m : rmeta) : rmeta :=
  if m_is_dirty m then mkR (r_start m) (r_len m) (r_reserved m) (r_id m) (r_state m) u64_max 0 else m.

(* the assertions of set_len / set_reserved / set_start *)
Definition ok_set_len (m : rmeta) (v : N) : bool := v <=? r_reserved m.
Definition ok_set_reserved (m : rmeta) (v : N) : bool :=
  (r_len m <=? v) && (PAGE_SIZE <=? v) && (v mod PAGE_SIZE =? 0) && (v <=? MAX_RESERVED_SIZE).
Definition ok_set_start (v : N) : bool := v mod PAGE_SIZE =? 0.

(* RegionMetadata::write_if_dirty: the slot is rewritten only in state NEEDS_WRITE *)
Definition write_if_dirty (s : st) (i : N) : st :=
  match slot s i with
  | Some m =>
      if r_state m =? ST_WRITE then
        let s1 := set_rfile s (set_at (rfile s) (N.to_nat i) (Some (r_start m, r_len m, r_reserved m, r_id m)) None) in
        put_slot s1 i (Some (m_set_state m ST_FLUSH))
      else s
  | None => s
  end.

(* ---- Layout --------------------------------------------------------------------------------- *)
Definition h2s_push (q : amap (list N)) (size start : N) : amap (list N) :=
  match aget size q with
  | Some l => ains size (l ++ [start]) q
  | None => ains size [start] q
  end.
Definition h2s_drop (q : amap (list N)) (size start : N) : amap (list N) :=
  match aget size q with
  | Some l =>
      let l' := filter (fun x => negb (x =? start)) l in
      match l' with [] => arem size q | _ => ains size l' q end
  | None => q
  end.

Definition insert_hole (s : st) (start size : N) : st :=
  set_holes s (ains start size (holes s)) (h2s_push (h2s s) size start).

Definition remove_hole (s : st) (start : N) : st * option N :=
  match aget start (holes s) with
  | Some size => (set_holes s (arem start (holes s)) (h2s_drop (h2s s) size start), Some size)
  | None => (s, None)
  end.

Definition last_end (m : amap N) : N :=
  match alast m with Some (a, z) => a + z | None => 0 end.

Definition last_region_end (s : st) : N :=
  match alast (s2r s) with
  | Some (a, i) => match slot s i with Some m => a + r_reserved m | None => 0 end
  | None => 0
  end.

(* Layout::len *)
Definition layout_len (s : st) : N :=
  N.max (N.max (N.max (last_end (resv s)) (last_end (holes s))) (last_end (pend s))) (last_region_end s).

Definition lt_last_start (a : N) (m : amap N) : bool :=
  match alast m with Some (b, _) => b <? a | None => true end.

(* Layout::is_last_anything *)
Definition is_last_anything (s : st) (i : N) : bool :=
  match alast (s2r s) with
  | Some (a, j) =>
      (j =? i) && lt_last_start a (holes s) && lt_last_start a (resv s) && lt_last_start a (pend s)
  | None => false
  end.

(* Layout::find_smallest_adequate_hole *)
Definition find_hole (s : st) (min_size : N) : option N :=
  match afirst_geq min_size (h2s s) with
  | Some (_, start :: _) => Some start
  | _ => None
  end.

(* Layout::remove_or_compress_hole *)
Definition remove_or_compress_hole (s : st) (start by_ : N) : ares st :=
  match remove_hole s start with
  | (s1, None) => AOk s1
  | (s1, Some size) =>
      if size =? by_ then AOk s1
      else if by_ <? size then AOk (insert_hole s1 (start + by_) (size - by_))
      else AErr s1 HoleTooSmall
  end.

(* Layout::remove_region *)
Definition layout_remove_region (s : st) (i : N) (m : rmeta) : ares st :=
  match aget (r_start m) (s2r s) with
  | Some j =>
      let s1 := set_s2r s (arem (r_start m) (s2r s)) in
      if j =? i then AOk (set_pend s1 (ains (r_start m) (r_reserved m) (pend s1))) else AErr s1 RegionIndexMismatch
  | None => AErr s RegionIndexMismatch
  end.

(* Layout::insert_region: assert!(insert(..).is_none()) *)
Definition layout_insert_region (s : st) (start i : N) : option st :=
  match aget start (s2r s) with
  | Some _ => None
  | None => Some (set_s2r s (ains start i (s2r s)))
  end.

(* Layout::promote_pending_holes: pending extents in ascending order, coalescing with the
   adjacent real hole before and after *)
Definition promote_one (s : st) (p : N * N) : st :=
  let '(start, size) := p in
  let '(s1, fstart, size1) :=
    match apred start (holes s) with
    | Some (hs, hz) =>
        if hs + hz =? start then (fst (remove_hole s hs), hs, size + hz) else (s, start, size)
    | None => (s, start, size)
    end in
  let '(s2, size2) :=
    match remove_hole s1 (fstart + size1) with
    | (s', Some z) => (s', size1 + z)
    | (s', None) => (s', size1)
    end in
  insert_hole s2 fstart size2.

Definition promote (s : st) : st :=
  fold_left promote_one (pend s) (set_pend s []).

(* ---- operations -------------------------------------------------------------------------------- *)
Inductive out := OUnit | ONum (n : N).

(* Database::create_region_if_needed (+ Regions::create) *)
Definition create (s : st) (id : N) (hold : bool) : ares (st * out) :=
  let s := if hold then set_held s (id :: held s) else s in
  match find_id s id with
  | Some _ => AOk (s, OUnit)
  | None =>
      let s1 := match find_hole s PAGE_SIZE with
                | None => set_min_len s (layout_len s + PAGE_SIZE)
                | Some _ => s
                end in
      let* (s2, start) :=
        match find_hole s1 PAGE_SIZE with
        | Some a => let* s' := remove_or_compress_hole s1 a PAGE_SIZE in AOk (s', a)
        | None => AOk (s1, layout_len s1)
        end in
      let i := first_free (slots s2) 0 in
      let m := mkR start NEW_REGION_LEN NEW_REGION_RESERVED id ST_WRITE u64_max 0 in
      (* Regions::set_min_len((index + 1) * SIZE_OF_REGION_METADATA): the regions file grows with zeros *)
      let rf := if len (rfile s2) <? i + 1 then rfile s2 ++ repeat None (N.to_nat (i + 1 - len (rfile s2))) else rfile s2 in
      let s3 := put_slot (set_rfile s2 rf) i (Some m) in
      match layout_insert_region s3 start i with
      | Some s4 => AOk (s4, OUnit)
      | None => APanic
      end
  end.

Fixpoint double_until (fuel : nat) (r target : N) : res aerr N :=
  if target <=? r then Ok r else
  match fuel with
  | O => Err RegionSizeOverflow
  | S k => if two64 <=? r * RESERVE_FACTOR then Err RegionSizeOverflow else double_until k (r * RESERVE_FACTOR) target
  end.

Definition upd (s : st) (i : N) (f : rmeta -> rmeta) : st :=
  match slot s i with Some m => put_slot s i (Some (f m)) | None => s end.

(* the common tail: db.write; mark_dirty; set_len; write_if_dirty *)
Definition finish_write (s : st) (i : N) (start write_offset : N) (f : N -> N) (n new_len : N) : ares (st * out) :=
  match db_write s (start + write_offset) f n with
  | None => APanic
  | Some s1 =>
      let s2 := upd s1 i (fun m => m_mark_dirty m write_offset n) in
      match slot s2 i with
      | Some m =>
          if ok_set_len m new_len then
            AOk (write_if_dirty (upd s2 i (fun m => m_set_len m new_len)) i, OUnit)
          else APanic
      | None => APanic
      end
  end.

(* Database::copy *)
Definition db_copy (s : st) (src dst n : N) : ares st :=
  if n =? 0 then AOk s
  else if negb ((src + n <=? dst) || (dst + n <=? src)) then AErr s OverlappingCopyRanges
  else if (src + n <=? file_len s) && (dst + n <=? file_len s) then AOk (set_mem s (mem_copy (mem s) src dst n))
  else APanic.

(* Region::write_with, last path: relocate to a hole or append at the end *)
Definition relocate (s : st) (i : N) (m : rmeta) (f : N -> N) (n write_offset new_len new_reserved copy_len : N)
  : ares (st * out) :=
  let start := r_start m in
  let* (s1, new_start) :=
    match find_hole s new_reserved with
    | Some hs =>
        let* s' := remove_or_compress_hole s hs new_reserved in
        match aget hs (resv s') with
        | Some _ => APanic                       (* Layout::reserve: unreachable!() *)
        | None => AOk (set_resv s' (ains hs new_reserved (resv s')), hs)
        end
    | None =>
        let ns := layout_len s in
        match aget ns (resv s) with
        | Some _ => APanic
        | None =>
            let s' := set_resv s (ains ns new_reserved (resv s)) in
            AOk (set_min_len s' (ns + new_reserved), ns)
        end
    end in
  let* s2 := db_copy s1 start new_start copy_len in
  match db_write s2 (new_start + write_offset) f n with
  | None => APanic
  | Some s3 =>
      (* Layout::move_region = remove_region + insert_region; then take_reserved *)
      let* s4 := layout_remove_region s3 i m in
      match layout_insert_region s4 new_start i with
      | None => APanic
      | Some s5 =>
          match aget new_start (resv s5) with
          | Some z =>
              if negb (z =? new_reserved) then APanic else
              let s6 := set_resv s5 (arem new_start (resv s5)) in
              (* mark_dirty(0, new_len); set_start; set_reserved; set_len; write_if_dirty *)
              if negb (ok_set_start new_start) then APanic else
              if negb (ok_set_reserved m new_reserved) then APanic else
              if negb (new_len <=? new_reserved) then APanic else
              let s7 := upd s6 i (fun m => m_set_len (m_set_reserved (m_set_start (m_mark_dirty m 0 new_len) new_start) new_reserved) new_len) in
              AOk (write_if_dirty s7 i, OUnit)
          | None => APanic
          end
      end
  end.

(* Region::write_with *)
Definition write_with (s : st) (i : N) (f : N -> N) (n : N) (at_ : option N) (truncate : bool) : ares (st * out) :=
  match slot s i with
  | None => AErr s RegionNotFound
  | Some m =>
      let start := r_start m in
      let reserved := r_reserved m in
      let ln := r_len m in
      if match at_ with Some a => ln <? a | None => false end then AErr s WriteOutOfBounds else
      let write_offset := match at_ with Some a => a | None => ln end in
      let new_len := match at_ with
                     | None => ln + n
                     | Some a => if truncate then a + n else N.max (a + n) ln
                     end in
      if new_len <=? reserved then
        (* fits in reserved space *)
        match db_write s (start + write_offset) f n with
        | None => APanic
        | Some s1 =>
            let s2 := upd s1 i (fun m => m_mark_dirty m write_offset n) in
            if new_len =? ln then AOk (s2, OUnit)
            else AOk (write_if_dirty (upd s2 i (fun m => m_set_len m new_len)) i, OUnit)
        end
      else if reserved =? 0 then AErr s InvariantViolation
      else
        match double_until 64 reserved new_len with Err e => AErr s e | Panic => APanic | Ok new_reserved =>
        let added := new_reserved - reserved in
        let copy_len := if truncate then write_offset else ln in
        if is_last_anything s i then
          (* extend the last region of the file *)
          if negb (ok_set_reserved m new_reserved) then APanic else
          let s1 := upd s i (fun m => m_set_reserved m new_reserved) in
          let s2 := set_min_len s1 (start + new_reserved) in
          finish_write s2 i start write_offset f n new_len
        else
          match aget (start + reserved) (holes s) with
          | Some gap =>
              if added <=? gap then
                (* expand into the adjacent hole *)
                let* s1 := remove_or_compress_hole s (start + reserved) added in
                if negb (ok_set_reserved m new_reserved) then APanic else
                let s2 := upd s1 i (fun m => m_set_reserved m new_reserved) in
                finish_write s2 i start write_offset f n new_len
              else relocate s i m f n write_offset new_len new_reserved copy_len
          | None => relocate s i m f n write_offset new_len new_reserved copy_len
          end
        end
  end.

(* Region::truncate *)
Definition truncate (s : st) (i : N) (from : N) : ares (st * out) :=
  match slot s i with
  | None => AErr s RegionNotFound
  | Some m =>
      if from =? r_len m then AOk (s, OUnit)
      else if r_len m <? from then AErr s TruncateInvalid
      else if negb (ok_set_len m from) then APanic
      else AOk (write_if_dirty (upd s i (fun m => m_set_len m from)) i, OUnit)
  end.

(* Region::rename (+ Regions::rename) *)
Definition rename (s : st) (i : N) (new_id : N) : ares (st * out) :=
  match slot s i with
  | None => AErr s RegionNotFound
  | Some m =>
      match find_id s new_id with
      | Some _ => AErr s RegionAlreadyExists
      | None =>
          let s1 := write_if_dirty (upd s i (fun m => m_set_id m new_id)) i in
          (* the harness moves its handle along with the name *)
          let h := map (fun x => if x =? r_id m then new_id else x) (held s1) in
          AOk (set_held s1 h, OUnit)
      end
  end.

Definition is_held (s : st) (id : N) : bool := existsb (fun x => x =? id) (held s).

(* Region::remove (+ Layout::remove_region, Regions::remove); the reference count is checked
   before the layout is touched (fix d173991) *)
Definition remove_idx (s : st) (i : N) : ares st :=
  match slot s i with
  | None => AErr s RegionNotFound
  | Some m =>
      if is_held s (r_id m) then AErr s RegionStillReferenced else
      let* s1 := layout_remove_region s i m in
      let s2 := put_slot s1 i None in
      AOk (set_rfile s2 (set_at (rfile s2) (N.to_nat i) None None))
  end.

Definition remove (s : st) (id : N) : ares (st * out) :=
  match find_id s id with
  | None => AErr s RegionNotFound
  | Some i => let* s1 := remove_idx s i in AOk (s1, OUnit)
  end.

(* Database::retain_regions: removes every region whose id is not in `keep` *)
Fixpoint retain_from (fuel : list (option rmeta)) (s : st) (keep : list N) (i : N) : ares st :=
  match fuel with
  | [] => AOk s
  | Some m :: t =>
      if existsb (fun x => x =? r_id m) keep then retain_from t s keep (i + 1)
      else let* s1 := remove_idx s i in retain_from t s1 keep (i + 1)
  | None :: t => retain_from t s keep (i + 1)
  end.
(* a region that is to be removed (its id is not in `keep`) and still has another handle *)
Definition retain_blocked (s : st) (keep : list N) : bool :=
  existsb (fun o => match o with
                    | Some m => negb (existsb (fun x => x =? r_id m) keep) && is_held s (r_id m)
                    | None => false end) (slots s).

Definition retain (s : st) (keep : list N) : ares (st * out) :=
  (* all candidates are checked before anything is removed (fix 881ef86) *)
  if retain_blocked s keep then AErr s RegionStillReferenced else
  let* s1 := retain_from (slots s) s keep 0 in
  AOk (set_held s1 (filter (fun x => existsb (fun y => y =? x) keep) (held s1)), OUnit).

(* Database::flush *)
Definition flush_region_is_dirty (m : rmeta) : bool := m_is_dirty m || (r_state m =? ST_FLUSH).

Definition flush (s : st) : st * N :=
  let dirty := filter (fun o => match o with Some m => flush_region_is_dirty m | None => false end) (slots s) in
  (* take_dirty_bounds() runs for every region while collecting *)
  let cleared := map (fun o => match o with Some m => Some (m_clear_dirty m) | None => None end) (slots s) in
  match dirty with
  | [] => (promote (set_slots s cleared), 0)
  | _ =>
      let cleaned := map (fun o => match o with
                                   | Some m => if flush_region_is_dirty m then Some (m_set_state (m_clear_dirty m) ST_CLEAN)
                                               else Some (m_clear_dirty m)
                                   | None => None end) (slots s) in
      (promote (set_slots s cleaned), len dirty)
  end.

(* Region::flush *)
Definition flush_region (s : st) (i : N) : ares (st * out) :=
  match slot s i with
  | None => AErr s RegionNotFound
  | Some m =>
      let data_flushed := m_is_dirty m in
      let s1 := upd s i m_clear_dirty in
      if r_state m =? ST_CLEAN then AOk (s1, ONum (if data_flushed then 1 else 0))
      else if r_state m =? ST_WRITE then AErr s1 RegionMetadataUnwritten
      else AOk (upd s1 i (fun m => m_set_state m ST_CLEAN), ONum 1)
  end.

(* Database::punch_holes: the ranges handed to fallocate(PUNCH_HOLE) *)
Definition punch_ranges (s : st) : list (N * N) :=
  flat_map (fun o => match o with
                     | Some m => let c := ceil_page (r_len m) in
                                 if c <? r_reserved m then [(r_start m + c, r_reserved m - c)] else []
                     | None => [] end) (slots s)
  ++ holes s.

Definition compact (s : st) : st * N :=
  let '(s1, n) := flush s in
  (set_mem s1 (fold_left (fun m r => mem_zero m (fst r) (snd r)) (punch_ranges s1) (mem s1)), n).

(* Regions::fill + Layout::from at open *)
Definition valid_slotrec (r : slotrec) : bool :=
  let '(start, ln, reserved, _) := r in
  (start mod PAGE_SIZE =? 0) && (PAGE_SIZE <=? reserved) && (reserved mod PAGE_SIZE =? 0) && (ln <=? reserved).

Definition fill_slots (rf : list (option slotrec)) : list (option rmeta) :=
  map (fun o => match o with
                | Some (start, ln, reserved, id) =>
                    if valid_slotrec (start, ln, reserved, id) then Some (mkR start ln reserved id ST_CLEAN u64_max 0) else None
                | None => None end) rf.

Fixpoint s2r_of (l : list (option rmeta)) (i : N) (acc : amap N) : amap N :=
  match l with
  | [] => acc
  | Some m :: t => s2r_of t (i + 1) (ains (r_start m) i acc)
  | None :: t => s2r_of t (i + 1) acc
  end.

(* Layout::from: holes are the gaps between regions in start order; `start - prev_end`
   underflows (panics in debug builds) when regions overlap *)
Fixpoint gaps (sl : list (option rmeta)) (l : amap N) (prev_end : N) (s : st) : option st :=
  match l with
  | [] => Some s
  | (start, i) :: t =>
      match get sl i with
      | Some (Some m) =>
          if start <? prev_end then None
          else let s1 := if prev_end =? start then s else insert_hole s prev_end (start - prev_end) in
               gaps sl t (start + r_reserved m) s1
      | _ => None
      end
  end.

Definition reopen (s : st) : ares (st * out) :=
  let sl := fill_slots (rfile s) in
  let g := s2r_of sl 0 [] in
  let s0 := mkSt sl [] [] [] [] [] (rfile s) (file_len s) (mem s) [] in
  match gaps sl g 0 s0 with
  | Some s1 => AOk (set_s2r s1 g, OUnit)
  | None => APanic
  end.

(* Database::set_min_regions *)
Definition set_min_regions (s : st) (n : N) : st :=
  let rf := if len (rfile s) <? n then rfile s ++ repeat None (N.to_nat (n - len (rfile s))) else rfile s in
  set_min_len (set_rfile s rf) (n * PAGE_SIZE).

(* ---- the step function over the operation alphabet -------------------------------------------- *)
Inductive op :=
| Create (id : N) (hold : bool)
| Write (id : N) (f : N -> N) (n : N)
| WriteAt (id : N) (f : N -> N) (n at_ : N)
| TruncWrite (id : N) (f : N -> N) (n at_ : N)
| Truncate (id from : N)
| Rename (id new_id : N)
| Remove (id : N)
| DropHandle (id : N)
| Retain (keep : list N)
| Flush
| FlushRegion (id : N)
| Compact
| Reopen
| SetMinLen (n : N)
| SetMinRegions (n : N).

Definition with_region (s : st) (id : N) (k : N -> ares (st * out)) : ares (st * out) :=
  match find_id s id with Some i => k i | None => AErr s RegionNotFound end.

Definition step (s : st) (o : op) : ares (st * out) :=
  match o with
  | Create id hold => create s id hold
  | Write id f n => with_region s id (fun i => write_with s i f n None false)
  | WriteAt id f n a => with_region s id (fun i => write_with s i f n (Some a) false)
  | TruncWrite id f n a => with_region s id (fun i => write_with s i f n (Some a) true)
  | Truncate id from => with_region s id (fun i => truncate s i from)
  | Rename id new_id => with_region s id (fun i => rename s i new_id)
  | Remove id => remove s id
  | DropHandle id => AOk (set_held s (filter (fun x => negb (x =? id)) (held s)), OUnit)
  | Retain keep => retain s keep
  | Flush => let '(s1, n) := flush s in AOk (s1, ONum n)
  | FlushRegion id => with_region s id (fun i => flush_region s i)
  | Compact => let '(s1, _) := compact s in AOk (s1, OUnit)
  | Reopen => reopen s
  | SetMinLen n => AOk (set_min_len s n, OUnit)
  | SetMinRegions n => AOk (set_min_regions s n, OUnit)
  end.

Definition step_total (s : st) (o : op) : st * res aerr out :=
  match step s o with
  | AOk (s', r) => (s', Ok r)
  | AErr s' e => (s', Err e)
  | APanic => (s, Panic)
  end.

Definition run (s : st) (ops : list op) : st := fold_left (fun s o => fst (step_total s o)) ops s.

(* the byte pattern the differential engine writes: byte k of write w *)
Definition gen_byte (w k : N) : N := (w * 131 + k * 7 + (k / 256) * 13 + 1) mod 256.
