(* Rawdb/AllocRefineAll.v — C01 for the allocator model: every step of the executable model
   refines the reference semantics of AllocSpec (one independent byte vector per region name),
   and a step addressed at one name leaves every other name's bytes, length and persistence
   flag alone.  PROOF FILE.

   FINDING (reference incompleteness, not an allocator bug): the reference write has no size
   limit, the allocator refuses a write whose doubled reserve would exceed 2^64 with
   RegionSizeOverflow; `c01_refines_step_unbounded_refuted` is the witness.  The theorem
   therefore carries `no_overflow`, which `op_fits` implies. *)
From Anydb Require Import Common.Base Gen.Consts Rawdb.AMap Rawdb.Alloc Rawdb.AllocSpec Rawdb.AllocInv
  Rawdb.AllocFacts Rawdb.AMapFacts Rawdb.CoverFacts Rawdb.InvLayout Rawdb.AllocErr
  Rawdb.CompactFacts Rawdb.InvFlush Rawdb.InvReopen Rawdb.AllocNoPanic
  Rawdb.AllocRefine Rawdb.AllocRefineS Rawdb.AllocRefineC Rawdb.AllocRefineW Rawdb.AllocRefineR.

(* a write is not refused for its size *)
Definition no_overflow (s : st) (o : op) : Prop :=
  match o with
  | Write _ _ _ | WriteAt _ _ _ _ | TruncWrite _ _ _ _ => forall s', step s o <> AErr s' RegionSizeOverflow
  | _ => True
  end.

Theorem c01_refines_step : forall s o,
  Inv s -> step s o <> APanic -> no_overflow s o -> refines_step s o.
Proof.
  intros s o HI Hnp Hov. destruct o.
  - now apply refines_create.
  - now apply refines_write.
  - now apply refines_write_at.
  - now apply refines_trunc_write.
  - now apply refines_truncate.
  - now apply refines_rename.
  - now apply refines_remove.
  - now apply refines_drop_handle.
  - now apply refines_retain.
  - apply refines_flush.
  - now apply refines_flush_region.
  - apply refines_compact. exact (proj1 (inv_flush s HI)).
  - now apply refines_reopen.
  - now apply refines_set_min_len.
  - now apply refines_set_min_regions.
Qed.

(* ---- op_fits excludes the size refusal ---- *)
Lemma double_until_ok fuel : forall r t,
  0 < r -> t * 2 < two64 -> t <= r * 2 ^ N.of_nat fuel -> exists r', double_until fuel r t = Ok r'.
Proof.
  induction fuel as [|fuel IH]; intros r t Hr Ht Hle; cbn [double_until].
  - destruct (t <=? r) eqn:E; [eauto|]. change (2 ^ N.of_nat 0) with 1 in Hle. lia.
  - destruct (t <=? r) eqn:E; [eauto|]. rewrite RESERVE_FACTOR_2.
    destruct (two64 <=? r * 2) eqn:E2; [lia|]. apply IH; [lia|exact Ht|].
    rewrite Nat2N.inj_succ, N.pow_succ_r' in Hle. lia.
Qed.

Lemma write_with_no_overflow s i m f n at_ tr s' :
  Inv s -> slot s i = Some m -> n <= MAX_RESERVED_SIZE / 4 ->
  write_with s i f n at_ tr <> AErr s' RegionSizeOverflow.
Proof.
  intros HI Hs Hn Hw.
  destruct (write_with_err_kind s i m f n at_ tr s' _ HI Hs Hw) as [[_ E]|(_ & Eo & Ed)]; [discriminate|].
  destruct (inv_len s HI i m Hs) as [Hlen Hmax].
  destruct (inv_region_aligned s i m HI Hs) as (_ & _ & Hpos). cbn [rext snd] in Hpos.
  pose proof MAX_lt_two63 as HM.
  assert (Hnl : w_len at_ tr (r_len m) n <= MAX_RESERVED_SIZE + MAX_RESERVED_SIZE / 4).
  { unfold w_oob in Eo. unfold w_len. destruct at_ as [a|]; [destruct tr|]; lia. }
  destruct (double_until_ok 64 (r_reserved m) (w_len at_ tr (r_len m) n)) as (r' & Hr'); [lia|lia| |congruence].
  change (2 ^ N.of_nat 64) with two64. nia.
Qed.

Lemma fits_no_overflow s o : Inv s -> op_fits s o -> no_overflow s o.
Proof.
  intros HI Hf. destruct o; try exact I; cbn [no_overflow step op_fits] in *; intros s' Hst; unfold with_region in Hst;
    (destruct (find_id s id) as [i|] eqn:Ef; [|discriminate]);
    destruct (find_id_some s id i Ef) as (m & Hs & _);
    exact (write_with_no_overflow s i m _ _ _ _ s' HI Hs Hf Hst).
Qed.

Corollary c01_refines_step_fits : forall s o,
  Inv s -> op_fits s o -> step s o <> APanic -> refines_step s o.
Proof. intros s o HI Hf Hnp. apply c01_refines_step; auto. now apply fits_no_overflow. Qed.

(* with the no-panic theorem of AllocNoPanic / InvReopen: no side condition on the step left *)
Corollary c01_refines_step_strong : forall s o,
  Inv s -> op_fits_strong s o -> refines_step s o.
Proof.
  intros s o HI Hf. apply c01_refines_step_fits; auto; [exact (proj1 Hf)|].
  assert (Hre : o = Reopen \/ o <> Reopen) by (destruct o; (left; reflexivity) || (right; discriminate)).
  destruct Hre as [->|Hne].
  - cbn [step]. now apply reopen_no_panic.
  - now apply no_panic.
Qed.

(* ---- isolation ---- *)
(* the names an operation is addressed at; None: the operation is a bulk drop (Retain, Reopen) *)
Definition op_ids (o : op) : option (list N) :=
  match o with
  | Create id _ | Write id _ _ | WriteAt id _ _ _ | TruncWrite id _ _ _
  | Truncate id _ | Remove id | FlushRegion id => Some [id]
  | Rename id new_id => Some [id; new_id]
  | DropHandle _ | Flush | Compact | SetMinLen _ | SetMinRegions _ => Some []
  | Retain _ | Reopen => None
  end.

Definition same_region (a b : option sreg) : Prop :=
  match a, b with
  | Some x, Some y => sreg_eq x y
  | None, None => True
  | _, _ => False
  end.

Lemma spec_step_frame sp o ids id' :
  op_ids o = Some ids -> ~ In id' ids ->
  sget id' (sp_regions (fst (spec_step sp o))) = sget id' (sp_regions sp).
Proof.
  intros Hi Hn.
  assert (Hw : forall id f n at_ tr, id' <> id ->
    sget id' (sp_regions (fst (match sget id (sp_regions sp) with
                               | None => (sp, Err RegionNotFound)
                               | Some r => match s_write r f n at_ tr with
                                           | Ok r' => (mkSpec (sput id r' (sp_regions sp)) (sp_held sp), Ok OUnit)
                                           | Err e => (sp, Err e)
                                           | Panic => (sp, Panic)
                                           end
                               end))) = sget id' (sp_regions sp)).
  { intros id f n at_ tr Hne. destruct (sget id (sp_regions sp)); [|reflexivity].
    destruct (s_write _ f n at_ tr); try reflexivity. cbn [fst sp_regions]. rewrite sget_sput.
    destruct (id' =? id) eqn:E; [lia|reflexivity]. }
  destruct o; cbn [op_ids] in Hi; inversion Hi; subst ids; cbn [In] in Hn; cbn [spec_step]; try reflexivity.
  - destruct (sget id (sp_regions sp)); cbn [fst sp_regions]; [reflexivity|]. rewrite sget_sput.
    destruct (id' =? id) eqn:E; [exfalso; apply Hn; left; lia|reflexivity].
  - apply Hw. intros ->. tauto.
  - apply Hw. intros ->. tauto.
  - apply Hw. intros ->. tauto.
  - destruct (sget id (sp_regions sp)); [|reflexivity]. destruct (_ <? from); [reflexivity|].
    cbn [fst sp_regions]. rewrite sget_sput. destruct (id' =? id) eqn:E; [exfalso; apply Hn; left; lia|reflexivity].
  - destruct (sget id (sp_regions sp)); [|reflexivity]. destruct (sget new_id (sp_regions sp)); [reflexivity|].
    cbn [fst sp_regions]. rewrite sget_sput, sget_sdel.
    destruct (id' =? new_id) eqn:E; [exfalso; apply Hn; right; left; lia|].
    destruct (id' =? id) eqn:E2; [exfalso; apply Hn; left; lia|reflexivity].
  - destruct (sget id (sp_regions sp)); [|reflexivity]. destruct (sp_is_held sp id); [reflexivity|].
    cbn [fst sp_regions]. rewrite sget_sdel. destruct (id' =? id) eqn:E; [exfalso; apply Hn; left; lia|reflexivity].
  - destruct (sget id (sp_regions sp)); reflexivity.
Qed.

(* a step addressed at some names leaves every other name alone: same length, same bytes
   below the length, same persistence flag (or absent before and after) *)
Theorem c01_isolation : forall s o ids id',
  Inv s -> step s o <> APanic -> no_overflow s o ->
  op_ids o = Some ids -> ~ In id' ids ->
  same_region (sget id' (sp_regions (abs (fst (step_total s o))))) (sget id' (sp_regions (abs s))).
Proof.
  intros s o ids id' HI Hnp Hov Hi Hn.
  destruct (c01_refines_step s o HI Hnp Hov) as [[H _] _]. specialize (H id').
  rewrite (spec_step_frame (abs s) o ids id' Hi Hn) in H. exact H.
Qed.

Corollary c01_isolation_strong : forall s o ids id',
  Inv s -> op_fits_strong s o -> op_ids o = Some ids -> ~ In id' ids ->
  same_region (sget id' (sp_regions (abs (fst (step_total s o))))) (sget id' (sp_regions (abs s))).
Proof.
  intros s o ids id' HI Hf Hi Hn.
  destruct (c01_refines_step_strong s o HI Hf) as [[H _] _]. specialize (H id').
  rewrite (spec_step_frame (abs s) o ids id' Hi Hn) in H. exact H.
Qed.

(* ---- the hypotheses are satisfiable ---- *)
Example c01_refines_example : refines_step (init 0) (Create 1 false).
Proof.
  apply c01_refines_step_strong; [apply inv_init|].
  exact (proj1 (proj2 no_panic_example)).
Qed.

(* ---- the finding: without a size bound the refinement fails ---- *)
Definition c01_refines_step_unbounded : Prop :=
  forall s o, Inv s -> step s o <> APanic -> refines_step s o.

Lemma c01_refines_step_unbounded_refuted : ~ c01_refines_step_unbounded.
Proof.
  intros H.
  assert (Hst : step big_state (Write 1 (fun _ => 0) two64) = AErr big_state RegionSizeOverflow)
    by (vm_compute; reflexivity).
  specialize (H big_state (Write 1 (fun _ => 0) two64) (proj1 inv_big_state)).
  rewrite Hst in H. specialize (H ltac:(discriminate)).
  destruct H as [_ H]. unfold step_total in H. rewrite Hst in H. vm_compute in H. exact H.
Qed.
