(* Rawdb/AllocRefineW.v — C01, the write paths, part 1: the reference side of a write, the
   core lemma (one slot rewritten, bytes written inside a zone that no other live region
   meets), the fits-in-reserve path and the common tail `finish_write` (extend-last and
   expand-into-hole paths).  PROOF FILE. *)
From Anydb Require Import Common.Base Gen.Consts Rawdb.AMap Rawdb.Alloc Rawdb.AllocSpec Rawdb.AllocInv
  Rawdb.AllocFacts Rawdb.AMapFacts Rawdb.CoverFacts Rawdb.InvLayout Rawdb.AllocErr
  Rawdb.CompactFacts Rawdb.AllocRefine Rawdb.AllocRefineS.

Definition w_off (at_ : option N) (ln : N) : N := match at_ with Some a => a | None => ln end.
Definition w_len (at_ : option N) (tr : bool) (ln n : N) : N :=
  match at_ with
  | None => ln + n
  | Some a => if tr then a + n else N.max (a + n) ln
  end.
Definition w_oob (at_ : option N) (ln : N) : bool := match at_ with Some a => ln <? a | None => false end.

(* what the reference write produces, in the coordinates of the model *)
Definition wspec (s : st) (i : N) (m : rmeta) (f : N -> N) (n wo nl : N) (r' : sreg) : Prop :=
  s_len r' = nl
  /\ (forall k, k < nl -> s_data r' k = if (wo <=? k) && (k <? wo + n) then f (k - wo) else mem s (r_start m + k))
  /\ s_persisted r' = rfile_has s i || negb (nl =? r_len m).

Lemma s_write_char s i m f n at_ tr :
  w_oob at_ (r_len m) = false ->
  exists r', s_write (sview s i m) f n at_ tr = Ok r'
             /\ wspec s i m f n (w_off at_ (r_len m)) (w_len at_ tr (r_len m) n) r'.
Proof.
  unfold w_oob, s_write, wspec, w_off, w_len. cbn [s_len sview s_data s_persisted]. destruct at_ as [a|].
  - intros ->. eexists. split; [reflexivity|]. cbn [s_len s_data s_persisted]. repeat split.
  - intros _. eexists. split; [reflexivity|]. cbn [s_len s_data s_persisted]. split; [reflexivity|]. split.
    + intros k Hk. destruct (k <? r_len m) eqn:E1; destruct ((r_len m <=? k) && (k <? r_len m + n)) eqn:E2; try reflexivity; lia.
    + f_equal. destruct (n =? 0) eqn:E1; destruct (r_len m + n =? r_len m) eqn:E2; try reflexivity; lia.
Qed.

Lemma s_write_oob s i m f n at_ tr :
  w_oob at_ (r_len m) = true -> s_write (sview s i m) f n at_ tr = Err WriteOutOfBounds.
Proof.
  unfold w_oob, s_write. cbn [s_len sview]. destruct at_ as [a|]; [|discriminate]. now intros ->.
Qed.

Lemma w_off_len at_ tr ln n : w_oob at_ ln = false -> w_off at_ ln <= ln /\ w_off at_ ln + n <= w_len at_ tr ln n.
Proof. unfold w_oob, w_off, w_len. destruct at_ as [a|]; [destruct tr|]; lia. Qed.

(* when the write grows the region, everything below the new length that is not written
   lies below the copied prefix *)
Lemma w_copy_covers at_ tr ln n k :
  w_oob at_ ln = false -> ln < w_len at_ tr ln n -> k < w_len at_ tr ln n ->
  (w_off at_ ln <=? k) && (k <? w_off at_ ln + n) = false ->
  k < (if tr then w_off at_ ln else ln).
Proof. unfold w_oob, w_off, w_len. destruct at_ as [a|]; destruct tr; lia. Qed.

(* ---- the core lemma ---- *)
Lemma write_core s s' i m m' f n wo nl zs zl base r' :
  Inv s -> slot s i = Some m ->
  wspec s i m f n wo nl r' ->
  wo + n <= nl -> nl <= zl ->
  (forall j, slot s' j = if j =? i then Some m' else slot s j) ->
  r_id m' = r_id m -> r_len m' = nl -> r_start m' = zs ->
  (forall j mj, j <> i -> slot s j = Some mj -> r_start mj + r_reserved mj <= zs \/ zs + zl <= r_start mj) ->
  (forall a, mem s' a = mem_write base (zs + wo) f n a) ->
  (forall a, a < zs \/ zs + zl <= a -> base a = mem s a) ->
  (forall k, k < nl -> (wo <=? k) && (k <? wo + n) = false -> base (zs + k) = mem s (r_start m + k)) ->
  (forall j, j <> i -> rfile_has s' j = rfile_has s j) ->
  rfile_has s' i = rfile_has s i || negb (nl =? r_len m) ->
  held s' = held s ->
  spec_eq (abs s') (mkSpec (sput (r_id m) r' (sp_regions (abs s))) (held s)).
Proof.
  intros HI Hs (W1 & W2 & W3) Hwn Hnl Hsl Hid Hlen Hst Hzone Hmem Hb1 Hb2 Hrf Hrfi Hheld.
  eapply (spec_eq_one_slot s s' i m m' r' _ _ (inv_ids s HI) Hs).
  - intros x. rewrite sget_sput, Hid. destruct (x =? r_id m); reflexivity.
  - intros x. unfold is_held. now rewrite Hheld.
  - exact Hsl.
  - left. exact Hid.
  - intros j mj k Hne Hj Hk. destruct (inv_len s HI j mj Hj) as [Hlr _].
    destruct (inv_region_aligned s j mj HI Hj) as (_ & _ & Hp). cbn [rext snd] in Hp.
    rewrite Hmem. unfold mem_write.
    destruct (Hzone j mj Hne Hj) as [Hz|Hz].
    + destruct ((zs + wo <=? r_start mj + k) && (r_start mj + k <? zs + wo + n)) eqn:E; [lia|].
      apply Hb1. lia.
    + destruct ((zs + wo <=? r_start mj + k) && (r_start mj + k <? zs + wo + n)) eqn:E; [lia|].
      apply Hb1. lia.
  - intros j mj Hne _. now apply Hrf.
  - unfold sview, sreg_eq. cbn [s_len s_data s_persisted]. rewrite Hlen, Hst, W1, W3. split; [reflexivity|]. split; [|exact Hrfi].
    intros k Hk. rewrite Hmem, (W2 k Hk). unfold mem_write.
    destruct ((wo <=? k) && (k <? wo + n)) eqn:E.
    + destruct ((zs + wo <=? zs + k) && (zs + k <? zs + wo + n)) eqn:E2; [|lia]. f_equal. lia.
    + destruct ((zs + wo <=? zs + k) && (zs + k <? zs + wo + n)) eqn:E2; [lia|]. now apply Hb2.
Qed.

Lemma db_write_eq s off f n s1 : db_write s off f n = Some s1 -> s1 = set_mem s (mem_write (mem s) off f n).
Proof. unfold db_write. destruct (_ <=? _); [|discriminate]. now intros [= <-]. Qed.

Lemma mark_dirty_fields m a b :
  r_start (m_mark_dirty m a b) = r_start m /\ r_len (m_mark_dirty m a b) = r_len m
  /\ r_id (m_mark_dirty m a b) = r_id m /\ r_reserved (m_mark_dirty m a b) = r_reserved m
  /\ r_state (m_mark_dirty m a b) = r_state m.
Proof. repeat split. Qed.

(* ---- the fits-in-reserve path ---- *)
Lemma fits_refine s i m f n wo nl s' r r' :
  Inv s -> slot s i = Some m -> wspec s i m f n wo nl r' ->
  wo + n <= nl -> nl <= r_reserved m ->
  match db_write s (r_start m + wo) f n with
  | None => APanic
  | Some s1 =>
      let s2 := upd s1 i (fun m => m_mark_dirty m wo n) in
      if nl =? r_len m then AOk (s2, OUnit)
      else AOk (write_if_dirty (upd s2 i (fun m => m_set_len m nl)) i, OUnit)
  end = AOk (s', r) ->
  spec_eq (abs s') (mkSpec (sput (r_id m) r' (sp_regions (abs s))) (held s)).
Proof.
  intros HI Hs HW Hwn Hnl.
  destruct (db_write s (r_start m + wo) f n) as [s1|] eqn:Ew; [|discriminate].
  apply db_write_eq in Ew. subst s1. cbv zeta.
  assert (Hs1 : slot (set_mem s (mem_write (mem s) (r_start m + wo) f n)) i = Some m) by exact Hs.
  assert (Hzone : forall j mj, j <> i -> slot s j = Some mj ->
            r_start mj + r_reserved mj <= r_start m \/ r_start m + r_reserved m <= r_start mj).
  { intros j mj Hne Hj. exact (region_region_disjoint s j i mj m HI Hne Hj Hs). }
  destruct (nl =? r_len m) eqn:El.
  - intros [= <- _].
    eapply (write_core s _ i m (m_mark_dirty m wo n) f n wo nl (r_start m) (r_reserved m) (mem s) r' HI Hs HW Hwn Hnl).
    + intros j. rewrite slot_upd, Hs1. destruct (j =? i); reflexivity.
    + reflexivity.
    + cbn [r_len m_mark_dirty]. lia.
    + reflexivity.
    + exact Hzone.
    + intros a. rewrite mem_upd. reflexivity.
    + reflexivity.
    + reflexivity.
    + intros j _. rewrite rfile_has_upd. reflexivity.
    + rewrite rfile_has_upd, El. cbn [negb]. rewrite orb_false_r. reflexivity.
    + rewrite held_upd. reflexivity.
  - intros [= <- _]. rewrite upd_upd.
    set (g := fun m0 => m_set_len (m_mark_dirty m0 wo n) nl).
    eapply (write_core s _ i m (fin (g m)) f n wo nl (r_start m) (r_reserved m) (mem s) r' HI Hs HW Hwn Hnl).
    + intros j. exact (slot_wid_upd _ i g m j Hs1).
    + destruct (fin_same (g m)) as ((_ & _ & ->) & _). subst g. cbv beta. now destruct (m_set_len_other (m_mark_dirty m wo n) nl) as (_ & -> & _).
    + destruct (fin_same (g m)) as ((_ & -> & _) & _). apply m_set_len_len.
    + destruct (fin_same (g m)) as ((-> & _ & _) & _). subst g. cbv beta. now destruct (m_set_len_other (m_mark_dirty m wo n) nl) as (-> & _).
    + exact Hzone.
    + intros a. rewrite mem_wid_upd. reflexivity.
    + reflexivity.
    + reflexivity.
    + intros j Hne. rewrite (rfile_has_wid_upd _ i g m j Hs1). destruct (j =? i) eqn:E; [lia|reflexivity].
    + rewrite (rfile_has_wid_upd _ i g m i Hs1), N.eqb_refl. subst g. cbv beta. rewrite m_set_len_state.
      cbn [r_len m_mark_dirty]. rewrite (N.eqb_sym (r_len m) nl), El. cbn [negb]. rewrite orb_true_r. reflexivity.
    + rewrite held_wid_upd. reflexivity.
Qed.

(* ---- the common tail of the growing in-place paths ---- *)
Lemma finish_refine s s2 i m f n wo nl nr s' r r' :
  Inv s -> slot s i = Some m -> wspec s i m f n wo nl r' ->
  wo + n <= nl -> nl <= nr -> r_len m < nl ->
  (forall j, slot s2 j = if j =? i then Some (m_set_reserved m nr) else slot s j) ->
  mem s2 = mem s -> (forall j, rfile_has s2 j = rfile_has s j) -> held s2 = held s ->
  (forall j mj, j <> i -> slot s j = Some mj ->
     r_start mj + r_reserved mj <= r_start m \/ r_start m + nr <= r_start mj) ->
  finish_write s2 i (r_start m) wo f n nl = AOk (s', r) ->
  spec_eq (abs s') (mkSpec (sput (r_id m) r' (sp_regions (abs s))) (held s)).
Proof.
  intros HI Hs HW Hwn Hnl Hgrow Hsl2 Hmem2 Hrf2 Hheld2 Hzone. unfold finish_write.
  destruct (db_write s2 (r_start m + wo) f n) as [s3|] eqn:Ew; [|discriminate].
  apply db_write_eq in Ew. subst s3.
  set (s3 := set_mem s2 (mem_write (mem s2) (r_start m + wo) f n)).
  assert (Hs3 : slot s3 i = Some (m_set_reserved m nr)) by (change (slot s3 i) with (slot s2 i); now rewrite Hsl2, N.eqb_refl).
  rewrite slot_upd, N.eqb_refl, Hs3. cbn [option_map].
  destruct (ok_set_len _ nl); [|discriminate]. intros [= <- _]. rewrite upd_upd.
  set (g := fun m0 => m_set_len (m_mark_dirty m0 wo n) nl).
  destruct (m_set_reserved_fields m nr) as (R1 & R2 & R3 & R4).
  destruct (fin_same (g (m_set_reserved m nr))) as ((F1 & F2 & F3) & _).
  destruct (m_set_len_other (m_mark_dirty (m_set_reserved m nr) wo n) nl) as (L1 & L2 & _).
  eapply (write_core s _ i m (fin (g (m_set_reserved m nr))) f n wo nl (r_start m) nr (mem s) r' HI Hs HW Hwn Hnl).
  - intros j. rewrite (slot_wid_upd s3 i g _ j Hs3). change (slot s3 j) with (slot s2 j). rewrite Hsl2.
    destruct (j =? i); reflexivity.
  - rewrite F3. subst g. cbv beta. rewrite L2. exact R2.
  - rewrite F2. apply m_set_len_len.
  - rewrite F1. subst g. cbv beta. rewrite L1. exact R1.
  - exact Hzone.
  - intros a. rewrite mem_wid_upd. subst s3. cbn [mem set_mem]. now rewrite Hmem2.
  - reflexivity.
  - reflexivity.
  - intros j Hne. rewrite (rfile_has_wid_upd s3 i g _ j Hs3). destruct (j =? i) eqn:E; [lia|]. apply Hrf2.
  - rewrite (rfile_has_wid_upd s3 i g _ i Hs3), N.eqb_refl. subst g. cbv beta. rewrite m_set_len_state.
    cbn [r_len m_mark_dirty]. rewrite R3.
    destruct (r_len m =? nl) eqn:E1; [lia|]. destruct (nl =? r_len m) eqn:E2; [lia|].
    cbn [negb]. rewrite orb_true_r. reflexivity.
  - rewrite held_wid_upd. exact Hheld2.
Qed.

(* the zone of the extend-last path: the region with the greatest start *)
Lemma last_zone s i m :
  Inv s -> slot s i = Some m -> is_last_anything s i = true ->
  forall j mj, j <> i -> slot s j = Some mj -> r_start mj + r_reserved mj <= r_start m.
Proof.
  intros HI Hs Hl j mj Hne Hj. unfold is_last_anything in Hl.
  destruct (alast (s2r s)) as [[a i']|] eqn:El; [|discriminate].
  assert (i' = i) by lia. subst i'.
  pose proof (alast_in _ _ El) as HIn.
  pose proof (in_aget _ _ _ (proj1 (inv_sorted s HI)) HIn) as Hg.
  destruct (proj1 (inv_s2r s HI a i) Hg) as (m0 & Hs0 & Ha). rewrite Hs in Hs0. inversion Hs0; subst m0.
  assert (Hgj : aget (r_start mj) (s2r s) = Some j) by (apply (inv_s2r s HI); eauto).
  pose proof (alast_max _ a i _ _ (proj1 (inv_sorted s HI)) El (aget_in _ _ _ Hgj)) as Hle.
  destruct (inv_region_aligned s i m HI Hs) as (_ & _ & Hp). cbn [rext snd] in Hp.
  destruct (region_region_disjoint s j i mj m HI Hne Hj Hs); lia.
Qed.

(* the zone of the expand-into-hole path *)
Lemma expand_zone s i m gap nr :
  Inv s -> slot s i = Some m -> aget (r_start m + r_reserved m) (holes s) = Some gap ->
  nr - r_reserved m <= gap ->
  forall j mj, j <> i -> slot s j = Some mj ->
    r_start mj + r_reserved mj <= r_start m \/ r_start m + nr <= r_start mj.
Proof.
  intros HI Hs Hg Hle j mj Hne Hj.
  destruct (inv_region_aligned s j mj HI Hj) as (_ & _ & Hp). cbn [rext snd] in Hp.
  destruct (region_region_disjoint s j i mj m HI Hne Hj Hs) as [H1|H1]; [left; exact H1|].
  destruct (region_hole_disjoint s j mj _ gap HI Hj Hg) as [H2|H2]; [lia|]. right. lia.
Qed.
