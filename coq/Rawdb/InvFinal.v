(* Rawdb/InvFinal.v — the headline statements of C01/C02/C12/C13 in the exact form the Props
   files state them, the refutations of the over-strong forms, and Examples showing that the
   hypotheses of every headline theorem are met by non-trivial reachable states.  PROOF FILE. *)
From Anydb Require Import Common.Base Gen.Consts Rawdb.AMap Rawdb.Alloc Rawdb.AllocSpec Rawdb.AllocInv Rawdb.AllocFacts
  Rawdb.AllocErr Rawdb.AllocNoPanic Rawdb.InvCreate Rawdb.AllocRefine Rawdb.AllocRefineAll Rawdb.InvStep.
From Anydb Require Rawdb.InvBool Rawdb.InvBool2.

(* ---- C02 in the stated forms ---- *)
Theorem c02_inv_step : forall s o, Inv s -> op_fits s o -> op_defined s o -> Inv (fst (step_total s o)).
Proof. intros s o H _ _. now apply inv_step. Qed.

Theorem c02_reachable_full :
  forall min_len ops, Forall (fun o => forall s, op_fits s o) ops -> Inv (run (init min_len) ops).
Proof. intros min_len ops _. apply inv_reachable. Qed.

(* ---- C01: the full statement fails at the 1 TiB reserve limit (assert of set_reserved) ---- *)
Definition c01_full : Prop :=
  forall s o, Inv s -> op_fits s o -> op_defined s o ->
    spec_eq (abs (fst (step_total s o))) (fst (spec_step (abs s) o))
    /\ res_agree (snd (step_total s o)) (snd (spec_step (abs s) o)).

Lemma c01_full_refuted : ~ c01_full.
Proof.
  intros H.
  assert (Hf : op_fits big_state (Write 1 (fun _ => 0) 1)) by (cbn [op_fits]; discriminate).
  destruct (H big_state (Write 1 (fun _ => 0) 1) (proj1 inv_big_state) Hf I) as [_ Hr].
  vm_compute in Hr. exact Hr.
Qed.

Theorem c01_refines_step_partial :
  forall s o, Inv s -> op_fits_strong s o ->
    spec_eq (abs (fst (step_total s o))) (fst (spec_step (abs s) o))
    /\ res_agree (snd (step_total s o)) (snd (spec_step (abs s) o)).
Proof. exact c01_refines_step_strong. Qed.

(* old shape (with the now superfluous op_defined) *)
Corollary c01_refines_step_partial_defined :
  forall s o, Inv s -> op_defined s o -> op_fits_strong s o ->
    spec_eq (abs (fst (step_total s o))) (fst (spec_step (abs s) o))
    /\ res_agree (snd (step_total s o)) (snd (spec_step (abs s) o)).
Proof. intros s o HI _. now apply c01_refines_step_strong. Qed.

(* ---- Examples: the hypotheses are satisfiable by non-trivial reachable states ---- *)
Definition ex_ops : list op :=
  [Create 1 false; Write 1 (gen_byte 1) 5000; Create 2 true; Write 2 (gen_byte 2) 100; Remove 1; Flush;
   Create 3 false; WriteAt 3 (gen_byte 3) 10000 0; Truncate 2 50; Rename 2 7; Compact; Reopen].
Definition ex_state : st := run (init 0) ex_ops.

Example ex_state_inv : Inv ex_state.
Proof. apply inv_reachable. Qed.

(* the state is not trivial: two live regions (one relocated), a two-page hole, 7 pages of layout *)
Example ex_state_shape :
  layout_len ex_state = 7 * PAGE_SIZE /\ holes ex_state = [(0, 2 * PAGE_SIZE)] /\
  (exists m, slot ex_state 0 = Some m /\ r_id m = 3 /\ r_len m = 10000) /\
  (exists m, slot ex_state 1 = Some m /\ r_id m = 7 /\ r_len m = 50).
Proof. vm_compute. repeat split; eexists; repeat split. Qed.

(* C02_reuse: a creation in a state that has an adequate hole; its hypotheses are met and its
   conclusion is observed *)
Example ex_reuse :
  has_hole_for ex_state PAGE_SIZE /\
  placed ex_state (fst (step_total ex_state (Create 9 false))) 2 /\
  layout_len (fst (step_total ex_state (Create 9 false))) = layout_len ex_state.
Proof.
  split; [|split].
  - exists 0, (2 * PAGE_SIZE). split; [vm_compute; reflexivity|vm_compute; discriminate].
  - vm_compute. exact I.
  - vm_compute. reflexivity.
Qed.

(* C13: a refused request on a reachable state *)
Example ex_c13 :
  let s := run (init 0) [Create 2 true] in
  Inv s /\ exists s', step s (Remove 2) = AErr s' RegionStillReferenced.
Proof.
  cbv zeta. split; [apply inv_reachable|]. eexists. vm_compute. reflexivity.
Qed.

(* the former C13 witness: Retain [] with region 2 held is now refused as a whole *)
Example ex_c13_retain :
  let s := run (init 0) [Create 1 false; Create 2 true] in
  Inv s /\ step s (Retain []) = AErr s RegionStillReferenced.
Proof.
  cbv zeta. split; [apply inv_reachable|].
  destruct (step (run (init 0) [Create 1 false; Create 2 true]) (Retain [])) as [x|s' e|] eqn:E.
  - vm_compute in E. discriminate E.
  - rewrite (c13_rawdb _ _ s' e (inv_reachable 0 _) E) by (vm_compute in E; inversion E; discriminate).
    vm_compute in E. inversion E. reflexivity.
  - vm_compute in E. discriminate E.
Qed.

(* C01: a history all of whose steps meet the side conditions *)
Example ex_ops_ok : ops_ok (init 0) [Create 1 false; Write 1 (gen_byte 1) 5000; Flush; Reopen].
Proof.
  apply ops_ok_cons; [split; exact I|].
  apply ops_ok_cons.
  - split; [cbn [op_fits]; discriminate|].
    intros i m Hf Hs. vm_compute in Hf. inversion Hf; subst i. vm_compute in Hs. inversion Hs; subst m.
    vm_compute. discriminate.
  - apply ops_ok_cons; [split; exact I|].
    apply ops_ok_cons; [split; exact I|]. apply ops_ok_nil.
Qed.

(* a history exercising both branches of the repaired retain_regions *)
Example ex_ops_ok_retain : ops_ok (init 0) [Create 1 false; Create 2 true; Retain []; DropHandle 2; Retain [2]; Retain []].
Proof. repeat (apply ops_ok_cons; [split; exact I|]). apply ops_ok_nil. Qed.

Example ex_retain_results :
  run_results (init 0) [Create 1 false; Create 2 true; Retain []; DropHandle 2; Retain [2]; Retain []]
  = [Ok OUnit; Ok OUnit; Err RegionStillReferenced; Ok OUnit; Ok OUnit; Ok OUnit].
Proof. vm_compute. reflexivity. Qed.

(* the boolean checker accepts every reachable state *)
Lemma inv_b_reachable : forall min_len ops, InvBool.inv_b (run (init min_len) ops) = true.
Proof. intros. apply InvBool2.inv_b_complete. apply inv_reachable. Qed.
