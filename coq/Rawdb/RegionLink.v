(* Rawdb/RegionLink.v — the LAYER LINK (DESIGN.md 2.4): through any history of the allocator
   model, every region behaves as an independent byte vector with the operations and error
   rules of Vec/RegionSpec.v (and of Vec/CvRegion.v, the second copy of the same interface the
   compressed-vector model is written against).  Obtained by composing the refinement theorem
   of C01 (AllocRefineAll.c01_refines_step_strong) with the correspondence between a reference
   region `sreg` = (length, N -> N) and its byte list (RegionLinkSpec.v).  PROOF FILE. *)
From Anydb Require Import Common.Base Gen.Consts Rawdb.AMap Rawdb.Alloc Rawdb.AllocSpec Rawdb.AllocInv Rawdb.AllocFacts
  Rawdb.CoverFacts Rawdb.AllocNoPanic Rawdb.AllocRefine Rawdb.AllocRefineC Rawdb.AllocRefineAll Rawdb.SpecCongr
  Rawdb.InvStep Rawdb.RegionLinkSpec.
From Anydb Require Vec.RegionSpec Vec.CvRegion.

(* the bytes of region `id` in an allocator state: its first r_len bytes in the data mmap *)
Definition region_bytes (s : st) (id : N) : option (list N) :=
  option_map bytes_of (sget id (sp_regions (abs s))).

Lemma region_bytes_some s id b :
  region_bytes s id = Some b -> exists r, sget id (sp_regions (abs s)) = Some r /\ bytes_of r = b.
Proof. unfold region_bytes. destruct (sget id (sp_regions (abs s))) as [r|]; [|discriminate]. intros [= <-]. eauto. Qed.

(* in terms of the allocator's own data: the live slot named id, its length, the mmap bytes *)
Lemma region_bytes_concrete s id i m :
  Inv s -> slot s i = Some m -> r_id m = id ->
  region_bytes s id = Some (map (fun k => mem s (r_start m + k)) (seqN 0 (N.to_nat (r_len m)))).
Proof.
  intros HI Hs Hid. unfold region_bytes. rewrite (sget_abs_lives s id i m (inv_ids s HI) (conj Hs Hid)). reflexivity.
Qed.

(* one step of the allocator, read through the reference (C01) *)
Lemma region_bytes_step s o id :
  Inv s -> op_fits_strong s o ->
  region_bytes (fst (step_total s o)) id = option_map bytes_of (sget id (sp_regions (fst (spec_step (abs s) o))))
  /\ res_agree (snd (step_total s o)) (snd (spec_step (abs s) o)).
Proof.
  intros HI Hf. destruct (c01_refines_step_strong s o HI Hf) as [[Hr _] Hres]. split; [|exact Hres].
  unfold region_bytes. specialize (Hr id).
  destruct (sget id (sp_regions (abs (fst (step_total s o))))) as [x|],
           (sget id (sp_regions (fst (spec_step (abs s) o)))) as [y|]; cbn [option_map]; try contradiction; [|reflexivity].
  f_equal. now apply bytes_of_sreg_eq.
Qed.

Lemma res_agree_ok r : res_agree r (Ok OUnit) -> is_ok r = true.
Proof. destruct r; cbn; auto. Qed.
Lemma res_agree_err r e : res_agree r (Err e) -> r = Err e.
Proof. destruct r; cbn; try contradiction. now intros ->. Qed.

(* ---- the six operations on a present region ---- *)
Theorem link_write_at s id f n a b :
  Inv s -> op_fits_strong s (WriteAt id f n a) -> region_bytes s id = Some b ->
  match RegionSpec.r_write_at b (data_of f n) a with
  | Ok b' => region_bytes (fst (step_total s (WriteAt id f n a))) id = Some b'
             /\ is_ok (snd (step_total s (WriteAt id f n a))) = true
  | Err e => e = RegionSpec.WriteOutOfBounds
             /\ region_bytes (fst (step_total s (WriteAt id f n a))) id = Some b
             /\ snd (step_total s (WriteAt id f n a)) = Err Alloc.WriteOutOfBounds
  | Panic => False
  end.
Proof.
  intros HI Hf Hb. destruct (region_bytes_some s id b Hb) as (r & Hr & <-).
  destruct (region_bytes_step s (WriteAt id f n a) id HI Hf) as [H1 H2]. revert H1 H2.
  cbn [spec_step]. rewrite Hr. pose proof (s_write_at_link r f n a) as Hl.
  destruct (s_write r f n (Some a) false) as [r'|e|]; [| |contradiction]; cbn [fst snd sp_regions].
  - rewrite Hl. rewrite sget_sput, N.eqb_refl. cbn [option_map]. intros H1 H2. split; [exact H1|now apply res_agree_ok].
  - destruct Hl as [-> Hl]. rewrite Hl, Hr. cbn [option_map]. intros H1 H2.
    split; [reflexivity|]. split; [exact H1|now apply res_agree_err].
Qed.

Theorem link_truncate_write s id f n a b :
  Inv s -> op_fits_strong s (TruncWrite id f n a) -> region_bytes s id = Some b ->
  match RegionSpec.r_truncate_write b a (data_of f n) with
  | Ok b' => region_bytes (fst (step_total s (TruncWrite id f n a))) id = Some b'
             /\ is_ok (snd (step_total s (TruncWrite id f n a))) = true
  | Err e => e = RegionSpec.WriteOutOfBounds
             /\ region_bytes (fst (step_total s (TruncWrite id f n a))) id = Some b
             /\ snd (step_total s (TruncWrite id f n a)) = Err Alloc.WriteOutOfBounds
  | Panic => False
  end.
Proof.
  intros HI Hf Hb. destruct (region_bytes_some s id b Hb) as (r & Hr & <-).
  destruct (region_bytes_step s (TruncWrite id f n a) id HI Hf) as [H1 H2]. revert H1 H2.
  cbn [spec_step]. rewrite Hr. pose proof (s_trunc_write_link r f n a) as Hl.
  destruct (s_write r f n (Some a) true) as [r'|e|]; [| |contradiction]; cbn [fst snd sp_regions].
  - rewrite Hl. rewrite sget_sput, N.eqb_refl. cbn [option_map]. intros H1 H2. split; [exact H1|now apply res_agree_ok].
  - destruct Hl as [-> Hl]. rewrite Hl, Hr. cbn [option_map]. intros H1 H2.
    split; [reflexivity|]. split; [exact H1|now apply res_agree_err].
Qed.

(* append (Region::write) = write_at at the current length; never refused *)
Theorem link_append s id f n b :
  Inv s -> op_fits_strong s (Write id f n) -> region_bytes s id = Some b ->
  exists b', RegionSpec.r_write_at b (data_of f n) (len b) = Ok b'
             /\ region_bytes (fst (step_total s (Write id f n))) id = Some b'
             /\ is_ok (snd (step_total s (Write id f n))) = true.
Proof.
  intros HI Hf Hb. destruct (region_bytes_some s id b Hb) as (r & Hr & <-).
  destruct (region_bytes_step s (Write id f n) id HI Hf) as [H1 H2]. revert H1 H2.
  cbn [spec_step]. rewrite Hr. destruct (s_append_link r f n) as (r' & Hw & Hl). rewrite Hw.
  cbn [fst snd sp_regions]. rewrite sget_sput, N.eqb_refl. cbn [option_map]. intros H1 H2.
  exists (bytes_of r'). rewrite len_bytes_of. split; [exact Hl|]. split; [exact H1|now apply res_agree_ok].
Qed.

Theorem link_truncate s id from b :
  Inv s -> op_fits_strong s (Truncate id from) -> region_bytes s id = Some b ->
  match RegionSpec.r_truncate b from with
  | Ok b' => region_bytes (fst (step_total s (Truncate id from))) id = Some b'
             /\ is_ok (snd (step_total s (Truncate id from))) = true
  | Err e => e = RegionSpec.TruncateInvalid
             /\ region_bytes (fst (step_total s (Truncate id from))) id = Some b
             /\ snd (step_total s (Truncate id from)) = Err Alloc.TruncateInvalid
  | Panic => False
  end.
Proof.
  intros HI Hf Hb. destruct (region_bytes_some s id b Hb) as (r & Hr & <-).
  destruct (region_bytes_step s (Truncate id from) id HI Hf) as [H1 H2]. revert H1 H2.
  cbn [spec_step]. rewrite Hr.
  pose proof (s_truncate_link r from (s_persisted r || negb (from =? s_len r))) as Hl.
  destruct (s_len r <? from); rewrite Hl; cbn [fst snd sp_regions].
  - rewrite Hr. cbn [option_map]. intros H1 H2. split; [reflexivity|]. split; [exact H1|now apply res_agree_err].
  - rewrite sget_sput, N.eqb_refl. cbn [option_map]. intros H1 H2. split; [exact H1|now apply res_agree_ok].
Qed.

(* create_region_if_needed: a new region is the empty byte vector, an existing one is untouched *)
Theorem link_create s id hold :
  Inv s -> op_fits_strong s (Create id hold) ->
  region_bytes (fst (step_total s (Create id hold))) id
    = Some (match region_bytes s id with Some b => b | None => [] end)
  /\ is_ok (snd (step_total s (Create id hold))) = true.
Proof.
  intros HI Hf. destruct (region_bytes_step s (Create id hold) id HI Hf) as [H1 H2]. revert H1 H2.
  assert (Hrb : region_bytes s id = option_map bytes_of (sget id (sp_regions (abs s)))) by reflexivity.
  rewrite Hrb. clear Hrb. cbn [spec_step].
  destruct (sget id (sp_regions (abs s))) as [r|] eqn:Hr; cbn [fst snd sp_regions option_map].
  - rewrite Hr. cbn [option_map]. intros H1 H2. split; [exact H1|now apply res_agree_ok].
  - rewrite sget_sput, N.eqb_refl. cbn [option_map]. rewrite bytes_of_nil. intros H1 H2.
    split; [exact H1|now apply res_agree_ok].
Qed.

(* remove_region: the region disappears, unless another handle is alive: then nothing changes *)
Theorem link_remove s id b :
  Inv s -> op_fits_strong s (Remove id) -> region_bytes s id = Some b ->
  (region_bytes (fst (step_total s (Remove id))) id = None /\ is_ok (snd (step_total s (Remove id))) = true)
  \/ (region_bytes (fst (step_total s (Remove id))) id = Some b
      /\ snd (step_total s (Remove id)) = Err RegionStillReferenced).
Proof.
  intros HI Hf Hb. destruct (region_bytes_some s id b Hb) as (r & Hr & <-).
  destruct (region_bytes_step s (Remove id) id HI Hf) as [H1 H2]. revert H1 H2.
  cbn [spec_step]. rewrite Hr. destruct (sp_is_held (abs s) id); cbn [fst snd sp_regions].
  - rewrite Hr. cbn [option_map]. intros H1 H2. right. split; [exact H1|now apply res_agree_err].
  - rewrite sget_sdel, N.eqb_refl. cbn [option_map]. intros H1 H2. left. split; [exact H1|now apply res_agree_ok].
Qed.

(* a request on a name that does not exist is refused with RegionNotFound and changes nothing *)
Theorem link_absent s o id :
  Inv s -> op_fits_strong s o -> region_bytes s id = None ->
  (exists f n, o = Write id f n) \/ (exists f n a, o = WriteAt id f n a) \/ (exists f n a, o = TruncWrite id f n a)
  \/ (exists from, o = Truncate id from) \/ o = Remove id ->
  region_bytes (fst (step_total s o)) id = None /\ snd (step_total s o) = Err Alloc.RegionNotFound.
Proof.
  intros HI Hf Hb Ho. destruct (region_bytes_step s o id HI Hf) as [H1 H2]. revert H1 H2.
  assert (Hr : sget id (sp_regions (abs s)) = None).
  { unfold region_bytes in Hb. destruct (sget id (sp_regions (abs s))); [discriminate|reflexivity]. }
  destruct Ho as [(f & n & ->)|[(f & n & a & ->)|[(f & n & a & ->)|[(from & ->)| ->]]]];
    cbn [spec_step]; rewrite Hr; cbn [fst snd sp_regions]; rewrite Hr; cbn [option_map];
    intros H1 H2; (split; [exact H1|now apply res_agree_err]).
Qed.

(* ---- every other region is untouched ---- *)
Theorem link_frame s o ids id' :
  Inv s -> op_fits_strong s o -> op_ids o = Some ids -> ~ In id' ids ->
  region_bytes (fst (step_total s o)) id' = region_bytes s id'.
Proof.
  intros HI Hf Hi Hn. destruct (region_bytes_step s o id' HI Hf) as [H1 _]. rewrite H1.
  rewrite (spec_step_frame (abs s) o ids id' Hi Hn). reflexivity.
Qed.

(* ---- one region through a whole history ---- *)
Definition reg_apply (id : N) (o : op) (b : list N) : list N :=
  let on id' (x : res RegionSpec.rerr (list N)) := if id' =? id then match x with Ok b' => b' | _ => b end else b in
  match o with
  | Write id' f n => on id' (RegionSpec.r_write_at b (data_of f n) (len b))
  | WriteAt id' f n a => on id' (RegionSpec.r_write_at b (data_of f n) a)
  | TruncWrite id' f n a => on id' (RegionSpec.r_truncate_write b a (data_of f n))
  | Truncate id' from => on id' (RegionSpec.r_truncate b from)
  | _ => b
  end.

(* operations that cannot make the name `id` disappear *)
Definition keeps (id : N) (o : op) : Prop :=
  match o with
  | Remove id' => id' <> id
  | Rename a b => a <> id /\ b <> id
  | Retain keep => existsb (fun y => y =? id) keep = true
  | Reopen => False
  | _ => True
  end.

Theorem link_step_region s o id b :
  Inv s -> op_fits_strong s o -> keeps id o -> region_bytes s id = Some b ->
  region_bytes (fst (step_total s o)) id = Some (reg_apply id o b).
Proof.
  intros HI Hf Hk Hb.
  assert (Hfr : forall ids, op_ids o = Some ids -> ~ In id ids ->
                region_bytes (fst (step_total s o)) id = Some b).
  { intros ids Hi Hn. rewrite (link_frame s o ids id HI Hf Hi Hn). exact Hb. }
  assert (Hne : forall id', (id' =? id) = false -> ~ In id [id']) by (intros id' E [H|[]]; lia).
  destruct o; cbn [reg_apply keeps] in *.
  - destruct (id0 =? id) eqn:E.
    + assert (id0 = id) by lia; subst id0. destruct (link_create s id hold HI Hf) as [H _]. rewrite H, Hb. reflexivity.
    + apply (Hfr [id0] eq_refl). now apply Hne.
  - destruct (id0 =? id) eqn:E.
    + assert (id0 = id) by lia; subst id0. destruct (link_append s id f n b HI Hf Hb) as (b' & H1 & H2 & _).
      rewrite H1. exact H2.
    + apply (Hfr [id0] eq_refl). now apply Hne.
  - destruct (id0 =? id) eqn:E.
    + assert (id0 = id) by lia; subst id0. pose proof (link_write_at s id f n at_ b HI Hf Hb) as H.
      destruct (RegionSpec.r_write_at b (data_of f n) at_); [apply H|apply H|contradiction].
    + apply (Hfr [id0] eq_refl). now apply Hne.
  - destruct (id0 =? id) eqn:E.
    + assert (id0 = id) by lia; subst id0. pose proof (link_truncate_write s id f n at_ b HI Hf Hb) as H.
      destruct (RegionSpec.r_truncate_write b at_ (data_of f n)); [apply H|apply H|contradiction].
    + apply (Hfr [id0] eq_refl). now apply Hne.
  - destruct (id0 =? id) eqn:E.
    + assert (id0 = id) by lia; subst id0. pose proof (link_truncate s id from b HI Hf Hb) as H.
      destruct (RegionSpec.r_truncate b from); [apply H|apply H|contradiction].
    + apply (Hfr [id0] eq_refl). now apply Hne.
  - apply (Hfr [id0; new_id] eq_refl). intros [H|[H|[]]]; lia.
  - apply (Hfr [id0] eq_refl). intros [H|[]]; lia.
  - apply (Hfr [] eq_refl). intros [].
  - (* Retain keep, id in keep *)
    destruct (region_bytes_some s id b Hb) as (r & Hr & <-).
    destruct (region_bytes_step s (Retain keep) id HI Hf) as [H1 _]. rewrite H1. cbn [spec_step].
    destruct (existsb _ (sp_regions (abs s))); cbn [fst sp_regions]; [rewrite Hr; reflexivity|].
    rewrite (sget_filter_key (fun k => existsb (fun y => y =? k) keep)), Hk, Hr. reflexivity.
  - apply (Hfr [] eq_refl). intros [].
  - (* FlushRegion: the reference state is unchanged *)
    destruct (region_bytes_some s id b Hb) as (r & Hr & <-).
    destruct (region_bytes_step s (FlushRegion id0) id HI Hf) as [H1 _]. rewrite H1. cbn [spec_step].
    destruct (sget id0 (sp_regions (abs s))); cbn [fst]; rewrite Hr; reflexivity.
  - apply (Hfr [] eq_refl). intros [].
  - contradiction.
  - apply (Hfr [] eq_refl). intros [].
  - apply (Hfr [] eq_refl). intros [].
Qed.

(* reopen keeps the bytes of a region whose metadata was ever written, and drops the others *)
Theorem link_reopen s id b :
  Inv s -> region_bytes s id = Some b ->
  region_bytes (fst (step_total s Reopen)) id = Some b \/ region_bytes (fst (step_total s Reopen)) id = None.
Proof.
  intros HI Hb. destruct (region_bytes_some s id b Hb) as (r & Hr & <-).
  destruct (region_bytes_step s Reopen id HI (conj I I)) as [H1 _]. rewrite H1. cbn [spec_step fst sp_regions].
  rewrite (sc_sget_filter_val s_persisted id _ (abs_wf s HI)), Hr. destruct (s_persisted r); auto.
Qed.

(* THE LINK over histories: as long as the name is not removed / renamed / dropped, region `id`
   evolves exactly as the RegionSpec byte vector that receives the operations addressed to it and
   ignores all others — independently of what happens to every other region and of where the
   allocator places, grows or relocates extents *)
Theorem link_run id ops : forall s b,
  Inv s -> ops_ok s ops -> Forall (keeps id) ops -> region_bytes s id = Some b ->
  region_bytes (run s ops) id = Some (fold_left (fun b o => reg_apply id o b) ops b).
Proof.
  induction ops as [|o ops IH]; intros s b HI Hok Hk Hb; [exact Hb|].
  inversion Hok as [|s1 o1 ops1 Hf Hrest]; subst. inversion Hk as [|o2 ops2 Hko Hkr]; subst.
  rewrite run_cons. cbn [fold_left]. apply IH; auto.
  - now apply inv_step.
  - now apply link_step_region.
Qed.

(* ---- the same for the compressed-vector copy of the interface (Vec/CvRegion.v) ---- *)
Lemma fits_len_bound s id n b :
  Inv s -> region_bytes s id = Some b ->
  (forall i m, find_id s id = Some i -> slot s i = Some m -> r_len m + n <= MAX_RESERVED_SIZE / 2) ->
  len b + n <= MAX_RESERVED_SIZE.
Proof.
  intros HI Hb Hf. destruct (region_bytes_some s id b Hb) as (r & Hr & <-). rewrite len_bytes_of.
  rewrite sget_abs in Hr. destruct (find_id s id) as [i|] eqn:Ei; [|discriminate].
  destruct (slot s i) as [m|] eqn:Es; [|discriminate]. inversion Hr; subst r. cbn [sview s_len].
  specialize (Hf i m eq_refl Es). lia.
Qed.

Theorem link_write_at_cv s id f n a b :
  Inv s -> op_fits_strong s (WriteAt id f n a) -> region_bytes s id = Some b ->
  match CvRegion.r_write_at b (data_of f n) a with
  | Ok b' => region_bytes (fst (step_total s (WriteAt id f n a))) id = Some b'
             /\ is_ok (snd (step_total s (WriteAt id f n a))) = true
  | Err e => e = CvRegion.WriteOutOfBounds
             /\ region_bytes (fst (step_total s (WriteAt id f n a))) id = Some b
             /\ snd (step_total s (WriteAt id f n a)) = Err Alloc.WriteOutOfBounds
  | Panic => False
  end.
Proof.
  intros HI Hf Hb. pose proof (link_write_at s id f n a b HI Hf Hb) as H.
  pose proof (fits_len_bound s id n b HI Hb (proj2 Hf)) as Hbound.
  destruct (cv_write_at_equiv b (data_of f n) a) as [(_ & Hle & Hgt)|He].
  - exfalso. rewrite len_data_of in Hgt. lia.
  - rewrite <- He in H. destruct (CvRegion.r_write_at b (data_of f n) a) as [b'|e|]; cbn [cv_res] in H; [exact H| |exact H].
    destruct H as (He' & H). split; [|exact H]. destruct e; [reflexivity|cbn [cv_err] in He'; discriminate He'].
Qed.

Theorem link_truncate_write_cv s id f n a b :
  Inv s -> op_fits_strong s (TruncWrite id f n a) -> region_bytes s id = Some b ->
  match CvRegion.r_truncate_write b a (data_of f n) with
  | Ok b' => region_bytes (fst (step_total s (TruncWrite id f n a))) id = Some b'
             /\ is_ok (snd (step_total s (TruncWrite id f n a))) = true
  | Err e => e = CvRegion.WriteOutOfBounds
             /\ region_bytes (fst (step_total s (TruncWrite id f n a))) id = Some b
             /\ snd (step_total s (TruncWrite id f n a)) = Err Alloc.WriteOutOfBounds
  | Panic => False
  end.
Proof.
  intros HI Hf Hb. pose proof (link_truncate_write s id f n a b HI Hf Hb) as H.
  pose proof (fits_len_bound s id n b HI Hb (proj2 Hf)) as Hbound.
  destruct (cv_truncate_write_equiv b (data_of f n) a) as [(_ & Hle & Hgt)|He].
  - exfalso. rewrite len_data_of in Hgt. lia.
  - rewrite <- He in H. destruct (CvRegion.r_truncate_write b a (data_of f n)) as [b'|e|]; cbn [cv_res] in H; [exact H| |exact H].
    destruct H as (He' & H). split; [|exact H]. destruct e; [reflexivity|cbn [cv_err] in He'; discriminate He'].
Qed.

Theorem link_truncate_cv s id from b :
  Inv s -> op_fits_strong s (Truncate id from) -> region_bytes s id = Some b ->
  match CvRegion.r_truncate b from with
  | Ok b' => region_bytes (fst (step_total s (Truncate id from))) id = Some b'
             /\ is_ok (snd (step_total s (Truncate id from))) = true
  | Err e => e = CvRegion.TruncateInvalid
             /\ region_bytes (fst (step_total s (Truncate id from))) id = Some b
             /\ snd (step_total s (Truncate id from)) = Err Alloc.TruncateInvalid
  | Panic => False
  end.
Proof.
  intros HI Hf Hb. pose proof (link_truncate s id from b HI Hf Hb) as H.
  rewrite <- (cv_truncate_equiv b from) in H.
  destruct (CvRegion.r_truncate b from) as [b'|e|]; cbn [cv_res] in H; [exact H| |exact H].
  destruct H as (He' & H). split; [|exact H]. destruct e; [cbn [cv_err] in He'; discriminate He'|reflexivity].
Qed.

(* ---- the hypotheses are satisfiable ---- *)
Example link_example :
  let ops := [Create 1 false; Write 1 (gen_byte 1) 5000; Create 2 false; Write 2 (gen_byte 2) 9000;
              WriteAt 1 (gen_byte 3) 100 4990; Flush; Truncate 1 3000] in
  ops_ok (init 0) ops /\ Forall (keeps 1) (tl ops) /\
  region_bytes (fst (step_total (init 0) (Create 1 false))) 1 = Some [].
Proof.
  cbv zeta. split; [|split].
  - apply ops_ok_cons; [split; exact I|].
    repeat (first [apply ops_ok_nil | apply ops_ok_cons;
      [split; [cbn [op_fits]; try exact I; discriminate|
               try exact I; intros i m Hf Hs; vm_compute in Hf; inversion Hf; subst i; vm_compute in Hs; inversion Hs; subst m;
               vm_compute; discriminate]|]]).
  - cbn [tl]. repeat constructor; cbn [keeps]; auto.
  - vm_compute. reflexivity.
Qed.

Lemma cv_parametric (A B : Type) (g : A -> B) (r bs : list A) a n :
  map_res g (CvRegion.r_write_at r bs a) = CvRegion.r_write_at (map g r) (map g bs) a
  /\ map_res g (CvRegion.r_truncate r n) = CvRegion.r_truncate (map g r) n
  /\ map_res g (CvRegion.r_truncate_write r a bs) = CvRegion.r_truncate_write (map g r) a (map g bs).
Proof. split; [apply cv_write_at_map|split; [apply cv_truncate_map|apply cv_truncate_write_map]]. Qed.
