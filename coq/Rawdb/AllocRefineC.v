(* Rawdb/AllocRefineC.v — C01, one-step refinement of the operations that add or drop table
   entries: Remove, Retain, Create, Reopen; and of Flush / Compact (through CompactFacts).
   PROOF FILE. *)
From Anydb Require Import Common.Base Gen.Consts Rawdb.AMap Rawdb.Alloc Rawdb.AllocSpec Rawdb.AllocInv
  Rawdb.AllocFacts Rawdb.AMapFacts Rawdb.CoverFacts Rawdb.InvLayout Rawdb.AllocErr
  Rawdb.CompactFacts Rawdb.InvReopen Rawdb.AllocRefine Rawdb.AllocRefineS.

(* ---- remove_idx, observed ---- *)
Lemma remove_idx_obs s i m :
  s2r_ok s -> slot s i = Some m -> is_held s (r_id m) = false ->
  exists s1, remove_idx s i = AOk s1 /\ s2r_ok s1 /\ held s1 = held s /\ mem s1 = mem s /\
             (forall j, slot s1 j = if j =? i then None else slot s j) /\
             (forall j, rfile_has s1 j = if j =? i then false else rfile_has s j).
Proof.
  intros Hok Hs Hh. destruct (remove_idx_ok s i m Hok Hs Hh) as (s1 & Hr & Hok1 & Hheld & Hsl).
  exists s1. repeat (split; [assumption|]).
  unfold remove_idx in Hr. rewrite Hs, Hh, layout_remove_region_ok in Hr by assumption. cbn [abind] in Hr.
  inversion Hr; subst s1. clear Hr. split; [reflexivity|]. split; [exact Hsl|].
  intros j. erewrite (rfile_has_set_at _ _ i None j); [|reflexivity]. reflexivity.
Qed.

(* ---- Remove ---- *)
Lemma refines_remove s id : Inv s -> refines_step s (Remove id).
Proof.
  intros HI. pose proof (inv_ids s HI) as Hu.
  destruct (find_id s id) as [i|] eqn:Ef.
  - destruct (find_id_sget_some s id i Ef) as (m & Hs & Hid & Hg).
    assert (Hst : step s (Remove id) = let* s1 := remove_idx s i in AOk (s1, OUnit))
      by (cbn [step]; unfold remove; now rewrite Ef).
    destruct (is_held s id) eqn:Eh.
    + eapply refines_err; [|cbn [spec_step]; rewrite Hg; unfold sp_is_held; cbn [sp_held abs]; unfold is_held in Eh; rewrite Eh; reflexivity|apply spec_eq_refl].
      rewrite Hst. unfold remove_idx. rewrite Hs, Hid, Eh. reflexivity.
    + rewrite <- Hid in Eh.
      destruct (remove_idx_obs s i m (inv_s2r_ok s HI) Hs Eh) as (s1 & Hr & _ & Hheld & Hmem & Hsl & Hrf).
      rewrite Hr in Hst. cbn [abind] in Hst. rewrite Hid in Eh.
      eapply refines_ok; [exact Hst|cbn [spec_step]; rewrite Hg; unfold sp_is_held; cbn [sp_held abs]; unfold is_held in Eh; rewrite Eh; reflexivity|].
      apply (spec_eq_sub s s1 (fun _ m0 => negb (r_id m0 =? id))); auto.
      * intros j. rewrite Hsl. destruct (slot s j) as [mj|] eqn:Ej.
        -- destruct (j =? i) eqn:E.
           ++ assert (j = i) by lia. subst j. rewrite Hs in Ej. inversion Ej; subst mj.
              rewrite Hid, N.eqb_refl. reflexivity.
           ++ destruct (r_id mj =? id) eqn:E2; cbn [negb].
              ** assert (j = i) by (apply (Hu j i mj m Ej Hs); lia). lia.
              ** exists mj. repeat split.
        -- destruct (j =? i); reflexivity.
      * intros j mj k _ _ _. now rewrite Hmem.
      * intros j mj Hj Hq. rewrite Hrf. destruct (j =? i) eqn:E; [|reflexivity].
        assert (j = i) by lia. subst j. rewrite Hs in Hj. inversion Hj; subst mj. rewrite Hid, N.eqb_refl in Hq. discriminate.
      * intros x j mj Hl. rewrite sget_sdel, (sget_abs_lives s x j mj Hu Hl). destruct Hl as [_ ->]. destruct (x =? id); reflexivity.
      * intros x Ha. rewrite sget_sdel, (sget_abs_absent s x Ha). destruct (x =? id); reflexivity.
      * intros x. unfold is_held. now rewrite Hheld.
  - eapply refines_err.
    + cbn [step]. unfold remove. rewrite Ef. reflexivity.
    + cbn [spec_step]. rewrite (find_id_sget_none s id Ef). reflexivity.
    + apply spec_eq_refl.
Qed.

(* ---- Retain ---- *)
Definition kept (keep : list N) (o : option rmeta) : option rmeta :=
  match o with
  | Some m => if existsb (fun x => x =? r_id m) keep then Some m else None
  | None => None
  end.

Lemma retain_from_obs fuel : forall s0 keep i,
  s2r_ok s0 ->
  (forall k o, nth_opt fuel k = Some o -> slot s0 (i + N.of_nat k) = o) ->
  (forall j m, slot s0 j = Some m -> existsb (fun y => y =? r_id m) keep = false -> is_held s0 (r_id m) = false) ->
  exists s1, retain_from fuel s0 keep i = AOk s1 /\ held s1 = held s0 /\ mem s1 = mem s0 /\
    (forall j, slot s1 j = if (i <=? j) && (j <? i + len fuel) then kept keep (slot s0 j) else slot s0 j) /\
    (forall j, slot s1 j <> None -> rfile_has s1 j = rfile_has s0 j).
Proof.
  induction fuel as [|[m|] t IH]; intros s0 keep i Hok Hsl Hheld; cbn [retain_from].
  - exists s0. repeat split; auto. intros j. rewrite len_nil.
    destruct ((i <=? j) && (j <? i + 0)) eqn:E; [lia|reflexivity].
  - assert (Hs : slot s0 i = Some m).
    { specialize (Hsl O (Some m) eq_refl). replace (i + N.of_nat 0) with i in Hsl by lia. exact Hsl. }
    destruct (existsb (fun x => x =? r_id m) keep) eqn:Ek.
    + destruct (IH s0 keep (i + 1) Hok) as (s1 & Hr & Hh & Hm & Hs1 & Hrf); auto.
      { intros k o Hk. replace (i + 1 + N.of_nat k) with (i + N.of_nat (S k)) by lia. apply Hsl. exact Hk. }
      exists s1. repeat (split; [assumption|]). split; [|exact Hrf].
      intros j. rewrite Hs1, len_cons. destruct (j =? i) eqn:E.
      * assert (j = i) by lia. subst j. destruct ((i + 1 <=? i) && (i <? i + 1 + len t)) eqn:E1; [lia|].
        destruct ((i <=? i) && (i <? i + (1 + len t))) eqn:E2; [|lia]. rewrite Hs. cbn [kept]. now rewrite Ek.
      * destruct ((i + 1 <=? j) && (j <? i + 1 + len t)) eqn:E1;
          destruct ((i <=? j) && (j <? i + (1 + len t))) eqn:E2; try reflexivity; lia.
    + assert (Hnh : is_held s0 (r_id m) = false) by exact (Hheld i m Hs Ek).
      destruct (remove_idx_obs s0 i m Hok Hs Hnh) as (sa & -> & Hoka & Hha & Hma & Hsa & Hrfa). cbn [abind].
      destruct (IH sa keep (i + 1) Hoka) as (s1 & Hr & Hh & Hm & Hs1 & Hrf).
      { intros k o Hk. rewrite Hsa. destruct (i + 1 + N.of_nat k =? i) eqn:E; [lia|].
        replace (i + 1 + N.of_nat k) with (i + N.of_nat (S k)) by lia. apply Hsl. exact Hk. }
      { intros j mj. rewrite Hsa. destruct (j =? i); [discriminate|]. unfold is_held. rewrite Hha. apply Hheld. }
      exists s1. split; [exact Hr|]. split; [congruence|]. split; [congruence|]. split.
      * intros j. rewrite Hs1, Hsa, len_cons. destruct (j =? i) eqn:E.
        -- assert (j = i) by lia. subst j. destruct ((i + 1 <=? i) && (i <? i + 1 + len t)) eqn:E1; [lia|].
           destruct ((i <=? i) && (i <? i + (1 + len t))) eqn:E2; [|lia]. rewrite Hs. cbn [kept]. now rewrite Ek.
        -- destruct ((i + 1 <=? j) && (j <? i + 1 + len t)) eqn:E1;
             destruct ((i <=? j) && (j <? i + (1 + len t))) eqn:E2; try reflexivity; lia.
      * intros j Hj. rewrite (Hrf j Hj), Hrfa. destruct (j =? i) eqn:E; [|reflexivity].
        exfalso. apply Hj. rewrite Hs1, Hsa, E. destruct (_ && _); reflexivity.
  - assert (Hs : slot s0 i = None).
    { specialize (Hsl O None eq_refl). replace (i + N.of_nat 0) with i in Hsl by lia. exact Hsl. }
    destruct (IH s0 keep (i + 1) Hok) as (s1 & Hr & Hh & Hm & Hs1 & Hrf); auto.
    { intros k o Hk. replace (i + 1 + N.of_nat k) with (i + N.of_nat (S k)) by lia. apply Hsl. exact Hk. }
    exists s1. repeat (split; [assumption|]). split; [|exact Hrf].
    intros j. rewrite Hs1, len_cons. destruct (j =? i) eqn:E.
    + assert (j = i) by lia. subst j. destruct ((i + 1 <=? i) && (i <? i + 1 + len t)) eqn:E1; [lia|].
      destruct ((i <=? i) && (i <? i + (1 + len t))) eqn:E2; [|lia]. rewrite Hs. reflexivity.
    + destruct ((i + 1 <=? j) && (j <? i + 1 + len t)) eqn:E1;
        destruct ((i <=? j) && (j <? i + (1 + len t))) eqn:E2; try reflexivity; lia.
Qed.

Lemma slot_beyond s j : len (slots s) <= j -> slot s j = None.
Proof.
  unfold slot, get, len. intros H.
  assert (Hn : nth_opt (slots s) (N.to_nat j) = None).
  { rewrite nth_opt_nth_error. apply nth_error_None. lia. }
  now rewrite Hn.
Qed.

(* the refusal test of the reference, on the abstraction, is the refusal test of the model *)
Lemma retain_blocked_abs_from s keep l : forall i0,
  existsb (fun kv => negb (existsb (fun y => y =? fst kv) keep) && sp_is_held (abs s) (fst kv)) (abs_from s l i0)
  = existsb (fun o => match o with
                      | Some m => negb (existsb (fun x => x =? r_id m) keep) && is_held s (r_id m)
                      | None => false end) l.
Proof.
  induction l as [|[m|] t IH]; intros i0; cbn [abs_from existsb fst]; [reflexivity| |].
  - rewrite IH. reflexivity.
  - apply IH.
Qed.

Lemma retain_blocked_abs s keep :
  existsb (fun kv => negb (existsb (fun y => y =? fst kv) keep) && sp_is_held (abs s) (fst kv)) (sp_regions (abs s))
  = retain_blocked s keep.
Proof. apply retain_blocked_abs_from. Qed.

Lemma refines_retain s keep : Inv s -> refines_step s (Retain keep).
Proof.
  intros HI. pose proof (inv_ids s HI) as Hu.
  destruct (retain_blocked s keep) eqn:Eb.
  { eapply refines_err; [cbn [step]; unfold retain; rewrite Eb; reflexivity| |apply spec_eq_refl].
    cbn [spec_step]. rewrite retain_blocked_abs, Eb. reflexivity. }
  destruct (retain_from_obs (slots s) s keep 0 (inv_s2r_ok s HI)) as (s1 & Hr & Hh & Hm & Hs1 & Hrf).
  { intros k o Hk. unfold slot, get. replace (N.to_nat (0 + N.of_nat k)) with k by lia. rewrite Hk. destruct o; reflexivity. }
  { exact (retain_blocked_false s keep Eb). }
  assert (Hsl : forall j, slot s1 j = kept keep (slot s j)).
  { intros j. rewrite Hs1. destruct ((0 <=? j) && (j <? 0 + len (slots s))) eqn:E; [reflexivity|].
    rewrite slot_beyond by lia. reflexivity. }
  eapply refines_ok; [cbn [step]; unfold retain; rewrite Eb, Hr; reflexivity|cbn [spec_step]; rewrite retain_blocked_abs, Eb; reflexivity|].
  apply (spec_eq_sub s _ (fun _ m0 => existsb (fun x => x =? r_id m0) keep)); auto.
  - intros j. rewrite slot_set_held, Hsl. destruct (slot s j) as [mj|]; cbn [kept]; [|reflexivity].
    destruct (existsb _ keep); [|reflexivity]. exists mj. repeat split.
  - intros j mj k _ _ _. cbn [mem set_held]. now rewrite Hm.
  - intros j mj Hj Hq. change (rfile_has (set_held ?a ?b) j) with (rfile_has a j). apply Hrf.
    rewrite Hsl, Hj. cbn [kept]. rewrite Hq. discriminate.
  - intros x j mj Hl. cbn [sp_regions abs].
    change (abs_from s (slots s) 0) with (sp_regions (abs s)).
    rewrite (sget_filter_key (fun k => existsb (fun y => y =? k) keep)), (sget_abs_lives s x j mj Hu Hl).
    destruct Hl as [_ ->]. reflexivity.
  - intros x Ha. cbn [sp_regions abs].
    change (abs_from s (slots s) 0) with (sp_regions (abs s)).
    rewrite (sget_filter_key (fun k => existsb (fun y => y =? k) keep)), (sget_abs_absent s x Ha).
    destruct (existsb _ keep); reflexivity.
  - intros x. unfold is_held. cbn [held set_held sp_held abs]. now rewrite Hh.
Qed.

(* ---- Flush / Compact ---- *)
Lemma refines_flush s : refines_step s Flush.
Proof.
  unfold refines_step, step_total. cbn [step spec_step]. pose proof (flush_abs s) as H.
  destruct (flush s) as [s1 n]. cbn [fst snd res_agree] in *. auto.
Qed.

Lemma refines_compact s : Inv (fst (flush s)) -> refines_step s Compact.
Proof.
  intros HI. unfold refines_step, step_total. cbn [step spec_step]. pose proof (compact_abs_aux s HI) as H.
  destruct (compact s) as [s1 n]. cbn [fst snd res_agree] in *. auto.
Qed.

(* ---- Reopen ---- *)
(* filtering on the VALUES needs the keys to determine the values *)
Lemma sget_filter_val (p : N * sreg -> bool) x l :
  (forall v1 v2, In (x, v1) l -> In (x, v2) l -> v1 = v2) ->
  sget x (filter p l) = match sget x l with Some v => if p (x, v) then Some v else None | None => None end.
Proof.
  induction l as [|[k v] t IH]; intros Hun; cbn [filter sget]; [reflexivity|].
  assert (Ht : forall v1 v2, In (x, v1) t -> In (x, v2) t -> v1 = v2).
  { intros v1 v2 H1 H2. apply Hun; right; assumption. }
  destruct (k =? x) eqn:E.
  - assert (k = x) by lia. subst k. destruct (p (x, v)) eqn:Ep; cbn [sget].
    + now rewrite N.eqb_refl.
    + rewrite (IH Ht). destruct (sget x t) as [v'|] eqn:Eg; [|reflexivity].
      assert (v' = v).
      { apply Hun; [right|left; reflexivity]. clear -Eg. induction t as [|[k2 v2] t IH]; cbn [sget] in Eg; [discriminate|].
        destruct (k2 =? x) eqn:E; [inversion Eg; subst; left; f_equal; lia|right; auto]. }
      subst v'. now rewrite Ep.
  - destruct (p (k, v)); cbn [sget]; rewrite ?E; apply (IH Ht).
Qed.

Lemma in_abs_from s l x v : forall i0,
  In (x, v) (abs_from s l i0) ->
  exists j m, nth_opt l (N.to_nat (j - i0)) = Some (Some m) /\ i0 <= j /\ r_id m = x /\ v = sview s j m.
Proof.
  induction l as [|[m|] t IH]; intros i0; cbn [abs_from]; [intros []| |].
  - intros [E|HI].
    + inversion E; subst. exists i0, m. replace (N.to_nat (i0 - i0)) with O by lia. repeat split. lia.
    + destruct (IH _ HI) as (j & m' & Hn & Hle & Hid & Hv). exists j, m'.
      replace (N.to_nat (j - i0)) with (S (N.to_nat (j - (i0 + 1)))) by lia. repeat split; auto. lia.
  - intros HI. destruct (IH _ HI) as (j & m' & Hn & Hle & Hid & Hv). exists j, m'.
    replace (N.to_nat (j - i0)) with (S (N.to_nat (j - (i0 + 1)))) by lia. repeat split; auto. lia.
Qed.

Lemma abs_keys_det s x v1 v2 :
  ids_unique s -> In (x, v1) (sp_regions (abs s)) -> In (x, v2) (sp_regions (abs s)) -> v1 = v2.
Proof.
  intros Hu H1 H2. cbn [sp_regions abs] in H1, H2.
  apply in_abs_from in H1, H2. destruct H1 as (j1 & m1 & Hn1 & _ & Hid1 & ->), H2 as (j2 & m2 & Hn2 & _ & Hid2 & ->).
  rewrite N.sub_0_r in Hn1, Hn2.
  assert (S1 : slot s j1 = Some m1) by (unfold slot, get; now rewrite Hn1).
  assert (S2 : slot s j2 = Some m2) by (unfold slot, get; now rewrite Hn2).
  assert (j1 = j2) by (apply (Hu j1 j2 m1 m2 S1 S2); congruence). subst j2. congruence.
Qed.

(* the keys of the abstraction are unique *)
Lemma abs_from_nodup s l : forall i0,
  (forall n1 n2 m1 m2, nth_opt l n1 = Some (Some m1) -> nth_opt l n2 = Some (Some m2) -> r_id m1 = r_id m2 -> n1 = n2) ->
  NoDup (map fst (abs_from s l i0)).
Proof.
  induction l as [|[m|] t IH]; intros i0 Hun; cbn [abs_from map fst].
  - constructor.
  - constructor.
    + intros HI. apply in_map_iff in HI. destruct HI as ([x v] & Hx & HI). cbn [fst] in Hx. subst x.
      apply in_abs_from in HI. destruct HI as (j & m' & Hn & _ & Hid & _).
      specialize (Hun O (S (N.to_nat (j - (i0 + 1)))) m m' eq_refl Hn (eq_sym Hid)). discriminate.
    + apply IH. intros n1 n2 m1 m2 H1 H2 Hid. specialize (Hun (S n1) (S n2) m1 m2 H1 H2 Hid). lia.
  - apply IH. intros n1 n2 m1 m2 H1 H2 Hid. specialize (Hun (S n1) (S n2) m1 m2 H1 H2 Hid). lia.
Qed.

Lemma abs_wf_ids s : ids_unique s -> NoDup (map fst (sp_regions (abs s))).
Proof.
  intros Hu. cbn [sp_regions abs]. apply abs_from_nodup. intros n1 n2 m1 m2 H1 H2 Hid.
  assert (S1 : slot s (N.of_nat n1) = Some m1) by (unfold slot, get; now rewrite Nat2N.id, H1).
  assert (S2 : slot s (N.of_nat n2) = Some m2) by (unfold slot, get; now rewrite Nat2N.id, H2).
  pose proof (Hu _ _ _ _ S1 S2 Hid). lia.
Qed.

Theorem abs_wf : forall s, Inv s -> NoDup (map fst (sp_regions (abs s))).
Proof. intros s HI. apply abs_wf_ids. exact (inv_ids s HI). Qed.

Lemma refines_reopen s : Inv s -> step s Reopen <> APanic -> refines_step s Reopen.
Proof.
  intros HI Hnp. pose proof (inv_ids s HI) as Hu. cbn [step] in Hnp.
  destruct (reopen s) as [[s' r]|s' e|] eqn:Er; [| |congruence].
  2:{ exfalso. unfold reopen in Er. destruct (gaps _ _ _ _); discriminate. }
  destruct (reopen_fields s s' r HI Er) as (Hsl & Hmem & Hrf & Hheld & _).
  eapply refines_ok; [exact Er|reflexivity|].
  apply (spec_eq_sub s s' (fun j _ => rfile_has s j)); auto.
  - intros j. rewrite Hsl. pose proof (inv_rfile s HI j) as Hm. unfold rfile_has.
    destruct (slot s j) as [m|].
    + destruct (r_state m =? ST_WRITE).
      * destruct Hm as (-> & _). reflexivity.
      * rewrite Hm. eexists. split; [reflexivity|]. repeat split.
    + destruct Hm as [-> | ->]; reflexivity.
  - intros j m k _ _ _. now rewrite Hmem.
  - intros j m _ _. unfold rfile_has. now rewrite Hrf.
  - intros x j m Hl. rewrite sget_filter_val by (intros v1 v2; apply abs_keys_det; exact Hu).
    rewrite (sget_abs_lives s x j m Hu Hl). reflexivity.
  - intros x Ha. rewrite sget_filter_val by (intros v1 v2; apply abs_keys_det; exact Hu).
    rewrite (sget_abs_absent s x Ha). reflexivity.
  - intros x. unfold is_held. rewrite Hheld. reflexivity.
Qed.

(* ---- Create ---- *)
Lemma first_free_spec l : forall i0,
  i0 <= first_free l i0 /\
  match nth_opt l (N.to_nat (first_free l i0 - i0)) with Some (Some _) => False | _ => True end.
Proof.
  induction l as [|[m|] t IH]; intros i0; cbn [first_free].
  - split; [lia|]. destruct (N.to_nat (i0 - i0)); exact I.
  - destruct (IH (i0 + 1)) as [H1 H2]. split; [lia|].
    replace (N.to_nat (first_free t (i0 + 1) - i0)) with (S (N.to_nat (first_free t (i0 + 1) - (i0 + 1)))) by lia.
    exact H2.
  - split; [lia|]. replace (N.to_nat (i0 - i0)) with O by lia. exact I.
Qed.

Lemma slot_first_free s : slot s (first_free (slots s) 0) = None.
Proof.
  destruct (first_free_spec (slots s) 0) as [_ H]. rewrite N.sub_0_r in H. unfold slot, get.
  destruct (nth_opt (slots s) (N.to_nat (first_free (slots s) 0))) as [[m|]|]; [destruct H|reflexivity|reflexivity].
Qed.

(* the tail of create once the placement (s2, start) is decided *)
Definition create_tail (s2 : st) (start id : N) : ares (st * out) :=
  let i := first_free (slots s2) 0 in
  let m := mkR start NEW_REGION_LEN NEW_REGION_RESERVED id ST_WRITE u64_max 0 in
  let rf := if len (rfile s2) <? i + 1 then rfile s2 ++ repeat None (N.to_nat (i + 1 - len (rfile s2))) else rfile s2 in
  let s3 := put_slot (set_rfile s2 rf) i (Some m) in
  match layout_insert_region s3 start i with
  | Some s4 => AOk (s4, OUnit)
  | None => APanic
  end.

Lemma create_tail_spec s s2 start id s4 r H :
  Inv s -> slots s2 = slots s -> rfile s2 = rfile s -> mem s2 = mem s -> held s2 = H ->
  find_id s id = None ->
  create_tail s2 start id = AOk (s4, r) ->
  spec_eq (abs s4) (mkSpec (sput id (mkS 0 (fun _ => 0) false) (sp_regions (abs s))) H).
Proof.
  intros HI Hsl Hrf Hmem Hheld Hf. unfold create_tail. cbv zeta.
  rewrite Hsl, Hrf. set (i := first_free (slots s) 0).
  set (m := mkR start NEW_REGION_LEN NEW_REGION_RESERVED id ST_WRITE u64_max 0).
  set (rf := if len (rfile s) <? i + 1 then rfile s ++ repeat None (N.to_nat (i + 1 - len (rfile s))) else rfile s).
  unfold layout_insert_region. destruct (aget start _); [discriminate|]. intros [= <- _].
  assert (Hslot2 : forall j, slot s2 j = slot s j) by (intros j; unfold slot; now rewrite Hsl).
  assert (Hrfh : forall j, rfile_has (set_s2r (put_slot (set_rfile s2 rf) i (Some m)) (ains start i (s2r (put_slot (set_rfile s2 rf) i (Some m))))) j
                           = rfile_has s j).
  { intros j. subst rf. destruct (len (rfile s) <? i + 1).
    - erewrite rfile_has_pad; [|reflexivity]. reflexivity.
    - reflexivity. }
  apply (spec_eq_add s _ i m (mkS 0 (fun _ => 0) false)).
  - exact (inv_ids s HI).
  - apply slot_first_free.
  - intros x. rewrite sget_sput. reflexivity.
  - intros x. unfold is_held. cbn [held set_s2r put_slot set_slots set_rfile]. now rewrite Hheld.
  - intros j. rewrite slot_set_s2r, slot_put_slot, slot_set_rfile, Hslot2. reflexivity.
  - apply find_id_none_absent. exact Hf.
  - intros j mj k _ _. cbn [mem set_s2r put_slot set_slots set_rfile]. now rewrite Hmem.
  - intros j mj _. apply Hrfh.
  - unfold sview, sreg_eq. cbn [s_len s_data s_persisted]. split; [reflexivity|]. split.
    + intros k Hk. exfalso. cbn [m r_len] in Hk. rewrite NEW_LEN_0 in Hk. lia.
    + rewrite Hrfh. apply mirrors_none; [exact (inv_rfile s HI)|apply slot_first_free].
Qed.

Lemma create_cases s id hold :
  Inv s -> create s id hold <> APanic ->
  let s0 := if hold then set_held s (id :: held s) else s in
  (exists i, find_id s id = Some i /\ create s id hold = AOk (s0, OUnit)) \/
  (find_id s id = None /\
   exists s2 start, slots s2 = slots s /\ rfile s2 = rfile s /\ mem s2 = mem s /\ held s2 = held s0 /\
                    create s id hold = create_tail s2 start id).
Proof.
  intros HI Hnp. unfold create in *. cbv zeta in *.
  set (s0 := if hold then set_held s (id :: held s) else s) in *.
  assert (Hh : h2s_agrees s0) by (subst s0; destruct hold; exact (inv_h2s s HI)).
  assert (Hso : asorted (h2s s0)) by (subst s0; destruct hold; exact (proj2 (proj2 (proj2 (proj2 (inv_sorted s HI)))))).
  assert (Z : slots s0 = slots s /\ rfile s0 = rfile s /\ mem s0 = mem s) by (subst s0; destruct hold; repeat split).
  destruct Z as (Z1 & Z2 & Z3).
  assert (Hfid : find_id s0 id = find_id s id) by (unfold find_id; now rewrite Z1).
  clearbody s0. rewrite <- Hfid.
  destruct (find_id s0 id) as [i|] eqn:Ef.
  - left. exists i. split; reflexivity.
  - right. split; [reflexivity|].
    destruct (find_hole s0 PAGE_SIZE) as [a|] eqn:Efh.
    + rewrite Efh in *. destruct (find_hole_spec s0 _ _ Hh Hso Efh) as (z & Hz & Hle).
      destruct (remove_or_compress_hole s0 a PAGE_SIZE) as [s1| |] eqn:Er; cbn [abind] in *.
      * apply roc_shape in Er. destruct Er as (H & Q & ->). exists (set_holes s0 H Q), a.
        repeat split; assumption.
      * exfalso. eapply roc_no_err; eauto.
      * congruence.
    + rewrite find_hole_set_min_len, Efh in *. cbn [abind] in *.
      eexists. eexists. split; [|split; [|split; [|split; [|reflexivity]]]].
      * destruct (set_min_len_shape s0 (layout_len s0 + PAGE_SIZE)) as (fl & -> & _). exact Z1.
      * destruct (set_min_len_shape s0 (layout_len s0 + PAGE_SIZE)) as (fl & -> & _). exact Z2.
      * destruct (set_min_len_shape s0 (layout_len s0 + PAGE_SIZE)) as (fl & -> & _). exact Z3.
      * destruct (set_min_len_shape s0 (layout_len s0 + PAGE_SIZE)) as (fl & -> & _). reflexivity.
Qed.

Lemma refines_create s id hold :
  Inv s -> step s (Create id hold) <> APanic -> refines_step s (Create id hold).
Proof.
  intros HI Hnp. pose proof (inv_ids s HI) as Hu. cbn [step] in Hnp.
  destruct (create_cases s id hold HI Hnp) as [(i & Ef & Hc)|(Ef & s2 & start & Y1 & Y2 & Y3 & Y4 & Hc)].
  - destruct (find_id_sget_some s id i Ef) as (m & _ & _ & Hg).
    eapply refines_ok; [exact Hc|cbn [spec_step]; rewrite Hg; reflexivity|].
    destruct hold; apply spec_eq_same; try reflexivity; exact Hu.
  - rewrite Hc in Hnp. destruct (create_tail s2 start id) as [[s4 r]|s4 e|] eqn:Et; [| |congruence].
    + eapply refines_ok; [cbn [step]; rewrite Hc; reflexivity|cbn [spec_step]; rewrite (find_id_sget_none s id Ef); reflexivity|].
      destruct hold; eapply create_tail_spec; eauto.
    + exfalso. unfold create_tail in Et. cbv zeta in Et. destruct (layout_insert_region _ _ _); discriminate.
Qed.
