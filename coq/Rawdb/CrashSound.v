(* Rawdb/CrashSound.v — soundness of the crash monitor in OS mode (proof file).
   Invariant U: for every slot that was live and durable at the last completed flush and whose
   region id nobody addressed since: the only version the disk may hold is the flushed one, the
   durable bytes of its content are the flushed bytes, and no pending data range hits them.
   Consequences: C05_os_untouched and the full statement C05_os. *)
From Anydb Require Import Common.Base Gen.Consts Rawdb.AMap Rawdb.Alloc Rawdb.Crash Rawdb.CrashFacts Rawdb.CrashInv.

Definition in_content (w : slotrec) (a : N) : Prop := sr_start w <= a < sr_start w + sr_len w.

Definition Uslot (m : mon) (fmem : content) (i : N) (w : slotrec) : Prop :=
  possible m i = [Some w]
  /\ (forall a, in_content w a -> m_dmem m a = fmem a)
  /\ (forall off len f, In (off, len, f) (m_pdata m) -> disjoint off len (sr_start w) (sr_len w) = true).

Definition U (m : mon) : Prop :=
  match m_flushed m with
  | Some (fl, fmem) =>
      forall i w, assoc_get i fl = Some w -> mem_in (sr_id w) (m_touched m) = false -> Uslot m fmem i w
  | None => True
  end.

Lemma live_durable_in m i w : In (i, w) (live_durable m) <-> In (i, Some w) (m_dur m).
Proof.
  unfold live_durable. rewrite in_flat_map. split.
  - intros ([j x] & Hin & H). cbn [fst snd] in H. destruct x as [x|]; [|destruct H].
    destruct H as [H|[]]. injection H as -> ->. exact Hin.
  - intros H. exists (i, Some w). split; [exact H|]. left. reflexivity.
Qed.

(* a slot whose only possible version is w and whose id is not current is protected by M3/M4 *)
Lemma data_ok_protects m off len i w :
  data_ok m off len = true -> possible m i = [Some w] -> mem_in (sr_id w) (m_cur m) = false ->
  disjoint off len (sr_start w) (sr_len w) = true.
Proof.
  unfold data_ok. intros H Hp Hc. rewrite forallb_forall in H.
  assert (Hin : In (Some w) (possible m i)) by (rewrite Hp; left; reflexivity).
  specialize (H i (in_possible_all_slots _ _ _ Hin)). apply orb_true_iff in H. destruct H as [H|H].
  - unfold slot_addressed in H. rewrite Hp in H. cbn [existsb] in H. rewrite Hc in H. discriminate.
  - rewrite forallb_forall in H. exact (H _ Hin).
Qed.

Lemma Uslot_same m m' fmem i w :
  possible m' i = possible m i -> (forall a, m_dmem m' a = m_dmem m a) -> m_pdata m' = m_pdata m ->
  Uslot m fmem i w -> Uslot m' fmem i w.
Proof.
  intros Hp Hd Hpd (H1 & H2 & H3). split; [congruence|]. split.
  - intros a Ha. rewrite Hd. auto.
  - rewrite Hpd. exact H3.
Qed.

Lemma U_step m e : K m -> U m -> snd (mon_step m e) = true -> U (fst (mon_step m e)).
Proof.
  intros HK HU Hok. unfold U in *. destruct e.
  - (* CSetLen *) mcbn. destruct (m_flushed m) as [[fl fmem]|]; [|exact I].
    intros i w Hg Ht. apply (Uslot_same m); auto.
  - (* COp *) mcbn. destruct (m_flushed m) as [[fl fmem]|]; [|exact I].
    intros i w Hg Ht. rewrite mem_in_app in Ht. apply orb_false_iff in Ht.
    apply (Uslot_same m); [reflexivity|reflexivity|reflexivity|]. apply HU; tauto.
  - (* CEnd *) mcbn. destruct (m_flushed m) as [[fl fmem]|]; [|exact I].
    intros i w Hg Ht. apply (Uslot_same m); auto.
  - (* CMeta: M2 *)
    pose proof (possible_meta m slot v) as Hpm. mcbn. apply andb_true_iff in Hok. destruct Hok as [_ H2].
    unfold untouched_slot_ok in H2.
    destruct (m_flushed m) as [[fl fmem]|]; [|exact I].
    intros i w Hg Ht. apply (Uslot_same m); [|reflexivity|reflexivity|auto].
    rewrite Hpm. destruct (slot =? i) eqn:E; [|reflexivity].
    assert (slot = i) by lia. subst. rewrite Hg in H2. congruence.
  - (* CData: M3 *) mcbn. destruct (len =? 0) eqn:E0; mcbn; [exact HU|].
    apply andb_true_iff in Hok. destruct Hok as [Hdo _].
    destruct (m_flushed m) as [[fl fmem]|]; [|exact I].
    intros i w Hg Ht. destruct (HU i w Hg Ht) as (H1 & H2 & H3). split; [exact H1|]. split; [exact H2|].
    mcbn. intros o l g Hin. apply in_app_or in Hin. destruct Hin as [Hin|[Hin|[]]]; [eauto|].
    injection Hin as <- <- <-. apply (data_ok_protects m _ _ i); [exact Hdo|exact H1|].
    destruct (mem_in (sr_id w) (m_cur m)) eqn:Ec; [|reflexivity]. apply (k_cur m HK) in Ec. congruence.
  - (* CPunch: M4 *) mcbn.
    destruct (m_flushed m) as [[fl fmem]|]; [|exact I].
    intros i w Hg Ht. destruct (HU i w Hg Ht) as (H1 & H2 & H3). split; [exact H1|]. split; [exact H2|].
    mcbn. intros o l g Hin. apply in_app_or in Hin. destruct Hin as [Hin|[Hin|[]]]; [eauto|].
    injection Hin as <- <- <-. apply (data_ok_protects m _ _ i); [exact Hok|exact H1|].
    destruct (mem_in (sr_id w) (m_cur m)) eqn:Ec; [|reflexivity]. apply (k_cur m HK) in Ec. congruence.
  - (* CDataSync: the volatile bytes of the content are the durable ones *) mcbn.
    destruct (m_flushed m) as [[fl fmem]|]; [|exact I].
    intros i w Hg Ht. destruct (HU i w Hg Ht) as (H1 & H2 & H3). split; [exact H1|]. split.
    + mcbn. intros a Ha. rewrite <- (H2 a Ha).
      destruct (k_vmem m HK a) as [Hv|(o & l & g & Hin & Hr & _)]; [exact Hv|].
      exfalso. exact (disjoint_no_common _ _ _ _ a (H3 _ _ _ Hin) Hr Ha).
    + mcbn. intros o l g [].
  - (* CMetaSync *)
    pose proof (possible_after_metasync m) as Hpa. pose proof (dur_after_metasync m) as Hda. mcbn.
    destruct (m_flushed m) as [[fl fmem]|]; [|exact I].
    intros i w Hg Ht. destruct (HU i w Hg Ht) as (H1 & H2 & H3). split; [|split; assumption].
    rewrite Hpa, Hda. unfold vol_of. rewrite H1. reflexivity.
  - (* CPromote *) mcbn. exact HU.
  - (* CFlushed: M6 establishes U for the new snapshot *) mcbn.
    intros i w Hg Ht. destruct (m_pend m) as [|p pl] eqn:Ep; [|discriminate].
    apply assoc_get_in in Hg. split; [|split].
    + rewrite possible_eq. mcbn. cbn [pend_of filter map]. f_equal.
      unfold dur_get. apply live_durable_in in Hg.
      rewrite (assoc_get_nodup _ _ _ (k_nodup m HK) Hg). reflexivity.
    + mcbn. reflexivity.
    + mcbn. intros o l g Hin. rewrite forallb_forall in Hok. specialize (Hok _ Hg).
      rewrite forallb_forall in Hok. specialize (Hok _ Hin). exact Hok.
  - (* CRegionFlushed *) mcbn. exact HU.
Qed.

Lemma KU_step m e : K m /\ U m -> snd (mon_step m e) = true -> K (fst (mon_step m e)) /\ U (fst (mon_step m e)).
Proof. intros [HK HU] H. split; [apply K_step|apply U_step]; assumption. Qed.

Lemma KU_reach t1 t2 :
  snd (mon_run mon_init (t1 ++ t2)) = true ->
  K (fst (mon_run mon_init t1)) /\ U (fst (mon_run mon_init t1)).
Proof.
  intros H. apply mon_run_app in H.
  apply (run_inv (fun m => K m /\ U m) KU_step); [split; [exact K_init|exact I]|tauto].
Qed.

Theorem C05_os_untouched_proof :
  forall t1 t2, snd (mon_run mon_init (t1 ++ t2)) = true ->
    let m := fst (mon_run mon_init t1) in
    forall fl fmem, m_flushed m = Some (fl, fmem) ->
    forall i w, assoc_get i fl = Some w -> mem_in (sr_id w) (m_touched m) = false ->
      possible m i = [Some w]
      /\ forall img, os_data m img -> forall a, sr_start w <= a < sr_start w + sr_len w -> img a = fmem a.
Proof.
  intros t1 t2 H m fl fmem Hf i w Hg Ht. destruct (KU_reach t1 t2 H) as [HK HU]. fold m in HK, HU.
  unfold U in HU. rewrite Hf in HU. destruct (HU i w Hg Ht) as (H1 & H2 & H3). split; [exact H1|].
  intros img Himg a Ha. destruct (Himg a) as [Hd|(o & l & g & Hin & Hr & _)].
  - rewrite Hd. apply H2. exact Ha.
  - exfalso. exact (disjoint_no_common _ _ _ _ a (H3 _ _ _ Hin) Hr Ha).
Qed.

(* the FULL statement of Props/C05.v (C05_os_full, restated here because Props files hold no proofs) *)
Theorem C05_os_proof :
  forall t1 t2, snd (mon_run mon_init (t1 ++ t2)) = true ->
    let m := fst (mon_run mon_init t1) in
    forall sigma img, os_slots m sigma -> os_data m img ->
      pairwise_disjoint (recovered m sigma) /\ inside_file m (recovered m sigma)
      /\ match m_flushed m with
         | Some (fl, fmem) =>
             forall i w, assoc_get i fl = Some w -> mem_in (sr_id w) (m_touched m) = false ->
               sigma i = Some w /\ forall a, sr_start w <= a < sr_start w + sr_len w -> img a = fmem a
         | None => True
         end.
Proof.
  intros t1 t2 H m sigma img Hs Hd.
  destruct (C05_os_layout_proof t1 t2 H sigma Hs) as [Hpd Hin]. fold m in Hpd, Hin.
  split; [exact Hpd|]. split; [exact Hin|].
  destruct (m_flushed m) as [[fl fmem]|] eqn:Ef; [|exact I].
  intros i w Hg Ht. destruct (C05_os_untouched_proof t1 t2 H fl fmem Ef i w Hg Ht) as [Hp Hc].
  split.
  - specialize (Hs i). fold m in Hp. rewrite Hp in Hs. destruct Hs as [Hs|[]]. congruence.
  - intros a Ha. exact (Hc img Hd a Ha).
Qed.
