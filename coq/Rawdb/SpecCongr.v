(* Rawdb/SpecCongr.v — the reference semantics `spec_step` (Rawdb/AllocSpec.v) respects the
   extensional equality `spec_eq` on reference states whose region keys are unique, and unique
   keys are preserved by every operation.  Depends on AllocSpec.v only (the few `sget` lookup
   facts it needs are re-proved here under `sc_` names so that the file does not depend on the
   AllocRefine*.v family).

   Why unique keys: `Reopen` filters the association list by VALUE (`s_persisted`); with a
   duplicated key the filter could expose a shadowed later entry, so `sc_sget_filter_val` holds
   only under `NoDup (map fst l)`. *)
From Anydb Require Import Common.Base Rawdb.AMap Rawdb.Alloc Rawdb.AllocSpec.

Definition spec_wf (sp : spec) : Prop := NoDup (map fst (sp_regions sp)).

Example spec_wf_init : spec_wf sp_init.
Proof. constructor. Qed.

(* ---- spec_eq split in its two components ---------------------------------------------------- *)
Definition regs_eq (la lb : list (N * sreg)) : Prop :=
  forall id, match sget id la, sget id lb with
             | Some x, Some y => sreg_eq x y
             | None, None => True
             | _, _ => False
             end.
Definition held_eq (ha hb : list N) : Prop :=
  forall id, existsb (fun x => x =? id) ha = existsb (fun x => x =? id) hb.

Lemma spec_eq_mk la lb ha hb : regs_eq la lb -> held_eq ha hb -> spec_eq (mkSpec la ha) (mkSpec lb hb).
Proof. intros H1 H2. exact (conj H1 H2). Qed.
Lemma spec_eq_regs a b : spec_eq a b -> regs_eq (sp_regions a) (sp_regions b).
Proof. intros [H _]. exact H. Qed.
Lemma spec_eq_held a b : spec_eq a b -> held_eq (sp_held a) (sp_held b).
Proof. intros [_ H]. exact H. Qed.

Lemma sc_sreg_eq_refl a : sreg_eq a a.
Proof. repeat split. Qed.

(* ---- lookups --------------------------------------------------------------------------------- *)
Lemma sc_sget_sdel id id' l : sget id' (sdel id l) = if id' =? id then None else sget id' l.
Proof.
  induction l as [|[k v] t IH]; cbn [sget sdel]. { destruct (id' =? id); reflexivity. }
  destruct (k =? id) eqn:E1.
  - rewrite IH. destruct (id' =? id) eqn:E2; [reflexivity|]. destruct (k =? id') eqn:E3; [lia|reflexivity].
  - cbn [sget]. rewrite IH. destruct (k =? id') eqn:E3; [|reflexivity].
    destruct (id' =? id) eqn:E2; [lia|reflexivity].
Qed.

Lemma sc_sget_sput id id' v l : sget id' (sput id v l) = if id' =? id then Some v else sget id' l.
Proof.
  unfold sput. cbn [sget]. rewrite sc_sget_sdel. rewrite (N.eqb_sym id id').
  destruct (id' =? id); reflexivity.
Qed.

Lemma sc_sget_filter_key (p : N -> bool) id l :
  sget id (filter (fun kv => p (fst kv)) l) = if p id then sget id l else None.
Proof.
  induction l as [|[k v] t IH]; cbn [filter sget fst]. { destruct (p id); reflexivity. }
  destruct (p k) eqn:Ep; cbn [sget].
  - rewrite IH. destruct (k =? id) eqn:E; [|reflexivity]. assert (k = id) by lia. subst. now rewrite Ep.
  - rewrite IH. destruct (k =? id) eqn:E; [|reflexivity]. assert (k = id) by lia. subst. now rewrite Ep.
Qed.

Lemma sc_sget_In id v l : sget id l = Some v -> In (id, v) l.
Proof.
  induction l as [|[k w] t IH]; cbn [sget In]; [discriminate|].
  destruct (k =? id) eqn:E.
  - intros Hs. injection Hs as Hs. subst w. left. f_equal. lia.
  - intros Hs. right. auto.
Qed.

Lemma sc_In_sget id v l : In (id, v) l -> sget id l <> None.
Proof.
  induction l as [|[k w] t IH]; cbn [sget In]; [tauto|].
  intros [Hin|Hin]; destruct (k =? id) eqn:E; try discriminate.
  - injection Hin as Hk Hw. exfalso. lia.
  - auto.
Qed.

Lemma sc_sget_none_notin id l : sget id l = None <-> ~ In id (map fst l).
Proof.
  induction l as [|[k w] t IH]; cbn [sget map fst In]; [tauto|].
  destruct (k =? id) eqn:E.
  - split; [discriminate|]. intros Hn. exfalso. apply Hn. left. lia.
  - rewrite IH. split; [intros Hn [Hk|Hin]; [lia|tauto] | tauto].
Qed.

(* filtering by VALUE: needs unique keys *)
Lemma sc_sget_filter_val (p : sreg -> bool) id l : NoDup (map fst l) ->
  sget id (filter (fun kv => p (snd kv)) l) =
  match sget id l with Some v => if p v then Some v else None | None => None end.
Proof.
  induction l as [|[k w] t IH]; cbn [filter sget map fst snd]; [reflexivity|].
  intros Hnd. inversion Hnd as [|k' t' Hk Ht]; subst.
  specialize (IH Ht).
  destruct (k =? id) eqn:E.
  - assert (k = id) by lia; subst k.
    apply sc_sget_none_notin in Hk.
    destruct (p w) eqn:Ep; cbn [sget].
    + rewrite N.eqb_refl. reflexivity.
    + rewrite IH, Hk. reflexivity.
  - destruct (p w); cbn [sget]; [rewrite E|]; exact IH.
Qed.

(* ---- unique keys are preserved by the list transformations --------------------------------- *)
Lemma sc_keys_sdel id l : map fst (sdel id l) = filter (fun k => negb (k =? id)) (map fst l).
Proof.
  induction l as [|[k w] t IH]; cbn [sdel map filter fst]; [reflexivity|].
  destruct (k =? id); cbn [negb map fst]; [exact IH | f_equal; exact IH].
Qed.
Lemma sc_wf_sdel id l : NoDup (map fst l) -> NoDup (map fst (sdel id l)).
Proof. intros H. rewrite sc_keys_sdel. apply NoDup_filter. exact H. Qed.
Lemma sc_wf_sput id v l : NoDup (map fst l) -> NoDup (map fst (sput id v l)).
Proof.
  intros H. unfold sput. cbn [map fst]. constructor; [|apply sc_wf_sdel; exact H].
  rewrite sc_keys_sdel, filter_In. intros [_ Hf]. rewrite N.eqb_refl in Hf. discriminate.
Qed.
Lemma sc_keys_filter_In (p : N * sreg -> bool) x l : In x (map fst (filter p l)) -> In x (map fst l).
Proof. rewrite !in_map_iff. intros (kv & Hk & Hin). apply filter_In in Hin. exists kv. tauto. Qed.
Lemma sc_wf_filter (p : N * sreg -> bool) l : NoDup (map fst l) -> NoDup (map fst (filter p l)).
Proof.
  induction l as [|[k w] t IH]; cbn [filter map fst]; [auto|].
  intros Hnd. inversion Hnd as [|k' t' Hk Ht]; subst.
  destruct (p (k, w)); [|auto]. cbn [map fst]. constructor; [|auto].
  intros Hin. apply Hk. eapply sc_keys_filter_In. exact Hin.
Qed.

(* ---- handle lists: membership after each transformation, in terms of membership before ---- *)
Lemma sc_held_filter (p : N -> bool) i l :
  existsb (fun x => x =? i) (filter p l) = p i && existsb (fun x => x =? i) l.
Proof.
  induction l as [|x t IH]; cbn [filter existsb]; [destruct (p i); reflexivity|].
  destruct (p x) eqn:Ep; cbn [existsb]; rewrite IH; destruct (x =? i) eqn:E.
  - assert (x = i) by lia. subst. rewrite Ep. reflexivity.
  - reflexivity.
  - assert (x = i) by lia. subst. rewrite Ep. reflexivity.
  - reflexivity.
Qed.

Lemma sc_held_rename id nid i l :
  existsb (fun x => x =? i) (map (fun x => if x =? id then nid else x) l) =
  if i =? nid then existsb (fun x => x =? id) l || existsb (fun x => x =? nid) l
  else negb (i =? id) && existsb (fun x => x =? i) l.
Proof.
  induction l as [|x t IH]; cbn [map existsb]. { destruct (i =? nid), (i =? id); reflexivity. }
  rewrite IH.
  destruct (existsb (fun y => y =? id) t), (existsb (fun y => y =? nid) t), (existsb (fun y => y =? i) t);
    destruct (i =? nid) eqn:E2; destruct (x =? id) eqn:E1; lia.
Qed.

Lemma held_eq_cons id ha hb : held_eq ha hb -> held_eq (id :: ha) (id :: hb).
Proof. intros H i. cbn [existsb]. rewrite (H i). reflexivity. Qed.
Lemma held_eq_filter p ha hb : held_eq ha hb -> held_eq (filter p ha) (filter p hb).
Proof. intros H i. rewrite !sc_held_filter, (H i). reflexivity. Qed.
Lemma held_eq_rename id nid ha hb : held_eq ha hb ->
  held_eq (map (fun x => if x =? id then nid else x) ha) (map (fun x => if x =? id then nid else x) hb).
Proof. intros H i. rewrite !sc_held_rename, (H i), (H id), (H nid). reflexivity. Qed.

(* ---- region lists ---------------------------------------------------------------------------- *)
Lemma regs_eq_sput id x y la lb : regs_eq la lb -> sreg_eq x y -> regs_eq (sput id x la) (sput id y lb).
Proof. intros H Hxy i. rewrite !sc_sget_sput. destruct (i =? id); [exact Hxy | apply H]. Qed.
Lemma regs_eq_sdel id la lb : regs_eq la lb -> regs_eq (sdel id la) (sdel id lb).
Proof. intros H i. rewrite !sc_sget_sdel. destruct (i =? id); [exact I | apply H]. Qed.
Lemma regs_eq_filter_key p la lb : regs_eq la lb ->
  regs_eq (filter (fun kv => p (fst kv)) la) (filter (fun kv => p (fst kv)) lb).
Proof. intros H i. rewrite !sc_sget_filter_key. destruct (p i); [apply H | exact I]. Qed.
Lemma regs_eq_filter_persisted la lb : NoDup (map fst la) -> NoDup (map fst lb) -> regs_eq la lb ->
  regs_eq (filter (fun kv => s_persisted (snd kv)) la) (filter (fun kv => s_persisted (snd kv)) lb).
Proof.
  intros Ha Hb H i. rewrite !(sc_sget_filter_val s_persisted) by assumption.
  specialize (H i). destruct (sget i la) as [x|], (sget i lb) as [y|]; try (exfalso; exact H); [|exact I].
  pose proof H as (_ & _ & Hp). rewrite Hp. destruct (s_persisted y); [exact H | exact I].
Qed.
Lemma regs_eq_dom la lb k : regs_eq la lb -> (sget k la <> None <-> sget k lb <> None).
Proof.
  intros H. specialize (H k).
  destruct (sget k la), (sget k lb); try (exfalso; exact H); split; congruence.
Qed.

(* ---- the refusal test of Retain mentions only what spec_eq preserves ---------------------- *)
Lemma sc_existsb_key (q : N -> bool) l :
  existsb (fun kv => q (fst kv)) l = true <-> exists k, sget k l <> None /\ q k = true.
Proof.
  rewrite existsb_exists. split.
  - intros ([k v] & Hin & Hq). exists k. split; [eapply sc_In_sget; exact Hin | exact Hq].
  - intros (k & Hs & Hq). destruct (sget k l) as [v|] eqn:E; [|congruence].
    exists (k, v). split; [apply sc_sget_In; exact E | exact Hq].
Qed.

Lemma retain_test_congr a b keep : spec_eq a b ->
  existsb (fun kv => negb (existsb (fun y => y =? fst kv) keep) && sp_is_held a (fst kv)) (sp_regions a) =
  existsb (fun kv => negb (existsb (fun y => y =? fst kv) keep) && sp_is_held b (fst kv)) (sp_regions b).
Proof.
  intros [Hr Hh]. apply eq_true_iff_eq.
  pose proof (sc_existsb_key (fun k => negb (existsb (fun y => y =? k) keep) && sp_is_held a k) (sp_regions a)) as Ea.
  pose proof (sc_existsb_key (fun k => negb (existsb (fun y => y =? k) keep) && sp_is_held b k) (sp_regions b)) as Eb.
  cbv beta in Ea, Eb. rewrite Ea, Eb.
  split; intros (k & Hs & Hq); exists k; (split; [apply (regs_eq_dom _ _ k Hr); exact Hs|]).
  - rewrite <- Hh. exact Hq.
  - rewrite Hh. exact Hq.
Qed.

(* ---- writes ---------------------------------------------------------------------------------- *)
Lemma s_write_congr x y f n at_ tr : sreg_eq x y ->
  match s_write x f n at_ tr, s_write y f n at_ tr with
  | Ok x', Ok y' => sreg_eq x' y'
  | Err e1, Err e2 => e1 = e2
  | _, _ => False
  end.
Proof.
  intros (Hl & Hd & Hp). unfold s_write. rewrite <- Hl, <- Hp. destruct at_ as [a|].
  - destruct (s_len x <? a) eqn:E; [reflexivity|].
    split; [reflexivity|split; [|reflexivity]]. cbn [s_len s_data s_persisted].
    intros k Hk. destruct ((a <=? k) && (k <? a + n)) eqn:E2; [reflexivity|].
    apply Hd. destruct tr; lia.
  - split; [reflexivity|split; [|reflexivity]]. cbn [s_len s_data s_persisted].
    intros k Hk. destruct (k <? s_len x) eqn:E2; [apply Hd; lia | reflexivity].
Qed.

Definition spec_wr (sp : spec) (id : N) (f : N -> N) (n : N) (at_ : option N) (tr : bool)
  : spec * res aerr out :=
  match sget id (sp_regions sp) with
  | None => (sp, Err RegionNotFound)
  | Some r => match s_write r f n at_ tr with
              | Ok r' => (mkSpec (sput id r' (sp_regions sp)) (sp_held sp), Ok OUnit)
              | Err e => (sp, Err e)
              | Panic => (sp, Panic)
              end
  end.

Lemma spec_wr_congr a b id f n at_ tr : spec_eq a b ->
  spec_eq (fst (spec_wr a id f n at_ tr)) (fst (spec_wr b id f n at_ tr)) /\
  snd (spec_wr a id f n at_ tr) = snd (spec_wr b id f n at_ tr).
Proof.
  intros H. unfold spec_wr. pose proof (spec_eq_regs _ _ H id) as Hi.
  destruct (sget id (sp_regions a)) as [x|], (sget id (sp_regions b)) as [y|];
    try (exfalso; exact Hi); [|split; [exact H|reflexivity]].
  pose proof (s_write_congr x y f n at_ tr Hi) as Hw.
  destruct (s_write x f n at_ tr) as [x'|e1|], (s_write y f n at_ tr) as [y'|e2|];
    try (exfalso; exact Hw); cbn [fst snd].
  - split; [|reflexivity].
    apply spec_eq_mk; [apply regs_eq_sput; [apply spec_eq_regs; exact H|exact Hw] | apply spec_eq_held; exact H].
  - split; [exact H|]. f_equal. exact Hw.
Qed.

(* ---- unique keys are preserved by every operation ------------------------------------------ *)
Theorem spec_step_wf : forall sp o, spec_wf sp -> spec_wf (fst (spec_step sp o)).
Proof.
  unfold spec_wf. intros sp o H.
  destruct o; cbv beta iota zeta delta [spec_step];
    repeat match goal with |- context [match ?x with _ => _ end] => destruct x end;
    cbn [fst sp_regions]; auto using sc_wf_sput, sc_wf_sdel, sc_wf_filter.
Qed.

(* ---- spec_step is a congruence for spec_eq -------------------------------------------------- *)
Theorem spec_step_congr : forall a b o, spec_wf a -> spec_wf b -> spec_eq a b ->
  spec_eq (fst (spec_step a o)) (fst (spec_step b o)) /\ snd (spec_step a o) = snd (spec_step b o).
Proof.
  intros a b o Ha Hb H. unfold spec_wf in Ha, Hb.
  pose proof (spec_eq_regs _ _ H) as Hr. pose proof (spec_eq_held _ _ H) as Hh.
  pose proof (proj2 H) as Hh0.
  destruct o as [id hold|id f n|id f n at_|id f n at_|id from|id nid|id|id|keep| |id| | |m|m].
  - (* Create *)
    cbv beta iota zeta delta [spec_step]. pose proof (Hr id) as Hi.
    assert (Hh' : held_eq (if hold then id :: sp_held a else sp_held a)
                          (if hold then id :: sp_held b else sp_held b)).
    { destruct hold; [apply held_eq_cons|]; exact Hh. }
    destruct (sget id (sp_regions a)) as [x|], (sget id (sp_regions b)) as [y|];
      try (exfalso; exact Hi); cbn [fst snd]; (split; [|reflexivity]); apply spec_eq_mk; auto.
    apply regs_eq_sput; [exact Hr|apply sc_sreg_eq_refl].
  - (* Write *) exact (spec_wr_congr a b id f n None false H).
  - (* WriteAt *) exact (spec_wr_congr a b id f n (Some at_) false H).
  - (* TruncWrite *) exact (spec_wr_congr a b id f n (Some at_) true H).
  - (* Truncate *)
    cbv beta iota zeta delta [spec_step]. pose proof (Hr id) as Hi.
    destruct (sget id (sp_regions a)) as [x|], (sget id (sp_regions b)) as [y|];
      try (exfalso; exact Hi); [|split; [exact H|reflexivity]].
    destruct Hi as (Hl & Hd & Hp). rewrite <- Hl, <- Hp.
    destruct (s_len x <? from) eqn:E; cbn [fst snd]; (split; [|reflexivity]); [exact H|].
    apply spec_eq_mk; [|exact Hh]. apply regs_eq_sput; [exact Hr|].
    split; [reflexivity|split; [|reflexivity]]. cbn [s_len s_data]. intros k Hk. apply Hd. lia.
  - (* Rename *)
    cbv beta iota zeta delta [spec_step]. pose proof (Hr id) as Hi. pose proof (Hr nid) as Hn.
    destruct (sget id (sp_regions a)) as [x|], (sget id (sp_regions b)) as [y|];
      try (exfalso; exact Hi); [|split; [exact H|reflexivity]].
    destruct (sget nid (sp_regions a)) as [x2|], (sget nid (sp_regions b)) as [y2|];
      try (exfalso; exact Hn); cbn [fst snd]; (split; [|reflexivity]); [exact H|].
    apply spec_eq_mk; [|apply held_eq_rename; exact Hh].
    apply regs_eq_sput; [apply regs_eq_sdel; exact Hr|].
    destruct Hi as (Hl & Hd & Hp). split; [exact Hl|split; [exact Hd|reflexivity]].
  - (* Remove *)
    cbv beta iota zeta delta [spec_step]. pose proof (Hr id) as Hi.
    destruct (sget id (sp_regions a)) as [x|], (sget id (sp_regions b)) as [y|];
      try (exfalso; exact Hi); [|split; [exact H|reflexivity]].
    rewrite (Hh0 id).
    destruct (sp_is_held b id); cbn [fst snd]; (split; [|reflexivity]); [exact H|].
    apply spec_eq_mk; [apply regs_eq_sdel; exact Hr|exact Hh].
  - (* DropHandle *)
    cbv beta iota zeta delta [spec_step]. cbn [fst snd]. split; [|reflexivity].
    apply spec_eq_mk; [exact Hr|apply held_eq_filter; exact Hh].
  - (* Retain *)
    cbv beta iota zeta delta [spec_step]. rewrite (retain_test_congr a b keep H).
    destruct (existsb _ (sp_regions b)); cbn [fst snd]; (split; [|reflexivity]); [exact H|].
    apply spec_eq_mk;
      [apply (regs_eq_filter_key (fun k => existsb (fun y => y =? k) keep)); exact Hr
      |apply held_eq_filter; exact Hh].
  - (* Flush *) exact (conj H eq_refl).
  - (* FlushRegion *)
    cbv beta iota zeta delta [spec_step]. pose proof (Hr id) as Hi.
    destruct (sget id (sp_regions a)) as [x|], (sget id (sp_regions b)) as [y|];
      try (exfalso; exact Hi); [|split; [exact H|reflexivity]].
    destruct Hi as (_ & _ & Hp). rewrite Hp. split; [exact H|reflexivity].
  - (* Compact *) exact (conj H eq_refl).
  - (* Reopen *)
    cbv beta iota zeta delta [spec_step]. cbn [fst snd]. split; [|reflexivity].
    apply spec_eq_mk; [apply regs_eq_filter_persisted; assumption | intros i; reflexivity].
  - (* SetMinLen *) exact (conj H eq_refl).
  - (* SetMinRegions *) exact (conj H eq_refl).
Qed.

(* ---- runs ------------------------------------------------------------------------------------- *)
Fixpoint spec_run (sp : spec) (ops : list op) : spec :=
  match ops with [] => sp | o :: t => spec_run (fst (spec_step sp o)) t end.
Fixpoint spec_results (sp : spec) (ops : list op) : list (res aerr out) :=
  match ops with
  | [] => []
  | o :: t => snd (spec_step sp o) :: spec_results (fst (spec_step sp o)) t
  end.

Theorem spec_run_wf : forall ops sp, spec_wf sp -> spec_wf (spec_run sp ops).
Proof.
  induction ops as [|o t IH]; intros sp H; cbn [spec_run]; [exact H|].
  apply IH. apply spec_step_wf. exact H.
Qed.

Theorem spec_run_congr : forall ops a b, spec_wf a -> spec_wf b -> spec_eq a b ->
  spec_eq (spec_run a ops) (spec_run b ops) /\ spec_results a ops = spec_results b ops.
Proof.
  induction ops as [|o t IH]; intros a b Ha Hb H; cbn [spec_run spec_results].
  - split; [exact H|reflexivity].
  - destruct (spec_step_congr a b o Ha Hb H) as [H1 H2].
    destruct (IH _ _ (spec_step_wf a o Ha) (spec_step_wf b o Hb) H1) as [H3 H4].
    split; [exact H3|]. rewrite H2, H4. reflexivity.
Qed.

(* the hypotheses are satisfiable: every run from the initial reference state is well formed *)
Example spec_run_init_wf ops : spec_wf (spec_run sp_init ops).
Proof. apply spec_run_wf. exact spec_wf_init. Qed.
