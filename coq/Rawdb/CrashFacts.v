(* Rawdb/CrashFacts.v — first facts about the crash monitor (proof file). *)
From Anydb Require Import Common.Base Gen.Consts Rawdb.AMap Rawdb.Alloc Rawdb.Crash.

(* the monitor accepts a trace only if it accepts every prefix: a crash point is a prefix *)
Lemma mon_run_app m t1 t2 :
  snd (mon_run m (t1 ++ t2)) = true ->
  snd (mon_run m t1) = true /\ snd (mon_run (fst (mon_run m t1)) t2) = true.
Proof.
  revert m. induction t1 as [|e t1 IH]; intros m H; cbn [app mon_run] in *.
  - split; [reflexivity|exact H].
  - destruct (mon_step m e) as [m1 ok] eqn:E. destruct ok.
    + apply IH. exact H.
    + cbn in H. discriminate.
Qed.

Lemma mon_run_app_state m t1 t2 :
  snd (mon_run m t1) = true -> fst (mon_run m (t1 ++ t2)) = fst (mon_run (fst (mon_run m t1)) t2).
Proof.
  revert m. induction t1 as [|e t1 IH]; intros m H; cbn [app mon_run] in *.
  - reflexivity.
  - destruct (mon_step m e) as [m1 ok] eqn:E. destruct ok.
    + apply IH. exact H.
    + cbn in H. discriminate.
Qed.

(* after a metadata sync nothing is pending: every slot has exactly one possible version *)
Lemma possible_after_metasync m i :
  possible (fst (mon_step m CMetaSync)) i = [dur_of (fst (mon_step m CMetaSync)) i].
Proof. reflexivity. Qed.
