(* Rawdb/AllocDisciplinedPunch.v — structure of the model's traces (proof file): punches occur
   only while no operation ids are current (inside compact, whose COp names no id), and the
   monitor's m_cur follows the last COp / CEnd of the trace.  Consequences: C12_all_histories
   (full) and the LIB-mode counterparts of C05_all_histories. *)
From Anydb Require Import Common.Base Gen.Consts Rawdb.AMap Rawdb.Alloc Rawdb.AllocInv
  Rawdb.Crash Rawdb.CrashFacts Rawdb.CrashInv Rawdb.CrashSound Rawdb.CrashCompact Rawdb.CrashLibDefs Rawdb.CrashLib
  Rawdb.AllocEvents Rawdb.AllocDisciplined Rawdb.AllocDisciplinedAll.

(* the ids current after a trace *)
Fixpoint cur_of (t : list cev) (cur : list N) : list N :=
  match t with
  | [] => cur
  | COp ids :: t' => cur_of t' ids
  | CEnd :: t' => cur_of t' []
  | _ :: t' => cur_of t' cur
  end.

(* every punch of the trace is issued while no ids are current *)
Fixpoint punches_idle (cur : list N) (t : list cev) : bool :=
  match t with
  | [] => true
  | COp ids :: t' => punches_idle ids t'
  | CEnd :: t' => punches_idle [] t'
  | CPunch _ _ :: t' => (match cur with [] => true | _ => false end) && punches_idle cur t'
  | _ :: t' => punches_idle cur t'
  end.

Lemma m_cur_step m e : m_cur (fst (mon_step m e)) = cur_of [e] (m_cur m).
Proof. destruct e; cbn [mon_step fst m_cur cur_of]; try reflexivity. destruct (len =? 0); reflexivity. Qed.

Lemma cur_of_cons e t c : cur_of (e :: t) c = cur_of t (cur_of [e] c).
Proof. destruct e; reflexivity. Qed.

Lemma m_cur_run t : forall m, snd (mon_run m t) = true -> m_cur (fst (mon_run m t)) = cur_of t (m_cur m).
Proof.
  induction t as [|e t IH]; intros m H; [reflexivity|].
  rewrite mon_run_cons in *. destruct (snd (mon_step m e)); [|cbn [snd] in H; discriminate].
  rewrite (IH _ H), m_cur_step, (cur_of_cons e t). reflexivity.
Qed.

Lemma punches_idle_split t1 : forall cur off len t2,
  punches_idle cur (t1 ++ CPunch off len :: t2) = true -> cur_of t1 cur = [].
Proof.
  induction t1 as [|e t1 IH]; intros cur off len t2 H.
  - cbn [app punches_idle] in H. destruct cur; [reflexivity|discriminate].
  - cbn [app] in H. destruct e; cbn [punches_idle cur_of] in *; try (eapply IH; exact H).
    apply andb_true_iff in H. destruct H as [_ H]. eapply IH; exact H.
Qed.

Lemma punches_idle_app a : forall cur b,
  punches_idle cur (a ++ b) = punches_idle cur a && punches_idle (cur_of a cur) b.
Proof.
  induction a as [|e a IH]; intros cur b; [reflexivity|].
  cbn [app]. destruct e; cbn [punches_idle cur_of]; rewrite ?IH; try reflexivity.
  rewrite andb_assoc. reflexivity.
Qed.

(* bodies: neither COp nor CEnd; quiet bodies have no punch either *)
Definition flat (l : list cev) : bool :=
  forallb (fun e => match e with COp _ | CEnd => false | _ => true end) l.
Definition quiet (l : list cev) : bool :=
  forallb (fun e => match e with COp _ | CEnd | CPunch _ _ => false | _ => true end) l.

Lemma quiet_app a b : quiet (a ++ b) = quiet a && quiet b.
Proof. apply forallb_app. Qed.

Lemma idle_quiet l : forall cur, quiet l = true -> punches_idle cur l = true.
Proof.
  induction l as [|e l IH]; intros cur H; [reflexivity|].
  cbn [quiet forallb] in H. apply andb_true_iff in H. destruct H as [H1 H2].
  destruct e; try discriminate; cbn [punches_idle]; apply IH; exact H2.
Qed.

Lemma idle_flat l : flat l = true -> punches_idle [] l = true.
Proof.
  induction l as [|e l IH]; intros H; [reflexivity|].
  cbn [flat forallb] in H. apply andb_true_iff in H. destruct H as [H1 H2].
  destruct e; try discriminate; cbn [punches_idle andb]; apply IH; exact H2.
Qed.

Lemma quiet_setlen s n : quiet (setlen_ev s n) = true.
Proof. unfold setlen_ev. destruct (_ =? _); reflexivity. Qed.
Lemma quiet_meta_ev s i : quiet (meta_ev s i) = true.
Proof. unfold meta_ev. destruct (slot s i) as [m|]; [destruct (_ =? _)|]; reflexivity. Qed.
Lemma quiet_finish s i a b f n c : quiet (finish_events s i a b f n c) = true.
Proof. unfold finish_events. cbn [quiet forallb]. apply quiet_meta_ev. Qed.
Lemma quiet_relocate s i m f n wo nl nr cl : quiet (relocate_events s i m f n wo nl nr cl) = true.
Proof.
  unfold relocate_events. destruct (find_hole s nr); rewrite !quiet_app, ?quiet_setlen;
    destruct (cl =? 0); reflexivity.
Qed.

Lemma quiet_write s i f n at_ tr : quiet (write_events s i f n at_ tr) = true.
Proof.
  unfold write_events. destruct (slot s i) as [m|]; [|reflexivity].
  destruct (match at_ with Some a => r_len m <? a | None => false end); [reflexivity|].
  destruct (_ <=? r_reserved m).
  { cbn [quiet forallb]. destruct (_ =? r_len m); [reflexivity|apply quiet_meta_ev]. }
  destruct (r_reserved m =? 0); [reflexivity|].
  destruct (double_until 64 (r_reserved m) _) as [nr| |]; try reflexivity.
  destruct (is_last_anything s i).
  { rewrite quiet_app, quiet_setlen. apply quiet_finish. }
  destruct (aget _ (holes s)) as [gap|]; [|apply quiet_relocate].
  destruct (_ <=? gap); [|apply quiet_relocate].
  destruct (remove_or_compress_hole s _ _); try reflexivity. apply quiet_finish.
Qed.

Lemma quiet_retain l keep : forall i, quiet (retain_events l keep i) = true.
Proof.
  induction l as [|[m|] t IH]; intros i; cbn [retain_events]; [reflexivity| |apply IH].
  destruct (in_keep keep m); [apply IH|]. cbn [quiet forallb]. apply IH.
Qed.

Lemma quiet_flush s : quiet (flush_events s) = true.
Proof. unfold flush_events. destruct (flush_dirty s); [destruct (pend s)|]; reflexivity. Qed.

Lemma quiet_flat l : quiet l = true -> flat l = true.
Proof.
  unfold quiet, flat. rewrite !forallb_forall. intros H e He. specialize (H e He). destruct e; try reflexivity; discriminate.
Qed.

Lemma flat_punch orc s1 : flat (punch_events orc s1) = true.
Proof.
  unfold punch_events. set (ps := filter _ _). unfold flat. rewrite forallb_app. apply andb_true_iff. split.
  - apply forallb_forall. intros e He. apply in_map_iff in He. destruct He as (r & <- & _). reflexivity.
  - destruct ps; reflexivity.
Qed.

Lemma with_region_quiet s id k : (forall i, quiet (k i) = true) -> quiet (with_region_ev s id k) = true.
Proof. intros H. unfold with_region_ev. destruct (find_id s id); [apply H|reflexivity]. Qed.

(* the events of one operation *)
Lemma idle_step orc s o c : punches_idle c (step_events_o orc s o) = true.
Proof.
  unfold step_events_o. cbn [punches_idle].
  assert (Hcl : forall cur, punches_idle cur [closer s o] = true).
  { intros cur. unfold closer. destruct o; try reflexivity; destruct (step s _) as [[s' r]| |]; try reflexivity.
    destruct r as [|n]; try reflexivity. destruct n as [|p]; try reflexivity. destruct p; reflexivity. }
  destruct (step s o) as [x| |]; [|apply Hcl|apply Hcl].
  rewrite punches_idle_app, Hcl, andb_true_r.
  destruct o; cbn [body_events op_ids]; try reflexivity.
  - apply idle_quiet. destruct (find_id s id); [reflexivity|]. destruct (find_hole s PAGE_SIZE); [reflexivity|apply quiet_setlen].
  - apply idle_quiet. apply with_region_quiet. intros i. apply quiet_write.
  - apply idle_quiet. apply with_region_quiet. intros i. apply quiet_write.
  - apply idle_quiet. apply with_region_quiet. intros i. apply quiet_write.
  - apply idle_quiet. apply with_region_quiet. intros i. destruct (slot s i) as [m|]; [|reflexivity].
    destruct (_ =? _); [reflexivity|apply quiet_meta_ev].
  - apply idle_quiet. apply with_region_quiet. intros i. apply quiet_meta_ev.
  - apply idle_quiet. apply with_region_quiet. intros i. reflexivity.
  - apply idle_quiet. apply quiet_retain.
  - apply idle_quiet. apply quiet_flush.
  - apply idle_quiet. apply with_region_quiet. intros i. destruct (slot s i) as [m|]; [|reflexivity]. destruct (_ || _); reflexivity.
  - apply idle_flat. unfold flat. rewrite forallb_app. apply andb_true_iff. split.
    + apply (quiet_flat _ (quiet_flush s)).
    + apply flat_punch.
  - apply idle_quiet. apply quiet_setlen.
Qed.

Lemma idle_run orcs ops : forall k s c, punches_idle c (run_events_o orcs k s ops) = true.
Proof.
  induction ops as [|o t IH]; intros k s c; [reflexivity|].
  cbn [run_events_o]. rewrite punches_idle_app, idle_step, IH. reflexivity.
Qed.

Lemma idle_trace orcs min_len ops : punches_idle [] (trace_of_o orcs min_len ops) = true.
Proof. unfold trace_of_o. cbn [punches_idle]. apply idle_run. Qed.

(* C12 on every history of the model, FULL *)
Theorem C12_all_histories_proof :
  forall orcs min_len ops, forallb crash_op ops = true ->
  forall t1 off len t2, trace_of_o orcs min_len ops = t1 ++ CPunch off len :: t2 ->
    let m := fst (mon_run mon_init t1) in
    forall i v, In (Some v) (possible m i) -> disjoint off len (sr_start v) (sr_len v) = true.
Proof.
  intros orcs min_len ops H t1 off len t2 E m.
  apply (C12_all_histories_partial_proof orcs min_len ops H t1 off len t2 E).
  pose proof (C05_model_disciplined_proof orcs min_len ops H) as Hacc. rewrite E in Hacc.
  apply mon_run_app in Hacc. destruct Hacc as [Hacc _].
  rewrite (m_cur_run t1 mon_init Hacc). cbn [m_cur mon_init].
  apply (punches_idle_split t1 [] off len t2). rewrite <- E. apply idle_trace.
Qed.

(* ---- LIB mode on every history of the model ------------------------------------------------------------ *)
Theorem C05_all_histories_lib_general_proof :
  forall orcs min_len ops, forallb crash_op ops = true ->
  forall t0 t1 p rest, trace_of_o orcs min_len ops = t0 ++ t1 ++ lib_next p ++ rest ->
    no_metasync t1 = true ->
    let m0 := fst (mon_run mon_init t0) in
    let m := fst (mon_run mon_init (t0 ++ t1)) in
    forall i sigma img, lib_slots p m sigma -> lib_data p m img ->
      pdata_misses (dur_of m0 i) m0 = true ->
      not_overwritten (dur_of m0 i) t1 = true ->
      (sigma i = dur_of m0 i /\ agree_on (sigma i) img (m_dmem m0))
      \/ (p = LInMetaSync /\ sigma i = latest_of m i /\ agree_on (sigma i) img (m_vmem m)).
Proof.
  intros orcs min_len ops H t0 t1 p rest E Hnm.
  apply (C05_lib_general_proof t0 t1 p); [|exact Hnm].
  pose proof (C05_model_disciplined_proof orcs min_len ops H) as Hacc. rewrite E in Hacc.
  replace (t0 ++ t1 ++ lib_next p ++ rest) with ((t0 ++ t1 ++ lib_next p) ++ rest) in Hacc
    by (rewrite <- !app_assoc; reflexivity).
  apply mon_run_app in Hacc. tauto.
Qed.

Theorem C05_all_histories_lib_proof :
  forall orcs min_len ops, forallb crash_op ops = true ->
  forall t0 t1 p rest,
    let tc := t0 ++ [CDataSync; CMetaSync] in
    trace_of_o orcs min_len ops = tc ++ t1 ++ lib_next p ++ rest ->
    no_metasync t1 = true ->
    let m0 := fst (mon_run mon_init tc) in
    let m := fst (mon_run mon_init (tc ++ t1)) in
    forall i sigma img, lib_slots p m sigma -> lib_data p m img ->
      not_overwritten (dur_of m0 i) t1 = true ->
      (sigma i = dur_of m0 i /\ agree_on (sigma i) img (m_vmem m0))
      \/ (p = LInMetaSync /\ sigma i = latest_of m i /\ agree_on (sigma i) img (m_vmem m)).
Proof.
  intros orcs min_len ops H t0 t1 p rest tc E Hnm.
  apply (C05_lib_proof t0 t1 p); [|exact Hnm]. fold tc.
  pose proof (C05_model_disciplined_proof orcs min_len ops H) as Hacc. rewrite E in Hacc.
  replace (tc ++ t1 ++ lib_next p ++ rest) with ((tc ++ t1 ++ lib_next p) ++ rest) in Hacc
    by (rewrite <- !app_assoc; reflexivity).
  apply mon_run_app in Hacc. tauto.
Qed.
