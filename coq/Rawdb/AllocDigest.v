(* Rawdb/AllocDigest.v — a digest of a whole run of the allocator model (every field of every
   state, every result, sampled data bytes of every live region).  Used ONLY by the cross-check
   of the extraction (DESIGN.md 2.2, tools/x_crosscheck.py): the same definition is evaluated by
   the extracted OCaml code and by vm_compute inside Coq; the two numbers must be equal.
   Definitions only; nothing here is used by a theorem. *)
From Anydb Require Import Common.Base Gen.Consts Rawdb.AMap Rawdb.Alloc.

Definition d_two64 : N := 18446744073709551616.
Definition d_mix (h v : N) : N := (N.lxor h (v mod d_two64) * 1099511628211) mod d_two64.
Definition d_mix_list (h : N) (l : list N) : N := fold_left d_mix l (d_mix h (len l)).
Definition d_mix_pairs (h : N) (m : amap N) : N :=
  fold_left (fun h kv => d_mix (d_mix h (fst kv)) (snd kv)) m (d_mix h (len m)).

Definition aerr_code (e : aerr) : N :=
  match e with
  | RegionNotFound => 0 | RegionMetadataUnwritten => 1 | RegionAlreadyExists => 2
  | RegionStillReferenced => 3 | WriteOutOfBounds => 4 | TruncateInvalid => 5
  | RegionIndexMismatch => 6 | HoleTooSmall => 7 | InvariantViolation => 8
  | RegionSizeOverflow => 9 | OverlappingCopyRanges => 10
  end.

Definition d_res (h : N) (r : res aerr out) : N :=
  match r with
  | Ok OUnit => d_mix h 1
  | Ok (ONum n) => d_mix (d_mix h 2) n
  | Err e => d_mix (d_mix h 3) (aerr_code e)
  | Panic => d_mix h 4
  end.

(* offsets sampled in a region of length l: first, last, middle, the page borders *)
Definition d_offsets (l : N) : list N :=
  if l =? 0 then []
  else filter (fun p => p <? l) [0; l - 1; l / 2; l / 3; 255; 256; 4095; 4096; 8191; 8192].

Definition d_region (mem : N -> N) (h : N) (o : option rmeta) : N :=
  match o with
  | None => d_mix h 0
  | Some m =>
      let h := d_mix_list (d_mix h 1)
                 [r_start m; r_len m; r_reserved m; r_id m; r_state m; r_dmin m; r_dmax m] in
      d_mix_list h (map (fun p => mem (r_start m + p)) (d_offsets (r_len m)))
  end.

Definition d_slotrec (h : N) (o : option slotrec) : N :=
  match o with
  | None => d_mix h 0
  | Some (a, l, r, id) => d_mix_list (d_mix h 1) [a; l; r; id]
  end.

Definition d_state (h : N) (s : st) : N :=
  let h := fold_left (d_region (mem s)) (slots s) (d_mix h (len (slots s))) in
  let h := d_mix_pairs h (s2r s) in
  let h := d_mix_pairs h (holes s) in
  let h := fold_left (fun h kv => d_mix_list (d_mix h (fst kv)) (snd kv)) (h2s s) (d_mix h (len (h2s s))) in
  let h := d_mix_pairs h (resv s) in
  let h := d_mix_pairs h (pend s) in
  let h := fold_left d_slotrec (rfile s) (d_mix h (len (rfile s))) in
  let h := d_mix (d_mix h (file_len s)) (layout_len s) in
  d_mix_list h (held s).

(* the run stops at the first panic, like the engine *)
Fixpoint d_run (h : N) (s : st) (ops : list op) : N :=
  match ops with
  | [] => h
  | o :: rest =>
      let '(s', r) := step_total s o in
      let h := d_res h r in
      match r with
      | Panic => h
      | _ => d_run (d_state h s') s' rest
      end
  end.

Definition a_trace_digest (min_len : N) (ops : list op) : N :=
  let s0 := init min_len in d_run (d_state 14695981039346656037 s0) s0 ops.
