(* Rawdb/AllocRefine.v — C01 infrastructure: what the abstraction `abs` of an allocator state
   says about one region name, in terms of the slot function only; pointwise builders for
   `spec_eq (abs s') X`; lookup facts of the reference side (sget/sput/sdel/filter); observation
   lemmas (slot / mem / rfile_has / held) of the table primitives.  PROOF FILE. *)
From Anydb Require Import Common.Base Gen.Consts Rawdb.AMap Rawdb.Alloc Rawdb.AllocSpec Rawdb.AllocInv
  Rawdb.AllocFacts Rawdb.AMapFacts Rawdb.CoverFacts Rawdb.InvLayout Rawdb.AllocErr.

(* the one-step refinement statement of C01 *)
Definition refines_step (s : st) (o : op) : Prop :=
  spec_eq (abs (fst (step_total s o))) (fst (spec_step (abs s) o))
  /\ res_agree (snd (step_total s o)) (snd (spec_step (abs s) o)).

(* ---- sreg_eq / spec_eq are equivalences ---- *)
Lemma sreg_eq_refl a : sreg_eq a a.
Proof. repeat split. Qed.
Lemma sreg_eq_sym a b : sreg_eq a b -> sreg_eq b a.
Proof. intros (H1 & H2 & H3). repeat split; auto. intros k Hk. symmetry. apply H2. lia. Qed.
Lemma sreg_eq_trans a b c : sreg_eq a b -> sreg_eq b c -> sreg_eq a c.
Proof.
  intros (H1 & H2 & H3) (H4 & H5 & H6). repeat split; try congruence.
  intros k Hk. rewrite H2 by lia. apply H5. lia.
Qed.

Lemma spec_eq_refl a : spec_eq a a.
Proof. split; [|reflexivity]. intros id. destruct (sget id (sp_regions a)); [apply sreg_eq_refl|exact I]. Qed.
Lemma spec_eq_sym a b : spec_eq a b -> spec_eq b a.
Proof.
  intros [H1 H2]. split; [|intros id; symmetry; apply H2]. intros id. specialize (H1 id).
  destruct (sget id (sp_regions a)), (sget id (sp_regions b)); auto using sreg_eq_sym.
Qed.
Lemma spec_eq_trans a b c : spec_eq a b -> spec_eq b c -> spec_eq a c.
Proof.
  intros [H1 H2] [H3 H4]. split; [|intros id; rewrite H2; apply H4]. intros id.
  specialize (H1 id). specialize (H3 id).
  destruct (sget id (sp_regions a)), (sget id (sp_regions b)), (sget id (sp_regions c));
    try tauto; eauto using sreg_eq_trans.
Qed.

(* ---- the reference side: lookups ---- *)
Lemma sget_sdel id id' l : sget id' (sdel id l) = if id' =? id then None else sget id' l.
Proof.
  induction l as [|[k v] t IH]; cbn [sget sdel]. { destruct (id' =? id); reflexivity. }
  destruct (k =? id) eqn:E1.
  - rewrite IH. destruct (id' =? id) eqn:E2; [reflexivity|]. destruct (k =? id') eqn:E3; [lia|reflexivity].
  - cbn [sget]. rewrite IH. destruct (k =? id') eqn:E3; [|reflexivity].
    destruct (id' =? id) eqn:E2; [lia|reflexivity].
Qed.

Lemma sget_sput id id' v l : sget id' (sput id v l) = if id' =? id then Some v else sget id' l.
Proof.
  unfold sput. cbn [sget]. rewrite sget_sdel. rewrite (N.eqb_sym id id').
  destruct (id' =? id); reflexivity.
Qed.

Lemma sget_filter_key (p : N -> bool) id l :
  sget id (filter (fun kv => p (fst kv)) l) = if p id then sget id l else None.
Proof.
  induction l as [|[k v] t IH]; cbn [filter sget fst]. { destruct (p id); reflexivity. }
  destruct (p k) eqn:Ep; cbn [sget].
  - rewrite IH. destruct (k =? id) eqn:E; [|reflexivity]. assert (k = id) by lia. subst. now rewrite Ep.
  - rewrite IH. destruct (k =? id) eqn:E; [|reflexivity]. assert (k = id) by lia. subst. now rewrite Ep.
Qed.

(* ---- the abstraction, one name at a time ---- *)
Definition sview (s : st) (i : N) (m : rmeta) : sreg :=
  mkS (r_len m) (fun k => mem s (r_start m + k)) (rfile_has s i).

Definition lives (s : st) (id i : N) (m : rmeta) : Prop := slot s i = Some m /\ r_id m = id.
Definition absent (s : st) (id : N) : Prop := forall i m, slot s i = Some m -> r_id m <> id.

Lemma sget_abs_from s l id : forall i0,
  sget id (abs_from s l i0) =
  match find_id_from l id i0 with
  | Some j => match nth_opt l (N.to_nat (j - i0)) with
              | Some (Some m) => Some (sview s j m)
              | _ => None
              end
  | None => None
  end.
Proof.
  induction l as [|[m|] t IH]; intros i0; cbn [abs_from find_id_from sget]; [reflexivity| |].
  - destruct (r_id m =? id) eqn:E.
    + replace (N.to_nat (i0 - i0)) with O by lia. reflexivity.
    + rewrite IH. destruct (find_id_from t id (i0 + 1)) as [j|] eqn:Ef; [|reflexivity].
      apply find_id_from_some in Ef. destruct Ef as (_ & _ & _ & Hle).
      replace (N.to_nat (j - i0)) with (S (N.to_nat (j - (i0 + 1)))) by lia. reflexivity.
  - rewrite IH. destruct (find_id_from t id (i0 + 1)) as [j|] eqn:Ef; [|reflexivity].
    apply find_id_from_some in Ef. destruct Ef as (_ & _ & _ & Hle).
    replace (N.to_nat (j - i0)) with (S (N.to_nat (j - (i0 + 1)))) by lia. reflexivity.
Qed.

(* the abstraction of a name depends on the slot FUNCTION only (through find_id) *)
Lemma sget_abs s id :
  sget id (sp_regions (abs s)) =
  match find_id s id with
  | Some i => match slot s i with Some m => Some (sview s i m) | None => None end
  | None => None
  end.
Proof.
  unfold abs, find_id. cbn [sp_regions]. rewrite sget_abs_from.
  destruct (find_id_from (slots s) id 0) as [j|]; [|reflexivity].
  unfold slot, get. rewrite N.sub_0_r. destruct (nth_opt (slots s) (N.to_nat j)) as [[m|]|]; reflexivity.
Qed.

Lemma find_id_none_absent s id : find_id s id = None <-> absent s id.
Proof.
  split.
  - intros H i m Hs. eapply find_id_none; eauto.
  - intros H. destruct (find_id s id) as [i|] eqn:E; [|reflexivity].
    apply find_id_some in E. destruct E as (m & Hs & Hid). exfalso. exact (H i m Hs Hid).
Qed.

Lemma find_id_lives s id i m : ids_unique s -> lives s id i m -> find_id s id = Some i.
Proof.
  intros Hu [Hs Hid]. destruct (find_id s id) as [j|] eqn:E.
  - apply find_id_some in E. destruct E as (m' & Hs' & Hid'). f_equal. eapply Hu; eauto. congruence.
  - exfalso. apply find_id_none_absent in E. exact (E i m Hs Hid).
Qed.

Lemma lives_or_absent s id : (exists i m, lives s id i m) \/ absent s id.
Proof.
  destruct (find_id s id) as [i|] eqn:E.
  - left. apply find_id_some in E. destruct E as (m & Hs & Hid). exists i, m. split; assumption.
  - right. now apply find_id_none_absent.
Qed.

Lemma sget_abs_lives s id i m :
  ids_unique s -> lives s id i m -> sget id (sp_regions (abs s)) = Some (sview s i m).
Proof.
  intros Hu Hl. rewrite sget_abs, (find_id_lives s id i m Hu Hl). destruct Hl as [-> _]. reflexivity.
Qed.

Lemma sget_abs_absent s id : absent s id -> sget id (sp_regions (abs s)) = None.
Proof. intros H. rewrite sget_abs. apply find_id_none_absent in H. now rewrite H. Qed.

Lemma find_id_sget_none s id : find_id s id = None -> sget id (sp_regions (abs s)) = None.
Proof. intros H. rewrite sget_abs, H. reflexivity. Qed.

Lemma find_id_sget_some s id i :
  find_id s id = Some i -> exists m, slot s i = Some m /\ r_id m = id /\ sget id (sp_regions (abs s)) = Some (sview s i m).
Proof.
  intros H. destruct (find_id_some s id i H) as (m & Hs & Hid). exists m. rewrite sget_abs, H, Hs. auto.
Qed.

(* ---- pointwise builder for spec_eq (abs s') X ---- *)
Lemma spec_eq_by_slots s' R H :
  ids_unique s' ->
  (forall id, match sget id R with
              | Some v => exists i m, lives s' id i m /\ sreg_eq (sview s' i m) v
              | None => absent s' id
              end) ->
  (forall x, is_held s' x = existsb (fun y => y =? x) H) ->
  spec_eq (abs s') (mkSpec R H).
Proof.
  intros Hu HR HH. split; [|exact HH]. intros id. cbn [sp_regions]. specialize (HR id).
  destruct (sget id R) as [v|].
  - destruct HR as (i & m & Hl & He). rewrite (sget_abs_lives s' id i m Hu Hl). exact He.
  - rewrite (sget_abs_absent s' id HR). exact I.
Qed.

(* same-identity relation between two versions of a region's metadata *)
Definition msame (m m' : rmeta) : Prop :=
  r_start m' = r_start m /\ r_len m' = r_len m /\ r_id m' = r_id m.

(* frame: the table keeps every region's identity, the bytes of every region and the
   persistence flags; only the handle list may differ *)
Lemma spec_eq_frame s s' H :
  ids_unique s ->
  (forall j, match slot s j, slot s' j with
             | Some m, Some m' => msame m m'
             | None, None => True
             | _, _ => False
             end) ->
  (forall j m k, slot s j = Some m -> k < r_len m -> mem s' (r_start m + k) = mem s (r_start m + k)) ->
  (forall j m, slot s j = Some m -> rfile_has s' j = rfile_has s j) ->
  (forall x, is_held s' x = existsb (fun y => y =? x) H) ->
  spec_eq (abs s') (mkSpec (sp_regions (abs s)) H).
Proof.
  intros Hu Hsl Hmem Hrf HH.
  assert (Hu' : ids_unique s').
  { intros i j mi mj Hi Hj Hid. pose proof (Hsl i) as Hi0. pose proof (Hsl j) as Hj0. rewrite Hi in Hi0. rewrite Hj in Hj0.
    destruct (slot s i) as [mi0|] eqn:Ei; [|destruct Hi0]. destruct (slot s j) as [mj0|] eqn:Ej; [|destruct Hj0].
    destruct Hi0 as (_ & _ & Hi0), Hj0 as (_ & _ & Hj0). apply (Hu i j mi0 mj0 Ei Ej). congruence. }
  apply spec_eq_by_slots; auto. intros id.
  destruct (lives_or_absent s id) as [(i & m & Hl)|Ha].
  - rewrite (sget_abs_lives s id i m Hu Hl). destruct Hl as [Hs Hid].
    pose proof (Hsl i) as Hi. rewrite Hs in Hi. destruct (slot s' i) as [m'|] eqn:Es'; [|destruct Hi].
    destruct Hi as (H1 & H2 & H3). exists i, m'. split; [split; [assumption|congruence]|].
    unfold sview, sreg_eq. cbn [s_len s_data s_persisted]. split; [assumption|]. split.
    + intros k Hk. rewrite H1. apply (Hmem i m k Hs). lia.
    + apply (Hrf i m Hs).
  - rewrite (sget_abs_absent s id Ha). intros i m' Hs'. pose proof (Hsl i) as Hi. rewrite Hs' in Hi.
    destruct (slot s i) as [m|] eqn:Es; [|destruct Hi]. destruct Hi as (_ & _ & H3). rewrite H3. exact (Ha i m Es).
Qed.

(* one slot changes (possibly its name too); every other region keeps identity, bytes, flag *)
Lemma spec_eq_one_slot s s' i m m' v R H :
  ids_unique s -> slot s i = Some m ->
  (forall x, sget x R = if x =? r_id m' then Some v
                        else if x =? r_id m then None else sget x (sp_regions (abs s))) ->
  (forall x, is_held s' x = existsb (fun y => y =? x) H) ->
  (forall j, slot s' j = if j =? i then Some m' else slot s j) ->
  (r_id m' = r_id m \/ absent s (r_id m')) ->
  (forall j mj k, j <> i -> slot s j = Some mj -> k < r_len mj -> mem s' (r_start mj + k) = mem s (r_start mj + k)) ->
  (forall j mj, j <> i -> slot s j = Some mj -> rfile_has s' j = rfile_has s j) ->
  sreg_eq (sview s' i m') v ->
  spec_eq (abs s') (mkSpec R H).
Proof.
  intros Hu Hs HR HH Hsl Hid Hmem Hrf Hv.
  assert (Hu' : ids_unique s').
  { intros a b ma mb. rewrite !Hsl. destruct (a =? i) eqn:Ea, (b =? i) eqn:Eb.
    - intros _ _ _. lia.
    - intros [= <-] Hb Hab. exfalso. destruct Hid as [Hid|Hid].
      + assert (i = b) by (apply (Hu i b m mb Hs Hb); congruence). lia.
      + apply (Hid b mb Hb). congruence.
    - intros Ha [= <-] Hab. exfalso. destruct Hid as [Hid|Hid].
      + assert (a = i) by (apply (Hu a i ma m Ha Hs); congruence). lia.
      + apply (Hid a ma Ha). congruence.
    - apply Hu. }
  apply spec_eq_by_slots; auto. intros x. rewrite HR.
  destruct (x =? r_id m') eqn:E1.
  - exists i, m'. split; [|exact Hv]. split; [rewrite Hsl, N.eqb_refl; reflexivity|lia].
  - destruct (x =? r_id m) eqn:E2.
    + intros j mj. rewrite Hsl. destruct (j =? i) eqn:Ej. { intros [= <-]. lia. }
      intros Hj Hx. assert (j = i) by (apply (Hu j i mj m Hj Hs); lia). lia.
    + destruct (lives_or_absent s x) as [(j & mj & Hl)|Ha].
      * rewrite (sget_abs_lives s x j mj Hu Hl). destruct Hl as [Hj Hx].
        assert (Hne : j <> i). { intros ->. rewrite Hs in Hj. inversion Hj; subst. lia. }
        exists j, mj. split. { split; [|exact Hx]. rewrite Hsl. destruct (j =? i) eqn:Ej; [lia|exact Hj]. }
        unfold sview, sreg_eq. cbn [s_len s_data s_persisted]. split; [reflexivity|]. split.
        -- intros k Hk. apply (Hmem j mj k Hne Hj Hk).
        -- apply (Hrf j mj Hne Hj).
      * rewrite (sget_abs_absent s x Ha). intros j mj. rewrite Hsl. destruct (j =? i) eqn:Ej.
        -- intros [= <-]. lia.
        -- apply Ha.
Qed.

(* ---- observations of the table primitives ---- *)
Lemma rfile_has_set_at s rf i x j :
  rfile s = set_at rf (N.to_nat i) x None ->
  rfile_has s j = if j =? i then match x with Some _ => true | None => false end
                  else match get rf j with Some (Some _) => true | _ => false end.
Proof.
  intros E. unfold rfile_has, get. rewrite E, nth_opt_set_at.
  destruct (j =? i) eqn:Ej.
  - assert (j = i) by lia. subst. rewrite Nat.eqb_refl. reflexivity.
  - destruct (Nat.eqb (N.to_nat j) (N.to_nat i)) eqn:E2; [apply Nat.eqb_eq in E2; lia|].
    destruct (nth_opt rf (N.to_nat j)) as [[r|]|]; try reflexivity.
    destruct (Nat.ltb (N.to_nat j) (N.to_nat i)); reflexivity.
Qed.

Lemma fin_same m : msame m (fin m) /\ r_reserved (fin m) = r_reserved m.
Proof. unfold fin, msame. destruct (r_state m =? ST_WRITE); cbn; auto. Qed.

Lemma slot_wid s i j :
  slot (write_if_dirty s i) j = if j =? i then option_map fin (slot s i) else slot s j.
Proof.
  destruct (slot s i) as [m|] eqn:Hs.
  - rewrite (wid_nf s i m Hs), slot_put_slot. destruct (j =? i); reflexivity.
  - unfold write_if_dirty. rewrite Hs. destruct (j =? i) eqn:E; [|reflexivity].
    assert (j = i) by lia. subst. rewrite Hs. reflexivity.
Qed.

Lemma mem_wid s i : mem (write_if_dirty s i) = mem s.
Proof. unfold write_if_dirty. destruct (slot s i) as [m|]; [|reflexivity]. destruct (_ =? _); reflexivity. Qed.
Lemma held_wid s i : held (write_if_dirty s i) = held s.
Proof. unfold write_if_dirty. destruct (slot s i) as [m|]; [|reflexivity]. destruct (_ =? _); reflexivity. Qed.

Lemma rfile_has_wid s i j :
  rfile_has (write_if_dirty s i) j =
  if j =? i then match slot s i with
                 | Some m => (r_state m =? ST_WRITE) || rfile_has s i
                 | None => rfile_has s i
                 end
  else rfile_has s j.
Proof.
  unfold write_if_dirty. destruct (slot s i) as [m|] eqn:Hs.
  - destruct (r_state m =? ST_WRITE) eqn:Est.
    + erewrite (rfile_has_set_at _ (rfile s) i (Some (r_start m, r_len m, r_reserved m, r_id m)) j); [|reflexivity].
      destruct (j =? i); reflexivity.
    + destruct (j =? i) eqn:E; [|reflexivity]. assert (j = i) by lia. subst. reflexivity.
  - destruct (j =? i) eqn:E; [|reflexivity]. assert (j = i) by lia. subst. reflexivity.
Qed.

Lemma mem_upd s i f : mem (upd s i f) = mem s.
Proof. unfold upd. destruct (slot s i); reflexivity. Qed.
Lemma held_upd s i f : held (upd s i f) = held s.
Proof. unfold upd. destruct (slot s i); reflexivity. Qed.
Lemma rfile_upd s i f : rfile (upd s i f) = rfile s.
Proof. unfold upd. destruct (slot s i); reflexivity. Qed.
Lemma rfile_has_upd s i f j : rfile_has (upd s i f) j = rfile_has s j.
Proof. unfold rfile_has. now rewrite rfile_upd. Qed.

(* ---- the persistence flag under rfile_mirrors ---- *)
Lemma mirrors_has s i m :
  rfile_mirrors s -> slot s i = Some m -> rfile_has s i = negb (r_state m =? ST_WRITE).
Proof.
  intros Hm Hs. specialize (Hm i). rewrite Hs in Hm. unfold rfile_has.
  destruct (r_state m =? ST_WRITE); [destruct Hm as (-> & _)|rewrite Hm]; reflexivity.
Qed.

Lemma mirrors_write_len0 s i m :
  rfile_mirrors s -> slot s i = Some m -> r_state m = ST_WRITE -> r_len m = 0.
Proof.
  intros Hm Hs Hst. specialize (Hm i). rewrite Hs, Hst, N.eqb_refl in Hm. tauto.
Qed.

Lemma mirrors_none s i : rfile_mirrors s -> slot s i = None -> rfile_has s i = false.
Proof.
  intros Hm Hs. specialize (Hm i). rewrite Hs in Hm. unfold rfile_has. destruct Hm as [-> | ->]; reflexivity.
Qed.

(* setters: field effects *)
Lemma m_set_len_len m v : r_len (m_set_len m v) = v.
Proof. unfold m_set_len. destruct (r_len m =? v) eqn:E; cbn; lia. Qed.
Lemma m_set_len_other m v :
  r_start (m_set_len m v) = r_start m /\ r_id (m_set_len m v) = r_id m /\ r_reserved (m_set_len m v) = r_reserved m.
Proof. unfold m_set_len. destruct (r_len m =? v); cbn; auto. Qed.
Lemma m_set_len_state m v :
  r_state (m_set_len m v) = if r_len m =? v then r_state m else ST_WRITE.
Proof. unfold m_set_len. destruct (r_len m =? v); reflexivity. Qed.

Lemma m_set_reserved_fields m v :
  r_start (m_set_reserved m v) = r_start m /\ r_id (m_set_reserved m v) = r_id m
  /\ r_len (m_set_reserved m v) = r_len m /\ r_reserved (m_set_reserved m v) = v.
Proof. unfold m_set_reserved. destruct (r_reserved m =? v) eqn:E; cbn; repeat split; lia. Qed.
Lemma m_set_reserved_state m v :
  r_state (m_set_reserved m v) = if r_reserved m =? v then r_state m else ST_WRITE.
Proof. unfold m_set_reserved. destruct (r_reserved m =? v); reflexivity. Qed.

Lemma m_set_start_fields m v :
  r_start (m_set_start m v) = v /\ r_id (m_set_start m v) = r_id m
  /\ r_len (m_set_start m v) = r_len m /\ r_reserved (m_set_start m v) = r_reserved m.
Proof. unfold m_set_start. destruct (r_start m =? v) eqn:E; cbn; repeat split; lia. Qed.
Lemma m_set_start_state m v :
  r_state (m_set_start m v) = if r_start m =? v then r_state m else ST_WRITE.
Proof. unfold m_set_start. destruct (r_start m =? v); reflexivity. Qed.

Lemma m_set_id_fields m v :
  r_start (m_set_id m v) = r_start m /\ r_id (m_set_id m v) = v
  /\ r_len (m_set_id m v) = r_len m /\ r_reserved (m_set_id m v) = r_reserved m.
Proof. unfold m_set_id. destruct (r_id m =? v) eqn:E; cbn; repeat split; lia. Qed.
Lemma m_set_id_state m v :
  r_state (m_set_id m v) = if r_id m =? v then r_state m else ST_WRITE.
Proof. unfold m_set_id. destruct (r_id m =? v); reflexivity. Qed.

(* is_held is a function of the handle list *)
Lemma is_held_eq s s' : held s' = held s -> forall x, is_held s' x = is_held s x.
Proof. intros E x. unfold is_held. now rewrite E. Qed.
