(* Rawdb/InvStep.v — C02 assembled: every step preserves Inv (no side condition), reachable
   states satisfy it, the explicit corollaries, the reuse clause; the C13 witness; C01/C12
   corollaries over runs.  PROOF FILE. *)
From Anydb Require Import Common.Base Gen.Consts Rawdb.AMap Rawdb.Alloc Rawdb.AllocSpec Rawdb.AllocInv Rawdb.AllocFacts
  Rawdb.AMapFacts Rawdb.CoverFacts Rawdb.InvLayout Rawdb.AllocErr Rawdb.HolesFacts Rawdb.AllocNoPanic
  Rawdb.InvOps Rawdb.InvRemove Rawdb.InvCreate Rawdb.InvWrite Rawdb.InvWrite2.
From Anydb Require Rawdb.InvFlush Rawdb.InvReopen Rawdb.CompactFacts Rawdb.AllocRefine Rawdb.AllocRefineC Rawdb.AllocRefineAll Rawdb.SpecCongr.

Definition step_post (s : st) (x : ares (st * out)) : Prop :=
  match x with
  | AOk (s', _) => Inv s' /\ reuse_ok s s'
  | AErr s' _ => Inv s' /\ reuse_ok s s'
  | APanic => True
  end.

Lemma step_post_same s s' r : Inv s' -> layout_len s' = layout_len s -> step_post s (AOk (s', r)).
Proof. intros H1 H2. split; [exact H1|]. now apply reuse_ok_same_len. Qed.

Lemma inv_step_post s o : Inv s -> step_post s (step s o).
Proof.
  intros HI.
  assert (Hself : Inv s /\ reuse_ok s s) by (split; [exact HI|now apply reuse_ok_same_len]).
  destruct o; cbn [step]; unfold with_region.
  - destruct (create s id hold) as [[s' r]|s' e|] eqn:E; [| |exact I].
    + eapply inv_create; eauto.
    + exfalso. eapply create_no_err; eauto.
  - destruct (find_id s id); [apply inv_write_with; exact HI|exact Hself].
  - destruct (find_id s id); [apply inv_write_with; exact HI|exact Hself].
  - destruct (find_id s id); [apply inv_write_with; exact HI|exact Hself].
  - destruct (find_id s id) as [i|]; [|exact Hself].
    destruct (truncate s i from) as [[s' r]|s' e|] eqn:E; [| |exact I].
    + destruct (inv_truncate s i from s' r HI E). now apply step_post_same.
    + revert E. unfold truncate. destruct (slot s i) as [m|]; [|intros [= <- _]; exact Hself].
      destruct (from =? r_len m); [discriminate|]. destruct (r_len m <? from); [intros [= <- _]; exact Hself|].
      destruct (negb _); discriminate.
  - destruct (find_id s id) as [i|]; [|exact Hself].
    destruct (rename s i new_id) as [[s' r]|s' e|] eqn:E; [| |exact I].
    + destruct (inv_rename s i new_id s' r HI E). now apply step_post_same.
    + revert E. unfold rename. destruct (slot s i); [|intros [= <- _]; exact Hself].
      destruct (find_id s new_id); [intros [= <- _]; exact Hself|discriminate].
  - pose proof (inv_remove s id HI) as H. destruct (remove s id) as [[s' r]|s' e|]; [| |exact I];
      destruct H as [H1 H2]; (split; [exact H1|now apply reuse_ok_same_len]).
  - apply step_post_same; [apply inv_set_held; exact HI|reflexivity].
  - pose proof (inv_retain s keep HI) as H. destruct (retain s keep) as [[s' r]|s' e|]; [| |exact I];
      destruct H as [H1 H2]; (split; [exact H1|now apply reuse_ok_same_len]).
  - destruct (InvFlush.inv_flush s HI) as [H1 H2]. destruct (flush s) as [s1 n]. cbn [fst] in H1, H2.
    now apply step_post_same.
  - destruct (find_id s id) as [i|]; [|exact Hself].
    pose proof (inv_flush_region s i HI) as H. destruct (flush_region s i) as [[s' r]|s' e|]; [| |exact I];
      destruct H as [H1 H2]; (split; [exact H1|now apply reuse_ok_same_len]).
  - destruct (InvFlush.inv_flush s HI) as [H1 H2]. unfold compact. destruct (flush s) as [s1 n]. cbn [fst] in H1, H2.
    destruct (inv_set_mem s1 (fold_left (fun m r => mem_zero m (fst r) (snd r)) (punch_ranges s1) (mem s1)) H1) as [H3 H4].
    apply step_post_same; [exact H3|congruence].
  - destruct (reopen s) as [[s' r]|s' e|] eqn:E; [| |exact I].
    + split; [eapply InvReopen.inv_reopen; eauto|]. apply reuse_ok_no_move. intros j mj' Hj.
      destruct (InvReopen.reopen_slot_sub s s' r j mj' HI E Hj) as (mj & Hmj & _ & ->). exists mj. split; [exact Hmj|reflexivity].
    + revert E. unfold reopen. destruct (gaps _ _ _ _); discriminate.
  - apply step_post_same; apply inv_set_min_len; exact HI.
  - apply step_post_same; apply inv_set_min_regions; exact HI.
Qed.

Theorem inv_step s o : Inv s -> Inv (fst (step_total s o)).
Proof.
  intros HI. pose proof (inv_step_post s o HI) as H. unfold step_total.
  destruct (step s o) as [[s' r]|s' e|]; cbn [fst]; [apply H|apply H|exact HI].
Qed.

Theorem inv_run ops : forall s, Inv s -> Inv (run s ops).
Proof.
  unfold run. induction ops as [|o ops IH]; intros s HI; cbn [fold_left]; [exact HI|].
  apply IH. now apply inv_step.
Qed.

Theorem inv_reachable min_len ops : Inv (run (init min_len) ops).
Proof. apply inv_run. apply inv_init. Qed.

Theorem step_reuse s o s' r i m' :
  Inv s -> step s o = AOk (s', r) -> placed s s' i -> slot s' i = Some m' -> has_hole_for s (r_reserved m') ->
  layout_len s' = layout_len s.
Proof.
  intros HI E Hp Hs Hh. pose proof (inv_step_post s o HI) as H. rewrite E in H. destruct H as [_ H]. eapply H; eauto.
Qed.

(* ---- the property text made explicit ---- *)
Theorem inv_regions_disjoint s i j mi mj :
  Inv s -> i <> j -> slot s i = Some mi -> slot s j = Some mj ->
  r_start mi + r_reserved mi <= r_start mj \/ r_start mj + r_reserved mj <= r_start mi.
Proof. apply CompactFacts.region_region_disjoint. Qed.

Theorem inv_region_shape s i m :
  Inv s -> slot s i = Some m ->
  r_start m mod PAGE_SIZE = 0 /\ r_reserved m mod PAGE_SIZE = 0 /\ 0 < r_reserved m /\
  r_len m <= r_reserved m /\ r_start m + r_reserved m <= file_len s.
Proof.
  intros HI Hs. destruct (inv_region_aligned s i m HI Hs) as (A1 & A2 & A3). cbn [fst snd rext] in A1, A2, A3.
  destruct (inv_len s HI i m Hs) as [Hl _]. pose proof (region_end_le s i m HI Hs). pose proof (inv_file s HI).
  repeat split; auto. lia.
Qed.

Theorem inv_exact_cover s a : Inv s -> owners (extents s) a = if a <? layout_len s then 1%nat else 0%nat.
Proof. intros HI. apply (inv_cover s HI). Qed.

(* ---- C13: the full statement, every operation (retain_regions checks all candidates before
   removing anything since fix 881ef86) ---- *)
Definition c13_full : Prop :=
  forall s o s' e, Inv s -> step s o = AErr s' e -> e <> RegionMetadataUnwritten -> s' = s.

Theorem c13_full_proved : c13_full.
Proof. exact c13_rawdb. Qed.

(* ---- C01 over runs ---- *)
Inductive ops_ok : st -> list op -> Prop :=
| ops_ok_nil s : ops_ok s []
| ops_ok_cons s o ops :
    AllocNoPanic.op_fits_strong s o -> ops_ok (fst (step_total s o)) ops -> ops_ok s (o :: ops).

(* trace form: every step of the history refines the reference applied to the abstraction of
   the state it starts from *)
Theorem refines_run ops : forall s, Inv s -> ops_ok s ops ->
  forall pre o post, ops = pre ++ o :: post -> AllocRefine.refines_step (run s pre) o.
Proof.
  induction ops as [|o0 ops IH]; intros s HI Hok pre o post E.
  - destruct pre; discriminate.
  - inversion Hok as [|s1 o1 ops1 Hf Hrest]; subst. destruct pre as [|p pre]; cbn [app] in E; inversion E; subst.
    + unfold run. cbn [fold_left]. now apply AllocRefineAll.c01_refines_step_strong.
    + unfold run. cbn [fold_left]. apply (IH (fst (step_total s p)) (inv_step s p HI) Hrest pre o post eq_refl).
Qed.

(* single-run form: ONE reference run started from the abstraction of the initial state
   simulates the whole history, with stepwise agreeing results *)
Fixpoint run_results (s : st) (ops : list op) : list (res aerr out) :=
  match ops with
  | [] => []
  | o :: t => snd (step_total s o) :: run_results (fst (step_total s o)) t
  end.

Lemma run_cons s o ops : run s (o :: ops) = run (fst (step_total s o)) ops.
Proof. reflexivity. Qed.

Theorem refines_run_single ops : forall s, Inv s -> ops_ok s ops ->
  spec_eq (abs (run s ops)) (SpecCongr.spec_run (abs s) ops) /\
  Forall2 res_agree (run_results s ops) (SpecCongr.spec_results (abs s) ops).
Proof.
  induction ops as [|o ops IH]; intros s HI Hok.
  - split; [apply AllocRefine.spec_eq_refl|constructor].
  - inversion Hok as [|s1 o1 ops1 Hf Hrest]; subst.
    destruct (AllocRefineAll.c01_refines_step_strong s o HI Hf) as [Hst Hres].
    pose proof (inv_step s o HI) as HI1.
    destruct (IH _ HI1 Hrest) as [IH1 IH2].
    destruct (SpecCongr.spec_run_congr ops (abs (fst (step_total s o))) (fst (spec_step (abs s) o))) as [C1 C2].
    + now apply AllocRefineC.abs_wf.
    + apply SpecCongr.spec_step_wf. now apply AllocRefineC.abs_wf.
    + exact Hst.
    + rewrite run_cons. cbn [SpecCongr.spec_run SpecCongr.spec_results run_results]. split.
      * eapply AllocRefine.spec_eq_trans; eauto.
      * constructor; [exact Hres|]. rewrite <- C2. exact IH2.
Qed.

Theorem refines_reopen s :
  Inv s ->
  spec_eq (abs (fst (step_total s Reopen)))
          (mkSpec (filter (fun kv => s_persisted (snd kv)) (sp_regions (abs s))) []).
Proof.
  intros HI. destruct (AllocRefineAll.c01_refines_step_strong s Reopen HI) as [H _]; [split; exact I|exact H].
Qed.

Theorem never_panics s o : Inv s -> AllocNoPanic.op_fits_strong s o -> step s o <> APanic.
Proof.
  intros HI Hf. destruct o; try (apply AllocNoPanic.no_panic; auto; discriminate).
  cbn [step]. now apply InvReopen.reopen_no_panic.
Qed.

(* ---- C12 ---- *)
Theorem compact_abs s : Inv s -> spec_eq (abs (fst (compact s))) (abs s).
Proof. intros HI. apply CompactFacts.compact_abs_aux. apply (InvFlush.inv_flush s HI). Qed.

Theorem punch_disjoint_flush s :
  Inv s -> forall r, In r (punch_ranges (fst (flush s))) ->
  (forall i m, slot (fst (flush s)) i = Some m -> fst r + snd r <= r_start m \/ r_start m + r_len m <= fst r) /\
  ((exists a z, aget a (holes (fst (flush s))) = Some z /\ r = (a, z)) \/
   (exists i m, slot (fst (flush s)) i = Some m /\ r_start m + ceil_page (r_len m) <= fst r /\
                fst r + snd r <= r_start m + r_reserved m)).
Proof. intros HI. apply CompactFacts.punch_disjoint. apply (InvFlush.inv_flush s HI). Qed.
