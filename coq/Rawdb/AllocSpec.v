(* Rawdb/AllocSpec.v — the abstract specification of rawdb that C01 refines to: one
   independent byte vector per region name, nothing else.  Short enough to read in minutes. *)
From Anydb Require Import Common.Base Rawdb.AMap Rawdb.Alloc.

Record sreg := mkS {
  s_len : N;
  s_data : N -> N;          (* meaningful below s_len only *)
  s_persisted : bool        (* has the region ever changed length or been renamed? *)
}.

Record spec := mkSpec {
  sp_regions : list (N * sreg);     (* association list keyed by region id, keys unique *)
  sp_held : list N
}.

Fixpoint sget (id : N) (l : list (N * sreg)) : option sreg :=
  match l with [] => None | (k, v) :: t => if k =? id then Some v else sget id t end.
Fixpoint sdel (id : N) (l : list (N * sreg)) : list (N * sreg) :=
  match l with [] => [] | (k, v) :: t => if k =? id then sdel id t else (k, v) :: sdel id t end.
Definition sput (id : N) (v : sreg) (l : list (N * sreg)) : list (N * sreg) := (id, v) :: sdel id l.

Definition sp_init : spec := mkSpec [] [].

Definition s_write (r : sreg) (f : N -> N) (n : N) (at_ : option N) (truncate : bool) : res aerr sreg :=
  match at_ with
  | None =>
      Ok (mkS (s_len r + n) (fun k => if k <? s_len r then s_data r k else f (k - s_len r))
              (s_persisted r || negb (n =? 0)))
  | Some a =>
      if s_len r <? a then Err WriteOutOfBounds else
      let new_len := if truncate then a + n else N.max (a + n) (s_len r) in
      Ok (mkS new_len (fun k => if (a <=? k) && (k <? a + n) then f (k - a) else s_data r k)
              (s_persisted r || negb (new_len =? s_len r)))
  end.

Definition sp_is_held (sp : spec) (id : N) : bool := existsb (fun x => x =? id) (sp_held sp).

(* the reference semantics of one operation: result and new reference state; a refused
   request changes nothing *)
Definition spec_step (sp : spec) (o : op) : spec * res aerr out :=
  let upd_reg id v := mkSpec (sput id v (sp_regions sp)) (sp_held sp) in
  let wr id f n at_ tr :=
    match sget id (sp_regions sp) with
    | None => (sp, Err RegionNotFound)
    | Some r => match s_write r f n at_ tr with
                | Ok r' => (upd_reg id r', Ok OUnit)
                | Err e => (sp, Err e)
                | Panic => (sp, Panic)
                end
    end in
  match o with
  | Create id hold =>
      let h := if hold then id :: sp_held sp else sp_held sp in
      match sget id (sp_regions sp) with
      | Some _ => (mkSpec (sp_regions sp) h, Ok OUnit)
      | None => (mkSpec (sput id (mkS 0 (fun _ => 0) false) (sp_regions sp)) h, Ok OUnit)
      end
  | Write id f n => wr id f n None false
  | WriteAt id f n a => wr id f n (Some a) false
  | TruncWrite id f n a => wr id f n (Some a) true
  | Truncate id from =>
      match sget id (sp_regions sp) with
      | None => (sp, Err RegionNotFound)
      | Some r =>
          if s_len r <? from then (sp, Err TruncateInvalid)
          else (upd_reg id (mkS from (s_data r) (s_persisted r || negb (from =? s_len r))), Ok OUnit)
      end
  | Rename id new_id =>
      match sget id (sp_regions sp) with
      | None => (sp, Err RegionNotFound)
      | Some r =>
          match sget new_id (sp_regions sp) with
          | Some _ => (sp, Err RegionAlreadyExists)
          | None =>
              (mkSpec (sput new_id (mkS (s_len r) (s_data r) true) (sdel id (sp_regions sp)))
                      (map (fun x => if x =? id then new_id else x) (sp_held sp)), Ok OUnit)
          end
      end
  | Remove id =>
      match sget id (sp_regions sp) with
      | None => (sp, Err RegionNotFound)
      | Some _ =>
          if sp_is_held sp id then (sp, Err RegionStillReferenced)
          else (mkSpec (sdel id (sp_regions sp)) (sp_held sp), Ok OUnit)
      end
  | DropHandle id => (mkSpec (sp_regions sp) (filter (fun x => negb (x =? id)) (sp_held sp)), Ok OUnit)
  | Retain keep =>
      (* refused as a whole, with no effect, when a region outside `keep` is still held *)
      if existsb (fun kv => negb (existsb (fun y => y =? fst kv) keep) && sp_is_held sp (fst kv)) (sp_regions sp)
      then (sp, Err RegionStillReferenced) else
      (mkSpec (filter (fun kv => existsb (fun y => y =? fst kv) keep) (sp_regions sp))
              (filter (fun x => existsb (fun y => y =? x) keep) (sp_held sp)), Ok OUnit)
  | Flush => (sp, Ok OUnit)            (* the count returned by flush is not part of the reference *)
  | FlushRegion id =>
      match sget id (sp_regions sp) with
      | None => (sp, Err RegionNotFound)
      | Some r => (sp, if s_persisted r then Ok OUnit else Err RegionMetadataUnwritten)
      end
  | Compact => (sp, Ok OUnit)
  | Reopen => (mkSpec (filter (fun kv => s_persisted (snd kv)) (sp_regions sp)) [], Ok OUnit)
  | SetMinLen _ => (sp, Ok OUnit)
  | SetMinRegions _ => (sp, Ok OUnit)
  end.

(* ---- abstraction of the concrete allocator state ------------------------------------------- *)
Definition rfile_has (s : st) (i : N) : bool :=
  match get (rfile s) i with Some (Some _) => true | _ => false end.

Fixpoint abs_from (s : st) (l : list (option rmeta)) (i : N) : list (N * sreg) :=
  match l with
  | [] => []
  | Some m :: t =>
      (r_id m, mkS (r_len m) (fun k => mem s (r_start m + k)) (rfile_has s i)) :: abs_from s t (i + 1)
  | None :: t => abs_from s t (i + 1)
  end.
Definition abs (s : st) : spec := mkSpec (abs_from s (slots s) 0) (held s).

(* extensional equality of reference states: same ids, same lengths, same bytes below the
   length, same persistence flag, same handle set (as sets) *)
Definition sreg_eq (a b : sreg) : Prop :=
  s_len a = s_len b /\ (forall k, k < s_len a -> s_data a k = s_data b k) /\ s_persisted a = s_persisted b.
Definition spec_eq (a b : spec) : Prop :=
  (forall id, match sget id (sp_regions a), sget id (sp_regions b) with
              | Some x, Some y => sreg_eq x y
              | None, None => True
              | _, _ => False
              end)
  /\ (forall id, sp_is_held a id = sp_is_held b id).

(* results agree up to the number returned by flush / region flush *)
Definition res_agree (r1 r2 : res aerr out) : Prop :=
  match r1, r2 with
  | Ok _, Ok _ => True
  | Err e1, Err e2 => e1 = e2
  | Panic, Panic => True
  | _, _ => False
  end.

(* the side condition under which Retain is specified *)
Definition op_defined (s : st) (o : op) : Prop :=
  match o with
  | Retain keep => forall id, is_held s id = true -> existsb (fun y => y =? id) keep = true
  | _ => True
  end.
