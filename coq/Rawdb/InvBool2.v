(* Rawdb/InvBool2.v — completeness of the boolean checker of InvBool.v: `Inv s -> inv_b s = true`,
   hence `inv_b s = true <-> Inv s` and a `false` verdict on a real state is a proven violation
   of `Inv`.  PROOF FILE. *)
From Anydb Require Import Common.Base Gen.Consts Rawdb.AMap Rawdb.Alloc Rawdb.AllocInv
  Rawdb.AMapFacts Rawdb.CoverFacts Rawdb.InvLayout Rawdb.InvBool.

(* ---- generic helpers ---------------------------------------------------------------------- *)
Lemma in_nth_opt {A} (l : list A) x : In x l -> exists n, nth_opt l n = Some x.
Proof.
  induction l as [|h t IH]; intros HI; [destruct HI|]. destruct HI as [->|HI].
  - exists O. reflexivity.
  - destruct (IH HI) as [n Hn]. exists (S n). exact Hn.
Qed.

Lemma in_slot s m : In (Some m) (slots s) -> exists i, slot s i = Some m.
Proof.
  intros HI. destruct (in_nth_opt _ _ HI) as [n Hn]. exists (N.of_nat n).
  apply slot_nth. rewrite Nat2N.id. exact Hn.
Qed.

Lemma forallb_i_complete {A} (f : N -> A -> bool) l i0 :
  (forall n x, nth_opt l n = Some x -> f (i0 + N.of_nat n) x = true) -> forallb_i f l i0 = true.
Proof.
  revert i0. induction l as [|h t IH]; intros i0 H; cbn [forallb_i]; [reflexivity|].
  apply andb_true_intro. split.
  - specialize (H O h eq_refl). replace (i0 + N.of_nat 0) with i0 in H by lia. exact H.
  - apply IH. intros n x Hn. specialize (H (S n) x Hn).
    replace (i0 + N.of_nat (S n)) with (i0 + 1 + N.of_nat n) in H by lia. exact H.
Qed.

Lemma nodup_b_complete l : NoDup l -> nodup_b l = true.
Proof.
  induction 1 as [|x l Hni Hnd IH]; cbn [nodup_b]; [reflexivity|]. rewrite IH.
  destruct (mem_b x l) eqn:E; [|reflexivity]. apply mem_b_in in E. contradiction.
Qed.

(* ---- sorted ------------------------------------------------------------------------------- *)
Lemma asorted_b_complete {V} (m : amap V) : asorted m -> asorted_b m = true.
Proof.
  induction m as [|[k v] t IH]; [reflexivity|]. cbn [asorted asorted_b]. intros [H1 H2].
  rewrite (IH H2). destruct t as [|[k' v'] t']; [reflexivity|]. rewrite andb_true_r.
  apply N.ltb_lt. exact H1.
Qed.

Lemma sorted_b_complete s :
  asorted (s2r s) /\ asorted (holes s) /\ asorted (pend s) /\ asorted (resv s) /\ asorted (h2s s) ->
  sorted_b s = true.
Proof.
  intros (H1 & H2 & H3 & H4 & H5). unfold sorted_b.
  rewrite !asorted_b_complete by assumption. reflexivity.
Qed.

(* ---- aligned ------------------------------------------------------------------------------ *)
Lemma aligned_b_complete s : Forall aligned (extents s) -> aligned_b s = true.
Proof.
  unfold aligned_b. rewrite Forall_forall, forallb_forall. intros H e HI.
  destruct (H e HI) as (H1 & H2 & H3). unfold aligned1_b. rewrite H1, H2.
  apply N.ltb_lt in H3. rewrite H3. reflexivity.
Qed.

(* ---- cover -------------------------------------------------------------------------------- *)
Fixpoint esorted (l : list ext) : Prop :=
  match l with
  | [] => True
  | e :: t => (forall x, In x t -> fst e <= fst x) /\ esorted t
  end.

Lemma in_ins_ext x e l : In x (ins_ext e l) <-> x = e \/ In x l.
Proof.
  induction l as [|y t IH]; cbn [ins_ext].
  - cbn [In]. split; (intros [H|[]]; left; auto).
  - destruct (fst e <=? fst y).
    + cbn [In]. split; (intros [H|H]; auto).
    + cbn [In]. rewrite IH. split; intros H; intuition auto.
Qed.

Lemma in_sort_ext x l : In x (sort_ext l) <-> In x l.
Proof.
  induction l as [|e t IH]; cbn [sort_ext]; [tauto|]. rewrite in_ins_ext, IH. cbn [In].
  split; (intros [H|H]; auto).
Qed.

Lemma esorted_ins e l : esorted l -> esorted (ins_ext e l).
Proof.
  induction l as [|y t IH]; cbn [ins_ext]; intros Hs.
  - cbn [esorted]. split; [intros x []|exact I].
  - cbn [esorted] in Hs. destruct Hs as [H1 H2]. destruct (fst e <=? fst y) eqn:E.
    + cbn [esorted]. split; [|split; assumption].
      intros x [<-|HI]; [lia|]. specialize (H1 _ HI). lia.
    + cbn [esorted]. split; [|auto]. intros x HI. apply in_ins_ext in HI.
      destruct HI as [->|HI]; [lia|auto].
Qed.

Lemma esorted_sort l : esorted (sort_ext l).
Proof. induction l as [|e t IH]; cbn [sort_ext]; [exact I|]. apply esorted_ins. exact IH. Qed.

Lemma tiles_complete l :
  forall p L, esorted l -> (forall e, In e l -> 0 < snd e) -> p <= L ->
    (forall a, owners l a = if (p <=? a) && (a <? L) then 1%nat else 0%nat) ->
    tiles l p = Some L.
Proof.
  induction l as [|[a0 z] t IH]; intros p L Hs Hpos Hle Ho; cbn [tiles].
  - f_equal. destruct (N.eq_dec p L) as [|Hne]; [assumption|]. specialize (Ho p).
    rewrite owners_nil in Ho. destruct ((p <=? p) && (p <? L)) eqn:E; [discriminate|lia].
  - cbn [esorted] in Hs. destruct Hs as [Hlb Hs].
    assert (Hz : 0 < z) by (apply (Hpos (a0, z)); left; reflexivity).
    assert (Ha0 : a0 = p).
    { pose proof (Ho a0) as H0. rewrite owners_cons in H0.
      rewrite (cov_true (a0, z)) in H0 by (unfold covers; cbn [fst snd]; lia).
      destruct ((p <=? a0) && (a0 <? L)) eqn:E0; [|lia].
      destruct (N.eq_dec a0 p) as [|Hne]; [assumption|exfalso].
      pose proof (Ho p) as Hp. destruct ((p <=? p) && (p <? L)) eqn:Ep; [|lia].
      destruct (owners_pos_ex (@cons ext (a0, z) t) p) as (e & HI & Hc); [lia|].
      unfold covers in Hc. destruct HI as [<-|HI]; [cbn [fst snd] in Hc; lia|].
      specialize (Hlb _ HI). cbn [fst] in Hlb. lia. }
    subst a0.
    assert (Hend : p + z <= L).
    { pose proof (Ho (p + z - 1)) as H1. rewrite owners_cons in H1.
      rewrite (cov_true (p, z)) in H1 by (unfold covers; cbn [fst snd]; lia).
      destruct ((p <=? p + z - 1) && (p + z - 1 <? L)) eqn:E; lia. }
    replace ((p =? p) && (0 <? z)) with true by lia.
    apply IH; auto.
    { intros e HI. apply Hpos. right. exact HI. }
    intros a. specialize (Ho a). rewrite owners_cons in Ho. unfold cov, covers in Ho.
    cbn [fst snd] in Ho.
    destruct ((p <=? a) && (a <? p + z)) eqn:E1; destruct ((p <=? a) && (a <? L)) eqn:E2;
      destruct ((p + z <=? a) && (a <? L)) eqn:E3; lia.
Qed.

Lemma cover_b_complete s :
  Forall aligned (extents s) ->
  (forall a, owners (extents s) a = if a <? layout_len s then 1%nat else 0%nat) ->
  cover_b s = true.
Proof.
  intros Hal Hc. unfold cover_b. rewrite layout_lenN_eq.
  rewrite (tiles_complete (sort_ext (extents s)) 0 (layout_len s)).
  - apply N.eqb_refl.
  - apply esorted_sort.
  - intros e HI. apply (proj1 (in_sort_ext _ _)) in HI. rewrite Forall_forall in Hal.
    destruct (Hal e HI) as (_ & _ & H). exact H.
  - lia.
  - intros a. rewrite owners_sort, Hc.
    destruct ((0 <=? a) && (a <? layout_len s)) eqn:E2; destruct (a <? layout_len s) eqn:E1;
      try reflexivity; lia.
Qed.

(* ---- len ---------------------------------------------------------------------------------- *)
Lemma len_b_complete s :
  (forall i m, slot s i = Some m -> r_len m <= r_reserved m /\ r_reserved m <= MAX_RESERVED_SIZE) ->
  len_b s = true.
Proof.
  intros H. unfold len_b. apply forallb_forall. intros [m|] HI; [|reflexivity].
  destruct (in_slot _ _ HI) as [i Hi]. destruct (H _ _ Hi) as [H1 H2]. cbn [len1_b].
  apply N.leb_le in H1, H2. rewrite H1, H2. reflexivity.
Qed.

(* ---- s2r ---------------------------------------------------------------------------------- *)
Lemma s2r_b_complete s :
  asorted (s2r s) ->
  (forall a i, aget a (s2r s) = Some i <-> exists m, slot s i = Some m /\ r_start m = a) ->
  s2r_b s = true.
Proof.
  intros Hs Hm. unfold s2r_b. apply andb_true_intro. split.
  - apply forallb_forall. intros [a i] HI. unfold s2r_fwd1_b. cbn [fst snd]. rewrite slotN_eq.
    destruct (proj1 (Hm a i) (in_aget _ _ _ Hs HI)) as (m & Hsl & Ha). rewrite Hsl. lia.
  - apply forallb_i_complete. intros n [m|] Hn; cbn [s2r_bwd1_b]; [|reflexivity].
    assert (Hg : aget (r_start m) (s2r s) = Some (N.of_nat n)).
    { apply Hm. exists m. split; [|reflexivity]. apply slot_nth. rewrite Nat2N.id. exact Hn. }
    rewrite Hg. lia.
Qed.

(* ---- h2s ---------------------------------------------------------------------------------- *)
Lemma h2s_b_complete s : asorted (holes s) -> asorted (h2s s) -> h2s_agrees s -> h2s_b s = true.
Proof.
  intros Hsh Hsq [Hag Hne]. unfold h2s_b. apply andb_true_intro. split; apply forallb_forall.
  - intros [start size] HI. unfold h2s_fwd1_b. cbn [fst snd].
    destruct (proj1 (Hag start size) (in_aget _ _ _ Hsh HI)) as (l & Hl & HIl). rewrite Hl.
    apply mem_b_in. exact HIl.
  - intros [size l] HI. pose proof (in_aget _ _ _ Hsq HI) as Hg. destruct (Hne _ _ Hg) as [H1 H2].
    unfold h2s_bwd1_b. cbn [fst snd]. rewrite (nodup_b_complete _ H2).
    assert (Hall : forallb (fun start => match aget start (holes s) with
                                         | Some z => z =? size | None => false end) l = true).
    { apply forallb_forall. intros start HIs.
      assert (Hx : aget start (holes s) = Some size) by (apply Hag; eauto).
      rewrite Hx. apply N.eqb_refl. }
    rewrite Hall. destruct l; [congruence|reflexivity].
Qed.

(* ---- no adjacent holes -------------------------------------------------------------------- *)
Lemma noadj_b_complete s :
  asorted (holes s) ->
  (forall a z a' z', aget a (holes s) = Some z -> aget a' (holes s) = Some z' -> a + z <> a') ->
  noadj_b s = true.
Proof.
  intros Hs H. unfold noadj_b. apply forallb_forall. intros [a z] HI. apply forallb_forall.
  intros [a' z'] HI'. cbn [fst snd].
  specialize (H a z a' z' (in_aget _ _ _ Hs HI) (in_aget _ _ _ Hs HI')). lia.
Qed.

(* ---- file --------------------------------------------------------------------------------- *)
Lemma file_b_complete s : layout_len s <= file_len s -> file_b s = true.
Proof. unfold file_b. rewrite layout_lenN_eq. apply N.leb_le. Qed.

(* ---- ids ---------------------------------------------------------------------------------- *)
Lemma in_live_ids l id :
  In id (live_ids l) -> exists n m, nth_opt l n = Some (Some m) /\ r_id m = id.
Proof.
  induction l as [|[m0|] t IH]; cbn [live_ids].
  - intros [].
  - intros [<-|HI]; [exists O, m0; split; reflexivity|].
    destruct (IH HI) as (n & m & H1 & H2). exists (S n), m. split; assumption.
  - intros HI. destruct (IH HI) as (n & m & H1 & H2). exists (S n), m. split; assumption.
Qed.

Lemma live_ids_nodup l :
  (forall n1 n2 m1 m2, nth_opt l n1 = Some (Some m1) -> nth_opt l n2 = Some (Some m2) ->
                       r_id m1 = r_id m2 -> n1 = n2) ->
  NoDup (live_ids l).
Proof.
  induction l as [|[m0|] t IH]; intros H; cbn [live_ids].
  - constructor.
  - constructor.
    + intros HI. apply in_live_ids in HI. destruct HI as (n & m & H1 & H2).
      specialize (H O (S n) m0 m eq_refl H1 (eq_sym H2)). discriminate.
    + apply IH. intros n1 n2 m1 m2 H1 H2 He. specialize (H (S n1) (S n2) m1 m2 H1 H2 He). lia.
  - apply IH. intros n1 n2 m1 m2 H1 H2 He. specialize (H (S n1) (S n2) m1 m2 H1 H2 He). lia.
Qed.

Lemma ids_b_complete s : ids_unique s -> ids_b s = true.
Proof.
  intros Hu. unfold ids_b. apply nodup_b_complete, live_ids_nodup. intros n1 n2 m1 m2 H1 H2 He.
  specialize (Hu (N.of_nat n1) (N.of_nat n2) m1 m2). rewrite !slot_nth, !Nat2N.id in Hu.
  specialize (Hu H1 H2 He). lia.
Qed.

(* ---- rfile -------------------------------------------------------------------------------- *)
Lemma srec_eqb_refl x : srec_eqb x x = true.
Proof. destruct x as [[[a b] c] d]. cbn [srec_eqb]. rewrite !N.eqb_refl. reflexivity. Qed.

Lemma rfile_walk_complete sl :
  forall rf, (forall n, rf1_b (flat (nth_opt sl n)) (nth_opt rf n) = true) -> rfile_walk sl rf = true.
Proof.
  induction sl as [|o t IH]; intros rf H; cbn [rfile_walk].
  - apply forallb_forall. intros r HI. destruct (in_nth_opt _ _ HI) as [n Hn]. specialize (H n).
    rewrite Hn in H. cbn [nth_opt flat] in H. exact H.
  - destruct rf as [|r rt]; apply andb_true_intro; split.
    + exact (H O).
    + apply IH. intros n. exact (H (S n)).
    + exact (H O).
    + apply IH. intros n. exact (H (S n)).
Qed.

Lemma rfile_b_complete s : rfile_mirrors s -> rfile_b s = true.
Proof.
  intros H. unfold rfile_b. apply rfile_walk_complete. intros n. specialize (H (N.of_nat n)).
  unfold slot, get in H. rewrite Nat2N.id in H.
  destruct (nth_opt (slots s) n) as [[m|]|]; cbn [flat rf1_b].
  - destruct (r_state m =? ST_WRITE).
    + destruct H as (H1 & H2 & H3). rewrite H1, H2, H3. reflexivity.
    + rewrite H. apply srec_eqb_refl.
  - destruct H as [H|H]; rewrite H; reflexivity.
  - destruct H as [H|H]; rewrite H; reflexivity.
Qed.

(* ---- no reservations ---------------------------------------------------------------------- *)
Lemma resv_b_complete s : resv s = [] -> resv_b s = true.
Proof. unfold resv_b. intros ->. reflexivity. Qed.

(* ---- the checker decides Inv ---------------------------------------------------------------- *)
Theorem inv_b_complete : forall s, Inv s -> inv_b s = true.
Proof.
  intros s H. pose proof (inv_sorted s H) as Hso. destruct Hso as (S1 & S2 & S3 & S4 & S5).
  unfold inv_b.
  rewrite (aligned_b_complete s (inv_aligned s H)).
  rewrite (cover_b_complete s (inv_aligned s H) (inv_cover s H)).
  rewrite (len_b_complete s (inv_len s H)).
  rewrite (s2r_b_complete s S1 (inv_s2r s H)).
  rewrite (sorted_b_complete s (inv_sorted s H)).
  rewrite (h2s_b_complete s S2 S5 (inv_h2s s H)).
  rewrite (noadj_b_complete s S2 (inv_no_adjacent_holes s H)).
  rewrite (file_b_complete s (inv_file s H)).
  rewrite (ids_b_complete s (inv_ids s H)).
  rewrite (rfile_b_complete s (inv_rfile s H)).
  rewrite (resv_b_complete s (inv_no_resv s H)).
  reflexivity.
Qed.

Theorem inv_b_iff : forall s, inv_b s = true <-> Inv s.
Proof. intros s. split; [apply inv_b_sound|apply inv_b_complete]. Qed.

(* a `false` verdict is a proven violation *)
Corollary inv_b_false : forall s, inv_b s = false -> ~ Inv s.
Proof. intros s Hf HI. apply inv_b_complete in HI. congruence. Qed.

(* examples: corrupted variants of a reachable state are rejected, clause by clause *)
Definition ib_state : st :=
  run (init 0) [Create 1 false; Write 1 (gen_byte 1) 5000; Create 2 true; Remove 1; Flush;
                Create 3 false].

Example ib_state_shape :
  holes ib_state = [(PAGE_SIZE, PAGE_SIZE)] /\ layout_len ib_state = 3 * PAGE_SIZE.
Proof. vm_compute. split; reflexivity. Qed.

Example inv_b_rejects_short_file : ~ Inv (set_file_len ib_state 0).
Proof. apply inv_b_false. vm_compute. reflexivity. Qed.

Example inv_b_rejects_missing_h2s : ~ Inv (set_holes ib_state (holes ib_state) []).
Proof. apply inv_b_false. vm_compute. reflexivity. Qed.

Example inv_b_rejects_overlap : ~ Inv (set_pend ib_state [(0, PAGE_SIZE)]).
Proof. apply inv_b_false. vm_compute. reflexivity. Qed.
