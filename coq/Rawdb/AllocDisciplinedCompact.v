(* Rawdb/AllocDisciplinedCompact.v — tie between the allocator model and the crash monitor, part 8
   (proof file): Database::compact = the events of flush, then one CPunch per punched candidate
   range (any subset of Alloc.punch_ranges of the flushed state: the oracle), a data sync when
   something was punched, then the completion marker. *)
From Anydb Require Import Common.Base Gen.Consts Rawdb.AMap Rawdb.Alloc Rawdb.AllocSpec Rawdb.AllocInv
  Rawdb.AllocFacts Rawdb.AMapFacts Rawdb.CoverFacts Rawdb.AllocErr Rawdb.InvLayout Rawdb.CompactFacts Rawdb.InvStep
  Rawdb.Crash Rawdb.CrashFacts Rawdb.CrashInv Rawdb.CrashSound Rawdb.AllocEvents Rawdb.AllocDisciplined
  Rawdb.AllocDisciplinedOps Rawdb.AllocDisciplinedSync.

Definition pev (r : N * N) : cev := CPunch (fst r) (snd r).

(* a run of accepted punches changes only the pending data *)
Lemma run_punches ps : forall mB rest,
  (forall r, In r ps -> data_ok mB (fst r) (snd r) = true) ->
  exists mP, mon_run mB (map pev ps ++ rest) = mon_run mP rest
    /\ m_dur mP = m_dur mB /\ m_pend mP = m_pend mB /\ m_len mP = m_len mB /\ m_cur mP = m_cur mB
    /\ m_flushed mP = m_flushed mB /\ m_touched mP = m_touched mB /\ m_vmem mP = m_vmem mP
    /\ (ps = [] -> mP = mB).
Proof.
  induction ps as [|[off len] t IH]; intros mB rest H.
  - exists mB. cbn [map app]. repeat split; auto.
  - cbn [map app pev fst snd]. rewrite mon_run_cons. cbn [mon_step fst snd].
    change (pev (off, len)) with (CPunch off len). cbn [mon_step fst snd]. pose proof (H (off, len) (or_introl eq_refl)) as H0. cbn [fst snd] in H0. rewrite H0.
    set (mB' := mkMon _ _ _ _ _ _ _ _ _).
    destruct (IH mB' rest) as (mP & R & A1 & A2 & A3 & A4 & A5 & A6 & A7 & _).
    { intros r Hr. rewrite <- (H r (or_intror Hr)). apply data_ok_cong; reflexivity. }
    exists mP. split; [exact R|]. repeat split; auto. discriminate.
Qed.

Section Compact.
  Variables (s : st) (m : mon).
  Hypotheses (HI : Inv s) (HK : K m) (HC : Cpl s m).

  (* the monitor after "op:" and the events of flush, before the completion marker *)
  Lemma flush_body_run rest :
    exists mB, mon_run m (COp [] :: flush_events s ++ rest) = mon_run mB rest
      /\ m_len mB = m_len m /\ m_cur mB = [] /\ NoDup (map fst (m_dur mB))
      /\ (forall j, dur_get (m_dur mB) j = vol_of m j) /\ m_pend mB = []
      /\ m_flushed mB = m_flushed m /\ m_touched mB = m_touched m
      /\ (m_pdata mB = [] \/ (flush_dirty s = [] /\ m_pdata mB = m_pdata m)).
  Proof.
    rewrite mon_run_cons. cbn [mon_step fst snd app].
    unfold flush_events. destruct (flush_dirty s) as [|x l] eqn:Ed.
    - destruct (pend s) as [|p t] eqn:Ep; cbn [app].
      + assert (Hmp : m_pend m = []).
        { destruct (m_pend m) as [|[k v] r] eqn:E; [reflexivity|exfalso].
          destruct (c_pend s m HC k v) as [(mk & Hs & Hst)|[_ Hne]]; [rewrite E; left; reflexivity| |congruence].
          pose proof (no_dirty s k mk Ed Hs) as Hf. unfold flush_region_is_dirty in Hf. rewrite Hst in Hf.
          apply orb_false_iff in Hf. destruct Hf as [_ Hf]. discriminate. }
        rewrite mon_run_cons. cbn [mon_step fst snd]. eexists. split; [reflexivity|].
        cbn [m_len m_cur m_dur m_pend m_flushed m_touched m_pdata].
        repeat split; try reflexivity; try exact Hmp.
        * exact (k_nodup m HK).
        * intros j. unfold vol_of. rewrite possible_eq, Hmp. reflexivity.
        * right. split; reflexivity.
      + rewrite mon_run_cons. cbn [mon_step fst snd].
        match goal with |- context [metasync_ok ?X] => change (metasync_ok X) with (metasync_ok m) end.
        rewrite (nodirty_metasync_ok s m HC Ed).
        rewrite mon_run_cons. cbn [mon_step fst snd]. eexists. split; [reflexivity|].
        cbn [m_len m_cur m_dur m_pend m_flushed m_touched m_pdata].
        repeat split; try reflexivity.
        * apply latest_pend_nodup. exact (k_nodup m HK).
        * apply dur_get_latest.
        * right. split; reflexivity.
    - cbn [app]. rewrite mon_run_cons. cbn [mon_step fst snd]. rewrite mon_run_cons. cbn [mon_step fst snd m_dur m_pend m_pdata].
      rewrite metasync_ok_nil by reflexivity. rewrite mon_run_cons. cbn [mon_step fst snd]. eexists. split; [reflexivity|].
      cbn [m_len m_cur m_dur m_pend m_flushed m_touched m_pdata].
      repeat split; try reflexivity.
      + apply latest_pend_nodup. exact (k_nodup m HK).
      + apply dur_get_latest.
      + left. reflexivity.
  Qed.

  Theorem ok_compact orc : step_ok orc s Compact m.
  Proof.
    unfold step_ok.
    assert (Est : fst (step_total s Compact) = fst (compact s)).
    { unfold step_total. cbn [step]. destruct (compact s); reflexivity. }
    set (ps := filter (fun r => orc (fst r) (snd r)) (punch_ranges (fst (flush s)))).
    assert (Eev : step_events_o orc s Compact
                  = COp [] :: flush_events s ++ (map pev ps ++ (match ps with [] => [] | _ => [CDataSync] end) ++ [CFlushed])).
    { unfold step_events_o, closer. cbn [step op_ids body_events]. destruct (compact s).
      unfold punch_events. fold ps. rewrite <- !app_assoc. reflexivity. }
    rewrite Est, Eev.
    destruct (flush_obs s) as (g & Hg & Hgid & Hsl & Hrf & Hfl & Hpe).
    destruct (flush_body_run (map pev ps ++ (match ps with [] => [] | _ => [CDataSync] end) ++ [CFlushed]))
      as (mB & RB & B1 & B2 & B3 & B4 & B5 & B6 & B7 & B8).
    rewrite RB.
    assert (HpossB : forall j, possible mB j = [vol_of m j]) by (intros j; rewrite possible_eq, B5, B4; reflexivity).
    (* every punch is disjoint from the content of every possibly-durable version *)
    assert (Hpunch : forall r, In r ps -> data_ok mB (fst r) (snd r) = true).
    { intros r Hr. unfold ps in Hr. apply filter_In in Hr. destruct Hr as [Hr _].
      destruct (punch_disjoint_flush s HI r Hr) as [Hd _].
      unfold data_ok. apply forallb_forall. intros j _. apply orb_true_iff. right.
      apply forallb_forall. intros [w|] Hw; [|reflexivity]. rewrite HpossB in Hw. destruct Hw as [Hw|[]].
      destruct (vol_region s m HI HC j w Hw) as (mj & Hsj & _ & Hrec). subst w.
      destruct (Hg mj) as (G1 & G2 & _).
      specialize (Hd j (g mj)). rewrite Hsl, Hsj in Hd. specialize (Hd eq_refl). rewrite G1, G2 in Hd.
      unfold disjoint, rec_of, sr_start, sr_len. lia. }
    destruct (run_punches ps mB ((match ps with [] => [] | _ => [CDataSync] end) ++ [CFlushed]) Hpunch)
      as (mP & RP & P1 & P2 & P3 & P4 & P5 & P6 & _ & P8).
    rewrite RP.
    (* unsynced data after the punches: none, or what was there before a flush without dirty region *)
    assert (Hpd : forall D, NoDup (map fst D) -> (forall i, dur_get D i = vol_of m i) ->
              flush_dirty s = [] ->
              forallb (fun p => forallb (fun r => let '(off, len, _) := r in
                                                  disjoint off len (sr_start (snd p)) (sr_len (snd p))) (m_pdata m))
                      (flat_map (fun p => match snd p with Some v => [(fst p, v)] | None => [] end) D) = true).
    { intros D H1 H2 H3. apply (nodirty_m6 s m HI HC D H3 H1 H2). }
    assert (Hkeep : flush_dirty s = [] -> forall off len f j mj', In (off, len, f) (m_pdata m) ->
              slot (fst (compact s)) j = Some mj' -> m_is_dirty mj' = false ->
              disjoint off len (r_start mj') (r_len mj') = true).
    { intros Ed off len f j mj' Hx Hs' Hnd. rewrite compact_slot_flush, Hsl in Hs'.
      destruct (slot s j) as [mj|] eqn:Hs; [|discriminate]. cbn [option_map] in Hs'.
      pose proof (no_dirty_is_dirty s j mj Ed Hs) as Hnd0. rewrite (Hgid Ed mj Hnd0) in Hs'. injection Hs' as <-.
      exact (c_pdata s m HC off len f j mj Hx Hs Hnd0). }
    assert (Hfin : forall mQ, m_len mQ = m_len m -> m_cur mQ = [] -> m_dur mQ = m_dur mB -> m_pend mQ = [] ->
              (m_pdata mQ = [] \/ (flush_dirty s = [] /\ m_pdata mQ = m_pdata m)) ->
              snd (mon_run mQ [CFlushed]) = true /\ Cpl (fst (compact s)) (fst (mon_run mQ [CFlushed]))).
    { intros mQ Q1 Q2 Q3 Q4 Q5. rewrite mon_run_cons. cbn [mon_step fst snd]. rewrite Q4.
      assert (Hm6 : forallb (fun p => forallb (fun r => let '(off, len, _) := r in
                                          disjoint off len (sr_start (snd p)) (sr_len (snd p))) (m_pdata mQ))
                            (live_durable mQ) = true).
      { destruct Q5 as [Q5|[Ed Q5]]; rewrite Q5.
        - apply forallb_forall. intros; reflexivity.
        - unfold live_durable. rewrite Q3. apply Hpd; assumption. }
      rewrite Hm6. cbn [mon_run fst snd]. split; [reflexivity|].
      apply (cpl_after_sync s m HI HC (fst (compact s)) g _ (m_dmem mQ) Hg);
        cbn [m_len m_cur m_dur m_pend m_flushed m_touched m_pdata]; try assumption; try reflexivity.
      - intros j. rewrite compact_slot_flush. apply Hsl.
      - apply compact_rfile.
      - apply compact_file_len.
      - apply compact_pend.
      - rewrite Q3. exact B3.
      - rewrite Q3. exact B4.
      - destruct Q5 as [Q5|[Ed Q5]]; rewrite Q5; [intros off len f j mj' []|apply Hkeep; exact Ed]. }
    destruct ps as [|r0 t] eqn:Eps.
    - cbn [app]. rewrite (P8 eq_refl). apply Hfin; auto.
    - cbn [app]. rewrite mon_run_cons. cbn [mon_step fst snd]. apply Hfin; cbn [m_len m_cur m_dur m_pend m_pdata]; try congruence.
      left. reflexivity.
  Qed.
End Compact.
