(* Rawdb/InvReopen.v — `reopen` (Regions::fill + Layout::from at open) re-establishes the extent
   invariant from the regions file alone: the slots read back are exactly the live slots of the
   closed state that were ever written, the rebuilt hole maps tile the gaps between them.
   PROOF FILE. *)
From Anydb Require Import Common.Base Gen.Consts Rawdb.AMap Rawdb.Alloc Rawdb.AllocSpec Rawdb.AllocInv
  Rawdb.AllocFacts Rawdb.AMapFacts Rawdb.CoverFacts Rawdb.InvLayout Rawdb.AllocErr Rawdb.InvReopenAux.

(* the metadata of a slot as Regions::fill reads it back *)
Definition clean (m : rmeta) : rmeta :=
  mkR (r_start m) (r_len m) (r_reserved m) (r_id m) ST_CLEAN u64_max 0.

Definition fill_one (o : option slotrec) : option rmeta :=
  match o with
  | Some (start, ln, reserved, id) =>
      if valid_slotrec (start, ln, reserved, id) then Some (mkR start ln reserved id ST_CLEAN u64_max 0) else None
  | None => None
  end.

(* `slot` on a bare slot table *)
Definition lslot (sl : list (option rmeta)) (i : N) : option rmeta :=
  match get sl i with Some (Some m) => Some m | _ => None end.

Lemma get_fill rf i : get (fill_slots rf) i = option_map fill_one (get rf i).
Proof. unfold get, fill_slots. apply (nth_opt_map fill_one). Qed.

Lemma inv_valid_slotrec s i m : Inv s -> slot s i = Some m -> valid_slotrec (srec m) = true.
Proof.
  intros HI Hs. destruct (inv_region_aligned s i m HI Hs) as (H1 & H2 & H3). cbn [rext fst snd] in H1, H2, H3.
  destruct (inv_len s HI i m Hs) as [H4 _].
  pose proof (mod0_ge _ _ PAGE_nz H2 H3) as H5.
  unfold valid_slotrec, srec. rewrite !andb_true_iff, !N.eqb_eq, !N.leb_le. auto.
Qed.

(* a written entry of the regions file is the metadata of the live slot with that index *)
Lemma rfile_some s i rec :
  Inv s -> get (rfile s) i = Some (Some rec) ->
  exists m, slot s i = Some m /\ (r_state m =? ST_WRITE) = false /\ rec = srec m.
Proof.
  intros HI Hg. pose proof (inv_rfile s HI i) as Hr. destruct (slot s i) as [m|].
  - exists m. destruct (r_state m =? ST_WRITE) eqn:E.
    + destruct Hr as [Hr _]. congruence.
    + rewrite Hg in Hr. injection Hr as ->. auto.
  - destruct Hr as [Hr|Hr]; congruence.
Qed.

(* under Inv every written entry is valid: fill keeps it *)
Lemma fill_slot s i :
  Inv s ->
  lslot (fill_slots (rfile s)) i =
  match get (rfile s) i with
  | Some (Some (a, l, r, id)) => Some (mkR a l r id ST_CLEAN u64_max 0)
  | _ => None
  end.
Proof.
  intros HI. unfold lslot. rewrite get_fill.
  destruct (get (rfile s) i) as [[[[[a l] r] id]|]|] eqn:E; cbn [option_map fill_one]; try reflexivity.
  destruct (rfile_some _ _ _ HI E) as (m & Hm & Hst & Hrec).
  pose proof (inv_valid_slotrec s i m HI Hm) as Hv. rewrite <- Hrec in Hv. rewrite Hv. reflexivity.
Qed.

Lemma fill_sub s i m' :
  Inv s -> lslot (fill_slots (rfile s)) i = Some m' ->
  exists m, slot s i = Some m /\ (r_state m =? ST_WRITE) = false /\ m' = clean m.
Proof.
  intros HI. rewrite (fill_slot s i HI).
  destruct (get (rfile s) i) as [[[[[a l] r] id]|]|] eqn:E; try discriminate.
  intros [= <-]. destruct (rfile_some _ _ _ HI E) as (m & Hm & Hst & Hrec).
  exists m. split; [exact Hm|]. split; [exact Hst|]. unfold srec in Hrec. injection Hrec as -> -> -> ->. reflexivity.
Qed.

Lemma fill_none s i :
  Inv s -> lslot (fill_slots (rfile s)) i = None ->
  get (rfile s) i = Some None \/ get (rfile s) i = None.
Proof.
  intros HI. rewrite (fill_slot s i HI).
  destruct (get (rfile s) i) as [[[[[a l] r] id]|]|]; [discriminate|auto|auto].
Qed.

Lemma nth_lslot sl n m : nth_opt sl n = Some (Some m) <-> lslot sl (N.of_nat n) = Some m.
Proof.
  unfold lslot, get. rewrite Nat2N.id. destruct (nth_opt sl n) as [[m'|]|]; split; congruence.
Qed.

(* two live slots never start at the same address, and they do not overlap *)
Lemma inv_starts_inj s i j mi mj :
  Inv s -> slot s i = Some mi -> slot s j = Some mj -> r_start mi = r_start mj -> i = j.
Proof.
  intros HI Hi Hj Heq.
  assert (H1 : aget (r_start mi) (s2r s) = Some i) by (apply (inv_s2r s HI); eauto).
  assert (H2 : aget (r_start mi) (s2r s) = Some j) by (apply (inv_s2r s HI); eauto).
  congruence.
Qed.

Lemma inv_regions_disjoint s i j mi mj :
  Inv s -> slot s i = Some mi -> slot s j = Some mj -> r_start mi < r_start mj ->
  r_start mi + r_reserved mi <= r_start mj.
Proof.
  intros HI Hi Hj Hlt.
  destruct (inv_region_aligned s j mj HI Hj) as (_ & _ & Hp). cbn [rext snd] in Hp.
  destruct (N.le_gt_cases (r_start mi + r_reserved mi) (r_start mj)) as [|Hgt]; [assumption|exfalso].
  pose proof (inv_owners_le1 s (r_start mj) HI) as Hle. rewrite owners_extents in Hle.
  assert (Hne : rext mi <> rext mj) by (unfold rext; intros [= H _]; lia).
  pose proof (owners_in2 _ _ _ (r_start mj) (slot_in_region_exts s i mi Hi) (slot_in_region_exts s j mj Hj) Hne) as Ho.
  rewrite !cov_true in Ho by (unfold covers, rext; cbn [fst snd]; lia). lia.
Qed.

(* ---- the rebuilt start_to_region map ---- *)
Lemma reopen_s2r s :
  Inv s ->
  let sl := fill_slots (rfile s) in
  let g := s2r_of sl 0 [] in
  asorted g /\
  (forall a j, aget a g = Some j <-> exists m, lslot sl j = Some m /\ r_start m = a) /\
  (forall a, owners (vmap (rsv sl) g) a = owners (region_exts sl) a).
Proof.
  intros HI sl g.
  destruct (s2r_of_spec sl sl 0 []) as (R1 & R2 & R3).
  - reflexivity.
  - intros n n' m m' Hn Hn' Heq. apply nth_lslot in Hn, Hn'.
    destruct (fill_sub s _ _ HI Hn) as (mm & Hm & _ & ->).
    destruct (fill_sub s _ _ HI Hn') as (mm' & Hm' & _ & ->).
    cbn [clean r_start] in Heq. pose proof (inv_starts_inj s _ _ _ _ HI Hm Hm' Heq). lia.
  - intros n m Hn. unfold get. replace (N.to_nat (0 + N.of_nat n)) with n by lia. exact Hn.
  - exact I.
  - split; [exact R1|]. split.
    + intros a j. fold g in R2. rewrite R2. split.
      * intros [H|(n & m & Hn & Ha & Hj)]; [discriminate|]. exists m. split; [|exact Ha].
        apply nth_lslot in Hn. replace j with (N.of_nat n) by lia. exact Hn.
      * intros (m & Hm & Ha). right. exists (N.to_nat j), m. split; [|split; [exact Ha|lia]].
        apply nth_lslot. rewrite N2Nat.id. exact Hm.
    + intros a. fold g in R3. rewrite R3. cbn [vmap map]. rewrite owners_nil. lia.
Qed.

(* ---- the shape of the reopened state ---- *)
Lemma reopen_shape s s' r :
  Inv s -> reopen s = AOk (s', r) ->
  let sl := fill_slots (rfile s) in
  exists H Q L X,
    s' = mkSt sl (s2r_of sl 0 []) H Q [] [] (rfile s) (file_len s) (mem s) [] /\
    GI H Q L X /\ L <= layout_len s /\ (forall a, X a = owners (region_exts sl) a).
Proof.
  intros HI Hre sl. unfold reopen in Hre. cbv zeta in Hre. fold sl in Hre.
  destruct (reopen_s2r s HI) as (G1 & G2 & G3). cbv zeta in G1, G2, G3. fold sl in G1, G2, G3.
  set (g := s2r_of sl 0 []) in *.
  set (s0 := mkSt sl [] [] [] [] [] (rfile s) (file_len s) (mem s) []) in *.
  destruct (gaps sl g 0 s0) as [s1|] eqn:Eg; [|discriminate]. injection Hre as <- _.
  destruct (gaps_spec sl (layout_len s) g 0 s0 s1 (fun _ => 0%nat)) as (H & Q & L & X & E1 & GI1 & HL & HX).
  - intros a i HI0. apply (in_aget _ _ _ G1) in HI0. apply G2 in HI0. destruct HI0 as (m & Hm & Ha).
    exists m. split. { unfold lslot in Hm. destruct (get sl i) as [[m'|]|]; congruence. }
    split; [exact Ha|].
    destruct (fill_sub s _ _ HI Hm) as (mm & Hmm & _ & ->).
    split. { exact (inv_region_aligned s i mm HI Hmm). }
    subst a. exact (region_end_le s i mm HI Hmm).
  - exact GI_nil.
  - lia.
  - exact Eg.
  - exists H, Q, L, X. split; [rewrite E1; reflexivity|]. split; [exact GI1|]. split; [exact HL|].
    intros a. rewrite HX, G3. lia.
Qed.

(* what the reopened state remembers (for refinement proofs) *)
Lemma reopen_fields s s' r :
  Inv s -> reopen s = AOk (s', r) ->
  (forall i, slot s' i =
             match get (rfile s) i with
             | Some (Some (a, l, r, id)) => Some (mkR a l r id ST_CLEAN u64_max 0)
             | _ => None
             end) /\
  mem s' = mem s /\ rfile s' = rfile s /\ held s' = [] /\ file_len s' = file_len s /\
  pend s' = [] /\ resv s' = [] /\ r = OUnit.
Proof.
  intros HI Hre. destruct (reopen_shape s s' r HI Hre) as (H & Q & L & X & -> & _).
  split; [|repeat split].
  - intros i. rewrite <- (fill_slot s i HI). reflexivity.
  - unfold reopen in Hre. destruct (gaps _ _ _ _); [|discriminate]. now injection Hre as _ <-.
Qed.

(* a live slot after reopen is the cleaned copy of the same live slot before *)
Lemma reopen_slot_sub s s' r i m' :
  Inv s -> reopen s = AOk (s', r) -> slot s' i = Some m' ->
  exists m, slot s i = Some m /\ (r_state m =? ST_WRITE) = false /\ m' = clean m.
Proof.
  intros HI Hre. destruct (reopen_shape s s' r HI Hre) as (H & Q & L & X & -> & _).
  intros Hs. apply (fill_sub s i m' HI). exact Hs.
Qed.

Theorem inv_reopen : forall s s' r, Inv s -> reopen s = AOk (s', r) -> Inv s'.
Proof.
  intros s s' r HI Hre.
  destruct (reopen_shape s s' r HI Hre) as (H & Q & L & X & -> & G & HL & HX).
  destruct (reopen_s2r s HI) as (G1 & G2 & G3). cbv zeta in G1, G2, G3.
  set (sl := fill_slots (rfile s)) in *. set (g := s2r_of sl 0 []) in *.
  set (s' := mkSt sl g H Q [] [] (rfile s) (file_len s) (mem s) []).
  assert (Hslot : forall i, slot s' i = lslot sl i) by reflexivity.
  apply (mk_inv s' L).
  - change (extents s') with (region_exts sl ++ H ++ [] ++ []). rewrite !app_nil_r. apply Forall_app. split.
    + apply Forall_forall. intros e He. change sl with (slots s') in He.
      apply (in_region_exts_slot s') in He. destruct He as (i & m & Hm & ->).
      rewrite Hslot in Hm. destruct (fill_sub s _ _ HI Hm) as (mm & Hmm & _ & ->).
      exact (inv_region_aligned s i mm HI Hmm).
    + apply Forall_forall. intros [a z] He. exact (gi_hal _ _ _ _ G a z He).
  - intros a. rewrite owners_extents. subst s'. st_simpl. rewrite !owners_nil.
    pose proof (gi_cov _ _ _ _ G a) as Hc. rewrite HX in Hc. lia.
  - intros i m Hm. rewrite Hslot in Hm. destruct (fill_sub s _ _ HI Hm) as (mm & Hmm & _ & ->).
    exact (inv_len s HI i mm Hmm).
  - intros a i. exact (G2 a i).
  - subst s'. st_simpl. repeat split; try exact I; [exact G1|exact (gi_sH _ _ _ _ G)|exact (gi_sQ _ _ _ _ G)].
  - exact (gi_agr _ _ _ _ G).
  - subst s'. st_simpl. intros a z a' z' Ha Ha' Heq.
    apply aget_in in Ha, Ha'.
    pose proof (gi_adj _ _ _ _ G a z Ha) as Hx. rewrite Heq in Hx.
    destruct (gi_hal _ _ _ _ G a' z' Ha') as (_ & _ & Hz'). cbn [snd] in Hz'.
    pose proof (owners_in _ _ a' Ha') as Ho. rewrite cov_true in Ho by (unfold covers; cbn [fst snd]; lia).
    pose proof (gi_cov _ _ _ _ G a') as Hc. destruct (a' <? L); lia.
  - subst s'. st_simpl. pose proof (inv_file s HI). lia.
  - intros i j mi mj Hi Hj Heq. rewrite Hslot in Hi, Hj.
    destruct (fill_sub s _ _ HI Hi) as (mmi & Hmi & _ & ->).
    destruct (fill_sub s _ _ HI Hj) as (mmj & Hmj & _ & ->).
    exact (inv_ids s HI i j mmi mmj Hmi Hmj Heq).
  - intros i. rewrite Hslot. destruct (lslot sl i) as [m|] eqn:E.
    + destruct (fill_sub s _ _ HI E) as (mm & Hmm & Hst & ->).
      change (r_state (clean mm) =? ST_WRITE) with false. cbv iota.
      subst s'. st_simpl. pose proof (inv_rfile s HI i) as Hr. rewrite Hmm, Hst in Hr. exact Hr.
    + subst s'. st_simpl. exact (fill_none s i HI E).
  - reflexivity.
Qed.

(* ---- Layout::from never underflows on a state that satisfied the invariant ---- *)
Lemma gaps_some sl t : forall p s,
  asorted t ->
  (forall a i, In (a, i) t -> exists m, get sl i = Some (Some m) /\ r_start m = a /\ p <= a) ->
  (forall a i a' i', In (a, i) t -> In (a', i') t -> a < a' -> a + rsv sl i <= a') ->
  exists s1, gaps sl t p s = Some s1.
Proof.
  induction t as [|[start i] t IH]; intros p s Hs Ht Hd; cbn [gaps].
  - eauto.
  - destruct (Ht start i (or_introl eq_refl)) as (m & Hm & Hst & Hle). rewrite Hm.
    destruct (start <? p) eqn:E; [lia|].
    apply asorted_cons in Hs. destruct Hs as [Hlb Hs].
    apply IH.
    + exact Hs.
    + intros a j HI. destruct (Ht a j (or_intror HI)) as (m' & Hm' & Hst' & _).
      exists m'. split; [exact Hm'|]. split; [exact Hst'|].
      specialize (Hlb _ _ HI).
      specialize (Hd start i a j (or_introl eq_refl) (or_intror HI) Hlb).
      unfold rsv in Hd. rewrite Hm in Hd. exact Hd.
    + intros a j a' j' HI HI' Hlt. apply (Hd a j a' j'); [right; exact HI|right; exact HI'|exact Hlt].
Qed.

Theorem reopen_no_panic : forall s, Inv s -> reopen s <> APanic.
Proof.
  intros s HI. unfold reopen. cbv zeta.
  destruct (reopen_s2r s HI) as (G1 & G2 & _). cbv zeta in G1, G2.
  set (sl := fill_slots (rfile s)) in *. set (g := s2r_of sl 0 []) in *.
  destruct (gaps_some sl g 0 (mkSt sl [] [] [] [] [] (rfile s) (file_len s) (mem s) [])) as [s1 E].
  - exact G1.
  - intros a i HI0. apply (in_aget _ _ _ G1), G2 in HI0. destruct HI0 as (m & Hm & Ha).
    exists m. split; [unfold lslot in Hm; destruct (get sl i) as [[m'|]|]; congruence|].
    split; [exact Ha|lia].
  - intros a i a' i' H1 H2 Hlt.
    apply (in_aget _ _ _ G1), G2 in H1. apply (in_aget _ _ _ G1), G2 in H2.
    destruct H1 as (m & Hm & Ha). destruct H2 as (m' & Hm' & Ha').
    assert (Hr : rsv sl i = r_reserved m).
    { unfold rsv. unfold lslot in Hm. destruct (get sl i) as [[m0|]|]; congruence. }
    destruct (fill_sub s _ _ HI Hm) as (mm & Hmm & _ & ->).
    destruct (fill_sub s _ _ HI Hm') as (mm' & Hmm' & _ & ->).
    subst a a'. cbn [clean r_start r_reserved] in *. rewrite Hr.
    exact (inv_regions_disjoint s i i' mm mm' HI Hmm Hmm' Hlt).
  - rewrite E. discriminate.
Qed.

(* reopen is total on invariant states *)
Corollary reopen_ok s : Inv s -> exists s', reopen s = AOk (s', OUnit) /\ Inv s'.
Proof.
  intros HI. pose proof (reopen_no_panic s HI) as Hnp.
  destruct (reopen s) as [[s' r]| |] eqn:E.
  - pose proof (inv_reopen s s' r HI E) as HI'.
    destruct (reopen_fields s s' r HI E) as (_ & _ & _ & _ & _ & _ & _ & ->). eauto.
  - unfold reopen in E. destruct (gaps _ _ _ _); discriminate.
  - congruence.
Qed.

(* the hypotheses are satisfiable *)
Example reopen_init min_len : exists s', reopen (init min_len) = AOk (s', OUnit) /\ Inv s'.
Proof. apply reopen_ok, inv_init. Qed.
