(* Rawdb/InvWrite2.v — Inv is preserved by relocate and by write_with as a whole.  PROOF FILE. *)
From Anydb Require Import Common.Base Gen.Consts Rawdb.AMap Rawdb.Alloc Rawdb.AllocInv
  Rawdb.AMapFacts Rawdb.CoverFacts Rawdb.InvLayout Rawdb.AllocErr Rawdb.HolesFacts Rawdb.AllocNoPanic
  Rawdb.InvOps Rawdb.InvRemove Rawdb.InvCreate Rawdb.InvWrite.

Definition reloc_tail (s1 : st) (i : N) (m : rmeta) (f : N -> N) (n wo new_len nr cl ns : N) : ares (st * out) :=
  let* s2 := db_copy s1 (r_start m) ns cl in
  match db_write s2 (ns + wo) f n with
  | None => APanic
  | Some s3 =>
      let* s4 := layout_remove_region s3 i m in
      match layout_insert_region s4 ns i with
      | None => APanic
      | Some s5 =>
          match aget ns (resv s5) with
          | Some z =>
              if negb (z =? nr) then APanic else
              let s6 := set_resv s5 (arem ns (resv s5)) in
              if negb (ok_set_start ns) then APanic else
              if negb (ok_set_reserved m nr) then APanic else
              if negb (new_len <=? nr) then APanic else
              let s7 := upd s6 i (fun m => m_set_len (m_set_reserved (m_set_start (m_mark_dirty m 0 new_len) ns) nr) new_len) in
              AOk (write_if_dirty s7 i, OUnit)
          | None => APanic
          end
      end
  end.

Definition reloc_meta (ns nr new_len : N) (m : rmeta) : rmeta :=
  m_set_len (m_set_reserved (m_set_start (m_mark_dirty m 0 new_len) ns) nr) new_len.

Lemma reloc_meta_fields ns nr new_len m :
  r_start (reloc_meta ns nr new_len m) = ns /\ r_len (reloc_meta ns nr new_len m) = new_len /\
  r_reserved (reloc_meta ns nr new_len m) = nr /\ r_id (reloc_meta ns nr new_len m) = r_id m /\
  quiet m (reloc_meta ns nr new_len m).
Proof.
  unfold reloc_meta.
  set (m1 := m_mark_dirty m 0 new_len). set (m2 := m_set_start m1 ns). set (m3 := m_set_reserved m2 nr).
  destruct (set_len_fields m3 new_len) as (A1 & A2 & A3 & A4).
  destruct (set_reserved_fields m2 nr) as (B1 & B2 & B3 & B4).
  destruct (set_start_fields m1 ns) as (C1 & C2 & C3 & C4).
  rewrite A1, A2, A3, A4. subst m3. rewrite B1, B3, B4. subst m2. rewrite C1, C4.
  split; [auto|split; [auto|split; [auto|split; [reflexivity|]]]].
  apply (quiet_trans m m1); [apply quiet_mark_dirty|].
  apply (quiet_trans m1 (m_set_start m1 ns)); [apply quiet_set_start|].
  apply (quiet_trans _ (m_set_reserved (m_set_start m1 ns) nr)); [apply quiet_set_reserved|apply quiet_set_len].
Qed.

Lemma relocate_tail s sB i m f n wo new_len nr cl ns L' s' r :
  Inv s -> slot s i = Some m ->
  slots sB = slots s -> s2r sB = s2r s -> pend sB = pend s -> rfile sB = rfile s -> resv sB = [] ->
  holes_wf (holes sB) (h2s sB) -> Forall aligned (holes sB) ->
  (forall a z a' z', aget a (holes sB) = Some z -> aget a' (holes sB) = Some z' -> a + z <> a') ->
  (forall a, (owners (region_exts (slots s)) a + cov (ns, nr) a + owners (holes sB) a + owners (pend s) a)%nat
             = if a <? L' then 1%nat else 0%nat) ->
  L' <= file_len sB -> aget ns (s2r s) = None -> ns mod PAGE_SIZE = 0 ->
  reloc_tail (set_resv sB (ains ns nr (resv sB))) i m f n wo new_len nr cl ns = AOk (s', r) ->
  (Inv s' /\ layout_len s' = L') /\
  exists x, r_reserved x = nr /\ forall j, slot s' j = if j =? i then Some x else slot s j.
Proof.
  intros HI Hs E1 E2 E3 E4 E5 Hwf Ah Hadj Hcov Hfile Hns Hnsa H.
  unfold reloc_tail in H.
  destruct (db_copy _ (r_start m) ns cl) as [s2| |] eqn:Ec; cbn [abind] in H; try discriminate.
  apply db_copy_ok in Ec. destruct Ec as [mm ->].
  destruct (db_write _ (ns + wo) f n) as [s3|] eqn:Ew; [|discriminate].
  apply db_write_some in Ew. destruct Ew as [mm' ->].
  set (s3 := set_mem (set_mem (set_resv sB (ains ns nr (resv sB))) mm) mm') in *.
  assert (Q1 : slots s3 = slots s) by exact E1.
  assert (Q2 : s2r s3 = s2r s) by exact E2.
  assert (Q3 : pend s3 = pend s) by exact E3.
  assert (Q4 : rfile s3 = rfile s) by exact E4.
  assert (Q5 : resv s3 = [(ns, nr)]) by (change (resv s3) with (ains ns nr (resv sB)); rewrite E5; reflexivity).
  assert (Q6 : holes s3 = holes sB) by reflexivity.
  assert (Q7 : h2s s3 = h2s sB) by reflexivity.
  assert (Q8 : file_len s3 = file_len sB) by reflexivity.
  clearbody s3.
  pose proof (slot_slots_eq s s3 Q1) as Hsl3.
  rewrite layout_remove_region_ok in H.
  2:{ intros j mj Hj. rewrite Q2. apply (inv_s2r_ok s HI). rewrite <- Hsl3. exact Hj. }
  2:{ rewrite Hsl3. exact Hs. }
  cbn [abind] in H. unfold layout_insert_region in H.
  cbn [s2r set_pend set_s2r] in H. rewrite Q2 in H.
  destruct (aget ns (arem (r_start m) (s2r s))) eqn:Ens; [discriminate|].
  cbn [resv set_pend set_s2r] in H. rewrite Q5 in H. cbn [aget arem] in H. rewrite !N.eqb_refl in H.
  cbn [negb] in H.
  destruct (negb (ok_set_start ns)); [discriminate|].
  destruct (ok_set_reserved m nr) eqn:Hok; [|discriminate]. cbn [negb] in H.
  destruct (new_len <=? nr) eqn:Hnl; [|discriminate]. cbn [negb] in H.
  inversion H; subst s'. clear H.
  destruct (ok_set_reserved_facts m nr Hok) as (K1 & K2 & K3 & K4).
  match goal with |- context [upd ?X i _] => set (s6 := X) end.
  assert (Z1 : slots s6 = slots s) by exact Q1.
  assert (Z2 : rfile s6 = rfile s) by exact Q4.
  assert (Z3 : resv s6 = []) by reflexivity.
  assert (Z4 : s2r s6 = ains ns i (arem (r_start m) (s2r s))) by (subst s6; cbn [s2r set_resv set_s2r set_pend]; rewrite ?Q2; reflexivity).
  assert (Z5 : pend s6 = ains (r_start m) (r_reserved m) (pend s)) by (subst s6; cbn [pend set_resv set_s2r set_pend]; rewrite ?Q3; reflexivity).
  assert (Z6 : holes s6 = holes sB) by exact Q6.
  assert (Z7 : h2s s6 = h2s sB) by exact Q7.
  assert (Z8 : file_len s6 = file_len sB) by exact Q8.
  clearbody s6.
  change (fun m0 => m_set_len (m_set_reserved (m_set_start (m_mark_dirty m0 0 new_len) ns) nr) new_len)
    with (reloc_meta ns nr new_len).
  assert (Hs6 : slot s6 i = Some m) by (rewrite (slot_slots_eq s s6 Z1); exact Hs).
  rewrite (wid_upd_nf s6 i _ m Hs6).
  destruct (reloc_meta_fields ns nr new_len m) as (G1 & G2 & G3 & G4 & G5).
  destruct (inv_sorted s HI) as (S1 & S2 & S3 & S4 & S5).
  destruct (inv_parts_aligned s HI) as (Ar & _ & Ap & _).
  pose proof (inv_s2r_ok s HI i m Hs) as Hgi.
  assert (Hne : ns <> r_start m) by (intros ->; congruence).
  assert (Hmap : forall a j, aget a (s2r s6) = Some j <->
            exists mj, (if j =? i then Some (fin (reloc_meta ns nr new_len m)) else slot s j) = Some mj /\ r_start mj = a).
  { intros a j. rewrite Z4, aget_ains, aget_arem by exact S1.
    destruct (a =? ns) eqn:Ea.
    - assert (a = ns) by lia; subst a. split.
      + intros [= <-]. rewrite N.eqb_refl. eexists. split; [reflexivity|]. rewrite fin_start. exact G1.
      + intros (mj & Hj & Hst). destruct (j =? i) eqn:Ej; [f_equal; lia|]. exfalso.
        assert (Hx : aget ns (s2r s) = Some j) by (apply (inv_s2r s HI); eauto). congruence.
    - destruct (a =? r_start m) eqn:Eb.
      + split; [discriminate|]. intros (mj & Hj & Hst). exfalso. destruct (j =? i) eqn:Ej.
        * inversion Hj; subst mj. rewrite fin_start, G1 in Hst. lia.
        * assert (i = j) by (eapply inv_start_inj; eauto; lia). lia.
      + rewrite (inv_s2r s HI a j). destruct (j =? i) eqn:Ej; [|reflexivity].
        assert (j = i) by lia; subst j. split.
        * intros (mj & Hj & Hst). rewrite Hs in Hj. inversion Hj; subst mj. lia.
        * intros (mj & [= <-] & Hst). rewrite fin_start, G1 in Hst. lia. }
  assert (Hcov' : forall a, (owners (region_exts (slots s)) a + cov (rext (reloc_meta ns nr new_len m)) a
                             + owners (holes s6) a + owners (pend s6) a)%nat
                           = ((if (a <? L')%N then 1 else 0) + cov (rext m) a)%nat).
  { intros a. rewrite Z5, Z6, owners_ains_absent by (eapply inv_region_start_not_pend; eauto).
    unfold rext at 1. rewrite G1, G3. specialize (Hcov a). unfold rext. lia. }
  assert (Hax : aligned (rext (reloc_meta ns nr new_len m))).
  { unfold aligned, rext. rewrite G1, G3. cbn [fst snd]. repeat split; auto. pose proof PAGE_pos. lia. }
  assert (Hwf6 : holes_wf (holes s6) (h2s s6)) by (rewrite Z6, Z7; exact Hwf).
  assert (Ah6 : Forall aligned (holes s6)) by (rewrite Z6; exact Ah).
  assert (Ap6 : Forall aligned (pend s6)) by (rewrite Z5; apply Forall_ains; [exact Ap|apply (Ar i m Hs)]).
  assert (Hadj6 : forall a z a' z', aget a (holes s6) = Some z -> aget a' (holes s6) = Some z' -> a + z <> a')
    by (rewrite Z6; exact Hadj).
  assert (S16 : asorted (s2r s6)) by (rewrite Z4; auto using asorted_ains, asorted_arem).
  assert (S36 : asorted (pend s6)) by (rewrite Z5; auto using asorted_ains).
  assert (Hfile6 : L' <= file_len s6) by (rewrite Z8; exact Hfile).
  destruct (write_finish s s6 i m (reloc_meta ns nr new_len m) L' HI Hs Z1 Z2 Z3 S16 S36 Hwf6 Ah6 Ap6 Hadj6
              Hmap Hcov' Hfile6 Hax ltac:(rewrite G2, G3; lia) ltac:(rewrite G3; exact K4) G4 G5) as [[F1 F2] F3].
  split; [split; [exact F1|exact F2]|].
  exists (fin (reloc_meta ns nr new_len m)). split; [rewrite fin_reserved; exact G3|exact F3].
Qed.

Lemma reloc_tail_ok s1 i m f n wo new_len nr cl ns x :
  reloc_tail s1 i m f n wo new_len nr cl ns = AOk x -> ok_set_reserved m nr = true.
Proof.
  unfold reloc_tail, abind. destruct (ok_set_reserved m nr); [reflexivity|]. cbn [negb]. intros H. exfalso. revert H.
  repeat match goal with |- context [match ?y with _ => _ end] => destruct y end; intros H; discriminate H.
Qed.

Lemma relocate_unfold s i m f n wo new_len nr cl :
  relocate s i m f n wo new_len nr cl =
  let* (s1, ns) :=
    match find_hole s nr with
    | Some hs =>
        let* s' := remove_or_compress_hole s hs nr in
        match aget hs (resv s') with
        | Some _ => APanic
        | None => AOk (set_resv s' (ains hs nr (resv s')), hs)
        end
    | None =>
        let ns := layout_len s in
        match aget ns (resv s) with
        | Some _ => APanic
        | None =>
            let s' := set_resv s (ains ns nr (resv s)) in
            AOk (set_min_len s' (ns + nr), ns)
        end
    end in
  reloc_tail s1 i m f n wo new_len nr cl ns.
Proof. reflexivity. Qed.

Lemma inv_relocate s i m f n wo new_len nr cl s' r :
  Inv s -> slot s i = Some m -> 0 < nr -> relocate s i m f n wo new_len nr cl = AOk (s', r) ->
  Inv s' /\ reuse_ok s s'.
Proof.
  intros HI Hs Hnr. rewrite relocate_unfold.
  assert (Hfinal : forall L', ((Inv s' /\ layout_len s' = L') /\
              exists x, r_reserved x = nr /\ forall j, slot s' j = if j =? i then Some x else slot s j) ->
              (L' = layout_len s \/ find_hole s nr = None) -> Inv s' /\ reuse_ok s s').
  { intros L' [[F1 F2] (x & Hx & Hsl)] HL. split; [exact F1|].
    intros j mj' Hp Hj Hh. unfold placed in Hp. rewrite Hsl in Hp, Hj. destruct (j =? i) eqn:Ej.
    - inversion Hj; subst mj'. rewrite Hx in Hh. destruct HL as [->|Hn]; [exact F2|].
      exfalso. exact (find_hole_complete s nr HI Hh Hn).
    - exfalso. rewrite Hj in Hp. auto. }
  destruct (find_hole s nr) as [hs|] eqn:Ef.
  - destruct (find_hole_spec s _ _ (inv_h2s s HI) (proj2 (proj2 (proj2 (proj2 (inv_sorted s HI))))) Ef) as (z & Hz & Hle).
    destruct (roc_spec s hs nr z (inv_holes_wf s HI)) as (H & Q & Er & Hwf & Hget & Hown); auto.
    { intros x Hx. eapply hole_inside_absent; eauto. }
    rewrite Er. cbn [abind].
    destruct (aget hs (resv (set_holes s H Q))) eqn:Ev; [discriminate|]. cbn [abind]. intros Ht.
    destruct (inv_hole_aligned s hs z HI Hz) as (Ha1 & _). cbn [fst] in Ha1.
    assert (Hnrm : nr mod PAGE_SIZE = 0 \/ True) by auto.
    apply (Hfinal (layout_len s)); [|left; reflexivity].
    pose proof (reloc_tail_ok _ _ _ _ _ _ _ _ _ _ _ Ht) as Hok.
    destruct (ok_set_reserved_facts m nr Hok) as (_ & _ & K3 & _).
    destruct (roc_holes_props s hs nr z H HI Hz Hnr Hle K3 (proj1 Hwf) Hget) as (Hal & Hadj & _).
    apply (relocate_tail s (set_holes s H Q) i m f n wo new_len nr cl hs (layout_len s) s' r HI Hs
             eq_refl eq_refl eq_refl eq_refl (inv_no_resv s HI) Hwf Hal Hadj); auto.
    + intros a. specialize (Hown a). pose proof (inv_cover s HI a) as Hc.
      rewrite owners_extents, (inv_no_resv s HI), owners_nil in Hc.
      rewrite (cov_split hs nr z a Hle) in Hown. cbn [holes set_holes]. lia.
    + apply (inv_file s HI).
    + eapply no_region_at_hole; eauto.
  - cbv zeta. destruct (aget (layout_len s) (resv s)) eqn:Ev; cbn [abind]; [discriminate|].
    destruct (set_min_len_shape (set_resv s (ains (layout_len s) nr (resv s))) (layout_len s + nr)) as (fl & Efl & _).
    pose proof (set_min_len_ge (set_resv s (ains (layout_len s) nr (resv s))) (layout_len s + nr)) as Hge.
    rewrite Efl in *. clear Efl. intros Ht.
    apply (Hfinal (layout_len s + nr)); [|right; reflexivity].
    destruct (inv_parts_aligned s HI) as (_ & Ah & _ & _).
    refine (relocate_tail s (set_file_len s fl) i m f n wo new_len nr cl (layout_len s) (layout_len s + nr) s' r HI Hs
             eq_refl eq_refl eq_refl eq_refl (inv_no_resv s HI) (inv_holes_wf s HI) Ah (inv_no_adjacent_holes s HI)
             _ Hge (no_region_at_end s HI) (layout_len_aligned s HI) Ht).
    intros a. pose proof (inv_cover s HI a) as Hc. rewrite owners_extents, (inv_no_resv s HI), owners_nil in Hc.
    cbn [holes set_file_len]. unfold cov, covers. cbn [fst snd].
    destruct (a <? layout_len s) eqn:E1; destruct (a <? layout_len s + nr) eqn:E2;
      destruct (layout_len s <=? a) eqn:E3; cbn [andb]; lia.
Qed.

Lemma inv_write_with s i f n at_ tr : Inv s ->
  match write_with s i f n at_ tr with
  | AOk (s', _) => Inv s' /\ reuse_ok s s'
  | AErr s' _ => Inv s' /\ reuse_ok s s'
  | APanic => True
  end.
Proof.
  intros HI. destruct (write_with s i f n at_ tr) as [[s' r]|s' e|] eqn:Hw; [| |exact I].
  2:{ rewrite (write_with_err s i f n at_ tr s' e HI Hw). split; [exact HI|]. now apply reuse_ok_same_len. }
  revert Hw. unfold write_with.
  destruct (slot s i) as [m|] eqn:Hs; [|discriminate].
  destruct (match at_ with Some a => r_len m <? a | None => false end) eqn:Eat; [discriminate|].
  set (wo := match at_ with Some a => a | None => r_len m end).
  set (new_len := match at_ with None => r_len m + n | Some a => if tr then a + n else N.max (a + n) (r_len m) end).
  assert (Hwn : wo + n <= new_len) by (subst wo new_len; destruct at_; [destruct tr|]; lia).
  destruct (inv_len s HI i m Hs) as [Hlen _].
  destruct (new_len <=? r_reserved m) eqn:Efit.
  { destruct (db_write s (r_start m + wo) f n) as [s1|] eqn:Ew; [|discriminate].
    apply db_write_some in Ew. destruct Ew as [mm ->].
    destruct (inv_set_mem s mm HI) as [HI1 HL1].
    assert (Hs1 : slot (set_mem s mm) i = Some m) by exact Hs.
    destruct (new_len =? r_len m) eqn:Enl.
    - intros [= <- _].
      destruct (inv_upd_keep (set_mem s mm) i (fun m0 => m_mark_dirty m0 wo n) m HI1 Hs1) as [H1 H2]; try reflexivity.
      + intros Hst. cbn [m_mark_dirty r_dmax]. destruct (inv_write_state_dmax s i m HI Hs Hst) as [Hl0 Hd0]. lia.
      + split; [exact H1|]. apply reuse_ok_same_len. congruence.
    - intros [= <- _]. rewrite upd_upd.
      destruct (inv_wid_upd (set_mem s mm) i (fun m0 => m_set_len (m_mark_dirty m0 wo n) new_len) m HI1 Hs1) as [H1 H2].
      + destruct (set_len_fields (m_mark_dirty m wo n) new_len) as (A1 & _ & A3 & _). unfold rext. rewrite A1, A3. reflexivity.
      + destruct (set_len_fields (m_mark_dirty m wo n) new_len) as (_ & A2 & _ & _). rewrite A2. lia.
      + left. destruct (set_len_fields (m_mark_dirty m wo n) new_len) as (_ & _ & _ & A4). rewrite A4. reflexivity.
      + apply (quiet_trans m (m_mark_dirty m wo n)); [apply quiet_mark_dirty|apply quiet_set_len].
      + split; [exact H1|]. apply reuse_ok_same_len. congruence. }
  destruct (r_reserved m =? 0); [discriminate|].
  destruct (double_until 64 (r_reserved m) new_len) as [nr|e0|] eqn:Ed; [|discriminate|discriminate].
  apply double_until_ge in Ed.
  destruct (is_last_anything s i) eqn:Elast.
  { destruct (ok_set_reserved m nr) eqn:Hok; cbn [negb]; [|discriminate].
    intros Hfw. eapply inv_extend_last; eauto. lia. }
  assert (Hrel : forall cl, relocate s i m f n wo new_len nr cl = AOk (s', r) -> Inv s' /\ reuse_ok s s').
  { intros cl. apply inv_relocate; auto. lia. }
  destruct (aget (r_start m + r_reserved m) (holes s)) as [gap|] eqn:Eg; [|apply Hrel].
  destruct (nr - r_reserved m <=? gap) eqn:Ea; [|apply Hrel].
  destruct (remove_or_compress_hole s (r_start m + r_reserved m) (nr - r_reserved m)) as [s1| |] eqn:Er; cbn [abind]; try discriminate.
  destruct (ok_set_reserved m nr) eqn:Hok; cbn [negb]; [|discriminate].
  intros Hfw. eapply inv_expand; eauto; lia.
Qed.
