(* Rawdb/CrashExamples.v — non-vacuity of the crash-monitor theorems (proof file): a realistic trace
   that the monitor accepts (so the hypotheses of C05_os / C05_lib / C12_punch_safe are
   satisfiable, with untouched flushed regions present), and the behaviour before fix f53a575,
   which the monitor rejects. *)
From Anydb Require Import Common.Base Gen.Consts Rawdb.AMap Rawdb.Alloc Rawdb.Crash Rawdb.CrashFacts
  Rawdb.CrashInv Rawdb.CrashLibDefs.

Definition fx : content := fun a => 1 + a mod 251.

(* create r1 r2; write both; flush; remove r1; flush (no dirty region: metadata sync, then
   promote); create r3 on the promoted extent (slot 0 again); write r3; grow r2 in place (last
   region); create r4 elsewhere; flush; compact (punches r4's empty reserve, data sync); write r4 *)
Definition good_trace : list cev :=
  [ CSetLen 1048576;
    COp [1]; CMeta 0 (Some (0, 0, 4096, 1)); CEnd;
    COp [2]; CMeta 1 (Some (4096, 0, 4096, 2)); CEnd;
    COp [1]; CData 0 100 fx; CMeta 0 (Some (0, 100, 4096, 1)); CEnd;
    COp [2]; CData 4096 50 fx; CMeta 1 (Some (4096, 50, 4096, 2)); CEnd;
    COp []; CDataSync; CMetaSync; CPromote; CFlushed;
    COp [1]; CMeta 0 None; CEnd;
    COp []; CMetaSync; CPromote; CFlushed;
    COp [3]; CMeta 0 (Some (0, 0, 4096, 3)); CEnd;
    COp [3]; CData 0 200 fx; CMeta 0 (Some (0, 200, 4096, 3)); CEnd;
    COp [2]; CData 4146 5000 fx; CMeta 1 (Some (4096, 5050, 8192, 2)); CEnd;
    COp [4]; CMeta 2 (Some (12288, 0, 4096, 4)); CEnd;
    COp []; CDataSync; CMetaSync; CPromote; CFlushed;
    COp []; CPromote; CPunch 12288 4096; CDataSync; CFlushed;
    COp [4]; CData 12288 10 fx; CMeta 2 (Some (12288, 10, 4096, 4)); CEnd ].

Example good_trace_accepted : snd (mon_run mon_init good_trace) = true.
Proof. vm_compute. reflexivity. Qed.

Example good_trace_no_bad_event : mon_first_bad mon_init good_trace 0 = None.
Proof. vm_compute. reflexivity. Qed.

(* at the end three slots were live at the last completed flush (= the compaction) and only r4 was
   addressed since: slots 0 and 1 are "untouched" in the sense of C05_os *)
Example good_trace_has_untouched :
  let m := fst (mon_run mon_init good_trace) in
  match m_flushed m with
  | Some (fl, _) => map fst fl = [0; 1; 2]
                    /\ map (fun p => mem_in (sr_id (snd p)) (m_touched m)) fl = [false; false; true]
  | None => False
  end.
Proof. vm_compute. split; reflexivity. Qed.

(* the punch of the compaction happens with no operation ids current (hypothesis of C12_punch_safe) *)
Example good_trace_punch_idle :
  m_cur (fst (mon_run mon_init (firstn 48 good_trace))) = []
  /\ nth_error good_trace 48 = Some (CPunch 12288 4096).
Proof. vm_compute. split; reflexivity. Qed.

(* ---- before fix f53a575 ------------------------------------------------------------------------- *)
(* r1 [0,8192) (slot 0), r2 [8192,12288) (slot 1), r3 [12288,16384) (slot 2), flushed; r1 removed *)
Definition prefix_bad : list cev :=
  [ CSetLen 1048576;
    COp [1]; CMeta 0 (Some (0, 0, 4096, 1)); CEnd;
    COp [1]; CData 0 5000 fx; CMeta 0 (Some (0, 5000, 8192, 1)); CEnd;
    COp [2]; CMeta 1 (Some (8192, 0, 4096, 2)); CEnd;
    COp [3]; CMeta 2 (Some (12288, 0, 4096, 3)); CEnd;
    COp [2]; CData 8192 100 fx; CMeta 1 (Some (8192, 100, 4096, 2)); CEnd;
    COp []; CDataSync; CMetaSync; CPromote; CFlushed;
    COp [1]; CMeta 0 None; CEnd ].

(* r2 outgrows its reserve and is relocated into the "hole" [0,8192): copy, write, metadata *)
Definition relocate_r2 : list cev :=
  [ COp [2]; CData 0 100 fx; CData 100 5000 fx; CMeta 1 (Some (0, 5100, 8192, 2)); CEnd ].

(* the literal trace of the old code: flush() found no dirty region, promoted the pending hole
   WITHOUT syncing the regions file and returned Ok: M6 rejects the CFlushed event *)
Definition bad_trace : list cev := prefix_bad ++ [COp []; CPromote; CFlushed] ++ relocate_r2.

Example bad_trace_rejected_at_flush :
  exists k, mon_first_bad mon_init bad_trace 0 = Some k /\ nth_error bad_trace (N.to_nat k) = Some CFlushed.
Proof. eexists. split; vm_compute; reflexivity. Qed.

(* without the completion marker (M6 out of the picture) the reuse itself is rejected: the copy
   into the promoted extent hits the content of slot 0's still-durable version (M3) ... *)
Definition bad_trace_data : list cev := prefix_bad ++ [COp []; CPromote; CEnd] ++ relocate_r2.

Example bad_trace_rejected_at_data :
  exists k, mon_first_bad mon_init bad_trace_data 0 = Some k
            /\ match nth_error bad_trace_data (N.to_nat k) with Some (CData 0 100 _) => True | _ => False end.
Proof. eexists. split; [vm_compute; reflexivity|vm_compute; exact I]. Qed.

(* ... and, data events aside, the new metadata of slot 1 collides with slot 0's still-durable
   extent (M1) *)
Definition bad_trace_meta : list cev :=
  prefix_bad ++ [COp []; CPromote; CEnd; COp [2]; CMeta 1 (Some (0, 100, 8192, 2)); CEnd].

Example bad_trace_rejected_at_meta :
  exists k, mon_first_bad mon_init bad_trace_meta 0 = Some k
            /\ match nth_error bad_trace_meta (N.to_nat k) with Some (CMeta 1 (Some _)) => True | _ => False end.
Proof. eexists. split; [vm_compute; reflexivity|vm_compute; exact I]. Qed.

(* with the fix (metadata sync before the promotion) the same history is accepted *)
Definition fixed_trace : list cev := prefix_bad ++ [COp []; CMetaSync; CPromote; CFlushed] ++ relocate_r2.

Example fixed_trace_accepted : snd (mon_run mon_init fixed_trace) = true.
Proof. vm_compute. reflexivity. Qed.

(* the LIB-mode hypotheses are satisfiable: after the last sync pair of good_trace (events 42, 43)
   no metadata sync follows, and slot 0 (r3) is not overwritten in place by the rest *)
Example good_trace_lib_hyps :
  let tc := firstn 44 good_trace in
  let t1 := skipn 44 good_trace in
  skipn 42 tc = [CDataSync; CMetaSync]
  /\ no_metasync t1 = true
  /\ not_overwritten (dur_of (fst (mon_run mon_init tc)) 0) t1 = true
  /\ dur_of (fst (mon_run mon_init tc)) 0 = Some (0, 200, 4096, 3).
Proof. vm_compute. repeat split; reflexivity. Qed.

(* why CFlushed keeps the ids of an operation still in progress in m_touched (change to Crash.v):
   here the completion marker arrives while operation [1] is current, and the operation then
   overwrites r1's flushed bytes; M3 allows that (the slot is addressed).  r1 must therefore not
   count as untouched: the image below differs from the flushed bytes on r1's content.  With
   m_touched reset to [] at CFlushed (the previous definition) this trace was accepted as well
   and C05_os_full claimed img 0 = fmem 0 for it. *)
Definition reflush_trace : list cev :=
  [ CSetLen 8192; COp [1]; CMeta 0 (Some (0, 10, 4096, 1)); CData 0 10 fx; CDataSync; CMetaSync; CFlushed;
    CData 0 5 (fun _ => 0) ].

Example flush_inside_operation :
  let m := fst (mon_run mon_init reflush_trace) in
  snd (mon_run mon_init reflush_trace) = true
  /\ mem_in 1 (m_touched m) = true
  /\ exists img, os_data m img
       /\ match m_flushed m with
          | Some (fl, fmem) => assoc_get 0 fl = Some (0, 10, 4096, 1) /\ img 0 <> fmem 0
          | None => False
          end.
Proof.
  cbv zeta. split; [vm_compute; reflexivity|]. split; [vm_compute; reflexivity|].
  exists (fun a => if a <? 5 then 0 else m_dmem (fst (mon_run mon_init reflush_trace)) a). split.
  - intros a. cbv beta. destruct (a <? 5) eqn:E; [right|left; reflexivity].
    exists 0, 5, (fun _ => 0). split; [vm_compute; left; reflexivity|]. split; [lia|reflexivity].
  - vm_compute. split; [reflexivity|intros H; discriminate H].
Qed.
