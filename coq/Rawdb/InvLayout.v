(* Rawdb/InvLayout.v — the literal `layout_len` of the code (maximum of the four `last` ends)
   is the length of the covered prefix whenever the extents cover a prefix exactly; record
   normal forms; a builder for `Inv`.  PROOF FILE. *)
From Anydb Require Import Common.Base Gen.Consts Rawdb.AMap Rawdb.Alloc Rawdb.AllocInv
  Rawdb.AMapFacts Rawdb.CoverFacts.

Ltac st_simpl :=
  cbn [slots s2r holes h2s resv pend rfile file_len mem held
       set_slots set_s2r set_holes set_resv set_pend set_rfile set_file_len set_mem set_held
       put_slot insert_hole] in *.

Lemma owners_pos_ex l a : (0 < owners l a)%nat -> exists e, In e l /\ covers e a = true.
Proof.
  induction l as [|x l IH]; [rewrite owners_nil; lia|]. rewrite owners_cons. unfold cov.
  destruct (covers x a) eqn:E.
  - intros _. exists x. split; [left; reflexivity|exact E].
  - intros H. destruct IH as (e & HI & Hc); [lia|]. exists e. split; [right|]; assumption.
Qed.

Section LenOfCover.
Variable s : st.
Variable L : N.
Hypothesis Hsr : asorted (s2r s).
Hypothesis Hsh : asorted (holes s).
Hypothesis Hsp : asorted (pend s).
Hypothesis Hsv : asorted (resv s).
Hypothesis Hmap : forall a i, aget a (s2r s) = Some i <-> exists m, slot s i = Some m /\ r_start m = a.
Hypothesis Hpos : forall e, In e (extents s) -> 0 < snd e.
Hypothesis Hcov : forall a, owners (extents s) a = if a <? L then 1%nat else 0%nat.

Lemma loc_end_le e : In e (extents s) -> fst e + snd e <= L.
Proof.
  intros HI. pose proof (Hpos e HI) as Hp. pose proof (Hcov (fst e + snd e - 1)) as Hc.
  pose proof (owners_in e _ (fst e + snd e - 1) HI) as Ho.
  rewrite (cov_true e) in Ho by (unfold covers; lia).
  destruct (fst e + snd e - 1 <? L) eqn:E; lia.
Qed.

Lemma loc_no_bigger_start e e' :
  In e (extents s) -> In e' (extents s) -> covers e (L - 1) = true -> 0 < L -> fst e < fst e' -> False.
Proof.
  intros HI HI' Hc HL Hlt. pose proof (loc_end_le e' HI') as He'. pose proof (Hpos e' HI') as Hp'.
  assert (Hne : e <> e') by (intros ->; lia).
  pose proof (owners_in2 e e' _ (fst e') HI HI' Hne) as Ho. rewrite Hcov in Ho.
  unfold covers in Hc.
  rewrite (cov_true e), (cov_true e') in Ho by (unfold covers; lia).
  destruct (fst e' <? L); lia.
Qed.

Lemma loc_amap (m : amap N) :
  asorted m -> (forall e, In e m -> In e (extents s)) ->
  last_end m <= L /\
  (forall e, In e m -> covers e (L - 1) = true -> 0 < L -> last_end m = L).
Proof.
  intros Hs Hsub. unfold last_end. destruct (alast m) as [[b w]|] eqn:El.
  - pose proof (alast_in _ _ El) as HIb. pose proof (loc_end_le _ (Hsub _ HIb)) as Hb. cbn [fst snd] in Hb.
    split; [exact Hb|]. intros [a z] HI Hc HL.
    pose proof (alast_max m b w a z Hs El HI) as Hle.
    destruct (N.eq_dec a b) as [->|Hne].
    + pose proof (in_aget _ _ _ Hs HI) as H1. pose proof (in_aget _ _ _ Hs HIb) as H2.
      rewrite H1 in H2. inversion H2; subst. unfold covers in Hc. cbn [fst snd] in Hc. lia.
    + exfalso. apply (loc_no_bigger_start (a, z) (b, w)); auto. cbn [fst]. lia.
  - apply alast_none in El. subst. split; [lia|]. intros e [].
Qed.

Lemma loc_region :
  last_region_end s <= L /\
  (forall i m, slot s i = Some m -> covers (rext m) (L - 1) = true -> 0 < L -> last_region_end s = L).
Proof.
  unfold last_region_end. destruct (alast (s2r s)) as [[b j]|] eqn:El.
  - pose proof (alast_in _ _ El) as HIb. pose proof (in_aget _ _ _ Hsr HIb) as Hgb.
    destruct (proj1 (Hmap b j) Hgb) as (mj & Hj & Hbj). rewrite Hj.
    assert (HIj : In (rext mj) (extents s)) by (apply in_extents; left; eapply slot_in_region_exts; eauto).
    pose proof (loc_end_le _ HIj) as Hb. unfold rext in Hb. cbn [fst snd] in Hb.
    split; [lia|]. intros i m Hi Hc HL.
    assert (Hgi : aget (r_start m) (s2r s) = Some i) by (apply Hmap; eauto).
    pose proof (alast_max _ b j _ _ Hsr El (aget_in _ _ _ Hgi)) as Hle.
    destruct (N.eq_dec (r_start m) b) as [Heq|Hne].
    + rewrite Heq, Hgb in Hgi. inversion Hgi; subst. rewrite Hi in Hj. inversion Hj; subst.
      unfold covers, rext in Hc. cbn [fst snd] in Hc. lia.
    + exfalso. apply (loc_no_bigger_start (rext m) (rext mj)); auto.
      * apply in_extents; left; eapply slot_in_region_exts; eauto.
      * unfold rext. cbn [fst]. lia.
  - apply alast_none in El. split; [lia|]. intros i m Hi _ _.
    assert (Hgi : aget (r_start m) (s2r s) = Some i) by (apply Hmap; eauto). rewrite El in Hgi. discriminate.
Qed.

Lemma layout_len_of_cover : layout_len s = L.
Proof.
  unfold layout_len.
  destruct (loc_amap (resv s) Hsv) as [Hv1 Hv2]. { intros e HI. apply in_extents. auto. }
  destruct (loc_amap (holes s) Hsh) as [Hh1 Hh2]. { intros e HI. apply in_extents. auto. }
  destruct (loc_amap (pend s) Hsp) as [Hp1 Hp2]. { intros e HI. apply in_extents. auto. }
  destruct loc_region as [Hr1 Hr2].
  destruct (N.eq_dec L 0) as [H0|H0]; [lia|].
  assert (HL : 0 < L) by lia.
  pose proof (Hcov (L - 1)) as Hc. destruct (L - 1 <? L) eqn:E; [|lia].
  destruct (owners_pos_ex (extents s) (L - 1)) as (e & HI & Hce); [lia|].
  apply in_extents in HI. destruct HI as [HI|[HI|[HI|HI]]].
  - apply in_region_exts_slot in HI. destruct HI as (i & m & Hi & ->).
    specialize (Hr2 i m Hi Hce HL). lia.
  - specialize (Hh2 e HI Hce HL). lia.
  - specialize (Hp2 e HI Hce HL). lia.
  - specialize (Hv2 e HI Hce HL). lia.
Qed.
End LenOfCover.

(* ---- building Inv from an explicit covered length ---- *)
Lemma mk_inv s L :
  Forall aligned (extents s) ->
  (forall a, owners (extents s) a = if a <? L then 1%nat else 0%nat) ->
  (forall i m, slot s i = Some m -> r_len m <= r_reserved m /\ r_reserved m <= MAX_RESERVED_SIZE) ->
  (forall a i, aget a (s2r s) = Some i <-> exists m, slot s i = Some m /\ r_start m = a) ->
  asorted (s2r s) /\ asorted (holes s) /\ asorted (pend s) /\ asorted (resv s) /\ asorted (h2s s) ->
  h2s_agrees s ->
  (forall a z a' z', aget a (holes s) = Some z -> aget a' (holes s) = Some z' -> a + z <> a') ->
  L <= file_len s ->
  ids_unique s ->
  rfile_mirrors s ->
  resv s = [] ->
  Inv s /\ layout_len s = L.
Proof.
  intros Hal Hcov Hlen Hmap Hsort Hh Hadj Hfile Hids Hrf Hrv.
  assert (HL : layout_len s = L).
  { destruct Hsort as (H1 & H2 & H3 & H4 & _). apply layout_len_of_cover; auto.
    intros e HI. rewrite Forall_forall in Hal. destruct (Hal e HI) as (_ & _ & Hp). exact Hp. }
  split; [|exact HL]. constructor; auto; rewrite HL; auto.
Qed.

(* ---- normal forms of slot updates ---- *)
Lemma set_at_set_at {A} (l : list A) n x y d : set_at (set_at l n x d) n y d = set_at l n y d.
Proof.
  revert l. induction n as [|n IH]; intros [|h t]; cbn [set_at]; try reflexivity.
  - now rewrite IH.
  - now rewrite IH.
Qed.

Lemma put_slot_put_slot s i x y : put_slot (put_slot s i x) i y = put_slot s i y.
Proof. unfold put_slot, set_slots. cbn [slots s2r holes h2s resv pend rfile file_len mem held]. now rewrite set_at_set_at. Qed.

Lemma upd_some s i f m : slot s i = Some m -> upd s i f = put_slot s i (Some (f m)).
Proof. unfold upd. now intros ->. Qed.

Lemma upd_upd s i f g : upd (upd s i f) i g = upd s i (fun m => g (f m)).
Proof.
  destruct (slot s i) as [m|] eqn:E.
  - rewrite (upd_some s i f m E). unfold upd at 1. rewrite slot_put_slot, N.eqb_refl.
    rewrite put_slot_put_slot. now rewrite (upd_some s i _ m E).
  - unfold upd. rewrite E. rewrite E. reflexivity.
Qed.

Definition srec (m : rmeta) : slotrec := (r_start m, r_len m, r_reserved m, r_id m).
Definition fin (m : rmeta) : rmeta := if r_state m =? ST_WRITE then m_set_state m ST_FLUSH else m.

Lemma set_rfile_same s : set_rfile s (rfile s) = s.
Proof. destruct s; reflexivity. Qed.

Lemma wid_nf s i m :
  slot s i = Some m ->
  write_if_dirty s i =
  put_slot (set_rfile s (if r_state m =? ST_WRITE then set_at (rfile s) (N.to_nat i) (Some (srec m)) None else rfile s))
           i (Some (fin m)).
Proof.
  intros Hs. unfold write_if_dirty, fin. rewrite Hs. destruct (r_state m =? ST_WRITE).
  - reflexivity.
  - rewrite set_rfile_same. unfold put_slot, set_slots.
    assert (H : set_at (slots s) (N.to_nat i) (Some m) None = slots s).
    { unfold slot, get in Hs. revert Hs. generalize (N.to_nat i) as n. generalize (slots s) as l.
      induction l as [|h t IH]; intros [|n]; cbn [nth_opt set_at]; try discriminate.
      - destruct h; [|discriminate]. now intros [= ->].
      - intros H. now rewrite IH. }
    rewrite H. destruct s; reflexivity.
Qed.

Lemma wid_upd_nf s i f m :
  slot s i = Some m ->
  write_if_dirty (upd s i f) i =
  put_slot (set_rfile s (if r_state (f m) =? ST_WRITE then set_at (rfile s) (N.to_nat i) (Some (srec (f m))) None else rfile s))
           i (Some (fin (f m))).
Proof.
  intros Hs. rewrite (wid_nf _ i (f m)).
  - rewrite (upd_some s i f m Hs). unfold put_slot, set_slots, set_rfile.
    cbn [slots s2r holes h2s resv pend rfile file_len mem held]. now rewrite set_at_set_at.
  - rewrite slot_upd, N.eqb_refl, Hs. reflexivity.
Qed.
