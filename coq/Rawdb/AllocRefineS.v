(* Rawdb/AllocRefineS.v — C01, one-step refinement of the table-only operations: DropHandle,
   SetMinLen, SetMinRegions, FlushRegion, Truncate, Rename, Remove, Create.  PROOF FILE. *)
From Anydb Require Import Common.Base Gen.Consts Rawdb.AMap Rawdb.Alloc Rawdb.AllocSpec Rawdb.AllocInv
  Rawdb.AllocFacts Rawdb.AMapFacts Rawdb.CoverFacts Rawdb.InvLayout Rawdb.AllocErr Rawdb.AllocRefine.

(* ---- introduction forms for refines_step ---- *)
Lemma refines_ok s o s' r sp' r' :
  step s o = AOk (s', r) -> spec_step (abs s) o = (sp', Ok r') -> spec_eq (abs s') sp' -> refines_step s o.
Proof.
  intros H1 H2 H3. unfold refines_step, step_total. rewrite H1, H2. cbn [fst snd res_agree]. auto.
Qed.
Lemma refines_err s o s' e sp' :
  step s o = AErr s' e -> spec_step (abs s) o = (sp', Err e) -> spec_eq (abs s') sp' -> refines_step s o.
Proof.
  intros H1 H2 H3. unfold refines_step, step_total. rewrite H1, H2. cbn [fst snd res_agree]. auto.
Qed.

(* ---- more builders ---- *)
Lemma spec_eq_same s s' H :
  ids_unique s -> (forall j, slot s' j = slot s j) -> (forall a, mem s' a = mem s a) ->
  (forall j, rfile_has s' j = rfile_has s j) ->
  (forall x, is_held s' x = existsb (fun y => y =? x) H) ->
  spec_eq (abs s') (mkSpec (sp_regions (abs s)) H).
Proof.
  intros Hu Hsl Hm Hr HH. apply spec_eq_frame; auto.
  intros j. rewrite Hsl. destruct (slot s j); [repeat split|exact I].
Qed.

(* a subset of the regions survives, untouched *)
Lemma spec_eq_sub s s' (q : N -> rmeta -> bool) R H :
  ids_unique s ->
  (forall j, match slot s j with
             | Some m => if q j m then exists m', slot s' j = Some m' /\ msame m m' else slot s' j = None
             | None => slot s' j = None
             end) ->
  (forall j m k, slot s j = Some m -> q j m = true -> k < r_len m -> mem s' (r_start m + k) = mem s (r_start m + k)) ->
  (forall j m, slot s j = Some m -> q j m = true -> rfile_has s' j = rfile_has s j) ->
  (forall x i m, lives s x i m -> sget x R = if q i m then Some (sview s i m) else None) ->
  (forall x, absent s x -> sget x R = None) ->
  (forall x, is_held s' x = existsb (fun y => y =? x) H) ->
  spec_eq (abs s') (mkSpec R H).
Proof.
  intros Hu Hsl Hmem Hrf HR1 HR2 HH.
  assert (Hback : forall j m', slot s' j = Some m' -> exists m, slot s j = Some m /\ q j m = true /\ msame m m').
  { intros j m' Hj. specialize (Hsl j). destruct (slot s j) as [m|] eqn:Ej; [|congruence].
    destruct (q j m) eqn:Eq; [|congruence]. destruct Hsl as (m'' & H1 & H2). exists m. rewrite H1 in Hj. inversion Hj; subst. auto. }
  assert (Hu' : ids_unique s').
  { intros a b ma mb Ha Hb Hid. destruct (Hback a ma Ha) as (ma0 & Ha0 & _ & _ & _ & Hia).
    destruct (Hback b mb Hb) as (mb0 & Hb0 & _ & _ & _ & Hib). apply (Hu a b ma0 mb0 Ha0 Hb0). congruence. }
  apply spec_eq_by_slots; auto. intros x.
  destruct (lives_or_absent s x) as [(i & m & Hl)|Ha].
  - rewrite (HR1 x i m Hl). destruct Hl as [Hs Hid]. pose proof (Hsl i) as Hi. rewrite Hs in Hi.
    destruct (q i m) eqn:Eq.
    + destruct Hi as (m' & Hs' & H1 & H2 & H3). exists i, m'. split; [split; [assumption|congruence]|].
      unfold sview, sreg_eq. cbn [s_len s_data s_persisted]. split; [assumption|]. split.
      * intros k Hk. rewrite H1. apply (Hmem i m k Hs Eq). lia.
      * apply (Hrf i m Hs Eq).
    + intros j m' Hj Hx. destruct (Hback j m' Hj) as (mj & Hj0 & Hq & _ & _ & Hidj).
      assert (j = i) by (apply (Hu j i mj m Hj0 Hs); congruence). subst j. congruence.
  - rewrite (HR2 x Ha). intros j m' Hj. destruct (Hback j m' Hj) as (mj & Hj0 & _ & _ & _ & Hidj).
    rewrite Hidj. exact (Ha j mj Hj0).
Qed.

(* a free slot is filled with a new name *)
Lemma spec_eq_add s s' i m' v R H :
  ids_unique s -> slot s i = None ->
  (forall x, sget x R = if x =? r_id m' then Some v else sget x (sp_regions (abs s))) ->
  (forall x, is_held s' x = existsb (fun y => y =? x) H) ->
  (forall j, slot s' j = if j =? i then Some m' else slot s j) ->
  absent s (r_id m') ->
  (forall j mj k, slot s j = Some mj -> k < r_len mj -> mem s' (r_start mj + k) = mem s (r_start mj + k)) ->
  (forall j mj, slot s j = Some mj -> rfile_has s' j = rfile_has s j) ->
  sreg_eq (sview s' i m') v ->
  spec_eq (abs s') (mkSpec R H).
Proof.
  intros Hu Hs HR HH Hsl Hid Hmem Hrf Hv.
  assert (Hu' : ids_unique s').
  { intros a b ma mb. rewrite !Hsl. destruct (a =? i) eqn:Ea, (b =? i) eqn:Eb.
    - intros _ _ _. lia.
    - intros [= <-] Hb Hab. exfalso. apply (Hid b mb Hb). congruence.
    - intros Ha [= <-] Hab. exfalso. apply (Hid a ma Ha). congruence.
    - apply Hu. }
  apply spec_eq_by_slots; auto. intros x. rewrite HR.
  destruct (x =? r_id m') eqn:E1.
  - exists i, m'. split; [|exact Hv]. split; [rewrite Hsl, N.eqb_refl; reflexivity|lia].
  - destruct (lives_or_absent s x) as [(j & mj & Hl)|Ha].
    + rewrite (sget_abs_lives s x j mj Hu Hl). destruct Hl as [Hj Hx].
      assert (Hne : j <> i). { intros ->. congruence. }
      exists j, mj. split. { split; [|exact Hx]. rewrite Hsl. destruct (j =? i) eqn:Ej; [lia|exact Hj]. }
      unfold sview, sreg_eq. cbn [s_len s_data s_persisted]. split; [reflexivity|]. split.
      * intros k Hk. apply (Hmem j mj k Hj Hk).
      * apply (Hrf j mj Hj).
    + rewrite (sget_abs_absent s x Ha). intros j mj. rewrite Hsl. destruct (j =? i) eqn:Ej.
      * intros [= <-]. lia.
      * apply Ha.
Qed.

(* ---- write_if_dirty (upd s i f) i, observed ---- *)
Lemma slot_wid_upd s i f m j :
  slot s i = Some m -> slot (write_if_dirty (upd s i f) i) j = if j =? i then Some (fin (f m)) else slot s j.
Proof.
  intros Hs. rewrite slot_wid, !slot_upd, N.eqb_refl, Hs. destruct (j =? i); reflexivity.
Qed.
Lemma rfile_has_wid_upd s i f m j :
  slot s i = Some m ->
  rfile_has (write_if_dirty (upd s i f) i) j =
  if j =? i then (r_state (f m) =? ST_WRITE) || rfile_has s i else rfile_has s j.
Proof.
  intros Hs. rewrite rfile_has_wid, slot_upd, N.eqb_refl, Hs, !rfile_has_upd. reflexivity.
Qed.
Lemma mem_wid_upd s i f : mem (write_if_dirty (upd s i f) i) = mem s.
Proof. now rewrite mem_wid, mem_upd. Qed.
Lemma held_wid_upd s i f : held (write_if_dirty (upd s i f) i) = held s.
Proof. now rewrite held_wid, held_upd. Qed.

(* padding the regions file with empty slots does not change which slots are written *)
Lemma has_pad {A} (l : list (option A)) k j :
  match nth_opt (l ++ repeat None k) j with Some (Some _) => true | _ => false end
  = match nth_opt l j with Some (Some _) => true | _ => false end.
Proof.
  revert j. induction l as [|h t IH]; intros j.
  - cbn [app]. replace (nth_opt (@nil (option A)) j) with (@None (option A)) by (destruct j; reflexivity).
    revert j. induction k as [|k IHk]; intros j; cbn [repeat]. { destruct j; reflexivity. }
    destruct j; cbn [nth_opt]; [reflexivity|apply IHk].
  - destruct j; cbn [app nth_opt]; [reflexivity|apply IH].
Qed.

Lemma rfile_has_pad s rf k j : rfile s = rf ++ repeat None k ->
  rfile_has s j = match get rf j with Some (Some _) => true | _ => false end.
Proof. intros E. unfold rfile_has, get. rewrite E. apply has_pad. Qed.

(* ---- DropHandle / SetMinLen / SetMinRegions ---- *)
Lemma refines_drop_handle s id : Inv s -> refines_step s (DropHandle id).
Proof.
  intros HI. eapply refines_ok; [reflexivity|reflexivity|].
  apply spec_eq_same; try reflexivity. exact (inv_ids s HI).
Qed.

Lemma refines_set_min_len s n : Inv s -> refines_step s (SetMinLen n).
Proof.
  intros HI. eapply refines_ok; [reflexivity|reflexivity|].
  destruct (set_min_len_shape s n) as (fl & -> & _).
  apply (spec_eq_same s _ (held s)); try reflexivity. exact (inv_ids s HI).
Qed.

Lemma refines_set_min_regions s n : Inv s -> refines_step s (SetMinRegions n).
Proof.
  intros HI. eapply refines_ok; [reflexivity|reflexivity|]. unfold set_min_regions.
  match goal with |- context [set_min_len ?a ?b] => destruct (set_min_len_shape a b) as (fl & -> & _) end.
  apply (spec_eq_same s _ (held s)); try reflexivity; [exact (inv_ids s HI)|].
  intros j. destruct (len (rfile s) <? n); [|reflexivity].
  erewrite rfile_has_pad; [|reflexivity]. reflexivity.
Qed.

(* ---- a metadata update that keeps start, length and name ---- *)
Lemma spec_eq_upd_same s i g :
  ids_unique s -> (forall m, msame m (g m)) -> spec_eq (abs (upd s i g)) (abs s).
Proof.
  intros Hu Hg. apply (spec_eq_frame s _ (held s)); auto.
  - intros j. rewrite slot_upd. destruct (j =? i) eqn:E.
    + assert (j = i) by lia. subst. destruct (slot s i); cbn [option_map]; [apply Hg|exact I].
    + destruct (slot s j); [repeat split|exact I].
  - intros j m k _ _. now rewrite mem_upd.
  - intros j m _. apply rfile_has_upd.
  - intros x. unfold is_held. now rewrite held_upd.
Qed.

Lemma msame_clear m : msame m (m_clear_dirty m).
Proof. unfold m_clear_dirty, msame. destruct (m_is_dirty m); cbn; auto. Qed.

(* ---- FlushRegion ---- *)
Lemma refines_flush_region s id : Inv s -> refines_step s (FlushRegion id).
Proof.
  intros HI. pose proof (inv_ids s HI) as Hu.
  destruct (find_id s id) as [i|] eqn:Ef.
  - destruct (find_id_sget_some s id i Ef) as (m & Hs & Hid & Hg).
    pose proof (mirrors_has s i m (inv_rfile s HI) Hs) as Hp.
    assert (Hst : step s (FlushRegion id) = flush_region s i) by (cbn [step]; unfold with_region; now rewrite Ef).
    unfold flush_region in Hst. rewrite Hs in Hst.
    destruct (r_state m =? ST_CLEAN) eqn:E0.
    + eapply refines_ok; [exact Hst| |].
      * cbn [spec_step]. rewrite Hg. cbn [s_persisted sview]. rewrite Hp.
        destruct (r_state m =? ST_WRITE) eqn:E2; [unfold ST_CLEAN, ST_WRITE in *; lia|reflexivity].
      * apply spec_eq_upd_same; auto. exact msame_clear.
    + destruct (r_state m =? ST_WRITE) eqn:E2.
      * eapply refines_err; [exact Hst| |].
        -- cbn [spec_step]. rewrite Hg. cbn [s_persisted sview]. rewrite Hp. reflexivity.
        -- apply spec_eq_upd_same; auto. exact msame_clear.
      * eapply refines_ok; [exact Hst| |].
        -- cbn [spec_step]. rewrite Hg. cbn [s_persisted sview]. rewrite Hp. reflexivity.
        -- rewrite upd_upd. apply spec_eq_upd_same; auto. intros m0.
           destruct (msame_clear m0) as (H1 & H2 & H3). repeat split; cbn; assumption.
  - eapply refines_err.
    + cbn [step]. unfold with_region. rewrite Ef. reflexivity.
    + cbn [spec_step]. rewrite (find_id_sget_none s id Ef). reflexivity.
    + apply spec_eq_refl.
Qed.

(* ---- Truncate ---- *)
Lemma slot_self s i m j : slot s i = Some m -> slot s j = if j =? i then Some m else slot s j.
Proof. intros Hs. destruct (j =? i) eqn:E; [|reflexivity]. assert (j = i) by lia. now subst. Qed.

Lemma refines_truncate s id from :
  Inv s -> step s (Truncate id from) <> APanic -> refines_step s (Truncate id from).
Proof.
  intros HI Hnp. pose proof (inv_ids s HI) as Hu.
  destruct (find_id s id) as [i|] eqn:Ef.
  - destruct (find_id_sget_some s id i Ef) as (m & Hs & Hid & Hg).
    assert (Hst : step s (Truncate id from) = truncate s i from) by (cbn [step]; unfold with_region; now rewrite Ef).
    rewrite Hst in Hnp. unfold truncate in Hst, Hnp. rewrite Hs in Hst, Hnp.
    assert (Hsp : forall x v, sget x (sput id v (sp_regions (abs s))) =
              if x =? id then Some v else if x =? id then None else sget x (sp_regions (abs s))).
    { intros x v. rewrite sget_sput. destruct (x =? id); reflexivity. }
    destruct (from =? r_len m) eqn:E0.
    + eapply refines_ok; [exact Hst| |].
      * cbn [spec_step]. rewrite Hg. cbn [s_len sview]. destruct (r_len m <? from) eqn:E1; [lia|]. reflexivity.
      * eapply (spec_eq_one_slot s s i m m _ _ _ Hu Hs).
        -- intros x. rewrite Hid. apply Hsp.
        -- reflexivity.
        -- intros j. now apply slot_self.
        -- left. reflexivity.
        -- reflexivity.
        -- reflexivity.
        -- unfold sview, sreg_eq. cbn [s_len s_data s_persisted]. split; [lia|]. split; [reflexivity|].
           rewrite E0. cbn [negb]. now rewrite orb_false_r.
    + destruct (r_len m <? from) eqn:E1.
      * eapply refines_err; [exact Hst| |apply spec_eq_refl].
        cbn [spec_step]. rewrite Hg. cbn [s_len sview]. rewrite E1. reflexivity.
      * destruct (negb (ok_set_len m from)); [congruence|].
        eapply refines_ok; [exact Hst| |].
        -- cbn [spec_step]. rewrite Hg. cbn [s_len sview]. rewrite E1. reflexivity.
        -- destruct (fin_same (m_set_len m from)) as ((F1 & F2 & F3) & _).
           destruct (m_set_len_other m from) as (L1 & L2 & _).
           eapply (spec_eq_one_slot s _ i m (fin (m_set_len m from)) _ _ _ Hu Hs).
           ++ intros x. rewrite F3, L2, Hid. apply Hsp.
           ++ intros x. unfold is_held. now rewrite held_wid_upd.
           ++ intros j. exact (slot_wid_upd s i (fun m0 => m_set_len m0 from) m j Hs).
           ++ left. congruence.
           ++ intros j mj k _ _ _. now rewrite mem_wid_upd.
           ++ intros j mj Hne _. rewrite (rfile_has_wid_upd s i _ m j Hs). destruct (j =? i) eqn:E; [lia|reflexivity].
           ++ unfold sview, sreg_eq. cbn [s_len s_data s_persisted]. rewrite F2, F1, L1, m_set_len_len, mem_wid_upd.
              split; [reflexivity|]. split; [reflexivity|].
              rewrite (rfile_has_wid_upd s i _ m i Hs), N.eqb_refl, m_set_len_state.
              destruct (r_len m =? from) eqn:E2; [lia|]. rewrite E0. cbn [negb]. rewrite orb_true_r. reflexivity.
  - eapply refines_err.
    + cbn [step]. unfold with_region. rewrite Ef. reflexivity.
    + cbn [spec_step]. rewrite (find_id_sget_none s id Ef). reflexivity.
    + apply spec_eq_refl.
Qed.

(* ---- Rename ---- *)
Lemma refines_rename s id new_id : Inv s -> refines_step s (Rename id new_id).
Proof.
  intros HI. pose proof (inv_ids s HI) as Hu.
  destruct (find_id s id) as [i|] eqn:Ef.
  - destruct (find_id_sget_some s id i Ef) as (m & Hs & Hid & Hg).
    assert (Hst : step s (Rename id new_id) = rename s i new_id) by (cbn [step]; unfold with_region; now rewrite Ef).
    unfold rename in Hst. rewrite Hs in Hst.
    destruct (find_id s new_id) as [i2|] eqn:Ef2.
    + destruct (find_id_sget_some s new_id i2 Ef2) as (m2 & _ & _ & Hg2).
      eapply refines_err; [exact Hst| |apply spec_eq_refl]. cbn [spec_step]. rewrite Hg, Hg2. reflexivity.
    + pose proof (proj1 (find_id_none_absent s new_id) Ef2) as Hab.
      assert (Hne : r_id m <> new_id) by (exact (Hab i m Hs)).
      eapply refines_ok; [exact Hst| |].
      * cbn [spec_step]. rewrite Hg, (find_id_sget_none s new_id Ef2). reflexivity.
      * destruct (fin_same (m_set_id m new_id)) as ((F1 & F2 & F3) & _).
        destruct (m_set_id_fields m new_id) as (L1 & L2 & L3 & _).
        eapply (spec_eq_one_slot s _ i m (fin (m_set_id m new_id)) _ _ _ Hu Hs).
        -- intros x. rewrite F3, L2, Hid, sget_sput, sget_sdel. reflexivity.
        -- intros x. unfold is_held. cbn [held set_held sp_held abs]. rewrite held_wid_upd, Hid. reflexivity.
        -- intros j. rewrite slot_set_held. exact (slot_wid_upd s i (fun m0 => m_set_id m0 new_id) m j Hs).
        -- right. rewrite F3, L2. exact Hab.
        -- intros j mj k _ _ _. cbn [mem set_held]. now rewrite mem_wid_upd.
        -- intros j mj Hne' _. change (rfile_has (set_held ?a ?b) j) with (rfile_has a j).
           rewrite (rfile_has_wid_upd s i _ m j Hs). destruct (j =? i) eqn:E; [lia|reflexivity].
        -- unfold sview, sreg_eq. cbn [s_len s_data s_persisted mem set_held].
           change (rfile_has (set_held ?a ?b) i) with (rfile_has a i).
           rewrite F2, F1, L1, L3, mem_wid_upd. split; [reflexivity|]. split; [reflexivity|].
           rewrite (rfile_has_wid_upd s i _ m i Hs), N.eqb_refl, m_set_id_state.
           destruct (r_id m =? new_id) eqn:E2; [lia|]. reflexivity.
  - eapply refines_err.
    + cbn [step]. unfold with_region. rewrite Ef. reflexivity.
    + cbn [spec_step]. rewrite (find_id_sget_none s id Ef). reflexivity.
    + apply spec_eq_refl.
Qed.
