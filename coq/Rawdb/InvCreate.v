(* Rawdb/InvCreate.v — Inv is preserved by create (placement into the best-fit hole or at the
   end of the layout); completeness of find_hole.  PROOF FILE. *)
From Anydb Require Import Common.Base Gen.Consts Rawdb.AMap Rawdb.Alloc Rawdb.AllocInv
  Rawdb.AMapFacts Rawdb.CoverFacts Rawdb.InvLayout Rawdb.AllocErr Rawdb.HolesFacts Rawdb.AllocNoPanic Rawdb.InvOps Rawdb.InvRemove.

Lemma hole_hole_disjoint s a z a' z' :
  Inv s -> aget a (holes s) = Some z -> aget a' (holes s) = Some z' -> a <> a' ->
  a + z <= a' \/ a' + z' <= a.
Proof.
  intros HI H1 H2 Hne.
  destruct (inv_hole_aligned s a z HI H1) as (_ & _ & Hp1).
  destruct (inv_hole_aligned s a' z' HI H2) as (_ & _ & Hp2).
  apply (disjoint_of_count (extents s) (a, z) (a', z')); auto.
  - intros x. now apply inv_owners_le1.
  - intros x. rewrite owners_extents.
    pose proof (owners_in2 (a, z) (a', z') (holes s) x (aget_in _ _ _ H1) (aget_in _ _ _ H2)) as Ho.
    assert (Hd : (a, z) <> (a', z')) by congruence. specialize (Ho Hd). lia.
Qed.

Lemma hole_inside_absent s a z x : Inv s -> aget a (holes s) = Some z -> a < x < a + z -> aget x (holes s) = None.
Proof.
  intros HI Hz Hx. destruct (aget x (holes s)) as [w|] eqn:E; [exfalso|reflexivity].
  destruct (inv_hole_aligned s x w HI E) as (_ & _ & Hp). cbn [snd] in Hp.
  destruct (hole_hole_disjoint s a z x w HI Hz E); lia.
Qed.

Lemma cov_split a p z x : p <= z -> cov (a, z) x = (cov (a, p) x + cov ((a + p)%N, (z - p)%N) x)%nat.
Proof.
  intros Hle. unfold cov, covers. cbn [fst snd].
  destruct ((a <=? x) && (x <? a + z)) eqn:E1; destruct ((a <=? x) && (x <? a + p)) eqn:E2;
    destruct ((a + p <=? x) && (x <? a + p + (z - p))) eqn:E3; lia.
Qed.

Lemma find_hole_complete s need : Inv s -> has_hole_for s need -> find_hole s need <> None.
Proof.
  intros HI (a & z & Hz & Hle). destruct (inv_h2s s HI) as [Hag Hne].
  destruct (proj1 (Hag a z) Hz) as (l & Hl & HIl).
  unfold find_hole. destruct (afirst_geq need (h2s s)) as [[k l']|] eqn:E.
  - apply afirst_geq_some in E. destruct E as [HIk _].
    assert (Hk : aget k (h2s s) = Some l').
    { apply in_aget; [apply (inv_sorted s HI)|exact HIk]. }
    destruct (Hne k l' Hk) as [Hnil _]. destruct l'; [congruence|discriminate].
  - pose proof (afirst_geq_none need (h2s s) z l E (aget_in _ _ _ Hl)). lia.
Qed.

Lemma first_free_spec l : forall i0,
  i0 <= first_free l i0 /\
  (nth_opt l (N.to_nat (first_free l i0 - i0)) = None \/ nth_opt l (N.to_nat (first_free l i0 - i0)) = Some None).
Proof.
  induction l as [|[m|] t IH]; intros i0; cbn [first_free].
  - split; [lia|]. left. destruct (N.to_nat (i0 - i0)); reflexivity.
  - destruct (IH (i0 + 1)) as [H1 H2]. split; [lia|].
    replace (N.to_nat (first_free t (i0 + 1) - i0)) with (S (N.to_nat (first_free t (i0 + 1) - (i0 + 1)))) by lia.
    exact H2.
  - split; [lia|]. right. replace (N.to_nat (i0 - i0)) with O by lia. reflexivity.
Qed.

Lemma first_free_none s : slot s (first_free (slots s) 0) = None.
Proof.
  unfold slot, get. destruct (first_free_spec (slots s) 0) as [_ H]. rewrite N.sub_0_r in H.
  destruct H as [-> | ->]; reflexivity.
Qed.

Lemma nth_opt_none_len {A} (l : list A) n : nth_opt l n = None -> (length l <= n)%nat.
Proof.
  revert n. induction l as [|h t IH]; intros [|n]; cbn [nth_opt length]; try discriminate; try lia.
  intros H. specialize (IH n H). lia.
Qed.

Lemma slot_slots_eq s s' : slots s' = slots s -> forall j, slot s' j = slot s j.
Proof. intros H j. unfold slot. now rewrite H. Qed.

Lemma create_finish s0 sb start L' id :
  Inv s0 -> find_id s0 id = None ->
  slots sb = slots s0 -> s2r sb = s2r s0 -> pend sb = pend s0 -> resv sb = resv s0 -> rfile sb = rfile s0 ->
  holes_wf (holes sb) (h2s sb) -> Forall aligned (holes sb) ->
  (forall a z a' z', aget a (holes sb) = Some z -> aget a' (holes sb) = Some z' -> a + z <> a') ->
  (forall x, (owners (region_exts (slots s0)) x + owners (holes sb) x + owners (pend s0) x + owners (resv s0) x
              + cov (start, PAGE_SIZE) x)%nat = if x <? L' then 1%nat else 0%nat) ->
  L' <= file_len sb -> aget start (s2r s0) = None -> start mod PAGE_SIZE = 0 ->
  let i := first_free (slots sb) 0 in
  let m := mkR start NEW_REGION_LEN NEW_REGION_RESERVED id ST_WRITE u64_max 0 in
  let rf := if len (rfile sb) <? i + 1 then rfile sb ++ repeat None (N.to_nat (i + 1 - len (rfile sb))) else rfile sb in
  let s3 := put_slot (set_rfile sb rf) i (Some m) in
  let s4 := set_s2r s3 (ains start i (s2r s3)) in
  (Inv s4 /\ layout_len s4 = L') /\ (forall j, slot s4 j = if j =? i then Some m else slot s0 j) /\ slot s0 i = None.
Proof.
  intros HI Hfid E1 E2 E3 E4 E5 Hwf Hal Hadj Hcov Hfile Hs2r Hst i m rf s3 s4.
  assert (Hi0 : slot s0 i = None).
  { subst i. rewrite E1. apply first_free_none. }
  assert (Hsl : forall j, slot s4 j = if j =? i then Some m else slot s0 j).
  { intros j. subst s4 s3. rewrite slot_set_s2r, slot_put_slot, slot_set_rfile, (slot_slots_eq s0 sb E1). reflexivity. }
  destruct (inv_parts_aligned s0 HI) as (Ar & Ah & Ap & Av).
  destruct (inv_sorted s0 HI) as (S1 & S2 & S3 & S4 & S5).
  destruct Hwf as (W1 & W2 & W3).
  split; [|split; [exact Hsl|exact Hi0]].
  apply mk_inv.
  - apply aligned_extents; subst s4 s3; st_simpl; rewrite ?E3, ?E4; auto.
    intros j mj. rewrite Hsl. destruct (j =? i); [intros [= <-]|eauto].
    subst m. unfold aligned, rext. cbn [fst snd r_start r_reserved]. rewrite NEW_RESERVED_PAGE.
    split; [exact Hst|]. split; [exact PAGE_mod_PAGE|exact PAGE_pos].
  - intros x. rewrite owners_extents. subst s4 s3. st_simpl. rewrite E1, E3, E4.
    pose proof (owners_put_slot s0 i (Some m) x) as Ho. rewrite Hi0 in Ho. cbn [oext] in Ho.
    unfold rext in Ho. subst m. cbn [r_start r_reserved] in Ho. rewrite NEW_RESERVED_PAGE in Ho.
    specialize (Hcov x). rewrite NEW_RESERVED_PAGE. lia.
  - intros j mj. rewrite Hsl. destruct (j =? i); [intros [= <-]|apply (inv_len s0 HI)].
    subst m. cbn [r_len r_reserved]. rewrite NEW_RESERVED_PAGE, NEW_LEN_0. pose proof PAGE_le_MAX. lia.
  - intros a j. subst s4 s3. st_simpl. rewrite E2, aget_ains.
    fold (put_slot (set_rfile sb rf) i (Some m)).
    fold (set_s2r (put_slot (set_rfile sb rf) i (Some m)) (ains start i (s2r s0))).
    rewrite slot_set_s2r, slot_put_slot, slot_set_rfile, (slot_slots_eq s0 sb E1).
    destruct (a =? start) eqn:Ea.
    + assert (a = start) by lia; subst a. split.
      * intros [= <-]. rewrite N.eqb_refl. exists m. split; reflexivity.
      * intros (mj & Hj & Hsj). destruct (j =? i) eqn:Ej; [f_equal; lia|].
        exfalso. assert (Hx : aget start (s2r s0) = Some j) by (apply (inv_s2r s0 HI); eauto). congruence.
    + rewrite (inv_s2r s0 HI a j). destruct (j =? i) eqn:Ej; [|reflexivity].
      assert (j = i) by lia; subst j. split.
      * intros (mj & Hj & _). congruence.
      * intros (mj & [= <-] & Hsj). subst m. cbn [r_start] in Hsj. lia.
  - subst s4 s3. st_simpl. rewrite E2, E3, E4. repeat split; auto using asorted_ains.
  - exact W3.
  - exact Hadj.
  - exact Hfile.
  - apply (ids_put s0 s4 i (Some m) (inv_ids s0 HI) Hsl). right. exact Hfid.
  - apply (mirrors_gen s0 s4 i (Some m) (inv_rfile s0 HI) Hsl).
    + intros j _. subst s4 s3 rf. st_simpl. rewrite E5. destruct (len (rfile s0) <? i + 1); [apply get_pad|left; reflexivity].
    + subst m. cbn [r_state r_len r_dmax]. change (ST_WRITE =? ST_WRITE) with true. cbn iota.
      split; [|split; [exact NEW_LEN_0|reflexivity]].
      subst s4 s3 rf. st_simpl. rewrite E5.
      pose proof (inv_rfile s0 HI i) as Hm. rewrite Hi0 in Hm.
      destruct (len (rfile s0) <? i + 1) eqn:El.
      * unfold get. rewrite nth_opt_app_repeat. unfold get in Hm.
        destruct Hm as [-> | ->]; [reflexivity|].
        destruct (Nat.ltb (N.to_nat i) (length (rfile s0) + N.to_nat (i + 1 - len (rfile s0)))) eqn:E; [reflexivity|].
        apply Nat.ltb_ge in E. unfold len in *. lia.
      * destruct Hm as [Hm|Hm]; [exact Hm|]. unfold get in Hm. apply nth_opt_none_len in Hm. unfold len in El. lia.
  - subst s4 s3. st_simpl. rewrite E4. apply (inv_no_resv s0 HI).
Qed.

Lemma roc_holes_props s a by_ z H :
  Inv s -> aget a (holes s) = Some z -> 0 < by_ -> by_ <= z -> by_ mod PAGE_SIZE = 0 -> asorted H ->
  (forall x, aget x H = if x =? a then None
                         else if (x =? a + by_) && (by_ <? z) then Some (z - by_) else aget x (holes s)) ->
  Forall aligned H /\
  (forall x zx x' zx', aget x H = Some zx -> aget x' H = Some zx' -> x + zx <> x') /\
  (forall x zx, aget x H = Some zx -> x + zx <> a /\ x <> a + by_ \/ (x = a + by_ /\ by_ < z)).
Proof.
  intros HI Hz Hpos Hle Hmod HsH Hget.
  destruct (inv_hole_aligned s a z HI Hz) as (Ha1 & Ha2 & Ha3). cbn [fst snd] in Ha1, Ha2, Ha3.
  assert (Hcase : forall x zx, aget x H = Some zx ->
            x <> a /\ ((x = a + by_ /\ by_ < z /\ zx = z - by_) \/ (aget x (holes s) = Some zx /\ x <> a + by_ \/ aget x (holes s) = Some zx /\ ~ by_ < z))).
  { intros x zx Hx. rewrite Hget in Hx. destruct (x =? a) eqn:Ea; [discriminate|]. split; [lia|].
    destruct ((x =? a + by_) && (by_ <? z)) eqn:E.
    - left. inversion Hx. lia.
    - right. destruct (x =? a + by_) eqn:Eb; [right|left]; split; auto; lia. }
  assert (Hold : forall x zx, aget x (holes s) = Some zx -> x <> a -> 0 < zx /\ (x + zx <= a \/ a + z <= x)).
  { intros x zx Hx Hne. destruct (inv_hole_aligned s x zx HI Hx) as (_ & _ & Hp). cbn [snd] in Hp. split; [exact Hp|].
    apply (hole_hole_disjoint s x zx a z HI Hx Hz Hne). }
  split; [|split].
  - apply Forall_amap; [|exact HsH]. intros x zx Hx. destruct (Hcase x zx Hx) as [Hne [(-> & Hlt & ->)|[[Ho _]|[Ho _]]]].
    + unfold aligned. cbn [fst snd]. split; [apply mod0_add; auto using PAGE_nz|]. split; [apply mod0_sub; auto using PAGE_nz|lia].
    + eapply inv_hole_aligned; eauto.
    + eapply inv_hole_aligned; eauto.
  - intros x zx x' zx' Hx Hx'.
    destruct (Hcase x zx Hx) as [Hne [(-> & Hlt & ->)|Hox]]; destruct (Hcase x' zx' Hx') as [Hne' [(-> & Hlt' & ->)|Hox']].
    + lia.
    + assert (Ho' : aget x' (holes s) = Some zx') by tauto.
      pose proof (inv_no_adjacent_holes s HI a z x' zx' Hz Ho'). lia.
    + assert (Ho : aget x (holes s) = Some zx) by tauto. destruct (Hold x zx Ho Hne) as [Hp Hd]. lia.
    + assert (Ho : aget x (holes s) = Some zx) by tauto. assert (Ho' : aget x' (holes s) = Some zx') by tauto.
      apply (inv_no_adjacent_holes s HI x zx x' zx' Ho Ho').
  - intros x zx Hx. destruct (Hcase x zx Hx) as [Hne [(-> & Hlt & ->)|Hox]]; [right; auto|].
    assert (Ho : aget x (holes s) = Some zx) by tauto. destruct (Hold x zx Ho Hne) as [Hp Hd].
    destruct (N.eq_dec x (a + by_)) as [->|Hnb]; [|left; split; [|exact Hnb]].
    + exfalso. pose proof (inv_no_adjacent_holes s HI a z (a + by_) zx Hz Ho). lia.
    + pose proof (inv_no_adjacent_holes s HI x zx a z Ho Hz). lia.
Qed.

(* the reuse clause of C02 for one step: a placement that happens while an adequate hole exists
   does not grow the layout *)
Definition reuse_ok (s s' : st) : Prop :=
  forall j mj', placed s s' j -> slot s' j = Some mj' -> has_hole_for s (r_reserved mj') -> layout_len s' = layout_len s.

Lemma reuse_ok_same_len s s' : layout_len s' = layout_len s -> reuse_ok s s'.
Proof. intros H j mj' _ _ _. exact H. Qed.

Lemma reuse_ok_no_move s s' :
  (forall j mj', slot s' j = Some mj' -> exists mj, slot s j = Some mj /\ r_start mj = r_start mj') -> reuse_ok s s'.
Proof.
  intros H j mj' Hp Hj _. exfalso. unfold placed in Hp. rewrite Hj in Hp.
  destruct (H j mj' Hj) as (mj & Hs & He). rewrite Hs in Hp. auto.
Qed.

Lemma inv_create s id hold s' r :
  Inv s -> create s id hold = AOk (s', r) -> Inv s' /\ reuse_ok s s'.
Proof.
  intros HI. unfold create. cbv zeta.
  set (s0 := if hold then set_held s (id :: held s) else s).
  assert (H0 : Inv s0 /\ layout_len s0 = layout_len s) by (destruct hold; [apply inv_set_held|]; auto).
  assert (Hfh : find_hole s0 PAGE_SIZE = find_hole s PAGE_SIZE) by (destruct hold; reflexivity).
  assert (Hsl0 : forall j, slot s0 j = slot s j) by (destruct hold; reflexivity).
  clearbody s0. destruct H0 as [HI0 HL0].
  destruct (find_id s0 id) eqn:Efi.
  { intros [= <- _]. split; [exact HI0|]. apply reuse_ok_no_move. intros j mj' Hj. rewrite Hsl0 in Hj. eauto. }
  destruct (find_hole s0 PAGE_SIZE) as [a|] eqn:Ef.
  - rewrite Ef.
    destruct (find_hole_spec s0 _ _ (inv_h2s s0 HI0) (proj2 (proj2 (proj2 (proj2 (inv_sorted s0 HI0))))) Ef) as (z & Hz & Hle).
    destruct (roc_spec s0 a PAGE_SIZE z (inv_holes_wf s0 HI0)) as (H & Q & Er & Hwf & Hget & Hown); auto using PAGE_pos.
    { intros x Hx. eapply hole_inside_absent; eauto. }
    rewrite Er. cbn [abind].
    destruct (layout_insert_region _ a _) as [s4|] eqn:El; [|discriminate]. intros [= <- _].
    unfold layout_insert_region in El.
    match type of El with (match ?g with _ => _ end) = _ => destruct g eqn:Es2r; [discriminate|] end.
    inversion El; subst s4. clear El.
    destruct (roc_holes_props s0 a PAGE_SIZE z H HI0 Hz PAGE_pos Hle PAGE_mod_PAGE (proj1 Hwf) Hget) as (Hal & Hadj & _).
    destruct (inv_hole_aligned s0 a z HI0 Hz) as (Ha1 & _). cbn [fst] in Ha1.
    assert (Hc : forall x, (owners (region_exts (slots s0)) x + owners (holes (set_holes s0 H Q)) x + owners (pend s0) x
                 + owners (resv s0) x + cov (a, PAGE_SIZE) x)%nat = if x <? layout_len s0 then 1%nat else 0%nat).
    { intros x. specialize (Hown x). pose proof (inv_cover s0 HI0 x) as Hc. rewrite owners_extents in Hc.
      rewrite (cov_split a PAGE_SIZE z x Hle) in Hown. cbn [holes set_holes]. lia. }
    pose proof (create_finish s0 (set_holes s0 H Q) a (layout_len s0) id HI0 Efi
                  eq_refl eq_refl eq_refl eq_refl eq_refl Hwf Hal Hadj Hc (inv_file s0 HI0) Es2r Ha1) as Hfin.
    cbv zeta in Hfin. destruct Hfin as [[Hf1 Hf2] _]. split; [exact Hf1|].
    apply reuse_ok_same_len. exact (eq_trans Hf2 HL0).
  - rewrite find_hole_set_min_len, Ef. cbn [abind].
    destruct (set_min_len_shape s0 (layout_len s0 + PAGE_SIZE)) as (fl & Efl & _).
    pose proof (set_min_len_ge s0 (layout_len s0 + PAGE_SIZE)) as Hge. rewrite Efl in *. clear Efl.
    change (layout_len (set_file_len s0 fl)) with (layout_len s0).
    destruct (layout_insert_region _ (layout_len s0) _) as [s4|] eqn:El; [|discriminate]. intros [= <- _].
    unfold layout_insert_region in El.
    match type of El with (match ?g with _ => _ end) = _ => destruct g eqn:Es2r; [discriminate|] end.
    inversion El; subst s4. clear El.
    assert (Hc : forall x, (owners (region_exts (slots s0)) x + owners (holes (set_file_len s0 fl)) x + owners (pend s0) x
                 + owners (resv s0) x + cov (layout_len s0, PAGE_SIZE) x)%nat
                 = if x <? layout_len s0 + PAGE_SIZE then 1%nat else 0%nat).
    { intros x. pose proof (inv_cover s0 HI0 x) as Hc. rewrite owners_extents in Hc. cbn [holes set_file_len].
      unfold cov, covers. cbn [fst snd].
      destruct (x <? layout_len s0) eqn:E1; destruct ((layout_len s0 <=? x) && (x <? layout_len s0 + PAGE_SIZE)) eqn:E2;
        destruct (x <? layout_len s0 + PAGE_SIZE) eqn:E3; lia. }
    pose proof (create_finish s0 (set_file_len s0 fl) (layout_len s0) (layout_len s0 + PAGE_SIZE) id HI0 Efi
                  eq_refl eq_refl eq_refl eq_refl eq_refl (inv_holes_wf s0 HI0)
                  (proj1 (proj2 (inv_parts_aligned s0 HI0))) (inv_no_adjacent_holes s0 HI0) Hc Hge Es2r
                  (layout_len_aligned s0 HI0)) as Hfin.
    cbv zeta in Hfin. destruct Hfin as [[Hf1 Hf2] [Hsl Hi0]]. split; [exact Hf1|].
    intros j mj' Hp Hj Hh. exfalso. rewrite Hsl in Hj. unfold placed in Hp. rewrite Hsl in Hp.
    destruct (j =? first_free (slots (set_file_len s0 fl)) 0) eqn:Ej.
    + inversion Hj; subst mj'. cbn [r_reserved] in Hh. rewrite NEW_RESERVED_PAGE in Hh.
      apply (find_hole_complete s PAGE_SIZE HI Hh). symmetry. exact Hfh.
    + rewrite Hj, <- Hsl0, Hj in Hp. auto.
Qed.
