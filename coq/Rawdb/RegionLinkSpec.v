(* Rawdb/RegionLinkSpec.v — links between the three descriptions of a rawdb region:
   the abstract reference of C01 (AllocSpec.sreg: length + data function), the byte-vector
   interface of the vector models (Vec/RegionSpec.v) and its generic copy with the
   MAX_RESERVED_SIZE assertion (Vec/CvRegion.v).
   The Vec modules are NOT imported (constructor / function names clash with Alloc.aerr). *)
From Anydb Require Import Common.Base Gen.Consts Rawdb.AMap Rawdb.Alloc Rawdb.AllocSpec.
From Anydb Require Vec.RegionSpec Vec.CvRegion.

(* ---------- list helpers on seqN ---------- *)

Lemma seqN_app a x y : seqN a (x + y) = seqN a x ++ seqN (a + N.of_nat x) y.
Proof.
  revert a; induction x as [|x IHx]; intros a.
  - cbn [seqN Nat.add app]. f_equal. lia.
  - cbn [seqN Nat.add app]. rewrite IHx. do 3 f_equal. lia.
Qed.

Lemma firstn_seqN k a c : firstn k (seqN a c) = seqN a (Nat.min k c).
Proof.
  revert a c; induction k as [|k IHk]; intros a c.
  - reflexivity.
  - destruct c as [|c]; [reflexivity|].
    cbn [seqN firstn Nat.min]. now rewrite IHk.
Qed.

Lemma skipn_seqN k a c : skipn k (seqN a c) = seqN (a + N.of_nat k) (c - k).
Proof.
  revert a c; induction k as [|k IHk]; intros a c.
  - cbn [skipn]. rewrite Nat.sub_0_r. f_equal. lia.
  - destruct c as [|c]; [reflexivity|].
    cbn [seqN skipn Nat.sub]. rewrite IHk. f_equal. lia.
Qed.

Lemma map_seqN_shift {B} (g : N -> B) a c :
  map g (seqN a c) = map (fun k => g (k + a)) (seqN 0 c).
Proof.
  revert g a; induction c as [|c IHc]; intros g a; [reflexivity|].
  cbn [seqN map]. f_equal.
  rewrite IHc. rewrite (IHc (fun k => g (k + a)) (0 + 1)).
  apply map_ext. intros k. f_equal. lia.
Qed.

Lemma take_map {A B} (g : A -> B) n l : take n (map g l) = map g (take n l).
Proof. unfold take. apply firstn_map. Qed.
Lemma drop_map {A B} (g : A -> B) n l : drop n (map g l) = map g (drop n l).
Proof. unfold drop. apply skipn_map. Qed.
Lemma len_map {A B} (g : A -> B) l : len (map g l) = len l.
Proof. unfold len. now rewrite map_length. Qed.

(* ---------- the byte list of a reference region ---------- *)

Definition bytes_of (r : sreg) : list N := map (s_data r) (seqN 0 (N.to_nat (s_len r))).
Definition data_of (f : N -> N) (n : N) : list N := map f (seqN 0 (N.to_nat n)).

Lemma len_data_of f n : len (data_of f n) = n.
Proof. unfold data_of, len. rewrite map_length, seqN_length. lia. Qed.
Lemma len_bytes_of r : len (bytes_of r) = s_len r.
Proof. apply len_data_of. Qed.

Lemma data_of_ext f g n : (forall k, k < n -> f k = g k) -> data_of f n = data_of g n.
Proof.
  intros H. unfold data_of. apply map_ext_in. intros k Hk. apply in_seqN in Hk.
  apply H. lia.
Qed.

Lemma bytes_of_sreg_eq x y : sreg_eq x y -> bytes_of x = bytes_of y.
Proof.
  intros (Hl & Hd & _). unfold bytes_of. rewrite <- Hl.
  apply (data_of_ext (s_data x) (s_data y) (s_len x)). exact Hd.
Qed.

Lemma bytes_of_nil p d : bytes_of (mkS 0 d p) = [].
Proof. reflexivity. Qed.

Lemma take_data_of f n a : a <= n -> take a (data_of f n) = data_of f a.
Proof.
  intros H. unfold data_of. rewrite take_map. unfold take. rewrite firstn_seqN.
  do 2 f_equal. lia.
Qed.

(* prefix of d below a, then f on [a, a+n) *)
Lemma splice_trunc (d f d' : N -> N) (L n a : N) :
  a <= L ->
  (forall k, k < a -> d' k = d k) ->
  (forall k, a <= k < a + n -> d' k = f (k - a)) ->
  take a (data_of d L) ++ data_of f n = data_of d' (a + n).
Proof.
  intros HaL Hlo Hmid.
  rewrite take_data_of by exact HaL.
  unfold data_of.
  replace (N.to_nat (a + n)) with (N.to_nat a + N.to_nat n)%nat by lia.
  rewrite seqN_app, map_app. f_equal.
  - apply map_ext_in. intros k Hk. apply in_seqN in Hk. symmetry. apply Hlo. lia.
  - rewrite (map_seqN_shift d'). apply map_ext_in. intros k Hk. apply in_seqN in Hk.
    rewrite Hmid by lia. f_equal. lia.
Qed.

Lemma splice_bytes (d f d' : N -> N) (L n a : N) :
  a <= L ->
  (forall k, k < a -> d' k = d k) ->
  (forall k, a <= k < a + n -> d' k = f (k - a)) ->
  (forall k, a + n <= k < L -> d' k = d k) ->
  take a (data_of d L) ++ data_of f n ++ drop (a + n) (data_of d L)
  = data_of d' (N.max (a + n) L).
Proof.
  intros HaL Hlo Hmid Hhi.
  rewrite app_assoc. rewrite (splice_trunc d f d' L n a HaL Hlo Hmid).
  unfold data_of at 2 3. rewrite drop_map. unfold drop. rewrite skipn_seqN.
  replace (N.to_nat (N.max (a + n) L))
    with (N.to_nat (a + n) + (N.to_nat L - N.to_nat (a + n)))%nat by lia.
  rewrite seqN_app, map_app. unfold data_of. f_equal.
  apply map_ext_in. intros k Hk. apply in_seqN in Hk. symmetry. apply Hhi. lia.
Qed.

(* ---------- AllocSpec.s_write / truncate against RegionSpec ---------- *)

Lemma s_write_at_link r f n a :
  match s_write r f n (Some a) false with
  | Ok r' => RegionSpec.r_write_at (bytes_of r) (data_of f n) a = Ok (bytes_of r')
  | Err e => e = Alloc.WriteOutOfBounds /\
             RegionSpec.r_write_at (bytes_of r) (data_of f n) a = Err RegionSpec.WriteOutOfBounds
  | Panic => False
  end.
Proof.
  unfold s_write, RegionSpec.r_write_at. rewrite len_bytes_of, len_data_of.
  destruct (s_len r <? a) eqn:E; [split; reflexivity|].
  f_equal. unfold bytes_of. cbn [s_len s_data].
  apply (splice_bytes (s_data r) f); intros; try lia.
  - destruct ((a <=? k) && (k <? a + n)) eqn:T; [lia | reflexivity].
  - destruct ((a <=? k) && (k <? a + n)) eqn:T; [reflexivity | lia].
  - destruct ((a <=? k) && (k <? a + n)) eqn:T; [lia | reflexivity].
Qed.

Lemma s_trunc_write_link r f n a :
  match s_write r f n (Some a) true with
  | Ok r' => RegionSpec.r_truncate_write (bytes_of r) a (data_of f n) = Ok (bytes_of r')
  | Err e => e = Alloc.WriteOutOfBounds /\
             RegionSpec.r_truncate_write (bytes_of r) a (data_of f n) = Err RegionSpec.WriteOutOfBounds
  | Panic => False
  end.
Proof.
  unfold s_write, RegionSpec.r_truncate_write. rewrite len_bytes_of.
  destruct (s_len r <? a) eqn:E; [split; reflexivity|].
  f_equal. unfold bytes_of. cbn [s_len s_data].
  apply (splice_trunc (s_data r) f); intros; try lia.
  - destruct ((a <=? k) && (k <? a + n)) eqn:T; [lia | reflexivity].
  - destruct ((a <=? k) && (k <? a + n)) eqn:T; [reflexivity | lia].
Qed.

Lemma s_append_link r f n :
  exists r', s_write r f n None false = Ok r' /\
             RegionSpec.r_write_at (bytes_of r) (data_of f n) (s_len r) = Ok (bytes_of r').
Proof.
  unfold s_write. eexists; split; [reflexivity|].
  unfold RegionSpec.r_write_at. rewrite len_bytes_of, len_data_of.
  destruct (s_len r <? s_len r) eqn:E; [lia|].
  f_equal. unfold bytes_of. cbn [s_len s_data].
  replace (s_len r + n) with (N.max (s_len r + n) (s_len r)) at 2 by lia.
  apply (splice_bytes (s_data r) f); intros; try lia.
  - destruct (k <? s_len r) eqn:T; [reflexivity | lia].
  - destruct (k <? s_len r) eqn:T; [lia | reflexivity].
Qed.

Lemma s_truncate_link r from p :
  if s_len r <? from then RegionSpec.r_truncate (bytes_of r) from = Err RegionSpec.TruncateInvalid
  else RegionSpec.r_truncate (bytes_of r) from = Ok (bytes_of (mkS from (s_data r) p)).
Proof.
  unfold RegionSpec.r_truncate. rewrite len_bytes_of.
  destruct (s_len r <? from) eqn:E; [reflexivity|].
  f_equal. unfold bytes_of. cbn [s_len s_data].
  apply (take_data_of (s_data r) (s_len r) from). lia.
Qed.

(* ---------- CvRegion at A := N against RegionSpec ---------- *)

Definition cv_err (e : CvRegion.rerr) : RegionSpec.rerr :=
  match e with
  | CvRegion.WriteOutOfBounds => RegionSpec.WriteOutOfBounds
  | CvRegion.TruncateInvalid => RegionSpec.TruncateInvalid
  end.
Definition cv_res (x : res CvRegion.rerr (list N)) : res RegionSpec.rerr (list N) :=
  match x with Ok v => Ok v | Err e => Err (cv_err e) | Panic => Panic end.

Lemma cv_write_at_equiv (r bs : list N) a :
  (CvRegion.r_write_at r bs a = Panic /\ len r >= a /\
   MAX_RESERVED_SIZE < N.max (a + len bs) (len r))
  \/ cv_res (CvRegion.r_write_at r bs a) = RegionSpec.r_write_at r bs a.
Proof.
  unfold CvRegion.r_write_at, RegionSpec.r_write_at.
  destruct (len r <? a) eqn:E1; [right; reflexivity|].
  destruct (MAX_RESERVED_SIZE <? N.max (a + len bs) (len r)) eqn:E2.
  - left. repeat split; lia.
  - right. reflexivity.
Qed.

Lemma cv_truncate_equiv (r : list N) n :
  cv_res (CvRegion.r_truncate r n) = RegionSpec.r_truncate r n.
Proof.
  unfold CvRegion.r_truncate, RegionSpec.r_truncate.
  destruct (len r <? n) eqn:E; reflexivity.
Qed.

Lemma cv_truncate_write_equiv (r bs : list N) a :
  (CvRegion.r_truncate_write r a bs = Panic /\ len r >= a /\ MAX_RESERVED_SIZE < a + len bs)
  \/ cv_res (CvRegion.r_truncate_write r a bs) = RegionSpec.r_truncate_write r a bs.
Proof.
  unfold CvRegion.r_truncate_write, RegionSpec.r_truncate_write.
  destruct (len r <? a) eqn:E1; [right; reflexivity|].
  destruct (MAX_RESERVED_SIZE <? a + len bs) eqn:E2.
  - left. repeat split; lia.
  - right. reflexivity.
Qed.

Lemma cv_write_at_no_panic (r bs : list N) a :
  N.max (a + len bs) (len r) <= MAX_RESERVED_SIZE ->
  cv_res (CvRegion.r_write_at r bs a) = RegionSpec.r_write_at r bs a.
Proof.
  intros H. destruct (cv_write_at_equiv r bs a) as [(_ & _ & Hlt) | Heq]; [lia | exact Heq].
Qed.

Lemma cv_truncate_write_no_panic (r bs : list N) a :
  a + len bs <= MAX_RESERVED_SIZE ->
  cv_res (CvRegion.r_truncate_write r a bs) = RegionSpec.r_truncate_write r a bs.
Proof.
  intros H. destruct (cv_truncate_write_equiv r bs a) as [(_ & _ & Hlt) | Heq]; [lia | exact Heq].
Qed.

(* ---------- CvRegion commutes with map ---------- *)

Definition map_res {A B E} (g : A -> B) (x : res E (list A)) : res E (list B) :=
  match x with Ok v => Ok (map g v) | Err e => Err e | Panic => Panic end.

Lemma cv_write_at_map {A B} (g : A -> B) (r bs : list A) a :
  map_res g (CvRegion.r_write_at r bs a) = CvRegion.r_write_at (map g r) (map g bs) a.
Proof.
  unfold CvRegion.r_write_at. rewrite !len_map.
  destruct (len r <? a) eqn:E1; [reflexivity|].
  destruct (MAX_RESERVED_SIZE <? N.max (a + len bs) (len r)) eqn:E2; [reflexivity|].
  cbn [map_res]. now rewrite !map_app, take_map, drop_map.
Qed.

Lemma cv_truncate_map {A B} (g : A -> B) (r : list A) n :
  map_res g (CvRegion.r_truncate r n) = CvRegion.r_truncate (map g r) n.
Proof.
  unfold CvRegion.r_truncate. rewrite len_map.
  destruct (len r <? n) eqn:E; [reflexivity|].
  cbn [map_res]. now rewrite take_map.
Qed.

Lemma cv_truncate_write_map {A B} (g : A -> B) (r bs : list A) a :
  map_res g (CvRegion.r_truncate_write r a bs) = CvRegion.r_truncate_write (map g r) a (map g bs).
Proof.
  unfold CvRegion.r_truncate_write. rewrite !len_map.
  destruct (len r <? a) eqn:E1; [reflexivity|].
  destruct (MAX_RESERVED_SIZE <? a + len bs) eqn:E2; [reflexivity|].
  cbn [map_res]. now rewrite map_app, take_map.
Qed.
