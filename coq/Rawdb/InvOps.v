(* Rawdb/InvOps.v — generic pieces for proving `Inv` of a successor state described by its slot
   function and maps; preservation for the operations that do not move extents.  PROOF FILE. *)
From Anydb Require Import Common.Base Gen.Consts Rawdb.AMap Rawdb.Alloc Rawdb.AllocInv
  Rawdb.AMapFacts Rawdb.CoverFacts Rawdb.InvLayout Rawdb.AllocErr.

(* ---- states that agree on everything Inv looks at ---- *)
Lemma inv_same s s' :
  slots s' = slots s -> s2r s' = s2r s -> holes s' = holes s -> h2s s' = h2s s -> resv s' = resv s ->
  pend s' = pend s -> rfile s' = rfile s -> file_len s' = file_len s ->
  Inv s -> Inv s' /\ layout_len s' = layout_len s.
Proof.
  destruct s as [a1 a2 a3 a4 a5 a6 a7 a8 a9 a10], s' as [b1 b2 b3 b4 b5 b6 b7 b8 b9 b10].
  cbn [slots s2r holes h2s resv pend rfile file_len]. intros; subst.
  split; [|reflexivity]. match goal with H : Inv _ |- _ => destruct H end. constructor; assumption.
Qed.

Lemma inv_set_file_len s fl : file_len s <= fl -> Inv s -> Inv (set_file_len s fl) /\ layout_len (set_file_len s fl) = layout_len s.
Proof.
  intros Hle H. split; [|reflexivity]. destruct H. constructor; try assumption.
  change (layout_len s <= fl). lia.
Qed.

Lemma set_min_len_ge s n : n <= file_len (set_min_len s n).
Proof.
  unfold set_min_len. pose proof (ceil_page_ge n). destruct (ceil_page n <=? file_len s) eqn:E; [lia|].
  cbn [file_len set_file_len].
  pose proof (ceil_page_ge (N.max (N.max (ceil_page n) (file_len s * GROW_FACTOR)) GROW_FLOOR)). lia.
Qed.

Lemma inv_set_min_len s n : Inv s -> Inv (set_min_len s n) /\ layout_len (set_min_len s n) = layout_len s.
Proof.
  intros H. destruct (set_min_len_shape s n) as (fl & -> & Hle). now apply inv_set_file_len.
Qed.

(* ---- small generic parts ---- *)
Lemma owners_put_slot s i x a :
  (owners (region_exts (set_at (slots s) (N.to_nat i) x None)) a + oext (slot s i) a
   = owners (region_exts (slots s)) a + oext x a)%nat.
Proof.
  pose proof (owners_region_set (slots s) (N.to_nat i) x a) as H.
  replace (match nth_opt (slots s) (N.to_nat i) with Some y => y | None => None end) with (slot s i) in H; [exact H|].
  unfold slot, get. destruct (nth_opt (slots s) (N.to_nat i)) as [[m|]|]; reflexivity.
Qed.

Lemma slot_of_slots s s' i x :
  slots s' = set_at (slots s) (N.to_nat i) x None -> forall j, slot s' j = if j =? i then x else slot s j.
Proof.
  intros H j. rewrite <- (slot_put_slot s i x j). unfold slot, put_slot, set_slots. cbn [slots]. now rewrite H.
Qed.

Lemma aligned_extents s :
  (forall j mj, slot s j = Some mj -> aligned (rext mj)) ->
  Forall aligned (holes s) -> Forall aligned (pend s) -> Forall aligned (resv s) ->
  Forall aligned (extents s).
Proof.
  intros Hr Hh Hp Hv. unfold extents. repeat (apply Forall_app; split); try assumption.
  apply Forall_forall. intros e HI. apply in_region_exts_slot in HI. destruct HI as (j & mj & Hj & ->). eauto.
Qed.

Lemma inv_parts_aligned s :
  Inv s -> (forall j mj, slot s j = Some mj -> aligned (rext mj)) /\
           Forall aligned (holes s) /\ Forall aligned (pend s) /\ Forall aligned (resv s).
Proof.
  intros H. pose proof (inv_aligned s H) as Ha. unfold extents in Ha.
  apply Forall_app in Ha. destruct Ha as [_ Ha]. apply Forall_app in Ha. destruct Ha as [Hh Ha].
  apply Forall_app in Ha. destruct Ha as [Hp Hv]. split; [|auto].
  intros j mj Hj. eapply inv_region_aligned; eauto.
Qed.

Lemma ids_put s s' i om :
  ids_unique s ->
  (forall j, slot s' j = if j =? i then om else slot s j) ->
  match om with
  | Some m' => (exists m, slot s i = Some m /\ r_id m' = r_id m) \/ find_id s (r_id m') = None
  | None => True
  end ->
  ids_unique s'.
Proof.
  intros Hu Hsl Hid j1 j2 m1 m2. rewrite !Hsl.
  destruct (j1 =? i) eqn:E1; destruct (j2 =? i) eqn:E2; intros H1 H2 Heq.
  - lia.
  - subst om. destruct Hid as [(m & Hm & Hid)|Hn].
    + assert (i = j2) by (eapply Hu; eauto; congruence). lia.
    + exfalso. eapply find_id_none; eauto.
  - subst om. destruct Hid as [(m & Hm & Hid)|Hn].
    + assert (j1 = i) by (eapply Hu; eauto; congruence). lia.
    + exfalso. eapply find_id_none; eauto.
  - eapply Hu; eauto.
Qed.

Lemma mirrors_gen s s' i om :
  rfile_mirrors s ->
  (forall j, slot s' j = if j =? i then om else slot s j) ->
  (forall j, j <> i -> get (rfile s') j = get (rfile s) j \/ (get (rfile s) j = None /\ get (rfile s') j = Some None)) ->
  match om with
  | Some m' => if r_state m' =? ST_WRITE then get (rfile s') i = Some None /\ r_len m' = 0 /\ r_dmax m' = 0
               else get (rfile s') i = Some (Some (srec m'))
  | None => get (rfile s') i = Some None \/ get (rfile s') i = None
  end ->
  rfile_mirrors s'.
Proof.
  intros Hm Hsl Hrf Hi j. rewrite Hsl. destruct (j =? i) eqn:E.
  - assert (j = i) by lia; subst. destruct om; exact Hi.
  - specialize (Hm j). destruct (Hrf j ltac:(lia)) as [->|[H1 H2]]; [exact Hm|].
    destruct (slot s j) as [mj|]; [|left; exact H2].
    destruct (r_state mj =? ST_WRITE); [destruct Hm as [Hm _]|]; rewrite H1 in Hm; discriminate.
Qed.

Lemma get_set_at_other {A} (l : list (option A)) i x j :
  j <> i ->
  get (set_at l (N.to_nat i) x None) j = get l j \/ (get l j = None /\ get (set_at l (N.to_nat i) x None) j = Some None).
Proof.
  intros Hne. unfold get. rewrite nth_opt_set_at.
  destruct (Nat.eqb (N.to_nat j) (N.to_nat i)) eqn:E; [apply Nat.eqb_eq in E; lia|].
  destruct (nth_opt l (N.to_nat j)); [left; reflexivity|].
  destruct (Nat.ltb _ _); [right; split; reflexivity|left; reflexivity].
Qed.

Lemma get_set_at_same {A} (l : list A) i x d : get (set_at l (N.to_nat i) x d) i = Some x.
Proof. unfold get. rewrite nth_opt_set_at, Nat.eqb_refl. reflexivity. Qed.

Lemma nth_opt_repeat {A} (d : A) k n : nth_opt (repeat d k) n = if Nat.ltb n k then Some d else None.
Proof.
  revert n. induction k as [|k IH]; intros [|n]; cbn [repeat nth_opt]; try reflexivity.
  rewrite IH. reflexivity.
Qed.

Lemma nth_opt_app_repeat {A} (l : list A) d k n :
  nth_opt (l ++ repeat d k) n =
  match nth_opt l n with Some y => Some y | None => if Nat.ltb n (length l + k) then Some d else None end.
Proof.
  revert n. induction l as [|h t IH]; intros n.
  - cbn [app length Nat.add]. rewrite nth_opt_repeat. destruct n; reflexivity.
  - destruct n; cbn [app nth_opt length]; [reflexivity|]. rewrite IH. reflexivity.
Qed.

Lemma get_pad {A} (l : list (option A)) k j :
  get (l ++ repeat None k) j = get l j \/ (get l j = None /\ get (l ++ repeat None k) j = Some None).
Proof.
  unfold get. rewrite nth_opt_app_repeat. destruct (nth_opt l (N.to_nat j)); [left; reflexivity|].
  destruct (Nat.ltb _ _); [right; split; reflexivity|left; reflexivity].
Qed.

(* ---- facts about the metadata setters ---- *)
Lemma fin_state m : (r_state (fin m) =? ST_WRITE) = false.
Proof. unfold fin. destruct (r_state m =? ST_WRITE) eqn:E; [reflexivity|exact E]. Qed.
Lemma fin_srec m : srec (fin m) = srec m.
Proof. unfold fin. destruct (r_state m =? ST_WRITE); reflexivity. Qed.
Lemma fin_rext m : rext (fin m) = rext m.
Proof. unfold fin. destruct (r_state m =? ST_WRITE); reflexivity. Qed.
Lemma fin_len m : r_len (fin m) = r_len m.
Proof. unfold fin. destruct (r_state m =? ST_WRITE); reflexivity. Qed.
Lemma fin_id m : r_id (fin m) = r_id m.
Proof. unfold fin. destruct (r_state m =? ST_WRITE); reflexivity. Qed.
Lemma fin_reserved m : r_reserved (fin m) = r_reserved m.
Proof. unfold fin. destruct (r_state m =? ST_WRITE); reflexivity. Qed.
Lemma fin_start m : r_start (fin m) = r_start m.
Proof. unfold fin. destruct (r_state m =? ST_WRITE); reflexivity. Qed.

(* a setter either leaves the record alone or marks it NEEDS_WRITE *)
Definition setter_like (m x : rmeta) : Prop := x = m \/ r_state x = ST_WRITE.

Lemma mirrors_wid_put s s' i m x :
  rfile_mirrors s -> slot s i = Some m ->
  (r_state x <> ST_WRITE -> r_state m <> ST_WRITE /\ srec x = srec m) ->
  (forall j, slot s' j = if j =? i then Some (fin x) else slot s j) ->
  rfile s' = (if r_state x =? ST_WRITE then set_at (rfile s) (N.to_nat i) (Some (srec x)) None else rfile s) ->
  rfile_mirrors s'.
Proof.
  intros Hm Hs Hx Hsl Hrf. apply (mirrors_gen s s' i (Some (fin x))); auto.
  - intros j Hne. rewrite Hrf. destruct (r_state x =? ST_WRITE); [now apply get_set_at_other|left; reflexivity].
  - rewrite fin_state, fin_srec, Hrf. destruct (r_state x =? ST_WRITE) eqn:E.
    + apply get_set_at_same.
    + destruct Hx as [Hx1 Hx2]; [lia|]. specialize (Hm i). rewrite Hs in Hm.
      destruct (r_state m =? ST_WRITE) eqn:E2; [lia|]. rewrite Hx2. exact Hm.
Qed.

(* ---- one slot changes, extents do not ---- *)
Lemma inv_table_step s s' i m m' :
  Inv s -> slot s i = Some m ->
  s2r s' = s2r s -> holes s' = holes s -> h2s s' = h2s s -> resv s' = resv s -> pend s' = pend s ->
  file_len s' = file_len s ->
  slots s' = set_at (slots s) (N.to_nat i) (Some m') None ->
  rext m' = rext m -> r_len m' <= r_reserved m' ->
  (r_id m' = r_id m \/ find_id s (r_id m') = None) ->
  rfile_mirrors s' ->
  Inv s' /\ layout_len s' = layout_len s.
Proof.
  intros HI Hs E1 E2 E3 E4 E5 E6 Esl Hrx Hlen Hid Hrf.
  pose proof (slot_of_slots s s' i (Some m') Esl) as Hsl.
  destruct (inv_parts_aligned s HI) as (Ar & Ah & Ap & Av).
  assert (Hst : r_start m' = r_start m) by (unfold rext in Hrx; congruence).
  assert (Hrs : r_reserved m' = r_reserved m) by (unfold rext in Hrx; congruence).
  apply mk_inv.
  - apply aligned_extents; rewrite ?E2, ?E4, ?E5; auto.
    intros j mj. rewrite Hsl. destruct (j =? i); [intros [= <-]; rewrite Hrx; eauto|eauto].
  - intros a. rewrite owners_extents, E2, E4, E5, Esl.
    pose proof (owners_put_slot s i (Some m') a) as Ho. rewrite Hs in Ho. cbn [oext] in Ho. rewrite Hrx in Ho.
    pose proof (inv_cover s HI a) as Hc. rewrite owners_extents in Hc. lia.
  - intros j mj. rewrite Hsl. destruct (j =? i); [intros [= <-]|apply (inv_len s HI)].
    split; [exact Hlen|]. rewrite Hrs. apply (inv_len s HI i m Hs).
  - intros a j. rewrite E1, (inv_s2r s HI a j), Hsl. destruct (j =? i) eqn:E.
    + assert (j = i) by lia; subst j. split.
      * intros (mj & Hj & Ha). rewrite Hs in Hj. inversion Hj; subst mj. exists m'. split; [reflexivity|lia].
      * intros (mj & [= <-] & Ha). exists m. split; [exact Hs|lia].
    + reflexivity.
  - rewrite E1, E2, E3, E4, E5. apply (inv_sorted s HI).
  - unfold h2s_agrees. rewrite E2, E3. apply (inv_h2s s HI).
  - rewrite E2. apply (inv_no_adjacent_holes s HI).
  - rewrite E6. apply (inv_file s HI).
  - apply (ids_put s s' i (Some m') (inv_ids s HI) Hsl). destruct Hid as [Hid|Hid]; [left; eauto|right; exact Hid].
  - exact Hrf.
  - rewrite E4. apply (inv_no_resv s HI).
Qed.

(* write_if_dirty (upd s i f) i when f keeps the extent *)
Lemma inv_wid_upd s i f m :
  Inv s -> slot s i = Some m ->
  rext (f m) = rext m -> r_len (f m) <= r_reserved m ->
  (r_id (f m) = r_id m \/ find_id s (r_id (f m)) = None) ->
  (r_state (f m) <> ST_WRITE -> r_state m <> ST_WRITE /\ srec (f m) = srec m) ->
  Inv (write_if_dirty (upd s i f) i) /\ layout_len (write_if_dirty (upd s i f) i) = layout_len s.
Proof.
  intros HI Hs Hrx Hlen Hid Hst. rewrite (wid_upd_nf s i f m Hs).
  assert (Hrs : r_reserved (f m) = r_reserved m) by (unfold rext in Hrx; congruence).
  eapply (inv_table_step s _ i m (fin (f m))); eauto; try reflexivity.
  - rewrite fin_rext. exact Hrx.
  - rewrite fin_len, fin_reserved. lia.
  - rewrite fin_id. exact Hid.
  - apply (mirrors_wid_put s _ i m (f m) (inv_rfile s HI) Hs Hst); [|reflexivity].
    intros j. rewrite slot_put_slot, slot_set_rfile. reflexivity.
Qed.

(* upd s i f when f keeps the slot record and the written/unwritten status *)
Lemma inv_upd_keep s i f m :
  Inv s -> slot s i = Some m ->
  srec (f m) = srec m -> (r_state (f m) =? ST_WRITE) = (r_state m =? ST_WRITE) ->
  (r_state m = ST_WRITE -> r_dmax (f m) = 0) ->
  Inv (upd s i f) /\ layout_len (upd s i f) = layout_len s.
Proof.
  intros HI Hs Hrec Hst Hd. rewrite (upd_some s i f m Hs).
  assert (Hf : r_start (f m) = r_start m /\ r_len (f m) = r_len m /\ r_reserved (f m) = r_reserved m /\ r_id (f m) = r_id m)
    by (unfold srec in Hrec; inversion Hrec; auto).
  destruct Hf as (F1 & F2 & F3 & F4).
  eapply (inv_table_step s _ i m (f m)); eauto; try reflexivity.
  - unfold rext. congruence.
  - rewrite F2, F3. apply (inv_len s HI i m Hs).
  - apply (mirrors_gen s _ i (Some (f m)) (inv_rfile s HI)).
    + intros j. apply slot_put_slot.
    + intros j _. left. reflexivity.
    + pose proof (inv_rfile s HI i) as Hm. rewrite Hs in Hm. rewrite Hst.
      change (rfile (put_slot s i (Some (f m)))) with (rfile s).
      destruct (r_state m =? ST_WRITE) eqn:E.
      * destruct Hm as (H1 & H2 & H3). split; [exact H1|]. split; [lia|]. apply Hd. lia.
      * rewrite Hrec. exact Hm.
Qed.

(* ---- operations ---- *)
Lemma inv_set_held s h : Inv s -> Inv (set_held s h) /\ layout_len (set_held s h) = layout_len s.
Proof. intros H. apply (inv_same s); auto. Qed.

Lemma inv_set_mem s mm : Inv s -> Inv (set_mem s mm) /\ layout_len (set_mem s mm) = layout_len s.
Proof. intros H. apply (inv_same s); auto. Qed.

Lemma inv_truncate s i from s' r : Inv s -> truncate s i from = AOk (s', r) -> Inv s' /\ layout_len s' = layout_len s.
Proof.
  intros HI. unfold truncate. destruct (slot s i) as [m|] eqn:Hs; [|discriminate].
  destruct (from =? r_len m); [intros [= <- _]; auto|].
  destruct (r_len m <? from) eqn:E; [discriminate|]. destruct (negb _); [discriminate|].
  intros [= <- _]. destruct (inv_len s HI i m Hs) as [Hl _].
  apply (inv_wid_upd s i _ m HI Hs); unfold m_set_len; destruct (r_len m =? from) eqn:E2; cbn [r_len r_id r_state rext r_start r_reserved];
    auto; try lia; try (intros Hx; exfalso; apply Hx; reflexivity).
Qed.

Lemma inv_rename s i new_id s' r : Inv s -> rename s i new_id = AOk (s', r) -> Inv s' /\ layout_len s' = layout_len s.
Proof.
  intros HI. unfold rename. destruct (slot s i) as [m|] eqn:Hs; [|discriminate].
  destruct (find_id s new_id) eqn:Ef; [discriminate|]. intros [= <- _].
  destruct (inv_len s HI i m Hs) as [Hl _].
  destruct (inv_wid_upd s i (fun m => m_set_id m new_id) m HI Hs) as [H1 H2].
  - unfold m_set_id. destruct (r_id m =? new_id); reflexivity.
  - unfold m_set_id. destruct (r_id m =? new_id); cbn [r_len]; lia.
  - right. unfold m_set_id. destruct (r_id m =? new_id) eqn:E; cbn [r_id]; [|exact Ef].
    assert (r_id m = new_id) by lia. congruence.
  - unfold m_set_id. destruct (r_id m =? new_id) eqn:E; cbn [r_state]; auto.
    intros Hx; exfalso; apply Hx; reflexivity.
  - destruct (inv_set_held _ (map (fun x => if x =? r_id m then new_id else x)
        (held (write_if_dirty (upd s i (fun m0 => m_set_id m0 new_id)) i))) H1) as [H3 H4].
    split; [exact H3|]. rewrite H4. exact H2.
Qed.

Lemma clear_dirty_srec m : srec (m_clear_dirty m) = srec m.
Proof. unfold m_clear_dirty. destruct (m_is_dirty m); reflexivity. Qed.
Lemma clear_dirty_state m : r_state (m_clear_dirty m) = r_state m.
Proof. unfold m_clear_dirty. destruct (m_is_dirty m); reflexivity. Qed.
Lemma clear_dirty_dmax m : r_dmax m = 0 -> r_dmax (m_clear_dirty m) = 0.
Proof. unfold m_clear_dirty. destruct (m_is_dirty m); auto. Qed.

Lemma inv_write_state_dmax s i m : Inv s -> slot s i = Some m -> r_state m = ST_WRITE -> r_len m = 0 /\ r_dmax m = 0.
Proof.
  intros HI Hs Hst. pose proof (inv_rfile s HI i) as Hm. rewrite Hs, Hst, N.eqb_refl in Hm. tauto.
Qed.

Lemma inv_flush_region s i : Inv s ->
  match flush_region s i with
  | AOk (s', _) => Inv s' /\ layout_len s' = layout_len s
  | AErr s' _ => Inv s' /\ layout_len s' = layout_len s
  | APanic => True
  end.
Proof.
  intros HI. unfold flush_region. destruct (slot s i) as [m|] eqn:Hs; [|auto].
  assert (H1 : Inv (upd s i m_clear_dirty) /\ layout_len (upd s i m_clear_dirty) = layout_len s).
  { apply (inv_upd_keep s i _ m HI Hs).
    - apply clear_dirty_srec.
    - now rewrite clear_dirty_state.
    - intros Hw. apply clear_dirty_dmax. eapply inv_write_state_dmax; eauto. }
  destruct (r_state m =? ST_CLEAN) eqn:Ec; [exact H1|].
  destruct (r_state m =? ST_WRITE) eqn:Ew; [exact H1|].
  rewrite upd_upd. apply (inv_upd_keep s i _ m HI Hs).
  - cbn [srec m_set_state r_start r_len r_reserved r_id]. apply clear_dirty_srec.
  - cbn [m_set_state r_state]. rewrite Ew. reflexivity.
  - intros Hw. lia.
Qed.
