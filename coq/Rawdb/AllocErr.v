(* Rawdb/AllocErr.v — C13 for the allocator model: under the extent invariant a refused request
   returns the state it was given (the effectful error paths are unreachable).  PROOF FILE. *)
From Anydb Require Import Common.Base Gen.Consts Rawdb.AMap Rawdb.Alloc Rawdb.AllocSpec Rawdb.AllocInv
  Rawdb.AllocFacts Rawdb.AMapFacts Rawdb.CoverFacts.

(* ---- frame facts: which field a primitive touches ---- *)
Lemma slot_set_rfile s v j : slot (set_rfile s v) j = slot s j. Proof. reflexivity. Qed.
Lemma slot_set_pend s v j : slot (set_pend s v) j = slot s j. Proof. reflexivity. Qed.
Lemma slot_set_s2r s v j : slot (set_s2r s v) j = slot s j. Proof. reflexivity. Qed.
Lemma slot_set_holes s v w j : slot (set_holes s v w) j = slot s j. Proof. reflexivity. Qed.
Lemma slot_set_resv s v j : slot (set_resv s v) j = slot s j. Proof. reflexivity. Qed.
Lemma slot_set_mem s v j : slot (set_mem s v) j = slot s j. Proof. reflexivity. Qed.
Lemma slot_set_held s v j : slot (set_held s v) j = slot s j. Proof. reflexivity. Qed.
Lemma slot_set_file_len s v j : slot (set_file_len s v) j = slot s j. Proof. reflexivity. Qed.

Lemma set_min_len_shape s n : exists fl, set_min_len s n = set_file_len s fl /\ file_len s <= fl.
Proof.
  unfold set_min_len. destruct (ceil_page n <=? file_len s) eqn:E.
  - exists (file_len s). split; [destruct s; reflexivity|lia].
  - eexists. split; [reflexivity|].
    pose proof (ceil_page_ge (N.max (N.max (ceil_page n) (file_len s * GROW_FACTOR)) GROW_FLOOR)).
    rewrite GROW_FACTOR_2 in *. lia.
Qed.

Lemma db_copy_ok s src dst n s2 : db_copy s src dst n = AOk s2 -> exists mm, s2 = set_mem s mm.
Proof.
  unfold db_copy. destruct (n =? 0). { intros [= <-]. exists (mem s). destruct s; reflexivity. }
  destruct (negb _); [discriminate|]. destruct (_ && _); [|discriminate].
  intros [= <-]. eauto.
Qed.

Lemma db_write_some s off f n s3 : db_write s off f n = Some s3 -> exists mm, s3 = set_mem s mm.
Proof. unfold db_write. destruct (_ <=? _); [|discriminate]. intros [= <-]. eauto. Qed.

Lemma roc_shape s a by_ s' :
  remove_or_compress_hole s a by_ = AOk s' -> exists H Q, s' = set_holes s H Q.
Proof.
  unfold remove_or_compress_hole, remove_hole. destruct (aget a (holes s)) as [z|].
  - destruct (z =? by_). { intros [= <-]. eauto. }
    destruct (by_ <? z); [|discriminate]. intros [= <-]. unfold insert_hole. eexists. eexists. reflexivity.
  - intros [= <-]. exists (holes s), (h2s s). destruct s; reflexivity.
Qed.

Lemma roc_no_err s a by_ z s' e :
  aget a (holes s) = Some z -> by_ <= z -> remove_or_compress_hole s a by_ <> AErr s' e.
Proof.
  intros Hg Hle. unfold remove_or_compress_hole, remove_hole. rewrite Hg.
  destruct (z =? by_) eqn:E1; [discriminate|]. destruct (by_ <? z) eqn:E2; [discriminate|]. exfalso. lia.
Qed.

Lemma find_hole_spec s k a :
  h2s_agrees s -> asorted (h2s s) -> find_hole s k = Some a ->
  exists z, aget a (holes s) = Some z /\ k <= z.
Proof.
  intros [Hh _] Hs. unfold find_hole.
  destruct (afirst_geq k (h2s s)) as [[z [|a' l]]|] eqn:E; try discriminate.
  intros [= ->]. apply afirst_geq_some in E. destruct E as [HI Hle].
  exists z. split; [|exact Hle]. apply Hh. exists (a :: l).
  split; [apply in_aget; assumption|left; reflexivity].
Qed.

Lemma find_hole_set_min_len s n k : find_hole (set_min_len s n) k = find_hole s k.
Proof. unfold set_min_len. destruct (_ <=? _); reflexivity. Qed.

Lemma double_until_ge fuel r t r' : double_until fuel r t = Ok r' -> t <= r' /\ r <= r'.
Proof.
  revert r. induction fuel as [|fuel IH]; intros r; cbn [double_until];
    destruct (t <=? r) eqn:E; try (intros [= <-]; lia); try discriminate.
  destruct (two64 <=? r * RESERVE_FACTOR); [discriminate|]. intros H. apply IH in H.
  rewrite RESERVE_FACTOR_2 in H. lia.
Qed.

(* ---- consequences of the cover clause ---- *)
Lemma inv_owners_le1 s a : Inv s -> (owners (extents s) a <= 1)%nat.
Proof. intros H. rewrite (inv_cover s H). destruct (a <? layout_len s); lia. Qed.

Lemma inv_ext_aligned s e : Inv s -> In e (extents s) -> aligned e.
Proof. intros H HI. pose proof (inv_aligned s H) as Ha. rewrite Forall_forall in Ha. auto. Qed.

Lemma inv_ext_end s e : Inv s -> In e (extents s) -> fst e + snd e <= layout_len s.
Proof.
  intros H HI. destruct (inv_ext_aligned s e H HI) as (_ & _ & Hpos).
  pose proof (inv_cover s H (fst e + snd e - 1)) as Hc.
  pose proof (owners_in e _ (fst e + snd e - 1) HI) as Ho.
  rewrite (cov_true e) in Ho by (unfold covers; lia).
  destruct (fst e + snd e - 1 <? layout_len s) eqn:E; lia.
Qed.

Lemma inv_region_aligned s i m : Inv s -> slot s i = Some m -> aligned (rext m).
Proof.
  intros H Hs. apply (inv_ext_aligned s _ H). apply in_extents. left. eapply slot_in_region_exts; eauto.
Qed.

Lemma inv_hole_aligned s a z : Inv s -> aget a (holes s) = Some z -> aligned (a, z).
Proof.
  intros H Hs. apply (inv_ext_aligned s _ H). apply in_extents. right. left. now apply aget_in.
Qed.

Lemma region_hole_disjoint s i m hs z :
  Inv s -> slot s i = Some m -> aget hs (holes s) = Some z ->
  r_start m + r_reserved m <= hs \/ hs + z <= r_start m.
Proof.
  intros H Hs Hh.
  destruct (inv_region_aligned s i m H Hs) as (_ & _ & Hp1).
  destruct (inv_hole_aligned s hs z H Hh) as (_ & _ & Hp2). cbn [fst snd rext] in Hp1, Hp2.
  destruct (N.le_gt_cases (r_start m + r_reserved m) hs) as [|H1]; [left; assumption|].
  destruct (N.le_gt_cases (hs + z) (r_start m)) as [|H2]; [right; assumption|].
  exfalso. pose (a := N.max (r_start m) hs).
  pose proof (inv_owners_le1 s a H) as Hle. rewrite owners_extents in Hle.
  pose proof (owners_in _ _ a (slot_in_region_exts s i m Hs)) as Ho1.
  pose proof (owners_in _ _ a (aget_in _ _ _ Hh)) as Ho2.
  rewrite cov_true in Ho1 by (unfold covers, rext, a; cbn [fst snd]; lia).
  rewrite cov_true in Ho2 by (unfold covers, a; cbn [fst snd]; lia).
  lia.
Qed.

Lemma region_end_le s i m : Inv s -> slot s i = Some m -> r_start m + r_reserved m <= layout_len s.
Proof.
  intros H Hs. apply (inv_ext_end s (rext m) H). apply in_extents. left. eapply slot_in_region_exts; eauto.
Qed.

(* ---- s2r side: the weak invariant that removal needs ---- *)
Definition s2r_ok (s : st) : Prop := forall i m, slot s i = Some m -> aget (r_start m) (s2r s) = Some i.

Lemma inv_s2r_ok s : Inv s -> s2r_ok s.
Proof. intros H i m Hs. apply (inv_s2r s H). eauto. Qed.

Lemma layout_remove_region_ok s i m :
  s2r_ok s -> slot s i = Some m ->
  layout_remove_region s i m =
  AOk (set_pend (set_s2r s (arem (r_start m) (s2r s))) (ains (r_start m) (r_reserved m) (pend s))).
Proof.
  intros Hok Hs. unfold layout_remove_region. rewrite (Hok i m Hs), N.eqb_refl. reflexivity.
Qed.

Ltac no_err :=
  repeat (match goal with
          | |- AOk _ <> AErr _ _ => discriminate
          | |- APanic <> AErr _ _ => discriminate
          | |- context [match ?x with _ => _ end] => destruct x eqn:?
          end); try discriminate.

Lemma finish_write_no_err s i start wo f n new_len s' e :
  finish_write s i start wo f n new_len <> AErr s' e.
Proof. unfold finish_write. no_err. Qed.

Lemma relocate_no_err s i m f n wo new_len new_reserved copy_len s' e :
  Inv s -> slot s i = Some m -> copy_len <= r_reserved m -> r_reserved m < new_reserved ->
  relocate s i m f n wo new_len new_reserved copy_len <> AErr s' e.
Proof.
  intros HI Hs Hc Hr. unfold relocate.
  assert (Hfin : forall s1 new_start,
    s2r s1 = s2r s -> (forall j, slot s1 j = slot s j) ->
    (r_start m + copy_len <= new_start \/ new_start + copy_len <= r_start m) ->
    (let* s2 := db_copy s1 (r_start m) new_start copy_len in
     match db_write s2 (new_start + wo) f n with
     | None => APanic
     | Some s3 =>
       let* s4 := layout_remove_region s3 i m in
       match layout_insert_region s4 new_start i with
       | None => APanic
       | Some s5 =>
           match aget new_start (resv s5) with
           | Some z =>
               if negb (z =? new_reserved) then APanic else
               let s6 := set_resv s5 (arem new_start (resv s5)) in
               if negb (ok_set_start new_start) then APanic else
               if negb (ok_set_reserved m new_reserved) then APanic else
               if negb (new_len <=? new_reserved) then APanic else
               let s7 := upd s6 i (fun m => m_set_len (m_set_reserved (m_set_start (m_mark_dirty m 0 new_len) new_start) new_reserved) new_len) in
               AOk (write_if_dirty s7 i, OUnit)
           | None => APanic
           end
       end
     end) <> AErr s' e).
  { intros s1 new_start H1 H2 Hdis.
    destruct (db_copy s1 (r_start m) new_start copy_len) as [s2| |] eqn:Ec; cbn [abind].
    - apply db_copy_ok in Ec. destruct Ec as [mm ->].
      destruct (db_write (set_mem s1 mm) (new_start + wo) f n) as [s3|] eqn:Ew; [|discriminate].
      apply db_write_some in Ew. destruct Ew as [mm' ->].
      rewrite layout_remove_region_ok.
      + cbn [abind]. no_err.
      + intros j mj Hj. change (aget (r_start mj) (s2r s1) = Some j). rewrite H1.
        apply (inv_s2r_ok s HI). rewrite <- H2. exact Hj.
      + change (slot s1 i = Some m). rewrite H2. exact Hs.
    - exfalso. unfold db_copy in Ec. destruct (copy_len =? 0); [discriminate|].
      destruct (negb _) eqn:En; [|destruct (_ && _); discriminate].
      destruct Hdis; lia.
    - discriminate. }
  destruct (find_hole s new_reserved) as [hs|] eqn:Ef.
  - destruct (find_hole_spec s _ _ (inv_h2s s HI) (proj2 (proj2 (proj2 (proj2 (inv_sorted s HI))))) Ef)
      as (z & Hz & Hle).
    destruct (remove_or_compress_hole s hs new_reserved) as [s1| |] eqn:Er; cbn [abind].
    + apply roc_shape in Er. destruct Er as (H & Q & ->). cbn [resv set_holes].
      destruct (aget hs (resv s)); cbn [abind]; [discriminate|].
      apply Hfin; [reflexivity|reflexivity|].
      destruct (region_hole_disjoint s i m hs z HI Hs Hz); lia.
    + exfalso. eapply roc_no_err; eauto.
    + discriminate.
  - destruct (aget (layout_len s) (resv s)); cbn [abind]; [discriminate|].
    destruct (set_min_len_shape (set_resv s (ains (layout_len s) new_reserved (resv s))) (layout_len s + new_reserved))
      as (fl & -> & _).
    apply Hfin; [reflexivity|reflexivity|].
    pose proof (region_end_le s i m HI Hs). lia.
Qed.

Lemma write_with_err s i f n at_ tr s' e :
  Inv s -> write_with s i f n at_ tr = AErr s' e -> s' = s.
Proof.
  intros HI. unfold write_with.
  destruct (slot s i) as [m|] eqn:Hs; [|intros [= <- _]; reflexivity].
  destruct (match at_ with Some a => r_len m <? a | None => false end) eqn:Eat; [intros [= <- _]; reflexivity|].
  set (wo := match at_ with Some a => a | None => r_len m end).
  set (new_len := match at_ with None => r_len m + n | Some a => if tr then a + n else N.max (a + n) (r_len m) end).
  assert (Hwo : wo <= r_len m) by (subst wo; destruct at_; lia).
  destruct (new_len <=? r_reserved m) eqn:Efit.
  { destruct (db_write s (r_start m + wo) f n); [|discriminate]. destruct (new_len =? r_len m); discriminate. }
  destruct (r_reserved m =? 0); [intros [= <- _]; reflexivity|].
  destruct (double_until 64 (r_reserved m) new_len) as [nr|e0|] eqn:Ed; [|intros [= <- _]; reflexivity|discriminate].
  apply double_until_ge in Ed.
  destruct (inv_len s HI i m Hs) as [Hlen _].
  assert (Hrel : forall cl, cl <= r_len m -> relocate s i m f n wo new_len nr cl = AErr s' e -> s' = s).
  { intros cl Hcl Hr. exfalso. revert Hr. apply relocate_no_err; auto; lia. }
  assert (Hcl : (if tr then wo else r_len m) <= r_len m) by (destruct tr; lia).
  destruct (is_last_anything s i).
  { destruct (negb _); [discriminate|]. intros Hr. exfalso. revert Hr. apply finish_write_no_err. }
  destruct (aget (r_start m + r_reserved m) (holes s)) as [gap|] eqn:Eg; [|now apply Hrel].
  destruct (nr - r_reserved m <=? gap) eqn:Ea; [|now apply Hrel].
  destruct (remove_or_compress_hole s (r_start m + r_reserved m) (nr - r_reserved m)) as [s1| |] eqn:Er; cbn [abind].
  - destruct (negb _); [discriminate|]. intros Hr. exfalso. revert Hr. apply finish_write_no_err.
  - exfalso. eapply roc_no_err; eauto. lia.
  - discriminate.
Qed.

Lemma create_no_err s id hold s' e : Inv s -> create s id hold <> AErr s' e.
Proof.
  intros HI. unfold create. cbv zeta.
  set (s0 := if hold then set_held s (id :: held s) else s).
  assert (Hh : h2s_agrees s0) by (destruct hold; exact (inv_h2s s HI)).
  assert (Hso : asorted (h2s s0)) by (destruct hold; exact (proj2 (proj2 (proj2 (proj2 (inv_sorted s HI)))))).
  clearbody s0.
  destruct (find_id s0 id); [discriminate|].
  destruct (find_hole s0 PAGE_SIZE) as [a|] eqn:Ef.
  - rewrite Ef. destruct (find_hole_spec s0 _ _ Hh Hso Ef) as (z & Hz & Hle).
    destruct (remove_or_compress_hole s0 a PAGE_SIZE) as [s1| |] eqn:Er; cbn [abind].
    + no_err.
    + exfalso. eapply roc_no_err; eauto.
    + discriminate.
  - rewrite find_hole_set_min_len, Ef. cbn [abind]. no_err.
Qed.

Lemma remove_idx_err s i s' e : s2r_ok s -> remove_idx s i = AErr s' e -> s' = s.
Proof.
  intros Hok. unfold remove_idx. destruct (slot s i) as [m|] eqn:Hs; [|intros [= <- _]; reflexivity].
  destruct (is_held s (r_id m)); [intros [= <- _]; reflexivity|].
  rewrite layout_remove_region_ok by assumption. cbn [abind]. discriminate.
Qed.

Lemma remove_idx_ok s i m :
  s2r_ok s -> slot s i = Some m -> is_held s (r_id m) = false ->
  exists s1, remove_idx s i = AOk s1 /\ s2r_ok s1 /\ held s1 = held s /\
             (forall j, slot s1 j = if j =? i then None else slot s j).
Proof.
  intros Hok Hs Hh. unfold remove_idx. rewrite Hs, Hh, layout_remove_region_ok by assumption. cbn [abind].
  eexists. split; [reflexivity|]. split; [|split; [reflexivity|]].
  - intros j mj. rewrite slot_set_rfile, slot_put_slot. destruct (j =? i) eqn:E; [discriminate|].
    rewrite slot_set_pend, slot_set_s2r. intros Hj. cbn [s2r set_rfile put_slot set_slots set_pend set_s2r].
    rewrite aget_arem_other; [now apply Hok|].
    intros Heq. pose proof (Hok i m Hs) as H1. pose proof (Hok j mj Hj) as H2. rewrite Heq in H1.
    rewrite H1 in H2. inversion H2. lia.
  - intros j. rewrite slot_set_rfile, slot_put_slot. reflexivity.
Qed.

Lemma retain_from_no_err fuel : forall s0 keep i s' e,
  s2r_ok s0 ->
  (forall k m, nth_opt fuel k = Some (Some m) -> slot s0 (i + N.of_nat k) = Some m) ->
  (forall j m, slot s0 j = Some m -> existsb (fun y => y =? r_id m) keep = false -> is_held s0 (r_id m) = false) ->
  retain_from fuel s0 keep i <> AErr s' e.
Proof.
  induction fuel as [|[m|] t IH]; intros s0 keep i s' e Hok Hsl Hheld; cbn [retain_from].
  - discriminate.
  - assert (Ht : forall s1, (forall j, j <> i -> slot s1 j = slot s0 j) ->
              forall k m0, nth_opt t k = Some (Some m0) -> slot s1 (i + 1 + N.of_nat k) = Some m0).
    { intros s1 H1 k m0 Hk. rewrite H1 by lia. replace (i + 1 + N.of_nat k) with (i + N.of_nat (S k)) by lia.
      apply Hsl. exact Hk. }
    destruct (existsb (fun x => x =? r_id m) keep) eqn:Ek.
    + apply IH; auto.
    + assert (Hs : slot s0 i = Some m).
      { specialize (Hsl O m eq_refl). replace (i + N.of_nat 0) with i in Hsl by lia. exact Hsl. }
      pose proof (Hheld i m Hs Ek) as Hnh.
      destruct (remove_idx_ok s0 i m Hok Hs Hnh) as (s1 & -> & Hok1 & Hheld1 & Hsl1). cbn [abind].
      apply IH; auto.
      * apply Ht. intros j Hj. rewrite Hsl1. destruct (j =? i) eqn:E; [lia|reflexivity].
      * intros j mj. rewrite Hsl1. destruct (j =? i); [discriminate|]. intros Hj Hk.
        unfold is_held. rewrite Hheld1. exact (Hheld j mj Hj Hk).
  - apply IH; auto. intros k m0 Hk. replace (i + 1 + N.of_nat k) with (i + N.of_nat (S k)) by lia.
    apply Hsl. exact Hk.
Qed.

(* retain_blocked is exactly: some live region outside `keep` is held *)
Lemma retain_blocked_false s keep :
  retain_blocked s keep = false ->
  forall j m, slot s j = Some m -> existsb (fun y => y =? r_id m) keep = false -> is_held s (r_id m) = false.
Proof.
  unfold retain_blocked. intros Hb j m Hs Hk.
  destruct (is_held s (r_id m)) eqn:Eh; [|reflexivity]. exfalso.
  assert (Hx : existsb (fun o => match o with
                                  | Some m => negb (existsb (fun x => x =? r_id m) keep) && is_held s (r_id m)
                                  | None => false end) (slots s) = true).
  { apply existsb_exists. exists (Some m). split; [|rewrite Hk, Eh; reflexivity].
    unfold slot, get in Hs. destruct (nth_opt (slots s) (N.to_nat j)) as [[m'|]|] eqn:E; try discriminate.
    inversion Hs; subst m'. rewrite nth_opt_nth_error in E. eapply nth_error_In; eauto. }
  congruence.
Qed.

Lemma retain_blocked_true s keep :
  retain_blocked s keep = true ->
  exists j m, slot s j = Some m /\ existsb (fun y => y =? r_id m) keep = false /\ is_held s (r_id m) = true.
Proof.
  unfold retain_blocked. intros Hb. apply existsb_exists in Hb. destruct Hb as ([m|] & HI & Hc); [|discriminate].
  apply andb_prop in Hc. destruct Hc as [Hc1 Hc2]. apply In_nth_error in HI. destruct HI as [n Hn].
  exists (N.of_nat n), m. unfold slot, get. rewrite Nat2N.id, nth_opt_nth_error, Hn.
  split; [reflexivity|]. split; [|exact Hc2]. destruct (existsb _ keep); [discriminate|reflexivity].
Qed.

Lemma retain_err s keep s' e : Inv s -> retain s keep = AErr s' e -> s' = s.
Proof.
  intros HI. unfold retain. destruct (retain_blocked s keep) eqn:Eb; [intros [= <- _]; reflexivity|].
  destruct (retain_from (slots s) s keep 0) as [s1| |] eqn:Er; cbn [abind]; try discriminate.
  exfalso. revert Er. apply retain_from_no_err.
  - now apply inv_s2r_ok.
  - intros k m Hk. unfold slot, get. replace (N.to_nat (0 + N.of_nat k)) with k by lia. rewrite Hk. reflexivity.
  - now apply retain_blocked_false.
Qed.

(* C13, rawdb part, every operation: a refused request returns the state it was given
   (FlushRegion's RegionMetadataUnwritten has cleared the dirty bounds and is excluded by the
   statement). *)
Theorem c13_rawdb s o s' e :
  Inv s -> step s o = AErr s' e -> e <> RegionMetadataUnwritten -> s' = s.
Proof.
  intros HI. destruct o; cbn [step]; unfold with_region.
  - intros H. exfalso. revert H. now apply create_no_err.
  - destruct (find_id s id); [|intros [= <- _]; reflexivity]. intros H _. eapply write_with_err; eauto.
  - destruct (find_id s id); [|intros [= <- _]; reflexivity]. intros H _. eapply write_with_err; eauto.
  - destruct (find_id s id); [|intros [= <- _]; reflexivity]. intros H _. eapply write_with_err; eauto.
  - destruct (find_id s id) as [i|]; [|intros [= <- _]; reflexivity]. unfold truncate.
    destruct (slot s i) as [m|]; [|intros [= <- _]; reflexivity].
    destruct (from =? r_len m); [discriminate|]. destruct (r_len m <? from); [intros [= <- _]; reflexivity|].
    destruct (negb _); discriminate.
  - destruct (find_id s id) as [i|]; [|intros [= <- _]; reflexivity]. unfold rename.
    destruct (slot s i) as [m|]; [|intros [= <- _]; reflexivity].
    destruct (find_id s new_id); [intros [= <- _]; reflexivity|discriminate].
  - unfold remove. destruct (find_id s id) as [i|]; [|intros [= <- _]; reflexivity].
    destruct (remove_idx s i) as [s1|s1 e1|] eqn:Er; cbn [abind]; try discriminate.
    intros [= <- <-] _. eapply remove_idx_err; eauto. now apply inv_s2r_ok.
  - discriminate.
  - intros H _. eapply retain_err; eauto.
  - destruct (flush s). discriminate.
  - destruct (find_id s id) as [i|]; [|intros [= <- _]; reflexivity]. unfold flush_region.
    destruct (slot s i) as [m|]; [|intros [= <- _]; reflexivity].
    destruct (r_state m =? ST_CLEAN); [discriminate|].
    destruct (r_state m =? ST_WRITE); [|discriminate]. intros [= _ <-] Hne. congruence.
  - destruct (compact s). discriminate.
  - unfold reopen. destruct (gaps _ _ _ _); discriminate.
  - discriminate.
  - discriminate.
Qed.

(* old names, kept as corollaries *)
Corollary c13_rawdb_defined s o s' e :
  Inv s -> op_defined s o -> step s o = AErr s' e -> e <> RegionMetadataUnwritten -> s' = s.
Proof. intros HI _. now apply c13_rawdb. Qed.

Corollary c13_rawdb_nonretain s o s' e :
  Inv s -> (forall keep, o <> Retain keep) -> step s o = AErr s' e -> e <> RegionMetadataUnwritten -> s' = s.
Proof. intros HI _. now apply c13_rawdb. Qed.
