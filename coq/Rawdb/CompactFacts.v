(* Rawdb/CompactFacts.v — C12, sequential part: flush and compact never move, resize or rename a
   region, never change what the reference state (AllocSpec.abs) sees, and the ranges compact
   hands to fallocate(PUNCH_HOLE) are disjoint from the data bytes of every live region.
   PROOF FILE. *)
From Anydb Require Import Common.Base Gen.Consts Rawdb.AMap Rawdb.Alloc Rawdb.AllocSpec Rawdb.AllocInv
  Rawdb.AMapFacts Rawdb.CoverFacts Rawdb.AllocErr.

(* ---- 1. frame facts of promote / flush / compact ------------------------------------------ *)

Lemma set_holes_same s : set_holes s (holes s) (h2s s) = s.
Proof. destruct s; reflexivity. Qed.

Lemma remove_hole_shape s k : exists H Q, fst (remove_hole s k) = set_holes s H Q.
Proof.
  unfold remove_hole. destruct (aget k (holes s)); cbn [fst].
  - eexists. eexists. reflexivity.
  - exists (holes s), (h2s s). symmetry. apply set_holes_same.
Qed.

Lemma remove_hole_pair s k : remove_hole s k = (fst (remove_hole s k), snd (remove_hole s k)).
Proof. destruct (remove_hole s k); reflexivity. Qed.

(* promote_one touches holes and h2s only *)
Lemma promote_one_shape s p : exists H Q, promote_one s p = set_holes s H Q.
Proof.
  destruct p as [start size]. unfold promote_one.
  assert (Hstep : forall s1 fstart size1, (exists H Q, s1 = set_holes s H Q) ->
            exists H Q,
              (let '(s2, size2) :=
                 match remove_hole s1 (fstart + size1) with
                 | (s', Some z) => (s', size1 + z)
                 | (s', None) => (s', size1)
                 end in insert_hole s2 fstart size2) = set_holes s H Q).
  { intros s1 fstart size1 (H & Q & ->).
    rewrite remove_hole_pair.
    destruct (remove_hole_shape (set_holes s H Q) (fstart + size1)) as (H' & Q' & ->).
    destruct (snd (remove_hole (set_holes s H Q) (fstart + size1)));
      unfold insert_hole; eexists; eexists; reflexivity. }
  assert (Hid : exists H Q, s = set_holes s H Q).
  { exists (holes s), (h2s s). symmetry. apply set_holes_same. }
  destruct (apred start (holes s)) as [[hs hz]|]; [|now apply Hstep].
  destruct (hs + hz =? start); [|now apply Hstep].
  apply Hstep. destruct (remove_hole_shape s hs) as (H & Q & ->). eauto.
Qed.

Lemma fold_promote_shape l : forall s, exists H Q, fold_left promote_one l s = set_holes s H Q.
Proof.
  induction l as [|p l IH]; intros s; cbn [fold_left].
  - exists (holes s), (h2s s). symmetry. apply set_holes_same.
  - destruct (promote_one_shape s p) as (H & Q & ->).
    destruct (IH (set_holes s H Q)) as (H' & Q' & ->). eexists. eexists. reflexivity.
Qed.

(* promote touches holes, h2s and pend only *)
Lemma promote_shape s : exists H Q, promote s = set_holes (set_pend s []) H Q.
Proof. unfold promote. apply fold_promote_shape. Qed.

Lemma promote_slots s : slots (promote s) = slots s.
Proof. destruct (promote_shape s) as (H & Q & ->). reflexivity. Qed.
Lemma promote_s2r s : s2r (promote s) = s2r s.
Proof. destruct (promote_shape s) as (H & Q & ->). reflexivity. Qed.
Lemma promote_resv s : resv (promote s) = resv s.
Proof. destruct (promote_shape s) as (H & Q & ->). reflexivity. Qed.
Lemma promote_pend s : pend (promote s) = [].
Proof. destruct (promote_shape s) as (H & Q & ->). reflexivity. Qed.
Lemma promote_rfile s : rfile (promote s) = rfile s.
Proof. destruct (promote_shape s) as (H & Q & ->). reflexivity. Qed.
Lemma promote_file_len s : file_len (promote s) = file_len s.
Proof. destruct (promote_shape s) as (H & Q & ->). reflexivity. Qed.
Lemma promote_mem s : mem (promote s) = mem s.
Proof. destruct (promote_shape s) as (H & Q & ->). reflexivity. Qed.
Lemma promote_held s : held (promote s) = held s.
Proof. destruct (promote_shape s) as (H & Q & ->). reflexivity. Qed.
Lemma promote_slot s i : slot (promote s) i = slot s i.
Proof. unfold slot. rewrite promote_slots. reflexivity. Qed.

(* same placement and name: everything of a slot except r_state and the dirty bounds *)
Definition meta_eq (m m' : rmeta) : Prop :=
  r_start m' = r_start m /\ r_len m' = r_len m /\ r_reserved m' = r_reserved m /\ r_id m' = r_id m.

Lemma meta_eq_refl m : meta_eq m m.
Proof. repeat split. Qed.
Lemma meta_eq_trans a b c : meta_eq a b -> meta_eq b c -> meta_eq a c.
Proof. unfold meta_eq. intuition congruence. Qed.

Lemma meta_eq_clear m : meta_eq m (m_clear_dirty m).
Proof. unfold m_clear_dirty. destruct (m_is_dirty m); repeat split. Qed.
Lemma meta_eq_state m v : meta_eq m (m_set_state m v).
Proof. repeat split. Qed.

(* a slot-wise function that keeps the placement and name of every live slot *)
Definition slot_pres (g : option rmeta -> option rmeta) : Prop :=
  g None = None /\ forall m, exists m', g (Some m) = Some m' /\ meta_eq m m'.

(* flush = a placement-preserving map over the slot table, then promote *)
Lemma flush_shape s :
  exists g H Q, slot_pres g /\
    fst (flush s) = set_holes (set_pend (set_slots s (map g (slots s))) []) H Q.
Proof.
  unfold flush.
  destruct (filter _ (slots s)).
  - cbn [fst]. eexists.
    destruct (promote_shape (set_slots s (map (fun o => match o with Some m => Some (m_clear_dirty m) | None => None end) (slots s))))
      as (H & Q & ->).
    exists H, Q. split; [|reflexivity]. split; [reflexivity|].
    intros m. eexists. split; [reflexivity|]. apply meta_eq_clear.
  - cbn [fst]. eexists.
    destruct (promote_shape (set_slots s (map (fun o => match o with
                                   | Some m => if flush_region_is_dirty m then Some (m_set_state (m_clear_dirty m) ST_CLEAN)
                                               else Some (m_clear_dirty m)
                                   | None => None end) (slots s))))
      as (H & Q & ->).
    exists H, Q. split; [|reflexivity]. split; [reflexivity|].
    intros m. destruct (flush_region_is_dirty m); eexists; (split; [reflexivity|]).
    + eapply meta_eq_trans; [apply meta_eq_clear|apply meta_eq_state].
    + apply meta_eq_clear.
Qed.

Lemma nth_opt_map {A B} (g : A -> B) l n : nth_opt (map g l) n = option_map g (nth_opt l n).
Proof. revert n. induction l as [|h t IH]; intros [|n]; cbn [map nth_opt option_map]; auto. Qed.

(* the statement "slot i keeps its placement and name" *)
Definition slot_kept (o o' : option rmeta) : Prop :=
  match o, o' with
  | Some m, Some m' => r_start m' = r_start m /\ r_len m' = r_len m /\ r_reserved m' = r_reserved m /\ r_id m' = r_id m
  | None, None => True
  | _, _ => False
  end.

Lemma slot_map_kept s s' g i :
  slot_pres g -> slots s' = map g (slots s) -> slot_kept (slot s i) (slot s' i).
Proof.
  intros [Hn Hs] E. unfold slot, get. rewrite E, nth_opt_map.
  destruct (nth_opt (slots s) (N.to_nat i)) as [[m|]|]; cbn [option_map slot_kept].
  - destruct (Hs m) as (m' & -> & Hm). exact Hm.
  - rewrite Hn. exact I.
  - exact I.
Qed.

Lemma flush_slot s i : slot_kept (slot s i) (slot (fst (flush s)) i).
Proof.
  destruct (flush_shape s) as (g & H & Q & Hg & ->). eapply slot_map_kept; [exact Hg|reflexivity].
Qed.
Lemma flush_s2r s : s2r (fst (flush s)) = s2r s.
Proof. destruct (flush_shape s) as (g & H & Q & Hg & ->). reflexivity. Qed.
Lemma flush_resv s : resv (fst (flush s)) = resv s.
Proof. destruct (flush_shape s) as (g & H & Q & Hg & ->). reflexivity. Qed.
Lemma flush_pend s : pend (fst (flush s)) = [].
Proof. destruct (flush_shape s) as (g & H & Q & Hg & ->). reflexivity. Qed.
Lemma flush_rfile s : rfile (fst (flush s)) = rfile s.
Proof. destruct (flush_shape s) as (g & H & Q & Hg & ->). reflexivity. Qed.
Lemma flush_file_len s : file_len (fst (flush s)) = file_len s.
Proof. destruct (flush_shape s) as (g & H & Q & Hg & ->). reflexivity. Qed.
Lemma flush_mem s : mem (fst (flush s)) = mem s.
Proof. destruct (flush_shape s) as (g & H & Q & Hg & ->). reflexivity. Qed.
Lemma flush_held s : held (fst (flush s)) = held s.
Proof. destruct (flush_shape s) as (g & H & Q & Hg & ->). reflexivity. Qed.

(* compact = flush, then zero the punch ranges *)
Definition zero_ranges (l : list (N * N)) (m : N -> N) : N -> N :=
  fold_left (fun m r => mem_zero m (fst r) (snd r)) l m.

Lemma compact_fst s :
  fst (compact s) =
  set_mem (fst (flush s)) (zero_ranges (punch_ranges (fst (flush s))) (mem (fst (flush s)))).
Proof. unfold compact. destruct (flush s) as [s1 n]. reflexivity. Qed.
Lemma compact_snd s : snd (compact s) = snd (flush s).
Proof. unfold compact. destruct (flush s) as [s1 n]. reflexivity. Qed.

Lemma compact_slot_flush s i : slot (fst (compact s)) i = slot (fst (flush s)) i.
Proof. rewrite compact_fst. reflexivity. Qed.
Lemma compact_slots s : slots (fst (compact s)) = slots (fst (flush s)).
Proof. rewrite compact_fst. reflexivity. Qed.
Lemma compact_slot s i : slot_kept (slot s i) (slot (fst (compact s)) i).
Proof. rewrite compact_slot_flush. apply flush_slot. Qed.
Lemma compact_s2r s : s2r (fst (compact s)) = s2r s.
Proof. rewrite compact_fst. cbn [s2r set_mem]. apply flush_s2r. Qed.
Lemma compact_holes s : holes (fst (compact s)) = holes (fst (flush s)).
Proof. rewrite compact_fst. reflexivity. Qed.
Lemma compact_h2s s : h2s (fst (compact s)) = h2s (fst (flush s)).
Proof. rewrite compact_fst. reflexivity. Qed.
Lemma compact_resv s : resv (fst (compact s)) = resv s.
Proof. rewrite compact_fst. cbn [resv set_mem]. apply flush_resv. Qed.
Lemma compact_pend s : pend (fst (compact s)) = [].
Proof. rewrite compact_fst. cbn [pend set_mem]. apply flush_pend. Qed.
Lemma compact_rfile s : rfile (fst (compact s)) = rfile s.
Proof. rewrite compact_fst. cbn [rfile set_mem]. apply flush_rfile. Qed.
Lemma compact_file_len s : file_len (fst (compact s)) = file_len s.
Proof. rewrite compact_fst. cbn [file_len set_mem]. apply flush_file_len. Qed.
Lemma compact_held s : held (fst (compact s)) = held s.
Proof. rewrite compact_fst. cbn [held set_mem]. apply flush_held. Qed.

(* C12, placement clause: compaction never moves, resizes or renames a region, never creates
   or drops one, and never changes the file length *)
Theorem compact_placements : forall s i,
  match slot s i, slot (fst (compact s)) i with
  | Some m, Some m' => r_start m' = r_start m /\ r_len m' = r_len m /\ r_reserved m' = r_reserved m /\ r_id m' = r_id m
  | None, None => True
  | _, _ => False
  end /\ file_len (fst (compact s)) = file_len s.
Proof. intros s i. split; [apply (compact_slot s i)|apply compact_file_len]. Qed.

Theorem flush_placements : forall s i,
  match slot s i, slot (fst (flush s)) i with
  | Some m, Some m' => r_start m' = r_start m /\ r_len m' = r_len m /\ r_reserved m' = r_reserved m /\ r_id m' = r_id m
  | None, None => True
  | _, _ => False
  end /\ file_len (fst (flush s)) = file_len s.
Proof. intros s i. split; [apply (flush_slot s i)|apply flush_file_len]. Qed.

(* ---- 2. the reference state is unchanged -------------------------------------------------- *)

Lemma sreg_eq_refl a : sreg_eq a a.
Proof. repeat split. Qed.
Lemma sreg_eq_sym a b : sreg_eq a b -> sreg_eq b a.
Proof.
  intros (Hl & Hd & Hp). split; [|split]; [congruence| |congruence].
  intros k Hk. symmetry. apply Hd. rewrite Hl. exact Hk.
Qed.
Lemma sreg_eq_trans a b c : sreg_eq a b -> sreg_eq b c -> sreg_eq a c.
Proof.
  intros (Hl & Hd & Hp) (Hl' & Hd' & Hp'). split; [|split]; [congruence| |congruence].
  intros k Hk. rewrite Hd by exact Hk. apply Hd'. rewrite <- Hl. exact Hk.
Qed.

Lemma spec_eq_refl a : spec_eq a a.
Proof.
  split; [|reflexivity]. intros id. destruct (sget id (sp_regions a)); [apply sreg_eq_refl|exact I].
Qed.
Lemma spec_eq_sym a b : spec_eq a b -> spec_eq b a.
Proof.
  intros [Hr Hh]. split; [|intros id; symmetry; apply Hh].
  intros id. specialize (Hr id).
  destruct (sget id (sp_regions a)), (sget id (sp_regions b)); try exact Hr. now apply sreg_eq_sym.
Qed.
Lemma spec_eq_trans a b c : spec_eq a b -> spec_eq b c -> spec_eq a c.
Proof.
  intros [Hr Hh] [Hr' Hh']. split; [|intros id; rewrite Hh; apply Hh'].
  intros id. specialize (Hr id). specialize (Hr' id).
  destruct (sget id (sp_regions a)), (sget id (sp_regions b)), (sget id (sp_regions c));
    try exact I; try contradiction. eapply sreg_eq_trans; eauto.
Qed.

(* two slot entries that the abstraction cannot tell apart: same name and length, same bytes
   below the length *)
Definition slot_abs_rel (s s' : st) (o o' : option rmeta) : Prop :=
  match o, o' with
  | Some m, Some m' =>
      r_id m' = r_id m /\ r_len m' = r_len m /\
      forall k, k < r_len m -> mem s' (r_start m' + k) = mem s (r_start m + k)
  | None, None => True
  | _, _ => False
  end.

Lemma abs_from_rel s s' : rfile s' = rfile s ->
  forall l l', Forall2 (slot_abs_rel s s') l l' ->
  forall i id,
    match sget id (abs_from s' l' i), sget id (abs_from s l i) with
    | Some x, Some y => sreg_eq x y
    | None, None => True
    | _, _ => False
    end.
Proof.
  intros Hrf l l' HF. induction HF as [|o o' l l' Ho HF IH]; intros i id.
  - exact I.
  - destruct o as [m|], o' as [m'|]; cbn [slot_abs_rel] in Ho; try contradiction.
    + destruct Ho as (Hid & Hlen & Hb). cbn [abs_from sget]. rewrite Hid.
      destruct (r_id m =? id); [|apply IH].
      split; [|split]; cbn [s_len s_data s_persisted].
      * exact Hlen.
      * intros k Hk. apply Hb. rewrite <- Hlen. exact Hk.
      * unfold rfile_has. rewrite Hrf. reflexivity.
    + cbn [abs_from]. apply IH.
Qed.

Lemma abs_rel s s' :
  rfile s' = rfile s -> held s' = held s ->
  Forall2 (slot_abs_rel s s') (slots s) (slots s') ->
  spec_eq (abs s') (abs s).
Proof.
  intros Hrf Hh HF. split.
  - intros id. unfold abs. cbn [sp_regions]. now apply abs_from_rel.
  - intros id. unfold sp_is_held, abs. cbn [sp_held]. rewrite Hh. reflexivity.
Qed.

Lemma Forall2_map_r {A B} (R : A -> B -> Prop) (g : A -> B) l :
  (forall x, In x l -> R x (g x)) -> Forall2 R l (map g l).
Proof.
  induction l as [|h t IH]; intros H; cbn [map]; constructor.
  - apply H. left. reflexivity.
  - apply IH. intros x Hx. apply H. right. exact Hx.
Qed.

Lemma Forall2_same {A} (R : A -> A -> Prop) l : (forall x, In x l -> R x x) -> Forall2 R l l.
Proof.
  intros H. rewrite <- (map_id l) at 2. now apply Forall2_map_r.
Qed.

(* flush is invisible in the reference state (no invariant needed) *)
Theorem flush_abs : forall s, spec_eq (abs (fst (flush s))) (abs s).
Proof.
  intros s. destruct (flush_shape s) as (g & H & Q & [Hn Hs] & E).
  apply abs_rel.
  - apply flush_rfile.
  - apply flush_held.
  - rewrite E. cbn [slots set_holes set_pend set_slots]. apply Forall2_map_r.
    intros [m|] _; cbn [slot_abs_rel].
    + destruct (Hs m) as (m' & -> & Hst & Hlen & _ & Hid).
      split; [exact Hid|]. split; [exact Hlen|]. intros k _. rewrite Hst. reflexivity.
    + rewrite Hn. exact I.
Qed.

(* ---- 3. the punch ranges avoid every live region's data ------------------------------------ *)

(* two live slots at different positions both count in the owner sum of the region extents *)
Lemma owners_region_two (l : list (option rmeta)) : forall n1 n2 m1 m2 a,
  n1 <> n2 -> nth_opt l n1 = Some (Some m1) -> nth_opt l n2 = Some (Some m2) ->
  (cov (rext m1) a + cov (rext m2) a <= owners (region_exts l) a)%nat.
Proof.
  induction l as [|h t IH]; intros n1 n2 m1 m2 a Hne H1 H2.
  - destruct n1; discriminate.
  - destruct n1 as [|n1], n2 as [|n2]; cbn [nth_opt] in H1, H2.
    + congruence.
    + inversion H1; subst h. cbn [region_exts]. rewrite owners_cons. fold (rext m1).
      assert (HI : In (rext m2) (region_exts t)) by (apply in_region_exts; eauto).
      pose proof (owners_in _ _ a HI). lia.
    + inversion H2; subst h. cbn [region_exts]. rewrite owners_cons. fold (rext m2).
      assert (HI : In (rext m1) (region_exts t)) by (apply in_region_exts; eauto).
      pose proof (owners_in _ _ a HI). lia.
    + assert (Hne' : n1 <> n2) by congruence.
      specialize (IH n1 n2 m1 m2 a Hne' H1 H2).
      destruct h; cbn [region_exts]; rewrite ?owners_cons; lia.
Qed.

Lemma owners_slots_two s i j mi mj a :
  i <> j -> slot s i = Some mi -> slot s j = Some mj ->
  (cov (rext mi) a + cov (rext mj) a <= owners (region_exts (slots s)) a)%nat.
Proof.
  unfold slot, get. intros Hne Hi Hj.
  destruct (nth_opt (slots s) (N.to_nat i)) as [[mi'|]|] eqn:Ei; try discriminate.
  destruct (nth_opt (slots s) (N.to_nat j)) as [[mj'|]|] eqn:Ej; try discriminate.
  inversion Hi; inversion Hj; subst.
  apply (owners_region_two (slots s) (N.to_nat i) (N.to_nat j)); auto. lia.
Qed.

(* the extents of two different live slots are disjoint *)
Lemma region_region_disjoint s i j mi mj :
  Inv s -> i <> j -> slot s i = Some mi -> slot s j = Some mj ->
  r_start mi + r_reserved mi <= r_start mj \/ r_start mj + r_reserved mj <= r_start mi.
Proof.
  intros H Hne Hi Hj.
  destruct (inv_region_aligned s i mi H Hi) as (_ & _ & Hp1).
  destruct (inv_region_aligned s j mj H Hj) as (_ & _ & Hp2). cbn [fst snd rext] in Hp1, Hp2.
  destruct (N.le_gt_cases (r_start mi + r_reserved mi) (r_start mj)) as [|H1]; [left; assumption|].
  destruct (N.le_gt_cases (r_start mj + r_reserved mj) (r_start mi)) as [|H2]; [right; assumption|].
  exfalso. pose (a := N.max (r_start mi) (r_start mj)).
  pose proof (inv_owners_le1 s a H) as Hle. rewrite owners_extents in Hle.
  pose proof (owners_slots_two s i j mi mj a Hne Hi Hj) as Ho.
  rewrite (cov_true (rext mi)) in Ho by (unfold covers, rext, a; cbn [fst snd]; lia).
  rewrite (cov_true (rext mj)) in Ho by (unfold covers, rext, a; cbn [fst snd]; lia).
  lia.
Qed.

(* the start of a live region determines its slot *)
Lemma region_start_inj s i j mi mj :
  Inv s -> slot s i = Some mi -> slot s j = Some mj -> r_start mi = r_start mj -> i = j.
Proof.
  intros H Hi Hj E. destruct (N.eq_dec i j) as [|Hne]; [assumption|]. exfalso.
  destruct (inv_region_aligned s i mi H Hi) as (_ & _ & Hp1).
  destruct (inv_region_aligned s j mj H Hj) as (_ & _ & Hp2). cbn [fst snd rext] in Hp1, Hp2.
  destruct (region_region_disjoint s i j mi mj H Hne Hi Hj); lia.
Qed.

Lemma in_slots_slot s m : In (Some m) (slots s) -> exists i, slot s i = Some m.
Proof.
  intros HI. apply In_nth_error in HI. destruct HI as [n Hn]. rewrite <- nth_opt_nth_error in Hn.
  exists (N.of_nat n). unfold slot, get. rewrite Nat2N.id, Hn. reflexivity.
Qed.
Lemma slot_in_slots s i m : slot s i = Some m -> In (Some m) (slots s).
Proof.
  unfold slot, get. intros H.
  destruct (nth_opt (slots s) (N.to_nat i)) as [[m'|]|] eqn:E; try discriminate.
  inversion H; subst. rewrite nth_opt_nth_error in E. eapply nth_error_In; eauto.
Qed.

(* the range list, element by element *)
Lemma in_punch_ranges s r :
  In r (punch_ranges s) <->
  (exists i m, slot s i = Some m /\ ceil_page (r_len m) < r_reserved m /\
               r = (r_start m + ceil_page (r_len m), r_reserved m - ceil_page (r_len m)))
  \/ In r (holes s).
Proof.
  unfold punch_ranges. rewrite in_app_iff, in_flat_map. split.
  - intros [(o & Ho & Hr)|Hh]; [left|right; assumption].
    destruct o as [m|]; [|destruct Hr]. cbv zeta in Hr.
    destruct (ceil_page (r_len m) <? r_reserved m) eqn:E; [|destruct Hr].
    destruct Hr as [<-|[]]. destruct (in_slots_slot s m Ho) as [i Hi].
    exists i, m. split; [assumption|]. split; [lia|reflexivity].
  - intros [(i & m & Hs & Hlt & ->)|Hh]; [left|right; assumption].
    exists (Some m). split; [eapply slot_in_slots; eauto|]. cbv zeta.
    destruct (ceil_page (r_len m) <? r_reserved m) eqn:E; [left; reflexivity|lia].
Qed.

(* C12, disjointness clause: every range handed to PUNCH_HOLE lies outside the data bytes
   [r_start, r_start + r_len) of every live region; it is either a tracked hole or the unused
   page-aligned tail of one region's own reservation *)
Theorem punch_disjoint : forall s1, Inv s1 -> forall r, In r (punch_ranges s1) ->
  (forall i m, slot s1 i = Some m -> fst r + snd r <= r_start m \/ r_start m + r_len m <= fst r)
  /\ ((exists a z, aget a (holes s1) = Some z /\ r = (a, z))
      \/ (exists i m, slot s1 i = Some m /\ r_start m + ceil_page (r_len m) <= fst r /\
                      fst r + snd r <= r_start m + r_reserved m)).
Proof.
  intros s1 HI r Hr. apply in_punch_ranges in Hr.
  destruct Hr as [(j & m0 & Hj & Hlt & ->)|Hh].
  - cbn [fst snd]. split.
    + intros i m Hi. pose proof (ceil_page_ge (r_len m0)) as Hge.
      destruct (N.eq_dec i j) as [->|Hne].
      * rewrite Hj in Hi. inversion Hi; subst m. right. lia.
      * destruct (inv_len s1 HI i m Hi) as [Hlen _].
        destruct (region_region_disjoint s1 i j m m0 HI Hne Hi Hj); [right|left]; lia.
    + right. exists j, m0. split; [assumption|]. lia.
  - destruct r as [a z]. cbn [fst snd].
    assert (Hg : aget a (holes s1) = Some z).
    { apply in_aget; [|assumption]. apply (inv_sorted s1 HI). }
    split.
    + intros i m Hi. destruct (inv_len s1 HI i m Hi) as [Hlen _].
      destruct (region_hole_disjoint s1 i m a z HI Hi Hg); [right|left]; lia.
    + left. eauto.
Qed.

(* ---- 4. zeroing the punch ranges is invisible in the reference state ------------------------ *)

Lemma zero_ranges_outside l : forall m a,
  (forall r, In r l -> a < fst r \/ fst r + snd r <= a) -> zero_ranges l m a = m a.
Proof.
  unfold zero_ranges. induction l as [|r l IH]; intros m a H; cbn [fold_left]; [reflexivity|].
  rewrite IH by (intros r' Hr'; apply H; right; exact Hr').
  unfold mem_zero. destruct (H r (or_introl eq_refl)); destruct ((fst r <=? a) && (a <? fst r + snd r)) eqn:E;
    try reflexivity; lia.
Qed.

(* a byte is either kept or becomes zero; it becomes zero when some range contains it *)
Lemma zero_ranges_cases l : forall m a, zero_ranges l m a = m a \/ zero_ranges l m a = 0.
Proof.
  unfold zero_ranges. induction l as [|r l IH]; intros m a; cbn [fold_left]; [left; reflexivity|].
  destruct (IH (mem_zero m (fst r) (snd r)) a) as [-> | ->]; [|right; reflexivity].
  unfold mem_zero. destruct ((fst r <=? a) && (a <? fst r + snd r)); [right|left]; reflexivity.
Qed.

Lemma zero_ranges_inside l : forall m a r,
  In r l -> fst r <= a < fst r + snd r -> zero_ranges l m a = 0.
Proof.
  unfold zero_ranges. induction l as [|r0 l IH]; intros m a r HI Ha; [destruct HI|]. cbn [fold_left].
  destruct HI as [->|HI]; [|eapply IH; eauto].
  destruct (zero_ranges_cases l (mem_zero m (fst r) (snd r)) a) as [E|E]; unfold zero_ranges in E; rewrite E;
    [|reflexivity].
  unfold mem_zero. destruct ((fst r <=? a) && (a <? fst r + snd r)) eqn:E2; [reflexivity|lia].
Qed.

Lemma compact_mem s a :
  mem (fst (compact s)) a = zero_ranges (punch_ranges (fst (flush s))) (mem s) a.
Proof. rewrite compact_fst. cbn [mem set_mem]. rewrite flush_mem. reflexivity. Qed.

(* an address outside every punch range keeps its value *)
Theorem compact_mem_outside : forall s a,
  (forall r, In r (punch_ranges (fst (flush s))) -> a < fst r \/ fst r + snd r <= a) ->
  mem (fst (compact s)) a = mem s a.
Proof. intros s a H. rewrite compact_mem. now apply zero_ranges_outside. Qed.

(* every byte after compaction is the old byte or zero *)
Theorem compact_mem_cases : forall s a, mem (fst (compact s)) a = mem s a \/ mem (fst (compact s)) a = 0.
Proof. intros s a. rewrite compact_mem. apply zero_ranges_cases. Qed.

(* the data bytes of every live region survive compaction *)
Theorem compact_mem_live : forall s, Inv (fst (flush s)) ->
  forall i m k, slot (fst (flush s)) i = Some m -> k < r_len m ->
  mem (fst (compact s)) (r_start m + k) = mem s (r_start m + k).
Proof.
  intros s HI i m k Hi Hk. apply compact_mem_outside. intros r Hr.
  destruct (punch_disjoint _ HI r Hr) as [Hd _]. destruct (Hd i m Hi); lia.
Qed.

Lemma compact_abs_flush s :
  Inv (fst (flush s)) -> spec_eq (abs (fst (compact s))) (abs (fst (flush s))).
Proof.
  intros HI. apply abs_rel.
  - rewrite compact_fst. reflexivity.
  - rewrite compact_fst. reflexivity.
  - rewrite compact_slots. apply Forall2_same. intros [m|] Hx; cbn [slot_abs_rel]; [|exact I].
    split; [reflexivity|]. split; [reflexivity|]. intros k Hk.
    destruct (in_slots_slot _ m Hx) as [i Hi].
    rewrite (compact_mem_live s HI i m k Hi Hk), flush_mem. reflexivity.
Qed.

(* C12, sequential part: compaction is invisible in the reference state *)
Theorem compact_abs_aux : forall s, Inv (fst (flush s)) -> spec_eq (abs (fst (compact s))) (abs s).
Proof.
  intros s HI. eapply spec_eq_trans; [now apply compact_abs_flush|apply flush_abs].
Qed.
