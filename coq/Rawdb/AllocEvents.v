(* Rawdb/AllocEvents.v — the durability events of the allocator model (C05/C12, all histories).
   `step_events_o orc s o` = the events of the trace alphabet of Rawdb/Crash.v that the real code
   emits through the verification tap while it executes operation o in state s, in program
   order, as harness/src/eng_crash.rs abstracts them (tokens op end mw dw sl ds ms pu pr fl fr).
   Transcribed from crates/rawdb/src/{lib,region,regions,region_metadata,layout}.rs next to
   Rawdb/Alloc.v, branch for branch.  DEFINITIONS ONLY.
   * every operation is bracketed by COp ids ... CEnd; a successful Database::flush / compact ends
     with CFlushed instead of CEnd, a Region::flush that returned Ok(true) with CRegionFlushed
     (eng_crash.rs, Ev::OpEnd);
   * an operation that returns an error emits no durability event: every refusal reachable from
     a state satisfying Inv is decided before the first write (C13); the three errors that Inv
     excludes (HoleTooSmall, RegionIndexMismatch, OverlappingCopyRanges) and panics are given
     the empty body as well;
   * punch_holes punches a candidate range only when a few sampled bytes are non-zero
     (approx_has_punchable_data): `orc start size` is that outcome; the candidates are
     Alloc.punch_ranges of the state after the flush.  The real code punches the layout holes in
     parallel: the order of the CPunch events of one compaction is not determined (the tie
     compares them as a set); retain_regions removes in HashMap order: likewise for its CMeta
     events.
   * Reopen and SetMinRegions are not part of crash traces (engine crash never generates them):
     they get the empty body. *)
From Anydb Require Import Common.Base Gen.Consts Rawdb.AMap Rawdb.Alloc Rawdb.Crash.

(* bytes f(0..n) written at absolute offset off *)
Definition wcontent (off : N) (f : N -> N) : content := fun a => f (a - off).

(* Database::set_min_len: SetLen { file: 0, len: target_len } only when the file grows (lib.rs:161) *)
Definition setlen_ev (s : st) (n : N) : list cev :=
  let s' := set_min_len s n in
  if file_len s' =? file_len s then [] else [CSetLen (file_len s')].

(* RegionMetadata::write_if_dirty: Regions::write_at(index, to_bytes()) only in state NEEDS_WRITE *)
Definition meta_ev (s : st) (i : N) : list cev :=
  match slot s i with
  | Some m => if r_state m =? ST_WRITE
              then [CMeta i (Some (r_start m, r_len m, r_reserved m, r_id m))] else []
  | None => []
  end.

(* the common tail of the two in-place growth paths: db.write; mark_dirty; set_len; write_if_dirty *)
Definition finish_events (s : st) (i start wo : N) (f : N -> N) (n new_len : N) : list cev :=
  CData (start + wo) n (wcontent (start + wo) f)
  :: meta_ev (upd (upd s i (fun m => m_mark_dirty m wo n)) i (fun m => m_set_len m new_len)) i.

(* Region::write_with, last path (region.rs:262-316) *)
Definition relocate_events (s : st) (i : N) (m : rmeta) (f : N -> N) (n wo new_len new_reserved copy_len : N)
  : list cev :=
  let start := r_start m in
  let '(pre, new_start) :=
    match find_hole s new_reserved with
    | Some hs => ([], hs)
    | None => (setlen_ev s (layout_len s + new_reserved), layout_len s)
    end in
  pre
  ++ (if copy_len =? 0 then [] else [CData new_start copy_len (fun a => mem s (a - new_start + start))])
  ++ [CData (new_start + wo) n (wcontent (new_start + wo) f);
      CMeta i (Some (new_start, new_len, new_reserved, r_id m))].

(* Region::write_with *)
Definition write_events (s : st) (i : N) (f : N -> N) (n : N) (at_ : option N) (truncate : bool) : list cev :=
  match slot s i with
  | None => []
  | Some m =>
      let start := r_start m in
      let reserved := r_reserved m in
      let ln := r_len m in
      if match at_ with Some a => ln <? a | None => false end then [] else
      let wo := match at_ with Some a => a | None => ln end in
      let new_len := match at_ with
                     | None => ln + n
                     | Some a => if truncate then a + n else N.max (a + n) ln
                     end in
      if new_len <=? reserved then
        CData (start + wo) n (wcontent (start + wo) f)
        :: (if new_len =? ln then []
            else meta_ev (upd (upd s i (fun m => m_mark_dirty m wo n)) i (fun m => m_set_len m new_len)) i)
      else if reserved =? 0 then []
      else
        match double_until 64 reserved new_len with
        | Ok new_reserved =>
            let added := new_reserved - reserved in
            let copy_len := if truncate then wo else ln in
            if is_last_anything s i then
              let s1 := upd s i (fun m => m_set_reserved m new_reserved) in
              setlen_ev s1 (start + new_reserved)
              ++ finish_events (set_min_len s1 (start + new_reserved)) i start wo f n new_len
            else
              match aget (start + reserved) (holes s) with
              | Some gap =>
                  if added <=? gap then
                    match remove_or_compress_hole s (start + reserved) added with
                    | AOk s1 => finish_events (upd s1 i (fun m => m_set_reserved m new_reserved)) i start wo f n new_len
                    | _ => []
                    end
                  else relocate_events s i m f n wo new_len new_reserved copy_len
              | None => relocate_events s i m f n wo new_len new_reserved copy_len
              end
        | _ => []
        end
  end.

Definition in_keep (keep : list N) (m : rmeta) : bool := existsb (fun x => x =? r_id m) keep.

(* Database::retain_regions: Regions::remove writes zeros over the slot of every removed region *)
Fixpoint retain_events (l : list (option rmeta)) (keep : list N) (i : N) : list cev :=
  match l with
  | [] => []
  | Some m :: t => if in_keep keep m then retain_events t keep (i + 1)
                   else CMeta i None :: retain_events t keep (i + 1)
  | None :: t => retain_events t keep (i + 1)
  end.

Definition flush_dirty (s : st) : list (option rmeta) :=
  filter (fun o => match o with Some m => flush_region_is_dirty m | None => false end) (slots s).

(* Database::flush between OpStart and OpEnd (lib.rs:326-398) *)
Definition flush_events (s : st) : list cev :=
  match flush_dirty s with
  | [] => (match pend s with [] => [] | _ => [CMetaSync] end) ++ [CPromote]
  | _ => [CDataSync; CMetaSync; CPromote]
  end.

(* Database::punch_holes after the flush of compact (lib.rs:471-552) *)
Definition punch_events (orc : N -> N -> bool) (s1 : st) : list cev :=
  let ps := filter (fun r => orc (fst r) (snd r)) (punch_ranges s1) in
  map (fun r => CPunch (fst r) (snd r)) ps ++ (match ps with [] => [] | _ => [CDataSync] end).

(* the ids eng_crash.rs attaches to the operation (Ev::OpStart): for retain_regions the regions
   with metadata on disk (the reference's `persisted`) that are not kept *)
Fixpoint retain_ids (l : list (option rmeta)) (keep : list N) : list N :=
  match l with
  | [] => []
  | Some m :: t => if in_keep keep m || (r_state m =? ST_WRITE) then retain_ids t keep
                   else r_id m :: retain_ids t keep
  | None :: t => retain_ids t keep
  end.

Definition op_ids (s : st) (o : op) : list N :=
  match o with
  | Create id _ | Write id _ _ | WriteAt id _ _ _ | TruncWrite id _ _ _ | Truncate id _ | Remove id => [id]
  | Rename id new_id => [id; new_id]
  | Retain keep => retain_ids (slots s) keep
  | _ => []
  end.

Definition with_region_ev (s : st) (id : N) (k : N -> list cev) : list cev :=
  match find_id s id with Some i => k i | None => [] end.

(* the events between OpStart and OpEnd of an operation that returns Ok *)
Definition body_events (orc : N -> N -> bool) (s : st) (o : op) : list cev :=
  match o with
  | Create id _ =>
      match find_id s id with
      | Some _ => []
      | None => match find_hole s PAGE_SIZE with
                | None => setlen_ev s (layout_len s + PAGE_SIZE)
                | Some _ => []
                end
      end
  | Write id f n => with_region_ev s id (fun i => write_events s i f n None false)
  | WriteAt id f n a => with_region_ev s id (fun i => write_events s i f n (Some a) false)
  | TruncWrite id f n a => with_region_ev s id (fun i => write_events s i f n (Some a) true)
  | Truncate id from =>
      with_region_ev s id (fun i =>
        match slot s i with
        | Some m => if from =? r_len m then [] else meta_ev (upd s i (fun m => m_set_len m from)) i
        | None => []
        end)
  | Rename id new_id => with_region_ev s id (fun i => meta_ev (upd s i (fun m => m_set_id m new_id)) i)
  | Remove id => with_region_ev s id (fun i => [CMeta i None])
  | DropHandle _ => []
  | Retain keep => retain_events (slots s) keep 0
  | Flush => flush_events s
  | FlushRegion id =>
      with_region_ev s id (fun i =>
        match slot s i with
        | Some m => if m_is_dirty m || negb (r_state m =? ST_CLEAN) then [CDataSync; CMetaSync] else []
        | None => []
        end)
  | Compact => flush_events s ++ punch_events orc (fst (flush s))
  | Reopen => []
  | SetMinLen n => setlen_ev s n
  | SetMinRegions _ => []
  end.

(* OpEnd: "fl" after a successful flush/compact, "fr" after Region::flush = Ok(true), else "end" *)
Definition closer (s : st) (o : op) : cev :=
  match o, step s o with
  | Flush, AOk _ => CFlushed
  | Compact, AOk _ => CFlushed
  | FlushRegion _, AOk (_, ONum 1) => CRegionFlushed
  | _, _ => CEnd
  end.

Definition step_events_o (orc : N -> N -> bool) (s : st) (o : op) : list cev :=
  COp (op_ids s o)
  :: (match step s o with AOk _ => body_events orc s o | _ => [] end)
  ++ [closer s o].

(* the model "always punches" *)
Definition step_events (s : st) (o : op) : list cev := step_events_o (fun _ _ => true) s o.

(* the k-th operation of the history uses the punch oracle orcs k *)
Fixpoint run_events_o (orcs : nat -> N -> N -> bool) (k : nat) (s : st) (ops : list op) : list cev :=
  match ops with
  | [] => []
  | o :: t => step_events_o (orcs k) s o ++ run_events_o orcs (S k) (fst (step_total s o)) t
  end.

(* the whole trace of a history on a fresh database: eng_crash.rs starts the log with the initial
   length of the data file *)
Definition trace_of_o (orcs : nat -> N -> N -> bool) (min_len : N) (ops : list op) : list cev :=
  CSetLen min_len :: run_events_o orcs 0 (init min_len) ops.
Definition trace_of (min_len : N) (ops : list op) : list cev := trace_of_o (fun _ _ _ => true) min_len ops.

(* histories of crash traces *)
Definition crash_op (o : op) : bool :=
  match o with Reopen | SetMinRegions _ => false | _ => true end.
