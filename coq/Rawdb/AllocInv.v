(* Rawdb/AllocInv.v — the extent invariant of C02, stated semantically (order-independent):
   every address below layout_len is owned by exactly one extent (live region, hole, pending
   hole or reservation), no address at or above it is owned at all.  DEFINITIONS ONLY. *)
From Anydb Require Import Common.Base Gen.Consts Rawdb.AMap Rawdb.Alloc.

Definition ext : Type := (N * N)%type.          (* start, size *)
Definition covers (e : ext) (a : N) : bool := (fst e <=? a) && (a <? fst e + snd e).
Definition owners (l : list ext) (a : N) : nat := length (filter (fun e => covers e a) l).

Fixpoint region_exts (l : list (option rmeta)) : list ext :=
  match l with
  | [] => []
  | Some m :: t => (r_start m, r_reserved m) :: region_exts t
  | None :: t => region_exts t
  end.

(* all tracked extents of a state *)
Definition extents (s : st) : list ext :=
  region_exts (slots s) ++ holes s ++ pend s ++ resv s.

Definition aligned (e : ext) : Prop :=
  fst e mod PAGE_SIZE = 0 /\ snd e mod PAGE_SIZE = 0 /\ 0 < snd e.

Fixpoint asorted {V} (m : amap V) : Prop :=
  match m with
  | [] => True
  | (k, _) :: t => (match t with [] => True | (k', _) :: _ => k < k' end) /\ asorted t
  end.

Definition h2s_agrees (s : st) : Prop :=
  (forall start size, aget start (holes s) = Some size <->
                      exists l, aget size (h2s s) = Some l /\ In start l)
  /\ (forall size l, aget size (h2s s) = Some l -> l <> [] /\ NoDup l).

Definition ids_unique (s : st) : Prop :=
  forall i j mi mj, slot s i = Some mi -> slot s j = Some mj -> r_id mi = r_id mj -> i = j.

(* the regions file mirrors the table: a slot that was ever written holds the current
   metadata; a region still in state NEEDS_WRITE was never written and is empty.
   (r_dmax m = 0 implies m_is_dirty m = false; the weaker `m_is_dirty m = false` is not
   inductive: mark_dirty(0,0) on bounds (5,3) gives the dirty (0,3).) *)
Definition rfile_mirrors (s : st) : Prop :=
  forall i,
    match slot s i with
    | Some m =>
        if r_state m =? ST_WRITE
        then get (rfile s) i = Some None /\ r_len m = 0 /\ r_dmax m = 0
        else get (rfile s) i = Some (Some (r_start m, r_len m, r_reserved m, r_id m))
    | None => get (rfile s) i = Some None \/ get (rfile s) i = None
    end.

Record Inv (s : st) : Prop := mkInv {
  inv_aligned : Forall aligned (extents s);
  inv_cover : forall a, owners (extents s) a = if a <? layout_len s then 1%nat else 0%nat;
  inv_len : forall i m, slot s i = Some m -> r_len m <= r_reserved m /\ r_reserved m <= MAX_RESERVED_SIZE;
  inv_s2r : forall a i, aget a (s2r s) = Some i <-> exists m, slot s i = Some m /\ r_start m = a;
  inv_sorted : asorted (s2r s) /\ asorted (holes s) /\ asorted (pend s) /\ asorted (resv s) /\ asorted (h2s s);
  inv_h2s : h2s_agrees s;
  inv_no_adjacent_holes : forall a z a' z', aget a (holes s) = Some z -> aget a' (holes s) = Some z' -> a + z <> a';
  inv_file : layout_len s <= file_len s;
  inv_ids : ids_unique s;
  inv_rfile : rfile_mirrors s;
  inv_no_resv : resv s = []        (* reservations exist only inside one write_with call *)
}.

(* the reuse clause of C02: when a placement of `need` bytes happens in a state that has a
   real hole of at least that size, the allocated area does not grow *)
Definition has_hole_for (s : st) (need : N) : Prop :=
  exists a z, aget a (holes s) = Some z /\ need <= z.

(* region i was placed (created or moved) by the step s -> s' *)
Definition placed (s s' : st) (i : N) : Prop :=
  match slot s' i with
  | Some m' => match slot s i with
               | Some m => r_start m <> r_start m'
               | None => True
               end
  | None => False
  end.
