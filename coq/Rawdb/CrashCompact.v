(* Rawdb/CrashCompact.v — the crash part of C12 (proof file): in a trace accepted by the monitor a
   hole punch releases only bytes that no possibly-durable slot version references as content,
   so every crash during or after compaction is covered by C05_os / C05_lib. *)
From Anydb Require Import Common.Base Gen.Consts Rawdb.AMap Rawdb.Alloc Rawdb.Crash Rawdb.CrashFacts
  Rawdb.CrashInv Rawdb.CrashSound.

(* what M3/M4 (data_ok) says *)
Lemma data_ok_spec m off len :
  data_ok m off len = true ->
  forall i v, In (Some v) (possible m i) -> slot_addressed m i = false ->
    disjoint off len (sr_start v) (sr_len v) = true.
Proof.
  unfold data_ok. intros H i v Hin Ha. rewrite forallb_forall in H.
  specialize (H i (in_possible_all_slots _ _ _ Hin)). rewrite Ha in H. cbn [orb] in H.
  rewrite forallb_forall in H. exact (H _ Hin).
Qed.

(* no operation in progress (compaction names no region): no slot is addressed *)
Lemma not_addressed_when_idle m i : m_cur m = [] -> slot_addressed m i = false.
Proof.
  intros Hc. unfold slot_addressed. rewrite Hc.
  induction (possible m i) as [|[w|] t IH]; cbn [existsb mem_in orb]; [reflexivity|exact IH|exact IH].
Qed.

Lemma punch_accepted m off len t : snd (mon_run m (CPunch off len :: t)) = true -> data_ok m off len = true.
Proof.
  cbn [mon_run mon_step]. destruct (data_ok m off len); [reflexivity|]. cbn [snd]. discriminate.
Qed.

Theorem C12_punch_safe_proof :
  forall t1 off len t2, snd (mon_run mon_init (t1 ++ CPunch off len :: t2)) = true ->
    let m := fst (mon_run mon_init t1) in
    m_cur m = [] ->
    forall i v, In (Some v) (possible m i) -> disjoint off len (sr_start v) (sr_len v) = true.
Proof.
  intros t1 off len t2 H m Hc i v Hin. apply mon_run_app in H. destruct H as [_ H]. fold m in H.
  apply punch_accepted in H. apply (data_ok_spec m off len H i v Hin).
  apply not_addressed_when_idle. exact Hc.
Qed.

(* the punch adds no new possible byte value on the content of any possibly-durable version: on
   such a content every OS image taken after the punch is an OS image taken before it *)
Theorem C12_punch_keeps_contents_proof :
  forall t1 off len t2, snd (mon_run mon_init (t1 ++ CPunch off len :: t2)) = true ->
    let m := fst (mon_run mon_init t1) in
    let m' := fst (mon_run mon_init (t1 ++ [CPunch off len])) in
    m_cur m = [] ->
    forall i v, In (Some v) (possible m i) ->
    forall img, os_data m' img -> forall a, sr_start v <= a < sr_start v + sr_len v ->
      img a = m_dmem m a \/
      exists off' len' f, In (off', len', f) (m_pdata m) /\ off' <= a < off' + len' /\ img a = f a.
Proof.
  intros t1 off len t2 H m m' Hc i v Hin img Himg a Ha.
  pose proof (C12_punch_safe_proof t1 off len t2 H Hc i v Hin) as Hd. fold m in Hd.
  apply mon_run_app in H. destruct H as [H1 H2]. fold m in H2.
  assert (Em : m' = fst (mon_step m (CPunch off len))).
  { unfold m'. rewrite (mon_run_app_state _ _ _ H1). fold m. cbn [mon_run].
    destruct (mon_step m (CPunch off len)) as [m1 [|]]; reflexivity. }
  rewrite Em in Himg. destruct (Himg a) as [E|(o & l & g & Hi & Hr & E)]; mcbn.
  - left. exact E.
  - apply in_app_or in Hi. destruct Hi as [Hi|[Hi|[]]].
    + right. exists o, l, g. tauto.
    + injection Hi as <- <- <-. exfalso. exact (disjoint_no_common _ _ _ _ a Hd Hr Ha).
Qed.

(* every crash point at or after a punch is a crash point of an accepted trace: C05_os applies *)
Theorem C12_crash_os_proof :
  forall t1 off len t2, snd (mon_run mon_init (t1 ++ CPunch off len :: t2)) = true ->
    let m := fst (mon_run mon_init (t1 ++ [CPunch off len])) in
    forall sigma img, os_slots m sigma -> os_data m img ->
      pairwise_disjoint (recovered m sigma) /\ inside_file m (recovered m sigma)
      /\ match m_flushed m with
         | Some (fl, fmem) =>
             forall i w, assoc_get i fl = Some w -> mem_in (sr_id w) (m_touched m) = false ->
               sigma i = Some w /\ forall a, sr_start w <= a < sr_start w + sr_len w -> img a = fmem a
         | None => True
         end.
Proof.
  intros t1 off len t2 H. apply (C05_os_proof (t1 ++ [CPunch off len]) t2).
  rewrite <- app_assoc. exact H.
Qed.

(* the arithmetic of punch_holes: the punched tail [start + ceil_page len, start + reserved) of a
   region never meets its content [start, start + len) *)
Lemma ceil_page_ge n : n <= ceil_page n.
Proof. unfold ceil_page, PAGE_SIZE_MINUS_1, PAGE_SIZE. lia. Qed.

Theorem C12_tail_punch_disjoint start ln reserved :
  disjoint (start + ceil_page ln) (reserved - ceil_page ln) start ln = true.
Proof. pose proof (ceil_page_ge ln). unfold disjoint. lia. Qed.
