(* Rawdb/OpenLock.v — MODEL (definitions only) for C18 "at most one open Database per directory".

   Transcribed from /repo/crates/rawdb/src:
     lib.rs:75-122   Database::open_with_min_len  (create_dir_all; OpenOptions read/create/write/
                     truncate(false) .open(data); file.try_lock()?; if file_len < min_len
                     { set_len; sync_all }; Regions::open(path)?; create_mmap; Arc::new; fill)
     regions.rs:25-44 Regions::open (create_dir_all; open(regions) create/no-truncate; try_lock()?; create_mmap)
     lib.rs:56-67    struct DatabaseInner: field order = drop order (… regions … file …)
     lib.rs:416-440  run_bg (uncounted handle, JoinHandle pushed) / sync_bg_tasks (drain + join)
     lib.rs:636-642  Drop for Database: `if Arc::strong_count == 1 { sync_bg_tasks }`
     reader.rs:10-18 Reader { mmap guard, …, _region, _db : Database }  (a strong handle)
     region.rs:14-20 RegionInner { db : WeakDatabase, … }               (no strong handle; db() upgrades)
     error.rs:13     Error::TryLock(#[from] fs::TryLockError)

   The ORDER of the calls is not written here: the step sequence of an open is built from
   Gen.OpenOrder.open_with_min_len_calls / regions_open_calls and the release sequence of a drop
   from Gen.OpenOrder.inner_lock_fields, all regenerated from the source by tools/gen_openlock.py.

   The kernel's advisory lock is NOT modelled: `try_lock_ok holders me` is a Section variable (the
   oracle); the rule assumed about it is stated in OpenLockProofs.v (flock_excl / flock_free). *)
From Anydb Require Import Common.Base Gen.Consts Gen.OpenOrder.

(* ---------------------------------------------------------------- files and lock owners *)
Inductive fileid : Set := FData | FRegions.
Definition fileid_eqb (a b : fileid) : bool :=
  match a, b with FData, FData | FRegions, FRegions => true | _, _ => false end.

(* an open file description: the one opener k created for a file, or one made outside the library *)
Inductive owner : Set := Opener (k : N) | Foreign (k : N).
Definition owner_eqb (a b : owner) : bool :=
  match a, b with
  | Opener x, Opener y | Foreign x, Foreign y => x =? y
  | _, _ => false
  end.

Record file : Set := mkFile {
  f_exists : bool;
  f_len : N;
  f_content : option N;      (* abstract token: "the state flushed as c"; None = never flushed *)
  f_lock : list owner        (* open file descriptions holding the exclusive advisory lock *)
}.

Record fs : Set := mkFs { data : file; regs : file }.
Definition get (x : fs) (f : fileid) : file := match f with FData => data x | FRegions => regs x end.
Definition set (x : fs) (f : fileid) (v : file) : fs :=
  match f with FData => mkFs v (regs x) | FRegions => mkFs (data x) v end.

(* closing an open file description releases the lock it holds (nothing else) *)
Definition unlock (me : owner) (l : list owner) : list owner := filter (fun o => negb (owner_eqb o me)) l.
Definition close (me : owner) (f : fileid) (x : fs) : fs :=
  let fl := get x f in set x f (mkFile (f_exists fl) (f_len fl) (f_content fl) (unlock me (f_lock fl))).

(* ---------------------------------------------------------------- the step sequence of an open *)
Inductive instr : Set :=
| I_mkdir | I_open (f : fileid) | I_try_lock (f : fileid) | I_set_len (f : fileid) | I_sync (f : fileid) | I_mmap (f : fileid).

(* a call of the generated lists, applied to file f (Regions::open works on `regions`) *)
Definition leaf (f : fileid) (c : call) : list instr :=
  match c with
  | C_create_dir_all => [I_mkdir]
  | C_open => [I_open f]
  | C_try_lock => [I_try_lock f]
  | C_set_len => [I_set_len f]
  | C_sync_all => [I_sync f]
  | C_create_mmap => [I_mmap f]
  | C_regions_open => []
  end.

Definition open_prog : list instr :=
  flat_map (fun c => match c with
                     | C_regions_open => flat_map (leaf FRegions) regions_open_calls
                     | _ => leaf FData c
                     end) open_with_min_len_calls.

Definition creates (f : fileid) : bool := match f with FData => data_open_creates | FRegions => regions_open_creates end.
Definition truncates (f : fileid) : bool := match f with FData => data_open_truncates | FRegions => regions_open_truncates end.

Inductive outcome : Set := Opened | RefusedAt (f : fileid).

Section Oracle.
(* the kernel: may the open file description `me` take the exclusive non-blocking lock on a file
   whose lock is currently held by `holders`? *)
Variable try_lock_ok : list owner -> owner -> bool.

(* one instruction; `held` = the Files the opener owns so far (locals), most recent first.
   Result: new files, new held, Some f = try_lock on f failed (the `?` returns). *)
Definition exec_instr (me : owner) (min_len : N) (i : instr) (x : fs) (held : list fileid)
  : fs * list fileid * option fileid :=
  match i with
  | I_mkdir => (x, held, None)
  | I_sync _ => (x, held, None)
  | I_mmap _ => (x, held, None)
  | I_open f =>
      let fl := get x f in
      let fl' := if truncates f then mkFile true 0 None (f_lock fl)
                 else mkFile (f_exists fl || creates f) (f_len fl) (f_content fl) (f_lock fl) in
      (set x f fl', f :: held, None)
  | I_try_lock f =>
      let fl := get x f in
      if try_lock_ok (f_lock fl) me
      then (set x f (mkFile (f_exists fl) (f_len fl) (f_content fl) (me :: f_lock fl)), held, None)
      else (x, held, Some f)
  | I_set_len f =>
      let fl := get x f in
      if set_len_guarded_by_lt_min_len && negb (f_len fl <? min_len) then (x, held, None)
      else (set x f (mkFile (f_exists fl) min_len (f_content fl) (f_lock fl)), held, None)
  end.

(* run the sequence; on a failed try_lock the locals are dropped in reverse declaration order *)
Fixpoint run_prog (me : owner) (min_len : N) (p : list instr) (x : fs) (held : list fileid) : fs * outcome :=
  match p with
  | [] => (x, Opened)
  | i :: p' =>
      match exec_instr me min_len i x held with
      | (x', held', None) => run_prog me min_len p' x' held'
      | (x', held', Some f) => (fold_left (fun y g => close me g y) held' x', RefusedAt f)
      end
  end.

Definition open_files (me : owner) (min_len : N) (x : fs) : fs * outcome := run_prog me min_len open_prog x [].

(* ---------------------------------------------------------------- instances *)
(* One successfully opened Database = one Arc<DatabaseInner>.  What keeps it alive:
   Database values (handles: the original, clones, region.db() upgrades) and Readers (each owns a
   Database); `joining` = one dropper sits in Drop → sync_bg_tasks, still counted by the Arc. *)
Record inst : Set := mkInst {
  i_id : N; i_handles : N; i_readers : N; i_bg : N; i_joining : bool
}.
Definition strong (i : inst) : N :=
  i_handles i + (if reader_holds_strong then i_readers i else 0) + (if i_joining i then 1 else 0).

Record st : Set := mkSt {
  files : fs;
  insts : list inst;                    (* live DatabaseInner values *)
  closing : list (N * list fileid);     (* DatabaseInner values being dropped: Files still to close, in order *)
  next : N                              (* id of the next open attempt *)
}.

Definition lock_file (l : lock_field) : fileid := match l with LF_regions => FRegions | LF_file => FData end.
Definition drop_files : list fileid := map lock_file inner_lock_fields.

Inductive op : Set :=
| Open (min_len : N)
| CloneHandle (k : N)         (* Database::clone *)
| RegionDb (k : N)            (* Region::db(): Weak upgrade, kept as a handle *)
| DropHandle (k : N)
| MkReader (k : N)            (* Region::create_reader *)
| DropReader (k : N)
| SpawnBg (k : N)             (* Database::run_bg *)
| FinishBg (k : N)            (* a background closure returns *)
| Flush (k c : N)             (* the holder writes and flushes content c *)
| ReleaseStep (k : N).        (* drop glue of DatabaseInner closes its next File *)

Inductive obs : Set :=
| O_open_ok (k dlen rlen : N) (c : option N)
| O_open_err (k : N) (at_file : fileid) (dlen rlen : N)       (* Err(Error::TryLock) *)
| O_ok | O_skip | O_joining | O_released | O_flushed.

Fixpoint find_inst (k : N) (l : list inst) : option inst :=
  match l with [] => None | i :: r => if i_id i =? k then Some i else find_inst k r end.
Definition remove_inst (k : N) (l : list inst) : list inst := filter (fun i => negb (i_id i =? k)) l.
Definition put_inst (i : inst) (l : list inst) : list inst := i :: remove_inst (i_id i) l.

(* the last Arc reference went away: DatabaseInner's fields start dropping *)
Definition begin_release (s : st) (k : N) : st :=
  mkSt (files s) (remove_inst k (insts s)) ((k, drop_files) :: closing s) (next s).

(* Drop for Database on one strong reference of i (i' = i with that reference removed):
   strong_count == 1 → sync_bg_tasks (blocks while tasks run), then the Arc decrement. *)
Definition drop_strong (s : st) (i i' : inst) : st * obs :=
  if strong i =? drop_joins_bg_at_strong_count then
    if i_bg i =? 0 then (begin_release s (i_id i), O_released)
    else (mkSt (files s) (put_inst (mkInst (i_id i') (i_handles i') (i_readers i') (i_bg i') true) (insts s)) (closing s) (next s), O_joining)
  else (mkSt (files s) (put_inst i' (insts s)) (closing s) (next s), O_ok).

(* growth of the two files by a first write+flush of one small region: create_region_if_needed →
   set_min_len(PAGE_SIZE) (lib.rs:127-156: ceil(max(len, cur*2, 1 MiB)) when cur < len) and
   Regions::create → set_min_len(SIZE_OF_REGION_METADATA) (regions.rs:87-94) *)
Definition flush_dlen (l : N) : N := if l <? PAGE_SIZE then GROW_FLOOR else l.
Definition flush_rlen (l : N) : N := N.max l SIZE_OF_REGION_METADATA.

Fixpoint release_in (k : N) (cl : list (N * list fileid)) (x : fs) : list (N * list fileid) * fs * bool :=
  match cl with
  | [] => ([], x, false)
  | (k', fsl) :: r =>
      if k' =? k then
        match fsl with
        | [] => (r, x, true)
        | f :: rest => ((match rest with [] => r | _ => (k', rest) :: r end), close (Opener k) f x, true)
        end
      else let '(r', x', b) := release_in k r x in ((k', fsl) :: r', x', b)
  end.

Definition step (s : st) (o : op) : st * obs :=
  match o with
  | Open m =>
      let k := next s in
      let '(x', out) := open_files (Opener k) m (files s) in
      match out with
      | Opened => (mkSt x' (mkInst k 1 0 0 false :: insts s) (closing s) (k + 1),
                   O_open_ok k (f_len (data x')) (f_len (regs x')) (f_content (data x')))
      | RefusedAt f => (mkSt x' (insts s) (closing s) (k + 1), O_open_err k f (f_len (data x')) (f_len (regs x')))
      end
  | CloneHandle k =>
      match find_inst k (insts s) with
      | Some i => if 0 <? i_handles i
                  then (mkSt (files s) (put_inst (mkInst k (i_handles i + 1) (i_readers i) (i_bg i) (i_joining i)) (insts s)) (closing s) (next s), O_ok)
                  else (s, O_skip)
      | None => (s, O_skip)
      end
  | RegionDb k =>
      match find_inst k (insts s) with
      | Some i => (mkSt (files s) (put_inst (mkInst k (i_handles i + 1) (i_readers i) (i_bg i) (i_joining i)) (insts s)) (closing s) (next s), O_ok)
      | None => (s, O_skip)
      end
  | DropHandle k =>
      match find_inst k (insts s) with
      | Some i => if 0 <? i_handles i
                  then drop_strong s i (mkInst k (i_handles i - 1) (i_readers i) (i_bg i) (i_joining i))
                  else (s, O_skip)
      | None => (s, O_skip)
      end
  | MkReader k =>
      match find_inst k (insts s) with
      | Some i => (mkSt (files s) (put_inst (mkInst k (i_handles i) (i_readers i + 1) (i_bg i) (i_joining i)) (insts s)) (closing s) (next s), O_ok)
      | None => (s, O_skip)
      end
  | DropReader k =>
      match find_inst k (insts s) with
      | Some i => if 0 <? i_readers i
                  then drop_strong s i (mkInst k (i_handles i) (i_readers i - 1) (i_bg i) (i_joining i))
                  else (s, O_skip)
      | None => (s, O_skip)
      end
  | SpawnBg k =>
      match find_inst k (insts s) with
      | Some i => if (0 <? i_handles i) && negb (i_joining i)
                  then (mkSt (files s) (put_inst (mkInst k (i_handles i) (i_readers i) (i_bg i + 1) false) (insts s)) (closing s) (next s), O_ok)
                  else (s, O_skip)
      | None => (s, O_skip)
      end
  | FinishBg k =>
      match find_inst k (insts s) with
      | Some i =>
          if 0 <? i_bg i then
            let bg' := i_bg i - 1 in
            if i_joining i && (bg' =? 0) then
              (* sync_bg_tasks returns in the dropper; its Arc reference is released *)
              let i' := mkInst k (i_handles i) (i_readers i) 0 false in
              if strong i' =? 0 then (begin_release s k, O_released)
              else (mkSt (files s) (put_inst i' (insts s)) (closing s) (next s), O_ok)
            else (mkSt (files s) (put_inst (mkInst k (i_handles i) (i_readers i) bg' (i_joining i)) (insts s)) (closing s) (next s), O_ok)
          else (s, O_skip)
      | None => (s, O_skip)
      end
  | Flush k c =>
      match find_inst k (insts s) with
      | Some i => if 0 <? i_handles i then
                    let x := files s in
                    let d := data x in let r := regs x in
                    (mkSt (mkFs (mkFile (f_exists d) (flush_dlen (f_len d)) (Some c) (f_lock d))
                                (mkFile (f_exists r) (flush_rlen (f_len r)) (Some c) (f_lock r)))
                          (insts s) (closing s) (next s), O_flushed)
                  else (s, O_skip)
      | None => (s, O_skip)
      end
  | ReleaseStep k =>
      let '(cl, x, b) := release_in k (closing s) (files s) in
      if b then (mkSt x (insts s) cl (next s), O_ok) else (s, O_skip)
  end.

Definition run (s : st) (h : list op) : st := fold_left (fun s o => fst (step s o)) h s.

(* observations of a history, for the differential check *)
Fixpoint run_obs (s : st) (h : list op) : list obs :=
  match h with [] => [] | o :: r => let '(s', b) := step s o in b :: run_obs s' r end.

(* a lock taken on `regions` by an open file description outside the library (harness only; not an
   `op`: the theorems quantify over library operations) *)
Definition foreign_lock (s : st) (k : N) : st * bool :=
  let x := files s in let r := regs x in
  if try_lock_ok (f_lock r) (Foreign k)
  then (mkSt (mkFs (data x) (mkFile true (f_len r) (f_content r) (Foreign k :: f_lock r))) (insts s) (closing s) (next s), true)
  else (mkSt (mkFs (data x) (mkFile true (f_len r) (f_content r) (f_lock r))) (insts s) (closing s) (next s), false).
Definition foreign_unlock (s : st) (k : N) : st := mkSt (close (Foreign k) FRegions (files s)) (insts s) (closing s) (next s).

End Oracle.

Definition empty_file : file := mkFile false 0 None [].
(* a directory left behind by earlier runs: any lengths / contents, nobody holds a lock *)
Definition init (x : fs) : st := mkSt x [] [] 0.
Definition unlocked (x : fs) : Prop := f_lock (data x) = [] /\ f_lock (regs x) = [].
Definition fresh : fs := mkFs empty_file empty_file.

(* the flock rule instantiated for the executable model (extraction): the lock is granted iff
   no OTHER open file description holds it *)
Definition flock_impl (holders : list owner) (me : owner) : bool := forallb (fun o => owner_eqb o me) holders.
