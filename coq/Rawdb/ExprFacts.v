(* Rawdb/ExprFacts.v — the arithmetic the allocator model uses IS the arithmetic of the source:
   Gen/Exprs.v is re-translated from /repo on every run (tools/gen_exprs.py); these lemmas fail
   to check as soon as a formula in the source differs from the one the model transcribes. *)
From Anydb Require Import Common.Base Gen.Consts Gen.Exprs Rawdb.AMap Rawdb.Alloc.

Lemma page_is_pow2 : PAGE_SIZE = 2 ^ 12 /\ PAGE_SIZE_MINUS_1 = N.ones 12.
Proof. split; reflexivity. Qed.

(* (num + PAGE_SIZE_MINUS_1) & !PAGE_SIZE_MINUS_1 rounds up to a page multiple *)
Lemma ceil_page_is_source n : ceil_page n = x_ceil_page n.
Proof.
  unfold ceil_page, x_ceil_page. destruct page_is_pow2 as [-> ->].
  rewrite N.ldiff_ones_r, N.shiftr_div_pow2, N.shiftl_mul_pow2. reflexivity.
Qed.

Lemma ceil_page_spec n : n <= ceil_page n /\ ceil_page n < n + PAGE_SIZE /\ ceil_page n mod PAGE_SIZE = 0.
Proof.
  unfold ceil_page. assert (P : PAGE_SIZE = 4096) by reflexivity.
  assert (Q : PAGE_SIZE_MINUS_1 = 4095) by reflexivity. rewrite P, Q. lia.
Qed.

Lemma set_min_len_is_source s n :
  file_len (set_min_len s n) =
  if ceil_page n <=? file_len s then file_len s else x_grow_target (ceil_page n) (file_len s).
Proof.
  unfold set_min_len, x_grow_target. rewrite <- ceil_page_is_source.
  destruct (ceil_page n <=? file_len s); [reflexivity|].
  cbn [file_len set_file_len]. reflexivity.
Qed.

Lemma write_arith_is_source :
  (forall ln n, x_new_len_append ln n = ln + n)
  /\ (forall ln n a tr, x_new_len_at ln n a tr = if tr then a + n else N.max (a + n) ln)
  /\ (forall start off, x_write_start start off = start + off)
  /\ (forall nr r, x_added_reserve nr r = nr - r)
  /\ (forall off ln tr, x_copy_len off ln tr = if tr then off else ln)
  /\ (forall start nr, x_extend_target start nr = start + nr)
  /\ (forall start r, x_adjacent_hole_start start r = start + r)
  /\ (forall nl r, x_fits nl r = (nl <=? r))
  /\ (forall a ln, x_write_refused a ln = (ln <? a))
  /\ (forall f ln, x_truncate_noop f ln = (f =? ln))
  /\ (forall f ln, x_truncate_refused f ln = (ln <? f))
  /\ (forall e, x_create_min_len e = e + PAGE_SIZE)
  /\ (forall k, x_min_regions_data k = k * PAGE_SIZE)
  /\ (forall k, x_min_regions_meta k = k * SIZE_OF_REGION_METADATA).
Proof. repeat split; reflexivity. Qed.

(* the punch range of a region tail, as computed by punch_holes, is what punch_ranges lists *)
Lemma punch_range_is_source m :
  let c := ceil_page (r_len m) in
  c <? r_reserved m = true ->
  (x_punch_start (r_start m) c, x_punch_len (r_reserved m) c) = (r_start m + c, r_reserved m - c).
Proof. reflexivity. Qed.

(* punching never reaches below the region's readable length *)
Lemma punch_tail_above_len m :
  let c := ceil_page (r_len m) in r_start m + r_len m <= x_punch_start (r_start m) c.
Proof.
  cbn zeta. unfold x_punch_start. pose proof (ceil_page_spec (r_len m)). lia.
Qed.
