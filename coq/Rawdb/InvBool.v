(* Rawdb/InvBool.v — an EXECUTABLE boolean checker `inv_b` for the allocator invariant `Inv`
   of AllocInv.v, one checker per clause, and its soundness `inv_b_sound : inv_b s = true -> Inv s`.
   Meant to be extracted and run on real allocator states: recursion is over the lists only,
   indices/addresses stay in N (no `N.to_nat` of a value read from the state), worst case
   quadratic in the number of extents.  PROOF FILE (definitions of the checker + proofs). *)
From Anydb Require Import Common.Base Gen.Consts Rawdb.AMap Rawdb.Alloc Rawdb.AllocInv
  Rawdb.AMapFacts Rawdb.CoverFacts.

(* ---- generic helpers ---------------------------------------------------------------------- *)
Lemma nth_opt_in {A} (l : list A) n x : nth_opt l n = Some x -> In x l.
Proof.
  revert n. induction l as [|h t IH]; intros [|n]; cbn [nth_opt]; intros H; try discriminate.
  - inversion H. left. reflexivity.
  - right. eauto.
Qed.

Lemma slot_nth s i m : slot s i = Some m <-> nth_opt (slots s) (N.to_nat i) = Some (Some m).
Proof.
  unfold slot, get. destruct (nth_opt (slots s) (N.to_nat i)) as [[m'|]|];
    split; intros H; inversion H; reflexivity.
Qed.

Lemma slot_in s i m : slot s i = Some m -> In (Some m) (slots s).
Proof. intros H. apply slot_nth in H. eapply nth_opt_in; eauto. Qed.

(* list access by an N index without building a nat *)
Fixpoint nthN {A} (l : list A) (i : N) : option A :=
  match l with
  | [] => None
  | x :: t => if i =? 0 then Some x else nthN t (i - 1)
  end.

Lemma nthN_get {A} (l : list A) i : nthN l i = get l i.
Proof.
  unfold get. revert i. induction l as [|h t IH]; intros i; cbn [nthN].
  - destruct (N.to_nat i); reflexivity.
  - destruct (i =? 0) eqn:E.
    + replace (N.to_nat i) with O by lia. reflexivity.
    + rewrite IH. replace (N.to_nat i) with (S (N.to_nat (i - 1))) by lia. reflexivity.
Qed.

Definition slotN (s : st) (i : N) : option rmeta :=
  match nthN (slots s) i with Some (Some m) => Some m | _ => None end.

Lemma slotN_eq s i : slotN s i = slot s i.
Proof. unfold slotN, slot. rewrite nthN_get. reflexivity. Qed.

(* forallb with the running index *)
Fixpoint forallb_i {A} (f : N -> A -> bool) (l : list A) (i : N) : bool :=
  match l with
  | [] => true
  | x :: t => f i x && forallb_i f t (i + 1)
  end.

Lemma forallb_i_nth {A} (f : N -> A -> bool) l i0 n x :
  forallb_i f l i0 = true -> nth_opt l n = Some x -> f (i0 + N.of_nat n) x = true.
Proof.
  revert i0 n. induction l as [|h t IH]; intros i0 [|n]; cbn [forallb_i nth_opt]; intros H Hn;
    try discriminate.
  - inversion Hn; subst. apply andb_prop in H. destruct H as [H _].
    replace (i0 + N.of_nat 0) with i0 by lia. exact H.
  - apply andb_prop in H. destruct H as [_ H].
    replace (i0 + N.of_nat (S n)) with (i0 + 1 + N.of_nat n) by lia. eauto.
Qed.

Fixpoint mem_b (x : N) (l : list N) : bool :=
  match l with [] => false | y :: t => (x =? y) || mem_b x t end.

Fixpoint nodup_b (l : list N) : bool :=
  match l with [] => true | x :: t => negb (mem_b x t) && nodup_b t end.

Lemma mem_b_in x l : mem_b x l = true <-> In x l.
Proof.
  induction l as [|y t IH]; cbn [mem_b In].
  - split; [discriminate|intros []].
  - rewrite orb_true_iff, IH, N.eqb_eq. split; (intros [H|H]; [left; congruence|right; exact H]).
Qed.

Lemma nodup_b_sound l : nodup_b l = true -> NoDup l.
Proof.
  induction l as [|x t IH]; cbn [nodup_b]; intros H; [constructor|].
  apply andb_prop in H. destruct H as [H1 H2]. constructor; [|auto].
  intros HI. apply mem_b_in in HI. rewrite HI in H1. discriminate.
Qed.

(* ---- sorted ------------------------------------------------------------------------------- *)
Fixpoint asorted_b {V} (m : amap V) : bool :=
  match m with
  | [] => true
  | (k, _) :: t => (match t with [] => true | (k', _) :: _ => k <? k' end) && asorted_b t
  end.

Lemma asorted_b_sound {V} (m : amap V) : asorted_b m = true -> asorted m.
Proof.
  induction m as [|[k v] t IH]; [intros _; exact I|].
  cbn [asorted_b asorted]. intros H. apply andb_prop in H. destruct H as [H1 H2].
  split; [|auto]. destruct t as [|[k' v'] t']; [exact I|lia].
Qed.

Definition sorted_b (s : st) : bool :=
  asorted_b (s2r s) && asorted_b (holes s) && asorted_b (pend s) && asorted_b (resv s)
  && asorted_b (h2s s).

Lemma sorted_b_sound s :
  sorted_b s = true ->
  asorted (s2r s) /\ asorted (holes s) /\ asorted (pend s) /\ asorted (resv s) /\ asorted (h2s s).
Proof.
  unfold sorted_b. rewrite !andb_true_iff. intros [[[[H1 H2] H3] H4] H5].
  repeat split; apply asorted_b_sound; assumption.
Qed.

(* ---- aligned ------------------------------------------------------------------------------ *)
Definition aligned1_b (e : ext) : bool :=
  (fst e mod PAGE_SIZE =? 0) && (snd e mod PAGE_SIZE =? 0) && (0 <? snd e).

Definition aligned_b (s : st) : bool := forallb aligned1_b (extents s).

Lemma aligned_b_sound s : aligned_b s = true -> Forall aligned (extents s).
Proof.
  unfold aligned_b. rewrite forallb_forall. intros H. apply Forall_forall. intros e HI.
  specialize (H e HI). unfold aligned1_b in H. rewrite !andb_true_iff in H.
  destruct H as [[H1 H2] H3]. apply N.eqb_eq in H1, H2. apply N.ltb_lt in H3.
  unfold aligned. auto.
Qed.

(* ---- cover: sort the extents by start, then sweep ------------------------------------------ *)
Fixpoint ins_ext (e : ext) (l : list ext) : list ext :=
  match l with
  | [] => [e]
  | x :: t => if fst e <=? fst x then e :: l else x :: ins_ext e t
  end.

Fixpoint sort_ext (l : list ext) : list ext :=
  match l with [] => [] | e :: t => ins_ext e (sort_ext t) end.

(* every extent starts exactly at the running end and is non-empty; returns the final end *)
Fixpoint tiles (l : list ext) (p : N) : option N :=
  match l with
  | [] => Some p
  | (a, z) :: t => if (a =? p) && (0 <? z) then tiles t (p + z) else None
  end.

Lemma owners_ins e l a : owners (ins_ext e l) a = (cov e a + owners l a)%nat.
Proof.
  induction l as [|x t IH]; cbn [ins_ext].
  - rewrite owners_cons. reflexivity.
  - destruct (fst e <=? fst x).
    + rewrite owners_cons. reflexivity.
    + rewrite !owners_cons, IH. lia.
Qed.

Lemma owners_sort l a : owners (sort_ext l) a = owners l a.
Proof.
  induction l as [|e t IH]; cbn [sort_ext]; [reflexivity|].
  rewrite owners_ins, owners_cons, IH. reflexivity.
Qed.

Lemma tiles_owners l :
  forall p L, tiles l p = Some L ->
    p <= L /\ forall a, owners l a = if (p <=? a) && (a <? L) then 1%nat else 0%nat.
Proof.
  induction l as [|[a0 z] t IH]; intros p L; cbn [tiles].
  - intros [= <-]. split; [lia|]. intros a. rewrite owners_nil.
    destruct ((p <=? a) && (a <? p)) eqn:E; [lia|reflexivity].
  - destruct ((a0 =? p) && (0 <? z)) eqn:E; [|discriminate]. intros H.
    destruct (IH _ _ H) as [Hle Ho]. split; [lia|]. intros a.
    rewrite owners_cons, Ho. unfold cov, covers. cbn [fst snd].
    destruct ((a0 <=? a) && (a <? a0 + z)) eqn:E1;
      destruct ((p + z <=? a) && (a <? L)) eqn:E2;
      destruct ((p <=? a) && (a <? L)) eqn:E3; try reflexivity; lia.
Qed.

(* `layout_len` of Alloc.v with the slot looked up by `slotN` (no `N.to_nat` of an index read
   from start_to_region, so that a corrupt table cannot make the extracted checker diverge) *)
Definition last_region_endN (s : st) : N :=
  match alast (s2r s) with
  | Some (a, i) => match slotN s i with Some m => a + r_reserved m | None => 0 end
  | None => 0
  end.

Definition layout_lenN (s : st) : N :=
  N.max (N.max (N.max (last_end (resv s)) (last_end (holes s))) (last_end (pend s)))
        (last_region_endN s).

Lemma layout_lenN_eq s : layout_lenN s = layout_len s.
Proof.
  unfold layout_lenN, layout_len, last_region_endN, last_region_end.
  destruct (alast (s2r s)) as [[a i]|]; [|reflexivity]. rewrite slotN_eq. reflexivity.
Qed.

Definition cover_b (s : st) : bool :=
  match tiles (sort_ext (extents s)) 0 with
  | Some L => L =? layout_lenN s
  | None => false
  end.

Lemma cover_b_sound s :
  cover_b s = true ->
  forall a, owners (extents s) a = if a <? layout_len s then 1%nat else 0%nat.
Proof.
  unfold cover_b. rewrite layout_lenN_eq.
  destruct (tiles (sort_ext (extents s)) 0) as [L|] eqn:E; [|discriminate].
  intros H a. apply N.eqb_eq in H. destruct (tiles_owners _ _ _ E) as [_ Ho].
  rewrite <- (owners_sort (extents s) a), Ho, H.
  destruct ((0 <=? a) && (a <? layout_len s)) eqn:E1; destruct (a <? layout_len s) eqn:E2;
    try reflexivity; lia.
Qed.

(* ---- len ---------------------------------------------------------------------------------- *)
Definition len1_b (o : option rmeta) : bool :=
  match o with
  | Some m => (r_len m <=? r_reserved m) && (r_reserved m <=? MAX_RESERVED_SIZE)
  | None => true
  end.

Definition len_b (s : st) : bool := forallb len1_b (slots s).

Lemma len_b_sound s :
  len_b s = true ->
  forall i m, slot s i = Some m -> r_len m <= r_reserved m /\ r_reserved m <= MAX_RESERVED_SIZE.
Proof.
  unfold len_b. rewrite forallb_forall. intros H i m Hs. specialize (H _ (slot_in _ _ _ Hs)).
  cbn [len1_b] in H. apply andb_prop in H. destruct H as [H1 H2].
  apply N.leb_le in H1, H2. auto.
Qed.

(* ---- s2r ---------------------------------------------------------------------------------- *)
Definition s2r_fwd1_b (s : st) (p : N * N) : bool :=
  match slotN s (snd p) with Some m => r_start m =? fst p | None => false end.

Definition s2r_bwd1_b (q : amap N) (i : N) (o : option rmeta) : bool :=
  match o with
  | Some m => match aget (r_start m) q with Some j => j =? i | None => false end
  | None => true
  end.

Definition s2r_b (s : st) : bool :=
  forallb (s2r_fwd1_b s) (s2r s) && forallb_i (s2r_bwd1_b (s2r s)) (slots s) 0.

Lemma s2r_b_sound s :
  s2r_b s = true ->
  forall a i, aget a (s2r s) = Some i <-> exists m, slot s i = Some m /\ r_start m = a.
Proof.
  unfold s2r_b. intros H. apply andb_prop in H. destruct H as [Hf Hb].
  rewrite forallb_forall in Hf. intros a i. split.
  - intros Hg. specialize (Hf _ (aget_in _ _ _ Hg)). unfold s2r_fwd1_b in Hf. cbn [fst snd] in Hf.
    rewrite slotN_eq in Hf. destruct (slot s i) as [m|]; [|discriminate].
    exists m. split; [reflexivity|lia].
  - intros (m & Hs & Ha). apply slot_nth in Hs.
    pose proof (forallb_i_nth _ _ _ _ _ Hb Hs) as H. cbn [s2r_bwd1_b] in H. rewrite Ha in H.
    destruct (aget a (s2r s)) as [j|]; [|discriminate]. f_equal. lia.
Qed.

(* ---- h2s ---------------------------------------------------------------------------------- *)
Definition h2s_fwd1_b (q : amap (list N)) (p : N * N) : bool :=
  match aget (snd p) q with Some l => mem_b (fst p) l | None => false end.

Definition h2s_bwd1_b (h : amap N) (p : N * list N) : bool :=
  (match snd p with [] => false | _ :: _ => true end)
  && nodup_b (snd p)
  && forallb (fun start => match aget start h with Some z => z =? fst p | None => false end) (snd p).

Definition h2s_b (s : st) : bool :=
  forallb (h2s_fwd1_b (h2s s)) (holes s) && forallb (h2s_bwd1_b (holes s)) (h2s s).

Lemma h2s_b_sound s : h2s_b s = true -> h2s_agrees s.
Proof.
  unfold h2s_b. intros H. apply andb_prop in H. destruct H as [Hf Hb].
  rewrite forallb_forall in Hf, Hb.
  assert (Hbwd : forall size l, aget size (h2s s) = Some l ->
            l <> [] /\ NoDup l /\ forall start, In start l -> aget start (holes s) = Some size).
  { intros size l Hg. specialize (Hb _ (aget_in _ _ _ Hg)). unfold h2s_bwd1_b in Hb.
    cbn [fst snd] in Hb. rewrite !andb_true_iff in Hb. destruct Hb as [[H1 H2] H3].
    split; [destruct l; [discriminate|discriminate]|]. split; [apply nodup_b_sound; exact H2|].
    rewrite forallb_forall in H3. intros start HI. specialize (H3 _ HI).
    destruct (aget start (holes s)) as [z|]; [|discriminate]. f_equal. lia. }
  split.
  - intros start size. split.
    + intros Hg. specialize (Hf _ (aget_in _ _ _ Hg)). unfold h2s_fwd1_b in Hf. cbn [fst snd] in Hf.
      destruct (aget size (h2s s)) as [l|]; [|discriminate]. exists l. split; [reflexivity|].
      apply mem_b_in. exact Hf.
    + intros (l & Hl & HI). destruct (Hbwd _ _ Hl) as (_ & _ & H). auto.
  - intros size l Hg. destruct (Hbwd _ _ Hg) as (H1 & H2 & _). auto.
Qed.

(* ---- no adjacent holes -------------------------------------------------------------------- *)
Definition noadj_b (s : st) : bool :=
  forallb (fun e => forallb (fun e' => negb (fst e + snd e =? fst e')) (holes s)) (holes s).

Lemma noadj_b_sound s :
  noadj_b s = true ->
  forall a z a' z', aget a (holes s) = Some z -> aget a' (holes s) = Some z' -> a + z <> a'.
Proof.
  unfold noadj_b. rewrite forallb_forall. intros H a z a' z' H1 H2.
  specialize (H _ (aget_in _ _ _ H1)). rewrite forallb_forall in H.
  specialize (H _ (aget_in _ _ _ H2)). cbn [fst snd] in H. lia.
Qed.

(* ---- file --------------------------------------------------------------------------------- *)
Definition file_b (s : st) : bool := layout_lenN s <=? file_len s.

Lemma file_b_sound s : file_b s = true -> layout_len s <= file_len s.
Proof. unfold file_b. rewrite layout_lenN_eq. apply N.leb_le. Qed.

(* ---- ids ---------------------------------------------------------------------------------- *)
Fixpoint live_ids (l : list (option rmeta)) : list N :=
  match l with
  | [] => []
  | Some m :: t => r_id m :: live_ids t
  | None :: t => live_ids t
  end.

Definition ids_b (s : st) : bool := nodup_b (live_ids (slots s)).

Lemma live_ids_in l n m : nth_opt l n = Some (Some m) -> In (r_id m) (live_ids l).
Proof.
  revert n. induction l as [|[m0|] t IH]; intros [|n]; cbn [nth_opt live_ids]; intros H;
    try discriminate.
  - inversion H. left. reflexivity.
  - right. eauto.
  - eauto.
Qed.

Lemma live_ids_inj l n1 n2 m1 m2 :
  NoDup (live_ids l) -> nth_opt l n1 = Some (Some m1) -> nth_opt l n2 = Some (Some m2) ->
  r_id m1 = r_id m2 -> n1 = n2.
Proof.
  revert n1 n2. induction l as [|[m0|] t IH]; intros n1 n2 Hnd H1 H2 He.
  - destruct n1; discriminate.
  - cbn [live_ids] in Hnd. inversion Hnd as [|x l' Hni Hnd']; subst.
    destruct n1 as [|n1], n2 as [|n2]; cbn [nth_opt] in H1, H2.
    + reflexivity.
    + inversion H1; subst m0. exfalso. apply Hni. rewrite He. eapply live_ids_in; eauto.
    + inversion H2; subst m0. exfalso. apply Hni. rewrite <- He. eapply live_ids_in; eauto.
    + f_equal. eauto.
  - cbn [live_ids] in Hnd. destruct n1 as [|n1], n2 as [|n2]; cbn [nth_opt] in H1, H2;
      try discriminate. f_equal. eauto.
Qed.

Lemma ids_b_sound s : ids_b s = true -> ids_unique s.
Proof.
  unfold ids_b. intros H. apply nodup_b_sound in H. intros i j mi mj Hi Hj He.
  apply slot_nth in Hi, Hj. pose proof (live_ids_inj _ _ _ _ _ H Hi Hj He). lia.
Qed.

(* ---- rfile: simultaneous walk over the slot table and the regions file ----------------------- *)
Definition srec_eqb (x y : slotrec) : bool :=
  let '(a, b, c, d) := x in let '(a', b', c', d') := y in
  (a =? a') && (b =? b') && (c =? c') && (d =? d').

Lemma srec_eqb_eq x y : srec_eqb x y = true -> x = y.
Proof.
  destruct x as [[[a b] c] d], y as [[[a' b'] c'] d']. cbn [srec_eqb]. rewrite !andb_true_iff.
  intros [[[H1 H2] H3] H4]. apply N.eqb_eq in H1, H2, H3, H4. congruence.
Qed.

(* o: the slot-table entry at an index (None also when out of range);
   r: the regions-file entry at the same index (None when out of range) *)
Definition rf1_b (o : option rmeta) (r : option (option slotrec)) : bool :=
  match o with
  | Some m =>
      if r_state m =? ST_WRITE
      then (match r with Some None => true | _ => false end) && (r_len m =? 0) && (r_dmax m =? 0)
      else match r with
           | Some (Some x) => srec_eqb x (r_start m, r_len m, r_reserved m, r_id m)
           | _ => false
           end
  | None => match r with Some (Some _) => false | _ => true end
  end.

Fixpoint rfile_walk (sl : list (option rmeta)) (rf : list (option slotrec)) : bool :=
  match sl with
  | [] => forallb (fun r => rf1_b None (Some r)) rf
  | o :: t =>
      match rf with
      | [] => rf1_b o None && rfile_walk t []
      | r :: rt => rf1_b o (Some r) && rfile_walk t rt
      end
  end.

Definition rfile_b (s : st) : bool := rfile_walk (slots s) (rfile s).

Definition flat {A} (x : option (option A)) : option A :=
  match x with Some o => o | None => None end.

Lemma rfile_walk_nth sl :
  forall rf n, rfile_walk sl rf = true -> rf1_b (flat (nth_opt sl n)) (nth_opt rf n) = true.
Proof.
  induction sl as [|o t IH]; intros rf n; cbn [rfile_walk].
  - intros H. rewrite forallb_forall in H. cbn [nth_opt flat].
    destruct (nth_opt rf n) as [r|] eqn:E; [|reflexivity]. apply H. eapply nth_opt_in; eauto.
  - destruct rf as [|r rt]; intros H; apply andb_prop in H; destruct H as [H1 H2].
    + destruct n as [|n]; cbn [nth_opt flat]; [exact H1|]. exact (IH [] n H2).
    + destruct n as [|n]; cbn [nth_opt flat]; [exact H1|]. exact (IH rt n H2).
Qed.

Lemma rfile_b_sound s : rfile_b s = true -> rfile_mirrors s.
Proof.
  unfold rfile_b. intros H i. pose proof (rfile_walk_nth _ _ (N.to_nat i) H) as Hn.
  assert (Hs : slot s i = flat (nth_opt (slots s) (N.to_nat i))).
  { unfold slot, get, flat. destruct (nth_opt (slots s) (N.to_nat i)) as [[m|]|]; reflexivity. }
  rewrite Hs. unfold get. destruct (flat (nth_opt (slots s) (N.to_nat i))) as [m|]; cbn [rf1_b] in Hn.
  - destruct (r_state m =? ST_WRITE).
    + rewrite !andb_true_iff in Hn. destruct Hn as [[H1 H2] H3]. apply N.eqb_eq in H2, H3.
      split; [|auto]. destruct (nth_opt (rfile s) (N.to_nat i)) as [[x|]|]; try discriminate. reflexivity.
    + destruct (nth_opt (rfile s) (N.to_nat i)) as [[x|]|]; try discriminate.
      apply srec_eqb_eq in Hn. subst x. reflexivity.
  - destruct (nth_opt (rfile s) (N.to_nat i)) as [[x|]|]; [discriminate|left|right]; reflexivity.
Qed.

(* ---- no reservations ---------------------------------------------------------------------- *)
Definition resv_b (s : st) : bool := match resv s with [] => true | _ :: _ => false end.

Lemma resv_b_sound s : resv_b s = true -> resv s = [].
Proof. unfold resv_b. destruct (resv s); [reflexivity|discriminate]. Qed.

(* ---- the checker -------------------------------------------------------------------------- *)
(* the eleven clause results in the order of the fields of `Inv` (for reporting which one fails) *)
Definition inv_clauses (s : st) : list bool :=
  [aligned_b s; cover_b s; len_b s; s2r_b s; sorted_b s; h2s_b s; noadj_b s; file_b s; ids_b s;
   rfile_b s; resv_b s].

Definition inv_b (s : st) : bool :=
  aligned_b s && cover_b s && len_b s && s2r_b s && sorted_b s && h2s_b s && noadj_b s
  && file_b s && ids_b s && rfile_b s && resv_b s.

Lemma inv_b_clauses s : inv_b s = forallb (fun b => b) (inv_clauses s).
Proof. unfold inv_b, inv_clauses. cbn [forallb]. rewrite andb_true_r, <- !andb_assoc. reflexivity. Qed.

Theorem inv_b_sound : forall s, inv_b s = true -> Inv s.
Proof.
  intros s. unfold inv_b. rewrite !andb_true_iff.
  intros [[[[[[[[[[H1 H2] H3] H4] H5] H6] H7] H8] H9] H10] H11].
  constructor.
  - apply aligned_b_sound; assumption.
  - apply cover_b_sound; assumption.
  - apply len_b_sound; assumption.
  - apply s2r_b_sound; assumption.
  - apply sorted_b_sound; assumption.
  - apply h2s_b_sound; assumption.
  - apply noadj_b_sound; assumption.
  - apply file_b_sound; assumption.
  - apply ids_b_sound; assumption.
  - apply rfile_b_sound; assumption.
  - apply resv_b_sound; assumption.
Qed.

(* ---- Examples ------------------------------------------------------------------------------ *)
Example inv_b_init : inv_b (init 0) = true.
Proof. vm_compute. reflexivity. Qed.

Example inv_b_run :
  inv_b (run (init 0) [Create 1 false; Write 1 (gen_byte 1) 5000; Create 2 true; Remove 1; Flush;
                       Create 3 false]) = true.
Proof. vm_compute. reflexivity. Qed.
