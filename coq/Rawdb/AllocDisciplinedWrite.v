(* Rawdb/AllocDisciplinedWrite.v — tie between the allocator model and the crash monitor, part 6
   (proof file): the five successful paths of Region::write_with (fits in the reserve with and
   without a length change, extension of the last region, expansion into the adjacent hole,
   relocation) satisfy WObs; write / write_at / truncate_write are covered in every outcome. *)
From Anydb Require Import Common.Base Gen.Consts Rawdb.AMap Rawdb.Alloc Rawdb.AllocSpec Rawdb.AllocInv
  Rawdb.AllocFacts Rawdb.AMapFacts Rawdb.CoverFacts Rawdb.AllocErr Rawdb.InvLayout Rawdb.InvCreate Rawdb.InvWrite
  Rawdb.InvWrite2 Rawdb.InvStep Rawdb.Crash Rawdb.CrashFacts Rawdb.CrashInv Rawdb.CrashSound Rawdb.AllocEvents
  Rawdb.AllocDisciplined Rawdb.AllocDisciplinedOps Rawdb.AllocDisciplinedWObs.

Lemma file_len_upd s i f : file_len (upd s i f) = file_len s.
Proof. unfold upd. destruct (slot s i); reflexivity. Qed.
Lemma pend_upd s i f : pend (upd s i f) = pend s.
Proof. unfold upd. destruct (slot s i); reflexivity. Qed.

(* in-place growth: sA is s with slot i holding mA (same start, reserve at least as large, same
   length) and possibly a longer file *)
Lemma grow_wobs s sA i m mA wo f n new_len s' r :
  Inv s -> slot s i = Some m -> slot sA i = Some mA ->
  file_len s <= file_len sA -> pend sA = pend s ->
  (forall j, j <> i -> slot sA j = slot s j) -> (forall j, rf sA j = rf s j) ->
  r_start mA = r_start m -> r_reserved m <= r_reserved mA -> r_len mA = r_len m ->
  r_dmin mA = r_dmin m -> r_dmax mA = r_dmax m ->
  r_len m <> new_len -> wo + n <= new_len -> (n = 0 -> new_len <= r_len m) ->
  finish_write sA i (r_start m) wo f n new_len = AOk (s', r) ->
  WObs s i m s' ((if file_len sA =? file_len s then [] else [CSetLen (file_len sA)])
                 ++ finish_events sA i (r_start m) wo f n new_len).
Proof.
  intros HI Hs HsA Hfl Hpe Hsl Hrf E1 E2 E3 E4 E5 Hne Hwn Hn0 Hfw.
  assert (HneA : r_len mA <> new_len) by congruence.
  destruct (finish_obs sA i (r_start m) wo f n new_len s' r mA HsA HneA Hfw) as (O1 & O2 & O3 & O4 & O5 & O6).
  destruct (set_len_fields (m_mark_dirty mA wo n) new_len) as (L1 & L2 & L3 & L4).
  exists (m_set_state (grow2 wo n new_len mA) ST_FLUSH), [(r_start m + wo, n, wcontent (r_start m + wo) f)],
         (Some (Some (rec_of (grow2 wo n new_len mA)))).
  split; [rewrite O6, O1; reflexivity|]. split; [lia|]. split; [intros p z; rewrite O2, Hpe; auto|].
  split; [|split; [|split; [|split; [|split; [|split; [exact O5|split; reflexivity]]]]]].
  - intros j. rewrite O3. destruct (j =? i) eqn:E; [reflexivity|]. apply Hsl. lia.
  - intros j Hj. rewrite (O4 j Hj). apply Hrf.
  - intros _. left. cbn [r_state r_start r_reserved m_set_state]. unfold grow2. rewrite L1, L3.
    cbn [r_start r_reserved m_mark_dirty]. split; [discriminate|lia].
  - intros off len g [E|[]] Hnz. injection E as <- <- <-.
    cbn [r_start r_len m_set_state]. unfold grow2. rewrite L1, L2. cbn [r_start m_mark_dirty].
    split; [lia|]. split; [lia|]. cbn [m_is_dirty m_set_state r_dmin r_dmax].
    change (m_is_dirty (m_set_len (m_mark_dirty mA wo n) new_len) = true). rewrite set_len_dirty.
    apply mark_dirty_true. exact Hnz.
  - intros Hd. change (m_is_dirty (m_set_len (m_mark_dirty mA wo n) new_len) = false) in Hd.
    rewrite set_len_dirty in Hd. destruct (N.eq_dec n 0) as [Hz|Hz].
    + right. apply mark_dirty_false in Hd. split; [unfold m_is_dirty in *; rewrite <- E4, <- E5; exact Hd|].
      cbn [r_start r_len m_set_state]. unfold grow2. rewrite L1, L2. cbn [r_start m_mark_dirty]. split; [exact E1|auto].
    + rewrite (mark_dirty_true mA wo n Hz) in Hd. discriminate.
Qed.

(* ---- relocation ------------------------------------------------------------------------------------------------ *)
Lemma fl_sml_resv s X n0 : file_len (set_min_len (set_resv s X) n0) = file_len (set_min_len s n0).
Proof. unfold set_min_len. cbn [file_len set_resv]. destruct (_ <=? _); reflexivity. Qed.

Lemma reloc_wobs s i m f n wo new_len nr cl s' r :
  Inv s -> slot s i = Some m -> r_reserved m < nr -> wo + n <= new_len -> cl <= new_len -> new_len <> 0 ->
  relocate s i m f n wo new_len nr cl = AOk (s', r) ->
  WObs s i m s' (relocate_events s i m f n wo new_len nr cl).
Proof.
  intros HI Hs Hnr Hwn Hcl Hnl. rewrite relocate_unfold. unfold relocate_events.
  assert (Hgen : forall s1 ns,
            slot s1 i = Some m -> file_len s <= file_len s1 -> pend s1 = pend s ->
            (forall j, slot s1 j = slot s j) -> (forall j, rf s1 j = rf s j) ->
            reloc_tail s1 i m f n wo new_len nr cl ns = AOk (s', r) ->
            WObs s i m s' ((if file_len s1 =? file_len s then [] else [CSetLen (file_len s1)])
                           ++ (if cl =? 0 then [] else [CData ns cl (fun a => mem s (a - ns + r_start m))])
                           ++ [CData (ns + wo) n (wcontent (ns + wo) f); CMeta i (Some (ns, new_len, nr, r_id m))])).
  { intros s1 ns Hs1 Hfl Hpe Hsl Hrf Ht.
    assert (Hne : r_reserved m <> nr) by lia.
    destruct (reloc_tail_obs s1 i m f n wo new_len nr cl ns s' r Hs1 Hne Ht) as (O1 & O2 & O3 & O4 & O5 & O6).
    destruct (reloc_meta_fields ns nr new_len m) as (R1 & R2 & R3 & R4 & _).
    assert (Hrec : rec_of (reloc_meta ns nr new_len m) = (ns, new_len, nr, r_id m))
      by (unfold rec_of; rewrite R1, R2, R3, R4; reflexivity).
    exists (m_set_state (reloc_meta ns nr new_len m) ST_FLUSH),
           ((if cl =? 0 then [] else [(ns, cl, fun a => mem s (a - ns + r_start m))]) ++ [(ns + wo, n, wcontent (ns + wo) f)]),
           (Some (Some (rec_of (reloc_meta ns nr new_len m)))).
    split; [rewrite O1, Hrec, map_app; destruct (cl =? 0); reflexivity|]. split; [lia|].
    split; [intros p z Hin; apply O2; [rewrite Hpe; exact Hin|exact (pend_start_absent s i m p z HI Hs Hin)]|].
    split; [intros j; rewrite O4, Hsl; reflexivity|]. split; [intros j Hj; rewrite (O5 j Hj); apply Hrf|].
    split; [intros _; right; exact O3|]. split; [|split; [|split; [exact O6|split; reflexivity]]].
    - intros off len g Hin Hn0. cbn [r_start r_len m_set_state]. rewrite R1, R2.
      assert (Hd : m_is_dirty (m_set_state (reloc_meta ns nr new_len m) ST_FLUSH) = true)
        by (exact (reloc_meta_dirty ns nr new_len m Hnl)).
      apply in_app_or in Hin. destruct Hin as [Hin|[Hin|[]]].
      + destruct (cl =? 0); [destruct Hin|]. destruct Hin as [Hin|[]]. injection Hin as <- <- <-.
        split; [lia|split; [lia|exact Hd]].
      + injection Hin as <- <- <-. split; [lia|split; [lia|exact Hd]].
    - intros Hd. change (m_is_dirty (reloc_meta ns nr new_len m) = false) in Hd.
      rewrite (reloc_meta_dirty ns nr new_len m Hnl) in Hd. discriminate. }
  destruct (find_hole s nr) as [hs|] eqn:Ef.
  - destruct (remove_or_compress_hole s hs nr) as [s0| |] eqn:Er; cbn [abind]; try discriminate.
    apply roc_shape in Er. destruct Er as (H & Q & ->).
    destruct (aget hs (resv (set_holes s H Q))); [discriminate|]. cbn [abind]. intros Ht.
    pose proof (Hgen (set_resv (set_holes s H Q) (ains hs nr (resv (set_holes s H Q)))) hs Hs (N.le_refl _) eq_refl
                  (fun j => eq_refl) (fun j => eq_refl) Ht) as W.
    cbn [file_len set_resv set_holes] in W. rewrite N.eqb_refl in W. exact W.
  - cbv zeta. destruct (aget (layout_len s) (resv s)); cbn [abind]; [discriminate|]. intros Ht.
    set (X := ains (layout_len s) nr (resv s)) in *.
    destruct (set_min_len_shape (set_resv s X) (layout_len s + nr)) as (fl & Esh & Hge).
    assert (W : WObs s i m s'
              ((if file_len (set_min_len (set_resv s X) (layout_len s + nr)) =? file_len s then []
                else [CSetLen (file_len (set_min_len (set_resv s X) (layout_len s + nr)))])
               ++ (if cl =? 0 then [] else [CData (layout_len s) cl (fun a => mem s (a - layout_len s + r_start m))])
               ++ [CData (layout_len s + wo) n (wcontent (layout_len s + wo) f);
                   CMeta i (Some (layout_len s, new_len, nr, r_id m))])).
    { apply Hgen; try exact Ht; rewrite Esh; try reflexivity; try exact Hs. exact Hge. }
    rewrite fl_sml_resv in W. exact W.
Qed.

(* ---- write_with as a whole ------------------------------------------------------------------------------------- *)
Lemma write_wobs s i m f n at_ tr s' r :
  Inv s -> slot s i = Some m -> write_with s i f n at_ tr = AOk (s', r) ->
  WObs s i m s' (write_events s i f n at_ tr).
Proof.
  intros HI Hs. unfold write_with, write_events. rewrite Hs.
  destruct (match at_ with Some a => r_len m <? a | None => false end) eqn:Eat; [discriminate|].
  set (wo := match at_ with Some a => a | None => r_len m end).
  set (new_len := match at_ with None => r_len m + n | Some a => if tr then a + n else N.max (a + n) (r_len m) end).
  set (cl := if tr then wo else r_len m).
  assert (Hwn : wo + n <= new_len) by (subst wo new_len; destruct at_; [destruct tr|]; lia).
  assert (Hn0 : n = 0 -> new_len <= r_len m) by (subst wo new_len; destruct at_; [destruct tr|]; lia).
  assert (Hcl : cl <= new_len) by (subst cl wo new_len; destruct at_; destruct tr; lia).
  destruct (inv_region_shape s i m HI Hs) as (_ & _ & Hrpos & Hlen & _).
  destruct (new_len <=? r_reserved m) eqn:Efit.
  { destruct (new_len =? r_len m) eqn:Enl.
    - (* no length change: data only *)
      destruct (db_write s (r_start m + wo) f n) as [s1|] eqn:Ew; [|discriminate].
      apply db_write_some in Ew. destruct Ew as [mm ->]. intros [= <- _].
      exists (m_mark_dirty m wo n), [(r_start m + wo, n, wcontent (r_start m + wo) f)], None.
      split; [rewrite file_len_upd; cbn [file_len set_mem]; rewrite N.eqb_refl; reflexivity|].
      split; [rewrite file_len_upd; cbn [file_len set_mem]; lia|].
      split; [intros p z; rewrite pend_upd; auto|].
      split; [intros j; rewrite slot_upd, !slot_set_mem, Hs; destruct (j =? i); reflexivity|].
      split; [intros j _; rewrite rf_upd; reflexivity|].
      split; [intros Hst; left; cbn [r_state r_start r_reserved m_mark_dirty]; split; [exact Hst|lia]|].
      split; [|split; [|split; [rewrite rf_upd; reflexivity|intros E; exact E]]].
      + intros off len g [E|[]] Hnz. injection E as <- <- <-. cbn [r_start r_len m_mark_dirty].
        split; [lia|]. split; [lia|apply mark_dirty_true; exact Hnz].
      + intros Hd. right. split; [exact (mark_dirty_false m wo n Hd)|]. cbn [r_start r_len m_mark_dirty]. lia.
    - (* the length changes: the tail of finish_write on s itself *)
      destruct (db_write s (r_start m + wo) f n) as [s1|] eqn:Ew; [|discriminate].
      pose proof Ew as Ew'. apply db_write_some in Ew'. destruct Ew' as [mm ->]. intros [= <- _].
      assert (Hfw : finish_write s i (r_start m) wo f n new_len
                    = AOk (write_if_dirty (upd (upd (set_mem s mm) i (fun m0 => m_mark_dirty m0 wo n)) i
                                               (fun m0 => m_set_len m0 new_len)) i, OUnit)).
      { unfold finish_write. rewrite Ew. rewrite slot_upd, N.eqb_refl, slot_set_mem, Hs. cbn [option_map].
        unfold ok_set_len. cbn [r_reserved m_mark_dirty]. rewrite Efit. reflexivity. }
      assert (Hne : r_len m <> new_len) by lia.
      pose proof (grow_wobs s s i m m wo f n new_len _ _ HI Hs Hs (N.le_refl _) eq_refl (fun j _ => eq_refl)
                   (fun j => eq_refl) eq_refl (N.le_refl _) eq_refl eq_refl eq_refl Hne Hwn Hn0 Hfw) as W.
      rewrite N.eqb_refl in W. exact W. }
  destruct (r_reserved m =? 0); [discriminate|].
  destruct (double_until 64 (r_reserved m) new_len) as [nr|e0|] eqn:Ed; [|discriminate|discriminate].
  apply double_until_ge in Ed.
  assert (Hlt : r_reserved m < nr) by lia.
  assert (Hne : r_len m <> new_len) by lia.
  destruct (set_reserved_fields m nr) as (B1 & B2 & B3 & B4).
  assert (Bd : r_dmin (m_set_reserved m nr) = r_dmin m /\ r_dmax (m_set_reserved m nr) = r_dmax m)
    by (unfold m_set_reserved; destruct (_ =? _); split; reflexivity).
  destruct Bd as [B5 B6].
  destruct (is_last_anything s i) eqn:Elast.
  { (* extension of the last region *)
    destruct (negb (ok_set_reserved m nr)); [discriminate|]. cbv zeta.
    set (s1 := upd s i (fun m0 => m_set_reserved m0 nr)) in *.
    destruct (set_min_len_shape s1 (r_start m + nr)) as (fl & Esh & Hge).
    unfold setlen_ev. rewrite Esh. cbn [file_len set_file_len].
    assert (Hfl1 : file_len s1 = file_len s) by apply file_len_upd. rewrite Hfl1 in *. intros Hfw.
    apply (grow_wobs s (set_file_len s1 fl) i m (m_set_reserved m nr) wo f n new_len s' r HI Hs);
      try assumption; try lia.
    - change (slot s1 i = Some (m_set_reserved m nr)). unfold s1. rewrite slot_upd, N.eqb_refl, Hs. reflexivity.
    - change (pend s1 = pend s). apply pend_upd.
    - intros j Hj. change (slot s1 j = slot s j). unfold s1. rewrite slot_upd.
      destruct (j =? i) eqn:E; [lia|reflexivity].
    - intros j. change (rf s1 j = rf s j). apply rf_upd. }
  assert (Hrel : relocate s i m f n wo new_len nr cl = AOk (s', r) ->
                 WObs s i m s' (relocate_events s i m f n wo new_len nr cl)).
  { apply reloc_wobs; try assumption; lia. }
  destruct (aget (r_start m + r_reserved m) (holes s)) as [gap|]; [|exact Hrel].
  destruct (nr - r_reserved m <=? gap); [|exact Hrel].
  (* expansion into the adjacent hole *)
  destruct (remove_or_compress_hole s (r_start m + r_reserved m) (nr - r_reserved m)) as [s1| |] eqn:Er;
    cbn [abind]; try discriminate.
  apply roc_shape in Er. destruct Er as (H & Q & ->).
  destruct (negb (ok_set_reserved m nr)); [discriminate|]. intros Hfw.
  set (s1 := set_holes s H Q) in *.
  assert (W : WObs s i m s'
            ((if file_len (upd s1 i (fun m0 => m_set_reserved m0 nr)) =? file_len s then []
              else [CSetLen (file_len (upd s1 i (fun m0 => m_set_reserved m0 nr)))])
             ++ finish_events (upd s1 i (fun m0 => m_set_reserved m0 nr)) i (r_start m) wo f n new_len)).
  { apply (grow_wobs s _ i m (m_set_reserved m nr) wo f n new_len s' r HI Hs); try assumption; try lia.
    - rewrite slot_upd, N.eqb_refl. change (slot s1 i) with (slot s i). rewrite Hs. reflexivity.
    - rewrite file_len_upd. apply N.le_refl.
    - rewrite pend_upd. reflexivity.
    - intros j Hj. rewrite slot_upd. destruct (j =? i) eqn:E; [lia|reflexivity].
    - intros j. rewrite rf_upd. reflexivity. }
  rewrite file_len_upd in W. change (file_len s1) with (file_len s) in W. rewrite N.eqb_refl in W. exact W.
Qed.

(* ---- write, write_at, truncate_write --------------------------------------------------------------------------- *)
Lemma ok_write_gen orc s m o id f n at_ tr :
  Inv s -> K m -> Cpl s m ->
  step s o = with_region s id (fun i => write_with s i f n at_ tr) ->
  op_ids s o = [id] -> closer s o = CEnd ->
  body_events orc s o = with_region_ev s id (fun i => write_events s i f n at_ tr) ->
  step_ok orc s o m.
Proof.
  intros HI HK HC Est Eid Ecl Ebody. unfold with_region in Est. unfold with_region_ev in Ebody.
  destruct (find_id s id) as [i|] eqn:Ef; [|apply (ok_err orc s o m RegionNotFound HI HK HC Est)].
  destruct (find_id_some s id i Ef) as (mi & Hs & Hid).
  destruct (write_with s i f n at_ tr) as [[s' r]|s1 e|] eqn:Ew.
  - apply (ok_of_wobs orc s o m id i mi s' (write_events s i f n at_ tr) HI HK HC Hs Hid).
    + unfold step_total. rewrite Est. reflexivity.
    + unfold step_events_o. rewrite Ecl, Est, Eid, Ebody. reflexivity.
    + apply (write_wobs s i mi f n at_ tr s' r HI Hs Ew).
  - rewrite (write_with_err s i f n at_ tr s1 e HI Ew) in Est. apply (ok_err orc s o m e HI HK HC Est).
  - apply (ok_panic orc s o m HI HK HC Est).
Qed.

Lemma ok_write orc s m id f n : Inv s -> K m -> Cpl s m -> step_ok orc s (Write id f n) m.
Proof. intros HI HK HC. apply (ok_write_gen orc s m _ id f n None false); auto. Qed.
Lemma ok_write_at orc s m id f n a : Inv s -> K m -> Cpl s m -> step_ok orc s (WriteAt id f n a) m.
Proof. intros HI HK HC. apply (ok_write_gen orc s m _ id f n (Some a) false); auto. Qed.
Lemma ok_trunc_write orc s m id f n a : Inv s -> K m -> Cpl s m -> step_ok orc s (TruncWrite id f n a) m.
Proof. intros HI HK HC. apply (ok_write_gen orc s m _ id f n (Some a) true); auto. Qed.
