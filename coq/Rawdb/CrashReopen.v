(* Rawdb/CrashReopen.v — the recovery of the allocator model (Alloc.reopen = Regions::fill +
   Layout::from) does not panic on any crash image of an accepted trace (proof file).
   Layout::from computes `start - prev_end` over the regions in start order; the subtraction
   underflows exactly when two live extents overlap.  K1 excludes that. *)
From Anydb Require Import Common.Base Gen.Consts Rawdb.AMap Rawdb.Alloc Rawdb.Crash Rawdb.CrashFacts Rawdb.CrashInv.

(* ---- sorted association lists -------------------------------------------------------------------- *)
Fixpoint ssorted {V} (m : amap V) : Prop :=
  match m with
  | [] => True
  | (k, _) :: t => (forall k' v', In (k', v') t -> k < k') /\ ssorted t
  end.

Lemma ains_in {V} k (v : V) m a x : In (a, x) (ains k v m) -> (a, x) = (k, v) \/ In (a, x) m.
Proof.
  induction m as [|[k' v'] t IH]; cbn [ains].
  - intros [H|[]]. left. congruence.
  - destruct (k <? k'); [|destruct (k =? k')]; cbn [In]; intros H.
    + destruct H as [H|H]; [left; congruence|right; exact H].
    + destruct H as [H|H]; [left; congruence|right; right; exact H].
    + destruct H as [H|H]; [right; left; exact H|]. apply IH in H. tauto.
Qed.

Lemma ains_sorted {V} k (v : V) m : ssorted m -> ssorted (ains k v m).
Proof.
  induction m as [|[k' v'] t IH]; cbn [ains ssorted].
  - intros _. split; [intros ? ? []|exact I].
  - intros [Hlt Hs]. destruct (k <? k') eqn:E1; [|destruct (k =? k') eqn:E2]; cbn [ssorted].
    + split; [|split; assumption]. intros a x [H|H].
      * injection H as <- <-. lia.
      * apply Hlt in H. lia.
    + split; [|exact Hs]. intros a x H. apply Hlt in H. lia.
    + split; [|apply IH; exact Hs]. intros a x H. apply ains_in in H. destruct H as [H|H].
      * injection H as -> ->. lia.
      * apply Hlt in H. exact H.
Qed.

(* ---- the start map built by Layout::from ------------------------------------------------------------ *)
Definition swf (sl : list (option rmeta)) (g : amap N) : Prop :=
  forall a i, In (a, i) g -> exists m, get sl i = Some (Some m) /\ r_start m = a.

Lemma get_app_len {A} (pre : list A) x t : get (pre ++ x :: t) (len pre) = Some x.
Proof.
  unfold get, len. rewrite Nat2N.id. induction pre as [|p pre IH]; cbn [app length nth_opt]; [reflexivity|exact IH].
Qed.

Lemma s2r_of_props l : forall pre acc,
  ssorted acc -> swf (pre ++ l) acc ->
  ssorted (s2r_of l (len pre) acc) /\ swf (pre ++ l) (s2r_of l (len pre) acc).
Proof.
  induction l as [|x t IH]; intros pre acc Hs Hw; cbn [s2r_of].
  - split; assumption.
  - replace (len pre + 1) with (len (pre ++ [x])) by (rewrite len_app; unfold len; cbn [length]; lia).
    replace (pre ++ x :: t) with ((pre ++ [x]) ++ t) in * by (rewrite <- app_assoc; reflexivity).
    destruct x as [m|]; apply IH; try assumption.
    + apply ains_sorted. exact Hs.
    + intros a i H. apply ains_in in H. destruct H as [H|H]; [|apply Hw; exact H].
      injection H as -> ->. exists m. split; [|reflexivity].
      rewrite <- app_assoc. cbn [app]. apply get_app_len.
Qed.

Definition live_disjoint (sl : list (option rmeta)) : Prop :=
  forall i j a b, i <> j -> get sl i = Some (Some a) -> get sl j = Some (Some b) ->
    r_start a + r_reserved a <= r_start b \/ r_start b + r_reserved b <= r_start a.

Lemma gaps_ok sl : live_disjoint sl -> forall g prev s,
  ssorted g -> swf sl g -> (forall a i, In (a, i) g -> prev <= a) ->
  exists s1, gaps sl g prev s = Some s1.
Proof.
  intros Hd. induction g as [|[start i] t IH]; intros prev s Hs Hw Hp; cbn [gaps].
  - eexists. reflexivity.
  - destruct (Hw start i (or_introl eq_refl)) as (m & Hg & Hst). rewrite Hg.
    assert (E : start <? prev = false) by (specialize (Hp start i (or_introl eq_refl)); lia).
    rewrite E. cbv zeta. destruct Hs as [Hlt Hs]. apply IH.
    + exact Hs.
    + intros a j Hin. apply Hw. right. exact Hin.
    + intros a j Hin. destruct (Hw a j (or_intror Hin)) as (m' & Hg' & Hst').
      specialize (Hlt a j Hin).
      assert (Hne : i <> j) by (intros ->; rewrite Hg in Hg'; injection Hg' as ->; lia).
      destruct (Hd i j m m' Hne Hg Hg'); lia.
Qed.

(* Layout::from succeeds on every slot table whose live extents are pairwise disjoint *)
Theorem gaps_total sl s0 : live_disjoint sl -> exists s1, gaps sl (s2r_of sl 0 []) 0 s0 = Some s1.
Proof.
  intros Hd. destruct (s2r_of_props sl [] [] I) as [Hs Hw]; [intros a i []|].
  cbn [app] in Hw. change (len (@nil (option rmeta))) with 0 in *.
  apply gaps_ok; try assumption. intros; lia.
Qed.

Theorem reopen_no_panic s : live_disjoint (fill_slots (rfile s)) -> reopen s <> APanic.
Proof.
  intros Hd. unfold reopen. cbv zeta.
  destruct (gaps_total (fill_slots (rfile s))
              (mkSt (fill_slots (rfile s)) [] [] [] [] [] (rfile s) (file_len s) (mem s) []) Hd) as [s1 E].
  rewrite E. discriminate.
Qed.

(* ---- crash images of the regions file ---------------------------------------------------------------- *)
(* the first n slots of the regions file under the version choice sigma *)
Definition rf_image (n : N) (sigma : N -> option slotrec) : list (option slotrec) :=
  map sigma (seqN 0 (N.to_nat n)).

Lemma nth_opt_map {A B} (f : A -> B) l k : nth_opt (map f l) k = option_map f (nth_opt l k).
Proof. revert k. induction l as [|x t IH]; intros [|k]; cbn [map nth_opt option_map]; auto. Qed.

Lemma nth_opt_seqN n : forall from k x, nth_opt (seqN from n) k = Some x -> x = from + N.of_nat k.
Proof.
  induction n as [|n IH]; intros from k x; cbn [seqN nth_opt]; [discriminate|].
  destruct k as [|k].
  - intros H. injection H as <-. lia.
  - intros H. apply IH in H. lia.
Qed.

Lemma fill_image_get n sigma i a :
  get (fill_slots (rf_image n sigma)) i = Some (Some a) ->
  exists v, sigma i = Some v /\ valid_slotrec v = true /\
            r_start a = sr_start v /\ r_reserved a = sr_reserved v.
Proof.
  unfold get, fill_slots, rf_image. rewrite !nth_opt_map.
  destruct (nth_opt (seqN 0 (N.to_nat n)) (N.to_nat i)) as [x|] eqn:E; cbn [option_map]; [|discriminate].
  apply nth_opt_seqN in E. assert (Hx : x = i) by lia. clear E. subst x.
destruct (sigma i) as [[[[st ln] rs] id]|]; cbn beta iota; [|discriminate].
  destruct (valid_slotrec (st, ln, rs, id)) eqn:Ev; cbn beta iota; [|discriminate].
  intros H. injection H as <-. exists (st, ln, rs, id). repeat split; assumption.
Qed.

Lemma valid_reserved_pos v : valid_slotrec v = true -> 0 < sr_reserved v.
Proof.
  destruct v as [[[st ln] rs] id]. unfold valid_slotrec, sr_reserved, PAGE_SIZE. lia.
Qed.

Theorem C05_os_reopen_proof :
  forall t1 t2, snd (mon_run mon_init (t1 ++ t2)) = true ->
    let m := fst (mon_run mon_init t1) in
    forall sigma, os_slots m sigma ->
    forall n, live_disjoint (fill_slots (rf_image n sigma))
              /\ forall s, rfile s = rf_image n sigma -> reopen s <> APanic.
Proof.
  intros t1 t2 H m sigma Hs n. pose proof (K_reach t1 t2 H) as HK. fold m in HK.
  assert (Hd : live_disjoint (fill_slots (rf_image n sigma))).
  { intros i j a b Hne Ha Hb.
    apply fill_image_get in Ha. destruct Ha as (v & Hv & Hvv & -> & ->).
    apply fill_image_get in Hb. destruct Hb as (w & Hw & Hvw & -> & ->).
    assert (Hdj : disjoint (sr_start v) (sr_reserved v) (sr_start w) (sr_reserved w) = true).
    { apply (k_disj m HK i j); [exact Hne| |]; [rewrite <- Hv|rewrite <- Hw]; apply Hs. }
    apply valid_reserved_pos in Hvv. apply valid_reserved_pos in Hvw.
    unfold disjoint in Hdj. lia. }
  split; [exact Hd|]. intros s Hrf. apply reopen_no_panic. rewrite Hrf. exact Hd.
Qed.
