(* Rawdb/AllocDisciplinedOps.v — tie between the allocator model and the crash monitor, part 2
   (proof file): the operations without sync satisfy the hypotheses MS of `ms_sound`:
   refused requests and panics, drop of a handle, set_min_len, create (existing id), truncate,
   rename, remove. *)
From Anydb Require Import Common.Base Gen.Consts Rawdb.AMap Rawdb.Alloc Rawdb.AllocSpec Rawdb.AllocInv
  Rawdb.AllocFacts Rawdb.AMapFacts Rawdb.CoverFacts Rawdb.AllocErr Rawdb.InvLayout Rawdb.InvWrite Rawdb.InvStep
  Rawdb.Crash Rawdb.CrashFacts Rawdb.CrashInv Rawdb.CrashSound Rawdb.AllocEvents Rawdb.AllocDisciplined.

Definition step_ok (orc : N -> N -> bool) (s : st) (o : op) (m : mon) : Prop :=
  snd (mon_run m (step_events_o orc s o)) = true
  /\ Cpl (fst (step_total s o)) (fst (mon_run m (step_events_o orc s o))).

Lemma ok_by_ms orc s o m ids s' datas i newrec :
  Inv s -> K m -> Cpl s m ->
  fst (step_total s o) = s' -> step_events_o orc s o = meta_step_events ids s s' datas i newrec ->
  MS s s' ids datas i newrec -> step_ok orc s o m.
Proof.
  intros HI HK HC E1 E2 HM. unfold step_ok. rewrite E1, E2. apply ms_sound; try assumption.
  rewrite <- E1. apply inv_step. exact HI.
Qed.

(* ---- builders of MS ----------------------------------------------------------------------------------- *)
Lemma get_len_none {A} (l : list A) : get l (len l) = None.
Proof. unfold get, len. rewrite Nat2N.id. induction l as [|h t IH]; cbn [length nth_opt]; auto. Qed.

Lemma MS_idle s s' ids :
  slots s' = slots s -> rfile s' = rfile s -> pend s' = pend s -> file_len s <= file_len s' ->
  MS s s' ids [] (len (rfile s)) None.
Proof.
  intros E1 E2 E3 E4.
  assert (Hsl : forall j, slot s' j = slot s j) by (intros j; unfold slot; rewrite E1; reflexivity).
  assert (Hrf : forall j, rf s' j = rf s j) by (intros j; unfold rf; rewrite E2; reflexivity).
  constructor.
  - exact E4.
  - intros j _. auto.
  - intros p z. rewrite E3. auto.
  - intros mi a Hs Hst Ha. left. exists mi. rewrite Hsl. auto.
  - intros v. unfold rf. rewrite get_len_none. discriminate.
  - intros off len f [].
  - intros mi' Hs Hnd. right. exists mi'. rewrite <- Hsl. repeat split; auto. lia.
  - split; [apply Hrf|]. intros mi Hs Hst. exists mi. rewrite Hsl. auto.
Qed.

Lemma mem_in_head x l : mem_in x (x :: l) = true.
Proof. unfold mem_in. cbn [existsb]. rewrite N.eqb_refl. reflexivity. Qed.

Lemma MS_slot_update s s' i m m' ids datas newrec :
  Inv s -> slot s i = Some m -> mem_in (r_id m) ids = true ->
  file_len s <= file_len s' ->
  (forall p z, In (p, z) (pend s) -> In (p, z) (pend s')) ->
  (forall j, slot s' j = if j =? i then Some m' else slot s j) ->
  (forall j, j <> i -> rf s' j = rf s j) ->
  (r_state m <> ST_WRITE ->
     (r_state m' <> ST_WRITE /\ r_start m' = r_start m /\ r_reserved m <= r_reserved m')
     \/ In (r_start m, r_reserved m) (pend s')) ->
  (forall off len f, In (off, len, f) datas -> len <> 0 ->
     r_start m' <= off /\ off + len <= r_start m' + r_len m' /\ m_is_dirty m' = true) ->
  (m_is_dirty m' = false ->
     r_len m' = 0 \/ (m_is_dirty m = false /\ r_start m' = r_start m /\ r_len m' <= r_len m)) ->
  match newrec with
  | None => rf s' i = rf s i /\ (r_state m = ST_FLUSH -> r_state m' = ST_FLUSH)
  | Some (Some v) => rf s' i = Some v /\ r_state m' = ST_FLUSH /\ rec_of m' = v
  | Some None => False
  end ->
  MS s s' ids datas i newrec.
Proof.
  intros HI Hs Hid Hlen Hp Hsl Hrf Hold Hdat Hnd Hnew.
  assert (Hsi : slot s' i = Some m') by (rewrite Hsl, N.eqb_refl; reflexivity).
  constructor.
  - exact Hlen.
  - intros j Hne. split; [|apply Hrf; exact Hne]. rewrite Hsl. destruct (j =? i) eqn:E; [lia|reflexivity].
  - exact Hp.
  - intros mi a Hs0 Hst Ha. rewrite Hs in Hs0. injection Hs0 as <-.
    destruct (Hold Hst) as [(H1 & H2 & H3)|Hin].
    + left. exists m'. split; [exact Hsi|]. split; [exact H1|lia].
    + right. exists (r_start m), (r_reserved m). auto.
  - intros v Hv. destruct (rf_some_slot s i v HI Hv) as (m0 & Hs0 & _ & Hrec). rewrite Hs in Hs0.
    injection Hs0 as <-. subst v. exact Hid.
  - intros off len f Hin Hne. exists m'. destruct (Hdat off len f Hin Hne) as (A & B & C). auto.
  - intros mi' Hs0 Hd. rewrite Hsi in Hs0. injection Hs0 as <-. destruct (Hnd Hd) as [H0|(A & B & C)]; [left; exact H0|].
    right. exists m. auto.
  - destruct newrec as [[v|]|].
    + destruct Hnew as (A & B & C). split; [exact A|]. exists m'. auto.
    + destruct Hnew.
    + destruct Hnew as [A B]. split; [exact A|]. intros mi Hs0 Hst. rewrite Hs in Hs0. injection Hs0 as <-.
      exists m'. auto.
Qed.

Lemma MS_remove s s' i m ids :
  Inv s -> slot s i = Some m -> mem_in (r_id m) ids = true -> file_len s' = file_len s ->
  (forall p z, In (p, z) (pend s) -> In (p, z) (pend s')) -> In (r_start m, r_reserved m) (pend s') ->
  (forall j, slot s' j = if j =? i then None else slot s j) ->
  (forall j, j <> i -> rf s' j = rf s j) -> rf s' i = None ->
  MS s s' ids [] i (Some None).
Proof.
  intros HI Hs Hid Hlen Hp Hin Hsl Hrf Hrfi.
  constructor.
  - lia.
  - intros j Hne. split; [|apply Hrf; exact Hne]. rewrite Hsl. destruct (j =? i) eqn:E; [lia|reflexivity].
  - exact Hp.
  - intros mi a Hs0 Hst Ha. rewrite Hs in Hs0. injection Hs0 as <-. right. exists (r_start m), (r_reserved m). auto.
  - intros v Hv. destruct (rf_some_slot s i v HI Hv) as (m0 & Hs0 & _ & Hrec). rewrite Hs in Hs0.
    injection Hs0 as <-. subst v. exact Hid.
  - intros off len f [].
  - intros mi' Hs0. rewrite Hsl, N.eqb_refl in Hs0. discriminate.
  - split; [exact Hrfi|]. intros E. rewrite E in Hin. destruct Hin.
Qed.

(* ---- results without effect --------------------------------------------------------------------------- *)
Lemma closer_not_ok s o : (forall x, step s o <> AOk x) -> closer s o = CEnd.
Proof.
  intros H. unfold closer. destruct o; try reflexivity;
    destruct (step s _) as [x| |] eqn:E; try reflexivity; destruct (H x eq_refl).
Qed.

Lemma ok_idle orc s o m s' :
  Inv s -> K m -> Cpl s m -> fst (step_total s o) = s' ->
  slots s' = slots s -> rfile s' = rfile s -> pend s' = pend s -> file_len s' = file_len s ->
  step_events_o orc s o = [COp (op_ids s o); CEnd] -> step_ok orc s o m.
Proof.
  intros HI HK HC E1 E2 E3 E4 E5 E6.
  apply (ok_by_ms orc s o m (op_ids s o) s' [] (len (rfile s)) None HI HK HC E1).
  - rewrite E6. unfold meta_step_events. rewrite E5, N.eqb_refl. reflexivity.
  - apply MS_idle; auto. lia.
Qed.

Lemma ok_err orc s o m e : Inv s -> K m -> Cpl s m -> step s o = AErr s e -> step_ok orc s o m.
Proof.
  intros HI HK HC E. apply (ok_idle orc s o m s); auto.
  - unfold step_total. rewrite E. reflexivity.
  - unfold step_events_o. rewrite closer_not_ok by (intros x; rewrite E; discriminate). rewrite E. reflexivity.
Qed.

Lemma ok_panic orc s o m : Inv s -> K m -> Cpl s m -> step s o = APanic -> step_ok orc s o m.
Proof.
  intros HI HK HC E. apply (ok_idle orc s o m s); auto.
  - unfold step_total. rewrite E. reflexivity.
  - unfold step_events_o. rewrite closer_not_ok by (intros x; rewrite E; discriminate). rewrite E. reflexivity.
Qed.

(* ---- drop of a handle, set_min_len ---------------------------------------------------------------------- *)
Lemma ok_drop orc s m id : Inv s -> K m -> Cpl s m -> step_ok orc s (DropHandle id) m.
Proof.
  intros HI HK HC. eapply (ok_idle orc s (DropHandle id) m); auto; reflexivity.
Qed.

Lemma set_min_len_ge s n : file_len s <= file_len (set_min_len s n).
Proof.
  unfold set_min_len. destruct (ceil_page n <=? file_len s) eqn:E; [lia|]. cbn [file_len set_file_len].
  pose proof (ceil_page_ge (N.max (N.max (ceil_page n) (file_len s * GROW_FACTOR)) GROW_FLOOR)). lia.
Qed.

Lemma set_min_len_fields s n :
  slots (set_min_len s n) = slots s /\ rfile (set_min_len s n) = rfile s /\ pend (set_min_len s n) = pend s.
Proof. unfold set_min_len. destruct (ceil_page n <=? file_len s); repeat split; reflexivity. Qed.

Lemma ok_set_min_len orc s m n : Inv s -> K m -> Cpl s m -> step_ok orc s (SetMinLen n) m.
Proof.
  intros HI HK HC. destruct (set_min_len_fields s n) as (F1 & F2 & F3).
  apply (ok_by_ms orc s (SetMinLen n) m [] (set_min_len s n) [] (len (rfile s)) None HI HK HC).
  - reflexivity.
  - reflexivity.
  - apply MS_idle; auto. apply set_min_len_ge.
Qed.

(* ---- write_if_dirty (upd s i f) i when f leaves the metadata in state NEEDS_WRITE ----------------------- *)
Lemma rf_set_at_other l i x j :
  j <> i ->
  match nth_opt (set_at l (N.to_nat i) x None) (N.to_nat j) with Some (Some v) => Some v | _ => None end
  = match nth_opt l (N.to_nat j) with Some (Some v) => Some v | _ => @None slotrec end.
Proof.
  intros Hne. rewrite nth_opt_set_at.
  destruct (Nat.eqb (N.to_nat j) (N.to_nat i)) eqn:E; [apply Nat.eqb_eq in E; lia|].
  destruct (nth_opt l (N.to_nat j)) as [[v|]|]; try reflexivity.
  destruct (Nat.ltb (N.to_nat j) (N.to_nat i)); reflexivity.
Qed.

Lemma wid_upd_obs s i f m :
  slot s i = Some m -> r_state (f m) = ST_WRITE ->
  let s' := write_if_dirty (upd s i f) i in
  let m' := m_set_state (f m) ST_FLUSH in
  file_len s' = file_len s /\ pend s' = pend s
  /\ (forall j, slot s' j = if j =? i then Some m' else slot s j)
  /\ (forall j, j <> i -> rf s' j = rf s j) /\ rf s' i = Some (rec_of (f m))
  /\ meta_ev (upd s i f) i = [CMeta i (Some (rec_of (f m)))].
Proof.
  intros Hs Hst s' m'. unfold s'. rewrite (wid_upd_nf s i f m Hs). unfold fin.
  replace (r_state (f m) =? ST_WRITE) with true by (rewrite Hst; reflexivity).
  split; [reflexivity|]. split; [reflexivity|]. split; [|split; [|split]].
  - intros j. rewrite slot_put_slot. reflexivity.
  - intros j Hne. unfold rf, get. cbn [rfile put_slot set_slots set_rfile]. apply rf_set_at_other. exact Hne.
  - unfold rf, get. cbn [rfile put_slot set_slots set_rfile]. rewrite nth_opt_set_at, Nat.eqb_refl. reflexivity.
  - unfold meta_ev. rewrite slot_upd, N.eqb_refl, Hs. cbn [option_map].
    replace (r_state (f m) =? ST_WRITE) with true by (rewrite Hst; reflexivity). reflexivity.
Qed.

(* ---- truncate ------------------------------------------------------------------------------------------------ *)
Lemma ok_truncate orc s m id from : Inv s -> K m -> Cpl s m -> step_ok orc s (Truncate id from) m.
Proof.
  intros HI HK HC. destruct (find_id s id) as [i|] eqn:Ef.
  2:{ apply (ok_err orc s _ m RegionNotFound); auto. cbn [step]. unfold with_region. rewrite Ef. reflexivity. }
  destruct (find_id_some s id i Ef) as (mi & Hs & Hid).
  assert (Estep : step s (Truncate id from) = truncate s i from)
    by (cbn [step]; unfold with_region; rewrite Ef; reflexivity).
  unfold truncate in Estep. rewrite Hs in Estep.
  destruct (from =? r_len mi) eqn:E1.
  { apply (ok_idle orc s _ m s); auto.
    - unfold step_total. rewrite Estep. reflexivity.
    - unfold step_events_o, closer. rewrite Estep. cbn [body_events op_ids]. unfold with_region_ev.
      rewrite Ef, Hs, E1. reflexivity. }
  destruct (r_len mi <? from) eqn:E2. { apply (ok_err orc s _ m _ HI HK HC Estep). }
  destruct (negb (ok_set_len mi from)) eqn:E3. { apply (ok_panic orc s _ m HI HK HC Estep). }
  set (f := fun m0 : rmeta => m_set_len m0 from) in *.
  assert (Hst : r_state (f mi) = ST_WRITE).
  { unfold f, m_set_len. replace (r_len mi =? from) with false by lia. reflexivity. }
  destruct (set_len_fields mi from) as (L1 & L2 & L3 & L4).
  destruct (wid_upd_obs s i f mi Hs Hst) as (O1 & O2 & O3 & O4 & O5 & O6).
  apply (ok_by_ms orc s _ m [id] (write_if_dirty (upd s i f) i) [] i (Some (Some (rec_of (f mi)))) HI HK HC).
  - unfold step_total. rewrite Estep. reflexivity.
  - unfold step_events_o, closer. rewrite Estep. cbn [body_events op_ids]. unfold with_region_ev.
    rewrite Ef, Hs, E1. fold f. rewrite O6. unfold meta_step_events. rewrite O1, N.eqb_refl. reflexivity.
  - apply (MS_slot_update s _ i mi (m_set_state (f mi) ST_FLUSH)).
    + exact HI.
    + exact Hs.
    + rewrite Hid. apply mem_in_head.
    + lia.
    + intros p z. rewrite O2. auto.
    + exact O3.
    + exact O4.
    + intros _. left. cbn [r_state r_start r_reserved m_set_state]. unfold f. rewrite L1, L3. split; [discriminate|lia].
    + intros off len g [].
    + intros Hd. right. cbn [r_start r_len m_set_state]. unfold f. rewrite L1, L2. split; [|lia].
      unfold m_is_dirty, m_set_state, f, m_set_len in *. destruct (r_len mi =? from); exact Hd.
    + split; [exact O5|]. split; reflexivity.
Qed.

(* ---- rename -------------------------------------------------------------------------------------------------- *)
Lemma ok_rename orc s m id new_id : Inv s -> K m -> Cpl s m -> step_ok orc s (Rename id new_id) m.
Proof.
  intros HI HK HC. destruct (find_id s id) as [i|] eqn:Ef.
  2:{ apply (ok_err orc s _ m RegionNotFound); auto. cbn [step]. unfold with_region. rewrite Ef. reflexivity. }
  destruct (find_id_some s id i Ef) as (mi & Hs & Hid).
  assert (Estep : step s (Rename id new_id) = rename s i new_id)
    by (cbn [step]; unfold with_region; rewrite Ef; reflexivity).
  unfold rename in Estep. rewrite Hs in Estep.
  destruct (find_id s new_id) as [k|] eqn:En. { apply (ok_err orc s _ m _ HI HK HC Estep). }
  set (f := fun m0 : rmeta => m_set_id m0 new_id) in *.
  pose proof (find_id_none s new_id i mi En Hs) as Hne.
  assert (Hst : r_state (f mi) = ST_WRITE).
  { unfold f, m_set_id. replace (r_id mi =? new_id) with false by lia. reflexivity. }
  assert (Hf : f mi = mkR (r_start mi) (r_len mi) (r_reserved mi) new_id ST_WRITE (r_dmin mi) (r_dmax mi)).
  { unfold f, m_set_id. replace (r_id mi =? new_id) with false by lia. reflexivity. }
  destruct (wid_upd_obs s i f mi Hs Hst) as (O1 & O2 & O3 & O4 & O5 & O6).
  set (s1 := write_if_dirty (upd s i f) i) in *.
  set (s' := set_held s1 (map (fun x => if x =? r_id mi then new_id else x) (held s1))) in *.
  apply (ok_by_ms orc s _ m [id; new_id] s' [] i (Some (Some (rec_of (f mi)))) HI HK HC).
  - unfold step_total. rewrite Estep. reflexivity.
  - unfold step_events_o, closer. rewrite Estep. cbn [body_events op_ids]. unfold with_region_ev.
    rewrite Ef. fold f. rewrite O6. unfold meta_step_events.
    replace (file_len s') with (file_len s) by (symmetry; exact O1). rewrite N.eqb_refl. reflexivity.
  - apply (MS_slot_update s s' i mi (m_set_state (f mi) ST_FLUSH)).
    + exact HI.
    + exact Hs.
    + rewrite Hid. apply mem_in_head.
    + change (file_len s') with (file_len s1). lia.
    + intros p z. change (pend s') with (pend s1). rewrite O2. auto.
    + intros j. change (slot s' j) with (slot s1 j). apply O3.
    + intros j Hj. change (rf s' j) with (rf s1 j). apply O4. exact Hj.
    + intros _. left. rewrite Hf. cbn [r_state r_start r_reserved m_set_state]. split; [discriminate|lia].
    + intros off len g [].
    + intros Hd. right. rewrite Hf in *. cbn [r_start r_len m_set_state m_is_dirty r_dmin r_dmax] in *.
      split; [exact Hd|lia].
    + split; [exact O5|]. split; reflexivity.
Qed.

(* ---- remove ---------------------------------------------------------------------------------------------------- *)
Lemma pend_start_absent s i m p z :
  Inv s -> slot s i = Some m -> In (p, z) (pend s) -> p <> r_start m.
Proof.
  intros HI Hs Hin E. subst p.
  destruct (inv_ext_aligned s (r_start m, z) HI) as (_ & _ & Hz). { apply in_extents. right. right. left. exact Hin. }
  destruct (inv_region_aligned s i m HI Hs) as (_ & _ & Hr). cbn [fst snd rext] in Hz, Hr.
  apply (region_pend_point s i m (r_start m) HI Hs); [|lia]. exists (r_start m), z. split; [exact Hin|lia].
Qed.

Lemma remove_idx_obs s i m s' :
  Inv s -> slot s i = Some m -> remove_idx s i = AOk s' ->
  file_len s' = file_len s
  /\ (forall p z, In (p, z) (pend s) -> In (p, z) (pend s')) /\ In (r_start m, r_reserved m) (pend s')
  /\ (forall j, slot s' j = if j =? i then None else slot s j)
  /\ (forall j, j <> i -> rf s' j = rf s j) /\ rf s' i = None.
Proof.
  intros HI Hs E. unfold remove_idx in E. rewrite Hs in E.
  destruct (is_held s (r_id m)); [discriminate|].
  unfold layout_remove_region in E. rewrite (inv_s2r_ok s HI i m Hs), N.eqb_refl in E.
  cbn [abind] in E. injection E as <-.
  split; [reflexivity|]. split; [|split; [|split; [|split]]].
  - intros p z Hin. cbn [pend put_slot set_slots set_rfile set_pend set_s2r].
    apply in_ains_other; [exact Hin|]. apply (pend_start_absent s i m p z HI Hs Hin).
  - cbn [pend put_slot set_slots set_rfile set_pend set_s2r]. apply in_ains_same.
  - intros j. change (slot (set_rfile ?x ?y) j) with (slot x j). rewrite slot_put_slot. reflexivity.
  - intros j Hne. unfold rf, get. cbn [rfile put_slot set_slots set_rfile set_pend set_s2r].
    apply rf_set_at_other. exact Hne.
  - unfold rf, get. cbn [rfile put_slot set_slots set_rfile set_pend set_s2r].
    rewrite nth_opt_set_at, Nat.eqb_refl. reflexivity.
Qed.

Lemma ok_remove orc s m id : Inv s -> K m -> Cpl s m -> step_ok orc s (Remove id) m.
Proof.
  intros HI HK HC. cbn [step]. destruct (find_id s id) as [i|] eqn:Ef.
  2:{ apply (ok_err orc s _ m RegionNotFound); auto. cbn [step]. unfold remove. rewrite Ef. reflexivity. }
  destruct (find_id_some s id i Ef) as (mi & Hs & Hid).
  assert (Estep : step s (Remove id) = let* s1 := remove_idx s i in AOk (s1, OUnit))
    by (cbn [step]; unfold remove; rewrite Ef; reflexivity).
  destruct (remove_idx s i) as [s'|s1 e|] eqn:Er; cbn [abind] in Estep.
  - destruct (remove_idx_obs s i mi s' HI Hs Er) as (O1 & O2 & O3 & O4 & O5 & O6).
    apply (ok_by_ms orc s _ m [id] s' [] i (Some None) HI HK HC).
    + unfold step_total. rewrite Estep. reflexivity.
    + unfold step_events_o, closer. rewrite Estep. cbn [body_events op_ids]. unfold with_region_ev.
      rewrite Ef. unfold meta_step_events. rewrite O1, N.eqb_refl. reflexivity.
    + apply (MS_remove s s' i mi [id] HI Hs); try assumption. rewrite Hid. apply mem_in_head.
  - (* refused: the state is returned unchanged *)
    assert (s1 = s).
    { unfold remove_idx in Er. rewrite Hs in Er. destruct (is_held s (r_id mi)); [injection Er as <- _; reflexivity|].
      unfold layout_remove_region in Er. rewrite (inv_s2r_ok s HI i mi Hs), N.eqb_refl in Er. discriminate. }
    subst s1. apply (ok_err orc s _ m e HI HK HC Estep).
  - apply (ok_panic orc s _ m HI HK HC Estep).
Qed.
