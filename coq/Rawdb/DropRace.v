(* Rawdb/DropRace.v — fine-grained model of `Drop for Database` (lib.rs:636-642) for C18.

     impl Drop for Database { fn drop(&mut self) {
         if Arc::strong_count(&self.0) == 1 { let _ = self.sync_bg_tasks(); }     (* step READ  *)
     } }                                                                         (* then the field
     `Arc<DatabaseInner>` is dropped: fetch_sub; at zero DatabaseInner drops and closes both Files *)
                                                                                 (* step DEC   *)
   run_bg (lib.rs:416-425) hands the closure a handle made with Arc::from_raw inside ManuallyDrop:
   a background task is NOT counted by the Arc; only the join in READ (when the count is 1) makes
   the instance outlive it.  READ and DEC are two separate atomic actions; Rawdb/OpenLock.v treats
   them as one step (`drop_strong`).  Here they are separate and several droppers may sit between
   their READ and their DEC.

   Result: the full statement "a running background task implies the locks are still held" is
   REFUTED for two handles dropped concurrently (both READ 2, nobody joins, the count goes to 0),
   and PROVED for histories in which every drop is atomic (READ immediately followed by its DEC). *)
From Anydb Require Import Common.Base Gen.OpenOrder.

Record ds : Set := mkDs {
  d_strong : N;            (* Arc strong count *)
  d_bg : N;                (* run_bg closures still running *)
  d_locked : bool;         (* DatabaseInner alive = both Files open = both advisory locks held *)
  d_pend : list bool       (* droppers between READ and DEC; true = read count == 1, sits in sync_bg_tasks *)
}.

Inductive dop : Set :=
| DRead                    (* some handle's Drop::drop evaluates Arc::strong_count(&self.0) == 1 *)
| DDec (n : nat)           (* the n-th pending dropper finishes: (join done,) Arc decrement *)
| DFinishBg.               (* a background closure returns *)

Fixpoint remove_nth {A} (n : nat) (l : list A) : list A :=
  match l, n with
  | [], _ => []
  | _ :: r, O => r
  | a :: r, S m => a :: remove_nth m r
  end.

Definition dstep (s : ds) (o : dop) : ds :=
  match o with
  | DRead =>
      (* a handle that is not yet being dropped *)
      if len (d_pend s) <? d_strong s
      then mkDs (d_strong s) (d_bg s) (d_locked s) (d_pend s ++ [d_strong s =? drop_joins_bg_at_strong_count])
      else s
  | DDec n =>
      match nth_error (d_pend s) n with
      | None => s
      | Some joins =>
          if joins && (0 <? d_bg s) then s      (* blocked in handle.join() *)
          else let c := d_strong s - 1 in
               mkDs c (d_bg s) (if c =? 0 then false else d_locked s) (remove_nth n (d_pend s))
      end
  | DFinishBg => mkDs (d_strong s) (d_bg s - 1) (d_locked s) (d_pend s)
  end.

Definition drun (s : ds) (h : list dop) : ds := fold_left dstep h s.
Definition dinit (handles bg : N) : ds := mkDs handles bg true [].

(* FULL statement: background tasks extend the holder's lifetime *)
Definition bg_extends_lifetime_full : Prop :=
  forall handles bg h, 0 < handles -> let s := drun (dinit handles bg) h in 0 < d_bg s -> d_locked s = true.

(* the witness: two handles, one task; READ READ DEC DEC *)
Definition race_witness : list dop := [DRead; DRead; DDec 0; DDec 0].

Lemma bg_extends_lifetime_refuted :
  exists handles bg h, 0 < handles /\ 0 < d_bg (drun (dinit handles bg) h) /\ d_locked (drun (dinit handles bg) h) = false.
Proof. exists 2, 1, race_witness. vm_compute. repeat split; reflexivity. Qed.

Lemma bg_extends_lifetime_full_is_false : ~ bg_extends_lifetime_full.
Proof.
  intro H. specialize (H 2 1 race_witness eq_refl). cbv zeta in H.
  assert (E : d_locked (drun (dinit 2 1) race_witness) = false) by (vm_compute; reflexivity).
  rewrite E in H. discriminate H. vm_compute. reflexivity.
Qed.

(* PARTIAL: histories in which every drop is atomic — each READ is immediately followed by the DEC
   of the dropper it created (which is a no-op while that dropper is blocked in the join; a blocked
   dropper may retry later with `DDec 0`). *)
Inductive ablock : Set := ADrop | ARetry | AFinish.
Definition expand (b : ablock) (s : ds) : list dop :=
  match b with
  | ADrop => [DRead; DDec (length (d_pend s))]
  | ARetry => [DDec 0]
  | AFinish => [DFinishBg]
  end.
Fixpoint arun (s : ds) (h : list ablock) : ds :=
  match h with [] => s | b :: r => arun (drun s (expand b s)) r end.

Definition AInv (s : ds) : Prop :=
  (d_locked s = true <-> 0 < d_strong s) /\
  (d_pend s = [] \/ (d_pend s = [true] /\ d_strong s = 1)) /\
  (0 < d_bg s -> 0 < d_strong s).

Ltac fin :=
  cbn [d_strong d_bg d_locked d_pend remove_nth]; repeat split; intros; try discriminate; try lia; try tauto;
  try (left; reflexivity); try (right; split; [reflexivity | lia]); auto;
  try match goal with H : 0 < ?c -> ?lk = true |- ?lk = true => apply H; lia end.

Lemma AInv_block s b : AInv s -> AInv (drun s (expand b s)).
Proof.
  intros (HL & HP & HB). destruct s as [c bg lk pd]. cbn [d_strong d_bg d_locked d_pend] in *.
  destruct HL as [HL1 HL2].
  destruct HP as [-> | (-> & ->)].
  - destruct b; cbn [expand drun fold_left dstep d_pend d_strong d_bg d_locked length len nth_error app].
    + change (len (@nil bool)) with 0. unfold drop_joins_bg_at_strong_count.
      destruct (0 <? c) eqn:Ec; cbn [d_pend d_strong d_bg d_locked nth_error app]; [| unfold AInv; fin].
      destruct (c =? 1) eqn:E1; cbn [andb]; [destruct (0 <? bg) eqn:Eb |]; unfold AInv.
      * fin.
      * replace (c - 1 =? 0) with true by lia. fin.
      * replace (c - 1 =? 0) with false by lia. fin.
    + unfold AInv. fin.
    + unfold AInv. fin.
  - destruct b; cbn [expand drun fold_left dstep d_pend d_strong d_bg d_locked length len nth_error app].
    + change (len [true]) with 1. replace (1 <? 1) with false by reflexivity.
      cbn [d_pend nth_error]. unfold AInv. fin.
    + destruct (0 <? bg) eqn:Eb; cbn [andb]; unfold AInv; [fin |].
      replace (1 - 1 =? 0) with true by reflexivity. fin.
    + unfold AInv. fin.
Qed.

Lemma AInv_init handles bg : 0 < handles -> AInv (dinit handles bg).
Proof. intro H. unfold AInv, dinit. fin. Qed.

Lemma AInv_arun s h : AInv s -> AInv (arun s h).
Proof. revert s. induction h as [| b h IH]; intros s HI; [exact HI |]. cbn [arun]. apply IH, AInv_block, HI. Qed.

(* with atomic drops a running background task does keep the locks held *)
Lemma bg_extends_lifetime_atomic : forall handles bg h, 0 < handles ->
  0 < d_bg (arun (dinit handles bg) h) -> d_locked (arun (dinit handles bg) h) = true.
Proof.
  intros handles bg h Hh Hbg. destruct (AInv_arun _ h (AInv_init handles bg Hh)) as ((_ & HL2) & _ & HB).
  apply HL2, HB, Hbg.
Qed.
