(* Rawdb/OpenLockProofs.v — PROOFS for C18 over the model Rawdb/OpenLock.v.

   TRUSTED ASSUMPTION (the kernel, not verified): the two Section hypotheses below are the
   flock(2) rule for LOCK_EX|LOCK_NB as used by std::fs::File::try_lock on Linux:
     flock_excl : an open file description cannot take the exclusive non-blocking lock while a
                  DIFFERENT open file description holds it (threads and processes alike: the lock
                  belongs to the open file description, not to the thread or the process);
     flock_free : the request is granted when no other open file description holds the lock
                  (no spurious failure such as ENOLCK/EINTR).
   Closing the last descriptor of an open file description releases its lock and nothing else does
   (that is `close` in the model).  Everything below is proved for EVERY oracle satisfying the two
   hypotheses; `flock_impl_ok` shows they are satisfiable. *)
From Anydb Require Import Common.Base Gen.Consts Gen.OpenOrder Rawdb.OpenLock.

(* ---------------------------------------------------------------- oracle-independent facts *)
Lemma owner_eqb_eq a b : owner_eqb a b = true <-> a = b.
Proof.
  destruct a, b; cbn [owner_eqb]; split; intro H; try discriminate; try (inversion H; subst; apply N.eqb_refl).
  - apply N.eqb_eq in H; subst; reflexivity.
  - apply N.eqb_eq in H; subst; reflexivity.
Qed.

Lemma owner_eqb_neq a b : a <> b -> owner_eqb a b = false.
Proof. intro H. destruct (owner_eqb a b) eqn:E; [apply owner_eqb_eq in E; contradiction | reflexivity]. Qed.

Lemma unlock_self me : unlock me [me] = [].
Proof. unfold unlock. cbn [filter]. replace (owner_eqb me me) with true by (symmetry; apply owner_eqb_eq; reflexivity). reflexivity. Qed.

Lemma unlock_self_cons me : unlock me [me; me] = [].
Proof. unfold unlock. cbn [filter]. replace (owner_eqb me me) with true by (symmetry; apply owner_eqb_eq; reflexivity). reflexivity. Qed.

Lemma unlock_other me o : o <> me -> unlock me [o] = [o].
Proof. intro H. unfold unlock. cbn [filter]. rewrite (owner_eqb_neq o me H). reflexivity. Qed.

Lemma unlock_nil me : unlock me [] = []. Proof. reflexivity. Qed.

Lemma file_eta fl : mkFile (f_exists fl) (f_len fl) (f_content fl) (f_lock fl) = fl.
Proof. destruct fl; reflexivity. Qed.
Lemma fs_eta x : mkFs (data x) (regs x) = x.
Proof. destruct x; reflexivity. Qed.

(* the generated facts the model's lifetime rules rest on: if the source changes one of them this
   stops compiling and the instance model has to be revisited *)
Lemma gen_lifetime_facts :
  reader_holds_strong = true /\ region_holds_strong = false /\ bg_task_holds_strong = false /\
  drop_joins_bg_at_strong_count = 1 /\ try_lock_error_propagates_as_TryLock = true.
Proof. repeat split; reflexivity. Qed.

(* the release sequence of a dropped DatabaseInner, and its non-empty tails *)
Fixpoint tails {A} (l : list A) : list (list A) := match l with [] => [] | a :: r => (a :: r) :: tails r end.
Definition has (f : fileid) (l : list fileid) : bool := existsb (fileid_eqb f) l.

(* GENERATED ORDER USED HERE: `regions` is declared (dropped) before `file` in DatabaseInner, so
   every stage of the drop still owns the data lock *)
Lemma tails_drop_files_have_data : forall fl, In fl (tails drop_files) -> has FData fl = true.
Proof. intros fl H. cbn in H. repeat (destruct H as [<- | H]; [reflexivity |]). contradiction. Qed.

Lemma tails_drop_files_step : forall f rest, In (f :: rest) (tails drop_files) -> rest = [] \/ In rest (tails drop_files).
Proof.
  intros f rest H. cbn in H.
  repeat (destruct H as [H | H]; [inversion H; subst; cbn; auto |]). contradiction.
Qed.

Lemma drop_files_in_tails : In drop_files (tails drop_files).
Proof. cbn. auto. Qed.

Lemma drop_files_nodup_head : forall f rest, In (f :: rest) (tails drop_files) -> has f rest = false.
Proof.
  intros f rest H. cbn in H.
  repeat (destruct H as [H | H]; [inversion H; subst; reflexivity |]). contradiction.
Qed.

Section Proofs.
Variable tl : list owner -> owner -> bool.
Hypothesis flock_excl : forall holders me, (exists o, In o holders /\ o <> me) -> tl holders me = false.
Hypothesis flock_free : forall holders me, (forall o, In o holders -> o = me) -> tl holders me = true.

(* ---------------------------------------------------------------- what one open does to the files.
   GENERATED ORDER USED HERE: this equation is obtained by computing `open_prog` from
   Gen.OpenOrder.open_with_min_len_calls / regions_open_calls.  try_lock(data) comes before
   set_len, set_len before Regions::open; a reordering in the source changes open_prog and this
   lemma (and with it every theorem below) no longer compiles. *)
Definition grown (l m : N) : N := if l <? m then m else l.

Lemma open_files_spec me m x :
  open_files tl me m x =
    let d := data x in let r := regs x in
    if tl (f_lock d) me then
      if tl (f_lock r) me then
        (mkFs (mkFile true (grown (f_len d) m) (f_content d) (me :: f_lock d))
              (mkFile true (f_len r) (f_content r) (me :: f_lock r)), Opened)
      else
        (mkFs (mkFile true (grown (f_len d) m) (f_content d) (unlock me (me :: f_lock d)))
              (mkFile true (f_len r) (f_content r) (unlock me (f_lock r))), RefusedAt FRegions)
    else (mkFs (mkFile true (f_len d) (f_content d) (unlock me (f_lock d))) r, RefusedAt FData).
Proof using.
  unfold open_files, open_prog, grown. destruct x as [d r]. destruct d as [de dl dc dk], r as [re rl rc rk].
  cbn -[N.ltb unlock]. rewrite !orb_true_r.
  destruct (tl dk me); cbn -[N.ltb unlock]; [| reflexivity].
  destruct (dl <? m); cbn -[N.ltb unlock]; rewrite ?orb_true_r; destruct (tl rk me); cbn -[N.ltb unlock]; reflexivity.
Qed.

(* C18, the question "what if the data lock is obtained and the regions lock is refused?": read off
   the code, the growth to min_len has ALREADY been applied (and synced) and stays, the data lock is
   given back, the caller gets Err(TryLock).  Stated for an ARBITRARY file-system state; the
   theorem no_half_open below shows that no state reachable through the library is of this kind. *)
Lemma half_open_would_grow_data me m x :
  tl (f_lock (data x)) me = true -> tl (f_lock (regs x)) me = false -> f_len (data x) < m ->
  snd (open_files tl me m x) = RefusedAt FRegions /\
  f_len (data (fst (open_files tl me m x))) = m /\ f_len (data (fst (open_files tl me m x))) <> f_len (data x).
Proof using.
  clear flock_excl flock_free. intros Hd Hr Hlt. rewrite open_files_spec. cbn zeta. rewrite Hd, Hr. cbn [fst snd data f_len]. unfold grown.
  destruct (f_len (data x) <? m) eqn:E; [| lia]. repeat split; lia.
Qed.

(* ---------------------------------------------------------------- the invariant *)
Definition locks_are (x : fs) (ld lr : list owner) : Prop := f_lock (data x) = ld /\ f_lock (regs x) = lr.
Definition exists_both (x : fs) : Prop := f_exists (data x) = true /\ f_exists (regs x) = true.
Definition held_by (k : N) (b : bool) : list owner := if b then [Opener k] else [].

Inductive Inv (s : st) : Prop :=
| InvIdle : insts s = [] -> closing s = [] -> locks_are (files s) [] [] -> Inv s
| InvLive (i : inst) :
    insts s = [i] -> closing s = [] ->
    locks_are (files s) [Opener (i_id i)] [Opener (i_id i)] -> exists_both (files s) ->
    i_id i < next s -> 0 < strong i -> (i_joining i = true -> 0 < i_bg i) -> Inv s
| InvClosing (k : N) (fl : list fileid) :
    insts s = [] -> closing s = [(k, fl)] -> In fl (tails drop_files) ->
    locks_are (files s) (held_by k (has FData fl)) (held_by k (has FRegions fl)) -> exists_both (files s) ->
    k < next s -> Inv s.

Definition holder_alive (s : st) : Prop := insts s <> [] \/ closing s <> [].

Lemma Inv_init x : unlocked x -> Inv (init x).
Proof. intros [Hd Hr]. apply InvIdle; cbn; auto. split; assumption. Qed.

(* Open in each of the three shapes *)
Lemma open_idle s m :
  insts s = [] -> closing s = [] -> locks_are (files s) [] [] ->
  step tl s (Open m) =
    (let x := files s in
     mkSt (mkFs (mkFile true (grown (f_len (data x)) m) (f_content (data x)) [Opener (next s)])
                (mkFile true (f_len (regs x)) (f_content (regs x)) [Opener (next s)]))
          [mkInst (next s) 1 0 0 false] [] (next s + 1),
     O_open_ok (next s) (grown (f_len (data (files s))) m) (f_len (regs (files s))) (f_content (data (files s)))).
Proof.
  intros Hi Hc [Hd Hr]. unfold step. rewrite open_files_spec. cbn zeta. rewrite Hd, Hr.
  rewrite (flock_free [] (Opener (next s))) by (intros o []).
  rewrite Hi, Hc. reflexivity.
Qed.

Lemma open_refused s m k lr :
  locks_are (files s) [Opener k] lr -> exists_both (files s) -> k < next s ->
  step tl s (Open m) =
    (mkSt (files s) (insts s) (closing s) (next s + 1),
     O_open_err (next s) FData (f_len (data (files s))) (f_len (regs (files s)))).
Proof.
  intros [Hd Hr] [Ed Er] Hk. unfold step. rewrite open_files_spec. cbn zeta. rewrite Hd.
  assert (Hne : Opener k <> Opener (next s)) by (intro H; inversion H; lia).
  rewrite (flock_excl [Opener k] (Opener (next s))) by (exists (Opener k); split; [left; reflexivity | exact Hne]).
  rewrite (unlock_other _ _ Hne).
  replace (mkFile true (f_len (data (files s))) (f_content (data (files s))) [Opener k]) with (data (files s))
    by (rewrite <- Hd, <- Ed; symmetry; apply file_eta).
  rewrite fs_eta. reflexivity.
Qed.

Lemma closing_data_held k fl : In fl (tails drop_files) -> held_by k (has FData fl) = [Opener k].
Proof. intro H. rewrite (tails_drop_files_have_data fl H). reflexivity. Qed.

(* put_inst / remove_inst / find_inst on the one-element list *)
Lemma find_one i k : find_inst k [i] = if i_id i =? k then Some i else None.
Proof. reflexivity. Qed.
Lemma put_one i i' : i_id i' = i_id i -> put_inst i' [i] = [i'].
Proof. intro H. unfold put_inst, remove_inst. cbn [filter]. rewrite H, N.eqb_refl. reflexivity. Qed.
Lemma remove_one i : remove_inst (i_id i) [i] = [].
Proof. unfold remove_inst. cbn [filter]. rewrite N.eqb_refl. reflexivity. Qed.

Ltac live_tac i' :=
  eapply (InvLive _ i'); cbn [insts closing files next i_id i_handles i_readers i_bg i_joining]; eauto.

Lemma Inv_drop_strong s i i' :
  insts s = [i] -> closing s = [] ->
  locks_are (files s) [Opener (i_id i)] [Opener (i_id i)] -> exists_both (files s) -> i_id i < next s ->
  i_id i' = i_id i -> i_joining i' = i_joining i -> i_bg i' = i_bg i ->
  strong i = strong i' + 1 ->
  (i_joining i = true -> 0 < i_bg i) ->
  Inv (fst (drop_strong s i i')).
Proof.
  intros Hi Hc HL HE Hk Hid Hj Hb Hs Hjb. unfold drop_strong, drop_joins_bg_at_strong_count.
  destruct (strong i =? 1) eqn:E1.
  - destruct (i_bg i =? 0) eqn:E2; cbn [fst].
    + unfold begin_release. eapply (InvClosing _ (i_id i) drop_files); cbn [insts closing files next]; eauto.
      * rewrite ?Hi. apply remove_one.
      * rewrite Hc. reflexivity.
      * apply drop_files_in_tails.
    + live_tac (mkInst (i_id i') (i_handles i') (i_readers i') (i_bg i') true).
      * rewrite ?Hi. apply put_one. exact Hid.
      * rewrite Hid. exact HL.
      * rewrite Hid. exact Hk.
      * unfold strong. cbn [i_joining i_handles i_readers]. lia.
      * intros _. rewrite Hb. lia.
  - cbn [fst]. live_tac i'.
    + rewrite ?Hi. apply put_one. exact Hid.
    + rewrite Hid. exact HL.
    + rewrite Hid. exact Hk.
    + lia.
    + rewrite Hj, Hb. exact Hjb.
Qed.

Lemma Inv_step s o : Inv s -> Inv (fst (step tl s o)).
Proof.
  intros HI. destruct HI as [Hi Hc HL | i Hi Hc HL HE Hk Hs Hjb | k fl Hi Hc Hfl HL HE Hk].
  - (* idle: only Open does anything *)
    destruct o; try (unfold step; rewrite ?Hi, ?Hc; cbn [find_inst release_in fst]; apply InvIdle; assumption).
    rewrite (open_idle s min_len Hi Hc HL). cbn [fst].
    eapply (InvLive _ (mkInst (next s) 1 0 0 false)); cbn [insts closing files next i_id i_joining i_bg]; eauto.
    + split; reflexivity.
    + split; reflexivity.
    + lia.
    + unfold strong; cbn; lia.
    + discriminate.
  - (* one live instance *)
    destruct i as [id hn rd bg jn]. cbn [i_id i_joining i_bg] in *.
    assert (Hstrong : strong (mkInst id hn rd bg jn) = hn + rd + (if jn then 1 else 0)) by reflexivity.
    destruct o.
    + (* Open: refused *)
      rewrite (open_refused s min_len id _ HL HE Hk). cbn [fst].
      eapply (InvLive _ (mkInst id hn rd bg jn)); cbn [insts closing files next i_id i_joining i_bg]; eauto. lia.
    + (* CloneHandle *)
      unfold step. rewrite Hi, find_one. cbn [i_id]. destruct (id =? k) eqn:Ek; [apply N.eqb_eq in Ek; subst k | cbn [fst]; eapply InvLive; eauto].
      cbn [i_handles i_readers i_bg i_joining]. destruct (0 <? hn) eqn:Eh; cbn [fst]; [| eapply InvLive; eauto].
      live_tac (mkInst id (hn + 1) rd bg jn).
      * rewrite ?Hi. apply put_one. reflexivity.
      * unfold strong; cbn; lia.
    + (* RegionDb *)
      unfold step. rewrite Hi, find_one. cbn [i_id]. destruct (id =? k) eqn:Ek; [apply N.eqb_eq in Ek; subst k | cbn [fst]; eapply InvLive; eauto].
      cbn [i_handles i_readers i_bg i_joining fst].
      live_tac (mkInst id (hn + 1) rd bg jn).
      * rewrite ?Hi. apply put_one. reflexivity.
      * unfold strong; cbn; lia.
    + (* DropHandle *)
      unfold step. rewrite Hi, find_one. cbn [i_id]. destruct (id =? k) eqn:Ek; [apply N.eqb_eq in Ek; subst k | cbn [fst]; eapply InvLive; eauto].
      cbn [i_handles i_readers i_bg i_joining]. destruct (0 <? hn) eqn:Eh; [| cbn [fst]; eapply InvLive; eauto].
      apply Inv_drop_strong; cbn [i_id i_joining i_bg]; auto.
      unfold strong; cbn [i_handles i_readers i_joining]; unfold reader_holds_strong; lia.
    + (* MkReader *)
      unfold step. rewrite Hi, find_one. cbn [i_id]. destruct (id =? k) eqn:Ek; [apply N.eqb_eq in Ek; subst k | cbn [fst]; eapply InvLive; eauto].
      cbn [i_handles i_readers i_bg i_joining fst].
      live_tac (mkInst id hn (rd + 1) bg jn).
      * rewrite ?Hi. apply put_one. reflexivity.
      * unfold strong; cbn; lia.
    + (* DropReader *)
      unfold step. rewrite Hi, find_one. cbn [i_id]. destruct (id =? k) eqn:Ek; [apply N.eqb_eq in Ek; subst k | cbn [fst]; eapply InvLive; eauto].
      cbn [i_handles i_readers i_bg i_joining]. destruct (0 <? rd) eqn:Eh; [| cbn [fst]; eapply InvLive; eauto].
      apply Inv_drop_strong; cbn [i_id i_joining i_bg]; auto.
      unfold strong; cbn [i_handles i_readers i_joining]; unfold reader_holds_strong; lia.
    + (* SpawnBg *)
      unfold step. rewrite Hi, find_one. cbn [i_id]. destruct (id =? k) eqn:Ek; [apply N.eqb_eq in Ek; subst k | cbn [fst]; eapply InvLive; eauto].
      cbn [i_handles i_readers i_bg i_joining]. destruct ((0 <? hn) && negb jn) eqn:Eh; cbn [fst]; [| eapply InvLive; eauto].
      live_tac (mkInst id hn rd (bg + 1) false).
      * rewrite ?Hi. apply put_one. reflexivity.
      * unfold strong; cbn; lia.
      * discriminate.
    + (* FinishBg *)
      unfold step. rewrite Hi, find_one. cbn [i_id]. destruct (id =? k) eqn:Ek; [apply N.eqb_eq in Ek; subst k | cbn [fst]; eapply InvLive; eauto].
      cbn [i_handles i_readers i_bg i_joining]. destruct (0 <? bg) eqn:Eb; [| cbn [fst]; eapply InvLive; eauto].
      destruct (jn && (bg - 1 =? 0)) eqn:Ej.
      * destruct (strong (mkInst id hn rd 0 false) =? 0) eqn:E0; cbn [fst].
        -- unfold begin_release. eapply (InvClosing _ id drop_files); cbn [insts closing files next]; eauto.
           ++ rewrite ?Hi. apply (remove_one (mkInst id hn rd bg jn)).
           ++ rewrite Hc. reflexivity.
           ++ apply drop_files_in_tails.
        -- live_tac (mkInst id hn rd 0 false).
           ++ rewrite ?Hi. apply put_one. reflexivity.
           ++ lia.
           ++ discriminate.
      * cbn [fst]. live_tac (mkInst id hn rd (bg - 1) jn).
        -- rewrite ?Hi. apply put_one. reflexivity.
        -- intros Hjn. specialize (Hjb Hjn). rewrite Hjn in Ej. cbn [andb] in Ej. lia.
    + (* Flush *)
      unfold step. rewrite Hi, find_one. cbn [i_id]. destruct (id =? k) eqn:Ek; [apply N.eqb_eq in Ek; subst k | cbn [fst]; eapply InvLive; eauto].
      cbn [i_handles]. destruct (0 <? hn) eqn:Eh; cbn [fst]; [| eapply InvLive; eauto].
      destruct HL as [HLd HLr], HE as [HEd HEr].
      eapply (InvLive _ (mkInst id hn rd bg jn)); cbn [insts closing files next i_id i_joining i_bg data regs]; eauto.
      * split; cbn [data regs f_lock]; assumption.
      * split; cbn [data regs f_exists]; assumption.
    + (* ReleaseStep: nothing is closing *)
      unfold step. rewrite Hc. cbn [release_in fst]. eapply InvLive; eauto.
  - (* one instance being dropped *)
    assert (HLd : locks_are (files s) [Opener k] (held_by k (has FRegions fl))).
    { destruct HL as [HLd HLr]. split; [rewrite HLd; apply closing_data_held; assumption | exact HLr]. }
    destruct o; try (unfold step; rewrite ?Hi; cbn [find_inst fst]; eapply InvClosing; eassumption).
    + (* Open: refused at the data lock although `regions` may already be free *)
      rewrite (open_refused s min_len k _ HLd HE Hk). cbn [fst].
      eapply (InvClosing _ k fl); cbn [insts closing files next]; eauto. lia.
    + (* ReleaseStep *)
      rename k0 into k'. unfold step. rewrite Hc. cbn [release_in].
      destruct (k =? k') eqn:Ek; [apply N.eqb_eq in Ek; subst k' | cbn [fst]; eapply InvClosing; eassumption].
      destruct fl as [| f rest]; [exfalso; cbn in Hfl; repeat (destruct Hfl as [Hfl | Hfl]; [discriminate |]); contradiction |].
      pose proof (drop_files_nodup_head f rest Hfl) as Hnd.
      destruct HL as [HLk HLr], HE as [HEd HEr].
      destruct (tails_drop_files_step f rest Hfl) as [-> | Hrest].
      * (* last File closed: nobody holds anything *)
        cbn [fst]. apply InvIdle; cbn [insts closing files]; auto.
        unfold close. destruct f; cbn [get set data regs f_lock] in *; split; cbn [data regs f_lock];
          try rewrite HLk; try rewrite HLr; cbn [has existsb fileid_eqb orb held_by]; try apply unlock_self; reflexivity.
      * destruct rest as [| g rest']; [cbn in Hrest; repeat (destruct Hrest as [Hrest | Hrest]; [discriminate |]); contradiction |].
        cbn [fst]. eapply (InvClosing _ k (g :: rest')); cbn [insts closing files next]; eauto.
        -- unfold close. destruct f; cbn [has existsb fileid_eqb orb] in *; cbn [get set data regs f_lock];
             split; cbn [data regs f_lock]; try rewrite HLk; try rewrite HLr.
           ++ rewrite Hnd. cbn [orb held_by]. apply unlock_self.
           ++ reflexivity.
           ++ reflexivity.
           ++ rewrite Hnd. cbn [orb held_by]. apply unlock_self.
        -- unfold close. destruct f; cbn [get set data regs f_exists]; split; assumption.
Qed.

Lemma run_app s h1 h2 : run tl s (h1 ++ h2) = run tl (run tl s h1) h2.
Proof. unfold run. apply fold_left_app. Qed.
Lemma run_cons s o h : run tl s (o :: h) = run tl (fst (step tl s o)) h.
Proof. reflexivity. Qed.

Lemma Inv_run s h : Inv s -> Inv (run tl s h).
Proof. revert s. induction h as [| o h IH]; intros s HI; [exact HI |]. rewrite run_cons. apply IH, Inv_step, HI. Qed.

Lemma Inv_reachable x h : unlocked x -> Inv (run tl (init x) h).
Proof. intro H. apply Inv_run, Inv_init, H. Qed.

(* ---------------------------------------------------------------- the four theorems *)

(* at most one live Database instance per directory, in every reachable state; moreover a live
   instance and an instance still being dropped never coexist *)
Theorem exclusive : forall x h, unlocked x ->
  let s := run tl (init x) h in
  (length (insts s) + length (closing s) <= 1)%nat.
Proof.
  intros x h Hx s. pose proof (Inv_reachable x h Hx) as HI. fold s in HI.
  destruct HI as [Hi Hc _ | i Hi Hc _ _ _ _ _ | k fl Hi Hc _ _ _ _]; rewrite Hi, Hc; cbn; lia.
Qed.

(* while a holder is alive (live instance: some handle, reader, or a drop blocked on background
   tasks; or an instance whose Files are still being closed), every open — any min_len, in
   particular above the current size — returns Err(TryLock) at the data lock and leaves the whole
   file-system state (existence, lengths, contents, lock holders) and the instances untouched *)
Theorem refused_no_effect : forall x h m, unlocked x ->
  let s := run tl (init x) h in
  holder_alive s ->
  step tl s (Open m) =
    (mkSt (files s) (insts s) (closing s) (next s + 1),
     O_open_err (next s) FData (f_len (data (files s))) (f_len (regs (files s)))).
Proof.
  intros x h m Hx s Ha. pose proof (Inv_reachable x h Hx) as HI. fold s in HI.
  destruct HI as [Hi Hc _ | i Hi Hc HL HE Hk _ _ | k fl Hi Hc Hfl HL HE Hk].
  - destruct Ha as [Ha | Ha]; contradiction.
  - eapply open_refused; eauto.
  - eapply (open_refused s m k); eauto.
    destruct HL as [HLd HLr]. split; [rewrite HLd; apply closing_data_held; assumption | exact HLr].
Qed.

(* no reachable state lets an opener pass the data lock and fail the regions lock; the outcome of
   an open is decided at the data lock alone: refused there (no effect) iff a holder is alive *)
Theorem no_half_open : forall x h m, unlocked x ->
  let s := run tl (init x) h in
  match snd (open_files tl (Opener (next s)) m (files s)) with
  | RefusedAt FRegions => False
  | RefusedAt FData => holder_alive s /\ fst (open_files tl (Opener (next s)) m (files s)) = files s
  | Opened => ~ holder_alive s
  end.
Proof.
  intros x h m Hx s. pose proof (Inv_reachable x h Hx) as HI. fold s in HI.
  destruct HI as [Hi Hc HL | i Hi Hc HL HE Hk _ _ | k fl Hi Hc Hfl HL HE Hk].
  - pose proof (open_idle s m Hi Hc HL) as H. unfold step in H.
    destruct (open_files tl (Opener (next s)) m (files s)) as [x' out]. cbn [snd fst].
    destruct out as [| f]; [intros [Ha | Ha]; contradiction | inversion H].
  - pose proof (open_refused s m (i_id i) _ HL HE Hk) as H. unfold step in H.
    destruct (open_files tl (Opener (next s)) m (files s)) as [x' out]. cbn [snd fst].
    destruct out as [| f]; [inversion H |]. inversion H; subst. split; [left; rewrite Hi; discriminate | reflexivity].
  - assert (HLd : locks_are (files s) [Opener k] (held_by k (has FRegions fl))).
    { destruct HL as [HLd HLr]. split; [rewrite HLd; apply closing_data_held; assumption | exact HLr]. }
    pose proof (open_refused s m k _ HLd HE Hk) as H. unfold step in H.
    destruct (open_files tl (Opener (next s)) m (files s)) as [x' out]. cbn [snd fst].
    destruct out as [| f]; [inversion H |]. inversion H; subst. split; [right; rewrite Hc; discriminate | reflexivity].
Qed.

(* when nobody is left, an open succeeds, grows the data file to min_len if needed, and sees the
   content currently in the files *)
Lemma open_when_free : forall x h m, unlocked x ->
  let s := run tl (init x) h in
  ~ holder_alive s ->
  snd (step tl s (Open m)) =
    O_open_ok (next s) (grown (f_len (data (files s))) m) (f_len (regs (files s))) (f_content (data (files s))) /\
  insts (fst (step tl s (Open m))) = [mkInst (next s) 1 0 0 false].
Proof.
  intros x h m Hx s Hn. pose proof (Inv_reachable x h Hx) as HI. fold s in HI.
  destruct HI as [Hi Hc HL | i Hi Hc _ _ _ _ _ | k fl Hi Hc _ _ _ _].
  - rewrite (open_idle s m Hi Hc HL). split; reflexivity.
  - exfalso. apply Hn. left. rewrite Hi. discriminate.
  - exfalso. apply Hn. right. rewrite Hc. discriminate.
Qed.

Definition not_flush (o : op) : Prop := match o with Flush _ _ => False | _ => True end.

(* no operation other than a holder's flush changes the content of the data file — in particular
   no open, refused or successful, with any min_len *)
Lemma content_preserved s o : not_flush o -> f_content (data (files (fst (step tl s o)))) = f_content (data (files s)).
Proof.
  intro Hnf. destruct o; try contradiction; unfold step.
  - rewrite open_files_spec. cbn zeta.
    destruct (tl (f_lock (data (files s))) (Opener (next s))); [destruct (tl (f_lock (regs (files s))) (Opener (next s))) |]; reflexivity.
  - destruct (find_inst k (insts s)); [destruct (0 <? i_handles i) |]; reflexivity.
  - destruct (find_inst k (insts s)); reflexivity.
  - destruct (find_inst k (insts s)) as [i |]; [destruct (0 <? i_handles i) |]; try reflexivity.
    unfold drop_strong. destruct (strong i =? _); [destruct (i_bg i =? 0) |]; reflexivity.
  - destruct (find_inst k (insts s)); reflexivity.
  - destruct (find_inst k (insts s)) as [i |]; [destruct (0 <? i_readers i) |]; try reflexivity.
    unfold drop_strong. destruct (strong i =? _); [destruct (i_bg i =? 0) |]; reflexivity.
  - destruct (find_inst k (insts s)) as [i |]; [destruct ((0 <? i_handles i) && negb (i_joining i)) |]; reflexivity.
  - destruct (find_inst k (insts s)) as [i |]; [destruct (0 <? i_bg i) |]; try reflexivity.
    destruct (i_joining i && (i_bg i - 1 =? 0)); [destruct (strong _ =? 0) |]; reflexivity.
  - assert (G : forall cl x, f_content (data (snd (fst (release_in k cl x)))) = f_content (data x)).
    { induction cl as [| [k' fsl] r IH]; intro x0; cbn [release_in]; [reflexivity |].
      destruct (k' =? k).
      - destruct fsl as [| f rest]; [reflexivity |]. cbn [fst snd]. unfold close. destruct f; reflexivity.
      - specialize (IH x0). destruct (release_in k r x0) as [[r' x'] b]. exact IH. }
    specialize (G (closing s) (files s)). destruct (release_in k (closing s) (files s)) as [[cl x'] b].
    cbn [fst snd] in G. destruct b; cbn [fst files]; [exact G | reflexivity].
Qed.

Lemma content_preserved_run s h : Forall not_flush h -> f_content (data (files (run tl s h))) = f_content (data (files s)).
Proof.
  revert s. induction h as [| o h IH]; intros s HF; [reflexivity |].
  inversion HF; subst. rewrite run_cons, IH by assumption. apply content_preserved. assumption.
Qed.

(* once every handle, reader and background task of the holder is gone and its Files are closed,
   an open succeeds and sees exactly the content the holder flushed last — whatever happened in
   between (clones, readers, background tasks, refused opens with any min_len by any number of
   openers), as long as nobody flushed again *)
Theorem after_release : forall x h k c h2 m, unlocked x ->
  let s1 := run tl (init x) h in
  (exists i, find_inst k (insts s1) = Some i /\ 0 < i_handles i) ->
  Forall not_flush h2 ->
  let s2 := run tl (init x) (h ++ Flush k c :: h2) in
  ~ holder_alive s2 ->
  snd (step tl s2 (Open m)) =
    O_open_ok (next s2) (grown (f_len (data (files s2))) m) (f_len (regs (files s2))) (Some c) /\
  insts (fst (step tl s2 (Open m))) = [mkInst (next s2) 1 0 0 false].
Proof.
  intros x h k c h2 m Hx s1 [i [Hf Hh]] Hnf s2 Hn.
  destruct (open_when_free x (h ++ Flush k c :: h2) m Hx Hn) as [Ho Hi]. fold s2 in Ho, Hi.
  split; [| exact Hi]. rewrite Ho. f_equal.
  unfold s2. rewrite run_app, run_cons. fold s1. rewrite content_preserved_run by assumption.
  unfold step. rewrite Hf. apply N.ltb_lt in Hh. rewrite Hh. reflexivity.
Qed.

End Proofs.

(* ---------------------------------------------------------------- the hypotheses are satisfiable *)

Lemma flock_impl_ok :
  (forall holders me, (exists o, In o holders /\ o <> me) -> flock_impl holders me = false) /\
  (forall holders me, (forall o, In o holders -> o = me) -> flock_impl holders me = true).
Proof.
  split; intros holders me H; unfold flock_impl.
  - destruct H as [o [Hin Hne]]. destruct (forallb _ holders) eqn:E; [| reflexivity].
    rewrite forallb_forall in E. specialize (E o Hin). apply owner_eqb_eq in E. contradiction.
  - apply forallb_forall. intros o Hin. apply owner_eqb_eq. apply H, Hin.
Qed.

(* a non-trivial reachable history: open (grows the file), flush, a reader and a background task
   outlive the last handle, a second opener is refused, then everything goes away and a third
   opener gets in and sees the flushed content *)
Definition example_history : list op :=
  [Open 100; Flush 0 7; MkReader 0; SpawnBg 0; DropHandle 0; Open 5000000; DropReader 0; Open 5000000;
   FinishBg 0; Open 9; ReleaseStep 0; Open 9; ReleaseStep 0; Open 2000000].

Example example_obs :
  run_obs flock_impl (init fresh) example_history =
  [O_open_ok 0 100 0 None; O_flushed; O_ok; O_ok; O_ok; O_open_err 1 FData GROW_FLOOR SIZE_OF_REGION_METADATA;
   O_joining; O_open_err 2 FData GROW_FLOOR SIZE_OF_REGION_METADATA; O_released;
   O_open_err 3 FData GROW_FLOOR SIZE_OF_REGION_METADATA; O_ok; O_open_err 4 FData GROW_FLOOR SIZE_OF_REGION_METADATA; O_ok;
   O_open_ok 5 2000000 SIZE_OF_REGION_METADATA (Some 7)].
Proof. vm_compute. reflexivity. Qed.

(* ---------------------------------------------------------------- closed statements (oracle as a premise) *)
(* THE ASSUMED KERNEL RULE, as one predicate on the oracle (trusted base of C18) *)
Definition flock_rule (tl : list owner -> owner -> bool) : Prop :=
  (forall holders me, (exists o, In o holders /\ o <> me) -> tl holders me = false) /\
  (forall holders me, (forall o, In o holders -> o = me) -> tl holders me = true).

Lemma exclusive_thm : forall tl, flock_rule tl -> forall x h, unlocked x ->
  (length (insts (run tl (init x) h)) + length (closing (run tl (init x) h)) <= 1)%nat.
Proof. intros tl [He Hf] x h Hx. exact (exclusive tl He Hf x h Hx). Qed.

Lemma refused_no_effect_thm : forall tl, flock_rule tl -> forall x h m, unlocked x ->
  holder_alive (run tl (init x) h) ->
  step tl (run tl (init x) h) (Open m) =
    (mkSt (files (run tl (init x) h)) (insts (run tl (init x) h)) (closing (run tl (init x) h)) (next (run tl (init x) h) + 1),
     O_open_err (next (run tl (init x) h)) FData
       (f_len (data (files (run tl (init x) h)))) (f_len (regs (files (run tl (init x) h))))).
Proof. intros tl [He Hf] x h m Hx Ha. exact (refused_no_effect tl He Hf x h m Hx Ha). Qed.

Lemma no_half_open_thm : forall tl, flock_rule tl -> forall x h m, unlocked x ->
  match snd (open_files tl (Opener (next (run tl (init x) h))) m (files (run tl (init x) h))) with
  | RefusedAt FRegions => False
  | RefusedAt FData =>
      holder_alive (run tl (init x) h) /\
      fst (open_files tl (Opener (next (run tl (init x) h))) m (files (run tl (init x) h))) = files (run tl (init x) h)
  | Opened => ~ holder_alive (run tl (init x) h)
  end.
Proof. intros tl [He Hf] x h m Hx. exact (no_half_open tl He Hf x h m Hx). Qed.

Lemma after_release_thm : forall tl, flock_rule tl -> forall x h k c h2 m, unlocked x ->
  (exists i, find_inst k (insts (run tl (init x) h)) = Some i /\ 0 < i_handles i) ->
  Forall not_flush h2 ->
  ~ holder_alive (run tl (init x) (h ++ Flush k c :: h2)) ->
  snd (step tl (run tl (init x) (h ++ Flush k c :: h2)) (Open m)) =
    O_open_ok (next (run tl (init x) (h ++ Flush k c :: h2)))
      (grown (f_len (data (files (run tl (init x) (h ++ Flush k c :: h2))))) m)
      (f_len (regs (files (run tl (init x) (h ++ Flush k c :: h2))))) (Some c) /\
  insts (fst (step tl (run tl (init x) (h ++ Flush k c :: h2)) (Open m))) =
    [mkInst (next (run tl (init x) (h ++ Flush k c :: h2))) 1 0 0 false].
Proof. intros tl [He Hf] x h k c h2 m Hx Hl Hn Ha. exact (after_release tl He Hf x h k c h2 m Hx Hl Hn Ha). Qed.

Lemma open_when_free_thm : forall tl, flock_rule tl -> forall x h m, unlocked x ->
  ~ holder_alive (run tl (init x) h) ->
  snd (step tl (run tl (init x) h) (Open m)) =
    O_open_ok (next (run tl (init x) h)) (grown (f_len (data (files (run tl (init x) h)))) m)
      (f_len (regs (files (run tl (init x) h)))) (f_content (data (files (run tl (init x) h)))) /\
  insts (fst (step tl (run tl (init x) h) (Open m))) = [mkInst (next (run tl (init x) h)) 1 0 0 false].
Proof. intros tl [He Hf] x h m Hx Hn. exact (open_when_free tl He Hf x h m Hx Hn). Qed.

Lemma flock_rule_satisfiable : flock_rule flock_impl.
Proof. exact flock_impl_ok. Qed.

