(* Rawdb/AllocDisciplinedSync.v — tie between the allocator model and the crash monitor, part 3
   (proof file): create_region_if_needed and Database::flush (the three paths: dirty regions;
   no dirty region but pending holes = metadata sync before the promotion, fix f53a575; nothing
   to do). *)
From Anydb Require Import Common.Base Gen.Consts Rawdb.AMap Rawdb.Alloc Rawdb.AllocSpec Rawdb.AllocInv
  Rawdb.AllocFacts Rawdb.AMapFacts Rawdb.CoverFacts Rawdb.AllocErr Rawdb.AllocNoPanic Rawdb.InvLayout Rawdb.InvCreate
  Rawdb.CompactFacts Rawdb.AllocRefineC Rawdb.InvStep
  Rawdb.Crash Rawdb.CrashFacts Rawdb.CrashInv Rawdb.CrashSound Rawdb.AllocEvents Rawdb.AllocDisciplined
  Rawdb.AllocDisciplinedOps.

(* ---- create ------------------------------------------------------------------------------------------------ *)
Lemma MS_create s s' i m' ids :
  Inv s -> slot s i = None -> file_len s <= file_len s' -> pend s' = pend s ->
  (forall j, slot s' j = if j =? i then Some m' else slot s j) -> (forall j, rf s' j = rf s j) -> r_len m' = 0 ->
  MS s s' ids [] i None.
Proof.
  intros HI Hs Hlen Hp Hsl Hrf Hl0.
  assert (Hrfi : rf s i = None) by (pose proof (rf_mirror s i HI) as R; rewrite Hs in R; exact R).
  constructor.
  - exact Hlen.
  - intros j Hne. split; [|apply Hrf]. rewrite Hsl. destruct (j =? i) eqn:E; [lia|reflexivity].
  - intros p z. rewrite Hp. auto.
  - intros mi a Hs0. rewrite Hs in Hs0. discriminate.
  - intros v Hv. congruence.
  - intros off len f [].
  - intros mi' Hs0 _. rewrite Hsl, N.eqb_refl in Hs0. injection Hs0 as <-. left. exact Hl0.
  - split; [apply Hrf|]. intros mi Hs0. rewrite Hs in Hs0. discriminate.
Qed.

Lemma rf_pad (l : list (option slotrec)) k n :
  match nth_opt (l ++ repeat None k) n with Some (Some v) => Some v | _ => None end
  = match nth_opt l n with Some (Some v) => Some v | _ => @None slotrec end.
Proof.
  revert n. induction l as [|h t IH]; intros n; cbn [app].
  - replace (match nth_opt (@nil (option slotrec)) n with Some (Some v) => Some v | _ => None end) with (@None slotrec)
      by (destruct n; reflexivity).
    revert n. induction k as [|k IHk]; intros [|n]; cbn [repeat nth_opt]; auto.
  - destruct n as [|n]; cbn [nth_opt]; [reflexivity|apply IH].
Qed.

Lemma create_cases2 s id hold :
  Inv s -> create s id hold <> APanic -> find_id s id = None ->
  exists s2 start, slots s2 = slots s /\ rfile s2 = rfile s /\ pend s2 = pend s
    /\ file_len s2 = file_len (match find_hole s PAGE_SIZE with
                               | None => set_min_len s (layout_len s + PAGE_SIZE) | Some _ => s end)
    /\ create s id hold = create_tail s2 start id.
Proof.
  intros HI Hnp Ef0. unfold create in *. cbv zeta in *.
  set (s0 := if hold then set_held s (id :: held s) else s) in *.
  assert (Hh : h2s_agrees s0) by (subst s0; destruct hold; exact (inv_h2s s HI)).
  assert (Hso : asorted (h2s s0)) by (subst s0; destruct hold; exact (proj2 (proj2 (proj2 (proj2 (inv_sorted s HI)))))).
  assert (Z : slots s0 = slots s /\ rfile s0 = rfile s /\ pend s0 = pend s /\ file_len s0 = file_len s
              /\ find_hole s0 PAGE_SIZE = find_hole s PAGE_SIZE /\ layout_len s0 = layout_len s)
    by (subst s0; destruct hold; repeat split).
  destruct Z as (Z1 & Z2 & Z3 & Z4 & Z5 & Z6).
  assert (Hfid : find_id s0 id = None) by (unfold find_id; rewrite Z1; exact Ef0).
  clearbody s0. rewrite Hfid in *. rewrite <- Z5.
  destruct (find_hole s0 PAGE_SIZE) as [a|] eqn:Efh.
  - destruct (find_hole_spec s0 _ _ Hh Hso Efh) as (z & Hz & Hle). rewrite ?Efh in *.
    destruct (remove_or_compress_hole s0 a PAGE_SIZE) as [s1| |] eqn:Er; cbn [abind] in *.
    + apply roc_shape in Er. destruct Er as (H & Q & ->). exists (set_holes s0 H Q), a.
      split; [exact Z1|]. split; [exact Z2|]. split; [exact Z3|]. split; [exact Z4|reflexivity].
    + exfalso. eapply roc_no_err; eauto.
    + congruence.
  - rewrite find_hole_set_min_len, Efh in *. cbn [abind] in *.
    exists (set_min_len s0 (layout_len s0 + PAGE_SIZE)), (layout_len (set_min_len s0 (layout_len s0 + PAGE_SIZE))).
    destruct (set_min_len_shape s0 (layout_len s0 + PAGE_SIZE)) as (fl & Esh & _).
    split; [rewrite Esh; exact Z1|]. split; [rewrite Esh; exact Z2|]. split; [rewrite Esh; exact Z3|].
    split; [|reflexivity].
    rewrite Z6. unfold set_min_len. rewrite Z4. destruct (_ <=? _); cbn [file_len set_file_len]; [exact Z4|reflexivity].
Qed.

Lemma ok_create orc s m id hold : Inv s -> K m -> Cpl s m -> step_ok orc s (Create id hold) m.
Proof.
  intros HI HK HC. pose proof (create_no_panic s id hold HI) as Hnp.
  destruct (find_id s id) as [i0|] eqn:Ef.
  - (* the region exists *)
    assert (Estep : step s (Create id hold) = AOk (if hold then set_held s (id :: held s) else s, OUnit)).
    { cbn [step]. unfold create.
      replace (find_id (if hold then set_held s (id :: held s) else s) id) with (find_id s id)
        by (destruct hold; reflexivity).
      rewrite Ef. reflexivity. }
    apply (ok_idle orc s _ m (if hold then set_held s (id :: held s) else s)); auto; try (destruct hold; reflexivity).
    + unfold step_total. rewrite Estep. reflexivity.
    + unfold step_events_o, closer. rewrite Estep. cbn [body_events op_ids]. rewrite Ef. reflexivity.
  - destruct (create_cases2 s id hold HI Hnp Ef) as (s2 & start & Y1 & Y2 & Y3 & Y4 & Hc).
    destruct (create_tail s2 start id) as [[s4 r]|s4 e|] eqn:Et.
    2:{ exfalso. unfold create_tail in Et. cbv zeta in Et. destruct (layout_insert_region _ _ _); discriminate. }
    2:{ congruence. }
    assert (Estep : step s (Create id hold) = AOk (s4, r)) by (cbn [step]; rewrite Hc; reflexivity).
    unfold create_tail in Et. cbv zeta in Et. rewrite Y1, Y2 in Et.
    set (i := first_free (slots s) 0) in *.
    set (mn := mkR start NEW_REGION_LEN NEW_REGION_RESERVED id ST_WRITE u64_max 0) in *.
    set (rfl := if len (rfile s) <? i + 1 then rfile s ++ repeat None (N.to_nat (i + 1 - len (rfile s))) else rfile s) in *.
    unfold layout_insert_region in Et. destruct (aget start _); [discriminate|]. injection Et as <- <-.
    assert (Hslot2 : forall j, slot s2 j = slot s j) by (intros j; unfold slot; now rewrite Y1).
    match type of Estep with _ = AOk (?x, _) => set (s4 := x) in * end.
    apply (ok_by_ms orc s _ m [id] s4 [] i None HI HK HC).
    + unfold step_total. rewrite Estep. reflexivity.
    + unfold step_events_o, closer. rewrite Estep. cbn [body_events op_ids]. rewrite Ef.
      unfold meta_step_events. unfold s4. cbn [file_len set_s2r put_slot set_slots set_rfile]. rewrite Y4.
      destruct (find_hole s PAGE_SIZE); [rewrite N.eqb_refl; reflexivity|]. reflexivity.
    + apply (MS_create s s4 i mn [id]).
      * exact HI.
      * apply slot_first_free.
      * unfold s4. cbn [file_len set_s2r put_slot set_slots set_rfile]. rewrite Y4.
        destruct (find_hole s PAGE_SIZE); [lia|apply set_min_len_ge].
      * unfold s4. cbn [pend set_s2r put_slot set_slots set_rfile]. exact Y3.
      * intros j. unfold s4. rewrite slot_set_s2r, slot_put_slot, slot_set_rfile, Hslot2. reflexivity.
      * intros j. unfold rf, get, s4. cbn [rfile set_s2r put_slot set_slots set_rfile]. unfold rfl.
        destruct (len (rfile s) <? i + 1); [apply rf_pad|reflexivity].
      * reflexivity.
Qed.

(* ---- Database::flush --------------------------------------------------------------------------------------- *)
Lemma flush_obs s :
  exists g, InvFlush.meta_ok g
    /\ (flush_dirty s = [] -> forall m, m_is_dirty m = false -> g m = m)
    /\ (forall j, slot (fst (flush s)) j = option_map g (slot s j))
    /\ rfile (fst (flush s)) = rfile s /\ file_len (fst (flush s)) = file_len s /\ pend (fst (flush s)) = [].
Proof.
  assert (Hcommon : forall g n, flush s = (promote (set_slots s (map (InvFlush.lift g) (slots s))), n) ->
            (forall j, slot (fst (flush s)) j = option_map g (slot s j))
            /\ rfile (fst (flush s)) = rfile s /\ file_len (fst (flush s)) = file_len s /\ pend (fst (flush s)) = []).
  { intros g n E. rewrite E. cbn [fst]. split; [|split; [|split]].
    - intros j. rewrite promote_slot. apply InvFlush.slot_map_lift.
    - rewrite promote_rfile. reflexivity.
    - rewrite promote_file_len. reflexivity.
    - apply promote_pend. }
  unfold flush_dirty. destruct (filter _ (slots s)) as [|x l] eqn:Ed.
  - exists m_clear_dirty. split; [apply InvFlush.meta_ok_clear_dirty|]. split.
    + intros _ m Hm. unfold m_clear_dirty. rewrite Hm. reflexivity.
    + apply (Hcommon m_clear_dirty 0). unfold flush. rewrite Ed. reflexivity.
  - exists InvFlush.flush_clean. split; [apply InvFlush.meta_ok_flush_clean|]. split; [discriminate|].
    apply (Hcommon InvFlush.flush_clean (len (x :: l))). unfold flush. rewrite Ed. cbv zeta.
    apply (f_equal (fun v => (promote (set_slots s v), len (x :: l)))).
    apply map_ext. intros [m|]; [|reflexivity].
    unfold InvFlush.lift, InvFlush.flush_clean. destruct (flush_region_is_dirty m); reflexivity.
Qed.

Lemma no_dirty s i mi : flush_dirty s = [] -> slot s i = Some mi -> flush_region_is_dirty mi = false.
Proof.
  intros Hd Hs. destruct (flush_region_is_dirty mi) eqn:E; [|reflexivity]. exfalso.
  assert (Hin : In (Some mi) (flush_dirty s)).
  { unfold flush_dirty. apply filter_In. split; [apply (slot_in_slots s i mi Hs)|exact E]. }
  rewrite Hd in Hin. destruct Hin.
Qed.

Lemma no_dirty_is_dirty s i mi : flush_dirty s = [] -> slot s i = Some mi -> m_is_dirty mi = false.
Proof.
  intros Hd Hs. pose proof (no_dirty s i mi Hd Hs) as H. unfold flush_region_is_dirty in H.
  apply orb_false_iff in H. tauto.
Qed.

Lemma metasync_ok_nil m : m_pdata m = [] -> metasync_ok m = true.
Proof.
  intros H. unfold metasync_ok. apply forallb_forall. intros [k [v|]] _; cbn [snd]; [rewrite H|]; reflexivity.
Qed.

(* a live entry of the map that a metadata sync makes durable is the volatile version of a slot
   that has a pending write *)
Lemma latest_some l k v d :
  In (k, Some v) (latest_pend l []) -> (exists x, In (k, x) l) /\ last (d :: pend_of l k) None = Some v.
Proof.
  intros Hin.
  assert (Hnd : NoDup (map fst (latest_pend l []))) by (apply latest_pend_nodup; constructor).
  pose proof (assoc_get_nodup k (Some v) _ Hnd Hin) as Hg.
  pose proof (latest_pend_get l [] k) as Hl. unfold dur_get at 1 in Hl. rewrite Hg in Hl.
  destruct (pend_of l k) as [|p rest] eqn:Ep.
  - cbn in Hl. discriminate.
  - split.
    + exists p. apply in_pend_of. rewrite Ep. left. reflexivity.
    + rewrite last_cons2. rewrite last_cons2 in Hl. symmetry. exact Hl.
Qed.

Lemma dur_get_latest m j : dur_get (latest_pend (m_pend m) (m_dur m)) j = vol_of m j.
Proof. rewrite latest_pend_get. reflexivity. Qed.

Section Flush.
  Variables (s : st) (m : mon).
  Hypotheses (HI : Inv s) (HK : K m) (HC : Cpl s m).

  Lemma vol_region j w :
    vol_of m j = Some w -> exists mj, slot s j = Some mj /\ r_state mj <> ST_WRITE /\ rec_of mj = w.
  Proof. intros H. rewrite (c_vol s m HC) in H. apply (rf_some_slot s j w HI H). Qed.

  (* no dirty region: nothing is pending whose latest version is live, and no unsynced data range
     hits the content of a version that a sync would make (or has made) durable *)
  Lemma nodirty_metasync_ok : flush_dirty s = [] -> metasync_ok m = true.
  Proof.
    intros Hd. unfold metasync_ok. apply forallb_forall. intros [k [v|]] Hin; [exfalso|reflexivity].
    destruct (latest_some _ k v (dur_get (m_dur m) k) Hin) as ((x & Hx) & Hl).
    assert (Hv : vol_of m k = Some v) by (unfold vol_of; rewrite possible_eq; exact Hl).
    destruct (c_pend s m HC k x Hx) as [(mk & Hs & Hst)|[Hn _]].
    - pose proof (no_dirty s k mk Hd Hs) as Hf. unfold flush_region_is_dirty in Hf. rewrite Hst in Hf.
      apply orb_false_iff in Hf. destruct Hf as [_ Hf]. discriminate.
    - rewrite (c_vol s m HC) in Hv. congruence.
  Qed.

  Lemma nodirty_m6 D :
    flush_dirty s = [] -> NoDup (map fst D) -> (forall i, dur_get D i = vol_of m i) ->
    forallb (fun p => forallb (fun r => let '(off, len, _) := r in
                                        disjoint off len (sr_start (snd p)) (sr_len (snd p))) (m_pdata m))
            (flat_map (fun p => match snd p with Some v => [(fst p, v)] | None => [] end) D) = true.
  Proof.
    intros Hd Hnd Hdv. apply forallb_forall. intros [i w] Hin. apply forallb_forall. intros [[off len] f] Hx.
    cbn [snd].
    apply (live_durable_in (mkMon D [] [] (fun _ => 0) (fun _ => 0) 0 [] None []) i w) in Hin. cbn [m_dur] in Hin.
    assert (Hv : vol_of m i = Some w).
    { rewrite <- Hdv. unfold dur_get. rewrite (assoc_get_nodup i (Some w) D Hnd Hin). reflexivity. }
    destruct (vol_region i w Hv) as (mi & Hs & _ & Hrec). subst w.
    exact (c_pdata s m HC off len f i mi Hx Hs (no_dirty_is_dirty s i mi Hd Hs)).
  Qed.

  Lemma cpl_after_sync s' g mF fm :
    InvFlush.meta_ok g ->
    (forall j, slot s' j = option_map g (slot s j)) -> rfile s' = rfile s -> file_len s' = file_len s -> pend s' = [] ->
    m_len mF = m_len m -> m_cur mF = [] -> NoDup (map fst (m_dur mF)) ->
    (forall j, dur_get (m_dur mF) j = vol_of m j) -> m_pend mF = [] ->
    m_flushed mF = Some (live_durable mF, fm) -> m_touched mF = [] ->
    (forall off len f j mj', In (off, len, f) (m_pdata mF) -> slot s' j = Some mj' -> m_is_dirty mj' = false ->
       disjoint off len (r_start mj') (r_len mj') = true) ->
    Cpl s' mF.
  Proof.
    intros Hg Hsl Hrf Hfl Hpe F1 F2 F3 F4 F5 F6 F7 F8.
    assert (Hposs : forall j, possible mF j = [vol_of m j]).
    { intros j. rewrite possible_eq, F5, F4. reflexivity. }
    assert (Hrf' : forall j, rf s' j = rf s j) by (intros j; unfold rf; rewrite Hrf; reflexivity).
    constructor.
    - rewrite F1, Hfl. apply (c_len s m HC).
    - exact F2.
    - intros j. unfold vol_of. rewrite Hposs. cbn [last]. rewrite Hrf'. apply (c_vol s m HC).
    - intros j w a Hw Ha. rewrite Hposs in Hw. destruct Hw as [Hw|[]].
      destruct (vol_region j w Hw) as (mj & Hs & Hst & Hrec). subst w. left.
      destruct (Hg mj) as (G1 & _ & G3 & _ & _ & G6).
      exists (g mj). split; [rewrite Hsl, Hs; reflexivity|]. split; [apply G6; exact Hst|].
      unfold rec_of, sr_start, sr_reserved in Ha. rewrite G1, G3. exact Ha.
    - rewrite F6. intros i w Hga _. apply assoc_get_in in Hga. apply live_durable_in in Hga.
      rewrite Hrf', <- (c_vol s m HC), <- F4. unfold dur_get. rewrite (assoc_get_nodup i (Some w) _ F3 Hga). reflexivity.
    - rewrite F5. intros i v [].
    - exact F8.
  Qed.

  Theorem ok_flush orc : step_ok orc s Flush m.
  Proof.
    unfold step_ok.
    assert (Est : fst (step_total s Flush) = fst (flush s)).
    { unfold step_total. cbn [step]. destruct (flush s); reflexivity. }
    assert (Eev : step_events_o orc s Flush = COp [] :: flush_events s ++ [CFlushed]).
    { unfold step_events_o, closer. cbn [step op_ids body_events]. destruct (flush s); reflexivity. }
    rewrite Est, Eev.
    destruct (flush_obs s) as (g & Hg & Hgid & Hsl & Hrf & Hfl & Hpe).
    pose proof (c_cur s m HC) as Hcur.
    rewrite mon_run_cons. cbn [mon_step fst snd app].
    unfold flush_events. destruct (flush_dirty s) as [|x l] eqn:Ed.
    - (* no dirty region *)
      assert (Hpd : forall off len f j mj', In (off, len, f) (m_pdata m) -> slot (fst (flush s)) j = Some mj' ->
                      m_is_dirty mj' = false -> disjoint off len (r_start mj') (r_len mj') = true).
      { intros off len f j mj' Hx Hs' Hnd. rewrite Hsl in Hs'. destruct (slot s j) as [mj|] eqn:Hs; [|discriminate].
        cbn [option_map] in Hs'. pose proof (no_dirty_is_dirty s j mj Ed Hs) as Hnd0.
        rewrite (Hgid eq_refl mj Hnd0) in Hs'. injection Hs' as <-.
        exact (c_pdata s m HC off len f j mj Hx Hs Hnd0). }
      destruct (pend s) as [|p t] eqn:Ep; cbn [app].
      + (* nothing pending either: no sync *)
        assert (Hmp : m_pend m = []).
        { destruct (m_pend m) as [|[k v] r] eqn:E; [reflexivity|exfalso].
          destruct (c_pend s m HC k v) as [(mk & Hs & Hst)|[_ Hne]]; [rewrite E; left; reflexivity| |congruence].
          pose proof (no_dirty s k mk Ed Hs) as Hf. unfold flush_region_is_dirty in Hf. rewrite Hst in Hf.
          apply orb_false_iff in Hf. destruct Hf as [_ Hf]. discriminate. }
        assert (Hdv : forall i, dur_get (m_dur m) i = vol_of m i).
        { intros i. unfold vol_of. rewrite possible_eq, Hmp. reflexivity. }
        rewrite mon_run_cons. cbn [mon_step fst snd]. rewrite mon_run_cons. cbn [mon_step fst snd m_pend].
        rewrite Hmp. unfold live_durable. cbn [m_dur m_pdata].
        rewrite (nodirty_m6 (m_dur m) Ed (k_nodup m HK) Hdv). cbn [mon_run fst snd]. split; [reflexivity|].
        eapply (cpl_after_sync (fst (flush s)) g); try eassumption; cbn [m_len m_cur m_dur m_pend m_flushed m_touched m_pdata];
          try reflexivity; try assumption.
        * exact (k_nodup m HK).
      + (* pending holes: the regions file is synced before the promotion *)
        rewrite mon_run_cons. cbn [mon_step fst snd].
        match goal with |- context [metasync_ok ?X] => change (metasync_ok X) with (metasync_ok m) end.
        rewrite (nodirty_metasync_ok Ed).
        rewrite mon_run_cons. cbn [mon_step fst snd]. rewrite mon_run_cons. cbn [mon_step fst snd m_pend].
        unfold live_durable. cbn [m_dur m_pdata].
        rewrite (nodirty_m6 (latest_pend (m_pend m) (m_dur m)) Ed (latest_pend_nodup _ _ (k_nodup m HK)) (dur_get_latest m)).
        cbn [mon_run fst snd]. split; [reflexivity|].
        eapply (cpl_after_sync (fst (flush s)) g); try eassumption; cbn [m_len m_cur m_dur m_pend m_flushed m_touched m_pdata];
          try reflexivity; try assumption.
        * apply latest_pend_nodup. exact (k_nodup m HK).
        * apply dur_get_latest.
    - (* dirty regions: data sync, metadata sync, promotion *)
      cbn [app]. rewrite mon_run_cons. cbn [mon_step fst snd]. rewrite mon_run_cons. cbn [mon_step fst snd m_dur m_pend m_pdata].
      rewrite metasync_ok_nil by reflexivity.
      rewrite mon_run_cons. cbn [mon_step fst snd]. rewrite mon_run_cons. cbn [mon_step fst snd m_pend m_pdata].
      replace (forallb _ (live_durable _)) with true by (symmetry; apply forallb_forall; intros; reflexivity).
      cbn [mon_run fst snd]. split; [reflexivity|].
      eapply (cpl_after_sync (fst (flush s)) g); try eassumption; cbn [m_len m_cur m_dur m_pend m_flushed m_touched m_pdata];
        try reflexivity; try assumption.
      + apply latest_pend_nodup. exact (k_nodup m HK).
      + apply dur_get_latest.
      + intros off len f j mj' [].
  Qed.
End Flush.
