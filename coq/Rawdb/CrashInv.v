(* Rawdb/CrashInv.v — the general invariant K of the crash monitor (proof file).
   K holds in every monitor state reached with all checks true:
   K1  possibly-durable versions of DIFFERENT slots have disjoint extents [start, start+reserved);
   K5  every possibly-durable version is a valid slot record inside the data file;
   plus bookkeeping: unique keys of m_dur, "a volatile byte is the durable one or the value of a
   pending data range covering it", and m_cur ⊆ m_touched.  Consequence: C05_os_layout. *)
From Anydb Require Import Common.Base Gen.Consts Rawdb.AMap Rawdb.Alloc Rawdb.Crash Rawdb.CrashFacts.

Ltac mcbn := cbn [mon_step fst snd m_dur m_pend m_pdata m_dmem m_vmem m_len m_cur m_flushed m_touched] in *.

(* ---- association lists ------------------------------------------------------------------------ *)
Lemma assoc_get_set {V} k k' (v : V) l :
  assoc_get k' (assoc_set k v l) = if k =? k' then Some v else assoc_get k' l.
Proof.
  induction l as [|[a b] t IH]; cbn [assoc_set assoc_get].
  - destruct (k =? k'); reflexivity.
  - destruct (a =? k) eqn:E; cbn [assoc_get].
    + destruct (k =? k') eqn:E2; [reflexivity|].
      assert (H : a =? k' = false) by lia. rewrite H. reflexivity.
    + destruct (a =? k') eqn:E3.
      * assert (H : k =? k' = false) by lia. rewrite H. reflexivity.
      * exact IH.
Qed.

Lemma assoc_get_in {V} k (v : V) l : assoc_get k l = Some v -> In (k, v) l.
Proof.
  induction l as [|[a b] t IH]; cbn [assoc_get]; [discriminate|].
  destruct (a =? k) eqn:E; intros H.
  - injection H as ->. left. f_equal. lia.
  - right. auto.
Qed.

Lemma assoc_set_keys {V} k (v : V) l x :
  In x (map fst (assoc_set k v l)) <-> x = k \/ In x (map fst l).
Proof.
  induction l as [|[a b] t IH]; cbn [assoc_set map fst In].
  - intuition.
  - destruct (a =? k) eqn:E; cbn [map fst In].
    + assert (a = k) by lia. subst. intuition.
    + rewrite IH. intuition.
Qed.

Lemma assoc_set_nodup {V} k (v : V) l : NoDup (map fst l) -> NoDup (map fst (assoc_set k v l)).
Proof.
  induction l as [|[a b] t IH]; cbn [assoc_set map fst]; intros ND.
  - constructor; [intros []|constructor].
  - inversion ND as [|? ? Hn ND']; subst.
    destruct (a =? k) eqn:E; cbn [map fst].
    + assert (a = k) by lia. subst. constructor; assumption.
    + constructor; [|auto]. rewrite assoc_set_keys. intros [->|H]; [lia|auto].
Qed.

Lemma assoc_get_nodup {V} k (v : V) l : NoDup (map fst l) -> In (k, v) l -> assoc_get k l = Some v.
Proof.
  induction l as [|[a b] t IH]; cbn [map fst In assoc_get]; intros ND H; [tauto|].
  inversion ND as [|? ? Hn ND']; subst. destruct H as [H|H].
  - injection H as -> ->. rewrite N.eqb_refl. reflexivity.
  - destruct (a =? k) eqn:E.
    + exfalso. apply Hn. assert (a = k) by lia. subst. apply (in_map fst) in H. exact H.
    + auto.
Qed.

(* ---- versions ---------------------------------------------------------------------------------- *)
Definition dur_get (l : list (N * option slotrec)) (i : N) : option slotrec :=
  match assoc_get i l with Some v => v | None => None end.
Definition pend_of (l : list (N * option slotrec)) (i : N) : list (option slotrec) :=
  map snd (filter (fun p => fst p =? i) l).
(* the volatile (latest) version of a slot *)
Definition vol_of (m : mon) (i : N) : option slotrec := last (possible m i) None.

Lemma possible_eq m i : possible m i = dur_get (m_dur m) i :: pend_of (m_pend m) i.
Proof. reflexivity. Qed.

Lemma pend_of_app l1 l2 i : pend_of (l1 ++ l2) i = pend_of l1 i ++ pend_of l2 i.
Proof. unfold pend_of. rewrite filter_app, map_app. reflexivity. Qed.

Lemma pend_of_one j v i : pend_of [(j, v)] i = if j =? i then [v] else [].
Proof. unfold pend_of. cbn [filter fst]. destruct (j =? i); reflexivity. Qed.

Lemma in_pend_of l i v : In v (pend_of l i) <-> In (i, v) l.
Proof.
  unfold pend_of. rewrite in_map_iff. split.
  - intros ([j x] & Hs & Hf). apply filter_In in Hf. cbn [fst snd] in *. destruct Hf as [Hin He].
    subst. assert (j = i) by lia. subst. exact Hin.
  - intros H. exists (i, v). split; [reflexivity|]. apply filter_In. split; [exact H|]. cbn [fst]. lia.
Qed.

Lemma last_cons2 {A} (a b : A) l d : last (a :: b :: l) d = last (b :: l) d.
Proof. reflexivity. Qed.

Lemma last_in {A} (a : A) l d : In (last (a :: l) d) (a :: l).
Proof.
  revert a. induction l as [|b t IH]; intros a.
  - left. reflexivity.
  - rewrite last_cons2. right. apply IH.
Qed.

Lemma latest_pend_get l acc i :
  dur_get (latest_pend l acc) i = last (dur_get acc i :: pend_of l i) None.
Proof.
  revert acc. induction l as [|[j v] t IH]; intros acc; cbn [latest_pend].
  - reflexivity.
  - rewrite IH. change ((j, v) :: t) with ([(j, v)] ++ t). rewrite pend_of_app, pend_of_one.
    unfold dur_get at 1. rewrite assoc_get_set.
    destruct (j =? i); cbn [app]; reflexivity.
Qed.

Lemma latest_pend_nodup l acc : NoDup (map fst acc) -> NoDup (map fst (latest_pend l acc)).
Proof.
  revert acc. induction l as [|[j v] t IH]; intros acc H; cbn [latest_pend]; [exact H|].
  apply IH. apply assoc_set_nodup. exact H.
Qed.

Lemma dur_after_metasync m i : dur_of (fst (mon_step m CMetaSync)) i = vol_of m i.
Proof. mcbn. unfold dur_of. mcbn. apply (latest_pend_get (m_pend m) (m_dur m) i). Qed.

Lemma vol_in_possible m i : In (vol_of m i) (possible m i).
Proof. unfold vol_of. rewrite possible_eq. apply last_in. Qed.

Lemma in_possible_all_slots m i v : In (Some v) (possible m i) -> In i (all_slots m).
Proof.
  rewrite possible_eq. unfold all_slots. rewrite nodup_In, in_app_iff. intros [H|H].
  - left. unfold dur_get in H. destruct (assoc_get i (m_dur m)) as [x|] eqn:E; [|discriminate].
    subst. apply assoc_get_in in E. apply (in_map fst) in E. exact E.
  - right. apply in_pend_of in H. apply (in_map fst) in H. exact H.
Qed.

Lemma possible_meta m i v j :
  possible (fst (mon_step m (CMeta i v))) j = if i =? j then possible m j ++ [v] else possible m j.
Proof.
  mcbn. rewrite !possible_eq. mcbn. rewrite pend_of_app, pend_of_one.
  destruct (i =? j); [reflexivity|]. rewrite app_nil_r. reflexivity.
Qed.

(* ---- extents ----------------------------------------------------------------------------------- *)
Lemma disjoint_sym a1 z1 a2 z2 : disjoint a1 z1 a2 z2 = disjoint a2 z2 a1 z1.
Proof. unfold disjoint. lia. Qed.

Lemma disjoint_no_common a1 z1 a2 z2 a :
  disjoint a1 z1 a2 z2 = true -> a1 <= a < a1 + z1 -> a2 <= a < a2 + z2 -> False.
Proof. unfold disjoint. lia. Qed.

Lemma mem_in_app x l1 l2 : mem_in x (l1 ++ l2) = mem_in x l1 || mem_in x l2.
Proof. unfold mem_in. apply existsb_app. Qed.

Lemma meta_ok_spec m i v :
  meta_ok m i v = true ->
  valid_slotrec v = true /\ sr_start v + sr_reserved v <= m_len m /\
  forall j w, j <> i -> In (Some w) (possible m j) ->
    disjoint (sr_start v) (sr_reserved v) (sr_start w) (sr_reserved w) = true.
Proof.
  unfold meta_ok. rewrite !andb_true_iff. intros [[Hv Hl] Hf]. split; [exact Hv|]. split; [lia|].
  intros j w Hne Hin. rewrite forallb_forall in Hf.
  specialize (Hf j (in_possible_all_slots _ _ _ Hin)). apply orb_true_iff in Hf.
  destruct Hf as [Hf|Hf]; [lia|]. rewrite forallb_forall in Hf. exact (Hf _ Hin).
Qed.

(* ---- the invariant ----------------------------------------------------------------------------- *)
Definition Kdisj (m : mon) : Prop :=
  forall i j v w, i <> j -> In (Some v) (possible m i) -> In (Some w) (possible m j) ->
    disjoint (sr_start v) (sr_reserved v) (sr_start w) (sr_reserved w) = true.
Definition Kinside (m : mon) : Prop :=
  forall i v, In (Some v) (possible m i) -> valid_slotrec v = true /\ sr_start v + sr_reserved v <= m_len m.
Definition Kvmem (m : mon) : Prop :=
  forall a, m_vmem m a = m_dmem m a \/
            exists off len f, In (off, len, f) (m_pdata m) /\ off <= a < off + len /\ m_vmem m a = f a.
Definition Kcur (m : mon) : Prop :=
  forall x, mem_in x (m_cur m) = true -> mem_in x (m_touched m) = true.

Record K (m : mon) : Prop := mkK {
  k_disj : Kdisj m;
  k_inside : Kinside m;
  k_nodup : NoDup (map fst (m_dur m));
  k_vmem : Kvmem m;
  k_cur : Kcur m
}.

Lemma Kdisj_incl m m' : (forall i, incl (possible m' i) (possible m i)) -> Kdisj m -> Kdisj m'.
Proof. intros Hs H i j v w Hne Hv Hw. apply (H i j); auto; apply Hs; assumption. Qed.

Lemma Kinside_incl m m' :
  (forall i, incl (possible m' i) (possible m i)) -> m_len m <= m_len m' -> Kinside m -> Kinside m'.
Proof. intros Hs Hl H i v Hv. destruct (H i v (Hs _ _ Hv)) as [H1 H2]. split; [exact H1|lia]. Qed.

Lemma K_init : K mon_init.
Proof.
  constructor.
  - intros i j v w _ [H|[]]. discriminate.
  - intros i v [H|[]]. discriminate.
  - constructor.
  - intros a. left. reflexivity.
  - intros x H. discriminate.
Qed.

Lemma Kvmem_write m off len f :
  Kvmem m -> forall a,
  write_mem (m_vmem m) off len f a = m_dmem m a \/
  exists off' len' f', In (off', len', f') (m_pdata m ++ [(off, len, f)]) /\ off' <= a < off' + len'
                       /\ write_mem (m_vmem m) off len f a = f' a.
Proof.
  intros H a. unfold write_mem. destruct ((off <=? a) && (a <? off + len)) eqn:E.
  - right. exists off, len, f. split; [apply in_or_app; right; left; reflexivity|]. split; [lia|reflexivity].
  - destruct (H a) as [Ha|(o & l & g & Hin & Hr & Hv)]; [left; exact Ha|].
    right. exists o, l, g. split; [apply in_or_app; left; exact Hin|]. split; [exact Hr|exact Hv].
Qed.

Lemma K_step m e : K m -> snd (mon_step m e) = true -> K (fst (mon_step m e)).
Proof.
  intros [Hd Hi Hn Hv Hc] Hok. destruct e.
  - (* CSetLen *) mcbn. constructor; try assumption.
    apply (Kinside_incl m); [intros i; apply incl_refl|mcbn; lia|exact Hi].
  - (* COp *) mcbn. constructor; try assumption.
    intros x Hx. mcbn. rewrite mem_in_app, Hx. reflexivity.
  - (* CEnd *) mcbn. constructor; try assumption. intros x Hx. discriminate.
  - (* CMeta *)
    assert (Hsub : forall j x, In (Some x) (possible (fst (mon_step m (CMeta slot v))) j) ->
              In (Some x) (possible m j) \/ (j = slot /\ v = Some x)).
    { intros j x Hx. rewrite possible_meta in Hx. destruct (slot =? j) eqn:E; [|left; exact Hx].
      apply in_app_or in Hx. destruct Hx as [Hx|[Hx|[]]]; [left; exact Hx|right]. split; [lia|exact Hx]. }
    assert (Hm : forall x, v = Some x -> meta_ok m slot x = true).
    { intros x ->. mcbn. apply andb_true_iff in Hok. tauto. }
    constructor; try assumption.
    + intros i j a b Hne Ha Hb. apply Hsub in Ha. apply Hsub in Hb.
      destruct Ha as [Ha|[-> Ha]]; destruct Hb as [Hb|[-> Hb]].
      * apply (Hd i j); assumption.
      * apply Hm in Hb. apply meta_ok_spec in Hb. destruct Hb as (_ & _ & Hb).
        rewrite disjoint_sym. apply (Hb i); assumption.
      * apply Hm in Ha. apply meta_ok_spec in Ha. destruct Ha as (_ & _ & Ha).
        apply (Ha j); [congruence|assumption].
      * congruence.
    + intros i a Ha. apply Hsub in Ha. destruct Ha as [Ha|[-> Ha]].
      * apply Hi in Ha. exact Ha.
      * apply Hm in Ha. apply meta_ok_spec in Ha. mcbn. tauto.
  - (* CData *) mcbn. destruct (len =? 0) eqn:E0; mcbn; [constructor; assumption|].
    constructor; try assumption. intros a. mcbn. apply Kvmem_write. exact Hv.
  - (* CPunch *) mcbn. constructor; try assumption. intros a. mcbn. apply Kvmem_write. exact Hv.
  - (* CDataSync *) mcbn. constructor; try assumption. intros a. left. reflexivity.
  - (* CMetaSync *)
    assert (Hsub : forall i, incl (possible (fst (mon_step m CMetaSync)) i) (possible m i)).
    { intros i x Hx. rewrite possible_after_metasync, dur_after_metasync in Hx.
      destruct Hx as [<-|[]]. apply vol_in_possible. }
    constructor.
    + apply (Kdisj_incl m); assumption.
    + apply (Kinside_incl m); [assumption|mcbn; lia|assumption].
    + mcbn. apply latest_pend_nodup. exact Hn.
    + exact Hv.
    + exact Hc.
  - (* CPromote *) mcbn. constructor; assumption.
  - (* CFlushed *) mcbn. constructor; try assumption. intros x Hx. exact Hx.
  - (* CRegionFlushed *) mcbn. constructor; assumption.
Qed.

Lemma run_inv (P : mon -> Prop) :
  (forall m e, P m -> snd (mon_step m e) = true -> P (fst (mon_step m e))) ->
  forall t m, P m -> snd (mon_run m t) = true -> P (fst (mon_run m t)).
Proof.
  intros Hstep. induction t as [|e t IH]; intros m Hm Hok; cbn [mon_run] in *; [exact Hm|].
  specialize (Hstep m e Hm). destruct (mon_step m e) as [m1 ok]. destruct ok.
  - apply IH; [apply Hstep; reflexivity|exact Hok].
  - cbn in Hok. discriminate.
Qed.

Lemma K_run t m : K m -> snd (mon_run m t) = true -> K (fst (mon_run m t)).
Proof. apply (run_inv K). exact K_step. Qed.

Lemma K_reach t1 t2 : snd (mon_run mon_init (t1 ++ t2)) = true -> K (fst (mon_run mon_init t1)).
Proof. intros H. apply mon_run_app in H. apply K_run; [exact K_init|tauto]. Qed.

(* ---- recovered regions ------------------------------------------------------------------------- *)
Lemma in_recovered m sigma i v : In (i, v) (recovered m sigma) -> sigma i = Some v.
Proof.
  unfold recovered. rewrite in_flat_map. intros (x & _ & H).
  destruct (sigma x) as [u|] eqn:E; [|destruct H]. destruct H as [H|[]]. congruence.
Qed.

Theorem C05_os_layout_proof :
  forall t1 t2, snd (mon_run mon_init (t1 ++ t2)) = true ->
    let m := fst (mon_run mon_init t1) in
    forall sigma, os_slots m sigma ->
      pairwise_disjoint (recovered m sigma) /\ inside_file m (recovered m sigma).
Proof.
  intros t1 t2 H m sigma Hs. pose proof (K_reach t1 t2 H) as HK. fold m in HK. split.
  - intros i j v w Hv Hw Hne. apply in_recovered in Hv. apply in_recovered in Hw.
    apply (k_disj m HK i j); [exact Hne| |]; [rewrite <- Hv|rewrite <- Hw]; apply Hs.
  - intros i v Hv. apply in_recovered in Hv. apply (k_inside m HK i). rewrite <- Hv. apply Hs.
Qed.
