(* Rawdb/AllocDisciplinedWObs.v — tie between the allocator model and the crash monitor, part 5
   (proof file): what a successful write_with does to the state and which events it emits, in the
   form `WObs` that MS_slot_update consumes; the in-place tail (finish_write) and the relocation
   tail (reloc_tail). *)
From Anydb Require Import Common.Base Gen.Consts Rawdb.AMap Rawdb.Alloc Rawdb.AllocSpec Rawdb.AllocInv
  Rawdb.AllocFacts Rawdb.AMapFacts Rawdb.CoverFacts Rawdb.AllocErr Rawdb.InvLayout Rawdb.InvWrite Rawdb.InvWrite2
  Rawdb.InvStep Rawdb.Crash Rawdb.CrashFacts Rawdb.CrashInv Rawdb.CrashSound Rawdb.AllocEvents
  Rawdb.AllocDisciplined Rawdb.AllocDisciplinedOps.

Definition WObs (s : st) (i : N) (mi : rmeta) (s' : st) (evs : list cev) : Prop :=
  exists m' datas newrec,
    evs = (if file_len s' =? file_len s then [] else [CSetLen (file_len s')]) ++ map dev datas
          ++ (match newrec with Some v => [CMeta i v] | None => [] end)
    /\ file_len s <= file_len s'
    /\ (forall p z, In (p, z) (pend s) -> In (p, z) (pend s'))
    /\ (forall j, slot s' j = if j =? i then Some m' else slot s j)
    /\ (forall j, j <> i -> rf s' j = rf s j)
    /\ (r_state mi <> ST_WRITE ->
          (r_state m' <> ST_WRITE /\ r_start m' = r_start mi /\ r_reserved mi <= r_reserved m')
          \/ In (r_start mi, r_reserved mi) (pend s'))
    /\ (forall off len f, In (off, len, f) datas -> len <> 0 ->
          r_start m' <= off /\ off + len <= r_start m' + r_len m' /\ m_is_dirty m' = true)
    /\ (m_is_dirty m' = false ->
          r_len m' = 0 \/ (m_is_dirty mi = false /\ r_start m' = r_start mi /\ r_len m' <= r_len mi))
    /\ match newrec with
       | None => rf s' i = rf s i /\ (r_state mi = ST_FLUSH -> r_state m' = ST_FLUSH)
       | Some (Some v) => rf s' i = Some v /\ r_state m' = ST_FLUSH /\ rec_of m' = v
       | Some None => False
       end.

Lemma ok_of_wobs orc s o m id i mi s' body :
  Inv s -> K m -> Cpl s m -> slot s i = Some mi -> r_id mi = id ->
  fst (step_total s o) = s' -> step_events_o orc s o = COp [id] :: body ++ [CEnd] ->
  WObs s i mi s' body -> step_ok orc s o m.
Proof.
  intros HI HK HC Hs Hid Est Eev (m' & datas & newrec & Eb & W1 & W2 & W3 & W4 & W5 & W6 & W7 & W8).
  apply (ok_by_ms orc s o m [id] s' datas i newrec HI HK HC Est).
  - rewrite Eev, Eb. unfold meta_step_events. rewrite <- !app_assoc. reflexivity.
  - apply (MS_slot_update s s' i mi m'); try assumption. rewrite Hid. apply mem_in_head.
Qed.

Lemma mark_dirty_true m wo n : n <> 0 -> m_is_dirty (m_mark_dirty m wo n) = true.
Proof. intros H. unfold m_is_dirty, m_mark_dirty. cbn [r_dmin r_dmax]. lia. Qed.
Lemma mark_dirty_false m wo n : m_is_dirty (m_mark_dirty m wo n) = false -> m_is_dirty m = false.
Proof. unfold m_is_dirty, m_mark_dirty. cbn [r_dmin r_dmax]. lia. Qed.
Lemma set_len_dirty m v : m_is_dirty (m_set_len m v) = m_is_dirty m.
Proof. unfold m_is_dirty, m_set_len. destruct (r_len m =? v); reflexivity. Qed.
Lemma set_len_state_write m v : r_len m <> v -> r_state (m_set_len m v) = ST_WRITE.
Proof. intros H. unfold m_set_len. replace (r_len m =? v) with false by lia. reflexivity. Qed.

Lemma rf_set_mem s mm j : rf (set_mem s mm) j = rf s j. Proof. reflexivity. Qed.
Lemma rf_upd s i f j : rf (upd s i f) j = rf s j. Proof. unfold rf, upd. destruct (slot s i); reflexivity. Qed.

(* ---- the common tail of the in-place growth paths ------------------------------------------------------ *)
Definition grow2 (wo n new_len : N) (m : rmeta) : rmeta := m_set_len (m_mark_dirty m wo n) new_len.

Lemma finish_obs sA i start wo f n new_len s' r mA :
  slot sA i = Some mA -> r_len mA <> new_len -> finish_write sA i start wo f n new_len = AOk (s', r) ->
  file_len s' = file_len sA /\ pend s' = pend sA
  /\ (forall j, slot s' j = if j =? i then Some (m_set_state (grow2 wo n new_len mA) ST_FLUSH) else slot sA j)
  /\ (forall j, j <> i -> rf s' j = rf sA j) /\ rf s' i = Some (rec_of (grow2 wo n new_len mA))
  /\ finish_events sA i start wo f n new_len
     = [CData (start + wo) n (wcontent (start + wo) f); CMeta i (Some (rec_of (grow2 wo n new_len mA)))].
Proof.
  intros Hs Hne Hfw. destruct (finish_write_ok _ _ _ _ _ _ _ _ _ Hfw) as (mm & mA' & HsA & _ & ->).
  rewrite Hs in HsA. injection HsA as <-.
  assert (Hst : r_state (grow2 wo n new_len mA) = ST_WRITE) by (apply set_len_state_write; exact Hne).
  destruct (wid_upd_obs (set_mem sA mm) i (grow2 wo n new_len) mA Hs Hst) as (O1 & O2 & O3 & O4 & O5 & _).
  destruct (wid_upd_obs sA i (grow2 wo n new_len) mA Hs Hst) as (_ & _ & _ & _ & _ & O6).
  split; [exact O1|]. split; [exact O2|]. split; [exact O3|]. split; [exact O4|]. split; [exact O5|].
  unfold finish_events. rewrite upd_upd. fold (grow2 wo n new_len). rewrite O6. reflexivity.
Qed.

(* ---- the relocation tail ----------------------------------------------------------------------------------- *)
Lemma db_copy_shape s a b c s2 : db_copy s a b c = AOk s2 -> exists mm, s2 = set_mem s mm.
Proof.
  unfold db_copy. destruct (c =? 0).
  - intros [= <-]. exists (mem s). destruct s; reflexivity.
  - destruct (negb _); [discriminate|]. destruct (_ && _); [|discriminate]. intros [= <-]. eauto.
Qed.

Lemma reloc_meta_state ns nr new_len m : r_reserved m <> nr -> r_state (reloc_meta ns nr new_len m) = ST_WRITE.
Proof.
  intros Hne. unfold reloc_meta.
  set (m2 := m_set_start (m_mark_dirty m 0 new_len) ns).
  assert (H2 : r_reserved m2 = r_reserved m) by (destruct (set_start_fields (m_mark_dirty m 0 new_len) ns) as (_ & _ & H & _); exact H).
  assert (H3 : r_state (m_set_reserved m2 nr) = ST_WRITE).
  { unfold m_set_reserved. replace (r_reserved m2 =? nr) with false by lia. reflexivity. }
  unfold m_set_len. destruct (r_len (m_set_reserved m2 nr) =? new_len); [exact H3|reflexivity].
Qed.

Lemma reloc_meta_dirty ns nr new_len m : new_len <> 0 -> m_is_dirty (reloc_meta ns nr new_len m) = true.
Proof.
  intros H. unfold reloc_meta. rewrite set_len_dirty.
  unfold m_is_dirty, m_set_reserved, m_set_start.
  destruct (r_start (m_mark_dirty m 0 new_len) =? ns); cbn [r_reserved r_dmin r_dmax];
    destruct (_ =? nr); cbn [r_dmin r_dmax m_mark_dirty]; lia.
Qed.

Lemma reloc_tail_obs s1 i m f n wo new_len nr cl ns s' r :
  slot s1 i = Some m -> r_reserved m <> nr ->
  reloc_tail s1 i m f n wo new_len nr cl ns = AOk (s', r) ->
  let m' := m_set_state (reloc_meta ns nr new_len m) ST_FLUSH in
  file_len s' = file_len s1
  /\ (forall p z, In (p, z) (pend s1) -> p <> r_start m -> In (p, z) (pend s'))
  /\ In (r_start m, r_reserved m) (pend s')
  /\ (forall j, slot s' j = if j =? i then Some m' else slot s1 j)
  /\ (forall j, j <> i -> rf s' j = rf s1 j) /\ rf s' i = Some (rec_of (reloc_meta ns nr new_len m)).
Proof.
  intros Hs Hne. unfold reloc_tail.
  destruct (db_copy s1 (r_start m) ns cl) as [s2| |] eqn:Ec; cbn [abind]; try discriminate.
  apply db_copy_shape in Ec. destruct Ec as [mm ->].
  destruct (db_write (set_mem s1 mm) (ns + wo) f n) as [s3|] eqn:Ew; [|discriminate].
  apply db_write_some in Ew. destruct Ew as [mm2 ->].
  unfold layout_remove_region. cbn [s2r set_mem].
  destruct (aget (r_start m) (s2r s1)) as [j0|]; cbn [abind]; [|discriminate].
  destruct (j0 =? i); cbn [abind]; [|discriminate].
  unfold layout_insert_region. destruct (aget ns _); [discriminate|].
  destruct (aget ns _) as [z|]; [|discriminate].
  destruct (negb (z =? nr)); [discriminate|]. destruct (negb (ok_set_start ns)); [discriminate|].
  destruct (negb (ok_set_reserved m nr)); [discriminate|]. destruct (negb (new_len <=? nr)); [discriminate|].
  intros E. injection E as <- _. fold (reloc_meta ns nr new_len).
  match goal with |- context [write_if_dirty (upd ?X i _) i] => set (s6 := X) end.
  assert (Hs6 : slot s6 i = Some m) by exact Hs.
  destruct (wid_upd_obs s6 i (reloc_meta ns nr new_len) m Hs6 (reloc_meta_state ns nr new_len m Hne))
    as (O1 & O2 & O3 & O4 & O5 & _).
  cbv zeta. split; [exact O1|]. split; [|split; [|split; [exact O3|split; [exact O4|exact O5]]]].
  - intros p zz Hin Hp. rewrite O2. unfold s6. cbn [pend set_resv set_s2r set_pend set_mem].
    apply in_ains_other; assumption.
  - rewrite O2. unfold s6. cbn [pend set_resv set_s2r set_pend set_mem]. apply in_ains_same.
Qed.
