(* Rawdb/AllocDisciplined.v — tie between the allocator model and the crash monitor, part 1
   (proof file): the coupling invariant Cpl between an allocator state and a monitor state, and
   the generic soundness lemma `ms_sound` for operations that touch at most one slot of the
   regions file and perform no sync (create, write family, truncate, rename, remove, set_min_len,
   drop of a handle, refused requests). *)
From Anydb Require Import Common.Base Gen.Consts Rawdb.AMap Rawdb.Alloc Rawdb.AllocSpec Rawdb.AllocInv
  Rawdb.AllocFacts Rawdb.AMapFacts Rawdb.CoverFacts Rawdb.AllocErr Rawdb.InvStep
  Rawdb.Crash Rawdb.CrashFacts Rawdb.CrashInv Rawdb.CrashSound Rawdb.AllocEvents.

(* ---- allocator-side vocabulary ------------------------------------------------------------------ *)
Definition rec_of (m : rmeta) : slotrec := (r_start m, r_len m, r_reserved m, r_id m).
(* the volatile content of slot i of the regions file *)
Definition rf (s : st) (i : N) : option slotrec :=
  match get (rfile s) i with Some (Some v) => Some v | _ => None end.
Definition in_pend (s : st) (a : N) : Prop := exists p z, In (p, z) (pend s) /\ p <= a < p + z.
(* a lies in the extent of the region at slot j whose metadata has been written at least once *)
Definition in_own (s : st) (j a : N) : Prop :=
  exists mj, slot s j = Some mj /\ r_state mj <> ST_WRITE /\ r_start mj <= a < r_start mj + r_reserved mj.

Lemma region_pend_point s i m a :
  Inv s -> slot s i = Some m -> in_pend s a -> r_start m <= a < r_start m + r_reserved m -> False.
Proof.
  intros H Hs (p & z & Hin & Hr) Ha.
  pose proof (inv_owners_le1 s a H) as Hle. rewrite owners_extents in Hle.
  pose proof (owners_in _ _ a (slot_in_region_exts s i m Hs)) as Ho1.
  pose proof (owners_in _ _ a Hin) as Ho2.
  rewrite cov_true in Ho1 by (unfold covers, rext; cbn [fst snd]; lia).
  rewrite cov_true in Ho2 by (unfold covers; cbn [fst snd]; lia).
  lia.
Qed.

Lemma rf_mirror s i :
  Inv s ->
  match slot s i with
  | Some m => if r_state m =? ST_WRITE then rf s i = None /\ r_len m = 0 /\ m_is_dirty m = false
              else rf s i = Some (rec_of m)
  | None => rf s i = None
  end.
Proof.
  intros H. pose proof (inv_rfile s H i) as R. unfold rf. destruct (slot s i) as [m|].
  - destruct (r_state m =? ST_WRITE).
    + destruct R as (-> & R2 & R3). split; [reflexivity|split; [exact R2|unfold m_is_dirty; lia]].
    + rewrite R. reflexivity.
  - destruct R as [-> | ->]; reflexivity.
Qed.

Lemma rf_some_slot s i v :
  Inv s -> rf s i = Some v -> exists m, slot s i = Some m /\ r_state m <> ST_WRITE /\ rec_of m = v.
Proof.
  intros H E. pose proof (rf_mirror s i H) as R. destruct (slot s i) as [m|]; [|congruence].
  destruct (r_state m =? ST_WRITE) eqn:Es.
  - destruct R as (R & _). congruence.
  - exists m. split; [reflexivity|]. split; [lia|congruence].
Qed.

Lemma disjoint_of_points a1 z1 a2 z2 :
  (forall a, a1 <= a < a1 + z1 -> a2 <= a < a2 + z2 -> False) -> disjoint a1 z1 a2 z2 = true.
Proof.
  intros H. unfold disjoint.
  destruct (z1 =? 0) eqn:E1; [lia|]. destruct (z2 =? 0) eqn:E2; [lia|].
  destruct (a1 + z1 <=? a2) eqn:E3; [lia|]. destruct (a2 + z2 <=? a1) eqn:E4; [lia|].
  exfalso. apply (H (N.max a1 a2)); lia.
Qed.

Lemma valid_len_le w : valid_slotrec w = true -> sr_len w <= sr_reserved w.
Proof. destruct w as [[[a l] r] id]. unfold valid_slotrec, sr_len, sr_reserved. lia. Qed.

Lemma region_valid s i m : Inv s -> slot s i = Some m -> valid_slotrec (rec_of m) = true.
Proof.
  intros H Hs. destruct (inv_region_shape s i m H Hs) as (A1 & A2 & A3 & A4 & _).
  pose proof (mod0_ge PAGE_SIZE (r_reserved m) PAGE_nz A2 A3).
  unfold valid_slotrec, rec_of. lia.
Qed.

(* ---- the coupling invariant (between operations) ------------------------------------------------- *)
Record Cpl (s : st) (m : mon) : Prop := mkCpl {
  c_len : m_len m = file_len s;
  c_cur : m_cur m = [];
  c_vol : forall i, vol_of m i = rf s i;
  (* K2/K3: every possibly-durable version lies inside its own live region or in pending holes *)
  c_geo : forall j w a, In (Some w) (possible m j) -> sr_start w <= a < sr_start w + sr_reserved w ->
            in_own s j a \/ in_pend s a;
  c_fl : match m_flushed m with
         | Some (fl, _) => forall i w, assoc_get i fl = Some w -> mem_in (sr_id w) (m_touched m) = false -> rf s i = Some w
         | None => True
         end;
  (* a metadata write is pending only while flush() is bound to sync the regions file *)
  c_pend : forall i v, In (i, v) (m_pend m) ->
             (exists mi, slot s i = Some mi /\ r_state mi = ST_FLUSH) \/ (rf s i = None /\ pend s <> []);
  (* unsynced data ranges lie outside the content of every region that is not marked dirty *)
  c_pdata : forall off len f j mj, In (off, len, f) (m_pdata m) -> slot s j = Some mj -> m_is_dirty mj = false ->
              disjoint off len (r_start mj) (r_len mj) = true
}.

(* ---- monitor-side helpers --------------------------------------------------------------------------- *)
Lemma mon_run_cons m e t :
  mon_run m (e :: t) = if snd (mon_step m e) then mon_run (fst (mon_step m e)) t else (fst (mon_step m e), false).
Proof. cbn [mon_run]. destruct (mon_step m e) as [m1 [|]]; reflexivity. Qed.

Lemma mon_run_app_full m t1 t2 :
  snd (mon_run m t1) = true -> mon_run m (t1 ++ t2) = mon_run (fst (mon_run m t1)) t2.
Proof.
  revert m. induction t1 as [|e t1 IH]; intros m H; [reflexivity|].
  cbn [app]. rewrite !mon_run_cons in *. destruct (snd (mon_step m e)); [apply IH; exact H|cbn [snd] in H; discriminate].
Qed.

Lemma possible_cong m m' j : m_dur m' = m_dur m -> m_pend m' = m_pend m -> possible m' j = possible m j.
Proof. intros H1 H2. unfold possible, dur_of. rewrite H1, H2. reflexivity. Qed.

Lemma data_ok_cong m m' off len :
  m_dur m' = m_dur m -> m_pend m' = m_pend m -> m_cur m' = m_cur m -> data_ok m' off len = data_ok m off len.
Proof.
  intros H1 H2 H3. unfold data_ok, slot_addressed, possible, all_slots, dur_of. rewrite H1, H2, H3. reflexivity.
Qed.

Definition dev (d : N * N * content) : cev := let '(off, len, f) := d in CData off len f.

Lemma run_datas datas : forall m1 rest,
  (forall off len f, In (off, len, f) datas -> len <> 0 -> data_ok m1 off len = true /\ off + len <= m_len m1) ->
  exists m3, mon_run m1 (map dev datas ++ rest) = mon_run m3 rest /\
    m_dur m3 = m_dur m1 /\ m_pend m3 = m_pend m1 /\ m_len m3 = m_len m1 /\ m_cur m3 = m_cur m1 /\
    m_flushed m3 = m_flushed m1 /\ m_touched m3 = m_touched m1 /\
    (forall x, In x (m_pdata m3) -> In x (m_pdata m1) \/ (In x datas /\ snd (fst x) <> 0)).
Proof.
  induction datas as [|[[off len] f] t IH]; intros m1 rest H.
  - exists m1. cbn [map app]. repeat split; auto.
  - cbn [map app dev]. rewrite mon_run_cons. cbn [mon_step]. destruct (len =? 0) eqn:E0; cbn [fst snd].
    + destruct (IH m1 rest) as (m3 & R & Hs); [intros o l g Hin Hne; apply (H o l g); [right; exact Hin|exact Hne]|].
      exists m3. split; [exact R|]. destruct Hs as (A1 & A2 & A3 & A4 & A5 & A6 & A7).
      repeat split; auto. intros x Hx. destruct (A7 x Hx) as [Hy|[Hy Hz]]; [left; exact Hy|right; split; [right; exact Hy|exact Hz]].
    + destruct (H off len f (or_introl eq_refl)) as [Hd Hb]; [lia|]. rewrite Hd.
      replace (off + len <=? m_len m1) with true by lia. cbn [andb].
      set (m1' := mkMon _ _ _ _ _ _ _ _ _).
      destruct (IH m1' rest) as (m3 & R & Hs).
      { intros o l g Hin Hne. destruct (H o l g (or_intror Hin) Hne) as [Hd' Hb']. split; [|exact Hb'].
        rewrite <- Hd'. apply data_ok_cong; reflexivity. }
      exists m3. split; [exact R|]. destruct Hs as (A1 & A2 & A3 & A4 & A5 & A6 & A7).
      repeat split; auto. intros x Hx. destruct (A7 x Hx) as [Hy|[Hy Hz]].
      * unfold m1' in Hy. cbn [m_pdata] in Hy. apply in_app_or in Hy. destruct Hy as [Hy|[Hy|[]]]; [left; exact Hy|].
        right. subst x. split; [left; reflexivity|cbn [fst snd]; lia].
      * right. split; [right; exact Hy|exact Hz].
Qed.

(* ---- one-slot operations without sync ------------------------------------------------------------- *)
Definition meta_step_events (ids : list N) (s s' : st) (datas : list (N * N * content)) (i : N)
  (newrec : option (option slotrec)) : list cev :=
  COp ids
  :: (if file_len s' =? file_len s then [] else [CSetLen (file_len s')])
  ++ map dev datas
  ++ (match newrec with Some v => [CMeta i v] | None => [] end) ++ [CEnd].

Record MS (s s' : st) (ids : list N) (datas : list (N * N * content)) (i : N)
  (newrec : option (option slotrec)) : Prop := mkMS {
  ms_len : file_len s <= file_len s';
  ms_frame : forall j, j <> i -> slot s' j = slot s j /\ rf s' j = rf s j;
  ms_pend : forall p z, In (p, z) (pend s) -> In (p, z) (pend s');
  ms_old : forall mi a, slot s i = Some mi -> r_state mi <> ST_WRITE ->
             r_start mi <= a < r_start mi + r_reserved mi -> in_own s' i a \/ in_pend s' a;
  ms_id : forall v, rf s i = Some v -> mem_in (sr_id v) ids = true;
  ms_datas : forall off len f, In (off, len, f) datas -> len <> 0 ->
               exists mi', slot s' i = Some mi' /\ r_start mi' <= off /\ off + len <= r_start mi' + r_len mi'
                           /\ m_is_dirty mi' = true;
  ms_nd : forall mi', slot s' i = Some mi' -> m_is_dirty mi' = false ->
            r_len mi' = 0 \/ exists mi, slot s i = Some mi /\ m_is_dirty mi = false
                                       /\ r_start mi' = r_start mi /\ r_len mi' <= r_len mi;
  ms_new : match newrec with
           | None => rf s' i = rf s i
                     /\ (forall mi, slot s i = Some mi -> r_state mi = ST_FLUSH ->
                           exists mi', slot s' i = Some mi' /\ r_state mi' = ST_FLUSH)
           | Some (Some v) => rf s' i = Some v
                              /\ exists mi', slot s' i = Some mi' /\ r_state mi' = ST_FLUSH /\ rec_of mi' = v
           | Some None => rf s' i = None /\ pend s' <> []
           end
}.

Section MetaStep.
  Variables (s s' : st) (ids : list N) (datas : list (N * N * content)) (i : N)
            (newrec : option (option slotrec)) (m : mon).
  Hypotheses (HI : Inv s) (HI' : Inv s') (HK : K m) (HC : Cpl s m) (HM : MS s s' ids datas i newrec).

  Lemma pend_mono a : in_pend s a -> in_pend s' a.
  Proof. intros (p & z & Hin & Hr). exists p, z. split; [apply (ms_pend _ _ _ _ _ _ HM); exact Hin|exact Hr]. Qed.

  Lemma pend_ne : pend s <> [] -> pend s' <> [].
  Proof.
    destruct (pend s) as [|[p z] t] eqn:E; [congruence|]. intros _ E'.
    pose proof (ms_pend _ _ _ _ _ _ HM p z) as H. rewrite E in H. specialize (H (or_introl eq_refl)).
    rewrite E' in H. destruct H.
  Qed.

  (* a possibly-durable version that meets the extent of the region now at slot i belongs to
     slot i itself, and slot i had been written before *)
  Lemma geo_clear j w a mi' :
    In (Some w) (possible m j) -> sr_start w <= a < sr_start w + sr_reserved w ->
    slot s' i = Some mi' -> r_start mi' <= a < r_start mi' + r_reserved mi' ->
    j = i /\ exists v, rf s i = Some v.
  Proof.
    intros Hw Ha Hs' Ha'. destruct (c_geo s m HC j w a Hw Ha) as [(mj & Hj & Hst & Hr)|Hp].
    - destruct (N.eq_dec j i) as [->|Hne].
      + split; [reflexivity|]. pose proof (rf_mirror s i HI) as R. rewrite Hj in R.
        destruct (r_state mj =? ST_WRITE) eqn:E; [lia|]. eexists. exact R.
      + exfalso. destruct (ms_frame _ _ _ _ _ _ HM j Hne) as [Hf _]. rewrite <- Hf in Hj.
        destruct (inv_regions_disjoint s' j i mj mi' HI' Hne Hj Hs'); lia.
    - exfalso. exact (region_pend_point s' i mi' a HI' Hs' (pend_mono a Hp) Ha').
  Qed.

  (* the monitor state while the body of the operation runs *)
  Definition midstate (m2 : mon) : Prop :=
    m_dur m2 = m_dur m /\ m_pend m2 = m_pend m /\ m_cur m2 = ids /\ m_flushed m2 = m_flushed m
    /\ m_touched m2 = ids ++ m_touched m /\ m_len m2 = file_len s'.

  Lemma mid_data_ok m2 off len f :
    midstate m2 -> In (off, len, f) datas -> len <> 0 -> data_ok m2 off len = true /\ off + len <= m_len m2.
  Proof.
    intros (D1 & D2 & D3 & D4 & D5 & D6) Hin Hne.
    destruct (ms_datas _ _ _ _ _ _ HM off len f Hin Hne) as (mi' & Hs' & Hlo & Hhi & _).
    destruct (inv_region_shape s' i mi' HI' Hs') as (_ & _ & _ & Hlr & Hend).
    split; [|lia]. unfold data_ok. apply forallb_forall. intros j Hj. apply orb_true_iff.
    assert (Hposs : possible m2 j = possible m j) by (apply possible_cong; assumption).
    destruct (N.eq_dec j i) as [->|Hne'].
    - destruct (rf s i) as [v|] eqn:Erf.
      + left. unfold slot_addressed. apply existsb_exists. exists (Some v). split.
        * rewrite Hposs, <- Erf, <- (c_vol s m HC). apply vol_in_possible.
        * rewrite D3. apply (ms_id _ _ _ _ _ _ HM). exact Erf.
      + right. apply forallb_forall. intros [w|] Hw; [|reflexivity]. rewrite Hposs in Hw.
        apply disjoint_of_points. intros a Ha1 Ha2.
        pose proof (valid_len_le w (proj1 (k_inside m HK i w Hw))) as Hlw.
        destruct (geo_clear i w a mi' Hw) as (_ & v & Ev); [lia|exact Hs'|lia|congruence].
    - right. apply forallb_forall. intros [w|] Hw; [|reflexivity]. rewrite Hposs in Hw.
      apply disjoint_of_points. intros a Ha1 Ha2.
      pose proof (valid_len_le w (proj1 (k_inside m HK j w Hw))) as Hlw.
      destruct (geo_clear j w a mi' Hw) as (E & _); [lia|exact Hs'|lia|congruence].
  Qed.

  Lemma mid_untouched m2 : midstate m2 -> untouched_slot_ok m2 i = true.
  Proof.
    intros (D1 & D2 & D3 & D4 & D5 & D6). unfold untouched_slot_ok. rewrite D4, D5.
    pose proof (c_fl s m HC) as Hfl. destruct (m_flushed m) as [[fl fmem]|]; [|reflexivity].
    destruct (assoc_get i fl) as [w|] eqn:Eg; [|reflexivity].
    rewrite mem_in_app. destruct (mem_in (sr_id w) (m_touched m)) eqn:Et; [apply orb_true_r|].
    rewrite (ms_id _ _ _ _ _ _ HM w (Hfl i w Eg Et)). reflexivity.
  Qed.

  Lemma mid_meta_ok m2 mi' :
    midstate m2 -> slot s' i = Some mi' -> meta_ok m2 i (rec_of mi') = true.
  Proof.
    intros (D1 & D2 & D3 & D4 & D5 & D6) Hs'. unfold meta_ok.
    destruct (inv_region_shape s' i mi' HI' Hs') as (_ & _ & _ & _ & Hend).
    rewrite (region_valid s' i mi' HI' Hs'). cbn [andb].
    replace (sr_start (rec_of mi') + sr_reserved (rec_of mi') <=? m_len m2) with true
      by (unfold rec_of, sr_start, sr_reserved; lia).
    cbn [andb]. apply forallb_forall. intros j Hj. apply orb_true_iff.
    destruct (N.eq_dec j i) as [->|Hne]; [left; lia|right].
    assert (Hposs : possible m2 j = possible m j) by (apply possible_cong; assumption).
    apply forallb_forall. intros [w|] Hw; [|reflexivity]. rewrite Hposs in Hw.
    apply disjoint_of_points. unfold rec_of, sr_start, sr_reserved at 1. intros a Ha1 Ha2.
    destruct (geo_clear j w a mi' Hw Ha2 Hs' Ha1) as (E & _). congruence.
  Qed.

  (* the coupling of the state after the operation *)
  Lemma cpl_final mF :
    m_len mF = file_len s' -> m_cur mF = [] -> m_dur mF = m_dur m ->
    m_pend mF = m_pend m ++ (match newrec with Some v => [(i, v)] | None => [] end) ->
    m_flushed mF = m_flushed m -> m_touched mF = ids ++ m_touched m ->
    (forall x, In x (m_pdata mF) -> In x (m_pdata m) \/ (In x datas /\ snd (fst x) <> 0)) ->
    Cpl s' mF.
  Proof.
    intros F1 F2 F3 F4 F5 F6 F7.
    assert (Hposs : forall j, possible mF j =
              possible m j ++ pend_of (match newrec with Some v => [(i, v)] | None => [] end) j).
    { intros j. rewrite !possible_eq, F3, F4, pend_of_app. reflexivity. }
    assert (Hposs_ne : forall j, j <> i -> possible mF j = possible m j).
    { intros j Hne. rewrite Hposs. destruct newrec as [v|]; [|apply app_nil_r].
      rewrite pend_of_one. destruct (i =? j) eqn:E; [lia|apply app_nil_r]. }
    pose proof (ms_new _ _ _ _ _ _ HM) as Hnew.
    constructor.
    - exact F1.
    - exact F2.
    - (* c_vol *) intros j. destruct (N.eq_dec j i) as [->|Hne].
      + unfold vol_of. rewrite Hposs. destruct newrec as [[v|]|].
        * rewrite pend_of_one, N.eqb_refl, last_last. symmetry. tauto.
        * rewrite pend_of_one, N.eqb_refl, last_last. symmetry. tauto.
        * cbn [pend_of filter map]. rewrite app_nil_r. destruct Hnew as [-> _]. apply (c_vol s m HC).
      + unfold vol_of. rewrite (Hposs_ne j Hne). destruct (ms_frame _ _ _ _ _ _ HM j Hne) as [_ ->].
        apply (c_vol s m HC).
    - (* c_geo *) intros j w a Hw Ha.
      assert (Hold : In (Some w) (possible m j) -> in_own s' j a \/ in_pend s' a).
      { intros Hw'. destruct (c_geo s m HC j w a Hw' Ha) as [(mj & Hj & Hst & Hr)|Hp]; [|right; apply pend_mono; exact Hp].
        destruct (N.eq_dec j i) as [->|Hne].
        - apply (ms_old _ _ _ _ _ _ HM mj a Hj Hst Hr).
        - left. exists mj. destruct (ms_frame _ _ _ _ _ _ HM j Hne) as [-> _]. auto. }
      rewrite Hposs in Hw. apply in_app_or in Hw. destruct Hw as [Hw|Hw]; [apply Hold; exact Hw|].
      destruct newrec as [v|]; [|destruct Hw]. rewrite pend_of_one in Hw.
      destruct (i =? j) eqn:E; [|destruct Hw]. destruct Hw as [Hw|[]]. subst v. assert (j = i) by lia. subst j.
      destruct Hnew as (_ & mi' & Hs' & Hst & Hrec). left. exists mi'. split; [exact Hs'|].
      split; [rewrite Hst; discriminate|]. rewrite <- Hrec in Ha. exact Ha.
    - (* c_fl *) rewrite F5, F6. pose proof (c_fl s m HC) as Hfl. destruct (m_flushed m) as [[fl fmem]|]; [|exact I].
      intros k w Hg Ht. rewrite mem_in_app in Ht. apply orb_false_iff in Ht. destruct Ht as [Ht1 Ht2].
      pose proof (Hfl k w Hg Ht2) as Hrf. destruct (N.eq_dec k i) as [->|Hne].
      + rewrite (ms_id _ _ _ _ _ _ HM w Hrf) in Ht1. discriminate.
      + destruct (ms_frame _ _ _ _ _ _ HM k Hne) as [_ ->]. exact Hrf.
    - (* c_pend *) intros k x Hx. rewrite F4 in Hx. pose proof pend_ne as Hpne.
      assert (Hati : k = i ->
                (exists mi, slot s i = Some mi /\ r_state mi = ST_FLUSH) \/ (rf s i = None /\ pend s <> []) \/ newrec <> None ->
                (exists mi, slot s' k = Some mi /\ r_state mi = ST_FLUSH) \/ (rf s' k = None /\ pend s' <> [])).
      { intros -> Hc. destruct newrec as [[v|]|].
        - left. destruct Hnew as (_ & mi' & Hs' & Hst & _). eauto.
        - right. exact Hnew.
        - destruct Hnew as [Erf Hfl]. destruct Hc as [(mi & Hs & Hst)|[[Hn Hp]|Hc]]; [left; eauto| |congruence].
          right. split; [congruence|apply Hpne; exact Hp]. }
      apply in_app_or in Hx. destruct Hx as [Hx|Hx].
      + destruct (N.eq_dec k i) as [E|Hne].
        * apply (Hati E). destruct (c_pend s m HC k x Hx) as [H|H]; subst k; tauto.
        * destruct (ms_frame _ _ _ _ _ _ HM k Hne) as [-> ->].
          destruct (c_pend s m HC k x Hx) as [H|[H1 H2]]; [left; exact H|right; split; [exact H1|apply Hpne; exact H2]].
      + destruct newrec as [v|] eqn:En; [|destruct Hx]. destruct Hx as [Hx|[]]. injection Hx as <- _.
        rewrite <- En in *. apply (Hati eq_refl). right. right. congruence.
    - (* c_pdata *) intros off len f j mj Hx Hj Hnd. destruct (F7 _ Hx) as [Hx'|[Hx' Hne]].
      + destruct (N.eq_dec j i) as [->|Hne].
        * destruct (ms_nd _ _ _ _ _ _ HM mj Hj Hnd) as [H0|(mi & Hs & Hnd' & E1 & E2)].
          { unfold disjoint. rewrite H0. lia. }
          pose proof (c_pdata s m HC off len f i mi Hx' Hs Hnd') as Hd. unfold disjoint in *. lia.
        * destruct (ms_frame _ _ _ _ _ _ HM j Hne) as [Hf _]. rewrite Hf in Hj.
          exact (c_pdata s m HC off len f j mj Hx' Hj Hnd).
      + cbn [fst snd] in Hne.
        destruct (ms_datas _ _ _ _ _ _ HM off len f Hx' Hne) as (mi' & Hs' & Hlo & Hhi & Hdirty).
        destruct (N.eq_dec j i) as [->|Hne'].
        * rewrite Hs' in Hj. injection Hj as <-. congruence.
        * destruct (inv_region_shape s' i mi' HI' Hs') as (_ & _ & _ & Hl1 & _).
          destruct (inv_region_shape s' j mj HI' Hj) as (_ & _ & _ & Hl2 & _).
          destruct (inv_regions_disjoint s' j i mj mi' HI' Hne' Hj Hs'); unfold disjoint; lia.
  Qed.

  Theorem ms_sound :
    snd (mon_run m (meta_step_events ids s s' datas i newrec)) = true
    /\ Cpl s' (fst (mon_run m (meta_step_events ids s s' datas i newrec))).
  Proof.
    unfold meta_step_events. rewrite mon_run_cons. cbn [mon_step fst snd].
    set (m1 := mkMon _ _ _ _ _ _ _ _ _).
    (* after the optional CSetLen *)
    assert (Htail : forall m2, midstate m2 -> m_pdata m2 = m_pdata m ->
              snd (mon_run m2 (map dev datas ++ (match newrec with Some v => [CMeta i v] | None => [] end) ++ [CEnd])) = true
              /\ Cpl s' (fst (mon_run m2 (map dev datas ++ (match newrec with Some v => [CMeta i v] | None => [] end) ++ [CEnd])))).
    { intros m2 Hmid Hpd.
      destruct (run_datas datas m2 ((match newrec with Some v => [CMeta i v] | None => [] end) ++ [CEnd]))
        as (m3 & R & A1 & A2 & A3 & A4 & A5 & A6 & A7).
      { intros off len f Hin Hne. apply (mid_data_ok m2 off len f Hmid Hin Hne). }
      rewrite R. destruct Hmid as (D1 & D2 & D3 & D4 & D5 & D6).
      assert (Hmid3 : midstate m3) by (repeat split; congruence).
      assert (Hpd3 : forall x, In x (m_pdata m3) -> In x (m_pdata m) \/ (In x datas /\ snd (fst x) <> 0)).
      { intros x Hx. destruct (A7 x Hx) as [H|H]; [left; congruence|right; exact H]. }
      pose proof (ms_new _ _ _ _ _ _ HM) as Hnew.
      pose proof (mid_untouched m3 Hmid3) as Hunt. pose proof (mid_meta_ok m3) as Hmok.
      pose proof cpl_final as Hfin.
      destruct newrec as [[v|]|] eqn:En; cbn [app].
      - (* CMeta i (Some v); CEnd *)
        destruct Hnew as (_ & mi' & Hs' & _ & Hrec).
        rewrite mon_run_cons. cbn [mon_step fst snd]. rewrite <- Hrec.
        rewrite (Hmok mi' Hmid3 Hs'), Hunt. cbn [andb].
        rewrite mon_run_cons. cbn [mon_step fst snd mon_run]. split; [reflexivity|].
        apply Hfin; cbn [m_len m_cur m_dur m_pend m_flushed m_touched m_pdata]; try congruence; try exact Hpd3.
        all: try (rewrite A2, D2, Hrec; reflexivity).
      - (* CMeta i None; CEnd *)
        rewrite mon_run_cons. cbn [mon_step fst snd]. rewrite Hunt. cbn [andb].
        rewrite mon_run_cons. cbn [mon_step fst snd mon_run]. split; [reflexivity|].
        apply Hfin; cbn [m_len m_cur m_dur m_pend m_flushed m_touched m_pdata]; try congruence; try exact Hpd3.
      - (* CEnd *)
        rewrite mon_run_cons. cbn [mon_step fst snd mon_run]. split; [reflexivity|].
        apply Hfin; cbn [m_len m_cur m_dur m_pend m_flushed m_touched m_pdata]; try congruence; try exact Hpd3.
        all: try (rewrite app_nil_r; congruence). }
    pose proof (ms_len _ _ _ _ _ _ HM) as Hlen. pose proof (c_len s m HC) as Hcl.
    destruct (file_len s' =? file_len s) eqn:E; cbn [app].
    - apply Htail; [|reflexivity]. unfold midstate, m1. cbn [m_dur m_pend m_cur m_flushed m_touched m_len].
      repeat split; try reflexivity. lia.
    - rewrite mon_run_cons. cbn [mon_step fst snd m_len m1].
      replace (m_len m <=? file_len s') with true by lia.
      apply Htail; [|reflexivity]. unfold midstate. cbn [m_dur m_pend m_cur m_flushed m_touched m_len].
      repeat split; reflexivity.
  Qed.
End MetaStep.
