(* Rawdb/InvFlush.v — Database::flush preserves the extent invariant and the layout length:
   the slot table only changes state/dirty bounds, and promote_pending_holes turns every
   pending extent into a real hole, coalescing with the real holes on both sides.  PROOF FILE. *)
From Anydb Require Import Common.Base Gen.Consts Rawdb.AMap Rawdb.Alloc Rawdb.AllocInv
  Rawdb.AMapFacts Rawdb.CoverFacts Rawdb.InvLayout Rawdb.HolesFacts Rawdb.AllocErr.

(* ---- part 1: a metadata-only map over the slot table ---------------------------------------- *)
Definition lift (g : rmeta -> rmeta) (o : option rmeta) : option rmeta :=
  match o with Some m => Some (g m) | None => None end.

(* g keeps the extent and identity of a region, leaves a never-written clean region alone and
   never moves a region into state NEEDS_WRITE *)
Definition meta_ok (g : rmeta -> rmeta) : Prop :=
  forall m, r_start (g m) = r_start m /\ r_len (g m) = r_len m /\ r_reserved (g m) = r_reserved m
            /\ r_id (g m) = r_id m
            /\ (r_state m = ST_WRITE -> r_dmax m = 0 -> g m = m)
            /\ (r_state m <> ST_WRITE -> r_state (g m) <> ST_WRITE).

Lemma nth_opt_map {A B} (f : A -> B) l n : nth_opt (map f l) n = option_map f (nth_opt l n).
Proof. revert n. induction l as [|h t IH]; intros [|n]; cbn [map nth_opt option_map]; auto. Qed.

Lemma slot_map_lift s g i : slot (set_slots s (map (lift g) (slots s))) i = option_map g (slot s i).
Proof.
  unfold slot, get. cbn [slots set_slots]. rewrite nth_opt_map.
  destruct (nth_opt (slots s) (N.to_nat i)) as [[m|]|]; reflexivity.
Qed.

Lemma region_exts_map_lift g l : meta_ok g -> region_exts (map (lift g) l) = region_exts l.
Proof.
  intros Hg. induction l as [|[m|] t IH]; cbn [map lift region_exts]; [reflexivity| |exact IH].
  destruct (Hg m) as (H1 & _ & H3 & _). rewrite H1, H3, IH. reflexivity.
Qed.

Lemma inv_map_slots s g :
  Inv s -> meta_ok g ->
  Inv (set_slots s (map (lift g) (slots s)))
  /\ layout_len (set_slots s (map (lift g) (slots s))) = layout_len s.
Proof.
  intros HI Hg. set (s' := set_slots s (map (lift g) (slots s))).
  assert (Hext : extents s' = extents s).
  { unfold extents, s'. cbn [slots holes pend resv set_slots]. now rewrite region_exts_map_lift. }
  assert (Hslot : forall i, slot s' i = option_map g (slot s i)) by (intros; apply slot_map_lift).
  apply mk_inv.
  - rewrite Hext. apply (inv_aligned s HI).
  - intros a. rewrite Hext. apply (inv_cover s HI).
  - intros i m Hs. rewrite Hslot in Hs. destruct (slot s i) as [m0|] eqn:E; [|discriminate].
    cbn [option_map] in Hs. inversion Hs; subst m.
    destruct (Hg m0) as (_ & H2 & H3 & _). rewrite H2, H3. apply (inv_len s HI i m0 E).
  - intros a i. change (s2r s') with (s2r s). rewrite (inv_s2r s HI). split.
    + intros (m & Hs & Hst). exists (g m). rewrite Hslot, Hs. split; [reflexivity|].
      destruct (Hg m) as (H1 & _). lia.
    + intros (m & Hs & Hst). rewrite Hslot in Hs. destruct (slot s i) as [m0|] eqn:E; [|discriminate].
      cbn [option_map] in Hs. inversion Hs; subst m. exists m0. split; [reflexivity|].
      destruct (Hg m0) as (H1 & _). lia.
  - exact (inv_sorted s HI).
  - exact (inv_h2s s HI).
  - exact (inv_no_adjacent_holes s HI).
  - exact (inv_file s HI).
  - intros i j mi mj Hi Hj Hid. rewrite Hslot in Hi, Hj.
    destruct (slot s i) as [mi0|] eqn:Ei; [|discriminate].
    destruct (slot s j) as [mj0|] eqn:Ej; [|discriminate].
    cbn [option_map] in Hi, Hj. inversion Hi; subst mi. inversion Hj; subst mj.
    apply (inv_ids s HI i j mi0 mj0 Ei Ej).
    destruct (Hg mi0) as (_ & _ & _ & H4 & _). destruct (Hg mj0) as (_ & _ & _ & H4' & _). lia.
  - intros i. pose proof (inv_rfile s HI i) as H. rewrite Hslot. change (rfile s') with (rfile s).
    destruct (slot s i) as [m|]; cbn [option_map]; [|exact H].
    destruct (Hg m) as (H1 & H2 & H3 & H4 & H5 & H6).
    destruct (r_state m =? ST_WRITE) eqn:E.
    + destruct H as (Ha & Hb & Hc). apply N.eqb_eq in E. rewrite (H5 E Hc).
      apply N.eqb_eq in E. rewrite E. auto.
    + apply N.eqb_neq in E. specialize (H6 E). apply N.eqb_neq in H6. rewrite H6.
      rewrite H1, H2, H3, H4. exact H.
  - exact (inv_no_resv s HI).
Qed.

Definition flush_clean (m : rmeta) : rmeta :=
  if flush_region_is_dirty m then m_set_state (m_clear_dirty m) ST_CLEAN else m_clear_dirty m.

Lemma meta_ok_clear_dirty : meta_ok m_clear_dirty.
Proof.
  intros m. unfold m_clear_dirty. destruct (m_is_dirty m) eqn:E; cbn [r_start r_len r_reserved r_id r_state].
  - repeat split; auto. intros _ H0. unfold m_is_dirty in E. lia.
  - repeat split; auto.
Qed.

Lemma meta_ok_flush_clean : meta_ok flush_clean.
Proof.
  intros m. destruct (meta_ok_clear_dirty m) as (H1 & H2 & H3 & H4 & H5 & H6).
  unfold flush_clean. destruct (flush_region_is_dirty m) eqn:E.
  - unfold m_set_state. cbn [r_start r_len r_reserved r_id r_state].
    repeat split; auto; [|intros _; discriminate].
    intros Hst H0. exfalso. unfold flush_region_is_dirty, m_is_dirty in E. rewrite Hst, H0 in E.
    change (ST_WRITE =? ST_FLUSH) with false in E. lia.
  - repeat split; auto.
Qed.

Lemma flush_shape s :
  exists g n, meta_ok g /\ flush s = (promote (set_slots s (map (lift g) (slots s))), n).
Proof.
  unfold flush. destruct (filter _ (slots s)) as [|x l].
  - exists m_clear_dirty, 0. split; [apply meta_ok_clear_dirty|reflexivity].
  - exists flush_clean. eexists. split; [apply meta_ok_flush_clean|].
    f_equal. f_equal. f_equal. apply map_ext. intros [m|]; [|reflexivity].
    unfold lift, flush_clean. destruct (flush_region_is_dirty m); reflexivity.
Qed.

(* ---- part 2: one step of promote_pending_holes ------------------------------------------------ *)
Definition pleft (s : st) (start size : N) : st * N * N :=
  match apred start (holes s) with
  | Some (hs, hz) => if hs + hz =? start then (fst (remove_hole s hs), hs, size + hz) else (s, start, size)
  | None => (s, start, size)
  end.

Definition pright (s1 : st) (f sz : N) : st * N :=
  match remove_hole s1 (f + sz) with
  | (s', Some z) => (s', sz + z)
  | (s', None) => (s', sz)
  end.

Lemma promote_one_eq s start size :
  promote_one s (start, size) =
  let '(s1, f, sz) := pleft s start size in
  let '(s2, sz2) := pright s1 f sz in insert_hole s2 f sz2.
Proof. reflexivity. Qed.

Lemma cov_merge a z1 z2 x : cov (a, z1 + z2) x = Nat.add (cov (a, z1) x) (cov (a + z1, z2) x).
Proof.
  unfold cov, covers. cbn [fst snd].
  repeat match goal with |- context [if ?b then _ else _] => destruct b eqn:? end; lia.
Qed.

Lemma apred_none {V} k (m : amap V) k2 v2 : asorted m -> apred k m = None -> In (k2, v2) m -> k <= k2.
Proof.
  destruct m as [|[k1 v1] t]; [intros _ _ []|]. rewrite asorted_cons. cbn [apred]. intros [Hlb _].
  destruct (k1 <? k) eqn:E. { destruct (apred k t); discriminate. }
  intros _ [E2|HI]; [inversion E2; lia|]. specialize (Hlb _ _ HI). lia.
Qed.

Lemma set_holes_same t : set_holes t (holes t) (h2s t) = t.
Proof. destruct t; reflexivity. Qed.

Section Step.
Variable t : st.
Variables start size : N.
Hypothesis Hwf : holes_wf (holes t) (h2s t).
Hypothesis Hal : forall a z, aget a (holes t) = Some z -> aligned (a, z).
Hypothesis Hadj : forall a z a' z', aget a (holes t) = Some z -> aget a' (holes t) = Some z' -> a + z <> a'.
Hypothesis Hle1 : forall a, (owners (holes t) a + cov (start, size) a <= 1)%nat.
Hypothesis Hp : aligned (start, size).

Lemma st_hole_pos a z : aget a (holes t) = Some z -> 0 < z.
Proof. intros Hg. destruct (Hal a z Hg) as (_ & _ & Hpos). exact Hpos. Qed.

Lemma st_hh_disjoint a z a' z' :
  aget a (holes t) = Some z -> aget a' (holes t) = Some z' -> a <> a' -> a + z <= a' \/ a' + z' <= a.
Proof.
  intros H1 H2 Hne.
  apply (disjoint_of_count (holes t) (a, z) (a', z')).
  - intros x. pose proof (Hle1 x). lia.
  - intros x. apply owners_in2; [now apply aget_in|now apply aget_in|]. intros [= E _]. contradiction.
  - exact (st_hole_pos _ _ H1).
  - exact (st_hole_pos _ _ H2).
Qed.

Lemma st_hp_disjoint a z : aget a (holes t) = Some z -> a + z <= start \/ start + size <= a.
Proof.
  intros Hg. pose proof (st_hole_pos _ _ Hg) as Hz. pose proof Hp as (_ & _ & Hs). cbn [snd] in Hs.
  destruct (N.le_gt_cases (a + z) start) as [|H1]; [left; assumption|].
  destruct (N.le_gt_cases (start + size) a) as [|H2]; [right; assumption|]. exfalso.
  destruct (overlap_point (a, z) (start, size)) as [Hc1 Hc2]; cbn [fst snd]; try lia.
  cbn [fst snd] in Hc1, Hc2.
  pose proof (Hle1 (N.max a start)) as Hx.
  pose proof (owners_in _ _ (N.max a start) (aget_in _ _ _ Hg)) as Ho.
  rewrite (cov_true _ _ Hc1) in Ho. rewrite (cov_true _ _ Hc2) in Hx. lia.
Qed.

Lemma st_start_absent : aget start (holes t) = None.
Proof.
  destruct (aget start (holes t)) as [w|] eqn:Hg; [exfalso|reflexivity].
  pose proof (st_hole_pos _ _ Hg) as Hw. pose proof Hp as (_ & _ & Hs). cbn [snd] in Hs.
  destruct (st_hp_disjoint _ _ Hg); lia.
Qed.

Definition left_post (H1 : amap N) (Q1 : amap (list N)) (f sz : N) : Prop :=
  holes_wf H1 Q1
  /\ (forall x z, aget x H1 = Some z -> aget x (holes t) = Some z)
  /\ aget f H1 = None
  /\ (forall a, (owners H1 a + cov (f, sz) a = owners (holes t) a + cov (start, size) a)%nat)
  /\ aligned (f, sz)
  /\ f + sz = start + size
  /\ (forall a z, aget a H1 = Some z -> a + z <> f).

(* no real hole ends at `start`: the pending extent is promoted as it stands *)
Lemma pleft_keep :
  (forall hs hz, apred start (holes t) = Some (hs, hz) -> hs + hz <> start) ->
  left_post (holes t) (h2s t) start size.
Proof.
  intros Hno. pose proof Hwf as (Hsh & _).
  split; [exact Hwf|]. split; [auto|]. split; [exact st_start_absent|]. split; [reflexivity|].
  split; [exact Hp|]. split; [reflexivity|].
  intros a z Hx Heq. pose proof (st_hole_pos _ _ Hx) as Hz.
  destruct (apred start (holes t)) as [[hs hz]|] eqn:Ep.
  - destruct (apred_some _ _ _ _ Ep) as [HIn Hlt].
    assert (Hg : aget hs (holes t) = Some hz) by (apply in_aget; assumption).
    pose proof (apred_max _ _ _ _ a z Hsh Ep (aget_in _ _ _ Hx)) as Hmax.
    destruct (N.eq_dec a hs) as [->|Hne].
    + rewrite Hg in Hx. inversion Hx; subst hz. exact (Hno _ _ eq_refl Heq).
    + destruct (st_hh_disjoint _ _ _ _ Hx Hg Hne); lia.
  - pose proof (apred_none _ _ _ _ Hsh Ep (aget_in _ _ _ Hx)). lia.
Qed.

Lemma pleft_spec :
  exists H1 Q1 f sz, pleft t start size = (set_holes t H1 Q1, f, sz) /\ left_post H1 Q1 f sz.
Proof.
  pose proof Hwf as (Hsh & _). unfold pleft.
  destruct (apred start (holes t)) as [[hs hz]|] eqn:Ep.
  - destruct (apred_some _ _ _ _ Ep) as [HIn Hlt].
    assert (Hg : aget hs (holes t) = Some hz) by (apply in_aget; assumption).
    destruct (hs + hz =? start) eqn:Ee.
    + unfold remove_hole. rewrite Hg. cbn [fst].
      exists (arem hs (holes t)), (h2s_drop (h2s t) hz hs), hs, (size + hz).
      split; [reflexivity|]. split; [now apply holes_wf_remove|].
      split. { intros x z. rewrite aget_arem by assumption. destruct (x =? hs); [discriminate|auto]. }
      split; [now apply aget_arem_same|].
      split. { intros a. pose proof (owners_arem _ _ _ a Hg). replace (size + hz) with (hz + size) by lia.
               rewrite cov_merge. replace (hs + hz) with start by lia. lia. }
      split. { destruct (Hal _ _ Hg) as (Hm1 & Hm2 & Hpos). pose proof Hp as (Hs1 & Hs2 & Hs3).
               unfold aligned. cbn [fst snd] in *.
               split; [exact Hm1|]. split; [apply mod0_add; auto using PAGE_nz|lia]. }
      split; [lia|].
      intros a z. rewrite aget_arem by assumption. destruct (a =? hs) eqn:E; [discriminate|].
      intros Hx. exact (Hadj _ _ _ _ Hx Hg).
    + exists (holes t), (h2s t), start, size. split; [now rewrite set_holes_same|].
      apply pleft_keep. intros hs' hz' E. rewrite Ep in E. inversion E; subst. lia.
  - exists (holes t), (h2s t), start, size. split; [now rewrite set_holes_same|].
    apply pleft_keep. intros hs' hz' E. rewrite Ep in E. discriminate.
Qed.
End Step.

Lemma pright_spec t1 f sz :
  holes_wf (holes t1) (h2s t1) ->
  (forall a z, aget a (holes t1) = Some z -> aligned (a, z)) ->
  (forall a z a' z', aget a (holes t1) = Some z -> aget a' (holes t1) = Some z' -> a + z <> a') ->
  aligned (f, sz) ->
  exists H2 Q2 sz2,
    pright t1 f sz = (set_holes t1 H2 Q2, sz2)
    /\ holes_wf H2 Q2
    /\ (forall x z, aget x H2 = Some z -> aget x (holes t1) = Some z)
    /\ (forall a, (owners H2 a + cov (f, sz2) a = owners (holes t1) a + cov (f, sz) a)%nat)
    /\ aligned (f, sz2)
    /\ (forall a z, aget a H2 = Some z -> a <> f + sz2).
Proof.
  intros Hwf Hal Hadj Hp. pose proof Hwf as (Hsh & _).
  unfold pright, remove_hole. destruct (aget (f + sz) (holes t1)) as [z2|] eqn:Hg.
  - exists (arem (f + sz) (holes t1)), (h2s_drop (h2s t1) z2 (f + sz)), (sz + z2).
    split; [reflexivity|]. split; [now apply holes_wf_remove|].
    split. { intros x z. rewrite aget_arem by assumption. destruct (x =? f + sz); [discriminate|auto]. }
    split. { intros a. pose proof (owners_arem _ _ _ a Hg). rewrite cov_merge. lia. }
    split. { destruct (Hal _ _ Hg) as (_ & Hm & Hpos). destruct Hp as (Hf & Hsz & Hpz).
             unfold aligned. cbn [fst snd] in *.
             split; [exact Hf|]. split; [apply mod0_add; auto using PAGE_nz|lia]. }
    intros a z. rewrite aget_arem by assumption. destruct (a =? f + sz) eqn:E; [discriminate|].
    intros Hx Heq. apply (Hadj _ _ _ _ Hg Hx). lia.
  - exists (holes t1), (h2s t1), sz. split; [now rewrite set_holes_same|].
    split; [exact Hwf|]. split; [auto|]. split; [reflexivity|]. split; [exact Hp|].
    intros a z Hx ->. congruence.
Qed.

(* the loop invariant of promote_pending_holes: R = the region extents (fixed), H/Q = the real
   holes so far, rest = the pending extents still to process *)
Definition PJ (R : list ext) (L : N) (H : amap N) (Q : amap (list N)) (rest : list ext) : Prop :=
  holes_wf H Q
  /\ (forall a z, aget a H = Some z -> aligned (a, z))
  /\ (forall a z a' z', aget a H = Some z -> aget a' H = Some z' -> a + z <> a')
  /\ (forall a, (owners R a + owners H a + owners rest a)%nat = if a <? L then 1%nat else 0%nat)
  /\ Forall aligned rest.

Lemma promote_one_step R L t start size rest :
  PJ R L (holes t) (h2s t) ((start, size) :: rest) ->
  exists H' Q', promote_one t (start, size) = set_holes t H' Q' /\ PJ R L H' Q' rest.
Proof.
  intros (Hwf & Hal & Hadj & Hcnt & Hrest).
  assert (Hle1 : forall a, (owners (holes t) a + cov (start, size) a <= 1)%nat).
  { intros a. specialize (Hcnt a). rewrite owners_cons in Hcnt. destruct (a <? L); lia. }
  assert (Hp : aligned (start, size)) by (inversion Hrest; assumption).
  assert (Hrest' : Forall aligned rest) by (inversion Hrest; assumption).
  destruct (pleft_spec t start size Hwf Hal Hadj Hle1 Hp)
    as (H1 & Q1 & f & sz & E1 & Hwf1 & Hsub1 & Hf1 & Hc1 & Hp1 & Hfe & Hne1).
  destruct (pright_spec (set_holes t H1 Q1) f sz)
    as (H2 & Q2 & sz2 & E2 & Hwf2 & Hsub2 & Hc2 & Hp2 & Hns2); cbn [holes h2s set_holes]; auto.
  { intros a z a' z' Ha Ha'. apply (Hadj a z a' z'); auto. }
  cbn [holes h2s set_holes] in Hsub2, Hc2.
  assert (Hf2 : aget f H2 = None).
  { destruct (aget f H2) as [w|] eqn:E; [|reflexivity]. apply Hsub2 in E. congruence. }
  rewrite promote_one_eq, E1. cbv beta iota. rewrite E2. cbv beta iota.
  exists (ains f sz2 H2), (h2s_push Q2 sz2 f). split; [reflexivity|].
  split; [now apply holes_wf_insert|].
  split.
  { intros a z. rewrite aget_ains. destruct (a =? f) eqn:E.
    - intros [= <-]. assert (a = f) by lia. subst a. exact Hp2.
    - intros Hx. auto. }
  split.
  { intros a z a' z'. rewrite !aget_ains.
    destruct (a =? f) eqn:Ea; destruct (a' =? f) eqn:Ea'.
    - intros [= <-] _. destruct Hp2 as (_ & _ & Hpos). cbn [snd] in Hpos. lia.
    - intros [= <-] Hx. pose proof (Hns2 _ _ Hx). lia.
    - intros Hx _. pose proof (Hne1 a z (Hsub2 _ _ Hx)). lia.
    - intros Hx Hx'. apply (Hadj a z a' z'); auto. }
  split; [|exact Hrest'].
  intros a. rewrite owners_ains_absent by exact Hf2. rewrite <- (Hcnt a), owners_cons.
  specialize (Hc1 a). specialize (Hc2 a). lia.
Qed.

Lemma promote_fold R L t rest : forall H Q,
  PJ R L H Q rest ->
  exists H' Q', fold_left promote_one rest (set_holes t H Q) = set_holes t H' Q' /\ PJ R L H' Q' [].
Proof.
  induction rest as [|[start size] rest IH]; intros H Q HJ.
  - exists H, Q. split; [reflexivity|exact HJ].
  - cbn [fold_left].
    destruct (promote_one_step R L (set_holes t H Q) start size rest HJ) as (H1 & Q1 & E & HJ1).
    rewrite E. change (set_holes (set_holes t H Q) H1 Q1) with (set_holes t H1 Q1). apply IH. exact HJ1.
Qed.

(* ---- part 3 -------------------------------------------------------------------------------------- *)
Lemma promote_shape s :
  Inv s ->
  exists H' Q', promote s = set_holes (set_pend s []) H' Q'
                /\ PJ (region_exts (slots s)) (layout_len s) H' Q' [].
Proof.
  intros HI.
  assert (HJ : PJ (region_exts (slots s)) (layout_len s) (holes s) (h2s s) (pend s)).
  { split; [now apply inv_holes_wf|]. split; [intros a z; now apply inv_hole_aligned|].
    split; [exact (inv_no_adjacent_holes s HI)|]. split.
    - intros a. rewrite <- (inv_cover s HI a), owners_extents, (inv_no_resv s HI), owners_nil. lia.
    - apply Forall_forall. intros e He. apply (inv_ext_aligned s e HI). apply in_extents. auto. }
  destruct (promote_fold _ _ (set_pend s []) _ _ _ HJ) as (H' & Q' & E & HJ').
  exists H', Q'. split; [exact E|exact HJ'].
Qed.

Theorem inv_promote s : Inv s -> Inv (promote s) /\ layout_len (promote s) = layout_len s.
Proof.
  intros HI. destruct (promote_shape s HI) as (H' & Q' & E & Hwf & Hal & Hadj & Hcnt & _).
  rewrite E. destruct Hwf as (Hsh & Hsq & Hag).
  apply mk_inv.
  - apply Forall_forall. intros e He. apply in_extents in He. st_simpl.
    destruct He as [He|[He|[He|He]]].
    + apply (inv_ext_aligned s e HI). apply in_extents. auto.
    + destruct e as [a z]. apply Hal. now apply in_aget.
    + destruct He.
    + apply (inv_ext_aligned s e HI). apply in_extents. auto.
  - intros a. rewrite owners_extents. st_simpl. rewrite (inv_no_resv s HI), <- (Hcnt a), !owners_nil. lia.
  - exact (inv_len s HI).
  - exact (inv_s2r s HI).
  - destruct (inv_sorted s HI) as (A & B & C & D & E0). st_simpl. repeat split; auto.
  - exact (conj (proj1 Hag) (proj2 Hag)).
  - exact Hadj.
  - exact (inv_file s HI).
  - exact (inv_ids s HI).
  - exact (inv_rfile s HI).
  - exact (inv_no_resv s HI).
Qed.

Theorem inv_flush s : Inv s -> Inv (fst (flush s)) /\ layout_len (fst (flush s)) = layout_len s.
Proof.
  intros HI. destruct (flush_shape s) as (g & n & Hg & E). rewrite E. cbn [fst].
  destruct (inv_map_slots s g HI Hg) as [HI1 HL1].
  destruct (inv_promote _ HI1) as [A B]. split; [exact A|]. now rewrite B.
Qed.

(* the case the callers of flush on an already-promoted layout need *)
Corollary inv_flush_nopend s : Inv s -> pend s = [] -> Inv (fst (flush s)).
Proof. intros HI _. exact (proj1 (inv_flush s HI)). Qed.
