(* Rawdb/Crash.v — L2: durability traces of rawdb and the crash monitor (C05, C12 crash part).
   A trace is the sequence of durability events one execution produced (the real library
   reports them through the verification tap; the harness abstracts them to this alphabet).
   `mon_step` is a DECIDABLE discipline; Rawdb/CrashInv.v, CrashSound.v, CrashReopen.v (OS mode),
   CrashLibDefs.v + CrashLib.v (LIB mode) and CrashCompact.v (punches) prove that a trace accepted
   by the monitor is safe at EVERY crash point and for EVERY choice of which page versions
   reached the disk.  DEFINITIONS ONLY. *)
From Anydb Require Import Common.Base Gen.Consts Rawdb.AMap Rawdb.Alloc.

(* data content written by an event: absolute address -> byte *)
Definition content := N -> N.

Inductive cev :=
| CSetLen (n : N)                          (* data file length; durable in order *)
| COp (ids : list N)                       (* a user operation starts; it addresses these region ids *)
| CEnd                                     (* it returned *)
| CMeta (slot : N) (v : option slotrec)    (* a 4096-byte slot of the regions file is rewritten; None = zeros *)
| CData (off len : N) (f : content)        (* bytes [off, off+len) of the data map are written *)
| CPunch (off len : N)                     (* fallocate(PUNCH_HOLE): the range reads as zeros *)
| CDataSync                                (* fdatasync(data file) returned *)
| CMetaSync                                (* fdatasync(regions file) returned *)
| CPromote                                 (* pending holes became reusable *)
| CFlushed                                 (* Database::flush / compact returned Ok *)
| CRegionFlushed.                          (* Region::flush returned Ok(true) *)

Definition sr_start (r : slotrec) : N := let '(a, _, _, _) := r in a.
Definition sr_len (r : slotrec) : N := let '(_, l, _, _) := r in l.
Definition sr_reserved (r : slotrec) : N := let '(_, _, z, _) := r in z.
Definition sr_id (r : slotrec) : N := let '(_, _, _, i) := r in i.

Definition disjoint (a1 z1 a2 z2 : N) : bool := (a1 + z1 <=? a2) || (a2 + z2 <=? a1) || (z1 =? 0) || (z2 =? 0).

Record mon := mkMon {
  m_dur : list (N * option slotrec);      (* durable version of each slot ever written (absent = zeros) *)
  m_pend : list (N * option slotrec);     (* slot versions written since the last CMetaSync, oldest first *)
  m_pdata : list (N * N * content);       (* data ranges written or punched since the last CDataSync *)
  m_dmem : content;                       (* durable data bytes *)
  m_vmem : content;                       (* volatile data bytes *)
  m_len : N;
  m_cur : list N;                         (* ids addressed by the operation in progress *)
  m_flushed : option (list (N * slotrec) * content);  (* durable live slots and data at the last completed flush *)
  m_touched : list N                      (* ids addressed since then *)
}.

Definition mon_init : mon := mkMon [] [] [] (fun _ => 0) (fun _ => 0) 0 [] None [].

Fixpoint assoc_get {V} (k : N) (l : list (N * V)) : option V :=
  match l with [] => None | (k', v) :: t => if k' =? k then Some v else assoc_get k t end.
Fixpoint assoc_set {V} (k : N) (v : V) (l : list (N * V)) : list (N * V) :=
  match l with
  | [] => [(k, v)]
  | (k', v') :: t => if k' =? k then (k, v) :: t else (k', v') :: assoc_set k v t
  end.

Definition dur_of (m : mon) (i : N) : option slotrec :=
  match assoc_get i (m_dur m) with Some v => v | None => None end.

(* every version of slot i the disk may hold right now *)
Definition possible (m : mon) (i : N) : list (option slotrec) :=
  dur_of m i :: map snd (filter (fun p => fst p =? i) (m_pend m)).

Definition all_slots (m : mon) : list N :=
  nodup N.eq_dec (map fst (m_dur m) ++ map fst (m_pend m)).

Definition mem_in (x : N) (l : list N) : bool := existsb (fun y => y =? x) l.

(* M1: a new slot version must not collide with any version another slot may still have on disk *)
Definition meta_ok (m : mon) (i : N) (v : slotrec) : bool :=
  valid_slotrec v
  && (sr_start v + sr_reserved v <=? m_len m)
  && forallb (fun j =>
        (j =? i) ||
        forallb (fun w => match w with
                          | Some w' => disjoint (sr_start v) (sr_reserved v) (sr_start w') (sr_reserved w')
                          | None => true end) (possible m j))
      (all_slots m).

(* M2: the slot of a region that nobody addressed since the last completed flush is not rewritten *)
Definition untouched_slot_ok (m : mon) (i : N) : bool :=
  match m_flushed m with
  | Some (fl, _) => match assoc_get i fl with
                    | Some w => mem_in (sr_id w) (m_touched m)
                    | None => true
                    end
  | None => true
  end.

(* a slot is addressed by the operation in progress when one of its possible versions carries an
   id the operation names (a rename names both ids) *)
Definition slot_addressed (m : mon) (j : N) : bool :=
  existsb (fun w => match w with Some w' => mem_in (sr_id w') (m_cur m) | None => false end) (possible m j).

(* M3/M4: a data write or punch does not hit bytes that a possibly-durable version of a region
   NOT addressed by the current operation references *)
Definition data_ok (m : mon) (off len : N) : bool :=
  forallb (fun j =>
      slot_addressed m j ||
      forallb (fun w => match w with
                        | Some w' => disjoint off len (sr_start w') (sr_len w')
                        | None => true end) (possible m j))
    (all_slots m).

Fixpoint latest_pend (l : list (N * option slotrec)) (acc : list (N * option slotrec)) : list (N * option slotrec) :=
  match l with [] => acc | (i, v) :: t => latest_pend t (assoc_set i v acc) end.

(* M5: data is durable before the metadata that references it *)
Definition metasync_ok (m : mon) : bool :=
  forallb (fun p => match snd p with
                    | Some v => forallb (fun r => let '(off, len, _) := r in disjoint off len (sr_start v) (sr_len v)) (m_pdata m)
                    | None => true end)
          (latest_pend (m_pend m) []).

Definition live_durable (m : mon) : list (N * slotrec) :=
  flat_map (fun p => match snd p with Some v => [(fst p, v)] | None => [] end) (m_dur m).

Definition write_mem (mem : content) (off len : N) (f : content) : content :=
  fun a => if (off <=? a) && (a <? off + len) then f a else mem a.

(* one event: new monitor state and whether the discipline held *)
Definition mon_step (m : mon) (e : cev) : mon * bool :=
  match e with
  | CSetLen n =>
      (mkMon (m_dur m) (m_pend m) (m_pdata m) (m_dmem m) (m_vmem m) n (m_cur m) (m_flushed m) (m_touched m),
       m_len m <=? n)
  | COp ids =>
      (mkMon (m_dur m) (m_pend m) (m_pdata m) (m_dmem m) (m_vmem m) (m_len m) ids (m_flushed m) (ids ++ m_touched m), true)
  | CEnd =>
      (mkMon (m_dur m) (m_pend m) (m_pdata m) (m_dmem m) (m_vmem m) (m_len m) [] (m_flushed m) (m_touched m), true)
  | CMeta i v =>
      let ok := match v with Some v' => meta_ok m i v' | None => true end && untouched_slot_ok m i in
      (mkMon (m_dur m) (m_pend m ++ [(i, v)]) (m_pdata m) (m_dmem m) (m_vmem m) (m_len m) (m_cur m) (m_flushed m) (m_touched m), ok)
  | CData off len f =>
      if len =? 0 then (m, true) else
      (mkMon (m_dur m) (m_pend m) (m_pdata m ++ [(off, len, f)]) (m_dmem m) (write_mem (m_vmem m) off len f)
             (m_len m) (m_cur m) (m_flushed m) (m_touched m),
       data_ok m off len && (off + len <=? m_len m))
  | CPunch off len =>
      (mkMon (m_dur m) (m_pend m) (m_pdata m ++ [(off, len, fun _ => 0)]) (m_dmem m) (write_mem (m_vmem m) off len (fun _ => 0))
             (m_len m) (m_cur m) (m_flushed m) (m_touched m),
       data_ok m off len)
  | CDataSync =>
      (mkMon (m_dur m) (m_pend m) [] (m_vmem m) (m_vmem m) (m_len m) (m_cur m) (m_flushed m) (m_touched m), true)
  | CMetaSync =>
      (mkMon (latest_pend (m_pend m) (m_dur m)) [] (m_pdata m) (m_dmem m) (m_vmem m) (m_len m) (m_cur m) (m_flushed m) (m_touched m),
       metasync_ok m)
  | CPromote => (m, true)
  | CFlushed =>
      (mkMon (m_dur m) (m_pend m) (m_pdata m) (m_dmem m) (m_vmem m) (m_len m) (m_cur m)
             (Some (live_durable m, m_dmem m)) (m_cur m),   (* ids of an operation still in progress stay touched *)
       (* M6: flush returns only when no metadata write is pending and no live region has unsynced data *)
       match m_pend m with
       | [] => forallb (fun p => forallb (fun r => let '(off, len, _) := r in
                                                   disjoint off len (sr_start (snd p)) (sr_len (snd p))) (m_pdata m))
                       (live_durable m)
       | _ => false
       end)
  | CRegionFlushed => (m, true)
  end.

Fixpoint mon_run (m : mon) (t : list cev) : mon * bool :=
  match t with
  | [] => (m, true)
  | e :: t' => let '(m1, ok) := mon_step m e in
               if ok then mon_run m1 t' else (m1, false)
  end.

(* index of the first rejected event, for the replay *)
Fixpoint mon_first_bad (m : mon) (t : list cev) (k : N) : option N :=
  match t with
  | [] => None
  | e :: t' => let '(m1, ok) := mon_step m e in
               if ok then mon_first_bad m1 t' (k + 1) else Some k
  end.

(* ---- crash images ------------------------------------------------------------------------------ *)
(* OS mode: every slot holds one of its possible versions; every data byte holds its durable
   value or a value written since the last data sync *)
Definition os_slots (m : mon) (sigma : N -> option slotrec) : Prop :=
  forall i, In (sigma i) (possible m i).
Definition os_data (m : mon) (img : content) : Prop :=
  forall a, img a = m_dmem m a \/
            exists off len f, In (off, len, f) (m_pdata m) /\ off <= a < off + len /\ img a = f a.

(* the regions recovered from an image: the live versions chosen *)
Definition recovered (m : mon) (sigma : N -> option slotrec) : list (N * slotrec) :=
  flat_map (fun i => match sigma i with Some v => [(i, v)] | None => [] end) (all_slots m).

Definition pairwise_disjoint (l : list (N * slotrec)) : Prop :=
  forall i j v w, In (i, v) l -> In (j, w) l -> i <> j ->
    disjoint (sr_start v) (sr_reserved v) (sr_start w) (sr_reserved w) = true.

Definition inside_file (m : mon) (l : list (N * slotrec)) : Prop :=
  forall i v, In (i, v) l -> valid_slotrec v = true /\ sr_start v + sr_reserved v <= m_len m.
