(* Rawdb/AllocDisciplinedRetain.v — tie between the allocator model and the crash monitor, part 9
   (proof file): Database::retain_regions zeroes the slots of all removed regions inside one
   operation bracket: the multi-slot variant of ms_sound. *)
From Anydb Require Import Common.Base Gen.Consts Rawdb.AMap Rawdb.Alloc Rawdb.AllocSpec Rawdb.AllocInv
  Rawdb.AllocFacts Rawdb.AMapFacts Rawdb.CoverFacts Rawdb.AllocErr Rawdb.InvRemove Rawdb.CompactFacts Rawdb.InvStep
  Rawdb.Crash Rawdb.CrashFacts Rawdb.CrashInv Rawdb.CrashSound Rawdb.AllocEvents Rawdb.AllocDisciplined
  Rawdb.AllocDisciplinedOps.

Definition zev (i : N) : cev := CMeta i None.
Definition zent (i : N) : N * option slotrec := (i, None).

Lemma mem_in_In x l : mem_in x l = true <-> In x l.
Proof.
  unfold mem_in. rewrite existsb_exists. split.
  - intros (y & Hy & E). assert (y = x) by lia. subst. exact Hy.
  - intros H. exists x. split; [exact H|apply N.eqb_refl].
Qed.

Lemma untouched_cong m m' i :
  m_flushed m' = m_flushed m -> m_touched m' = m_touched m -> untouched_slot_ok m' i = untouched_slot_ok m i.
Proof. intros H1 H2. unfold untouched_slot_ok. rewrite H1, H2. reflexivity. Qed.

Lemma run_zero_metas R : forall m2 rest,
  (forall i, In i R -> untouched_slot_ok m2 i = true) ->
  exists m3, mon_run m2 (map zev R ++ rest) = mon_run m3 rest
    /\ m_pend m3 = m_pend m2 ++ map zent R /\ m_dur m3 = m_dur m2 /\ m_pdata m3 = m_pdata m2
    /\ m_len m3 = m_len m2 /\ m_cur m3 = m_cur m2 /\ m_flushed m3 = m_flushed m2 /\ m_touched m3 = m_touched m2.
Proof.
  induction R as [|i t IH]; intros m2 rest H.
  - exists m2. cbn [map app]. rewrite app_nil_r. repeat split; reflexivity.
  - cbn [map app]. change (zev i) with (CMeta i None). rewrite mon_run_cons. cbn [mon_step fst snd].
    rewrite (H i (or_introl eq_refl)). cbn [andb].
    set (m2' := mkMon _ _ _ _ _ _ _ _ _).
    destruct (IH m2' rest) as (m3 & R3 & A1 & A2 & A3 & A4 & A5 & A6 & A7).
    { intros j Hj. rewrite <- (H j (or_intror Hj)). apply untouched_cong; reflexivity. }
    exists m3. split; [exact R3|]. split; [|repeat split; assumption].
    rewrite A1. unfold m2'. cbn [m_pend]. rewrite <- app_assoc. reflexivity.
Qed.

Lemma pend_of_zeros_none R j x : In x (pend_of (map zent R) j) -> x = None.
Proof. rewrite in_pend_of, in_map_iff. intros (i & E & _). unfold zent in E. congruence. Qed.

Lemma pend_of_zeros_nil R j : mem_in j R = false -> pend_of (map zent R) j = [].
Proof.
  induction R as [|i t IH]; intros H; [reflexivity|].
  unfold mem_in in H. cbn [existsb] in H. apply orb_false_iff in H. destruct H as [H1 H2].
  cbn [map]. change (zent i :: map zent t) with ([zent i] ++ map zent t).
  rewrite pend_of_app. unfold zent at 1. rewrite pend_of_one, H1. apply IH. exact H2.
Qed.

Lemma pend_of_zeros_ne R j : In j R -> pend_of (map zent R) j <> [].
Proof.
  intros H E. assert (Hin : In None (pend_of (map zent R) j)).
  { apply in_pend_of. apply in_map_iff. exists j. split; [reflexivity|exact H]. }
  rewrite E in Hin. destruct Hin.
Qed.

Lemma last_app_nones (l1 l2 : list (option slotrec)) :
  l2 <> [] -> (forall x, In x l2 -> x = None) -> last (l1 ++ l2) None = None.
Proof.
  intros Hne Hall. destruct (exists_last Hne) as (l' & a & ->).
  rewrite app_assoc, last_last. apply Hall. apply in_or_app. right. left. reflexivity.
Qed.

Section RetainSound.
  Variables (s s' : st) (ids R : list N) (m : mon).
  Hypotheses (HI : Inv s) (HK : K m) (HC : Cpl s m).
  Hypothesis Hfl : file_len s' = file_len s.
  Hypothesis Hp : forall p z, In (p, z) (pend s) -> In (p, z) (pend s').
  Hypothesis Hsl : forall j, slot s' j = if mem_in j R then None else slot s j.
  Hypothesis Hrf : forall j, rf s' j = if mem_in j R then None else rf s j.
  Hypothesis HR : forall j, In j R -> exists mj, slot s j = Some mj
                     /\ In (r_start mj, r_reserved mj) (pend s')
                     /\ (forall v, rf s j = Some v -> mem_in (sr_id v) ids = true).

  Lemma pend_ne' : pend s <> [] -> pend s' <> [].
  Proof.
    destruct (pend s) as [|[p z] t] eqn:E; [congruence|]. intros _ E'.
    pose proof (Hp p z (or_introl eq_refl)) as H. rewrite E' in H. destruct H.
  Qed.

  Theorem retain_sound :
    snd (mon_run m (COp ids :: map zev R ++ [CEnd])) = true
    /\ Cpl s' (fst (mon_run m (COp ids :: map zev R ++ [CEnd]))).
  Proof.
    rewrite mon_run_cons. cbn [mon_step fst snd].
    set (m1 := mkMon _ _ _ _ _ _ _ _ _).
    assert (Hunt : forall i, In i R -> untouched_slot_ok m1 i = true).
    { intros i Hi. unfold untouched_slot_ok, m1. cbn [m_flushed m_touched].
      pose proof (c_fl s m HC) as Hf. destruct (m_flushed m) as [[fl fm]|]; [|reflexivity].
      destruct (assoc_get i fl) as [w|] eqn:Eg; [|reflexivity].
      rewrite mem_in_app. destruct (mem_in (sr_id w) (m_touched m)) eqn:Et; [apply orb_true_r|].
      destruct (HR i Hi) as (_ & _ & _ & Hid). rewrite (Hid w (Hf i w Eg Et)). reflexivity. }
    destruct (run_zero_metas R m1 [CEnd] Hunt) as (m3 & R3 & A1 & A2 & A3 & A4 & A5 & A6 & A7).
    rewrite R3, mon_run_cons. cbn [mon_step fst snd mon_run]. split; [reflexivity|].
    assert (Hposs : forall j, possible (mkMon (m_dur m3) (m_pend m3) (m_pdata m3) (m_dmem m3) (m_vmem m3) (m_len m3) []
                                          (m_flushed m3) (m_touched m3)) j
                              = possible m j ++ pend_of (map zent R) j).
    { intros j. rewrite !possible_eq. cbn [m_dur m_pend]. rewrite A1, A2. unfold m1. cbn [m_dur m_pend].
      rewrite pend_of_app. reflexivity. }
    assert (Hsome : forall j w, In (Some w) (possible m j ++ pend_of (map zent R) j) -> In (Some w) (possible m j)).
    { intros j w H. apply in_app_or in H. destruct H as [H|H]; [exact H|].
      apply pend_of_zeros_none in H. discriminate. }
    constructor; cbn [m_len m_cur m_flushed m_touched m_pend m_pdata].
    - rewrite A4, Hfl. apply (c_len s m HC).
    - reflexivity.
    - intros j. unfold vol_of. rewrite Hposs, Hrf. destruct (mem_in j R) eqn:Ej.
      + apply last_app_nones; [apply pend_of_zeros_ne; apply mem_in_In; exact Ej|apply pend_of_zeros_none].
      + rewrite (pend_of_zeros_nil R j Ej), app_nil_r. apply (c_vol s m HC).
    - intros j w a Hw Ha. rewrite Hposs in Hw. apply Hsome in Hw.
      destruct (c_geo s m HC j w a Hw Ha) as [(mj & Hj & Hst & Hr)|(p & z & Hin & Hr)].
      + destruct (mem_in j R) eqn:Ej.
        * right. destruct (HR j (proj1 (mem_in_In j R) Ej)) as (mj' & Hj' & Hpin & _).
          rewrite Hj in Hj'. injection Hj' as <-. exists (r_start mj), (r_reserved mj). auto.
        * left. exists mj. rewrite Hsl, Ej. auto.
      + right. exists p, z. auto.
    - rewrite A6, A7. unfold m1. cbn [m_flushed m_touched].
      pose proof (c_fl s m HC) as Hf. destruct (m_flushed m) as [[fl fm]|]; [|exact I].
      intros k w Hg Ht. rewrite mem_in_app in Ht. apply orb_false_iff in Ht. destruct Ht as [Ht1 Ht2].
      pose proof (Hf k w Hg Ht2) as Hk. rewrite Hrf. destruct (mem_in k R) eqn:Ek; [|exact Hk].
      destruct (HR k (proj1 (mem_in_In k R) Ek)) as (_ & _ & _ & Hid). rewrite (Hid w Hk) in Ht1. discriminate.
    - intros k x Hx. rewrite A1 in Hx. unfold m1 in Hx. cbn [m_pend] in Hx.
      assert (HinR : mem_in k R = true -> rf s' k = None /\ pend s' <> []).
      { intros Ek. split; [rewrite Hrf, Ek; reflexivity|].
        destruct (HR k (proj1 (mem_in_In k R) Ek)) as (mj & _ & Hpin & _). intros E. rewrite E in Hpin. destruct Hpin. }
      apply in_app_or in Hx. destruct Hx as [Hx|Hx].
      + destruct (mem_in k R) eqn:Ek; [right; apply HinR; reflexivity|].
        destruct (c_pend s m HC k x Hx) as [(mk & Hs & Hst)|[Hn Hpn]].
        * left. exists mk. rewrite Hsl, Ek. auto.
        * right. split; [rewrite Hrf, Ek; exact Hn|apply pend_ne'; exact Hpn].
      + right. apply HinR. apply in_map_iff in Hx. destruct Hx as (i & E & Hi). unfold zent in E.
        injection E as <- _. apply mem_in_In. exact Hi.
    - intros off len f j mj Hx Hj Hnd. rewrite A3 in Hx. rewrite Hsl in Hj.
      destruct (mem_in j R); [discriminate|]. exact (c_pdata s m HC off len f j mj Hx Hj Hnd).
  Qed.
End RetainSound.

(* ---- the allocator side -------------------------------------------------------------------------------------- *)
Fixpoint retain_idx (l : list (option rmeta)) (keep : list N) (i : N) : list N :=
  match l with
  | [] => []
  | Some m :: t => if in_keep keep m then retain_idx t keep (i + 1) else i :: retain_idx t keep (i + 1)
  | None :: t => retain_idx t keep (i + 1)
  end.

Lemma retain_events_idx l keep : forall i, retain_events l keep i = map zev (retain_idx l keep i).
Proof.
  induction l as [|[m|] t IH]; intros i; cbn [retain_events retain_idx map]; [reflexivity| |apply IH].
  destruct (in_keep keep m); cbn [map]; rewrite IH; reflexivity.
Qed.

Lemma mem_in_cons x a l : mem_in x (a :: l) = (a =? x) || mem_in x l.
Proof. reflexivity. Qed.

Lemma retain_from_obs l : forall sc keep i0 s',
  Inv sc -> (forall k mk, nth_opt l k = Some (Some mk) -> slot sc (i0 + N.of_nat k) = Some mk) ->
  retain_from l sc keep i0 = AOk s' ->
  file_len s' = file_len sc
  /\ (forall p z, In (p, z) (pend sc) -> In (p, z) (pend s'))
  /\ (forall j, slot s' j = if mem_in j (retain_idx l keep i0) then None else slot sc j)
  /\ (forall j, rf s' j = if mem_in j (retain_idx l keep i0) then None else rf sc j)
  /\ (forall j, In j (retain_idx l keep i0) ->
        exists mj, slot sc j = Some mj /\ in_keep keep mj = false /\ In (r_start mj, r_reserved mj) (pend s')).
Proof.
  induction l as [|[m0|] t IH]; intros sc keep i0 s' HIc Hl E; cbn [retain_from retain_idx] in *.
  - injection E as <-. repeat split; auto. intros j [].
  - assert (Hshift : forall sx, (forall j, j <> i0 -> slot sx j = slot sc j) ->
              forall k mk, nth_opt t k = Some (Some mk) -> slot sx (i0 + 1 + N.of_nat k) = Some mk).
    { intros sx Hsx k mk Hk. rewrite Hsx by lia.
      replace (i0 + 1 + N.of_nat k) with (i0 + N.of_nat (S k)) by lia. apply Hl. exact Hk. }
    assert (H0 : slot sc i0 = Some m0).
    { replace i0 with (i0 + N.of_nat 0) by lia. apply Hl. reflexivity. }
    change (existsb (fun x => x =? r_id m0) keep) with (in_keep keep m0) in E.
    destruct (in_keep keep m0) eqn:Ek.
    + apply (IH sc keep (i0 + 1) s' HIc); [apply Hshift; auto|exact E].
    + destruct (remove_idx sc i0) as [s1| |] eqn:Er; cbn [abind] in E; try discriminate.
      destruct (remove_idx_obs sc i0 m0 s1 HIc H0 Er) as (O1 & O2 & O3 & O4 & O5 & O6).
      destruct (inv_remove_idx sc i0 s1 HIc Er) as [HI1 _].
      destruct (IH s1 keep (i0 + 1) s' HI1) as (I1 & I2 & I3 & I4 & I5); [|exact E|].
      { apply Hshift. intros j Hj. rewrite O4. replace (j =? i0) with false by lia. reflexivity. }
      split; [lia|]. split; [auto|]. split; [|split].
      * intros j. rewrite mem_in_cons, I3, O4. destruct (i0 =? j) eqn:Ej.
        -- replace (j =? i0) with true by lia. cbn [orb]. destruct (mem_in j _); reflexivity.
        -- replace (j =? i0) with false by lia. reflexivity.
      * intros j. rewrite mem_in_cons, I4. destruct (i0 =? j) eqn:Ej.
        -- assert (j = i0) by lia. subst j. rewrite O6. cbn [orb]. destruct (mem_in i0 _); reflexivity.
        -- cbn [orb]. rewrite (O5 j) by lia. reflexivity.
      * intros j [<-|Hj].
        -- exists m0. auto.
        -- destruct (I5 j Hj) as (mj & Hsj & Hk & Hpin). rewrite O4 in Hsj.
           destruct (j =? i0); [discriminate|]. exists mj. auto.
  - apply (IH sc keep (i0 + 1) s' HIc); [|exact E].
    intros k mk Hk. replace (i0 + 1 + N.of_nat k) with (i0 + N.of_nat (S k)) by lia. apply Hl. exact Hk.
Qed.

Lemma retain_ids_in l keep mj :
  In (Some mj) l -> in_keep keep mj = false -> r_state mj <> ST_WRITE -> In (r_id mj) (retain_ids l keep).
Proof.
  induction l as [|[m0|] t IH]; intros Hin Hk Hst; cbn [retain_ids]; [destruct Hin| |].
  - destruct Hin as [E|Hin].
    + injection E as ->. rewrite Hk. replace (r_state mj =? ST_WRITE) with false by lia. left. reflexivity.
    + destruct (in_keep keep m0 || (r_state m0 =? ST_WRITE)); [|right]; apply IH; assumption.
  - destruct Hin as [E|Hin]; [discriminate|]. apply IH; assumption.
Qed.

Theorem ok_retain orc s m keep : Inv s -> K m -> Cpl s m -> step_ok orc s (Retain keep) m.
Proof.
  intros HI HK HC. destruct (step s (Retain keep)) as [[s' r]|s1 e|] eqn:E.
  2:{ pose proof E as E0. cbn [step] in E. pose proof (retain_err s keep s1 e HI E) as Es. subst s1.
      apply (ok_err orc s _ m e HI HK HC E0). }
  2:{ apply (ok_panic orc s _ m HI HK HC E). }
  pose proof E as E0. cbn [step] in E. unfold retain in E.
  destruct (retain_blocked s keep); [discriminate|].
  destruct (retain_from (slots s) s keep 0) as [s1| |] eqn:Er; cbn [abind] in E; try discriminate.
  injection E as <- <-.
  destruct (retain_from_obs (slots s) s keep 0 s1 HI) as (O1 & O2 & O3 & O4 & O5); [|exact Er|].
  { intros k mk Hk. unfold slot, get. replace (N.to_nat (0 + N.of_nat k)) with k by lia. rewrite Hk. reflexivity. }
  unfold step_ok.
  assert (Est : fst (step_total s (Retain keep)) = set_held s1 (filter (fun x => existsb (fun y => y =? x) keep) (held s1)))
    by (unfold step_total; rewrite E0; reflexivity).
  assert (Eev : step_events_o orc s (Retain keep)
                = COp (retain_ids (slots s) keep) :: map zev (retain_idx (slots s) keep 0) ++ [CEnd]).
  { unfold step_events_o, closer. rewrite E0. cbn [body_events op_ids]. rewrite retain_events_idx. reflexivity. }
  rewrite Est, Eev.
  apply (retain_sound s _ (retain_ids (slots s) keep) (retain_idx (slots s) keep 0) m HC); try assumption.
  intros j Hj. destruct (O5 j Hj) as (mj & Hsj & Hk & Hpin). exists mj. split; [exact Hsj|]. split; [exact Hpin|].
  intros v Hv. destruct (rf_some_slot s j v HI Hv) as (m0 & Hs0 & Hst & Hrec). rewrite Hsj in Hs0. injection Hs0 as <-.
  subst v. apply mem_in_In. unfold rec_of, sr_id.
  apply (retain_ids_in (slots s) keep mj (slot_in_slots s j mj Hsj) Hk Hst).
Qed.
