(* Rawdb/HolesFacts.v — start_to_hole / hole_to_starts stay in agreement under insert_hole,
   remove_hole and remove_or_compress_hole; disjointness of extents from the cover clause.
   PROOF FILE. *)
From Coq Require Import Permutation.
From Anydb Require Import Common.Base Gen.Consts Rawdb.AMap Rawdb.Alloc Rawdb.AllocInv
  Rawdb.AMapFacts Rawdb.CoverFacts Rawdb.InvLayout.

Definition agrees (h : amap N) (q : amap (list N)) : Prop :=
  (forall start size, aget start h = Some size <-> exists l, aget size q = Some l /\ In start l)
  /\ (forall size l, aget size q = Some l -> l <> [] /\ NoDup l).

Definition holes_wf (h : amap N) (q : amap (list N)) : Prop := asorted h /\ asorted q /\ agrees h q.

Lemma aget_h2s_push q z a size :
  aget size (h2s_push q z a) =
  if size =? z then Some (match aget z q with Some l => l ++ [a] | None => [a] end) else aget size q.
Proof. unfold h2s_push. destruct (aget z q); apply aget_ains. Qed.

Lemma aget_h2s_drop q z a l size :
  asorted q -> aget z q = Some l ->
  aget size (h2s_drop q z a) =
  if size =? z then match filter (fun x => negb (x =? a)) l with [] => None | y :: t => Some (y :: t) end
  else aget size q.
Proof.
  intros Hs Hl. unfold h2s_drop. rewrite Hl.
  destruct (filter (fun x => negb (x =? a)) l); [now apply aget_arem|apply aget_ains].
Qed.

Lemma holes_wf_insert h q a z : holes_wf h q -> aget a h = None -> holes_wf (ains a z h) (h2s_push q z a).
Proof.
  intros (Hsh & Hsq & Hag & Hne) Hnone. split; [now apply asorted_ains|].
  split. { unfold h2s_push. destruct (aget z q); now apply asorted_ains. }
  split.
  - intros start size. rewrite aget_ains, aget_h2s_push.
    destruct (start =? a) eqn:Ea.
    + assert (start = a) by lia; subst start. split.
      * intros [= <-]. rewrite N.eqb_refl. eexists. split; [reflexivity|].
        destruct (aget z q); [apply in_or_app; right|]; left; reflexivity.
      * intros (l & Hl & HI). destruct (size =? z) eqn:Ez; [f_equal; lia|]. exfalso.
        assert (Hx : aget a h = Some size) by (apply Hag; eauto). congruence.
    + split.
      * intros Hg. destruct (proj1 (Hag _ _) Hg) as (l & Hl & HI). destruct (size =? z) eqn:Ez.
        -- assert (size = z) by lia; subst size. eexists. split; [reflexivity|]. rewrite Hl.
           apply in_or_app; left; exact HI.
        -- eauto.
      * intros (l & Hl & HI). destruct (size =? z) eqn:Ez.
        -- assert (size = z) by lia; subst size. inversion Hl; subst l. clear Hl.
           destruct (aget z q) as [l0|] eqn:El0.
           ++ apply in_app_or in HI. destruct HI as [HI|[Hx|[]]]; [|lia]. apply Hag. eauto.
           ++ destruct HI as [Hx|[]]. lia.
        -- apply Hag. eauto.
  - intros size l. rewrite aget_h2s_push. destruct (size =? z) eqn:Ez; [|apply Hne].
    intros [= <-]. destruct (aget z q) as [l0|] eqn:El0.
    + split; [destruct l0; discriminate|].
      apply (Permutation_NoDup (Permutation_cons_append l0 a)). constructor; [|apply (Hne z l0 El0)].
      intros HI. assert (Hx : aget a h = Some z) by (apply Hag; eauto). congruence.
    + split; [discriminate|]. constructor; [intros []|constructor].
Qed.

Lemma holes_wf_remove h q a z : holes_wf h q -> aget a h = Some z -> holes_wf (arem a h) (h2s_drop q z a).
Proof.
  intros (Hsh & Hsq & Hag & Hne) Hsome.
  destruct (proj1 (Hag a z) Hsome) as (l & Hl & HIa).
  split; [now apply asorted_arem|].
  split. { unfold h2s_drop. rewrite Hl. destruct (filter _ l); [now apply asorted_arem|now apply asorted_ains]. }
  split.
  - intros start size. rewrite aget_arem by assumption. rewrite (aget_h2s_drop _ _ _ l) by assumption.
    set (fl := filter (fun x => negb (x =? a)) l).
    destruct (start =? a) eqn:Ea.
    + split; [discriminate|]. intros (l2 & Hl2 & HI2). exfalso. assert (start = a) by lia; subst start.
      destruct (size =? z) eqn:Ez.
      * destruct fl as [|y t] eqn:Efl; [discriminate|]. inversion Hl2; subst l2. rewrite <- Efl in HI2.
        subst fl. apply filter_In in HI2. destruct HI2 as [_ Hn]. rewrite N.eqb_refl in Hn. discriminate.
      * assert (Hx : aget a h = Some size) by (apply Hag; eauto). rewrite Hsome in Hx. inversion Hx. lia.
    + split.
      * intros Hg. destruct (proj1 (Hag _ _) Hg) as (l2 & Hl2 & HI2). destruct (size =? z) eqn:Ez; [|eauto].
        assert (size = z) by lia; subst size. rewrite Hl in Hl2; inversion Hl2; subst l2.
        assert (HIf : In start fl) by (apply filter_In; split; [assumption|rewrite Ea; reflexivity]).
        destruct fl as [|y t] eqn:Efl; [destruct HIf|]. eexists; split; [reflexivity|exact HIf].
      * intros (l2 & Hl2 & HI2). destruct (size =? z) eqn:Ez; [|apply Hag; eauto].
        assert (size = z) by lia; subst size. destruct fl as [|y t] eqn:Efl; [discriminate|].
        inversion Hl2; subst l2. rewrite <- Efl in HI2. apply filter_In in HI2. destruct HI2 as [HI2 _].
        apply Hag. eauto.
  - intros size l2. rewrite (aget_h2s_drop _ _ _ l) by assumption.
    destruct (size =? z); [|apply Hne].
    destruct (filter (fun x => negb (x =? a)) l) as [|y t] eqn:Efl; [discriminate|].
    intros [= <-]. split; [discriminate|]. rewrite <- Efl. apply NoDup_filter. apply (Hne z l Hl).
Qed.

Lemma inv_holes_wf s : Inv s -> holes_wf (holes s) (h2s s).
Proof.
  intros H. destruct (inv_sorted s H) as (_ & H2 & _ & _ & H5). split; [exact H2|]. split; [exact H5|].
  exact (inv_h2s s H).
Qed.

Lemma roc_spec s a by_ z :
  holes_wf (holes s) (h2s s) -> (forall x, a < x < a + z -> aget x (holes s) = None) ->
  aget a (holes s) = Some z -> 0 < by_ -> by_ <= z ->
  exists H Q, remove_or_compress_hole s a by_ = AOk (set_holes s H Q)
    /\ holes_wf H Q
    /\ (forall x, aget x H = if x =? a then None
                             else if (x =? a + by_) && (by_ <? z) then Some (z - by_) else aget x (holes s))
    /\ (forall x, (owners H x + cov (a, z) x = owners (holes s) x + cov ((a + by_)%N, (z - by_)%N) x)%nat).
Proof.
  intros Hwf Hin Hg Hpos Hle. pose proof Hwf as (Hsh & Hsq & _).
  unfold remove_or_compress_hole, remove_hole. rewrite Hg.
  pose proof (holes_wf_remove _ _ a z Hwf Hg) as Hwf1.
  destruct (z =? by_) eqn:E1.
  - exists (arem a (holes s)), (h2s_drop (h2s s) z a). split; [reflexivity|]. split; [exact Hwf1|]. split.
    + intros x. rewrite aget_arem by assumption. destruct (x =? a); [reflexivity|].
      destruct ((x =? a + by_) && (by_ <? z)) eqn:E; [lia|reflexivity].
    + intros x. pose proof (owners_arem a z (holes s) x Hg). replace (z - by_) with 0 by lia.
      rewrite cov_zero_size. lia.
  - destruct (by_ <? z) eqn:E2; [|lia].
    exists (ains (a + by_) (z - by_) (arem a (holes s))), (h2s_push (h2s_drop (h2s s) z a) (z - by_) (a + by_)).
    assert (Habs : aget (a + by_) (arem a (holes s)) = None).
    { rewrite aget_arem by assumption. destruct (a + by_ =? a) eqn:E; [reflexivity|]. apply Hin. lia. }
    split; [reflexivity|]. split; [now apply holes_wf_insert|]. split.
    + intros x. rewrite aget_ains, aget_arem by assumption.
      destruct (x =? a) eqn:Ea; destruct (x =? a + by_) eqn:Eb; cbn [andb]; try reflexivity. lia.
    + intros x. rewrite owners_ains_absent by assumption.
      pose proof (owners_arem a z (holes s) x Hg). lia.
Qed.

Lemma Forall_amap (P : ext -> Prop) (m : amap N) :
  (forall x v, aget x m = Some v -> P (x, v)) -> asorted m -> Forall P m.
Proof.
  intros H Hs. apply Forall_forall. intros [x v] HI. apply H. now apply in_aget.
Qed.

(* ---- disjointness of extents from the cover clause ---- *)
Lemma overlap_point e1 e2 :
  0 < snd e1 -> 0 < snd e2 -> fst e2 < fst e1 + snd e1 -> fst e1 < fst e2 + snd e2 ->
  covers e1 (N.max (fst e1) (fst e2)) = true /\ covers e2 (N.max (fst e1) (fst e2)) = true.
Proof. intros. unfold covers. lia. Qed.

Lemma disjoint_of_count (l : list ext) e1 e2 :
  (forall x, (owners l x <= 1)%nat) -> (forall x, (cov e1 x + cov e2 x <= owners l x)%nat) ->
  0 < snd e1 -> 0 < snd e2 ->
  fst e1 + snd e1 <= fst e2 \/ fst e2 + snd e2 <= fst e1.
Proof.
  intros Hle Hc Hp1 Hp2.
  destruct (N.le_gt_cases (fst e1 + snd e1) (fst e2)) as [|H1]; [left; assumption|].
  destruct (N.le_gt_cases (fst e2 + snd e2) (fst e1)) as [|H2]; [right; assumption|].
  exfalso. destruct (overlap_point e1 e2 Hp1 Hp2 H1 H2) as [Hc1 Hc2].
  specialize (Hc (N.max (fst e1) (fst e2))). specialize (Hle (N.max (fst e1) (fst e2))).
  rewrite (cov_true _ _ Hc1), (cov_true _ _ Hc2) in Hc. lia.
Qed.
