(* Conc/RwLock.v — MODEL (definitions only): writer-preferring read-write locks, thread programs,
   the rank discipline, the operational semantics (unordered writer queue and FIFO writer queue)
   and an executable step function + bounded breadth-first deadlock search.
   Proofs are in Conc/RwLockProofs.v.  DESIGN.md section 4, C11.

   Locks.  A lock is a pair (class, instance): `meta`, `dirty_bounds`, `pages` … exist once per
   region / vector; the RANK IS A FUNCTION OF THE CLASS ONLY, so two locks of one class held at
   once are never rank-monotone.  A mutex is the write-only case.

   Lock state.  DESIGN.md describes a lock by `readers : list tid`, `writer : option tid`,
   `waiting_w : list tid`.  Here these three are DERIVED from the thread records (a thread
   record carries its held list and the lock it is registered on as a waiting writer):
     readers l   = threads with (l, Rd) in `held`          (anyHolds / anyHoldsW)
     writer l    = the thread with (l, Wr) in `held`
     waiting_w l = threads with `wait = Some l`            (anyWaits); the FIFO semantics keeps
                   their arrival order in an explicit queue next to the thread list.
   parking_lot's RwLock: `read()` fails its fast path and parks as soon as a writer has set the
   writer bit — which a writer does when it starts waiting for the readers to drain — so a
   registered writer refuses NEW readers (task-fair policy); its queue is FIFO. *)
From Coq Require Import List Arith Lia Bool PeanoNat.
Import ListNotations.

Definition lock := (nat * nat)%type.            (* (class, instance) *)
Definition lock_eqb (a b : lock) : bool := Nat.eqb (fst a) (fst b) && Nat.eqb (snd a) (snd b).

Inductive mode := Rd | Wr.
Definition is_wr (m : mode) : bool := match m with Wr => true | Rd => false end.

(* `Join d` executed by the thread at index i waits for the thread at index i + 1 + d (a thread
   only joins threads it spawned: they come later in the thread list); joining a thread that
   does not exist is a no-op. *)
Inductive instr := Acq (l : lock) (m : mode) | Rel (l : lock) | Join (d : nat).
Definition prog := list instr.

Record thread := mkT { code : prog; held : list (lock * mode); wait : option lock }.
Definition state := list thread.

(* releases the most recent acquisition of l *)
Fixpoint drop1 (l : lock) (h : list (lock * mode)) : list (lock * mode) :=
  match h with
  | [] => []
  | x :: h' => if lock_eqb (fst x) l then h' else x :: drop1 l h'
  end.

Definition inh (h : list (lock * mode)) (l : lock) : bool := existsb (fun x => lock_eqb (fst x) l) h.
Definition holds_b (t : thread) (l : lock) : bool := inh (held t) l.
Definition holdsW_b (t : thread) (l : lock) : bool :=
  existsb (fun x => lock_eqb (fst x) l && is_wr (snd x)) (held t).
Definition waits_b (t : thread) (l : lock) : bool :=
  match wait t with Some l' => lock_eqb l' l | None => false end.
Definition anyHolds (s : state) (l : lock) : bool := existsb (fun t => holds_b t l) s.
Definition anyHoldsW (s : state) (l : lock) : bool := existsb (fun t => holdsW_b t l) s.
Definition anyWaits (s : state) (l : lock) : bool := existsb (fun t => waits_b t l) s.
Definition done_b (s : state) (j : nat) : bool :=
  match nth_error s j with
  | Some t => match code t with [] => true | _ => false end
  | None => true
  end.

(* ------------------------------------------------------------------ semantics, unordered queue
   Acq l Rd : enabled iff no writer holds l and no writer is registered on l.
   Acq l Wr : registration (wait := Some l) is a step of its own, after which new readers are
              refused; a registered writer takes l when nobody holds it (ANY registered writer:
              unordered queue); an unregistered writer may also take a free lock directly.
   Rel      : always enabled.      Join d : enabled iff thread i+1+d has finished (or is absent). *)
Inductive tstep (s : state) (i : nat) : thread -> thread -> Prop :=
| st_acq_r l p h : anyHoldsW s l = false -> anyWaits s l = false ->
    tstep s i (mkT (Acq l Rd :: p) h None) (mkT p ((l, Rd) :: h) None)
| st_reg_w l p h :
    tstep s i (mkT (Acq l Wr :: p) h None) (mkT (Acq l Wr :: p) h (Some l))
| st_acq_w l p h : anyHolds s l = false ->
    tstep s i (mkT (Acq l Wr :: p) h (Some l)) (mkT p ((l, Wr) :: h) None)
| st_acq_w_direct l p h : anyHolds s l = false ->
    tstep s i (mkT (Acq l Wr :: p) h None) (mkT p ((l, Wr) :: h) None)
| st_rel l p h w :
    tstep s i (mkT (Rel l :: p) h w) (mkT p (drop1 l h) w)
| st_join d p h w : done_b s (i + 1 + d) = true ->
    tstep s i (mkT (Join d :: p) h w) (mkT p h w).

Inductive step : state -> state -> Prop :=
| step_i s1 t t' s2 :
    tstep (s1 ++ t :: s2) (length s1) t t' -> step (s1 ++ t :: s2) (s1 ++ t' :: s2).

Inductive reach : state -> state -> Prop :=
| reach_refl s : reach s s
| reach_step s s' s'' : reach s s' -> step s' s'' -> reach s s''.

Definition start (progs : list prog) : state := map (fun p => mkT p [] None) progs.
Definition unfinished (s : state) : Prop := exists t, In t s /\ code t <> [].
(* a deadlock: somebody is unfinished and nobody can move *)
Definition deadlocked (s : state) : Prop := unfinished s /\ ~ exists s', step s s'.

(* ------------------------------------------------------------------ semantics, FIFO queue
   The registered writers are kept in arrival order; only the FIRST writer registered on l may
   take l; a direct acquisition needs an empty queue for l. *)
Definition queue := list (lock * nat).
Definition fstate := (state * queue)%type.
Definition qhas (q : queue) (l : lock) : bool := existsb (fun e => lock_eqb (fst e) l) q.
Definition qhead (q : queue) (l : lock) : option nat :=
  match find (fun e => lock_eqb (fst e) l) q with Some e => Some (snd e) | None => None end.
Definition qdel (q : queue) (i : nat) : queue := filter (fun e => negb (Nat.eqb (snd e) i)) q.

Inductive ftstep (s : state) (q : queue) (i : nat) : thread -> thread -> queue -> Prop :=
| ft_acq_r l p h : anyHoldsW s l = false -> anyWaits s l = false ->
    ftstep s q i (mkT (Acq l Rd :: p) h None) (mkT p ((l, Rd) :: h) None) q
| ft_reg_w l p h :
    ftstep s q i (mkT (Acq l Wr :: p) h None) (mkT (Acq l Wr :: p) h (Some l)) (q ++ [(l, i)])
| ft_acq_w l p h : anyHolds s l = false -> qhead q l = Some i ->
    ftstep s q i (mkT (Acq l Wr :: p) h (Some l)) (mkT p ((l, Wr) :: h) None) (qdel q i)
| ft_acq_w_direct l p h : anyHolds s l = false -> qhas q l = false ->
    ftstep s q i (mkT (Acq l Wr :: p) h None) (mkT p ((l, Wr) :: h) None) q
| ft_rel l p h w :
    ftstep s q i (mkT (Rel l :: p) h w) (mkT p (drop1 l h) w) q
| ft_join d p h w : done_b s (i + 1 + d) = true ->
    ftstep s q i (mkT (Join d :: p) h w) (mkT p h w) q.

Inductive fstep : fstate -> fstate -> Prop :=
| fstep_i s1 t t' s2 q q' :
    ftstep (s1 ++ t :: s2) q (length s1) t t' q' -> fstep (s1 ++ t :: s2, q) (s1 ++ t' :: s2, q').

Inductive freach : fstate -> fstate -> Prop :=
| freach_refl st : freach st st
| freach_step st st' st'' : freach st st' -> fstep st' st'' -> freach st st''.

Definition fstart (progs : list prog) : fstate := (start progs, []).
Definition fdeadlocked (st : fstate) : Prop := unfinished (fst st) /\ ~ exists st', fstep st st'.

(* ------------------------------------------------------------------ the rank discipline *)
Section Rank.
  Variable rank : nat -> nat.                   (* class -> rank *)
  Definition lrank (l : lock) : nat := rank (fst l).

  (* rank-monotone and balanced from held list h: every Acq while all held locks have strictly
     smaller rank; Rel only of a held lock; Join only with nothing held; ends with nothing held *)
  Fixpoint rm (h : list (lock * mode)) (p : prog) : Prop :=
    match p with
    | [] => h = []
    | Acq l m :: p' => (forall x, In x h -> lrank (fst x) < lrank l) /\ rm ((l, m) :: h) p'
    | Rel l :: p' => inh h l = true /\ rm (drop1 l h) p'
    | Join _ :: p' => h = [] /\ rm [] p'
    end.
  Definition rank_monotone (p : prog) : Prop := rm [] p.

  Definition is_nil {A} (l : list A) : bool := match l with [] => true | _ => false end.
  Fixpoint rm_b (h : list (lock * mode)) (p : prog) : bool :=
    match p with
    | [] => is_nil h
    | Acq l m :: p' => forallb (fun x => lrank (fst x) <? lrank l) h && rm_b ((l, m) :: h) p'
    | Rel l :: p' => inh h l && rm_b (drop1 l h) p'
    | Join _ :: p' => is_nil h && rm_b [] p'
    end.
  Definition rank_monotone_b (p : prog) : bool := rm_b [] p.
End Rank.

(* ------------------------------------------------------------------ executable FIFO semantics
   Deterministic per thread: an unregistered writer takes a free lock with an empty queue
   directly and registers otherwise (the relation also allows registering on a free lock; the
   registered writer can then always proceed, so no deadlock is lost). *)
Definition set_nth {A} (i : nat) (x : A) (l : list A) : list A := firstn i l ++ x :: skipn (S i) l.

Definition ftstep_f (s : state) (q : queue) (i : nat) (t : thread) : option (thread * queue) :=
  match code t with
  | [] => None
  | Acq l Rd :: p =>
      match wait t with
      | None => if anyHoldsW s l || anyWaits s l then None
                else Some (mkT p ((l, Rd) :: held t) None, q)
      | Some _ => None
      end
  | Acq l Wr :: p =>
      match wait t with
      | None => if anyHolds s l || qhas q l
                then Some (mkT (Acq l Wr :: p) (held t) (Some l), q ++ [(l, i)])
                else Some (mkT p ((l, Wr) :: held t) None, q)
      | Some l' =>
          if lock_eqb l' l && negb (anyHolds s l)
             && match qhead q l with Some j => Nat.eqb j i | None => false end
          then Some (mkT p ((l, Wr) :: held t) None, qdel q i) else None
      end
  | Rel l :: p => Some (mkT p (drop1 l (held t)) (wait t), q)
  | Join d :: p => if done_b s (i + 1 + d) then Some (mkT p (held t) (wait t), q) else None
  end.

Definition fstep_f (st : fstate) (i : nat) : option fstate :=
  match nth_error (fst st) i with
  | None => None
  | Some t => match ftstep_f (fst st) (snd st) i t with
              | None => None
              | Some (t', q') => Some (set_nth i t' (fst st), q')
              end
  end.

Definition schedule := list nat.               (* thread indices, in the order they step *)
Fixpoint frun (st : fstate) (sch : schedule) : option fstate :=
  match sch with
  | [] => Some st
  | i :: r => match fstep_f st i with Some st' => frun st' r | None => None end
  end.

Definition unfinished_b (s : state) : bool := existsb (fun t => negb (is_nil (code t))) s.
Definition stuck_b (st : fstate) : bool :=
  forallb (fun i => match fstep_f st i with None => true | Some _ => false end) (seq 0 (length (fst st))).
Definition dead_b (st : fstate) : bool := unfinished_b (fst st) && stuck_b st.

(* a schedule leads the FIFO model from the initial state into a deadlock *)
Definition check_deadlock (progs : list prog) (sch : schedule) : bool :=
  match frun (fstart progs) sch with Some st => dead_b st | None => false end.

(* bounded breadth-first search (for the search, not a proof; every hit is re-checked by
   check_deadlock).  A state is identified by the program counters, wait flags and queue. *)
Definition skey := (list (nat * bool) * list nat)%type.
Definition key_of (st : fstate) : skey :=
  (map (fun t => (length (code t), match wait t with Some _ => true | None => false end)) (fst st),
   map snd (snd st)).
Fixpoint list_eqb {A} (e : A -> A -> bool) (a b : list A) : bool :=
  match a, b with
  | [], [] => true
  | x :: a', y :: b' => e x y && list_eqb e a' b'
  | _, _ => false
  end.
Definition key_eqb (a b : skey) : bool :=
  list_eqb (fun x y => Nat.eqb (fst x) (fst y) && Bool.eqb (snd x) (snd y)) (fst a) (fst b)
  && list_eqb Nat.eqb (snd a) (snd b).
Definition seen_b (k : skey) (seen : list skey) : bool := existsb (key_eqb k) seen.

Definition succs (st : fstate) : list (nat * fstate) :=
  flat_map (fun i => match fstep_f st i with Some st' => [(i, st')] | None => [] end)
           (seq 0 (length (fst st))).

Fixpoint add_new (cands : list (nat * fstate)) (sch : schedule) (seen : list skey)
         (acc : list (fstate * schedule)) : list (fstate * schedule) * list skey :=
  match cands with
  | [] => (rev acc, seen)
  | (i, st') :: r =>
      let k := key_of st' in
      if seen_b k seen then add_new r sch seen acc
      else add_new r sch (k :: seen) ((st', i :: sch) :: acc)
  end.

Fixpoint bfs (fuel : nat) (frontier : list (fstate * schedule)) (seen : list skey) : option schedule :=
  match fuel with
  | O => None
  | S f =>
      match frontier with
      | [] => None
      | (st, sch) :: rest =>
          match succs st with
          | [] => if unfinished_b (fst st) then Some (rev sch) else bfs f rest seen
          | cs => let '(new, seen') := add_new cs sch seen [] in bfs f (rest ++ new) seen'
          end
      end
  end.

Definition find_deadlock (progs : list prog) (fuel : nat) : option schedule :=
  let st := fstart progs in bfs fuel [(st, [])] [key_of st].
