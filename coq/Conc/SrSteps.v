(* Conc/SrSteps.v — L3 step model of rawdb under concurrency (C10, C12 race part).
   The L1 operations of Rawdb/Alloc.v are split at LOCK-ACQUISITION granularity: a thread is
   always parked at a yield point (the begin of an operation, a lock acquisition reported by
   the lock tap, or a named pause point); one step = "pass the current yield point and run
   the code up to the next one".  The code between two yield points is transcribed from
   crates/rawdb/src/{region.rs, lib.rs, layout.rs, regions.rs, reader.rs}; state changes are
   attributed to the step in which the code performs them, locks are released in the step in
   which the code drops them.  Only the four database-level locks (layout, regions, mmap,
   file) can be held ACROSS a yield point: every meta / dirty_bounds guard in the operations
   modelled here is dropped before the next lock acquisition.
   MODEL ONLY: no proofs here.  Alloc.v is reused, not changed. *)
From Anydb Require Import Common.Base Gen.Consts Rawdb.AMap Rawdb.Alloc.

(* ---- labels of yield points --------------------------------------------------------------- *)
Inductive lk := KL | KR | KP | KF.          (* layout, regions, mmap, file *)

Inductive label :=
| LB (k : N)                    (* begin of the thread's k-th operation *)
| LLock (l : lk) (w : bool)     (* Database::{layout,regions,mmap,file}[_mut] *)
| LMeta (w : bool) (i : N)      (* Region::meta / meta_mut of slot i *)
| LDirty (i : N)                (* dirty_bounds of slot i *)
| LPause (p : N).               (* named pause point *)

Definition Z_FITS_AFTER_DATA : N := 0.      (* write_with:fits:after-data *)
Definition Z_RELOC_BEFORE_COPY : N := 1.    (* write_with:relocate:before-copy *)
Definition Z_RELOC_AFTER_COPY : N := 2.     (* write_with:relocate:after-copy *)
Definition Z_FLUSH_PROMOTE : N := 3.        (* flush:before-promote *)
Definition Z_FLUSH_PROMOTE_ND : N := 4.     (* flush:before-promote-no-dirty *)
Definition Z_PUNCH_LOCKS : N := 5.          (* punch_holes:locks-held *)

(* ---- thread programs ------------------------------------------------------------------------ *)
Inductive top :=
| TCreate (id : N)
| TWrite (id : N) (f : N -> N) (n : N) (at_ : option N) (trunc : bool)
| TTruncate (id from : N)
| TRename (id new_id : N)
| TRemove (id : N)
| TFlush
| TCompact
| TRdOpen (id : N)
| TRdRead
| TRdClose.

Inductive tres :=
| ROk | RNum (n : N) | RErr (e : aerr) | RPanic | RNoReader
| RRead (ln : N) (g : N -> N).     (* bytes obtained through the reader: g k for k < ln *)

(* locals of one write_with call (region.rs:140-322) *)
Record wloc := mkW {
  w_i : N; w_f : N -> N; w_n : N;
  w_start : N; w_reserved : N; w_len : N;       (* the snapshot taken under meta read *)
  w_wo : N; w_new_len : N;                      (* write_offset, new_len *)
  w_new_reserved : N; w_copy_len : N;
  w_new_start : N
}.
Definition w_set_new_start (w : wloc) (v : N) : wloc :=
  mkW (w_i w) (w_f w) (w_n w) (w_start w) (w_reserved w) (w_len w) (w_wo w) (w_new_len w)
      (w_new_reserved w) (w_copy_len w) v.

(* where a thread is parked *)
Inductive pc :=
| PIdle                                               (* at the begin of its next operation *)
(* write_with *)
| PW_Snap (i : N) (f : N -> N) (n : N) (at_ : option N) (trunc : bool)
| PWF_Data (w : wloc) | PWF_Mark (w : wloc) | PWF_Pause (w : wloc) | PWF_Regs (w : wloc) | PWF_Pub (w : wloc)
| PWG_Lay (w : wloc)
| PWE_SetRes (w : wloc) | PWE_Pw (w : wloc) | PWE_Fw (w : wloc)
| PWA_SetRes (w : wloc)
| PWX_Data (w : wloc) | PWX_Mark (w : wloc) | PWX_Regs (w : wloc) | PWX_Pub (w : wloc)
| PWR_LenMeta (w : wloc) (j : N) | PWR_Pw (w : wloc) | PWR_Fw (w : wloc)
| PWR_Before (w : wloc) | PWR_Copy (w : wloc) | PWR_Write (w : wloc) | PWR_After (w : wloc)
| PWR_Lay2 (w : wloc) | PWR_MoveMeta (w : wloc) | PWR_Mark (w : wloc) | PWR_Regs (w : wloc) | PWR_Pub (w : wloc)
(* truncate, rename, remove *)
| PT_Len (i from : N) | PT_Regs (i from : N) | PT_Pub (i from : N)
| PN_Id (id i new_id : N) | PN_Regs (id i new_id old : N) | PN_Pub (id i new_id old : N)
| PD_Id (id i : N) | PD_Lay (id i : N) | PD_Regs (id i : N) | PD_Meta1 (id i : N) | PD_Meta2 (id i : N)
(* create_region_if_needed *)
| PC_Get (id : N) | PC_Lay (id : N) | PC_LenMeta (id j : N) | PC_Pw (id tgt : N) | PC_Fw (id tgt : N)
| PC_Lay2 (id : N) | PC_Regs (id : N) | PC_LenMeta2 (id j : N)
(* Database::flush (c = called from compact); `dirty` = slots whose Region clones the call holds *)
| PF_Regs (c : bool)
| PF_Take (c : bool) (todo : list N) (acc : list (N * bool))
| PF_Need (c : bool) (k : N) (todo : list N) (acc : list (N * bool))
| PF_Start (c : bool) (todo : list N) (dirty : list N)
| PF_Msync (c : bool) (dirty : list N) | PF_RFlush (c : bool) (dirty : list N)
| PF_FSync (c : bool) (dirty : list N) | PF_RSync (c : bool) (dirty : list N)
| PF_Clean (c : bool) (todo : list N) (dirty : list N)
| PF_Pause (c : bool) (dirty : list N) | PF_Promote (c : bool) (dirty : list N)
| PF0_Lay (c : bool) | PF0_RFlush (c : bool) | PF0_RSync (c : bool) | PF0_Pause (c : bool) | PF0_Promote (c : bool)
(* punch_holes; `all` = slots whose Region clones the call holds until it returns *)
| PP_Lay | PP_Regs | PP_File (all : list N) | PP_Pause (all : list N)
| PP_Meta (todo all : list N) (punched : N) | PP_Sync (all : list N)
(* Reader::new *)
| PR_Get (id : N) | PR_Meta (i : N) | PR_Map (i start ln : N).

Record tstate := mkT {
  t_prog : list top;                  (* remaining operations; head = current one *)
  t_k : N;                            (* index of the current operation *)
  t_pc : pc;
  t_handles : list (N * N);           (* region id -> slot of the Region handles this thread holds *)
  t_reader : option (N * N * N);      (* live Reader: slot, start, len (+ the mmap read guard) *)
  t_results : list tres
}.

Definition set_pc (t : tstate) (p : pc) : tstate :=
  mkT (t_prog t) (t_k t) p (t_handles t) (t_reader t) (t_results t).
Definition set_handles (t : tstate) (h : list (N * N)) : tstate :=
  mkT (t_prog t) (t_k t) (t_pc t) h (t_reader t) (t_results t).
Definition set_reader (t : tstate) (r : option (N * N * N)) : tstate :=
  mkT (t_prog t) (t_k t) (t_pc t) (t_handles t) r (t_results t).
(* the current operation returns r *)
Definition finish (t : tstate) (r : tres) : tstate :=
  mkT (tl (t_prog t)) (t_k t + 1) PIdle (t_handles t) (t_reader t) (t_results t ++ [r]).

Definition t_finished (t : tstate) : bool :=
  match t_prog t, t_pc t with [], PIdle => true | _, _ => false end.

Fixpoint hget (id : N) (h : list (N * N)) : option N :=
  match h with [] => None | (k, v) :: r => if k =? id then Some v else hget id r end.
Definition hdel (id : N) (h : list (N * N)) : list (N * N) := filter (fun kv => negb (fst kv =? id)) h.
Definition hput (id i : N) (h : list (N * N)) : list (N * N) := (id, i) :: hdel id h.

(* ---- the label at which a thread is parked ------------------------------------------------- *)
Definition pc_label (k : N) (p : pc) : label :=
  match p with
  | PIdle => LB k
  | PW_Snap i _ _ _ _ => LMeta false i
  | PWF_Data _ | PWX_Data _ | PWR_Copy _ | PWR_Write _ => LLock KP false
  | PWF_Mark w | PWX_Mark w | PWR_Mark w => LDirty (w_i w)
  | PWF_Pause _ => LPause Z_FITS_AFTER_DATA
  | PWF_Regs _ | PWX_Regs _ | PWR_Regs _ => LLock KR false
  | PWF_Pub w | PWX_Pub w | PWR_Pub w | PWE_SetRes w | PWA_SetRes w => LMeta true (w_i w)
  | PWG_Lay _ | PWR_Lay2 _ => LLock KL true
  | PWE_Pw _ | PWR_Pw _ => LLock KP true
  | PWE_Fw _ | PWR_Fw _ => LLock KF true
  | PWR_LenMeta _ j => LMeta false j
  | PWR_Before _ => LPause Z_RELOC_BEFORE_COPY
  | PWR_After _ => LPause Z_RELOC_AFTER_COPY
  | PWR_MoveMeta w => LMeta false (w_i w)
  | PT_Len i _ => LMeta false i
  | PT_Regs _ _ => LLock KR false
  | PT_Pub i _ => LMeta true i
  | PN_Id _ i _ => LMeta false i
  | PN_Regs _ _ _ _ => LLock KR true
  | PN_Pub _ i _ _ => LMeta true i
  | PD_Id _ i => LMeta false i
  | PD_Lay _ _ => LLock KL true
  | PD_Regs _ _ => LLock KR true
  | PD_Meta1 _ i | PD_Meta2 _ i => LMeta false i
  | PC_Get _ => LLock KR false
  | PC_Lay _ => LLock KL false
  | PC_LenMeta _ j | PC_LenMeta2 _ j => LMeta false j
  | PC_Pw _ _ => LLock KP true
  | PC_Fw _ _ => LLock KF true
  | PC_Lay2 _ => LLock KL true
  | PC_Regs _ => LLock KR true
  | PF_Regs _ => LLock KR false
  | PF_Take _ todo _ => LDirty (hd 0 todo)
  | PF_Need _ k _ _ => LMeta false k
  | PF_Start _ todo _ => LMeta false (hd 0 todo)
  | PF_Msync _ _ => LLock KP false
  | PF_RFlush _ _ | PF_RSync _ _ => LLock KR false
  | PF_FSync _ _ => LLock KF false
  | PF_Clean _ todo _ => LMeta false (hd 0 todo)
  | PF_Pause _ _ => LPause Z_FLUSH_PROMOTE
  | PF_Promote _ _ | PF0_Promote _ => LLock KL true
  | PF0_Lay _ => LLock KL false
  | PF0_RFlush _ | PF0_RSync _ => LLock KR false
  | PF0_Pause _ => LPause Z_FLUSH_PROMOTE_ND
  | PP_Lay => LLock KL false
  | PP_Regs => LLock KR false
  | PP_File _ | PP_Sync _ => LLock KF false
  | PP_Pause _ => LPause Z_PUNCH_LOCKS
  | PP_Meta todo _ _ => LMeta true (hd 0 todo)
  | PR_Get _ => LLock KR false
  | PR_Meta i => LMeta false i
  | PR_Map _ _ _ => LLock KP false
  end.

Definition t_label (t : tstate) : label := pc_label (t_k t) (t_pc t).

(* ---- locks held while parked: 0 = none, 1 = shared, 2 = exclusive ------------------------ *)
Definition pc_holds (p : pc) (l : lk) : N :=
  match p, l with
  | (PWE_SetRes _ | PWA_SetRes _ | PWR_LenMeta _ _ | PWR_MoveMeta _ | PWR_Mark _ | PWR_Regs _ | PWR_Pub _), KL => 2
  | PWR_Pub _, KR => 1
  | (PWF_Pub _ | PWX_Pub _), KR => 1
  | (PWE_Fw _ | PWR_Fw _ | PC_Fw _ _), KP => 2
  | PT_Pub _ _, KR => 1
  | PN_Pub _ _ _ _, KR => 2
  | (PD_Regs _ _ | PD_Meta1 _ _ | PD_Meta2 _ _), KL => 2
  | (PD_Meta1 _ _ | PD_Meta2 _ _), KR => 2
  | PC_LenMeta _ _, KL => 1
  | (PC_Regs _ | PC_LenMeta2 _ _), KL => 2
  | PC_LenMeta2 _ _, KR => 2
  | (PF_Take _ _ _ | PF_Need _ _ _ _), KR => 1
  | (PP_Regs | PP_File _ | PP_Pause _ | PP_Meta _ _ _), KL => 1
  | (PP_Pause _ | PP_Meta _ _ _), KF => 1
  | _, _ => 0
  end.

Definition t_holds (t : tstate) (l : lk) : N :=
  match l, t_reader t with
  | KP, Some _ => N.max 1 (pc_holds (t_pc t) l)
  | _, _ => pc_holds (t_pc t) l
  end.

(* Region clones (Arc references) a parked thread holds besides its own handles: they make
   Region::remove of another thread fail with RegionStillReferenced *)
Definition pc_clones (p : pc) : list N :=
  match p with
  | PF_Start _ _ d | PF_Msync _ d | PF_RFlush _ d | PF_FSync _ d | PF_RSync _ d
  | PF_Clean _ _ d | PF_Pause _ d | PF_Promote _ d => d
  | PF_Take _ _ acc | PF_Need _ _ _ acc => map fst acc
  | PP_File a | PP_Pause a | PP_Meta _ a _ | PP_Sync a => a
  | PR_Meta i | PR_Map i _ _ => [i]
  | _ => []
  end.
Definition t_clones (t : tstate) : list N :=
  pc_clones (t_pc t) ++ match t_reader t with Some (i, _, _) => [i] | None => [] end.

Definition mem_n (x : N) (l : list N) : bool := existsb (fun y => y =? x) l.

(* ---- helpers --------------------------------------------------------------------------------- *)
Fixpoint live_from (l : list (option rmeta)) (i : N) : list N :=
  match l with
  | [] => []
  | Some _ :: t => i :: live_from t (i + 1)
  | None :: t => live_from t (i + 1)
  end.
Definition live_slots (s : st) : list N := live_from (slots s) 0.

(* Database::set_min_len's unlocked first check *)
Definition needs_growth (s : st) (n : N) : bool := negb (ceil_page n <=? file_len s).

(* approx_has_punchable_data (lib.rs:555): first and last byte of the first and of the last page *)
Definition check_page (s : st) (p : N) : bool :=
  ((p <? file_len s) && negb (mem s p =? 0)) || ((p + PAGE_SIZE_MINUS_1 <? file_len s) && negb (mem s (p + PAGE_SIZE_MINUS_1) =? 0)).
Definition approx_punchable (s : st) (start ln : N) : bool :=
  check_page s start || (negb (start + ln - PAGE_SIZE =? start) && check_page s (start + ln - PAGE_SIZE)).

Definition punch (s : st) (start ln : N) : st * N :=
  if approx_punchable s start ln then (set_mem s (mem_zero (mem s) start ln), 1) else (s, 0).

Definition punch_region (s : st) (k : N) : st * N :=
  match slot s k with
  | Some m =>
      let c := ceil_page (r_len m) in
      if c <? r_reserved m then punch s (r_start m + c) (r_reserved m - c) else (s, 0)
  | None => (s, 0)
  end.

Definition punch_holes_of (s : st) : st * N :=
  fold_left (fun sn h => let '(s1, n1) := punch (fst sn) (fst h) (snd h) in (s1, snd sn + n1)) (holes s) (s, 0).

(* Regions::create + Layout::insert_region at `start` *)
Definition do_create (s : st) (id start : N) : option (st * N) :=
  let i := first_free (slots s) 0 in
  let m := mkR start NEW_REGION_LEN NEW_REGION_RESERVED id ST_WRITE u64_max 0 in
  let rf := if len (rfile s) <? i + 1 then rfile s ++ repeat None (N.to_nat (i + 1 - len (rfile s))) else rfile s in
  let s3 := put_slot (set_rfile s rf) i (Some m) in
  match layout_insert_region s3 start i with
  | Some s4 => Some (s4, i)
  | None => None
  end.

(* ---- one step of one thread ------------------------------------------------------------------ *)
(* `oc i` = some OTHER thread holds a clone of the Region in slot i *)
Definition begin_op (s : st) (t : tstate) (o : top) : st * tstate :=
  match o with
  | TCreate id => (s, set_pc t (PC_Get id))
  | TWrite id f n at_ tr =>
      match hget id (t_handles t) with
      | Some i => (s, set_pc t (PW_Snap i f n at_ tr))
      | None => (s, finish t (RErr RegionNotFound))
      end
  | TTruncate id from =>
      match hget id (t_handles t) with
      | Some i => (s, set_pc t (PT_Len i from))
      | None => (s, finish t (RErr RegionNotFound))
      end
  | TRename id new_id =>
      match hget id (t_handles t) with
      | Some i => (s, set_pc t (PN_Id id i new_id))
      | None => (s, finish t (RErr RegionNotFound))
      end
  | TRemove id =>
      match hget id (t_handles t) with
      | Some i => (s, set_pc (set_handles t (hdel id (t_handles t))) (PD_Id id i))
      | None => (s, finish t (RErr RegionNotFound))
      end
  | TFlush => (s, set_pc t (PF_Regs false))
  | TCompact => (s, set_pc t (PF_Regs true))
  | TRdOpen id => (s, set_pc t (PR_Get id))
  | TRdRead =>
      match t_reader t with
      | Some (_, start, ln) =>
          if start + ln <=? file_len s then
            let m := mem s in (s, finish t (RRead ln (fun k => m (start + k))))
          else (s, finish t RPanic)          (* slice index out of range *)
      | None => (s, finish t RNoReader)
      end
  | TRdClose => (s, finish (set_reader t None) ROk)
  end.

(* the three ways out of Database::flush's collection loop *)
Definition flush_after_collect (t : tstate) (c : bool) (acc : list (N * bool)) : tstate :=
  match acc with
  | [] => set_pc t (PF0_Lay c)
  | _ =>
      let dirty := map fst acc in
      match map fst (filter snd acc) with
      | [] => set_pc t (PF_RFlush c dirty)
      | wb => set_pc t (PF_Start c wb dirty)
      end
  end.
Definition flush_next_take (t : tstate) (c : bool) (todo : list N) (acc : list (N * bool)) : tstate :=
  match todo with
  | [] => flush_after_collect t c acc
  | _ => set_pc t (PF_Take c todo acc)
  end.
(* flush returns n; compact continues into punch_holes *)
Definition flush_return (t : tstate) (c : bool) (n : N) : tstate :=
  if c then set_pc t PP_Lay else finish t (RNum n).

Definition punch_finish (s : st) (t : tstate) (all : list N) (punched : N) : st * tstate :=
  let '(s1, n1) := punch_holes_of s in
  if 0 <? punched + n1 then (s1, set_pc t (PP_Sync all)) else (s1, finish t ROk).

Definition tstep (s : st) (oc : N -> bool) (t : tstate) : st * tstate :=
  match t_pc t with
  | PIdle => match t_prog t with o :: _ => begin_op s t o | [] => (s, t) end

  (* ---- write_with (region.rs:140) ---- *)
  | PW_Snap i f n at_ tr =>
      match slot s i with
      | None => (s, finish t RPanic)
      | Some m =>
          let start := r_start m in let reserved := r_reserved m in let ln := r_len m in
          if match at_ with Some a => ln <? a | None => false end then (s, finish t (RErr WriteOutOfBounds)) else
          let wo := match at_ with Some a => a | None => ln end in
          let new_len := match at_ with
                         | None => ln + n
                         | Some a => if tr then a + n else N.max (a + n) ln
                         end in
          if new_len <=? reserved then
            (s, set_pc t (PWF_Data (mkW i f n start reserved ln wo new_len reserved 0 0)))
          else if reserved =? 0 then (s, finish t (RErr InvariantViolation))
          else match double_until 64 reserved new_len with
               | Err e => (s, finish t (RErr e))
               | Panic => (s, finish t RPanic)
               | Ok new_reserved =>
                   let copy_len := if tr then wo else ln in
                   (s, set_pc t (PWG_Lay (mkW i f n start reserved ln wo new_len new_reserved copy_len 0)))
               end
      end
  (* fits in the reserve: db.write; mark_dirty; pause; [regions; meta_mut: set_len] *)
  | PWF_Data w =>
      match db_write s (w_start w + w_wo w) (w_f w) (w_n w) with
      | Some s1 => (s1, set_pc t (PWF_Mark w))
      | None => (s, finish t RPanic)
      end
  | PWF_Mark w => (upd s (w_i w) (fun m => m_mark_dirty m (w_wo w) (w_n w)), set_pc t (PWF_Pause w))
  | PWF_Pause w => if w_new_len w =? w_len w then (s, finish t ROk) else (s, set_pc t (PWF_Regs w))
  | PWF_Regs w => (s, set_pc t (PWF_Pub w))
  | PWF_Pub w =>
      match slot s (w_i w) with
      | Some m =>
          if ok_set_len m (w_new_len w)
          then (write_if_dirty (upd s (w_i w) (fun m => m_set_len m (w_new_len w))) (w_i w), finish t ROk)
          else (s, finish t RPanic)
      | None => (s, finish t RPanic)
      end
  (* needs to grow: layout_mut, choose the path *)
  | PWG_Lay w =>
      let i := w_i w in
      if is_last_anything s i then (s, set_pc t (PWE_SetRes w))
      else
        let added := w_new_reserved w - w_reserved w in
        let reloc :=
          match find_hole s (w_new_reserved w) with
          | Some hs =>
              match remove_or_compress_hole s hs (w_new_reserved w) with
              | AOk s' =>
                  match aget hs (resv s') with
                  | Some _ => (s', finish t RPanic)
                  | None => (set_resv s' (ains hs (w_new_reserved w) (resv s')), set_pc t (PWR_Before (w_set_new_start w hs)))
                  end
              | AErr s' e => (s', finish t (RErr e))
              | APanic => (s, finish t RPanic)
              end
          | None =>
              match alast (s2r s) with
              | Some (_, j) => (s, set_pc t (PWR_LenMeta w j))
              | None => (s, finish t RPanic)      (* unreachable: the region itself is in the layout *)
              end
          end in
        match aget (w_start w + w_reserved w) (holes s) with
        | Some gap =>
            if added <=? gap then
              match remove_or_compress_hole s (w_start w + w_reserved w) added with
              | AOk s1 => (s1, set_pc t (PWA_SetRes w))
              | AErr s1 e => (s1, finish t (RErr e))
              | APanic => (s, finish t RPanic)
              end
            else reloc
        | None => reloc
        end
  (* extend the last region: set_reserved under layout_mut, drop it, set_min_len, then write *)
  | PWE_SetRes w =>
      match slot s (w_i w) with
      | Some m =>
          if ok_set_reserved m (w_new_reserved w) then
            let s1 := upd s (w_i w) (fun m => m_set_reserved m (w_new_reserved w)) in
            if needs_growth s1 (w_start w + w_new_reserved w) then (s1, set_pc t (PWE_Pw w)) else (s1, set_pc t (PWX_Data w))
          else (s, finish t RPanic)
      | None => (s, finish t RPanic)
      end
  | PWE_Pw w => (s, set_pc t (PWE_Fw w))
  | PWE_Fw w => (set_min_len s (w_start w + w_new_reserved w), set_pc t (PWX_Data w))
  (* expand into the adjacent hole *)
  | PWA_SetRes w =>
      match slot s (w_i w) with
      | Some m =>
          if ok_set_reserved m (w_new_reserved w)
          then (upd s (w_i w) (fun m => m_set_reserved m (w_new_reserved w)), set_pc t (PWX_Data w))
          else (s, finish t RPanic)
      | None => (s, finish t RPanic)
      end
  (* common tail of extend / expand *)
  | PWX_Data w =>
      match db_write s (w_start w + w_wo w) (w_f w) (w_n w) with
      | Some s1 => (s1, set_pc t (PWX_Mark w))
      | None => (s, finish t RPanic)
      end
  | PWX_Mark w => (upd s (w_i w) (fun m => m_mark_dirty m (w_wo w) (w_n w)), set_pc t (PWX_Regs w))
  | PWX_Regs w => (s, set_pc t (PWX_Pub w))
  | PWX_Pub w =>
      match slot s (w_i w) with
      | Some m =>
          if ok_set_len m (w_new_len w)
          then (write_if_dirty (upd s (w_i w) (fun m => m_set_len m (w_new_len w))) (w_i w), finish t ROk)
          else (s, finish t RPanic)
      | None => (s, finish t RPanic)
      end
  (* relocate to the end of the layout: Layout::len() reads the last region's meta *)
  | PWR_LenMeta w _ =>
      let ns := layout_len s in
      match aget ns (resv s) with
      | Some _ => (s, finish t RPanic)
      | None =>
          let s1 := set_resv s (ains ns (w_new_reserved w) (resv s)) in
          let w1 := w_set_new_start w ns in
          if needs_growth s1 (ns + w_new_reserved w) then (s1, set_pc t (PWR_Pw w1)) else (s1, set_pc t (PWR_Before w1))
      end
  | PWR_Pw w => (s, set_pc t (PWR_Fw w))
  | PWR_Fw w => (set_min_len s (w_new_start w + w_new_reserved w), set_pc t (PWR_Before w))
  | PWR_Before w =>
      let src := w_start w in let dst := w_new_start w in let n := w_copy_len w in
      if n =? 0 then (s, set_pc t (PWR_Write w))
      else if negb ((src + n <=? dst) || (dst + n <=? src)) then (s, finish t (RErr OverlappingCopyRanges))
      else (s, set_pc t (PWR_Copy w))
  | PWR_Copy w =>
      let src := w_start w in let dst := w_new_start w in let n := w_copy_len w in
      if (src + n <=? file_len s) && (dst + n <=? file_len s)
      then (set_mem s (mem_copy (mem s) src dst n), set_pc t (PWR_Write w))
      else (s, finish t RPanic)
  | PWR_Write w =>
      match db_write s (w_new_start w + w_wo w) (w_f w) (w_n w) with
      | Some s1 => (s1, set_pc t (PWR_After w))
      | None => (s, finish t RPanic)
      end
  | PWR_After w => (s, set_pc t (PWR_Lay2 w))
  | PWR_Lay2 w => (s, set_pc t (PWR_MoveMeta w))
  | PWR_MoveMeta w =>
      match slot s (w_i w) with
      | None => (s, finish t RPanic)
      | Some m =>
          match layout_remove_region s (w_i w) m with
          | AErr s1 e => (s1, finish t (RErr e))
          | APanic => (s, finish t RPanic)
          | AOk s4 =>
              match layout_insert_region s4 (w_new_start w) (w_i w) with
              | None => (s4, finish t RPanic)
              | Some s5 =>
                  match aget (w_new_start w) (resv s5) with
                  | Some z =>
                      if z =? w_new_reserved w
                      then (set_resv s5 (arem (w_new_start w) (resv s5)), set_pc t (PWR_Mark w))
                      else (s5, finish t RPanic)
                  | None => (s5, finish t RPanic)
                  end
              end
          end
      end
  | PWR_Mark w => (upd s (w_i w) (fun m => m_mark_dirty m 0 (w_new_len w)), set_pc t (PWR_Regs w))
  | PWR_Regs w => (s, set_pc t (PWR_Pub w))
  | PWR_Pub w =>
      match slot s (w_i w) with
      | Some m =>
          if ok_set_start (w_new_start w) && ok_set_reserved m (w_new_reserved w) && (w_new_len w <=? w_new_reserved w)
          then (write_if_dirty (upd s (w_i w) (fun m => m_set_len (m_set_reserved (m_set_start m (w_new_start w)) (w_new_reserved w)) (w_new_len w))) (w_i w),
                finish t ROk)
          else (s, finish t RPanic)
      | None => (s, finish t RPanic)
      end

  (* ---- truncate (region.rs:113) ---- *)
  | PT_Len i from =>
      match slot s i with
      | None => (s, finish t RPanic)
      | Some m =>
          if from =? r_len m then (s, finish t ROk)
          else if r_len m <? from then (s, finish t (RErr TruncateInvalid))
          else (s, set_pc t (PT_Regs i from))
      end
  | PT_Regs i from => (s, set_pc t (PT_Pub i from))
  | PT_Pub i from =>
      match slot s i with
      | Some m =>
          if ok_set_len m from
          then (write_if_dirty (upd s i (fun m => m_set_len m from)) i, finish t ROk)
          else (s, finish t RPanic)
      | None => (s, finish t RPanic)
      end

  (* ---- rename (region.rs:324) ---- *)
  | PN_Id id i new_id =>
      match slot s i with
      | Some m => (s, set_pc t (PN_Regs id i new_id (r_id m)))
      | None => (s, finish t RPanic)
      end
  | PN_Regs id i new_id old => (s, set_pc t (PN_Pub id i new_id old))
  | PN_Pub id i new_id old =>
      match find_id s old with
      | None => (s, finish t (RErr RegionNotFound))
      | Some _ =>
          match find_id s new_id with
          | Some _ => (s, finish t (RErr RegionAlreadyExists))
          | None =>
              (write_if_dirty (upd s i (fun m => m_set_id m new_id)) i,
               finish (set_handles t (hput new_id i (hdel id (t_handles t)))) ROk)
          end
      end

  (* ---- remove (region.rs:342) ---- *)
  | PD_Id id i => (s, set_pc t (PD_Lay id i))
  | PD_Lay id i => (s, set_pc t (PD_Regs id i))
  | PD_Regs id i =>
      (* a refused removal: the harness fetches its handle again *)
      if oc i then (s, finish (set_handles t (hput id i (t_handles t))) (RErr RegionStillReferenced))
      else (s, set_pc t (PD_Meta1 id i))
  | PD_Meta1 id i =>
      match slot s i with
      | None => (s, finish t (RErr RegionNotFound))
      | Some m =>
          match layout_remove_region s i m with
          | AOk s1 => (put_slot s1 i None, set_pc t (PD_Meta2 id i))
          | AErr s1 e => (s1, finish t (RErr e))
          | APanic => (s, finish t RPanic)
          end
      end
  | PD_Meta2 id i => (set_rfile s (set_at (rfile s) (N.to_nat i) None None), finish t ROk)

  (* ---- create_region_if_needed (lib.rs:178) ---- *)
  | PC_Get id =>
      match find_id s id with
      | Some i => (s, finish (set_handles t (hput id i (t_handles t))) ROk)
      | None => (s, set_pc t (PC_Lay id))
      end
  | PC_Lay id =>
      match find_hole s PAGE_SIZE with
      | Some _ => (s, set_pc t (PC_Lay2 id))
      | None =>
          match alast (s2r s) with
          | Some (_, j) => (s, set_pc t (PC_LenMeta id j))
          | None =>
              let tgt := layout_len s + PAGE_SIZE in
              if needs_growth s tgt then (s, set_pc t (PC_Pw id tgt)) else (s, set_pc t (PC_Lay2 id))
          end
      end
  | PC_LenMeta id _ =>
      let tgt := layout_len s + PAGE_SIZE in
      if needs_growth s tgt then (s, set_pc t (PC_Pw id tgt)) else (s, set_pc t (PC_Lay2 id))
  | PC_Pw id tgt => (s, set_pc t (PC_Fw id tgt))
  | PC_Fw id tgt => (set_min_len s tgt, set_pc t (PC_Lay2 id))
  | PC_Lay2 id => (s, set_pc t (PC_Regs id))
  | PC_Regs id =>
      match find_id s id with
      | Some i => (s, finish (set_handles t (hput id i (t_handles t))) ROk)
      | None =>
          match find_hole s PAGE_SIZE with
          | Some a =>
              match remove_or_compress_hole s a PAGE_SIZE with
              | AOk s1 =>
                  match do_create s1 id a with
                  | Some (s2, i) => (s2, finish (set_handles t (hput id i (t_handles t))) ROk)
                  | None => (s1, finish t RPanic)
                  end
              | AErr s1 e => (s1, finish t (RErr e))
              | APanic => (s, finish t RPanic)
              end
          | None =>
              match alast (s2r s) with
              | Some (_, j) => (s, set_pc t (PC_LenMeta2 id j))
              | None =>
                  match do_create s id (layout_len s) with
                  | Some (s2, i) => (s2, finish (set_handles t (hput id i (t_handles t))) ROk)
                  | None => (s, finish t RPanic)
                  end
              end
          end
      end
  | PC_LenMeta2 id _ =>
      match do_create s id (layout_len s) with
      | Some (s2, i) => (s2, finish (set_handles t (hput id i (t_handles t))) ROk)
      | None => (s, finish t RPanic)
      end

  (* ---- Database::flush (lib.rs:326) ---- *)
  | PF_Regs c => (s, flush_next_take t c (live_slots s) [])
  | PF_Take c todo acc =>
      match todo with
      | [] => (s, flush_after_collect t c acc)
      | k :: rest =>
          match slot s k with
          | Some m =>
              if m_is_dirty m
              then (upd s k m_clear_dirty, flush_next_take t c rest (acc ++ [(k, true)]))
              else (s, set_pc t (PF_Need c k rest acc))
          | None => (s, flush_next_take t c rest acc)
          end
      end
  | PF_Need c k todo acc =>
      match slot s k with
      | Some m =>
          if r_state m =? ST_FLUSH then (s, flush_next_take t c todo (acc ++ [(k, false)]))
          else (s, flush_next_take t c todo acc)
      | None => (s, flush_next_take t c todo acc)
      end
  | PF_Start c todo dirty =>
      match todo with
      | _ :: (_ :: _) as rest => (s, set_pc t (PF_Start c rest dirty))
      | _ => (s, set_pc t (PF_Msync c dirty))
      end
  | PF_Msync c dirty => (s, set_pc t (PF_RFlush c dirty))
  | PF_RFlush c dirty => (s, set_pc t (PF_FSync c dirty))
  | PF_FSync c dirty => (s, set_pc t (PF_RSync c dirty))
  | PF_RSync c dirty => (s, set_pc t (PF_Clean c dirty dirty))
  | PF_Clean c todo dirty =>
      match todo with
      | [] => (s, set_pc t (PF_Pause c dirty))
      | k :: rest =>
          let s1 := upd s k (fun m => m_set_state m ST_CLEAN) in
          match rest with
          | [] => (s1, set_pc t (PF_Pause c dirty))
          | _ => (s1, set_pc t (PF_Clean c rest dirty))
          end
      end
  | PF_Pause c dirty => (s, set_pc t (PF_Promote c dirty))
  | PF_Promote c dirty => (promote s, flush_return t c (len dirty))
  | PF0_Lay c =>
      match pend s with
      | [] => (s, set_pc t (PF0_Pause c))
      | _ => (s, set_pc t (PF0_RFlush c))
      end
  | PF0_RFlush c => (s, set_pc t (PF0_RSync c))
  | PF0_RSync c => (s, set_pc t (PF0_Pause c))
  | PF0_Pause c => (s, set_pc t (PF0_Promote c))
  | PF0_Promote c => (promote s, flush_return t c 0)

  (* ---- punch_holes (lib.rs:471) ---- *)
  | PP_Lay => (s, set_pc t PP_Regs)
  | PP_Regs => (s, set_pc t (PP_File (live_slots s)))
  | PP_File all => (s, set_pc t (PP_Pause all))
  | PP_Pause all =>
      match all with
      | [] => punch_finish s t all 0
      | _ => (s, set_pc t (PP_Meta all all 0))
      end
  | PP_Meta todo all punched =>
      match todo with
      | [] => punch_finish s t all punched
      | k :: rest =>
          let '(s1, n1) := punch_region s k in
          match rest with
          | [] => punch_finish s1 t all (punched + n1)
          | _ => (s1, set_pc t (PP_Meta rest all (punched + n1)))
          end
      end
  | PP_Sync _ => (s, finish t ROk)

  (* ---- Reader::new (reader.rs:22), after Database::get_region ---- *)
  | PR_Get id =>
      match find_id s id with
      | Some i => (s, set_pc t (PR_Meta i))
      | None => (s, finish t (RErr RegionNotFound))
      end
  | PR_Meta i =>
      match slot s i with
      | Some m => (s, set_pc t (PR_Map i (r_start m) (r_len m)))
      | None => (s, finish t RPanic)
      end
  | PR_Map i start ln => (s, finish (set_reader t (Some (i, start, ln))) (RNum ln))
  end.

(* ---- global state and interleaving semantics ----------------------------------------------- *)
Record gstate := mkG { g_st : st; g_th : list tstate }.

Definition lock_free_for (ths : list tstate) (l : lk) (w : bool) : bool :=
  forallb (fun u => if w then t_holds u l =? 0 else negb (t_holds u l =? 2)) ths.

(* may thread t pass the yield point it is parked at?  (Database::verif_lock_state on the
   implementation: a shared acquisition needs "not exclusively held", an exclusive one "free") *)
Definition enabled (g : gstate) (t : tstate) : bool :=
  match t_label t with
  | LLock l w => lock_free_for (g_th g) l w
  | _ => true
  end.

Fixpoint others_clone (ths : list tstate) (me : nat) (i : N) : bool :=
  match ths, me with
  | [], _ => false
  | _ :: r, O => existsb (fun u => mem_n i (t_clones u)) r
  | u :: r, S k => mem_n i (t_clones u) || others_clone r k i
  end.

Fixpoint set_nth_t (l : list tstate) (n : nat) (x : tstate) : list tstate :=
  match l, n with
  | [], _ => []
  | _ :: r, O => x :: r
  | h :: r, S k => h :: set_nth_t r k x
  end.

(* one scheduling step of thread number `me`; None = no such thread, finished, or blocked *)
Definition gstep (g : gstate) (me : nat) : option gstate :=
  match nth_error (g_th g) me with
  | None => None
  | Some t =>
      if t_finished t then None
      else if negb (enabled g t) then None
      else
        let '(s1, t1) := tstep (g_st g) (others_clone (g_th g) me) t in
        Some (mkG s1 (set_nth_t (g_th g) me t1))
  end.

(* a schedule is a list of thread numbers; picks that are not possible are skipped *)
Definition grun (g : gstate) (sched : list nat) : gstate :=
  fold_left (fun g me => match gstep g me with Some g' => g' | None => g end) sched g.

Definition mk_thread (prog : list top) (handles : list (N * N)) : tstate :=
  mkT prog 0 PIdle handles None [].

Definition quiescent (g : gstate) : Prop := forall t, In t (g_th g) -> t_pc t = PIdle.
Definition all_finished (g : gstate) : bool := forallb t_finished (g_th g).

Inductive reachable (g0 : gstate) : gstate -> Prop :=
| reach_refl : reachable g0 g0
| reach_step : forall g me g', reachable g0 g -> gstep g me = Some g' -> reachable g0 g'.
