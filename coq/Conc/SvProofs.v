(* Conc/SvProofs.v — C09 on the step models of Conc/SvSteps.v.
   Raw format: the full property, for any number of readers, any batch sizes, any number of
   write() calls, any allocator answers that satisfy the freshness guard, by an invariant over
   the step relation.  Compressed format: see the second half. *)
From Anydb Require Import Common.Base Gen.Consts Gen.Sizes Conc.SvSteps.

Arguments hv : simpl never.
Arguments len : simpl never.
Arguments drop : simpl never.
Arguments take : simpl never.
Arguments mwrite : simpl never.
Arguments mcopy : simpl never.
Arguments mfill : simpl never.
Arguments raw_read : simpl never.
Arguments upd : simpl never.
Arguments ceil_page : simpl never.
Arguments grown_file_len : simpl never.
Arguments new_res : simpl never.

Ltac nums := unfold ESZ, HDR, HEADER_OFFSET, PAGE_SIZE, PAGE_SIZE_MINUS_1, GROW_FACTOR, GROW_FLOOR in *.

(* ---------------------------------------------------------------- lists / memory *)
Lemma hv_app h v i : i < len h -> hv (h ++ [v]) i = hv h i.
Proof. unfold hv, len. intros H. apply app_nth1. lia. Qed.

Lemma hv_drop h k j : hv (drop k h) j = hv h (k + j).
Proof.
  unfold hv, drop. replace (N.to_nat (k + j)) with (N.to_nat k + N.to_nat j)%nat by lia.
  generalize (N.to_nat k) (N.to_nat j). clear. intros a b. revert h.
  induction a as [|a IH]; intros h; cbn [skipn Nat.add]; [reflexivity|].
  destruct h as [|x t]; cbn [nth]; [now destruct b | apply IH].
Qed.

Lemma mwrite_in m b vs k : k < len vs -> mwrite m b vs (b + ESZ * k) = CVal (hv vs k).
Proof.
  intros H. unfold mwrite. cbv zeta.
  replace ((b <=? b + ESZ * k) && (b + ESZ * k <? b + ESZ * len vs)) with true by (nums; lia).
  replace (b + ESZ * k - b) with (k * ESZ) by (nums; lia).
  rewrite N.mod_mul, N.div_mul by (nums; lia). reflexivity.
Qed.
Lemma mwrite_out m b vs a : a < b \/ b + ESZ * len vs <= a -> mwrite m b vs a = m a.
Proof. intros H. unfold mwrite. cbv zeta. replace ((b <=? a) && (a <? b + ESZ * len vs)) with false by lia. reflexivity. Qed.
Lemma mcopy_in m src dst n a : dst <= a -> a < dst + n -> mcopy m src dst n a = m (a - dst + src).
Proof. intros. unfold mcopy. replace ((dst <=? a) && (a <? dst + n)) with true by lia. reflexivity. Qed.
Lemma mcopy_out m src dst n a : a < dst \/ dst + n <= a -> mcopy m src dst n a = m a.
Proof. intros. unfold mcopy. replace ((dst <=? a) && (a <? dst + n)) with false by lia. reflexivity. Qed.

Lemma mfill_out m b n a : a < b \/ b + n <= a -> mfill m b n a = m a.
Proof. intros. unfold mfill. replace ((b <=? a) && (a <? b + n)) with false by lia. reflexivity. Qed.
Lemma mfill_in m b n a : b <= a -> a < b + n -> mfill m b n a = CNone.
Proof. intros. unfold mfill. replace ((b <=? a) && (a <? b + n)) with true by lia. reflexivity. Qed.

Lemma ceil_page_ge n : n <= ceil_page n.
Proof. unfold ceil_page. nums. lia. Qed.
Lemma grown_ge cur need : cur <= grown_file_len cur need.
Proof. unfold grown_file_len. pose proof (ceil_page_ge (N.max (N.max (ceil_page need) (cur * GROW_FACTOR)) GROW_FLOOR)). nums. lia. Qed.

Lemma disjb_spec a z b y : disjb a z b y = true <-> disj a z b y.
Proof. unfold disjb, disj. lia. Qed.

(* ---------------------------------------------------------------- invariant (raw) *)
Definition slot (st i : N) : N := st + HDR + ESZ * i.
Arguments slot : simpl never.

Definition prot (reg : region) (ret : list (N * N)) (st ln : N) : Prop :=
  (st = r_start reg /\ ln <= r_res reg) \/ exists z, In (st, z) ret /\ ln <= z.

Definition rd_ok (s : rs_state) (x : rstate) : Prop :=
  match x with
  | RIdle => True
  | RLen l => l <= rs_slen s
  | RSnap l st ln | RGuard l st ln | RPages l st ln =>
      l <= rs_slen s /\ HDR + ESZ * l <= ln /\ st + HDR <= rs_flen s /\ prot (rs_reg s) (rs_retired s) st ln /\
      forall i, i < l -> rs_mem s (slot st i) = CVal (hv (rs_hist s) i)
  end.

Definition freshP (s : rs_state) (ns nr : N) : Prop :=
  disj ns nr (r_start (rs_reg s)) (r_res (rs_reg s)) /\ forall a z, In (a, z) (rs_retired s) -> disj ns nr a z.

Definition phase_ok (s : rs_state) : Prop :=
  let reg := rs_reg s in let h := rs_hist s in let st := r_start reg in
  match rs_w s with
  | WIdle | WHdrPending | WHdrData | WBody => r_len reg = HDR + ESZ * rs_slen s /\ st + r_res reg <= rs_flen s
  | WFitsData | WInData _ =>
      r_len reg = HDR + ESZ * rs_slen s /\ st + r_res reg <= rs_flen s /\ HDR + ESZ * len h <= r_res reg /\
      forall i, rs_slen s <= i -> i < len h -> rs_mem s (slot st i) = CVal (hv h i)
  | WInRes nr => r_len reg = HDR + ESZ * rs_slen s /\ st + r_len reg <= rs_flen s /\ r_res reg = nr /\ HDR + ESZ * len h <= nr
  | WRelRes ns nr => r_len reg = HDR + ESZ * rs_slen s /\ st + r_res reg <= rs_flen s /\ HDR + ESZ * len h <= nr /\ freshP s ns nr
  | WRelCopied ns nr =>
      r_len reg = HDR + ESZ * rs_slen s /\ st + r_res reg <= rs_flen s /\ HDR + ESZ * len h <= nr /\ freshP s ns nr /\
      ns + nr <= rs_flen s /\ forall i, i < len h -> rs_mem s (slot ns i) = CVal (hv h i)
  | WAfterRegion => r_len reg = HDR + ESZ * len h /\ st + r_res reg <= rs_flen s
  | WFailed => False
  end.

Definition log_ok (s : rs_state) : Prop :=
  (forall r b, In (EvLen r b) (rs_log s) -> b <= rs_slen s) /\ reads_ok (rs_hist s) (rs_log s) /\ lens_mono (rs_log s).

Record Inv (s : rs_state) : Prop := {
  i_len : HDR <= r_len (rs_reg s) /\ r_len (rs_reg s) <= r_res (rs_reg s);
  i_slen : rs_slen s <= len (rs_hist s);
  i_data : forall i, HDR + ESZ * i + ESZ <= r_len (rs_reg s) ->
                     i < len (rs_hist s) /\ rs_mem s (slot (r_start (rs_reg s)) i) = CVal (hv (rs_hist s) i);
  i_phase : phase_ok s;
  i_ret : forall a z, In (a, z) (rs_retired s) -> disj a z (r_start (rs_reg s)) (r_res (rs_reg s));
  i_rd : forall r, rd_ok s (rs_rd s r);
  i_log : log_ok s;
}.

Lemma forallb_fresh ret ns nr :
  forallb (fun e : N * N => disjb ns nr (fst e) (snd e)) ret = true -> forall a z, In (a, z) ret -> disj ns nr a z.
Proof. intros H a z Hin. rewrite forallb_forall in H. apply (H (a, z)) in Hin. now apply disjb_spec in Hin. Qed.

(* readers are unaffected by a writer step that only moves forward and never touches protected slots *)
Lemma rd_ok_pres s s' x :
  rd_ok s x ->
  rs_slen s <= rs_slen s' -> rs_flen s <= rs_flen s' ->
  (forall st ln, prot (rs_reg s) (rs_retired s) st ln -> prot (rs_reg s') (rs_retired s') st ln) ->
  (forall st ln l i, prot (rs_reg s) (rs_retired s) st ln -> l <= rs_slen s -> HDR + ESZ * l <= ln -> i < l ->
      rs_mem s (slot st i) = CVal (hv (rs_hist s) i) -> rs_mem s' (slot st i) = CVal (hv (rs_hist s') i)) ->
  rd_ok s' x.
Proof.
  intros H Hs Hf Hp Hm. destruct x; cbn [rd_ok] in *; try lia; try exact I.
  all: destruct H as (H1 & H2 & H3 & H4 & H5); repeat split; try lia; auto.
  all: intros i Hi; eapply Hm; eauto.
Qed.

Lemma lens_mono_cons_other e lg : lens_mono lg -> (forall r a, e <> EvLen r a) -> lens_mono (e :: lg).
Proof.
  intros H Hne l1 l2 r a b Heq Hin. destruct l1 as [|x l1]; cbn in Heq.
  - inversion Heq. subst. now elim (Hne r a).
  - inversion Heq. subst. eapply H; eauto.
Qed.
Lemma lens_mono_cons_len r0 a0 lg :
  lens_mono lg -> (forall r b, In (EvLen r b) lg -> b <= a0) -> lens_mono (EvLen r0 a0 :: lg).
Proof.
  intros H Hb l1 l2 r a b Heq Hin. destruct l1 as [|x l1]; cbn in Heq.
  - inversion Heq. subst. eauto.
  - inversion Heq. subst. eapply H; eauto.
Qed.

Lemma Inv_init st0 rv fl : rs_init_ok st0 rv fl -> Inv (rs_init st0 rv fl).
Proof.
  intros [H1 H2]. constructor; cbn.
  - lia.
  - unfold len; cbn; lia.
  - intros i Hi. nums. lia.
  - unfold phase_ok; cbn. nums. lia.
  - intros ? ? [].
  - intros r. exact I.
  - unfold log_ok; cbn. split; [intros ? ? []|]. split; [intros ? ? ? ? []|].
    intros l1 l2 r a b Heq. destruct l1; discriminate.
Qed.

Section RawStep.
Hypothesis ORD : sl_ordered = true.

Ltac inv_some := match goal with H : Some _ = Some ?x |- _ => injection H as H; subst x end.
Ltac split_ifs H := repeat match type of H with
  | (if ?c then _ else _) = Some _ => destruct c eqn:?; try discriminate
  | (let _ := _ in _) = Some _ => cbv zeta in H
  | match ?g with GIn => _ | GRel _ => _ end = Some _ => destruct g; try discriminate
  end.

(* steps of the writer that change neither memory, region, length, history nor readers *)
Lemma Inv_set_w s w : Inv s ->
  (phase_ok (set_w s w)) -> Inv (set_w s w).
Proof.
  intros [A B C D E F G] P. constructor; cbn; auto.
Qed.

Lemma Inv_step s l s' : Inv s -> rs_step s l = Some s' -> Inv s'.
Proof.
  intros I H. pose proof I as [A B C D E F G].
  destruct l; cbn [rs_step] in H.
  - (* LPush *)
    destruct (rs_w s) eqn:W; try discriminate. inv_some.
    unfold phase_ok in D; rewrite W in D.
    assert (Hhv : forall i, i < len (rs_hist s) -> hv (rs_hist s ++ [v]) i = hv (rs_hist s) i) by (intros; now apply hv_app).
    constructor; cbn.
    + exact A.
    + rewrite len_app. lia.
    + intros i Hi. destruct (C i Hi) as [c1 c2]. rewrite len_app. split; [lia|]. now rewrite Hhv.
    + unfold phase_ok; cbn. exact D.
    + exact E.
    + intros r. eapply rd_ok_pres; [apply F | cbn; lia | cbn; lia | cbn; auto | ].
      cbn. intros st ln l i Hpr Hl Hln Hi Hm. rewrite Hhv by lia. exact Hm.
    + destruct G as (g1 & g2 & g3). split; [exact g1|]. split; [|exact g3].
      cbn. intros r l i res Hin. destruct (g2 r l i res Hin) as (x1 & x2 & x3). rewrite len_app. repeat split; try lia.
      now rewrite Hhv.
  - (* LWBegin *)
    destruct (rs_w s) eqn:W; try discriminate. inv_some. apply Inv_set_w; auto.
    unfold phase_ok in *; cbn. rewrite W in D. destruct stamped; exact D.
  - destruct (rs_w s) eqn:W; try discriminate. inv_some. apply Inv_set_w; auto.
    unfold phase_ok in *; cbn. now rewrite W in D.
  - destruct (rs_w s) eqn:W; try discriminate. inv_some. apply Inv_set_w; auto.
    unfold phase_ok in *; cbn. now rewrite W in D.
  - (* LWNoop *)
    destruct (rs_w s) eqn:W; try discriminate. destruct (len (rs_pushed s) =? 0); try discriminate. inv_some.
    apply Inv_set_w; auto. unfold phase_ok in *; cbn. now rewrite W in D.
  - (* LWCopyFits *)
    destruct (rs_w s) eqn:W; try discriminate.
    unfold phase_ok in D; rewrite W in D. destruct D as [d1 d2].
    split_ifs H; inv_some; unfold rs_newlen, rs_from, rs_pushed in *; rewrite ?len_drop in *.
    1: { exfalso. nums. lia. }
    set (b := r_start (rs_reg s) + (rs_slen s * ESZ + HDR)).
    assert (Hout : forall st ln l i, prot (rs_reg s) (rs_retired s) st ln -> l <= rs_slen s -> HDR + ESZ * l <= ln -> i < l ->
              mwrite (rs_mem s) b (drop (rs_slen s) (rs_hist s)) (slot st i) = rs_mem s (slot st i)).
    { intros st ln l i Hpr Hl Hln Hi. apply mwrite_out. rewrite len_drop. unfold slot, b.
      destruct Hpr as [[-> Hr] | (z & Hz & Hr)]; [nums; lia|].
      specialize (E _ _ Hz). unfold disj in E. nums. lia. }
    constructor; cbn.
    + exact A.
    + exact B.
    + intros i Hi. destruct (C i Hi) as [c1 c2]. split; auto. rewrite mwrite_out; auto. unfold slot, b. nums. lia.
    + unfold phase_ok; cbn. repeat split; auto; try (nums; lia).
      intros i Hi1 Hi2. replace (slot (r_start (rs_reg s)) i) with (b + ESZ * (i - rs_slen s)) by (unfold slot, b; nums; lia).
      rewrite mwrite_in by (rewrite len_drop; lia). rewrite hv_drop. f_equal. f_equal. lia.
    + exact E.
    + intros r. eapply rd_ok_pres; [apply F | cbn; lia | cbn; lia | cbn; auto | ].
      cbn. intros st ln l i Hpr Hl Hln Hi Hm. rewrite (Hout st ln l i); auto.
    + exact G.
  - (* LWReserve *)
    destruct (rs_w s) eqn:W; try discriminate.
    unfold phase_ok in D; rewrite W in D. destruct D as [d1 d2].
    split_ifs H; inv_some; unfold rs_newlen, rs_from, rs_pushed in *; rewrite ?len_drop in *.
    + match goal with Hf : fresh_tail _ _ = true |- _ => pose proof (forallb_fresh _ _ _ Hf) as Hfr end.
      constructor; cbn.
      * nums. lia.
      * exact B.
      * exact C.
      * unfold phase_ok; cbn. repeat split; auto; nums; lia.
      * intros a z Hin. specialize (Hfr a z Hin). unfold disj in *. lia.
      * intros r. eapply rd_ok_pres; [apply F | cbn; lia | cbn; lia | | cbn; auto].
        cbn. intros st ln [[-> Hr] | Hz]; [left; split; auto; cbn; nums; lia | right; auto].
      * exact G.
    + match goal with Hf : fresh_ext _ _ _ = true |- _ =>
        unfold fresh_ext in Hf; apply andb_prop in Hf as [Hf1 Hf2]; apply disjb_spec in Hf1;
        pose proof (forallb_fresh _ _ _ Hf2) as Hfr end.
      apply Inv_set_w; auto. unfold phase_ok; cbn. repeat split; auto; nums; lia.
  - (* LWGrowFile *)
    destruct (rs_w s) eqn:W; try discriminate; split_ifs H; inv_some;
      match goal with |- Inv {| rs_flen := grown_file_len ?c ?t |} => pose proof (grown_ge c t) as Hge end;
      unfold phase_ok in D; rewrite W in D; destruct D as (d1 & d2 & d3 & d4).
    + constructor; cbn; auto.
      * unfold phase_ok; cbn. split; [exact d1|]. split; [lia|]. split; [exact d3 | exact d4].
      * intros r; eapply rd_ok_pres; [apply F | cbn; lia | cbn; lia | cbn; auto | cbn; auto].
    + constructor; cbn; auto.
      * unfold phase_ok; cbn. split; [exact d1|]. split; [lia|]. split; [exact d3 | exact d4].
      * intros r; eapply rd_ok_pres; [apply F | cbn; lia | cbn; lia | cbn; auto | cbn; auto].
  - (* LWCopyIn *)
    destruct (rs_w s) as [ | | | | |nr|nr|ns nr|ns nr| | ] eqn:W; try discriminate.
    unfold phase_ok in D; rewrite W in D. destruct D as (d1 & d2 & d3 & d4).
    split_ifs H. inv_some.
    pose proof (ceil_page_ge (r_start (rs_reg s) + nr)).
    unfold rs_from, rs_pushed in *.
    set (b := r_start (rs_reg s) + (rs_slen s * ESZ + HDR)).
    assert (Hout : forall st ln l i, prot (rs_reg s) (rs_retired s) st ln -> l <= rs_slen s -> HDR + ESZ * l <= ln -> i < l ->
              mwrite (rs_mem s) b (drop (rs_slen s) (rs_hist s)) (slot st i) = rs_mem s (slot st i)).
    { intros st ln l i Hpr Hl Hln Hi. apply mwrite_out. rewrite len_drop. unfold slot, b.
      destruct Hpr as [[-> Hr] | (z & Hz & Hr)]; [nums; lia|].
      specialize (E _ _ Hz). unfold disj in E. nums. lia. }
    constructor; cbn.
    + exact A.
    + exact B.
    + intros i Hi. destruct (C i Hi) as [c1 c2]. split; auto. rewrite mwrite_out; auto. unfold slot, b. nums. lia.
    + unfold phase_ok; cbn. repeat split; auto; try (nums; lia).
      intros i Hi1 Hi2. replace (slot (r_start (rs_reg s)) i) with (b + ESZ * (i - rs_slen s)) by (unfold slot, b; nums; lia).
      rewrite mwrite_in by (rewrite len_drop; lia). rewrite hv_drop. f_equal. f_equal. lia.
    + exact E.
    + intros r. eapply rd_ok_pres; [apply F | cbn; lia | cbn; lia | cbn; auto | ].
      cbn. intros st ln l i Hpr Hl Hln Hi Hm. rewrite (Hout st ln l i); auto.
    + exact G.
  - (* LWRelCopy *)
    destruct (rs_w s) as [ | | | | |nr|nr|ns nr|ns nr| | ] eqn:W; try discriminate.
    unfold phase_ok in D; rewrite W in D. destruct D as (d1 & d2 & d3 & (d4 & d5)).
    split_ifs H. inv_some.
    pose proof (ceil_page_ge (ns + nr)).
    unfold rs_from, rs_pushed in *.
    set (from := rs_slen s * ESZ + HDR) in *.
    set (m1 := mcopy (rs_mem s) (r_start (rs_reg s)) ns from).
    assert (Hout : forall a, a < ns \/ ns + nr <= a ->
              mwrite m1 (ns + from) (drop (rs_slen s) (rs_hist s)) a = rs_mem s a).
    { intros a Ha. rewrite mwrite_out by (rewrite len_drop; unfold from; nums; lia).
      unfold m1. apply mcopy_out. unfold from. nums. lia. }
    assert (Hprot : forall st ln l i, prot (rs_reg s) (rs_retired s) st ln -> l <= rs_slen s -> HDR + ESZ * l <= ln -> i < l ->
              slot st i < ns \/ ns + nr <= slot st i).
    { intros st ln l i Hpr Hl Hln Hi. unfold slot.
      destruct Hpr as [[-> Hr] | (z & Hz & Hr)].
      - unfold disj in d4. nums. lia.
      - specialize (d5 _ _ Hz). unfold disj in d5. nums. lia. }
    constructor; cbn.
    + exact A.
    + exact B.
    + intros i Hi. destruct (C i Hi) as [c1 c2]. split; auto. rewrite Hout; auto.
      unfold slot. unfold disj in d4. nums. lia.
    + unfold phase_ok; cbn. repeat split; auto; try lia.
      intros i Hi. destruct (N.ltb_spec i (rs_slen s)) as [Hlt|Hge].
      * rewrite mwrite_out by (unfold slot, from; nums; lia). unfold m1.
        rewrite mcopy_in by (unfold slot, from; nums; lia).
        replace (slot ns i - ns + r_start (rs_reg s)) with (slot (r_start (rs_reg s)) i) by (unfold slot; lia).
        apply C. nums. lia.
      * replace (slot ns i) with (ns + from + ESZ * (i - rs_slen s)) by (unfold slot, from; nums; lia).
        rewrite mwrite_in by (rewrite len_drop; lia). rewrite hv_drop. f_equal. f_equal. lia.
    + exact E.
    + intros r. eapply rd_ok_pres; [apply F | cbn; lia | cbn; lia | cbn; auto | ].
      cbn. intros st ln l i Hpr Hl Hln Hi Hm. rewrite Hout; eauto.
    + exact G.
  - (* LWSetLen *)
    destruct (rs_w s) as [ | | | | |nr|nr|ns nr|ns nr| | ] eqn:W; try discriminate; inv_some; unfold phase_ok in D; rewrite W in D;
      unfold rs_newlen, rs_from, rs_pushed in *; rewrite len_drop in *.
    + (* fits *)
      destruct D as (d1 & d2 & d3 & d4).
      constructor; cbn; auto.
      * nums. lia.
      * intros i Hi. destruct (N.ltb_spec i (rs_slen s)).
        -- apply C. nums. lia.
        -- split; [nums; lia|]. apply d4; nums; lia.
      * unfold phase_ok; cbn. nums. lia.
    + (* in place *)
      destruct D as (d1 & d2 & d3 & d4).
      constructor; cbn; auto.
      * nums. lia.
      * intros i Hi. destruct (N.ltb_spec i (rs_slen s)).
        -- apply C. nums. lia.
        -- split; [nums; lia|]. apply d4; nums; lia.
      * unfold phase_ok; cbn. nums. lia.
    + (* relocation: layout + meta publication *)
      destruct D as (d1 & d2 & d3 & (d4 & d5) & d6 & d7).
      constructor; cbn; auto.
      * nums. lia.
      * intros i Hi. split; [nums; lia|]. apply d7. nums. lia.
      * unfold phase_ok; cbn. nums. lia.
      * intros a z [Heq | Hin].
        -- inversion Heq; subst. unfold disj in *. lia.
        -- specialize (d5 _ _ Hin). unfold disj in *. lia.
      * intros r. eapply rd_ok_pres; [apply F | cbn; lia | cbn; lia | | cbn; auto].
        cbn. intros st ln [[-> Hr] | (z & Hz & Hr)]; right.
        -- exists (r_res (rs_reg s)). split; [now left | exact Hr].
        -- exists z. split; [now right | exact Hr].
  - (* LWPublish *)
    destruct (rs_w s) eqn:W; try discriminate. inv_some. unfold phase_ok in D; rewrite W in D.
    constructor; cbn; auto.
    + lia.
    + intros r. eapply rd_ok_pres; [apply F | cbn; lia | cbn; lia | cbn; auto | cbn; auto].
    + destruct G as (g1 & g2 & g3). split; [|split; auto]. cbn. intros r b Hin. specialize (g1 r b Hin). lia.
  - (* LWPublishEarly: excluded by the orderings *)
    destruct (rs_w s); try discriminate; rewrite ORD in H; discriminate.
  - (* LRLoad *)
    assert (Hgo : Inv (set_rd s r (RLen (rs_slen s)) (rs_nguard s) (EvLen r (rs_slen s) :: rs_log s))).
    { constructor; cbn; auto.
      - intros r'. unfold upd. destruct (r' =? r); [cbn; lia | apply F].
      - destruct G as (g1 & g2 & g3). split; [|split]; cbn.
        + intros r' b [Heq | Hin]; [inversion Heq; lia | eauto].
        + intros r' l i res [Heq | Hin]; [discriminate | eauto].
        + apply lens_mono_cons_len; auto. }
    destruct (rs_rd s r); try discriminate; inv_some; exact Hgo.
  - (* LRSnap *)
    destruct (rs_rd s r) eqn:R; try discriminate. inv_some.
    pose proof (F r) as Fr. rewrite R in Fr. cbn in Fr.
    constructor; cbn; auto.
    intros r'. unfold upd. destruct (r' =? r); [|apply F]. cbn.
    assert (Hlen : HDR + ESZ * rs_slen s <= r_len (rs_reg s) /\ r_start (rs_reg s) + r_len (rs_reg s) <= rs_flen s).
    { unfold phase_ok in D. destruct (rs_w s); nums; intuition lia. }
    repeat split; try (nums; lia).
    + left. split; auto. lia.
    + intros i Hi. apply C. nums. lia.
  - (* LRGuard *)
    destruct (rs_rd s r) eqn:R; try discriminate. inv_some.
    pose proof (F r) as Fr. rewrite R in Fr.
    constructor; cbn; auto.
    intros r'. unfold upd. destruct (r' =? r); [exact Fr | apply F].
  - (* LRRead *)
    destruct (rs_rd s r) eqn:R; try discriminate. destruct (i <? l) eqn:Hi; try discriminate. inv_some.
    pose proof (F r) as Fr. rewrite R in Fr. cbn in Fr. destruct Fr as (f1 & f2 & f3 & f4 & f5).
    constructor; cbn; auto.
    + intros r'. unfold upd. destruct (r' =? r); [cbn; repeat split; auto | apply F].
    + destruct G as (g1 & g2 & g3). split; [|split]; cbn.
      * intros r' b [Heq | Hin]; [discriminate | eauto].
      * intros r' l' i' res [Heq | Hin]; [|eauto]. inversion Heq; subst.
        repeat split; try lia. unfold raw_read.
        replace ((ln <? HDR) || (rs_flen s <? st + HDR)) with false by (nums; lia).
        fold (slot st i'). rewrite f5 by lia. reflexivity.
      * apply lens_mono_cons_other; auto. intros; discriminate.
  - (* LRDrop *)
    assert (Hgo : forall ng, Inv (set_rd s r RIdle ng (rs_log s))).
    { intros ng. constructor; cbn; auto. intros r'. unfold upd. destruct (r' =? r); [exact Logic.I | apply F]. }
    destruct (rs_rd s r); try discriminate; inv_some; apply Hgo.
  - (* LWOther: bytes of another region land in a fresh extent *)
    destruct (rs_w s) eqn:W; try discriminate.
    destruct (fresh_ext s ns nr) eqn:Hf; try discriminate. inv_some.
    unfold fresh_ext in Hf; apply andb_prop in Hf as [Hf1 Hf2]; apply disjb_spec in Hf1.
    pose proof (forallb_fresh _ _ _ Hf2) as Hfr.
    unfold phase_ok in D; rewrite W in D. destruct D as [d1 d2].
    assert (Hprot : forall st ln l i, prot (rs_reg s) (rs_retired s) st ln -> HDR + ESZ * l <= ln -> i < l ->
              slot st i < ns \/ ns + nr <= slot st i).
    { intros st ln l i Hpr Hln Hi. unfold slot.
      destruct Hpr as [[-> Hr] | (z & Hz & Hr)].
      - unfold disj in Hf1. nums. lia.
      - specialize (Hfr _ _ Hz). unfold disj in Hfr. nums. lia. }
    constructor; cbn.
    + exact A.
    + exact B.
    + intros i Hi. destruct (C i Hi) as [c1 c2]. split; auto. rewrite mfill_out; auto.
      unfold slot. unfold disj in Hf1. nums. lia.
    + unfold phase_ok; cbn. split; assumption.
    + exact E.
    + intros r. eapply rd_ok_pres; [apply F | cbn; lia | cbn; lia | cbn; auto | ].
      cbn. intros st ln l i Hpr Hl Hln Hi Hm. rewrite mfill_out; eauto.
    + exact G.
  - (* LWOtherGrow *)
    destruct (rs_w s) eqn:W; try discriminate. split_ifs H. inv_some.
    pose proof (grown_ge (rs_flen s) target) as Hge.
    unfold phase_ok in D; rewrite W in D. destruct D as [d1 d2].
    constructor; cbn; auto.
    + unfold phase_ok; cbn. split; [exact d1 | lia].
    + intros r; eapply rd_ok_pres; [apply F | cbn; lia | cbn; lia | cbn; auto | cbn; auto].
Qed.

Lemma Inv_reach s0 s : Inv s0 -> rs_reach s0 s -> Inv s.
Proof. intros H R. induction R; auto. eapply Inv_step; eauto. Qed.

End RawStep.

(* C09, raw format *)
Theorem raw_prefix :
  SHARED_LEN_LOAD_ACQUIRE = true -> SHARED_LEN_STORE_RELEASE = true ->
  forall st0 rv fl s, rs_init_ok st0 rv fl -> rs_reach (rs_init st0 rv fl) s ->
  c09_good (rs_hist s) (rs_log s) /\ rs_w s <> WFailed.
Proof.
  intros Ha Hr st0 rv fl s Hi R.
  assert (ORD : sl_ordered = true) by (unfold sl_ordered; now rewrite Ha, Hr).
  assert (IV : Inv s) by (eapply Inv_reach; eauto using Inv_init).
  destruct IV as [A B C D E F (g1 & g2 & g3)].
  split; [split; [exact g2 | split; [exact g3|]] |].
  - intros r l i Hin. destruct (g2 _ _ _ _ Hin) as (_ & _ & Hx). discriminate.
  - intros Hw. unfold phase_ok in D. now rewrite Hw in D.
Qed.

(* FRAME: a write of the same thread to ANOTHER region whose placement passes the freshness guard changes no
   byte of this vector's current extent nor of any extent it vacated (the extents live reader snapshots may
   still point to), and nothing else of the state but the memory map *)
Definition in_ext (a st z : N) : Prop := st <= a /\ a < st + z.
Definition own_bytes (s : rs_state) (a : N) : Prop :=
  in_ext a (r_start (rs_reg s)) (r_res (rs_reg s)) \/ exists st z, In (st, z) (rs_retired s) /\ in_ext a st z.

Lemma other_write_frame s ns nr s' :
  rs_step s (LWOther ns nr) = Some s' ->
  (forall a, own_bytes s a -> rs_mem s' a = rs_mem s a) /\
  rs_reg s' = rs_reg s /\ rs_retired s' = rs_retired s /\ rs_slen s' = rs_slen s /\ rs_hist s' = rs_hist s /\
  rs_log s' = rs_log s /\ rs_flen s' = rs_flen s /\ (forall r, rs_rd s' r = rs_rd s r).
Proof.
  intros H. cbn [rs_step] in H. destruct (rs_w s); try discriminate.
  destruct (fresh_ext s ns nr) eqn:Hf; try discriminate. injection H as <-. cbn.
  split; [|repeat split; reflexivity].
  unfold fresh_ext in Hf; apply andb_prop in Hf as [Hf1 Hf2]; apply disjb_spec in Hf1.
  pose proof (forallb_fresh _ _ _ Hf2) as Hfr.
  intros a [Ha | (st & z & Hin & Ha)]; apply mfill_out; unfold in_ext in Ha.
  - unfold disj in Hf1. lia.
  - specialize (Hfr _ _ Hin). unfold disj in Hfr. lia.
Qed.

(* the converse direction of the guard: a placement that overlaps a vacated extent a reader snapshot still points to
   is NOT a step of the model (the harness reports the real code taking it), and if it were taken the reader would
   read foreign bytes: witness on the unguarded memory effect *)
Example other_write_unguarded_clobbers :
  let m := mwrite (fun _ => CNone) (0 + HDR) [11; 12] in
  raw_read m 1048576 0 48 1 = RVal 12 /\ raw_read (mfill m 0 4096) 1048576 0 48 1 = RGarbage.
Proof. vm_compute. split; reflexivity. Qed.

(* the premises are satisfiable and the property is not vacuous: a run with a relocation, a reader that
   snapshots the old extent before it and reads after the new length is published *)
Definition rs_demo : list rs_label :=
  [LPush 11; LPush 12; LWBegin false; LWCopyFits; LWSetLen; LWPublish;
   LRLoad 1; LRSnap 1; LRGuard 1;
   LPush 13; LWBegin true; LWHdrCopy; LWHdrDone; LWReserve (GRel 8192); LWRelCopy; LWSetLen; LRLoad 2; LWPublish;
   LRRead 1 1; LRSnap 2; LRGuard 2; LRRead 2 0; LRDrop 1; LRLoad 1].
Example rs_demo_runs :
  match rs_run (rs_init 0 48 1048576) rs_demo with
  | Some s => rs_log s = [EvLen 1 3; EvRead 2 2 0 (RVal 11); EvRead 1 2 1 (RVal 12); EvLen 2 2; EvLen 1 2]
              /\ r_start (rs_reg s) = 8192
  | None => False end.
Proof. vm_compute. split; reflexivity. Qed.

(* the same run with writes to a second vector: one placed behind the relocated extent (accepted), one placed over
   the extent vacated by the relocation while reader 1 still holds its snapshot of it (rejected by the guard) *)
Definition rs_demo_other : list rs_label :=
  [LPush 11; LPush 12; LWBegin false; LWCopyFits; LWSetLen; LWPublish;
   LRLoad 1; LRSnap 1; LRGuard 1;
   LPush 13; LWBegin false; LWReserve (GRel 8192); LWRelCopy; LWSetLen; LWPublish;
   LWOther 16384 4096; LRRead 1 1; LRDrop 1].
Example rs_demo_other_runs :
  match rs_run (rs_init 0 48 1048576) rs_demo_other with
  | Some s => rs_log s = [EvRead 1 2 1 (RVal 12); EvLen 1 2] /\ rs_retired s = [(0, 48)]
              /\ rs_step s (LWOther 0 4096) = None /\ rs_step s (LWOther 8192 64) = None
  | None => False end.
Proof. vm_compute. repeat split; reflexivity. Qed.

(* ========================================================================================== *)
(* COMPRESSED FORMAT *)

Lemma cs_run_reach s0 ls : forall s, cs_run s0 ls = Some s -> cs_reach s0 s.
Proof.
  unfold cs_run. induction ls as [|l ls IH] using rev_ind; intros s H.
  - cbn in H. inversion H. constructor.
  - rewrite fold_left_app in H. cbn in H.
    destruct (fold_left _ ls (Some s0)) as [s1|] eqn:E; [|discriminate].
    econstructor; [apply IH; reflexivity | exact H].
Qed.

Lemma reads_okb_complete h lg : reads_ok h lg -> reads_okb h lg = true.
Proof.
  induction lg as [|e lg IH]; intros H; [reflexivity|].
  assert (Ht : reads_ok h lg) by (intros r l i x Hin; apply (H r l i x); now right).
  destruct e as [r l | r l i x]; cbn [reads_okb]; [now apply IH|].
  destruct (H r l i x (or_introl eq_refl)) as (h1 & h2 & ->).
  rewrite IH by exact Ht. cbn [rres_eqb]. rewrite N.eqb_refl.
  replace (i <? l) with true by lia. replace (i <? len h) with true by lia. reflexivity.
Qed.

(* The lead of DESIGN.md 6.1, on the model: the slow path of write() (a raw partial page that overflows
   is re-encoded) rewrites the bytes of the partial page IN PLACE (region truncate_write at page.start,
   any_stored_vec.rs:168) before it takes the pages write lock; a reader that holds the pages read
   lock (hence the OLD page entry: raw, 1 value at offset 32) decodes the rewritten bytes.
   Values per page = 2 keeps the witness small; the real code has 2048. *)
Definition comp_bad_run : list cs_label :=
  [KPush 11; KBegin []; KSetLen; KLock; KIndex; KPublish; KFlush; KUnlock;
   KRLoad 1; KRSnap 1; KRGuard 1; KRPages 1;
   KPush 12; KBegin [5];
   KRRead 1 0].
Lemma comp_bad_run_bad :
  match cs_run (cs_init 0 4096 1048576 2) comp_bad_run with
  | Some s => reads_okb (cs_hist s) (cs_log s) = false /\ cs_log s = [EvRead 1 1 0 RGarbage; EvLen 1 1]
  | None => False end.
Proof. vm_compute. split; reflexivity. Qed.

(* second witness: relocation.  The reader snapshots the region (old start) before the write, the writer
   relocates the region (copying only the bytes below the rewritten page), updates the index and
   publishes; the reader then takes the pages lock, sees the NEW entry and decodes it at the OLD start. *)
Definition comp_bad_run2 : list cs_label :=
  [KPush 11; KBegin []; KSetLen; KLock; KIndex; KPublish; KFlush; KUnlock;
   KRLoad 1; KRSnap 1; KRGuard 1;
   KPush 12; KBegin [5000]; KReserve (GRel 8192); KCopy; KSetLen; KLock; KIndex; KPublish; KFlush; KUnlock;
   KRPages 1; KRRead 1 0].
Lemma comp_bad_run2_bad :
  match cs_run (cs_init 0 4096 1048576 2) comp_bad_run2 with
  | Some s => reads_okb (cs_hist s) (cs_log s) = false /\ r_start (cs_reg s) = 8192
  | None => False end.
Proof. vm_compute. split; reflexivity. Qed.

Definition comp_prefix_full_stmt : Prop :=
  forall st0 rv fl pp s, HDR <= rv -> st0 + rv <= fl -> 0 < pp ->
  cs_reach (cs_init st0 rv fl pp) s -> c09_good (cs_hist s) (cs_log s).

Theorem comp_prefix_refuted :
  exists st0 rv fl pp s, (HDR <= rv) /\ (st0 + rv <= fl) /\ (0 < pp) /\ (cs_reach (cs_init st0 rv fl pp) s) /\ (~ c09_good (cs_hist s) (cs_log s)).
Proof.
  pose proof comp_bad_run_bad as H.
  destruct (cs_run (cs_init 0 4096 1048576 2) comp_bad_run) as [s|] eqn:E; [|contradiction].
  exists 0, 4096, 1048576, 2, s. repeat split; try (nums; lia).
  - now apply cs_run_reach with (ls := comp_bad_run).
  - intros (Hr & _). apply reads_okb_complete in Hr. destruct H as [H _]. congruence.
Qed.

(* What does hold of the compressed format for every schedule: a reader never sees the shared length go
   down (the length is stored after the index update, under the pages write lock, and only grows). *)
Definition cs_lens_inv (s : cs_state) : Prop :=
  cs_slen s <= len (cs_hist s) /\ (forall r b, In (EvLen r b) (cs_log s) -> b <= cs_slen s) /\ lens_mono (cs_log s).

Lemma cs_lens_step s l s' : cs_lens_inv s -> cs_step s l = Some s' -> cs_lens_inv s'.
Proof.
  intros (A & B & C) H.
  destruct l; cbn [cs_step] in H;
    repeat match type of H with
           | match ?x with _ => _ end = Some _ => destruct x eqn:?; try discriminate
           | (if ?x then _ else _) = Some _ => destruct x eqn:?; try discriminate
           | (let _ := _ in _) = Some _ => cbv zeta in H
           end;
    try (inversion H; subst; clear H; unfold cs_lens_inv; cbn; repeat split; auto; fail).
  all: inversion H; subst; clear H; unfold cs_lens_inv; cbn.
  all: try (rewrite len_app; repeat split; auto; lia).
  all: try (repeat split; auto; [lia | intros r b Hin; specialize (B r b Hin); lia]).
  all: try (repeat split; auto;
            [ intros r' b [Heq | Hin]; [inversion Heq; lia | eauto]
            | apply lens_mono_cons_len; auto ]).
  all: try (repeat split; auto;
            [ intros r' b [Heq | Hin]; [discriminate | eauto]
            | apply lens_mono_cons_other; auto; intros; discriminate ]).
Qed.

Theorem comp_lens :
  forall st0 rv fl pp s, cs_reach (cs_init st0 rv fl pp) s ->
  lens_mono (cs_log s) /\ forall r b, In (EvLen r b) (cs_log s) -> b <= cs_slen s.
Proof.
  intros st0 rv fl pp s R.
  assert (I : cs_lens_inv s).
  { induction R; [|eapply cs_lens_step; eauto].
    unfold cs_lens_inv; cbn. split; [unfold len; cbn; lia|]. split; [intros ? ? []|].
    intros l1 l2 r a b Heq. destruct l1; discriminate. }
  destruct I as (_ & B & C). split; auto.
Qed.

Lemma comp_lens_partial :
  SHARED_LEN_LOAD_ACQUIRE = true -> SHARED_LEN_STORE_RELEASE = true ->
  forall st0 rv fl pp s, cs_reach (cs_init st0 rv fl pp) s ->
  lens_mono (cs_log s) /\ forall r b, In (EvLen r b) (cs_log s) -> b <= cs_slen s.
Proof. intros _ _. exact comp_lens. Qed.

(* FRAME for the compressed model: as other_write_frame *)
Definition cs_own_bytes (s : cs_state) (a : N) : Prop :=
  in_ext a (r_start (cs_reg s)) (r_res (cs_reg s)) \/ exists st z, In (st, z) (cs_retired s) /\ in_ext a st z.

Lemma cs_other_write_frame s ns nr s' :
  cs_step s (KOther ns nr) = Some s' ->
  (forall a, cs_own_bytes s a -> cs_mem s' a = cs_mem s a) /\
  cs_reg s' = cs_reg s /\ cs_retired s' = cs_retired s /\ cs_slen s' = cs_slen s /\ cs_hist s' = cs_hist s /\
  cs_pages s' = cs_pages s /\ cs_blobs s' = cs_blobs s /\ cs_log s' = cs_log s /\ cs_flen s' = cs_flen s /\
  (forall r, cs_rd s' r = cs_rd s r).
Proof.
  intros H. cbn [cs_step] in H. destruct (cs_w s); try discriminate.
  destruct (cs_fresh_ext s ns nr) eqn:Hf; try discriminate. injection H as <-. cbn.
  split; [|repeat split; reflexivity].
  unfold cs_fresh_ext in Hf; apply andb_prop in Hf as [Hf1 Hf2]; apply disjb_spec in Hf1.
  pose proof (forallb_fresh _ _ _ Hf2) as Hfr.
  intros a [Ha | (st & z & Hin & Ha)]; apply mfill_out; unfold in_ext in Ha.
  - unfold disj in Hf1. lia.
  - specialize (Hfr _ _ Hin). unfold disj in Hfr. lia.
Qed.
