(* Conc/RwLockProofs.v — PROOFS about Conc/RwLock.v:
     rank_monotone_b_sound   the boolean discipline check is sound
     RankTheorem             rank-monotone programs never deadlock (unordered writer queue, Join)
     RankTheoremFifo         the same for parking_lot's FIFO writer queue
     fifo_dead_unordered_dead / freach_reach   the two halves of the transfer argument
     check_deadlock_sound    a schedule accepted by the executable checker is a reachable
                             deadlock of the FIFO relation (used for the …_refuted witnesses)
   DESIGN.md section 4, C11 (proof sketch).  Stdlib only. *)
From Coq Require Import List Arith Lia Bool PeanoNat.
Import ListNotations.
From Anydb Require Import Conc.RwLock.

(* ------------------------------------------------------------------ small facts *)
Lemma lock_eqb_eq a b : lock_eqb a b = true <-> a = b.
Proof.
  unfold lock_eqb. destruct a as [a1 a2], b as [b1 b2]; cbn.
  rewrite andb_true_iff, !Nat.eqb_eq. split.
  - intros [-> ->]; reflexivity.
  - intros E; inversion E; auto.
Qed.

Lemma lock_eqb_refl a : lock_eqb a a = true.
Proof. apply lock_eqb_eq; reflexivity. Qed.

Lemma inh_true h l : inh h l = true -> exists m, In (l, m) h.
Proof.
  unfold inh. intros H. apply existsb_exists in H as ([l' m] & Hin & E).
  cbn in E. apply lock_eqb_eq in E; subst. eauto.
Qed.

Lemma holdsW_holds t l : holdsW_b t l = true -> holds_b t l = true.
Proof.
  unfold holdsW_b, holds_b, inh. intros H. apply existsb_exists in H as (x & Hin & E).
  apply andb_true_iff in E as [E _]. apply existsb_exists. eauto.
Qed.

Lemma waits_b_true t l : waits_b t l = true -> wait t = Some l.
Proof.
  unfold waits_b. destruct (wait t) as [l'|]; [|discriminate].
  intros E. apply lock_eqb_eq in E; subst; reflexivity.
Qed.

Lemma is_nil_true {A} (l : list A) : is_nil l = true -> l = [].
Proof. destruct l; [reflexivity | discriminate]. Qed.

Lemma nth_error_mid {A} (s1 s2 : list A) t : nth_error (s1 ++ t :: s2) (length s1) = Some t.
Proof. rewrite nth_error_app2 by lia. rewrite Nat.sub_diag. reflexivity. Qed.

Lemma nth_error_mid_neq {A} (s1 s2 : list A) t t' j :
  j <> length s1 -> nth_error (s1 ++ t' :: s2) j = nth_error (s1 ++ t :: s2) j.
Proof.
  intros Hj. destruct (Nat.lt_ge_cases j (length s1)) as [Hlt|Hge].
  - rewrite !nth_error_app1 by assumption. reflexivity.
  - rewrite !nth_error_app2 by assumption.
    destruct (j - length s1) as [|k] eqn:E; [lia | reflexivity].
Qed.

(* ------------------------------------------------------------------ the boolean discipline *)
Lemma rm_b_sound rank : forall p h, rm_b rank h p = true -> rm rank h p.
Proof.
  induction p as [|[l m|l|d] p IH]; intros h H; cbn in *.
  - apply is_nil_true; assumption.
  - apply andb_true_iff in H as [H1 H2]. split.
    + intros x Hx. rewrite forallb_forall in H1. apply Nat.ltb_lt. apply H1; assumption.
    + apply IH; assumption.
  - apply andb_true_iff in H as [H1 H2]. split; [assumption | apply IH; assumption].
  - apply andb_true_iff in H as [H1 H2]. split; [apply is_nil_true; assumption | apply IH; assumption].
Qed.

Theorem rank_monotone_b_sound rank p : rank_monotone_b rank p = true -> rank_monotone rank p.
Proof. apply rm_b_sound. Qed.

(* ------------------------------------------------------------------ invariants *)
(* a registered writer sits at the Acq it registered for *)
Definition wgood (t : thread) : Prop :=
  forall l, wait t = Some l -> exists p, code t = Acq l Wr :: p.

Lemma tstep_wgood s i t t' : wgood t -> tstep s i t t' -> wgood t'.
Proof.
  intros Hw Hs; destruct Hs; unfold wgood in *; cbn in *; intros l0 E; try discriminate.
  - inversion E; subst; eauto.
  - destruct (Hw l0 E) as [p0 Hp0]; discriminate.
  - destruct (Hw l0 E) as [p0 Hp0]; discriminate.
Qed.

Lemma tstep_rm rank s i t t' :
  rm rank (held t) (code t) -> tstep s i t t' -> rm rank (held t') (code t').
Proof.
  intros Hr Hs; destruct Hs; cbn in *; try (apply Hr).
  destruct Hr as [-> Hr]; exact Hr.
Qed.

Lemma step_Forall (Q : thread -> Prop) :
  (forall s i t t', Q t -> tstep s i t t' -> Q t') ->
  forall s s', Forall Q s -> step s s' -> Forall Q s'.
Proof.
  intros HQ s s' Hg Hs; inversion Hs; subst.
  apply Forall_app in Hg as [H1 H2]. inversion H2; subst.
  apply Forall_app; split; [assumption|]. constructor; [|assumption].
  eapply HQ; eassumption.
Qed.

Lemma reach_Forall (Q : thread -> Prop) :
  (forall s i t t', Q t -> tstep s i t t' -> Q t') ->
  forall s0 s, Forall Q s0 -> reach s0 s -> Forall Q s.
Proof.
  intros HQ s0 s H0 Hr. induction Hr as [s|s s' s'' Hr IH Hs]; [assumption|].
  eapply step_Forall; [exact HQ | apply IH; assumption | exact Hs].
Qed.

Lemma do_step s t t' : In t s -> (forall i, tstep s i t t') -> exists s', step s s'.
Proof.
  intros Hin Hs. apply in_split in Hin as (s1 & s2 & ->).
  eexists; econstructor; apply Hs.
Qed.

(* ------------------------------------------------------------------ the rank theorem *)
Section Progress.
  Variable rank : nat -> nat.
  Variable B : nat.
  Hypothesis rank_bound : forall c, rank c < B.

  Definition good (t : thread) : Prop := rm rank (held t) (code t) /\ wgood t.

  Lemma good_of s : Forall good s -> forall t, In t s -> good t.
  Proof. intros H; rewrite Forall_forall in H; exact H. Qed.

  (* the heart: a thread waiting at an Acq implies that somebody can move.  Induction on
     B - rank l: whoever blocks the thread holds l, is unfinished, does not sit at a Join (it
     holds something), and either sits at a Rel (enabled) or at an Acq of strictly higher rank. *)
  Lemma progress_from_blocked :
    forall n s, Forall good s ->
    forall t l m p, In t s -> code t = Acq l m :: p -> B - lrank rank l <= n ->
    exists s', step s s'.
  Proof.
    induction n as [|n IH]; intros s Hg t l m p Hin Hp Hn.
    { unfold lrank in Hn. specialize (rank_bound (fst l)). lia. }
    assert (Hgt : good t) by (eapply good_of; eassumption).
    assert (Hholder : forall h, In h s -> holds_b h l = true -> exists s', step s s').
    { intros h Hh Hl. assert (Hgh : good h) by (eapply good_of; eassumption).
      destruct h as [ph hh wh]; unfold holds_b in Hl; cbn in *.
      destruct Hgh as [Hrm Hwh]; cbn in *.
      apply inh_true in Hl as [mh Hl].
      destruct ph as [|[l' m'|l'|d'] ph'].
      - cbn in Hrm; subst hh; contradiction.
      - cbn in Hrm. destruct Hrm as [Hlt _]. specialize (Hlt _ Hl). cbn in Hlt.
        eapply (IH s Hg _ l' m' ph' Hh eq_refl).
        unfold lrank in *. specialize (rank_bound (fst l')). lia.
      - eapply do_step; [exact Hh | intro; apply st_rel].
      - cbn in Hrm. destruct Hrm as [-> _]; contradiction. }
    destruct t as [pt ht wt]; cbn in *; subst pt.
    destruct Hgt as [Hrm Hwt]; unfold wgood in Hwt; cbn in *.
    destruct m.
    - (* reader *)
      destruct wt as [lw|]; [destruct (Hwt lw eq_refl) as [? Hx]; discriminate|].
      destruct (anyHoldsW s l) eqn:HW.
      + apply existsb_exists in HW as (h & Hh & Hl). apply (Hholder h Hh). apply holdsW_holds; assumption.
      + destruct (anyWaits s l) eqn:HQ.
        * apply existsb_exists in HQ as (w & Hwin & Hww). apply waits_b_true in Hww.
          assert (Hgw : good w) by (eapply good_of; eassumption).
          destruct Hgw as [_ Hw2]. destruct (Hw2 l Hww) as [pw Hpw].
          destruct (anyHolds s l) eqn:HA.
          -- apply existsb_exists in HA as (h & Hh & Hl). eauto.
          -- destruct w as [pw' hw ww]; cbn in Hww, Hpw. subst pw' ww.
             eapply do_step; [exact Hwin | intro; apply st_acq_w; exact HA].
        * eapply do_step; [exact Hin | intro; apply st_acq_r; assumption].
    - (* writer *)
      destruct wt as [lw|].
      + destruct (Hwt lw eq_refl) as [px Hx]. injection Hx as El Ep. subst lw.
        destruct (anyHolds s l) eqn:HA.
        * apply existsb_exists in HA as (h & Hh & Hl). eauto.
        * eapply do_step; [exact Hin | intro; apply st_acq_w; exact HA].
      + eapply do_step; [exact Hin | intro; apply st_reg_w].
  Qed.

  (* any unfinished thread implies that somebody can move.  Induction on the distance of the
     thread's index from the end of the list: a Join leads to a LATER thread. *)
  Lemma progress_any :
    forall k s, Forall good s ->
    forall i t, nth_error s i = Some t -> code t <> [] -> length s - i <= k ->
    exists s', step s s'.
  Proof.
    induction k as [|k IH]; intros s Hg i t Hi Hne Hk.
    { assert (i < length s) by (apply nth_error_Some; congruence). lia. }
    assert (Hin : In t s) by (eapply nth_error_In; eassumption).
    destruct (code t) as [|[l m|l|d] p] eqn:Hp; [congruence| | |].
    - eapply (progress_from_blocked (B - lrank rank l) s Hg t l m p Hin Hp). lia.
    - destruct t as [pt ht wt]; cbn in *; subst.
      eapply do_step; [exact Hin | intro; apply st_rel].
    - destruct (done_b s (i + 1 + d)) eqn:Hd.
      + apply nth_error_split in Hi as (s1 & s2 & -> & <-).
        destruct t as [pt ht wt]; cbn in *; subst.
        eexists; econstructor; apply st_join; exact Hd.
      + unfold done_b in Hd. destruct (nth_error s (i + 1 + d)) as [u|] eqn:Hu; [|discriminate].
        assert (i + 1 + d < length s) by (apply nth_error_Some; congruence).
        eapply (IH s Hg (i + 1 + d) u Hu); [|lia].
        destruct (code u); [discriminate | congruence].
  Qed.

  Theorem no_stuck_state s : Forall good s -> unfinished s -> exists s', step s s'.
  Proof.
    intros Hg (t & Hin & Hne). apply In_nth_error in Hin as [i Hi].
    eapply (progress_any (length s - i) s Hg i t Hi Hne). lia.
  Qed.

  Lemma start_good progs :
    (forall p, In p progs -> rank_monotone rank p) -> Forall good (start progs).
  Proof.
    intros H. unfold start. apply Forall_forall. intros t Hin.
    apply in_map_iff in Hin as (p & <- & Hp). split; cbn.
    - apply H; assumption.
    - intros l E; discriminate.
  Qed.

  Lemma tstep_good s i t t' : good t -> tstep s i t t' -> good t'.
  Proof.
    intros [H1 H2] Hs; split; [eapply tstep_rm | eapply tstep_wgood]; eassumption.
  Qed.

  (* RankTheorem: any number of threads, any mix of programs from P, any schedule *)
  Theorem RankTheorem :
    forall P : list prog, (forall p, In p P -> rank_monotone rank p) ->
    forall progs, incl progs P ->
    forall s, reach (start progs) s -> unfinished s -> exists s', step s s'.
  Proof.
    intros P HP progs Hincl s Hr Hu. apply no_stuck_state; [|assumption].
    eapply reach_Forall; [exact tstep_good | | exact Hr].
    apply start_good. intros p Hp; apply HP, Hincl; assumption.
  Qed.

  Corollary RankTheorem_no_deadlock :
    forall P : list prog, (forall p, In p P -> rank_monotone rank p) ->
    forall progs, incl progs P -> forall s, reach (start progs) s -> ~ deadlocked s.
  Proof.
    intros P HP progs Hi s Hr [Hu Hn]. apply Hn. eapply RankTheorem; eassumption.
  Qed.
End Progress.

(* ------------------------------------------------------------------ FIFO writer queue *)
(* the queue lists exactly the registered writers *)
Definition qinv (s : state) (q : queue) : Prop :=
  (forall l i, In (l, i) q -> exists t, nth_error s i = Some t /\ wait t = Some l) /\
  (forall i t l, nth_error s i = Some t -> wait t = Some l -> In (l, i) q).

Lemma ftstep_tstep s q i t t' q' : ftstep s q i t t' q' -> tstep s i t t'.
Proof. intros H; destruct H; constructor; assumption. Qed.

Lemma fstep_step s q s' q' : fstep (s, q) (s', q') -> step s s'.
Proof. intros H; inversion H; subst. constructor. eapply ftstep_tstep; eassumption. Qed.

Lemma freach_reach st0 st : freach st0 st -> reach (fst st0) (fst st).
Proof.
  intros H; induction H as [st|st st' st'' Hr IH Hs]; [constructor|].
  destruct st' as [s' q'], st'' as [s'' q'']. eapply reach_step; [exact IH|].
  eapply fstep_step; exact Hs.
Qed.

Lemma qinv_same_wait s1 s2 t t' q :
  wait t' = wait t -> qinv (s1 ++ t :: s2) q -> qinv (s1 ++ t' :: s2) q.
Proof.
  intros Hw [Ha Hb]; split.
  - intros l i Hin. destruct (Ha l i Hin) as (u & Hu & Hwu).
    destruct (Nat.eq_dec i (length s1)) as [->|Hne].
    + rewrite nth_error_mid in Hu; inversion Hu; subst u.
      exists t'; split; [apply nth_error_mid | congruence].
    + exists u; split; [|assumption]. rewrite (nth_error_mid_neq s1 s2 t t') by assumption. assumption.
  - intros i u l Hu Hwu. destruct (Nat.eq_dec i (length s1)) as [->|Hne].
    + rewrite nth_error_mid in Hu; inversion Hu; subst u.
      apply (Hb (length s1) t l); [apply nth_error_mid | congruence].
    + apply (Hb i u l); [|assumption]. rewrite <- (nth_error_mid_neq s1 s2 t t') by assumption. assumption.
Qed.

Lemma qdel_in q i l j : In (l, j) (qdel q i) <-> In (l, j) q /\ j <> i.
Proof.
  unfold qdel. rewrite filter_In. cbn. rewrite negb_true_iff, Nat.eqb_neq. tauto.
Qed.

Lemma fstep_qinv s q s' q' : qinv s q -> fstep (s, q) (s', q') -> qinv s' q'.
Proof.
  intros Hq Hs; inversion Hs as [s1 t t' s2 q0 q0' Hft]; subst.
  inversion Hft; subst; try (eapply qinv_same_wait; [|exact Hq]; reflexivity).
  - (* registration *)
    destruct Hq as [Ha Hb]; split.
    + intros l0 i0 Hin. apply in_app_or in Hin as [Hin|Hin].
      * destruct (Ha l0 i0 Hin) as (u & Hu & Hwu).
        destruct (Nat.eq_dec i0 (length s1)) as [->|Hne].
        -- rewrite nth_error_mid in Hu; inversion Hu; subst u; discriminate.
        -- exists u; split; [|assumption].
           rewrite (nth_error_mid_neq s1 s2 (mkT (Acq l Wr :: p) h None)) by assumption. assumption.
      * destruct Hin as [E|[]]; inversion E; subst.
        eexists; split; [apply nth_error_mid | reflexivity].
    + intros i0 u l0 Hu Hwu. apply in_or_app.
      destruct (Nat.eq_dec i0 (length s1)) as [->|Hne].
      * rewrite nth_error_mid in Hu; inversion Hu; subst u; cbn in Hwu; inversion Hwu; subst.
        right; left; reflexivity.
      * left. apply (Hb i0 u l0); [|assumption].
        rewrite <- (nth_error_mid_neq s1 s2 (mkT (Acq l Wr :: p) h None) (mkT (Acq l Wr :: p) h (Some l))) by assumption.
        assumption.
  - (* queued acquisition *)
    destruct Hq as [Ha Hb]; split.
    + intros l0 i0 Hin. apply qdel_in in Hin as [Hin Hne].
      destruct (Ha l0 i0 Hin) as (u & Hu & Hwu). exists u; split; [|assumption].
      rewrite (nth_error_mid_neq s1 s2 (mkT (Acq l Wr :: p) h (Some l))) by assumption. assumption.
    + intros i0 u l0 Hu Hwu. destruct (Nat.eq_dec i0 (length s1)) as [->|Hne].
      * rewrite nth_error_mid in Hu; inversion Hu; subst u; discriminate.
      * apply qdel_in; split; [|assumption]. apply (Hb i0 u l0); [|assumption].
        rewrite <- (nth_error_mid_neq s1 s2 (mkT (Acq l Wr :: p) h (Some l)) (mkT p ((l, Wr) :: h) None)) by assumption.
        assumption.
Qed.

Lemma qinv_start progs : qinv (start progs) [].
Proof.
  split.
  - intros l i [].
  - intros i t l Hn Hw. apply nth_error_In in Hn. unfold start in Hn.
    apply in_map_iff in Hn as (p & <- & _). discriminate.
Qed.

Lemma wgood_start progs : Forall wgood (start progs).
Proof.
  apply Forall_forall. intros t Hin. unfold start in Hin.
  apply in_map_iff in Hin as (p & <- & _). intros l E; discriminate.
Qed.

(* the head of the queue for l: a registered writer sitting at Acq l Wr *)
Lemma queue_head s q l i :
  Forall wgood s -> qinv s q -> In (l, i) q ->
  exists j s1 s2 p h, qhead q l = Some j /\ s = s1 ++ mkT (Acq l Wr :: p) h (Some l) :: s2 /\ length s1 = j.
Proof.
  intros Hg [Ha _] Hin. unfold qhead.
  destruct (find (fun e => lock_eqb (fst e) l) q) as [[l' j]|] eqn:Hf.
  - apply find_some in Hf as [Hq El]. cbn in El. apply lock_eqb_eq in El; subst l'.
    destruct (Ha l j Hq) as (u & Hu & Hwu).
    assert (Hgu : wgood u) by (rewrite Forall_forall in Hg; apply Hg; eapply nth_error_In; eassumption).
    destruct (Hgu l Hwu) as [p Hp].
    apply nth_error_split in Hu as (s1 & s2 & -> & <-).
    destruct u as [cu hu wu]; cbn in *; subst.
    exists (length s1), s1, s2, p, hu. auto.
  - exfalso. apply (find_none _ _ Hf) in Hin. cbn in Hin. rewrite lock_eqb_refl in Hin. discriminate.
Qed.

(* every step of the unordered semantics has a FIFO counterpart somewhere in the state:
   a FIFO-stuck state is stuck in the unordered semantics too *)
Lemma step_to_fstep s q s' :
  Forall wgood s -> qinv s q -> step s s' -> exists st', fstep (s, q) st'.
Proof.
  intros Hg Hq Hs. inversion Hs as [s1 t t' s2 Hts]; subst.
  inversion Hts; subst.
  - eexists; econstructor; apply ft_acq_r; assumption.
  - eexists; econstructor; apply ft_reg_w.
  - (* a registered writer may take l: the head of l's queue may *)
    destruct Hq as [Ha Hb].
    assert (Hin : In (l, length s1) q) by (eapply Hb; [apply nth_error_mid | reflexivity]).
    destruct (queue_head _ _ _ _ Hg (conj Ha Hb) Hin) as (j & s1' & s2' & p' & h' & Hh & Es & Hl).
    rewrite Es in *. eexists; econstructor. apply ft_acq_w; [assumption | rewrite Hl; exact Hh].
  - (* a direct acquisition: either the queue for l is empty, or its head may take l *)
    destruct (qhas q l) eqn:Hqh.
    + apply existsb_exists in Hqh as ([l' j] & Hin & El). cbn in El. apply lock_eqb_eq in El; subst l'.
      destruct (queue_head _ _ _ _ Hg Hq Hin) as (j' & s1' & s2' & p' & h' & Hh & Es & Hl).
      rewrite Es in *. eexists; econstructor. apply ft_acq_w; [assumption | rewrite Hl; exact Hh].
    + eexists; econstructor; apply ft_acq_w_direct; assumption.
  - eexists; econstructor; apply ft_rel.
  - eexists; econstructor; apply ft_join; assumption.
Qed.

Lemma freach_inv progs st :
  freach (fstart progs) st -> Forall wgood (fst st) /\ qinv (fst st) (snd st).
Proof.
  intros H. remember (fstart progs) as st0 eqn:E.
  induction H as [st|st st' st'' Hr IH Hs]; subst.
  - split; [apply wgood_start | apply qinv_start].
  - destruct (IH eq_refl) as [Hg Hq]. destruct st' as [s' q'], st'' as [s'' q'']; cbn in *. split.
    + eapply step_Forall; [exact tstep_wgood | exact Hg | eapply fstep_step; exact Hs].
    + eapply fstep_qinv; eassumption.
Qed.

Theorem fifo_dead_unordered_dead progs st :
  freach (fstart progs) st -> fdeadlocked st -> deadlocked (fst st).
Proof.
  intros Hr [Hu Hn]. split; [assumption|]. intros [s' Hs].
  destruct (freach_inv _ _ Hr) as [Hg Hq]. destruct st as [s q]; cbn in *.
  apply Hn. eapply step_to_fstep; eassumption.
Qed.

Section ProgressFifo.
  Variable rank : nat -> nat.
  Variable B : nat.
  Hypothesis rank_bound : forall c, rank c < B.

  (* parking_lot's FIFO queue: every FIFO-reachable state is reachable with the unordered
     queue, and a FIFO-stuck state would be stuck there too *)
  Theorem RankTheoremFifo :
    forall P : list prog, (forall p, In p P -> rank_monotone rank p) ->
    forall progs, incl progs P ->
    forall st, freach (fstart progs) st -> unfinished (fst st) -> exists st', fstep st st'.
  Proof.
    intros P HP progs Hincl st Hr Hu.
    destruct (freach_inv _ _ Hr) as [Hg Hq].
    pose proof (freach_reach _ _ Hr) as Hr'. cbn in Hr'.
    destruct (RankTheorem rank B rank_bound P HP progs Hincl _ Hr' Hu) as [s' Hs].
    destruct st as [s q]; cbn in *. eapply step_to_fstep; eassumption.
  Qed.
End ProgressFifo.

(* ------------------------------------------------------------------ the executable semantics *)
Lemma set_nth_split {A} (s1 s2 : list A) t t' : set_nth (length s1) t' (s1 ++ t :: s2) = s1 ++ t' :: s2.
Proof.
  induction s1 as [|a s1 IH]; [reflexivity|].
  unfold set_nth in *; cbn in *. f_equal. exact IH.
Qed.

Lemma ftstep_f_sound s q i t t' q' : ftstep_f s q i t = Some (t', q') -> ftstep s q i t t' q'.
Proof.
  destruct t as [c h w]; unfold ftstep_f; cbn.
  destruct c as [|[l m|l|d] p]; [discriminate| | |].
  - destruct m.
    + destruct w; [discriminate|].
      destruct (anyHoldsW s l) eqn:E1; [discriminate|]. destruct (anyWaits s l) eqn:E2; [discriminate|].
      cbn. intros E; inversion E; subst. apply ft_acq_r; assumption.
    + destruct w as [l'|].
      * destruct (lock_eqb l' l) eqn:El; [|discriminate]. apply lock_eqb_eq in El; subst l'.
        destruct (anyHolds s l) eqn:E1; [discriminate|]. cbn.
        destruct (qhead q l) as [j|] eqn:E2; [|discriminate].
        destruct (Nat.eqb j i) eqn:E3; [|discriminate]. apply Nat.eqb_eq in E3; subst j.
        intros E; inversion E; subst. apply ft_acq_w; assumption.
      * destruct (anyHolds s l) eqn:E1; cbn.
        -- intros E; inversion E; subst. apply ft_reg_w.
        -- destruct (qhas q l) eqn:E2; intros E; inversion E; subst.
           ++ apply ft_reg_w.
           ++ apply ft_acq_w_direct; assumption.
  - intros E; inversion E; subst. apply ft_rel.
  - destruct (done_b s (i + 1 + d)) eqn:E1; [|discriminate].
    intros E; inversion E; subst. apply ft_join; assumption.
Qed.

Lemma ftstep_f_complete s q i t t' q' : ftstep s q i t t' q' -> ftstep_f s q i t <> None.
Proof.
  intros H; destruct H; unfold ftstep_f; cbn.
  - rewrite H, H0. discriminate.
  - destruct (anyHolds s l || qhas q l); discriminate.
  - rewrite lock_eqb_refl, H, H0, Nat.eqb_refl. discriminate.
  - rewrite H, H0. discriminate.
  - discriminate.
  - rewrite H. discriminate.
Qed.

Lemma fstep_f_sound st i st' : fstep_f st i = Some st' -> fstep st st'.
Proof.
  destruct st as [s q]; unfold fstep_f; cbn.
  destruct (nth_error s i) as [t|] eqn:Hn; [|discriminate].
  destruct (ftstep_f s q i t) as [[t' q']|] eqn:Hf; [|discriminate].
  intros E; inversion E; subst.
  apply nth_error_split in Hn as (s1 & s2 & -> & <-).
  rewrite set_nth_split. constructor. apply ftstep_f_sound; assumption.
Qed.

Lemma fstep_f_complete st st' :
  fstep st st' -> exists i, i < length (fst st) /\ fstep_f st i <> None.
Proof.
  intros H; inversion H as [s1 t t' s2 q q' Hft]; subst. exists (length s1); split.
  - cbn. rewrite app_length; cbn; lia.
  - unfold fstep_f; cbn. rewrite nth_error_mid.
    pose proof (ftstep_f_complete _ _ _ _ _ _ Hft) as Hc.
    destruct (ftstep_f (s1 ++ t :: s2) q (length s1) t) as [[t0 q0]|]; [discriminate | congruence].
Qed.

Lemma frun_sound : forall sch st st', frun st sch = Some st' -> freach st st'.
Proof.
  induction sch as [|i r IH]; intros st st' H; cbn in H.
  - inversion H; subst; constructor.
  - destruct (fstep_f st i) as [st1|] eqn:E; [|discriminate].
    apply fstep_f_sound in E. specialize (IH _ _ H).
    clear H. induction IH as [x|x y z Hxy IHxy Hyz].
    + eapply freach_step; [constructor | exact E].
    + eapply freach_step; [apply IHxy; exact E | exact Hyz].
Qed.

Lemma unfinished_b_sound s : unfinished_b s = true -> unfinished s.
Proof.
  unfold unfinished_b. intros H. apply existsb_exists in H as (t & Hin & Hn).
  exists t; split; [assumption|]. destruct (code t); [discriminate | discriminate].
Qed.

Lemma stuck_b_sound st : stuck_b st = true -> ~ exists st', fstep st st'.
Proof.
  unfold stuck_b. intros H [st' Hs]. rewrite forallb_forall in H.
  apply fstep_f_complete in Hs as (i & Hi & Hne).
  specialize (H i). rewrite in_seq in H. specialize (H ltac:(lia)).
  destruct (fstep_f st i); [discriminate | congruence].
Qed.

(* a schedule accepted by the executable checker is a reachable deadlock of the FIFO relation,
   hence also of the unordered relation *)
Theorem check_deadlock_sound progs sch :
  check_deadlock progs sch = true ->
  exists st, freach (fstart progs) st /\ fdeadlocked st.
Proof.
  unfold check_deadlock. destruct (frun (fstart progs) sch) as [st|] eqn:E; [|discriminate].
  intros H. unfold dead_b in H. apply andb_true_iff in H as [H1 H2].
  exists st; split; [apply frun_sound with sch; assumption|]. split.
  - apply unfinished_b_sound; assumption.
  - apply stuck_b_sound; assumption.
Qed.

Corollary check_deadlock_unordered progs sch :
  check_deadlock progs sch = true ->
  exists s, reach (start progs) s /\ deadlocked s.
Proof.
  intros H. apply check_deadlock_sound in H as (st & Hr & Hd).
  exists (fst st); split.
  - apply freach_reach in Hr; exact Hr.
  - eapply fifo_dead_unordered_dead; eassumption.
Qed.

(* satisfiability of the hypotheses: a two-lock program set that is rank-monotone, and the
   classic AB/BA pair that is not and deadlocks *)
Example ex_rank (c : nat) : nat := c.
Example ex_monotone :
  forallb (rank_monotone_b ex_rank)
          [[Acq (0, 0) Rd; Acq (1, 0) Wr; Rel (1, 0); Rel (0, 0)]; [Acq (1, 0) Wr; Rel (1, 0); Join 0]] = true.
Proof. reflexivity. Qed.
Example ex_abba :
  check_deadlock [[Acq (0, 0) Wr; Acq (1, 0) Wr; Rel (1, 0); Rel (0, 0)];
                  [Acq (1, 0) Wr; Acq (0, 0) Wr; Rel (0, 0); Rel (1, 0)]] [0; 1; 0; 1] = true.
Proof. reflexivity. Qed.
Example ex_abba_found :
  find_deadlock [[Acq (0, 0) Wr; Acq (1, 0) Wr; Rel (1, 0); Rel (0, 0)];
                 [Acq (1, 0) Wr; Acq (0, 0) Wr; Rel (0, 0); Rel (1, 0)]] 100 <> None.
Proof. vm_compute. discriminate. Qed.
