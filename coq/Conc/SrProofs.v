(* Conc/SrProofs.v — proofs about the step model Conc/SrSteps.v (C10, C12 race part).
   1. the MEMORY FRAME theorem: a step changes the data map only inside the step's declared
      write footprint (data copy of write_with, relocation copy, punches of compact);
   2. C12 race: a punch never zeroes a byte below the length PUBLISHED at the time of the punch
      (all states); the end-to-end statement (bytes copied before the length update survive
      a concurrent compact) is REFUTED by a concrete schedule;
   3. C10 reader: bytes of a reader stay what the region held at the reader's creation as long
      as no step's footprint touches them; the unconditional statement is REFUTED (relocation +
      flush + reuse of the old extent);
   4. C10 isolation / quiescent invariant: REFUTED (a region created beyond the end of the
      file after a racing relocation; a removal refused because flush holds a clone);
   5. the PLACEMENT FRAME theorem (a step leaves start/len/reserve/id of every slot it does not
      target alone) and, with 1., the inductive core of isolation: over any schedule in which no
      step targets slot i and no footprint meets region i's bytes, region i keeps its placement
      and every byte;
   7. the lock discipline: a step acquires only the lock named by its label, so the four
      database-level locks are exclusive in every reachable state. *)
From Anydb Require Import Common.Base Gen.Consts Rawdb.AMap Rawdb.Alloc Rawdb.AllocInv Conc.SrSteps Conc.SrScen.

(* ---- 0. the data map is a field nothing but db_write / copy / punch touches ------------------ *)
Lemma mem_upd s i f : mem (upd s i f) = mem s.
Proof. unfold upd. destruct (slot s i); reflexivity. Qed.

Lemma mem_wid s i : mem (write_if_dirty s i) = mem s.
Proof. unfold write_if_dirty. destruct (slot s i) as [m|]; [destruct (r_state m =? ST_WRITE)|]; reflexivity. Qed.

Lemma mem_set_min_len s n : mem (set_min_len s n) = mem s.
Proof. unfold set_min_len. destruct (ceil_page n <=? file_len s); reflexivity. Qed.

Lemma remove_hole_mem s a s' o : remove_hole s a = (s', o) -> mem s' = mem s.
Proof. unfold remove_hole. destruct (aget a (holes s)); intros H; inversion H; reflexivity. Qed.

Lemma roch_mem s a b :
  match remove_or_compress_hole s a b with
  | AOk s' => mem s' = mem s
  | AErr s' _ => mem s' = mem s
  | APanic => True
  end.
Proof.
  unfold remove_or_compress_hole. destruct (remove_hole s a) as [s1 [z|]] eqn:E.
  - apply remove_hole_mem in E. destruct (z =? b); [exact E|]. destruct (b <? z); cbn; exact E.
  - apply remove_hole_mem in E. exact E.
Qed.
Lemma roch_ok s a b s' : remove_or_compress_hole s a b = AOk s' -> mem s' = mem s.
Proof. intros H. pose proof (roch_mem s a b) as R. rewrite H in R. exact R. Qed.
Lemma roch_err s a b s' e : remove_or_compress_hole s a b = AErr s' e -> mem s' = mem s.
Proof. intros H. pose proof (roch_mem s a b) as R. rewrite H in R. exact R. Qed.

Lemma lrr_mem s i m :
  match layout_remove_region s i m with
  | AOk s' => mem s' = mem s
  | AErr s' _ => mem s' = mem s
  | APanic => True
  end.
Proof.
  unfold layout_remove_region. destruct (aget (r_start m) (s2r s)) as [j|]; [|reflexivity].
  destruct (j =? i); reflexivity.
Qed.
Lemma lrr_ok s i m s' : layout_remove_region s i m = AOk s' -> mem s' = mem s.
Proof. intros H. pose proof (lrr_mem s i m) as R. rewrite H in R. exact R. Qed.
Lemma lrr_err s i m s' e : layout_remove_region s i m = AErr s' e -> mem s' = mem s.
Proof. intros H. pose proof (lrr_mem s i m) as R. rewrite H in R. exact R. Qed.

Lemma lir_mem s a i s' : layout_insert_region s a i = Some s' -> mem s' = mem s.
Proof. unfold layout_insert_region. destruct (aget a (s2r s)); intros H; inversion H; reflexivity. Qed.

Lemma do_create_mem s id a s' i : do_create s id a = Some (s', i) -> mem s' = mem s.
Proof.
  unfold do_create. destruct (layout_insert_region _ _ _) as [s4|] eqn:E; intros H; inversion H; subst.
  apply lir_mem in E. exact E.
Qed.

Lemma promote_one_mem s p : mem (promote_one s p) = mem s.
Proof.
  unfold promote_one. destruct p as [start size].
  destruct (apred start (holes s)) as [[hs hz]|].
  - destruct (hs + hz =? start).
    + destruct (remove_hole s hs) as [sa oa] eqn:Ea. cbn [fst].
      destruct (remove_hole sa (hs + (size + hz))) as [sb [z|]] eqn:Eb; cbn;
        apply remove_hole_mem in Ea; apply remove_hole_mem in Eb; congruence.
    + destruct (remove_hole s (start + size)) as [sb [z|]] eqn:Eb; cbn; apply remove_hole_mem in Eb; exact Eb.
  - destruct (remove_hole s (start + size)) as [sb [z|]] eqn:Eb; cbn; apply remove_hole_mem in Eb; exact Eb.
Qed.

Lemma promote_mem s : mem (promote s) = mem s.
Proof.
  unfold promote.
  assert (G : forall l s0, mem (fold_left promote_one l s0) = mem s0).
  { induction l as [|p l IH]; intros s0; cbn [fold_left]; [reflexivity|]. rewrite IH. apply promote_one_mem. }
  rewrite G. reflexivity.
Qed.

Lemma db_write_mem s off f n s' : db_write s off f n = Some s' -> mem s' = mem_write (mem s) off f n.
Proof. unfold db_write. destruct (off + n <=? file_len s); intros H; inversion H; reflexivity. Qed.

(* ---- 1. write footprints and the frame theorem --------------------------------------------- *)



Lemma covers_any_app l1 l2 a : covers_any (l1 ++ l2) a = covers_any l1 a || covers_any l2 a.
Proof. unfold covers_any. apply existsb_app. Qed.

Lemma punch_frame s a z x : covers (a, z) x = false -> mem (fst (punch s a z)) x = mem s x.
Proof.
  unfold punch, covers. cbn [fst snd]. intros H. destruct (approx_punchable s a z); cbn [fst]; [|reflexivity].
  cbn. unfold mem_zero. rewrite H. reflexivity.
Qed.
Lemma punch_other s a z : holes (fst (punch s a z)) = holes s /\ file_len (fst (punch s a z)) = file_len s
                          /\ slots (fst (punch s a z)) = slots s.
Proof. unfold punch. destruct (approx_punchable s a z); cbn; auto. Qed.

Lemma punch_region_frame s k x : covers_any (tail_of s k) x = false -> mem (fst (punch_region s k)) x = mem s x.
Proof.
  unfold punch_region, tail_of. destruct (slot s k) as [m|]; [|reflexivity].
  cbn zeta. destruct (ceil_page (r_len m) <? r_reserved m); [|reflexivity].
  cbn [covers_any existsb]. rewrite orb_false_r. apply punch_frame.
Qed.
Lemma punch_region_holes s k : holes (fst (punch_region s k)) = holes s.
Proof.
  unfold punch_region. destruct (slot s k) as [m|]; [|reflexivity].
  cbn zeta. destruct (ceil_page (r_len m) <? r_reserved m); [|reflexivity]. apply punch_other.
Qed.

Lemma punch_fold_frame l x :
  covers_any l x = false ->
  forall acc, mem (fst (fold_left (fun sn h => let '(s1, n1) := punch (fst sn) (fst h) (snd h) in (s1, snd sn + n1)) l acc)) x
              = mem (fst acc) x.
Proof.
  induction l as [|h l IH]; intros H acc; cbn [fold_left]; [reflexivity|].
  cbn [covers_any existsb] in H. apply orb_false_elim in H. destruct H as [Hh Hl].
  rewrite (IH Hl). destruct (punch (fst acc) (fst h) (snd h)) as [s1 n1] eqn:E. cbn [fst].
  replace s1 with (fst (punch (fst acc) (fst h) (snd h))) by (rewrite E; reflexivity).
  apply punch_frame. destruct h; exact Hh.
Qed.

Lemma punch_holes_of_frame s x : covers_any (holes s) x = false -> mem (fst (punch_holes_of s)) x = mem s x.
Proof. intros H. unfold punch_holes_of. rewrite (punch_fold_frame _ _ H). reflexivity. Qed.

Lemma punch_finish_frame s t all p x :
  covers_any (holes s) x = false -> mem (fst (punch_finish s t all p)) x = mem s x.
Proof.
  intros H. unfold punch_finish. destruct (punch_holes_of s) as [s1 n1] eqn:E.
  replace s1 with (fst (punch_holes_of s)) by (rewrite E; reflexivity).
  destruct (0 <? p + n1); cbn [fst]; apply punch_holes_of_frame; exact H.
Qed.

Ltac dmatch :=
  match goal with
  | |- context [match ?x with _ => _ end] => let E := fresh "E" in destruct x eqn:E
  end.

Ltac memhyps :=
  repeat match goal with
  | E : remove_or_compress_hole _ _ _ = AOk _ |- _ => apply roch_ok in E
  | E : remove_or_compress_hole _ _ _ = AErr _ _ |- _ => apply roch_err in E
  | E : layout_remove_region _ _ _ = AOk _ |- _ => apply lrr_ok in E
  | E : layout_remove_region _ _ _ = AErr _ _ |- _ => apply lrr_err in E
  | E : layout_insert_region _ _ _ = Some _ |- _ => apply lir_mem in E
  | E : do_create _ _ _ = Some (_, _) |- _ => apply do_create_mem in E
  end.

Ltac memleaf :=
  cbn [fst snd]; memhyps;
  repeat first [rewrite mem_wid | rewrite mem_upd | rewrite mem_set_min_len | rewrite promote_mem];
  cbn [mem set_resv set_rfile set_mem put_slot set_slots set_s2r set_holes set_pend set_file_len set_held];
  try congruence.

(* steps that never write the data map *)
Lemma tstep_nowrite s oc t :
  wfoot s t = [] ->
  match t_pc t with
  | PWF_Data _ | PWX_Data _ | PWR_Copy _ | PWR_Write _ | PP_Pause _ | PP_Meta _ _ _ => True
  | _ => mem (fst (tstep s oc t)) = mem s
  end.
Proof.
  intros _. unfold tstep.
  destruct (t_pc t) eqn:Epc; try exact I; unfold begin_op, flush_next_take, flush_after_collect, flush_return;
    repeat dmatch; memleaf.
Qed.

Theorem tstep_mem_frame s oc t a :
  covers_any (wfoot s t) a = false -> mem (fst (tstep s oc t)) a = mem s a.
Proof.
  intros H.
  destruct (t_pc t) eqn:Epc;
    try (pose proof (tstep_nowrite s oc t) as N; unfold wfoot in N; rewrite Epc in N; rewrite (N eq_refl); reflexivity).
  - (* PWF_Data *) unfold tstep, wfoot in *. rewrite Epc in *.
    destruct (db_write s (w_start w + w_wo w) (w_f w) (w_n w)) as [s1|] eqn:E; cbn [fst]; [|reflexivity].
    apply db_write_mem in E. rewrite E. unfold mem_write.
    cbn [covers_any existsb] in H. rewrite orb_false_r in H. unfold covers in H. cbn [fst snd] in H. rewrite H. reflexivity.
  - (* PWX_Data *) unfold tstep, wfoot in *. rewrite Epc in *.
    destruct (db_write s (w_start w + w_wo w) (w_f w) (w_n w)) as [s1|] eqn:E; cbn [fst]; [|reflexivity].
    apply db_write_mem in E. rewrite E. unfold mem_write.
    cbn [covers_any existsb] in H. rewrite orb_false_r in H. unfold covers in H. cbn [fst snd] in H. rewrite H. reflexivity.
  - (* PWR_Copy *) unfold tstep, wfoot in *. rewrite Epc in *. cbn zeta.
    destruct ((w_start w + w_copy_len w <=? file_len s) && (w_new_start w + w_copy_len w <=? file_len s)); cbn [fst]; [|reflexivity].
    cbn [mem set_mem]. unfold mem_copy.
    cbn [covers_any existsb] in H. rewrite orb_false_r in H. unfold covers in H. cbn [fst snd] in H. rewrite H. reflexivity.
  - (* PWR_Write *) unfold tstep, wfoot in *. rewrite Epc in *.
    destruct (db_write s (w_new_start w + w_wo w) (w_f w) (w_n w)) as [s1|] eqn:E; cbn [fst]; [|reflexivity].
    apply db_write_mem in E. rewrite E. unfold mem_write.
    cbn [covers_any existsb] in H. rewrite orb_false_r in H. unfold covers in H. cbn [fst snd] in H. rewrite H. reflexivity.
  - (* PP_Pause *) unfold tstep, wfoot in *. rewrite Epc in *.
    destruct all; [apply punch_finish_frame; exact H|reflexivity].
  - (* PP_Meta *) unfold tstep, wfoot in *. rewrite Epc in *.
    destruct todo as [|k rest]; [apply punch_finish_frame; exact H|].
    rewrite covers_any_app in H. apply orb_false_elim in H. destruct H as [Ht Hh].
    destruct (punch_region s k) as [s1 n1] eqn:E.
    assert (E1 : s1 = fst (punch_region s k)) by (rewrite E; reflexivity).
    destruct rest.
    + rewrite punch_finish_frame; [subst s1; apply punch_region_frame; exact Ht|].
      subst s1. rewrite punch_region_holes. exact Hh.
    + cbn [fst]. subst s1. apply punch_region_frame. exact Ht.
Qed.

(* the same at the level of the global step and of schedules *)
Lemma nth_error_set_nth_t l n x t : nth_error l n = Some t -> nth_error (set_nth_t l n x) n = Some x.
Proof. revert n; induction l; destruct n; cbn; intros; try discriminate; auto. Qed.

Theorem gstep_mem_frame g me g' t a :
  gstep g me = Some g' -> nth_error (g_th g) me = Some t ->
  covers_any (wfoot (g_st g) t) a = false -> mem (g_st g') a = mem (g_st g) a.
Proof.
  unfold gstep. intros H Ht Hc. rewrite Ht in H.
  destruct (t_finished t); [discriminate|]. destruct (negb (enabled g t)); [discriminate|].
  destruct (tstep (g_st g) (others_clone (g_th g) me) t) as [s1 t1] eqn:E. inversion H; subst; cbn [g_st].
  replace s1 with (fst (tstep (g_st g) (others_clone (g_th g) me) t)) by (rewrite E; reflexivity).
  apply tstep_mem_frame. exact Hc.
Qed.


Theorem grun_mem_frame sched : forall g a, quiet_b g sched a = true -> mem (g_st (grun g sched)) a = mem (g_st g) a.
Proof.
  induction sched as [|me r IH]; intros g a H; [reflexivity|].
  unfold grun in *. cbn [fold_left]. cbn [quiet_b] in H.
  destruct (gstep g me) as [g'|] eqn:E.
  - destruct (nth_error (g_th g) me) as [t|] eqn:Et; [|discriminate].
    apply andb_true_iff in H. destruct H as [Hc Hq]. apply negb_true_iff in Hc.
    rewrite (IH g' a Hq). eapply gstep_mem_frame; eauto.
  - apply IH. exact H.
Qed.

(* ---- 2. C12, race part ------------------------------------------------------------------------ *)
Lemma le_ceil_page n : n <= ceil_page n.
Proof. unfold ceil_page, PAGE_SIZE_MINUS_1, PAGE_SIZE. lia. Qed.

(* a punch of region i's tail leaves every byte below ceil_page(published length) and every byte
   at or above the end of the reserve alone — in EVERY state, whatever other threads are doing *)
Theorem punch_region_safe s i m a :
  slot s i = Some m ->
  a < r_start m + ceil_page (r_len m) \/ r_start m + r_reserved m <= a ->
  mem (fst (punch_region s i)) a = mem s a.
Proof.
  intros Hs Ha. apply punch_region_frame. unfold tail_of. rewrite Hs. cbn zeta.
  destruct (ceil_page (r_len m) <? r_reserved m) eqn:E; [|reflexivity].
  cbn [covers_any existsb]. rewrite orb_false_r. unfold covers. cbn [fst snd]. lia.
Qed.

(* … in particular no byte below the length published at the time of the punch is zeroed *)
Theorem punch_keeps_published s i m k :
  slot s i = Some m -> k < r_len m -> mem (fst (punch_region s i)) (r_start m + k) = mem s (r_start m + k).
Proof.
  intros Hs Hk. apply (punch_region_safe s i m); [exact Hs|]. left. pose proof (le_ceil_page (r_len m)). lia.
Qed.

(* the race window: data copied by write_with's fits path but not yet published survives the
   punch iff it ends at or below ceil_page(old length) *)
Theorem punch_keeps_unpublished_same_page s i m w k :
  slot s i = Some m -> w_start w = r_start m -> w_len w = r_len m ->
  w_wo w + w_n w <= ceil_page (r_len m) -> k < w_n w ->
  mem (fst (punch_region s i)) (w_start w + w_wo w + k) = mem s (w_start w + w_wo w + k).
Proof.
  intros Hs Hst Hl Hfit Hk. apply (punch_region_safe s i m); [exact Hs|]. left. lia.
Qed.

(* ---- 3. refutations of the full statements by concrete schedules ------------------------------ *)

(* C12 race: len 10 / reserve 8192; the writer copies 5000 bytes and is held before its length
   update; compact's punch_holes reads len 10 and punches [4096, 8192); the byte at 4096 is 0 *)
Theorem race_refuted : ~ race_stmt.
Proof.
  intro H.
  pose (m := match slot (run (init 0) race_pre) 0 with Some m => m | None => mkR 0 0 0 0 0 0 0 end).
  specialize (H race_pre 0 1 (gb 2) 5000 race_sched m).
  cbv zeta in H.
  assert (E : mem (g_st (grun (mkG (run (init 0) race_pre)
                 [mk_thread [TWrite 1 (gb 2) 5000 None false] [(1, 0)]; mk_thread [TCompact] []]) race_sched))
              (r_start m + r_len m + 4086) = gb 2 4086).
  { apply H; vm_compute; reflexivity. }
  vm_compute in E. discriminate E.
Qed.

(* C10 reader: the reader of region 1 (slot 0, at offset 0, 100 bytes) is held while region 1
   relocates, flush promotes the old extent, region 4 is created there and written *)
Theorem reader_refuted : ~ reader_stmt.
Proof.
  intro H.
  specialize (H reader_cfg reader_sched1 reader_sched2 0%nat 0 0 100 0).
  cbv zeta in H.
  assert (E : held_along (grun (ginit reader_cfg) reader_sched1) reader_sched2 0 0
                (mem (g_st (grun (grun (ginit reader_cfg) reader_sched1) reader_sched2)) (0 + 0)) = true).
  { apply H; vm_compute; reflexivity. }
  vm_compute in E. discriminate E.
Qed.

(* C10 isolation: thread 0 creates region 4 and writes 10 bytes; alone both succeed; with a
   relocation to the end of the file between its file-length check and its allocation the
   region starts AT the end of the file and the write panics *)
Theorem isolation_refuted : ~ isolation_stmt.
Proof.
  intro H.
  pose (th := match nth_error (g_th (grun (ginit beyond_cfg) beyond_sched)) 0 with Some t => t | None => mk_thread [] [] end).
  pose (ph := match nth_error (snd beyond_cfg) 0 with Some p => p | None => ([], []) end).
  pose (tha := match nth_error (g_th (grun (thread_alone beyond_cfg 0) (repeat O 100))) 0 with Some t => t | None => mk_thread [] [] end).
  assert (P1 : wf_cfg beyond_cfg = true) by (vm_compute; reflexivity).
  assert (P2 : all_finished (grun (ginit beyond_cfg) beyond_sched) = true) by (vm_compute; reflexivity).
  assert (P3 : nth_error (g_th (grun (ginit beyond_cfg) beyond_sched)) 0 = Some th) by (vm_compute; reflexivity).
  assert (P4 : nth_error (snd beyond_cfg) 0 = Some ph) by (vm_compute; reflexivity).
  assert (P5 : nth_error (g_th (grun (thread_alone beyond_cfg 0) (repeat O 100))) 0 = Some tha) by (vm_compute; reflexivity).
  assert (P6 : t_finished tha = true) by (vm_compute; reflexivity).
  destruct (H beyond_cfg beyond_sched 0%nat th ph P1 P2 P3 P4 100%nat tha P5 P6) as [E _].
  vm_compute in E. discriminate E.
Qed.

(* … and the owner's remove is refused while flush holds a clone of the region *)
Theorem isolation_refuted_remove :
  exists (c : cfg) sched t th tha,
    wf_cfg c = true /\ all_finished (grun (ginit c) sched) = true /\
    nth_error (g_th (grun (ginit c) sched)) t = Some th /\
    nth_error (g_th (grun (thread_alone c t) (repeat O 100))) O = Some tha /\ t_finished tha = true /\
    all2 res_agree (t_results th) (t_results tha) = false.
Proof.
  exists remove_cfg, remove_sched, 0%nat.
  exists (match nth_error (g_th (grun (ginit remove_cfg) remove_sched)) 0 with Some t => t | None => mk_thread [] [] end).
  exists (match nth_error (g_th (grun (thread_alone remove_cfg 0) (repeat O 100))) 0 with Some t => t | None => mk_thread [] [] end).
  split; [vm_compute; reflexivity|]. split; [vm_compute; reflexivity|]. split; [vm_compute; reflexivity|].
  split; [vm_compute; reflexivity|]. split; vm_compute; reflexivity.
Qed.

Lemma quiescent_b_sound g : quiescent_b g = true -> quiescent g.
Proof.
  unfold quiescent_b, quiescent. intros H t Ht. rewrite forallb_forall in H. specialize (H t Ht).
  destruct (t_pc t); try discriminate; reflexivity.
Qed.

(* C10 quiescent invariant: in the same schedule the layout ends beyond the file *)
Theorem inv_quiescent_refuted : ~ inv_quiescent_stmt.
Proof.
  intro H. specialize (H beyond_cfg beyond_sched).
  assert (I : Inv (g_st (grun (ginit beyond_cfg) beyond_sched))).
  { apply H; [vm_compute; reflexivity|]. apply quiescent_b_sound. vm_compute. reflexivity. }
  destruct I as [_ _ _ _ _ _ _ F _ _ _].
  vm_compute in F. apply F. reflexivity.
Qed.

(* ---- 4. the restricted reader theorem ----------------------------------------------------------- *)
(* as long as no step of the schedule has the reader's byte in its write footprint, the reader
   yields the byte the region held when the snapshot was current *)
Theorem reader_partial :
  forall g1 sched2 i start ln k,
    snapshot_current g1 i start ln = true -> (k <? ln) = true ->
    quiet_b g1 sched2 (start + k) = true ->
    region_byte (g_st g1) i k = Some (mem (g_st (grun g1 sched2)) (start + k)).
Proof.
  intros g1 sched2 i start ln k Hs Hk Hq.
  rewrite (grun_mem_frame sched2 g1 (start + k) Hq).
  unfold snapshot_current in Hs. unfold region_byte. destruct (slot (g_st g1) i) as [m|]; [|discriminate].
  apply andb_true_iff in Hs. destruct Hs as [H1 H2].
  apply N.eqb_eq in H1. apply N.eqb_eq in H2. subst. rewrite Hk. reflexivity.
Qed.

Lemma held_along_here g sched i k b : region_has (g_st g) i k b = true -> held_along g sched i k b = true.
Proof. intros H. destruct sched; cbn [held_along]; rewrite H; reflexivity. Qed.

Corollary reader_partial_held :
  forall g1 sched2 i start ln k,
    snapshot_current g1 i start ln = true -> (k <? ln) = true ->
    quiet_b g1 sched2 (start + k) = true ->
    held_along g1 sched2 i k (mem (g_st (grun g1 sched2)) (start + k)) = true.
Proof.
  intros g1 sched2 i start ln k Hs Hk Hq. apply held_along_here.
  unfold region_has. rewrite (reader_partial g1 sched2 i start ln k Hs Hk Hq). apply N.eqb_refl.
Qed.

(* the side condition is satisfiable on a schedule with a relocation: without the flush the old
   extent stays pending and nothing is written into it *)
Example reader_partial_applies :
  let g1 := grun (ginit reader_cfg_noflush) reader_sched1 in
  snapshot_current g1 0 0 100 = true /\ quiet_b g1 reader_sched2 (0 + 99) = true
  /\ reader_of (grun g1 reader_sched2) 0 = Some (0, 0, 100).
Proof. vm_compute. repeat split. Qed.

(* ---- 5. the placement frame: a step leaves start / len / reserve / id of every slot it does
        not target alone ------------------------------------------------------------------------ *)


Definition keeps (s s' : st) (i : N) : Prop :=
  forall m, slot s i = Some m -> exists m', slot s' i = Some m' /\ place m' = place m.

Lemma keeps_slots_eq s s' i : slots s' = slots s -> keeps s s' i.
Proof. intros E m H. exists m. unfold slot in *. rewrite E. auto. Qed.

Lemma slot_slots_eq s s' i : slots s' = slots s -> slot s' i = slot s i.
Proof. intros E. unfold slot. rewrite E. reflexivity. Qed.

Lemma keeps_trans s1 s2 s3 i : keeps s1 s2 i -> keeps s2 s3 i -> keeps s1 s3 i.
Proof.
  intros A B m H. destruct (A m H) as (m2 & H2 & P2). destruct (B m2 H2) as (m3 & H3 & P3).
  exists m3. split; [exact H3|congruence].
Qed.

Lemma slot_set_at_nil n : forall k (x : option rmeta), n <> k ->
  match nth_opt (set_at [] n x None) k with Some (Some m) => Some m | _ => None end = None.
Proof.
  induction n as [|n IH]; intros k x H; destruct k; cbn; try congruence; try reflexivity;
    try (apply IH; congruence); try (destruct k; reflexivity).
Qed.

Lemma slot_set_at l : forall n k (x : option rmeta),
  n <> k ->
  match nth_opt (set_at l n x None) k with Some (Some m) => Some m | _ => None end
  = match nth_opt l k with Some (Some m) => Some m | _ => None end.
Proof.
  induction l as [|h l IH]; intros n k x Hn.
  - rewrite slot_set_at_nil by exact Hn. destruct k; reflexivity.
  - destruct n, k; cbn; try congruence; try reflexivity. apply IH. congruence.
Qed.

Lemma slot_put_other s j x i : j <> i -> slot (put_slot s j x) i = slot s i.
Proof.
  intros H. unfold slot, put_slot, get. cbn [slots set_slots]. apply slot_set_at. lia.
Qed.

Lemma slot_put_same s j x : slot (put_slot s j x) j = x.
Proof.
  unfold slot, put_slot, get. cbn [slots set_slots].
  assert (G : forall l n, nth_opt (set_at l n x None) n = Some x).
  { intros l n; revert l; induction n; destruct l; cbn; auto. }
  rewrite G. destruct x; reflexivity.
Qed.

Lemma keeps_upd_other s j f i : j <> i -> keeps s (upd s j f) i.
Proof.
  intros H m Hm. exists m. split; [|reflexivity]. unfold upd. destruct (slot s j); [|exact Hm].
  rewrite slot_put_other by exact H. exact Hm.
Qed.

Lemma keeps_upd_place s j f i : (forall m, place (f m) = place m) -> keeps s (upd s j f) i.
Proof.
  intros Hf. destruct (N.eq_dec j i) as [->|Hne]; [|apply keeps_upd_other; exact Hne].
  intros m Hm. unfold upd. rewrite Hm. exists (f m). split; [apply slot_put_same|apply Hf].
Qed.

Lemma keeps_wid s j i : keeps s (write_if_dirty s j) i.
Proof.
  unfold write_if_dirty. destruct (slot s j) as [mj|] eqn:Ej; [|apply keeps_slots_eq; reflexivity].
  destruct (r_state mj =? ST_WRITE); [|apply keeps_slots_eq; reflexivity].
  intros m Hm. destruct (N.eq_dec j i) as [->|Hne].
  - exists (m_set_state mj ST_FLUSH). split.
    + apply (slot_put_same (set_rfile s _) i).
    + assert (mj = m) by (unfold slot in *; cbn [slots set_rfile] in *; congruence). subst. reflexivity.
  - exists m. split; [|reflexivity]. rewrite slot_put_other by exact Hne. exact Hm.
Qed.

(* slots are untouched by the layout / file primitives *)
Lemma slots_set_min_len s n : slots (set_min_len s n) = slots s.
Proof. unfold set_min_len. destruct (ceil_page n <=? file_len s); reflexivity. Qed.
Lemma remove_hole_slots s a s' o : remove_hole s a = (s', o) -> slots s' = slots s.
Proof. unfold remove_hole. destruct (aget a (holes s)); intros H; inversion H; reflexivity. Qed.
Lemma roch_slots s a b :
  match remove_or_compress_hole s a b with
  | AOk s' => slots s' = slots s | AErr s' _ => slots s' = slots s | APanic => True end.
Proof.
  unfold remove_or_compress_hole. destruct (remove_hole s a) as [s1 [z|]] eqn:E.
  - apply remove_hole_slots in E. destruct (z =? b); [exact E|]. destruct (b <? z); cbn; exact E.
  - apply remove_hole_slots in E. exact E.
Qed.
Lemma roch_ok_slots s a b s' : remove_or_compress_hole s a b = AOk s' -> slots s' = slots s.
Proof. intros H. pose proof (roch_slots s a b) as R. rewrite H in R. exact R. Qed.
Lemma roch_err_slots s a b s' e : remove_or_compress_hole s a b = AErr s' e -> slots s' = slots s.
Proof. intros H. pose proof (roch_slots s a b) as R. rewrite H in R. exact R. Qed.
Lemma lrr_slots s i m :
  match layout_remove_region s i m with
  | AOk s' => slots s' = slots s | AErr s' _ => slots s' = slots s | APanic => True end.
Proof.
  unfold layout_remove_region. destruct (aget (r_start m) (s2r s)) as [j|]; [|reflexivity].
  destruct (j =? i); reflexivity.
Qed.
Lemma lrr_ok_slots s i m s' : layout_remove_region s i m = AOk s' -> slots s' = slots s.
Proof. intros H. pose proof (lrr_slots s i m) as R. rewrite H in R. exact R. Qed.
Lemma lrr_err_slots s i m s' e : layout_remove_region s i m = AErr s' e -> slots s' = slots s.
Proof. intros H. pose proof (lrr_slots s i m) as R. rewrite H in R. exact R. Qed.
Lemma lir_slots s a i s' : layout_insert_region s a i = Some s' -> slots s' = slots s.
Proof. unfold layout_insert_region. destruct (aget a (s2r s)); intros H; inversion H; reflexivity. Qed.
Lemma db_write_slots s off f n s' : db_write s off f n = Some s' -> slots s' = slots s.
Proof. unfold db_write. destruct (off + n <=? file_len s); intros H; inversion H; reflexivity. Qed.

Lemma promote_one_slots s p : slots (promote_one s p) = slots s.
Proof.
  unfold promote_one. destruct p as [start size].
  destruct (apred start (holes s)) as [[hs hz]|].
  - destruct (hs + hz =? start).
    + destruct (remove_hole s hs) as [sa oa] eqn:Ea. cbn [fst].
      destruct (remove_hole sa (hs + (size + hz))) as [sb [z|]] eqn:Eb; cbn;
        apply remove_hole_slots in Ea; apply remove_hole_slots in Eb; congruence.
    + destruct (remove_hole s (start + size)) as [sb [z|]] eqn:Eb; cbn; apply remove_hole_slots in Eb; exact Eb.
  - destruct (remove_hole s (start + size)) as [sb [z|]] eqn:Eb; cbn; apply remove_hole_slots in Eb; exact Eb.
Qed.
Lemma promote_slots s : slots (promote s) = slots s.
Proof.
  unfold promote.
  assert (G : forall l s0, slots (fold_left promote_one l s0) = slots s0).
  { induction l as [|p l IH]; intros s0; cbn [fold_left]; [reflexivity|]. rewrite IH. apply promote_one_slots. }
  rewrite G. reflexivity.
Qed.

Lemma punch_slots s a z : slots (fst (punch s a z)) = slots s.
Proof. apply punch_other. Qed.
Lemma punch_region_slots s k : slots (fst (punch_region s k)) = slots s.
Proof.
  unfold punch_region. destruct (slot s k) as [m|]; [|reflexivity].
  cbn zeta. destruct (ceil_page (r_len m) <? r_reserved m); [|reflexivity]. apply punch_slots.
Qed.
Lemma punch_holes_of_slots s : slots (fst (punch_holes_of s)) = slots s.
Proof.
  unfold punch_holes_of.
  assert (G : forall l acc, slots (fst (fold_left (fun sn h => let '(s1, n1) := punch (fst sn) (fst h) (snd h) in (s1, snd sn + n1)) l acc)) = slots (fst acc)).
  { induction l as [|h l IH]; intros acc; cbn [fold_left]; [reflexivity|]. rewrite IH.
    destruct (punch (fst acc) (fst h) (snd h)) as [s1 n1] eqn:E. cbn [fst].
    replace s1 with (fst (punch (fst acc) (fst h) (snd h))) by (rewrite E; reflexivity). apply punch_slots. }
  rewrite G. reflexivity.
Qed.
Lemma punch_finish_slots s t all p : slots (fst (punch_finish s t all p)) = slots s.
Proof.
  unfold punch_finish. destruct (punch_holes_of s) as [s1 n1] eqn:E.
  replace s1 with (fst (punch_holes_of s)) by (rewrite E; reflexivity).
  destruct (0 <? p + n1); cbn [fst]; apply punch_holes_of_slots.
Qed.

(* a fresh slot: Regions::create takes the first free index, which holds no region *)
Lemma first_free_free l : forall b, match nth_opt l (N.to_nat (first_free l b - b)) with Some (Some _) => False | _ => True end /\ b <= first_free l b.
Proof.
  induction l as [|h l IH]; intros b; cbn [first_free].
  - rewrite N.sub_diag. cbn. split; [exact I|lia].
  - destruct h as [m|].
    + destruct (IH (b + 1)) as [A B]. split; [|lia].
      replace (N.to_nat (first_free l (b + 1) - b)) with (S (N.to_nat (first_free l (b + 1) - (b + 1)))) by lia.
      cbn [nth_opt]. exact A.
    + rewrite N.sub_diag. cbn. split; [exact I|lia].
Qed.
Lemma first_free_slot s : slot s (first_free (slots s) 0) = None.
Proof.
  unfold slot, get. destruct (first_free_free (slots s) 0) as [A _]. rewrite N.sub_0_r in A.
  destruct (nth_opt (slots s) (N.to_nat (first_free (slots s) 0))) as [[m|]|]; [contradiction|reflexivity|reflexivity].
Qed.

Lemma do_create_keeps s id a s' j i : do_create s id a = Some (s', j) -> keeps s s' i.
Proof.
  unfold do_create. destruct (layout_insert_region _ _ _) as [s4|] eqn:E; intros H; inversion H; subst.
  apply lir_slots in E. intros m Hm. exists m. split; [|reflexivity].
  rewrite (slot_slots_eq _ _ i E).
  rewrite slot_put_other.
  - unfold slot in *. cbn [slots set_rfile]. exact Hm.
  - intros Heq. subst i. rewrite first_free_slot in Hm. discriminate Hm.
Qed.

Lemma keeps_put_other s j x i : j <> i -> keeps s (put_slot s j x) i.
Proof. intros H m Hm. exists m. split; [|reflexivity]. rewrite slot_put_other by exact H. exact Hm. Qed.

Lemma place_clear_dirty m : place (m_clear_dirty m) = place m.
Proof. unfold m_clear_dirty. destruct (m_is_dirty m); reflexivity. Qed.

Ltac slothyps :=
  repeat match goal with
  | E : remove_or_compress_hole _ _ _ = AOk _ |- _ => apply roch_ok_slots in E
  | E : remove_or_compress_hole _ _ _ = AErr _ _ |- _ => apply roch_err_slots in E
  | E : layout_remove_region _ _ _ = AOk _ |- _ => apply lrr_ok_slots in E
  | E : layout_remove_region _ _ _ = AErr _ _ |- _ => apply lrr_err_slots in E
  | E : layout_insert_region _ _ _ = Some _ |- _ => apply lir_slots in E
  | E : db_write _ _ _ _ = Some _ |- _ => apply db_write_slots in E
  | E : punch_region ?s ?k = (?s1, _) |- _ =>
      let F := fresh "F" in
      assert (F : slots s1 = slots s) by (replace s1 with (fst (punch_region s k)) by (rewrite E; reflexivity); apply punch_region_slots);
      clear E
  end.

Ltac kstep :=
  first
  [ (apply keeps_slots_eq;
     cbn [slots set_resv set_rfile set_mem set_s2r set_holes set_pend set_file_len set_held];
     rewrite ?slots_set_min_len, ?promote_slots, ?punch_finish_slots; congruence)
  | (eapply keeps_trans; [|apply keeps_wid])
  | (eapply keeps_trans; [|apply keeps_upd_other; congruence])
  | (eapply keeps_trans; [|apply keeps_upd_place; intros; first [reflexivity | apply place_clear_dirty]])
  | (eapply keeps_trans; [|apply keeps_put_other; congruence])
  | (eapply keeps_trans; [|eapply do_create_keeps; eassumption]) ].

Theorem tstep_place_frame s oc t i :
  pc_target (t_pc t) <> Some i -> keeps s (fst (tstep s oc t)) i.
Proof.
  intros Ht. unfold tstep.
  destruct (t_pc t) eqn:Epc; cbn [pc_target] in Ht;
    unfold begin_op, flush_next_take, flush_after_collect, flush_return;
    repeat dmatch; cbn [fst snd]; slothyps; repeat kstep.
Qed.

(* ---- 6. isolation, inductive core: a step that does not target slot i and whose footprint
        avoids region i's live bytes changes neither the placement nor any byte of region i -- *)

Lemma foot_avoids_covers l start ln k :
  foot_avoids l start ln = true -> k < ln -> covers_any l (start + k) = false.
Proof.
  unfold foot_avoids, covers_any. induction l as [|e l IH]; intros H Hk; [reflexivity|].
  cbn [forallb existsb] in *. apply andb_true_iff in H. destruct H as [He Hl].
  rewrite (IH Hl Hk), orb_false_r. unfold ext_disjoint, covers in *. cbn [fst snd] in *. lia.
Qed.

Theorem isolation_step s oc t i m :
  pc_target (t_pc t) <> Some i -> slot s i = Some m ->
  foot_avoids (wfoot s t) (r_start m) (r_len m) = true ->
  (exists m', slot (fst (tstep s oc t)) i = Some m' /\ place m' = place m)
  /\ forall k, region_byte (fst (tstep s oc t)) i k = region_byte s i k.
Proof.
  intros Ht Hs Hf. destruct (tstep_place_frame s oc t i Ht m Hs) as (m' & Hs' & Hp).
  split; [exists m'; auto|]. intros k. unfold region_byte. rewrite Hs, Hs'.
  unfold place in Hp. inversion Hp as [[P1 P2 P3 P4]]. rewrite P1, P2.
  destruct (k <? r_len m) eqn:Ek; [|reflexivity].
  rewrite tstep_mem_frame; [reflexivity|]. apply foot_avoids_covers with (ln := r_len m); [exact Hf|lia].
Qed.



Theorem isolation_partial sched :
  forall g i m, slot (g_st g) i = Some m -> others_quiet_b g sched i = true ->
    (exists m', slot (g_st (grun g sched)) i = Some m' /\ place m' = place m)
    /\ forall k, region_byte (g_st (grun g sched)) i k = region_byte (g_st g) i k.
Proof.
  induction sched as [|me r IH]; intros g i m Hs H.
  - cbn. split; [exists m; auto|reflexivity].
  - unfold grun in *. cbn [fold_left]. cbn [others_quiet_b] in H.
    destruct (gstep g me) as [g'|] eqn:E; [|apply (IH g i m Hs H)].
    destruct (nth_error (g_th g) me) as [t|] eqn:Et; [|discriminate].
    rewrite Hs in H. apply andb_true_iff in H. destruct H as [H Hq]. apply andb_true_iff in H. destruct H as [Htg Hf].
    assert (Ht : pc_target (t_pc t) <> Some i).
    { unfold targets_b in Htg. destruct (pc_target (t_pc t)) as [j|]; [|discriminate].
      apply negb_true_iff in Htg. apply N.eqb_neq in Htg. congruence. }
    unfold gstep in E. rewrite Et in E.
    destruct (t_finished t); [discriminate|]. destruct (negb (enabled g t)); [discriminate|].
    destruct (tstep (g_st g) (others_clone (g_th g) me) t) as [s1 t1] eqn:E1. inversion E; subst g'. clear E.
    destruct (isolation_step (g_st g) (others_clone (g_th g) me) t i m Ht Hs Hf) as [(m1 & Hs1 & Hp1) Hb].
    rewrite E1 in Hs1, Hb. cbn [fst] in Hs1, Hb.
    destruct (IH (mkG s1 (set_nth_t (g_th g) me t1)) i m1 Hs1 Hq) as [(m2 & Hs2 & Hp2) Hb2].
    split; [exists m2; split; [exact Hs2|congruence]|].
    intros k. rewrite Hb2. cbn [g_st]. apply Hb.
Qed.

(* satisfiable: in the create-beyond-file schedule's first phase (the relocation of region 2 by
   thread 1) region 1 (slot 0) is left alone *)
Example isolation_partial_applies :
  others_quiet_b (ginit beyond_cfg) beyond_sched 0 = true.
Proof. vm_compute. reflexivity. Qed.

(* ---- 7. the lock discipline of the step model: a step acquires nothing but the lock named by
        the label it is parked at, hence the database-level locks are exclusive in every
        reachable state (the critical sections of the model are real critical sections) ------ *)
Definition grant (lb : label) (l : lk) : N :=
  match lb, l with
  | LLock KL w, KL | LLock KR w, KR | LLock KP w, KP | LLock KF w, KF => if w then 2 else 1
  | _, _ => 0
  end.

Lemma t_holds_finish t r l : t_holds (finish t r) l = match l, t_reader t with KP, Some _ => 1 | _, _ => 0 end.
Proof. unfold t_holds, finish. cbn. destruct l, (t_reader t); reflexivity. Qed.

Lemma hold_step s oc t l :
  t_holds (snd (tstep s oc t)) l <= N.max (t_holds t l) (grant (t_label t) l).
Proof.
  unfold tstep, t_label.
  destruct (t_pc t) eqn:Epc;
    unfold begin_op, flush_next_take, flush_after_collect, flush_return, punch_finish;
    repeat dmatch; cbn [snd fst];
    unfold t_holds, finish, set_pc, set_handles, set_reader; cbn [t_pc t_reader t_prog t_k t_handles t_results];
    rewrite ?Epc; destruct l; destruct (t_reader t); cbn; lia.
Qed.

Lemma t_holds_le2 t l : t_holds t l <= 2.
Proof. unfold t_holds. destruct (t_pc t); destruct l; destruct (t_reader t); cbn; lia. Qed.

Lemma grant_cases lb l :
  (grant lb l = 0 /\ forall w, lb <> LLock l w)
  \/ (grant lb l = 1 /\ lb = LLock l false) \/ (grant lb l = 2 /\ lb = LLock l true).
Proof.
  destruct lb as [k|l0 w|w i|i|p]; try (left; split; [destruct l; reflexivity|intros w0 H; discriminate H]).
  destruct l0, l, w; cbn; try (left; split; [reflexivity|intros w0 H; discriminate H]);
    try (right; left; split; reflexivity); right; right; split; reflexivity.
Qed.

Lemma lock_free_for_spec ths l w u :
  lock_free_for ths l w = true -> In u ths -> if w then t_holds u l = 0 else t_holds u l <> 2.
Proof.
  unfold lock_free_for. rewrite forallb_forall. intros H Hu. specialize (H u Hu). destruct w.
  - apply N.eqb_eq in H. exact H.
  - apply negb_true_iff in H. apply N.eqb_neq in H. exact H.
Qed.

Lemma nth_error_set_nth_t_other l : forall n k x, n <> k -> nth_error (set_nth_t l n x) k = nth_error l k.
Proof. induction l as [|h l IH]; intros n k x H; destruct n, k; cbn; try congruence; try reflexivity. apply IH. congruence. Qed.

(* a holder in exclusive mode excludes every other holder *)
Definition excl (ths : list tstate) : Prop :=
  forall l i j ti tj, i <> j -> nth_error ths i = Some ti -> nth_error ths j = Some tj ->
    t_holds ti l = 2 -> t_holds tj l = 0.

Theorem excl_step g me g' : excl (g_th g) -> gstep g me = Some g' -> excl (g_th g').
Proof.
  intros IH H. unfold gstep in H.
  destruct (nth_error (g_th g) me) as [t|] eqn:Et; [|discriminate].
  destruct (t_finished t); [discriminate|].
  destruct (enabled g t) eqn:En; [|discriminate]. cbn [negb] in H.
  destruct (tstep (g_st g) (others_clone (g_th g) me) t) as [s1 t1] eqn:E1. inversion H; subst g'; clear H. cbn [g_th].
  assert (Hs : forall l, t_holds t1 l <= N.max (t_holds t l) (grant (t_label t) l)).
  { intros l. pose proof (hold_step (g_st g) (others_clone (g_th g) me) t l) as P. rewrite E1 in P. exact P. }
  assert (Hin : In t (g_th g)) by (eapply nth_error_In; eauto).
  assert (Hen : forall l w, t_label t = LLock l w -> lock_free_for (g_th g) l w = true).
  { intros l w Hl. unfold enabled in En. rewrite Hl in En. exact En. }
  intros l i j ti tj Hij Hi Hj Hw.
  destruct (Nat.eq_dec i me) as [->|Hime].
  - (* the stepping thread holds l exclusively afterwards *)
    rewrite (nth_error_set_nth_t _ _ _ _ Et) in Hi. inversion Hi; subst ti.
    rewrite nth_error_set_nth_t_other in Hj by congruence.
    assert (Hjin : In tj (g_th g)) by (eapply nth_error_In; eauto).
    specialize (Hs l). destruct (grant_cases (t_label t) l) as [[G N0]|[[G L]|[G L]]].
    + assert (t_holds t l = 2) by (pose proof (t_holds_le2 t l); lia).
      eapply (IH l me j t tj); eauto.
    + pose proof (lock_free_for_spec _ _ _ t (Hen _ _ L) Hin) as F. cbn in F. pose proof (t_holds_le2 t l). lia.
    + exact (lock_free_for_spec _ _ _ tj (Hen _ _ L) Hjin).
  - rewrite nth_error_set_nth_t_other in Hi by congruence.
    assert (Hiin : In ti (g_th g)) by (eapply nth_error_In; eauto).
    destruct (Nat.eq_dec j me) as [->|Hjme].
    + rewrite (nth_error_set_nth_t _ _ _ _ Et) in Hj. inversion Hj; subst tj.
      assert (O : t_holds t l = 0) by (eapply (IH l i me ti t); eauto).
      specialize (Hs l). destruct (grant_cases (t_label t) l) as [[G N0]|[[G L]|[G L]]].
      * lia.
      * pose proof (lock_free_for_spec _ _ _ ti (Hen _ _ L) Hiin) as F. cbn in F. contradiction.
      * pose proof (lock_free_for_spec _ _ _ ti (Hen _ _ L) Hiin) as F. cbn in F. lia.
    + rewrite nth_error_set_nth_t_other in Hj by congruence. eapply (IH l i j ti tj); eauto.
Qed.

Theorem excl_reachable g0 g : excl (g_th g0) -> reachable g0 g -> excl (g_th g).
Proof. intros H R. induction R as [|g me g' R IH S]; [exact H|]. eapply excl_step; eauto. Qed.

Lemma excl_init (c : cfg) : excl (g_th (ginit c)).
Proof.
  unfold ginit. cbn [g_th]. intros l i j ti tj _ Hi Hj _.
  apply nth_error_In in Hj. apply in_map_iff in Hj. destruct Hj as (ph & <- & _).
  unfold t_holds, mk_thread. cbn. destruct l; reflexivity.
Qed.

Theorem excl_all (c : cfg) g : reachable (ginit c) g -> excl (g_th g).
Proof. intros R. eapply excl_reachable; [apply excl_init|exact R]. Qed.
