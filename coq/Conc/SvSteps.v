(* Conc/SvSteps.v — step models of ONE appending writer and ANY number of concurrent readers of a
   vecdb vector (property C09), raw format (`rs_*`) and compressed format (`cs_*`).

   What is modelled (file:line refer to /repo/crates):
   * the writer executes `push*; write()` as the sequence of its VISIBLE steps, at the granularity of
     the pause points of the code (rawdb/src/region.rs write_with: "fits:after-data",
     "relocate:before-copy", "relocate:after-copy"; vecdb raw write(): "raw-write:after-header",
     "raw-write:after-region-write"; compressed write(): "comp-write:*:after-region-write",
     ":pages-locked", ":after-index", ":after-publish", ":after-index-flush");
   * rawdb's region is {start, len, reserved} over a byte-addressed memory map; growth is either in
     place (reserve, [file growth], copy, length) or a relocation = copy-then-publish
     (region.rs:258-289); the allocator's answer (in place / new start) is a label of the step
     whose guard is what C02 proves of the allocator: the new extent is disjoint from the current
     extent and from every extent this region ever occupied (no flush happens inside write());
   * a reader executes: load the shared length (SharedLen::get, base/shared_len/mod.rs:24);
     snapshot (start,len) of the region (rawdb/src/reader.rs:27-30); take the mmap read guard
     (reader.rs:34); [compressed: take the pages read lock and use the page entry]; read elements
     i < len_seen; drop.  Read-only clone collect_one_at / read_into_at / fold_range_at, VecReader
     get/try_get, Cursor reads are all instances (they differ in how many elements they read under
     one snapshot and in how often they reload the length).

   * the writer thread may own OTHER vectors of the same database (engine schedvec: a second vector `b`).
     Between two write() calls of the modelled vector it may write to them: all that matters here is
     WHERE their bytes land (`LWOther ns nr` / `KOther ns nr`: the extent [ns, ns+nr) the allocator gave
     to the other region, or the extent it already owns) and that the file may grow on their behalf
     (`LWOtherGrow` / `KOtherGrow`).  The guard of the placement is the same freshness guard as for the
     vector's own relocations: the extent must be disjoint from the vector's current extent and from every
     extent it vacated (vacated extents only become reusable at a flush, and no flush happens here);

   ASSUMPTIONS of the step model (not exhibited by it):
   * every step is atomic and the memory is sequentially consistent inside and between steps;
     this is only claimed for `SharedLen` orderings Release (store) / Acquire (load): with any
     other ordering the model additionally contains the transition `LWPublishEarly`
     (the length store overtakes the data copy), see `sl_ordered`;
   * a remap of the file (set_min_len) preserves the contents of the map (kernel mmap coherence);
   * the compressor is a black box: a compressed page is a blob that decodes to its values only
     if all of its bytes are intact (`CBlob id k` cells); its size is an input of the step. *)
From Anydb Require Import Common.Base Gen.Consts Gen.Sizes.

Definition ESZ : N := 8.                       (* size_of::<u64>() *)
Definition HDR : N := HEADER_OFFSET.           (* 32 *)

(* Release/Acquire on the shared length: regenerated from base/shared_len/mod.rs on every run *)
Definition sl_ordered : bool := SHARED_LEN_LOAD_ACQUIRE && SHARED_LEN_STORE_RELEASE.

(* ------------------------------------------------------------------------------------------ *)
(* memory map: byte address -> cell.  A value occupies ESZ bytes: its first byte holds `CVal v`,
   the others `CTail`; byte k of compressed blob `id` is `CBlob id k`. *)
Inductive cell := CNone | CVal (v : N) | CTail | CBlob (id k : N).
Definition mem := N -> cell.

Definition hv (h : list N) (i : N) : N := nth (N.to_nat i) h 0.

(* write values vs at absolute address b *)
Definition mwrite (m : mem) (b : N) (vs : list N) : mem :=
  let e := b + ESZ * len vs in     (* computed once, not per access (matters for the extracted model) *)
  fun a => if (b <=? a) && (a <? e)
           then (if (a - b) mod ESZ =? 0 then CVal (hv vs ((a - b) / ESZ)) else CTail)
           else m a.
(* copy n bytes from src to dst (ranges disjoint) *)
Definition mcopy (m : mem) (src dst n : N) : mem :=
  fun a => if (dst <=? a) && (a <? dst + n) then m (a - dst + src) else m a.

(* bytes of ANOTHER region land in [b, b+n): whatever they are, they are not values of this vector *)
Definition mfill (m : mem) (b n : N) : mem :=
  fun a => if (b <=? a) && (a <? b + n) then CNone else m a.

Record region := { r_start : N; r_len : N; r_res : N }.

Definition disj (a z b y : N) : Prop := a + z <= b \/ b + y <= a.
Definition disjb (a z b y : N) : bool := (a + z <=? b) || (b + y <=? a).

(* doubling of the reserve until the new length fits (region.rs:183-191), fuelled *)
Fixpoint grow_res (fuel : nat) (res need : N) : N :=
  match fuel with
  | O => res
  | S f => if need <=? res then res else grow_res f (res * RESERVE_FACTOR) need
  end.
Definition new_res (res need : N) : N := grow_res 64 res need.

(* set_min_len (rawdb/src/lib.rs:136-165) *)
Definition ceil_page (n : N) : N := (n + PAGE_SIZE_MINUS_1) / PAGE_SIZE * PAGE_SIZE.
Definition grown_file_len (cur need : N) : N :=
  ceil_page (N.max (N.max (ceil_page need) (cur * GROW_FACTOR)) GROW_FLOOR).

(* ------------------------------------------------------------------------------------------ *)
(* readers (both formats) *)
Inductive rstate :=
| RIdle
| RLen (l : N)                       (* shared length loaded *)
| RSnap (l st ln : N)                (* region (start,len) snapshot taken, no guard yet *)
| RGuard (l st ln : N)               (* mmap read guard held *)
| RPages (l st ln : N).              (* compressed: pages read lock held as well *)

Inductive rres := RVal (v : N) | RGarbage | RPanic.

Inductive event :=
| EvLen (r l : N)
| EvRead (r l i : N) (res : rres).

Definition upd {A} (f : N -> A) (k : N) (v : A) : N -> A := fun x => if x =? k then v else f x.

(* allocator answer for a growing write *)
Inductive ghint := GIn | GRel (ns : N).

(* ========================================================================================== *)
(* RAW FORMAT *)
Inductive wphase :=
| WIdle
| WHdrPending                         (* write() entered with a modified header *)
| WHdrData                            (* header bytes copied ("write_with:fits:after-data") *)
| WBody                               (* header done ("raw-write:after-header") *)
| WFitsData                           (* fits: data copied, region length not yet updated *)
| WInRes (nr : N)                     (* in place: reserve raised to nr *)
| WInData (nr : N)                    (* in place: data copied *)
| WRelRes (ns nr : N)                 (* relocation: new extent reserved *)
| WRelCopied (ns nr : N)              (* relocation: prefix + data copied ("relocate:after-copy") *)
| WAfterRegion                        (* region write complete ("raw-write:after-region-write") *)
| WFailed.                            (* write() returned an error *)

Record rs_state := {
  rs_reg : region; rs_flen : N; rs_mem : mem;
  rs_slen : N;                        (* SharedLen *)
  rs_hist : list N;                   (* every value pushed so far; pushed buffer = suffix from rs_slen *)
  rs_w : wphase;
  rs_retired : list (N * N);          (* extents left behind by relocations (pending holes) *)
  rs_rd : N -> rstate;
  rs_nguard : N;                      (* mmap read guards held by readers *)
  rs_log : list event;                (* newest first *)
}.

Inductive rs_label :=
| LPush (v : N)
| LWBegin (stamped : bool)
| LWHdrCopy | LWHdrDone
| LWNoop
| LWCopyFits
| LWReserve (g : ghint)
| LWGrowFile
| LWCopyIn
| LWRelCopy
| LWSetLen                            (* fits / in place: length update; relocation: layout + meta publication *)
| LWPublish
| LWPublishEarly                      (* only if the orderings are not Release/Acquire *)
| LRLoad (r : N) | LRSnap (r : N) | LRGuard (r : N) | LRRead (r i : N) | LRDrop (r : N)
| LWOther (ns nr : N)                 (* the writer thread writes into the extent [ns, ns+nr) of another region *)
| LWOtherGrow (target : N).           (* … and grows the file on behalf of another region *)

Definition rs_from (s : rs_state) : N := rs_slen s * ESZ + HDR.
Definition rs_pushed (s : rs_state) : list N := drop (rs_slen s) (rs_hist s).
Definition rs_newlen (s : rs_state) : N := rs_from s + ESZ * len (rs_pushed s).

Definition set_w (s : rs_state) (w : wphase) : rs_state :=
  {| rs_reg := rs_reg s; rs_flen := rs_flen s; rs_mem := rs_mem s; rs_slen := rs_slen s; rs_hist := rs_hist s;
     rs_w := w; rs_retired := rs_retired s; rs_rd := rs_rd s; rs_nguard := rs_nguard s; rs_log := rs_log s |}.
Definition set_wm (s : rs_state) (w : wphase) (m : mem) : rs_state :=
  {| rs_reg := rs_reg s; rs_flen := rs_flen s; rs_mem := m; rs_slen := rs_slen s; rs_hist := rs_hist s;
     rs_w := w; rs_retired := rs_retired s; rs_rd := rs_rd s; rs_nguard := rs_nguard s; rs_log := rs_log s |}.
Definition set_wreg (s : rs_state) (w : wphase) (r : region) (ret : list (N * N)) : rs_state :=
  {| rs_reg := r; rs_flen := rs_flen s; rs_mem := rs_mem s; rs_slen := rs_slen s; rs_hist := rs_hist s;
     rs_w := w; rs_retired := ret; rs_rd := rs_rd s; rs_nguard := rs_nguard s; rs_log := rs_log s |}.
Definition set_rd (s : rs_state) (r : N) (x : rstate) (ng : N) (lg : list event) : rs_state :=
  {| rs_reg := rs_reg s; rs_flen := rs_flen s; rs_mem := rs_mem s; rs_slen := rs_slen s; rs_hist := rs_hist s;
     rs_w := rs_w s; rs_retired := rs_retired s; rs_rd := upd (rs_rd s) r x; rs_nguard := ng; rs_log := lg |}.

Definition fresh_ext (s : rs_state) (ns nr : N) : bool :=
  disjb ns nr (r_start (rs_reg s)) (r_res (rs_reg s))
  && forallb (fun e => disjb ns nr (fst e) (snd e)) (rs_retired s).
Definition fresh_tail (s : rs_state) (nr : N) : bool :=   (* in-place growth: the added part is free space *)
  forallb (fun e => disjb (r_start (rs_reg s)) nr (fst e) (snd e)) (rs_retired s).

(* Reader::prefixed(HEADER_OFFSET) asserts offset <= len and slices the map from start (reader.rs:83-89) *)
Definition raw_read (m : mem) (flen st ln i : N) : rres :=
  if (ln <? HDR) || (flen <? st + HDR) then RPanic
  else match m (st + HDR + ESZ * i) with CVal v => RVal v | _ => RGarbage end.

Definition rs_step (s : rs_state) (l : rs_label) : option rs_state :=
  let reg := rs_reg s in
  match l with
  | LPush v =>
      match rs_w s with
      | WIdle => Some {| rs_reg := reg; rs_flen := rs_flen s; rs_mem := rs_mem s; rs_slen := rs_slen s;
                         rs_hist := rs_hist s ++ [v]; rs_w := WIdle; rs_retired := rs_retired s;
                         rs_rd := rs_rd s; rs_nguard := rs_nguard s; rs_log := rs_log s |}
      | _ => None end
  | LWBegin stamped =>
      match rs_w s with WIdle => Some (set_w s (if stamped then WHdrPending else WBody)) | _ => None end
  | LWHdrCopy => match rs_w s with WHdrPending => Some (set_w s WHdrData) | _ => None end
  | LWHdrDone => match rs_w s with WHdrData => Some (set_w s WBody) | _ => None end
  | LWNoop =>       (* any_stored_vec.rs:64-67: nothing pushed *)
      match rs_w s with WBody => if len (rs_pushed s) =? 0 then Some (set_w s WIdle) else None | _ => None end
  | LWCopyFits =>   (* region.rs:163-167 *)
      match rs_w s with
      | WBody =>
          if len (rs_pushed s) =? 0 then None
          else if r_len reg <? rs_from s then Some (set_w s WFailed)          (* WriteOutOfBounds, region.rs:147 *)
          else if rs_newlen s <=? r_res reg
               then Some (set_wm s WFitsData (mwrite (rs_mem s) (r_start reg + rs_from s) (rs_pushed s)))
               else None
      | _ => None end
  | LWReserve g =>  (* region.rs:183-257 *)
      match rs_w s with
      | WBody =>
          if (len (rs_pushed s) =? 0) || (r_len reg <? rs_from s) || (rs_newlen s <=? r_res reg) || (r_res reg =? 0) then None
          else let nr := new_res (r_res reg) (rs_newlen s) in
               if negb (rs_newlen s <=? nr) then None else     (* RegionSizeOverflow, region.rs:186 *)
               match g with
               | GIn => if fresh_tail s nr
                        then Some (set_wreg s (WInRes nr) {| r_start := r_start reg; r_len := r_len reg; r_res := nr |} (rs_retired s))
                        else None
               | GRel ns => if fresh_ext s ns nr then Some (set_w s (WRelRes ns nr)) else None
               end
      | _ => None end
  | LWGrowFile =>   (* lib.rs:136-165: needs the mmap write lock: no reader holds a guard *)
      let grow target :=
        if (rs_flen s <? ceil_page target) && (rs_nguard s =? 0)
        then Some {| rs_reg := reg; rs_flen := grown_file_len (rs_flen s) target; rs_mem := rs_mem s; rs_slen := rs_slen s;
                     rs_hist := rs_hist s; rs_w := rs_w s; rs_retired := rs_retired s; rs_rd := rs_rd s;
                     rs_nguard := rs_nguard s; rs_log := rs_log s |}
        else None in
      match rs_w s with
      | WInRes nr => grow (r_start reg + nr)
      | WRelRes ns nr => grow (ns + nr)
      | _ => None end
  | LWCopyIn =>
      match rs_w s with
      | WInRes nr => if ceil_page (r_start reg + nr) <=? rs_flen s
                     then Some (set_wm s (WInData nr) (mwrite (rs_mem s) (r_start reg + rs_from s) (rs_pushed s)))
                     else None
      | _ => None end
  | LWRelCopy =>    (* region.rs:262-263: copy [start, start+write_offset) then the data *)
      match rs_w s with
      | WRelRes ns nr =>
          if ceil_page (ns + nr) <=? rs_flen s
          then Some (set_wm s (WRelCopied ns nr)
                 (mwrite (mcopy (rs_mem s) (r_start reg) ns (rs_from s)) (ns + rs_from s) (rs_pushed s)))
          else None
      | _ => None end
  | LWSetLen =>
      match rs_w s with
      | WFitsData | WInData _ =>
          Some (set_wreg s WAfterRegion {| r_start := r_start reg; r_len := rs_newlen s; r_res := r_res reg |} (rs_retired s))
      | WRelCopied ns nr =>
          Some (set_wreg s WAfterRegion {| r_start := ns; r_len := rs_newlen s; r_res := nr |}
                  ((r_start reg, r_res reg) :: rs_retired s))
      | _ => None end
  | LWPublish =>    (* any_stored_vec.rs:91 update_stored_len *)
      match rs_w s with
      | WAfterRegion => Some {| rs_reg := reg; rs_flen := rs_flen s; rs_mem := rs_mem s; rs_slen := len (rs_hist s);
                                rs_hist := rs_hist s; rs_w := WIdle; rs_retired := rs_retired s; rs_rd := rs_rd s;
                                rs_nguard := rs_nguard s; rs_log := rs_log s |}
      | _ => None end
  | LWPublishEarly =>
      match rs_w s with
      | WBody => if sl_ordered then None
                 else Some {| rs_reg := reg; rs_flen := rs_flen s; rs_mem := rs_mem s; rs_slen := len (rs_hist s);
                              rs_hist := rs_hist s; rs_w := WFailed; rs_retired := rs_retired s; rs_rd := rs_rd s;
                              rs_nguard := rs_nguard s; rs_log := rs_log s |}
      | _ => None end
  | LRLoad r =>
      match rs_rd s r with
      | RIdle | RLen _ => Some (set_rd s r (RLen (rs_slen s)) (rs_nguard s) (EvLen r (rs_slen s) :: rs_log s))
      | _ => None end
  | LRSnap r =>
      match rs_rd s r with
      | RLen l => Some (set_rd s r (RSnap l (r_start reg) (r_len reg)) (rs_nguard s) (rs_log s))
      | _ => None end
  | LRGuard r =>
      match rs_rd s r with
      | RSnap l st ln => Some (set_rd s r (RGuard l st ln) (rs_nguard s + 1) (rs_log s))
      | _ => None end
  | LRRead r i =>
      match rs_rd s r with
      | RGuard l st ln =>
          if i <? l then Some (set_rd s r (RGuard l st ln) (rs_nguard s)
                                 (EvRead r l i (raw_read (rs_mem s) (rs_flen s) st ln i) :: rs_log s))
          else None
      | _ => None end
  | LRDrop r =>
      match rs_rd s r with
      | RGuard _ _ _ => Some (set_rd s r RIdle (rs_nguard s - 1) (rs_log s))
      | RLen _ | RSnap _ _ _ => Some (set_rd s r RIdle (rs_nguard s) (rs_log s))
      | _ => None end
  | LWOther ns nr =>   (* another region of the same writer thread is written / placed (region.rs:163-289 on THAT region):
                          between two write() calls of this vector; the placement is guarded like this vector's own *)
      match rs_w s with
      | WIdle => if fresh_ext s ns nr then Some (set_wm s WIdle (mfill (rs_mem s) ns nr)) else None
      | _ => None end
  | LWOtherGrow target =>   (* set_min_len on behalf of another region: same mmap write lock *)
      match rs_w s with
      | WIdle =>
          if (rs_flen s <? ceil_page target) && (rs_nguard s =? 0)
          then Some {| rs_reg := reg; rs_flen := grown_file_len (rs_flen s) target; rs_mem := rs_mem s; rs_slen := rs_slen s;
                       rs_hist := rs_hist s; rs_w := WIdle; rs_retired := rs_retired s; rs_rd := rs_rd s;
                       rs_nguard := rs_nguard s; rs_log := rs_log s |}
          else None
      | _ => None end
  end.

(* initial states: a freshly created vector (header written, nothing stored), file large enough *)
Definition rs_init (start res flen : N) : rs_state :=
  {| rs_reg := {| r_start := start; r_len := HDR; r_res := res |}; rs_flen := flen; rs_mem := fun _ => CNone;
     rs_slen := 0; rs_hist := []; rs_w := WIdle; rs_retired := []; rs_rd := fun _ => RIdle; rs_nguard := 0; rs_log := [] |}.
Definition rs_init_ok (start res flen : N) : Prop := HDR <= res /\ start + res <= flen.

Inductive rs_reach (s0 : rs_state) : rs_state -> Prop :=
| rs_reach_refl : rs_reach s0 s0
| rs_reach_step s l s' : rs_reach s0 s -> rs_step s l = Some s' -> rs_reach s0 s'.

Definition rs_run (s : rs_state) (ls : list rs_label) : option rs_state :=
  fold_left (fun o l => match o with Some s => rs_step s l | None => None end) ls (Some s).

(* ========================================================================================== *)
(* COMPRESSED FORMAT *)
Record page := { p_start : N; p_bytes : N; p_count : N; p_raw : bool }.
Definition p_end (p : page) : N := p_start p + p_bytes p.

(* one encoded chunk of a write: a compressed full page (blob id, size) or a raw partial page *)
Inductive chunk := ChBlob (id size : N) (vals : list N) | ChRaw (vals : list N).
Definition chunk_bytes (c : chunk) : N := match c with ChBlob _ z _ => z | ChRaw vs => ESZ * len vs end.
Fixpoint chunks_bytes (cs : list chunk) : N := match cs with [] => 0 | c :: t => chunk_bytes c + chunks_bytes t end.
Fixpoint chunks_cell (cs : list (N * chunk)) (off : N) : cell :=     (* chunks with their byte sizes *)
  match cs with
  | [] => CNone
  | (z, c) :: t => if off <? z
              then match c with
                   | ChBlob id _ _ => CBlob id off
                   | ChRaw vs => if off mod ESZ =? 0 then CVal (hv vs (off / ESZ)) else CTail
                   end
              else chunks_cell t (off - z)
  end.
Definition mwrite_chunks (m : mem) (b : N) (cs : list chunk) : mem :=
  let sized := map (fun c => (chunk_bytes c, c)) cs in
  let e := b + chunks_bytes cs in
  fun a => if (b <=? a) && (a <? e) then chunks_cell sized (a - b) else m a.

Record plan := { pl_at : N; pl_cs : list chunk; pl_fast : option page }.   (* fast = append to this raw page *)

Inductive cphase :=
| CIdle
| CPlanned (pl : plan)                               (* the data does not fit in the reserve *)
| CFitsData (pl : plan)                              (* data copied at pl_at, length not updated *)
| CInRes (pl : plan) (nr : N)
| CInData (pl : plan) (nr : N)
| CRelRes (pl : plan) (ns nr : N)
| CRelCopied (pl : plan) (ns nr : N)
| CAfterRegion (pl : plan)                           (* "comp-write:*:after-region-write" *)
| CLockedW (pl : plan)                               (* pages write lock held ("…:pages-locked") *)
| CIndexed                                           (* index truncated/pushed ("…:after-index") *)
| CPublished                                         (* shared length stored ("…:after-publish") *)
| CFlushed                                           (* index region written ("…:after-index-flush") *)
| CFailed.

Record cs_state := {
  cs_reg : region; cs_flen : N; cs_mem : mem; cs_slen : N; cs_hist : list N;
  cs_pp : N;                                (* values per page *)
  cs_pages : list page;                     (* the shared in-memory page index *)
  cs_blobs : list (N * (N * list N));       (* blob id -> (size, values): what the compressor produced *)
  cs_w : cphase; cs_wlock : bool;           (* pages write lock held by the writer *)
  cs_retired : list (N * N);
  cs_rd : N -> rstate; cs_nguard : N; cs_npages : N;   (* readers holding the mmap guard / the pages read lock *)
  cs_log : list event;
}.

Inductive cs_label :=
| KPush (v : N)
| KBegin (sizes : list N)       (* write(): plan + first copy decided from the index; sizes = compressor's answers *)
| KReserve (g : ghint) | KGrowFile | KCopy | KSetLen
| KLock | KIndex | KPublish | KFlush | KUnlock
| KRLoad (r : N) | KRSnap (r : N) | KRGuard (r : N) | KRPages (r : N) | KRRead (r i : N) | KRDrop (r : N)
| KOther (ns nr : N) | KOtherGrow (target : N).     (* as LWOther / LWOtherGrow *)

Definition nthp (ps : list page) (i : N) : option page := nth_error ps (N.to_nat i).
Definition next_start (ps : list page) : N := match last ps {| p_start := HDR; p_bytes := 0; p_count := 0; p_raw := true |} with p => p_end p end.

Fixpoint lookup_blob (bs : list (N * (N * list N))) (id : N) : option (N * list N) :=
  match bs with [] => None | (k, v) :: t => if k =? id then Some v else lookup_blob t id end.

(* bytes [a, a+z) are exactly blob id *)
Fixpoint blob_intact (m : mem) (a : N) (id : N) (k : nat) (off : N) : bool :=
  match k with
  | O => true
  | S k' => match m (a + off) with CBlob id' o => (id' =? id) && (o =? off) | _ => false end
            && blob_intact m a id k' (off + 1)
  end.
Fixpoint raw_vals (m : mem) (a : N) (n : nat) : option (list N) :=
  match n with
  | O => Some []
  | S n' => match m a with
            | CVal v => match raw_vals m (a + ESZ) n' with Some t => Some (v :: t) | None => None end
            | _ => None end
  end.
(* decode a page through a snapshot base address: None = the bytes are not what the entry describes *)
Definition read_page (m : mem) (bs : list (N * (N * list N))) (base : N) (p : page) : option (list N) :=
  if p_raw p then raw_vals m (base + p_start p) (N.to_nat (p_count p))
  else match m (base + p_start p) with
       | CBlob id 0 =>
           match lookup_blob bs id with
           | Some (z, vs) => if (z =? p_bytes p) && (len vs =? p_count p) && blob_intact m (base + p_start p) id (N.to_nat z) 0
                             then Some vs else None
           | None => None end
       | _ => None end.

(* chunking of the values of one write (any_stored_vec.rs:151-165) *)
Fixpoint mk_chunks (fuel : nat) (pp : N) (vals : list N) (sizes : list N) (id : N) : list chunk :=
  match fuel with
  | O => []
  | S f => if len vals =? 0 then []
           else if pp <=? len vals
                then ChBlob id (hd 1 sizes) (take pp vals) :: mk_chunks f pp (drop pp vals) (tl sizes) (id + 1)
                else [ChRaw vals]
  end.
Fixpoint chunk_pages (cs : list chunk) (start : N) : list page :=
  match cs with
  | [] => []
  | c :: t => {| p_start := start; p_bytes := chunk_bytes c;
                 p_count := match c with ChBlob _ _ vs => len vs | ChRaw vs => len vs end;
                 p_raw := match c with ChBlob _ _ _ => false | ChRaw _ => true end |}
              :: chunk_pages t (start + chunk_bytes c)
  end.
Fixpoint chunk_blobs (cs : list chunk) : list (N * (N * list N)) :=
  match cs with [] => [] | ChBlob id z vs :: t => (id, (z, vs)) :: chunk_blobs t | _ :: t => chunk_blobs t end.

Definition cs_pushed (s : cs_state) : list N := drop (cs_slen s) (cs_hist s).

(* the plan of write() (any_stored_vec.rs:57-165) *)
Definition cs_plan (s : cs_state) (sizes : list N) : option plan :=
  let pp := cs_pp s in
  let sp := cs_slen s / pp in
  let partial_len := cs_slen s mod pp in
  let pushed := cs_pushed s in
  let nid := N.of_nat (length (cs_blobs s)) in
  if N.of_nat (length (cs_pages s)) <? sp then None
  else match nthp (cs_pages s) sp with
       | Some pg =>
           if partial_len =? 0
           then Some {| pl_at := p_start pg; pl_cs := mk_chunks (S (length pushed)) pp pushed sizes nid; pl_fast := None |}
           else if p_raw pg && (partial_len =? p_count pg) && (partial_len + len pushed <? pp)
                then Some {| pl_at := p_end pg; pl_cs := [ChRaw pushed]; pl_fast := Some pg |}     (* fast path: append *)
                else match read_page (cs_mem s) (cs_blobs s) (r_start (cs_reg s)) pg with
                     | Some vs => let values := take partial_len vs ++ pushed in                  (* slow path: re-encode *)
                                  Some {| pl_at := p_start pg; pl_cs := mk_chunks (S (length values)) pp values sizes nid; pl_fast := None |}
                     | None => None end
       | None => Some {| pl_at := next_start (cs_pages s); pl_cs := mk_chunks (S (length pushed)) pp pushed sizes nid; pl_fast := None |}
       end.
Definition pl_end (pl : plan) : N := pl_at pl + chunks_bytes (pl_cs pl).

Definition cset (s : cs_state) (w : cphase) (reg : region) (m : mem) (ret : list (N * N)) : cs_state :=
  {| cs_reg := reg; cs_flen := cs_flen s; cs_mem := m; cs_slen := cs_slen s; cs_hist := cs_hist s; cs_pp := cs_pp s;
     cs_pages := cs_pages s; cs_blobs := cs_blobs s; cs_w := w; cs_wlock := cs_wlock s; cs_retired := ret;
     cs_rd := cs_rd s; cs_nguard := cs_nguard s; cs_npages := cs_npages s; cs_log := cs_log s |}.
Definition cset_rd (s : cs_state) (r : N) (x : rstate) (ng np : N) (lg : list event) : cs_state :=
  {| cs_reg := cs_reg s; cs_flen := cs_flen s; cs_mem := cs_mem s; cs_slen := cs_slen s; cs_hist := cs_hist s; cs_pp := cs_pp s;
     cs_pages := cs_pages s; cs_blobs := cs_blobs s; cs_w := cs_w s; cs_wlock := cs_wlock s; cs_retired := cs_retired s;
     cs_rd := upd (cs_rd s) r x; cs_nguard := ng; cs_npages := np; cs_log := lg |}.
Definition cset_idx (s : cs_state) (w : cphase) (lock : bool) (pages : list page) (blobs : list (N * (N * list N))) (slen : N) : cs_state :=
  {| cs_reg := cs_reg s; cs_flen := cs_flen s; cs_mem := cs_mem s; cs_slen := slen; cs_hist := cs_hist s; cs_pp := cs_pp s;
     cs_pages := pages; cs_blobs := blobs; cs_w := w; cs_wlock := lock; cs_retired := cs_retired s;
     cs_rd := cs_rd s; cs_nguard := cs_nguard s; cs_npages := cs_npages s; cs_log := cs_log s |}.

Definition cs_fresh_ext (s : cs_state) (ns nr : N) : bool :=
  disjb ns nr (r_start (cs_reg s)) (r_res (cs_reg s)) && forallb (fun e => disjb ns nr (fst e) (snd e)) (cs_retired s).
Definition cs_fresh_tail (s : cs_state) (nr : N) : bool :=
  forallb (fun e => disjb (r_start (cs_reg s)) nr (fst e) (snd e)) (cs_retired s).

(* element i through the page entry the reader sees (readers hold the pages read lock while reading) *)
Definition comp_read (s : cs_state) (st ln i : N) : rres :=
  if cs_flen s <? st then RPanic
  else match nthp (cs_pages s) (i / cs_pp s) with
       | None => RGarbage                                   (* fold: silently stops; read_into_at: expect() panics *)
       | Some pg =>
           if p_raw pg
           then (* a raw page is copied slot by slot (strategy.rs bytes_to_values_into): only the slot asked for matters *)
                if i mod cs_pp s <? p_count pg
                then match cs_mem s (st + p_start pg + ESZ * (i mod cs_pp s)) with CVal v => RVal v | _ => RGarbage end
                else RGarbage
           else match read_page (cs_mem s) (cs_blobs s) st pg with
                | Some vs => if i mod cs_pp s <? len vs then RVal (hv vs (i mod cs_pp s)) else RGarbage
                | None => RGarbage end
       end.

Definition cs_step (s : cs_state) (l : cs_label) : option cs_state :=
  let reg := cs_reg s in
  match l with
  | KPush v =>
      match cs_w s with
      | CIdle => Some {| cs_reg := reg; cs_flen := cs_flen s; cs_mem := cs_mem s; cs_slen := cs_slen s; cs_hist := cs_hist s ++ [v];
                         cs_pp := cs_pp s; cs_pages := cs_pages s; cs_blobs := cs_blobs s; cs_w := CIdle; cs_wlock := cs_wlock s;
                         cs_retired := cs_retired s; cs_rd := cs_rd s; cs_nguard := cs_nguard s; cs_npages := cs_npages s; cs_log := cs_log s |}
      | _ => None end
  | KBegin sizes =>   (* plan under the pages read lock, then (if it fits) the data copy of truncate_write *)
      match cs_w s with
      | CIdle =>
          if (len (cs_pushed s) =? 0) || cs_wlock s then None
          else match cs_plan s sizes with
               | None => Some (cset s CFailed reg (cs_mem s) (cs_retired s))
               | Some pl =>
                   if r_len reg <? pl_at pl then Some (cset s CFailed reg (cs_mem s) (cs_retired s))
                   else if pl_end pl <=? r_res reg
                        then Some (cset s (CFitsData pl) reg (mwrite_chunks (cs_mem s) (r_start reg + pl_at pl) (pl_cs pl)) (cs_retired s))
                        else Some (cset s (CPlanned pl) reg (cs_mem s) (cs_retired s))
               end
      | _ => None end
  | KReserve g =>
      match cs_w s with
      | CPlanned pl =>
          if r_res reg =? 0 then None
          else let nr := new_res (r_res reg) (pl_end pl) in
               if negb (pl_end pl <=? nr) then None else
               match g with
               | GIn => if cs_fresh_tail s nr
                        then Some (cset s (CInRes pl nr) {| r_start := r_start reg; r_len := r_len reg; r_res := nr |} (cs_mem s) (cs_retired s))
                        else None
               | GRel ns => if cs_fresh_ext s ns nr then Some (cset s (CRelRes pl ns nr) reg (cs_mem s) (cs_retired s)) else None
               end
      | _ => None end
  | KGrowFile =>
      let grow target :=
        if (cs_flen s <? ceil_page target) && (cs_nguard s =? 0)
        then Some {| cs_reg := reg; cs_flen := grown_file_len (cs_flen s) target; cs_mem := cs_mem s; cs_slen := cs_slen s;
                     cs_hist := cs_hist s; cs_pp := cs_pp s; cs_pages := cs_pages s; cs_blobs := cs_blobs s; cs_w := cs_w s;
                     cs_wlock := cs_wlock s; cs_retired := cs_retired s; cs_rd := cs_rd s; cs_nguard := cs_nguard s;
                     cs_npages := cs_npages s; cs_log := cs_log s |}
        else None in
      match cs_w s with
      | CInRes _ nr => grow (r_start reg + nr)
      | CRelRes _ ns nr => grow (ns + nr)
      | _ => None end
  | KCopy =>
      match cs_w s with
      | CInRes pl nr =>
          if ceil_page (r_start reg + nr) <=? cs_flen s
          then Some (cset s (CInData pl nr) reg (mwrite_chunks (cs_mem s) (r_start reg + pl_at pl) (pl_cs pl)) (cs_retired s)) else None
      | CRelRes pl ns nr =>     (* truncate = true: only [start, start + write_offset) is copied (region.rs:193) *)
          if ceil_page (ns + nr) <=? cs_flen s
          then Some (cset s (CRelCopied pl ns nr) reg
                       (mwrite_chunks (mcopy (cs_mem s) (r_start reg) ns (pl_at pl)) (ns + pl_at pl) (pl_cs pl)) (cs_retired s)) else None
      | _ => None end
  | KSetLen =>
      match cs_w s with
      | CFitsData pl | CInData pl _ =>
          Some (cset s (CAfterRegion pl) {| r_start := r_start reg; r_len := pl_end pl; r_res := r_res reg |} (cs_mem s) (cs_retired s))
      | CRelCopied pl ns nr =>
          Some (cset s (CAfterRegion pl) {| r_start := ns; r_len := pl_end pl; r_res := nr |} (cs_mem s)
                  ((r_start reg, r_res reg) :: cs_retired s))
      | _ => None end
  | KLock =>          (* pages.write(): no reader holds the pages read lock *)
      match cs_w s with
      | CAfterRegion pl => if cs_wlock s || negb (cs_npages s =? 0) then None
                           else Some (cset_idx s (CLockedW pl) true (cs_pages s) (cs_blobs s) (cs_slen s))
      | _ => None end
  | KIndex =>         (* pages.truncate(starting_page_index); checked_push* (any_stored_vec.rs:116-127, 170-181) *)
      match cs_w s with
      | CLockedW pl =>
          let kept := take (cs_slen s / cs_pp s) (cs_pages s) in
          match pl_fast pl, pl_cs pl with
          | Some pg, [ChRaw vs] =>
              Some (cset_idx s CIndexed true
                      (kept ++ [{| p_start := p_start pg; p_bytes := p_bytes pg + ESZ * len vs; p_count := p_count pg + len vs; p_raw := true |}])
                      (cs_blobs s) (cs_slen s))
          | _, cs => Some (cset_idx s CIndexed true (kept ++ chunk_pages cs (pl_at pl)) (cs_blobs s ++ chunk_blobs cs) (cs_slen s))
          end
      | _ => None end
  | KPublish => match cs_w s with CIndexed => Some (cset_idx s CPublished true (cs_pages s) (cs_blobs s) (len (cs_hist s))) | _ => None end
  | KFlush => match cs_w s with CPublished => Some (cset_idx s CFlushed true (cs_pages s) (cs_blobs s) (cs_slen s)) | _ => None end
  | KUnlock => match cs_w s with CFlushed => Some (cset_idx s CIdle false (cs_pages s) (cs_blobs s) (cs_slen s)) | _ => None end
  | KRLoad r =>
      match cs_rd s r with
      | RIdle | RLen _ => Some (cset_rd s r (RLen (cs_slen s)) (cs_nguard s) (cs_npages s) (EvLen r (cs_slen s) :: cs_log s))
      | _ => None end
  | KRSnap r =>
      match cs_rd s r with
      | RLen l => Some (cset_rd s r (RSnap l (r_start reg) (r_len reg)) (cs_nguard s) (cs_npages s) (cs_log s))
      | _ => None end
  | KRGuard r =>
      match cs_rd s r with
      | RSnap l st ln => Some (cset_rd s r (RGuard l st ln) (cs_nguard s + 1) (cs_npages s) (cs_log s))
      | _ => None end
  | KRPages r =>      (* pages.read(): blocked while the writer holds the write lock *)
      match cs_rd s r with
      | RGuard l st ln => if cs_wlock s then None
                          else Some (cset_rd s r (RPages l st ln) (cs_nguard s) (cs_npages s + 1) (cs_log s))
      | _ => None end
  | KRRead r i =>
      match cs_rd s r with
      | RPages l st ln =>
          if i <? l then Some (cset_rd s r (RPages l st ln) (cs_nguard s) (cs_npages s)
                                 (EvRead r l i (comp_read s st ln i) :: cs_log s))
          else None
      | _ => None end
  | KRDrop r =>
      match cs_rd s r with
      | RPages _ _ _ => Some (cset_rd s r RIdle (cs_nguard s - 1) (cs_npages s - 1) (cs_log s))
      | RGuard _ _ _ => Some (cset_rd s r RIdle (cs_nguard s - 1) (cs_npages s) (cs_log s))
      | RLen _ | RSnap _ _ _ => Some (cset_rd s r RIdle (cs_nguard s) (cs_npages s) (cs_log s))
      | _ => None end
  | KOther ns nr =>
      match cs_w s with
      | CIdle => if cs_fresh_ext s ns nr then Some (cset s CIdle reg (mfill (cs_mem s) ns nr) (cs_retired s)) else None
      | _ => None end
  | KOtherGrow target =>
      match cs_w s with
      | CIdle =>
          if (cs_flen s <? ceil_page target) && (cs_nguard s =? 0)
          then Some {| cs_reg := reg; cs_flen := grown_file_len (cs_flen s) target; cs_mem := cs_mem s; cs_slen := cs_slen s;
                       cs_hist := cs_hist s; cs_pp := cs_pp s; cs_pages := cs_pages s; cs_blobs := cs_blobs s; cs_w := CIdle;
                       cs_wlock := cs_wlock s; cs_retired := cs_retired s; cs_rd := cs_rd s; cs_nguard := cs_nguard s;
                       cs_npages := cs_npages s; cs_log := cs_log s |}
          else None
      | _ => None end
  end.

Definition cs_init (start res flen pp : N) : cs_state :=
  {| cs_reg := {| r_start := start; r_len := HDR; r_res := res |}; cs_flen := flen; cs_mem := fun _ => CNone; cs_slen := 0;
     cs_hist := []; cs_pp := pp; cs_pages := []; cs_blobs := []; cs_w := CIdle; cs_wlock := false; cs_retired := [];
     cs_rd := fun _ => RIdle; cs_nguard := 0; cs_npages := 0; cs_log := [] |}.

Inductive cs_reach (s0 : cs_state) : cs_state -> Prop :=
| cs_reach_refl : cs_reach s0 s0
| cs_reach_step s l s' : cs_reach s0 s -> cs_step s l = Some s' -> cs_reach s0 s'.

Definition cs_run (s : cs_state) (ls : list cs_label) : option cs_state :=
  fold_left (fun o l => match o with Some s => cs_step s l | None => None end) ls (Some s).

(* ------------------------------------------------------------------------------------------ *)
(* what C09 demands of a log (newest event first), against the sequence of pushed values *)
Definition reads_ok (hist : list N) (lg : list event) : Prop :=
  forall r l i res, In (EvRead r l i res) lg -> i < l /\ i < len hist /\ res = RVal (hv hist i).
Definition lens_mono (lg : list event) : Prop :=
  forall l1 l2 r a b, lg = l1 ++ EvLen r a :: l2 -> In (EvLen r b) l2 -> b <= a.
Definition no_panic (lg : list event) : Prop :=
  forall r l i, ~ In (EvRead r l i RPanic) lg.
Definition c09_good (hist : list N) (lg : list event) : Prop :=
  reads_ok hist lg /\ lens_mono lg /\ no_panic lg.

(* boolean versions, for the extracted oracle and for vm_compute witnesses *)
Definition rres_eqb (a b : rres) : bool :=
  match a, b with RVal x, RVal y => x =? y | RGarbage, RGarbage => true | RPanic, RPanic => true | _, _ => false end.
Fixpoint reads_okb (hist : list N) (lg : list event) : bool :=
  match lg with
  | [] => true
  | EvRead _ l i res :: t => (i <? l) && (i <? len hist) && rres_eqb res (RVal (hv hist i)) && reads_okb hist t
  | _ :: t => reads_okb hist t
  end.
