(* Conc/SrScen.v — configurations, decidable observers and the FULL statements of C10 / C12
   (race part) over the step model Conc/SrSteps.v, plus the concrete scenarios that the
   harness replays on the real code.  DEFINITIONS ONLY (proofs are in SrProofs.v). *)
From Anydb Require Import Common.Base Gen.Consts Rawdb.AMap Rawdb.Alloc Rawdb.AllocInv Conc.SrSteps.

(* a configuration: sequential set-up history, then per thread (program, handles id -> slot) *)
Definition cfg : Type := (list op * list (list top * list (N * N)))%type.
Definition cfg_state (c : cfg) : st := run (init 0) (fst c).
Definition ginit (c : cfg) : gstate :=
  mkG (cfg_state c) (map (fun ph => mk_thread (fst ph) (snd ph)) (snd c)).

(* ---- well-formed configurations: distinct regions per thread, readers only read ------------ *)
Definition top_ids (o : top) : list N :=
  match o with
  | TCreate id | TWrite id _ _ _ _ | TTruncate id _ | TRemove id => [id]
  | TRename a b => [a; b]
  | _ => []
  end.
Definition owned (ph : list top * list (N * N)) : list N := map fst (snd ph) ++ flat_map top_ids (fst ph).
Fixpoint disjoint_all (l : list (list N)) : bool :=
  match l with
  | [] => true
  | x :: r => forallb (fun y => forallb (fun a => negb (mem_n a y)) x) r && disjoint_all r
  end.
(* while a thread holds a Reader it performs only reads *)
Fixpoint reader_ok (inr : bool) (p : list top) : bool :=
  match p with
  | [] => true
  | TRdOpen _ :: r => negb inr && reader_ok true r
  | TRdClose :: r => reader_ok false r
  | TRdRead :: r => reader_ok inr r
  | _ :: r => negb inr && reader_ok inr r
  end.
Definition handles_ok (s : st) (h : list (N * N)) : bool :=
  forallb (fun kv => match find_id s (fst kv) with Some i => i =? snd kv | None => false end) h.
Definition wf_cfg (c : cfg) : bool :=
  disjoint_all (map owned (snd c))
  && forallb (fun ph => reader_ok false (fst ph)) (snd c)
  && forallb (fun ph => handles_ok (cfg_state c) (snd ph)) (snd c).

(* ---- observers ------------------------------------------------------------------------------- *)
Definition region_byte (s : st) (i k : N) : option N :=
  match slot s i with
  | Some m => if k <? r_len m then Some (mem s (r_start m + k)) else None
  | None => None
  end.
Definition region_has (s : st) (i k b : N) : bool :=
  match region_byte s i k with Some x => x =? b | None => false end.

Definition gnext (g : gstate) (me : nat) : gstate := match gstep g me with Some g' => g' | None => g end.

(* byte b is what region (slot) i holds at offset k in SOME state along the schedule *)
Fixpoint held_along (g : gstate) (sched : list nat) (i k b : N) : bool :=
  region_has (g_st g) i k b
  || match sched with [] => false | me :: r => held_along (gnext g me) r i k b end.

Definition reader_of (g : gstate) (tr : nat) : option (N * N * N) :=
  match nth_error (g_th g) tr with Some t => t_reader t | None => None end.
Definition snapshot_current (g : gstate) (i start ln : N) : bool :=
  match slot (g_st g) i with Some m => (r_start m =? start) && (r_len m =? ln) | None => false end.

Definition quiescent_b (g : gstate) : bool :=
  forallb (fun t => match t_pc t with PIdle => true | _ => false end) (g_th g).

Definition aerr_code (e : aerr) : N :=
  match e with
  | RegionNotFound => 0 | RegionMetadataUnwritten => 1 | RegionAlreadyExists => 2 | RegionStillReferenced => 3
  | WriteOutOfBounds => 4 | TruncateInvalid => 5 | RegionIndexMismatch => 6 | HoleTooSmall => 7
  | InvariantViolation => 8 | RegionSizeOverflow => 9 | OverlappingCopyRanges => 10
  end.
(* same kind of outcome (counts returned by flush and reader contents are not part of it) *)
Definition res_agree (a b : tres) : bool :=
  match a, b with
  | ROk, ROk | RNum _, RNum _ | RPanic, RPanic | RNoReader, RNoReader | RRead _ _, RRead _ _ => true
  | RErr e1, RErr e2 => aerr_code e1 =? aerr_code e2
  | _, _ => false
  end.
Fixpoint all2 {A} (f : A -> A -> bool) (l1 l2 : list A) : bool :=
  match l1, l2 with
  | [], [] => true
  | x :: r1, y :: r2 => f x y && all2 f r1 r2
  | _, _ => false
  end.

Definition thread_alone (c : cfg) (t : nat) : gstate :=
  mkG (cfg_state c)
      (match nth_error (snd c) t with Some ph => [mk_thread (fst ph) (snd ph)] | None => [] end).

Definition region_same (s1 s2 : st) (id : N) : Prop :=
  match find_id s1 id, find_id s2 id with
  | Some i1, Some i2 =>
      match slot s1 i1, slot s2 i2 with
      | Some m1, Some m2 =>
          r_len m1 = r_len m2 /\ forall k, k < r_len m1 -> mem s1 (r_start m1 + k) = mem s2 (r_start m2 + k)
      | _, _ => False
      end
  | None, None => True
  | _, _ => False
  end.

(* ---- write footprints, targets and the decidable side conditions of the frame theorems ------ *)
Definition covers_any (l : list (N * N)) (a : N) : bool := existsb (fun e => covers e a) l.

Definition tail_of (s : st) (k : N) : list (N * N) :=
  match slot s k with
  | Some m => let c := ceil_page (r_len m) in
              if c <? r_reserved m then [(r_start m + c, r_reserved m - c)] else []
  | None => []
  end.

(* the address ranges the NEXT step of a thread may modify *)
Definition wfoot (s : st) (t : tstate) : list (N * N) :=
  match t_pc t with
  | PWF_Data w | PWX_Data w => [(w_start w + w_wo w, w_n w)]
  | PWR_Copy w => [(w_new_start w, w_copy_len w)]
  | PWR_Write w => [(w_new_start w + w_wo w, w_n w)]
  | PP_Pause _ => holes s
  | PP_Meta todo _ _ =>
      match todo with
      | [] => holes s
      | k :: rest => tail_of s k ++ holes s
      end
  | _ => []
  end.

(* no step of the schedule has address a in its footprint *)
Fixpoint quiet_b (g : gstate) (sched : list nat) (a : N) : bool :=
  match sched with
  | [] => true
  | me :: r =>
      match gstep g me, nth_error (g_th g) me with
      | Some g', Some t => negb (covers_any (wfoot (g_st g) t) a) && quiet_b g' r a
      | Some g', None => false
      | None, _ => quiet_b g r a
      end
  end.

Definition place (m : rmeta) : N * N * N * N := (r_start m, r_len m, r_reserved m, r_id m).

(* the slot a parked thread's current operation works on *)
Definition pc_target (p : pc) : option N :=
  match p with
  | PW_Snap i _ _ _ _ => Some i
  | PWF_Data w | PWF_Mark w | PWF_Pause w | PWF_Regs w | PWF_Pub w | PWG_Lay w | PWE_SetRes w | PWE_Pw w | PWE_Fw w
  | PWA_SetRes w | PWX_Data w | PWX_Mark w | PWX_Regs w | PWX_Pub w | PWR_LenMeta w _ | PWR_Pw w | PWR_Fw w
  | PWR_Before w | PWR_Copy w | PWR_Write w | PWR_After w | PWR_Lay2 w | PWR_MoveMeta w | PWR_Mark w | PWR_Regs w
  | PWR_Pub w => Some (w_i w)
  | PT_Len i _ | PT_Regs i _ | PT_Pub i _ => Some i
  | PN_Id _ i _ | PN_Regs _ i _ _ | PN_Pub _ i _ _ => Some i
  | PD_Id _ i | PD_Lay _ i | PD_Regs _ i | PD_Meta1 _ i | PD_Meta2 _ i => Some i
  | _ => None
  end.

Definition ext_disjoint (e f : N * N) : bool :=
  (fst e + snd e <=? fst f) || (fst f + snd f <=? fst e).
Definition foot_avoids (l : list (N * N)) (start ln : N) : bool :=
  forallb (fun e => ext_disjoint e (start, ln)) l.

Definition targets_b (p : pc) (i : N) : bool :=
  match pc_target p with Some j => j =? i | None => false end.

(* along the schedule no step works on slot i and no step's footprint meets region i's bytes *)
Fixpoint others_quiet_b (g : gstate) (sched : list nat) (i : N) : bool :=
  match sched with
  | [] => true
  | me :: r =>
      match gstep g me, nth_error (g_th g) me with
      | Some g', Some t =>
          negb (targets_b (t_pc t) i)
          && match slot (g_st g) i with
             | Some m => foot_avoids (wfoot (g_st g) t) (r_start m) (r_len m)
             | None => false
             end
          && others_quiet_b g' r i
      | Some _, None => false
      | None, _ => others_quiet_b g r i
      end
  end.

(* ---- the FULL statements -------------------------------------------------------------------- *)
(* C10, isolation: whatever the schedule, every thread obtains the results and leaves the
   contents it would obtain running alone from the same set-up state *)
Definition isolation_stmt : Prop :=
  forall (c : cfg) sched t th ph,
    wf_cfg c = true ->
    let g := grun (ginit c) sched in
    all_finished g = true ->
    nth_error (g_th g) t = Some th -> nth_error (snd c) t = Some ph ->
    forall n tha,
      let ga := grun (thread_alone c t) (repeat O n) in
      nth_error (g_th ga) O = Some tha -> t_finished tha = true ->
      all2 res_agree (t_results th) (t_results tha) = true
      /\ forall id, In id (owned ph) -> region_same (g_st g) (g_st ga) id.

(* C10, quiescence: the extent invariant of C02 holds whenever every thread is between operations *)
Definition inv_quiescent_stmt : Prop :=
  forall (c : cfg) sched, wf_cfg c = true -> quiescent (grun (ginit c) sched) -> Inv (g_st (grun (ginit c) sched)).

(* C10, readers: at g1 thread tr holds a reader whose snapshot is current (a moment no earlier
   than its creation); however the schedule continues, while the reader is held every byte it
   yields below its length is a byte the region held in some state since g1 *)
Definition reader_stmt : Prop :=
  forall (c : cfg) sched1 sched2 tr i start ln k,
    wf_cfg c = true ->
    let g1 := grun (ginit c) sched1 in
    reader_of g1 tr = Some (i, start, ln) -> snapshot_current g1 i start ln = true ->
    let g2 := grun g1 sched2 in
    reader_of g2 tr = Some (i, start, ln) ->
    (k <? ln) = true ->
    held_along g1 sched2 i k (mem (g_st g2) (start + k)) = true.

(* C12, race part: compact() in parallel with an append that fits the reserve: once both have
   returned, the appended bytes read back *)
Definition race_stmt : Prop :=
  forall pre i id f n sched m,
    let s := run (init 0) pre in
    slot s i = Some m -> r_id m = id -> (r_len m + n <=? r_reserved m) = true ->
    let g := grun (mkG s [mk_thread [TWrite id f n None false] [(id, i)]; mk_thread [TCompact] []]) sched in
    all_finished g = true ->
    forall k, (k <? n) = true -> mem (g_st g) (r_start m + r_len m + k) = f k.

(* ---- the scenarios (each is a directed schedule of harness/src/eng_schedraw.rs) ------------ *)
Definition gb (w : N) : N -> N := gen_byte w.

(* compact-between-data-copy-and-length-update *)
Definition race_pre : list op := [Create 1 false; Write 1 (gb 1) 5000; Truncate 1 10; Flush].
Definition race_sched : list nat := [0; 0; 0; 0]%nat ++ repeat 1%nat 40 ++ repeat 0%nat 10.

(* reader-across-relocation-flush-reuse *)
Definition reader_cfg : cfg :=
  ([Create 1 false; Write 1 (gb 1) 100; Create 2 false; Write 2 (gb 2) 100; Flush],
   [([TRdOpen 1; TRdRead; TRdRead; TRdClose], []);
    ([TWrite 1 (gb 3) 5000 None false; TFlush], [(1, 0)]);
    ([TCreate 4; TWrite 4 (gb 4) 200 None false], [])]).
Definition reader_sched1 : list nat := [0; 0; 0; 0]%nat.
Definition reader_sched2 : list nat := [0]%nat ++ repeat 1%nat 60 ++ repeat 2%nat 40.
(* reader-across-relocation-no-flush: the same without the flush *)
Definition reader_cfg_noflush : cfg :=
  (fst reader_cfg,
   [([TRdOpen 1; TRdRead; TRdRead; TRdClose], []);
    ([TWrite 1 (gb 3) 5000 None false], [(1, 0)]);
    ([TCreate 4; TWrite 4 (gb 4) 200 None false], [])]).

(* relocate-to-end-between-create-check-and-create *)
Definition beyond_cfg : cfg :=
  ([Create 1 false; Create 2 false; Create 3 false],
   [([TCreate 4; TWrite 4 (gb 1) 10 None false], []);
    ([TWrite 2 (gb 2) 1100000 None false], [(2, 1)])]).
Definition beyond_sched : list nat := [0; 0; 0; 0]%nat ++ repeat 1%nat 40 ++ repeat 0%nat 20.

(* remove-while-flush-holds-dirty-list *)
Definition remove_cfg : cfg :=
  ([Create 1 false; Create 2 false],
   [([TWrite 1 (gb 1) 10 None false; TRemove 1], [(1, 0)]);
    ([TFlush], [])]).
Definition remove_sched : list nat := repeat 0%nat 7 ++ repeat 1%nat 11 ++ repeat 0%nat 10 ++ repeat 1%nat 10.
