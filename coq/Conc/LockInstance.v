(* Conc/LockInstance.v — INSTANCE of the rank theorem for anydb (C11).
   P and rank come from Gen/LockSeqs.v (regenerated from the lock tap on every run).

   On the current tree the full instance `forallb (rank_monotone_b rank) P = true` does NOT
   hold.  The non-monotone programs form one structural class, a real deadlock of the
   implementation (several cycles, each replayed on real threads by engine `locks`):
     K_rawdb_under_pages  a rawdb lock (layout/regions/mmap/file/meta) is acquired while a
                          vecdb `pages` lock is held (compressed write(): Pages::flush under the
                          pages write lock) — readers take mmap (read) or meta (read) and then
                          pages (read).
   (A second class, `file` acquired under `meta` in Region::flush, was repaired in /repo b503bc7;
   its programs are rank-monotone now and its replay is kept as a regression by the engine.)
   What is proved: every program of P outside the class is rank-monotone (C11_instance, by
   vm_compute), hence any number of threads running any mix of those programs under any
   schedule never deadlock (C11_partial_thm, FIFO writer queue = parking_lot; and
   C11_partial_unordered).  The full statement is C11_full_stmt; it is refuted by reachable
   deadlocked states of the model (C11_full_refuted_thm and the per-cycle witnesses).
   The gate class `vecmut` of the programs models "one writer per vector / region at a time"
   (`&mut self`; rawdb's single-writer write path): it is outermost and never nested. *)
From Coq Require Import List Arith Lia Bool PeanoNat.
Import ListNotations.
From Anydb Require Import Conc.RwLock Conc.RwLockProofs Gen.LockSeqs.

(* ------------------------------------------------------------------ rank bound *)
Definition RANK_BOUND : nat := S (list_max rank_table).

Lemma nth_le_list_max : forall (l : list nat) c, nth c l 0 <= list_max l.
Proof.
  induction l as [|a l IH]; intros c.
  - destruct c; cbn; lia.
  - change (list_max (a :: l)) with (Nat.max a (list_max l)). destruct c; cbn [nth].
    + apply Nat.le_max_l.
    + etransitivity; [apply IH | apply Nat.le_max_r].
Qed.

Lemma rank_bound : forall c, rank c < RANK_BOUND.
Proof. intros c. unfold rank, RANK_BOUND. pose proof (nth_le_list_max rank_table c). lia. Qed.

(* ------------------------------------------------------------------ known classes *)
(* some lock of class c_acq is acquired while a lock of class c_held is held *)
Fixpoint acq_under_from (c_held c_acq : nat) (h : list (lock * mode)) (p : prog) : bool :=
  match p with
  | [] => false
  | Acq l m :: p' =>
      (Nat.eqb (fst l) c_acq && existsb (fun x => Nat.eqb (fst (fst x)) c_held) h)
      || acq_under_from c_held c_acq ((l, m) :: h) p'
  | Rel l :: p' => acq_under_from c_held c_acq (drop1 l h) p'
  | Join _ :: p' => acq_under_from c_held c_acq h p'
  end.
Definition acq_under (c_held c_acq : nat) (p : prog) : bool := acq_under_from c_held c_acq [] p.

Definition K_rawdb_under_pages (p : prog) : bool :=
  existsb (fun c => acq_under c_pages c p) [c_layout; c_regions; c_mmap; c_file; c_meta].
Definition KnownClass_b (p : prog) : bool := K_rawdb_under_pages p.

(* ------------------------------------------------------------------ the instance *)
Lemma C11_instance : forallb (fun p => rank_monotone_b rank p || KnownClass_b p) P = true.
Proof. vm_compute. reflexivity. Qed.

Lemma instance_at : forall p, In p P -> rank_monotone_b rank p || KnownClass_b p = true.
Proof. apply forallb_forall. exact C11_instance. Qed.

Lemma P_monotone : forall p, In p P -> KnownClass_b p = false -> rank_monotone rank p.
Proof.
  intros p Hin Hk. apply rank_monotone_b_sound.
  pose proof (instance_at p Hin) as H. rewrite Hk in H. rewrite orb_false_r in H. exact H.
Qed.

(* FIFO writer queue (parking_lot) *)
Theorem C11_partial_thm :
  forall progs, (forall p, In p progs -> In p P /\ KnownClass_b p = false) ->
  forall st, freach (fstart progs) st -> unfinished (fst st) -> exists st', fstep st st'.
Proof.
  intros progs H.
  apply (RankTheoremFifo rank RANK_BOUND rank_bound progs).
  - intros p Hp. destruct (H p Hp) as [H1 H2]. apply P_monotone; assumption.
  - apply incl_refl.
Qed.

(* unordered writer queue (any registered writer may take a free lock) *)
Theorem C11_partial_unordered :
  forall progs, (forall p, In p progs -> In p P /\ KnownClass_b p = false) ->
  forall s, reach (start progs) s -> unfinished s -> exists s', step s s'.
Proof.
  intros progs H.
  apply (RankTheorem rank RANK_BOUND rank_bound progs).
  - intros p Hp. destruct (H p Hp) as [H1 H2]. apply P_monotone; assumption.
  - apply incl_refl.
Qed.

(* the hypotheses are satisfiable: most of P is outside the known classes *)
Example P_ok_nonempty : 20 <=? length (filter (fun p => negb (KnownClass_b p)) P) = true.
Proof. vm_compute. reflexivity. Qed.

(* ------------------------------------------------------------------ the full statement, refuted *)
Definition C11_full_stmt : Prop :=
  forall progs, incl progs P ->
  forall st, freach (fstart progs) st -> unfinished (fst st) -> exists st', fstep st st'.

Definition instr_eqb (a b : instr) : bool :=
  match a, b with
  | Acq l m, Acq l' m' => lock_eqb l l' && Bool.eqb (is_wr m) (is_wr m')
  | Rel l, Rel l' => lock_eqb l l'
  | Join d, Join d' => Nat.eqb d d'
  | _, _ => false
  end.
Definition in_P_b (p : prog) : bool := existsb (fun q => list_eqb instr_eqb p q) P.

Lemma prog_eqb_eq : forall p q, list_eqb instr_eqb p q = true -> p = q.
Proof.
  induction p as [|a p IH]; intros [|b q] He; cbn in He; try discriminate; [reflexivity|].
  apply andb_true_iff in He as [H1 H2]. f_equal; [|apply IH; assumption].
  destruct a as [l m|l|d], b as [l' m'|l'|d']; cbn in H1; try discriminate.
  - apply andb_true_iff in H1 as [Hl Hm]. apply lock_eqb_eq in Hl; subst.
    destruct m, m'; cbn in Hm; try discriminate; reflexivity.
  - apply lock_eqb_eq in H1; subst; reflexivity.
  - apply Nat.eqb_eq in H1; subst; reflexivity.
Qed.

Lemma in_P_b_sound progs : forallb in_P_b progs = true -> incl progs P.
Proof.
  intros H p Hp. rewrite forallb_forall in H. specialize (H p Hp).
  apply existsb_exists in H as (q & Hq & He). apply prog_eqb_eq in He; subst; assumption.
Qed.

(* compressed write() (pages write -> mmap read, for the page-index write)  ||  compressed reader
   (mmap read -> pages read)  ||  a file growth (queues for mmap write: refuses the writer's mmap read) *)
Definition witness_b : list prog := [p_pco_write_first; p_pco_ro_collect; p_rawdb_create_end_grow].
Definition witness_b_sched : schedule := repeat 0 26 ++ repeat 1 3 ++ repeat 2 5.

(* compressed write() (pages write -> regions read)  ||  compressed reader through the IO source
   (meta read -> pages read)  ||  Region::rename (regions write -> that meta write) *)
Definition witness_c : list prog := [p_pco_write_first; p_pco_ro_fold_io; p_rawdb_rename].
Definition witness_c_sched : schedule := repeat 0 30 ++ [1; 2; 2; 2; 2].

(* two threads: compressed reader (mmap read -> pages read)  ||  compressed write() whose
   Pages::flush has to grow the file (pages write -> mmap write) *)
Definition witness_d : list prog := [p_pco_ro_collect; p_pco_write_index_growth].
Definition witness_d_sched : schedule := repeat 0 3 ++ repeat 1 21.

Theorem C11_known_refuted_b_thm :
  exists progs, incl progs P /\ existsb K_rawdb_under_pages progs = true /\
  exists st, freach (fstart progs) st /\ fdeadlocked st.
Proof.
  exists witness_b. split; [apply in_P_b_sound; vm_compute; reflexivity|].
  split; [vm_compute; reflexivity|].
  eapply check_deadlock_sound with (sch := witness_b_sched). vm_compute. reflexivity.
Qed.

Theorem C11_known_refuted_c_thm :
  exists progs, incl progs P /\ existsb K_rawdb_under_pages progs = true /\
  exists st, freach (fstart progs) st /\ fdeadlocked st.
Proof.
  exists witness_c. split; [apply in_P_b_sound; vm_compute; reflexivity|].
  split; [vm_compute; reflexivity|].
  eapply check_deadlock_sound with (sch := witness_c_sched). vm_compute. reflexivity.
Qed.

Theorem C11_known_refuted_d_thm :
  exists progs, incl progs P /\ existsb K_rawdb_under_pages progs = true /\ length progs = 2 /\
  exists st, freach (fstart progs) st /\ fdeadlocked st.
Proof.
  exists witness_d. split; [apply in_P_b_sound; vm_compute; reflexivity|].
  split; [vm_compute; reflexivity|]. split; [reflexivity|].
  eapply check_deadlock_sound with (sch := witness_d_sched). vm_compute. reflexivity.
Qed.

Theorem C11_full_refuted_thm : ~ C11_full_stmt.
Proof.
  intros H. destruct C11_known_refuted_b_thm as (progs & Hi & _ & st & Hr & Hu & Hn).
  apply Hn. apply (H progs Hi st Hr Hu).
Qed.
