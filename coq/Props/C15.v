(* Props/C15.v — vecdb: lazy vectors equal their defining formula through every read path.
   Statements only: each is closed by `exact` of a lemma proved in Lazy/*Proofs.v, followed by
   Print Assumptions.  Vocabulary: `ovals F idx` = the formula values at the indices of idx where
   the formula is defined; `range_idx n from to` = the indices from .. min(to, n) - 1.
   Full statements refuted by the faithful models are kept as `*_full` definitions (in the proof
   files) with `*_refuted` theorems here.
   Partial: LazyDeltaVec::read_sorted_into_at and the range / sorted reads of LazyAggVec are only
   validated differentially (theorems named *_partial say what they cover). *)
From Coq Require Import Sorting.Sorted.
From Anydb Require Import Common.Base Lazy.LazyBase Lazy.LazyBaseProofs Lazy.LazyFrom Lazy.LazyFromProofs
  Lazy.LazyDelta Lazy.LazyDeltaProofs Lazy.LazyAgg Lazy.LazyAggProofs.

(* ---- LazyVecFrom1: all sources, ranges, sorted index lists ------------------------------------- *)
Theorem C15_from1_read_into : forall (A B : Type) (f : N -> A -> B) s from to,
  f1_read_into f s from to = ovals (F1 f s) (range_idx (f1_len s) from to).
Proof. exact (@f1_read_into_spec). Qed.
Print Assumptions C15_from1_read_into.
Theorem C15_from1_for_each : forall (A B : Type) (f : N -> A -> B) s from to,
  f1_for_each f s from to = ovals (F1 f s) (range_idx (f1_len s) from to).
Proof. exact (@f1_for_each_spec). Qed.
Print Assumptions C15_from1_for_each.
Theorem C15_from1_fold : forall (A B : Type) (f : N -> A -> B) s from to,
  f1_try_fold f s from to = ovals (F1 f s) (range_idx (f1_len s) from to).
Proof. exact (@f1_try_fold_spec). Qed.
Print Assumptions C15_from1_fold.
Theorem C15_from1_one : forall (A B : Type) (f : N -> A -> B) s i, f1_one f s i = F1 f s i.
Proof. exact (@f1_one_spec). Qed.
Print Assumptions C15_from1_one.
Theorem C15_from1_out_of_range : forall (A B : Type) (f : N -> A -> B) s i, f1_len s <= i -> F1 f s i = None.
Proof. exact (@F1_out_of_range). Qed.
Print Assumptions C15_from1_out_of_range.
Theorem C15_from1_sorted : forall (A B : Type) (f : N -> A -> B) s idx,
  StronglySorted N.le idx -> f1_sorted f s idx = ovals (F1 f s) idx.
Proof. exact (@f1_sorted_spec). Qed.
Print Assumptions C15_from1_sorted.

(* ---- LazyVecFrom2: unequal lengths, any counting flags -------------------------------------------- *)
Theorem C15_from2_read_into : forall (A1 A2 B : Type) (f : N -> A1 -> A2 -> B) c1 c2 s1 s2 from to,
  f2_read_into f c1 c2 s1 s2 from to = ovals (F2 f s1 s2) (range_idx (f2_len c1 c2 s1 s2) from to).
Proof. exact (@f2_read_into_spec). Qed.
Print Assumptions C15_from2_read_into.
Theorem C15_from2_for_each : forall (A1 A2 B : Type) (f : N -> A1 -> A2 -> B) c1 c2 s1 s2 from to,
  f2_for_each f c1 c2 s1 s2 from to = ovals (F2 f s1 s2) (range_idx (f2_len c1 c2 s1 s2) from to).
Proof. exact (@f2_for_each_spec). Qed.
Print Assumptions C15_from2_for_each.
Theorem C15_from2_fold : forall (A1 A2 B : Type) (f : N -> A1 -> A2 -> B) c1 c2 s1 s2 from to,
  f2_try_fold f c1 c2 s1 s2 from to = ovals (F2 f s1 s2) (range_idx (f2_len c1 c2 s1 s2) from to).
Proof. exact (@f2_try_fold_spec). Qed.
Print Assumptions C15_from2_fold.
Theorem C15_from2_one : forall (A1 A2 B : Type) (f : N -> A1 -> A2 -> B) c1 c2 s1 s2 i,
  f2_one f c1 c2 s1 s2 i = if i <? f2_len c1 c2 s1 s2 then F2 f s1 s2 i else None.
Proof. exact (@f2_one_spec). Qed.
Print Assumptions C15_from2_one.
Theorem C15_from2_in_range : forall (A1 A2 B : Type) (f : N -> A1 -> A2 -> B) c1 c2 s1 s2 i,
  c1 = true -> c2 = true -> i < f2_len c1 c2 s1 s2 -> exists v, F2 f s1 s2 i = Some v.
Proof. exact (@F2_defined). Qed.
Print Assumptions C15_from2_in_range.
Theorem C15_from2_out_of_range : forall (A1 A2 B : Type) (f : N -> A1 -> A2 -> B) c1 c2 s1 s2 i,
  len s1 <= usize_max -> len s2 <= usize_max -> (c1 = true \/ c2 = true) ->
  f2_len c1 c2 s1 s2 <= i -> F2 f s1 s2 i = None.
Proof. exact (@F2_out_of_range). Qed.
Print Assumptions C15_from2_out_of_range.
Theorem C15_from2_sorted : forall (A1 A2 B : Type) (f : N -> A1 -> A2 -> B) s1 s2 idx,
  StronglySorted N.le idx -> f2_sorted f s1 s2 idx = ovals (F2 f s1 s2) idx.
Proof. exact (@f2_sorted_spec). Qed.
Print Assumptions C15_from2_sorted.

(* ---- LazyVecFrom3 ------------------------------------------------------------------------------------ *)
Theorem C15_from3_read_into : forall (A1 A2 A3 B : Type) (f : N -> A1 -> A2 -> A3 -> B) c1 c2 c3 s1 s2 s3 from to,
  f3_read_into f c1 c2 c3 s1 s2 s3 from to = ovals (F3 f s1 s2 s3) (range_idx (f3_len c1 c2 c3 s1 s2 s3) from to).
Proof. exact (@f3_read_into_spec). Qed.
Print Assumptions C15_from3_read_into.
Theorem C15_from3_for_each : forall (A1 A2 A3 B : Type) (f : N -> A1 -> A2 -> A3 -> B) c1 c2 c3 s1 s2 s3 from to,
  f3_for_each f c1 c2 c3 s1 s2 s3 from to = ovals (F3 f s1 s2 s3) (range_idx (f3_len c1 c2 c3 s1 s2 s3) from to).
Proof. exact (@f3_for_each_spec). Qed.
Print Assumptions C15_from3_for_each.
Theorem C15_from3_fold : forall (A1 A2 A3 B : Type) (f : N -> A1 -> A2 -> A3 -> B) c1 c2 c3 s1 s2 s3 from to,
  f3_try_fold f c1 c2 c3 s1 s2 s3 from to = ovals (F3 f s1 s2 s3) (range_idx (f3_len c1 c2 c3 s1 s2 s3) from to).
Proof. exact (@f3_try_fold_spec). Qed.
Print Assumptions C15_from3_fold.
Theorem C15_from3_one : forall (A1 A2 A3 B : Type) (f : N -> A1 -> A2 -> A3 -> B) c1 c2 c3 s1 s2 s3 i,
  f3_one f c1 c2 c3 s1 s2 s3 i = if i <? f3_len c1 c2 c3 s1 s2 s3 then F3 f s1 s2 s3 i else None.
Proof. exact (@f3_one_spec). Qed.
Print Assumptions C15_from3_one.
Theorem C15_from3_in_range : forall (A1 A2 A3 B : Type) (f : N -> A1 -> A2 -> A3 -> B) c1 c2 c3 s1 s2 s3 i,
  c1 = true -> c2 = true -> c3 = true -> i < f3_len c1 c2 c3 s1 s2 s3 -> exists v, F3 f s1 s2 s3 i = Some v.
Proof. exact (@F3_defined). Qed.
Print Assumptions C15_from3_in_range.
Theorem C15_from3_sorted : forall (A1 A2 A3 B : Type) (f : N -> A1 -> A2 -> A3 -> B) s1 s2 s3 idx,
  StronglySorted N.le idx -> f3_sorted f s1 s2 s3 idx = ovals (F3 f s1 s2 s3) idx.
Proof. exact (@f3_sorted_spec). Qed.
Print Assumptions C15_from3_sorted.

(* ---- LazyDeltaVec (DeltaSub on u64/i64/u32, DeltaChange on u32) ------------------------------------------
   partial: read_sorted_into_at is not covered by a theorem *)
Theorem C15_delta_range_partial : forall ovf t op src starts, wf_starts ovf op src starts -> forall from to,
  d_range ovf t op src starts from to
  = map EV (ovals (Dspec t op src starts) (range_idx (N.min (len src) (len starts)) from to)).
Proof. exact delta_range_spec. Qed.
Print Assumptions C15_delta_range_partial.
Theorem C15_delta_range_no_panic : forall ovf t op src starts, wf_starts ovf op src starts -> forall from to,
  run_all (d_range ovf t op src starts from to)
  = Ok (ovals (Dspec t op src starts) (range_idx (N.min (len src) (len starts)) from to)).
Proof. exact delta_range_run. Qed.
Print Assumptions C15_delta_range_no_panic.
Theorem C15_delta_try_fold_early_exit : forall ovf t op src starts, wf_starts ovf op src starts -> forall from to k,
  run_stop k (d_try_fold ovf t op src starts from to)
  = Ok (take k (ovals (Dspec t op src starts) (range_idx (N.min (len src) (len starts)) from to)),
        k <? len (ovals (Dspec t op src starts) (range_idx (N.min (len src) (len starts)) from to))).
Proof. exact delta_range_stop. Qed.
Print Assumptions C15_delta_try_fold_early_exit.
Theorem C15_delta_one : forall ovf t op src starts, wf_starts ovf op src starts -> forall i,
  d_one ovf t op src starts i = Ok (Dspec t op src starts i).
Proof. exact delta_one_spec. Qed.
Print Assumptions C15_delta_one.
Theorem C15_delta_in_range : forall ovf t op src starts, wf_starts ovf op src starts -> forall i,
  i < N.min (len src) (len starts) -> exists v, Dspec t op src starts i = Some v.
Proof. exact Dspec_in_range. Qed.
Print Assumptions C15_delta_in_range.
Theorem C15_delta_out_of_range : forall t op src starts i,
  N.min (len src) (len starts) <= i -> Dspec t op src starts i = None.
Proof. exact Dspec_out_of_range. Qed.
Print Assumptions C15_delta_out_of_range.

Theorem C15_delta_range_full_refuted : ~ delta_range_full.
Proof. exact delta_range_full_refuted. Qed.
Print Assumptions C15_delta_range_full_refuted.
Theorem C15_delta_empty_window_refuted :
  exists src starts from to,
    mono_starts starts /\
    run_all (d_range true U64 DSub src starts from to) = Panic /\
    ovals (Dspec U64 DSub src starts) (range_idx (N.min (len src) (len starts)) from to) = [0%Z] /\
    run_all (d_range false U64 DSub src starts from to) = Ok [0%Z].
Proof. exact delta_empty_window_refuted. Qed.
Print Assumptions C15_delta_empty_window_refuted.
Theorem C15_delta_start_after_index_refuted :
  exists src starts,
    mono_starts starts /\
    run_all (d_range false U64 DSub src starts 0 1) = Panic /\
    d_one false U64 DSub src starts 0 = Ok (Some 0%Z) /\
    Dspec U64 DSub src starts 0 = Some 0%Z.
Proof. exact delta_start_after_index_refuted. Qed.
Print Assumptions C15_delta_start_after_index_refuted.

(* ---- LazyAggVec<Sparse> -------------------------------------------------------------------------------------
   partial: only collect_one_at is covered; range and sorted reads are validated differentially *)
Theorem C15_agg_collect_one_partial : forall src mapping i,
  wf_map src mapping -> a_one src mapping i = Ok (Aspec src mapping i).
Proof. exact agg_one_spec. Qed.
Print Assumptions C15_agg_collect_one_partial.
Theorem C15_agg_in_range : forall src mapping i, i < a_len mapping -> exists v, Aspec src mapping i = Some v.
Proof. exact Aspec_in_range. Qed.
Print Assumptions C15_agg_in_range.
Theorem C15_agg_out_of_range : forall src mapping i, a_len mapping <= i -> Aspec src mapping i = None.
Proof. exact Aspec_out_of_range. Qed.
Print Assumptions C15_agg_out_of_range.
Theorem C15_agg_range_full_refuted : ~ agg_range_full.
Proof. exact agg_range_full_refuted. Qed.
Print Assumptions C15_agg_range_full_refuted.
Theorem C15_agg_one_full_refuted : ~ agg_one_full.
Proof. exact agg_one_full_refuted. Qed.
Print Assumptions C15_agg_one_full_refuted.
Theorem C15_agg_mapping_past_end_refuted :
  exists src mapping,
    mono_map mapping /\
    run_all (a_range src mapping 0 1) = Panic /\
    a_sorted src mapping [0] = Panic /\
    a_one src mapping 0 = Ok (Some None) /\
    Aspec src mapping 0 = Some (Some 7%Z).
Proof. exact agg_mapping_past_end_refuted. Qed.
Print Assumptions C15_agg_mapping_past_end_refuted.

(* ---- ReadableVec default wrappers ---------------------------------------------------------------------------- *)
Theorem C15_collect_range_full_refuted : ~ collect_range_full.
Proof. exact collect_range_full_refuted. Qed.
Print Assumptions C15_collect_range_full_refuted.
Theorem C15_collect_range : forall (T : Type) esz (rd : N -> N -> res unit (list T)) from to,
  (to - from) * esz <= isize_max -> collect_range_at esz rd from to = rd from to.
Proof. exact (@collect_range_ok). Qed.
Print Assumptions C15_collect_range.
Theorem C15_collect_signed_range : forall (T : Type) esz vlen (rd : N -> N -> res unit (list T)) from to,
  vlen * esz <= isize_max ->
  exists f t', f <= vlen /\ t' <= vlen /\ collect_signed_range esz vlen rd from to = rd f t'.
Proof. exact (@collect_signed_ok). Qed.
Print Assumptions C15_collect_signed_range.
