(* Props/C15.v — vecdb: lazy vectors equal their defining formula through every read path.
   Statements only: each is closed by `exact` of a lemma proved in Lazy/*Proofs.v, followed by
   Print Assumptions.  Vocabulary: `ovals F idx` = the formula values at the indices of idx where
   the formula is defined; `range_idx n from to` = the indices from .. min(to, n) - 1; `map EV l` =
   a stream of elements that all evaluate (none panics).
   Everything is at full strength for the code as repaired by /repo commits 54a6dce, a89006f, da7dfea,
   19edab9; there is no *_partial and no *_refuted theorem left.  Hypotheses: `wf_starts` (LazyDeltaVec:
   monotone window starts with start <= h + 1 for DeltaSub — empty windows included — and start <= h
   for DeltaChange; C15_delta_start_cap_needed shows the cap cannot be dropped) and, for the default
   collect wrappers, len() * size_of::<T>() <= isize::MAX. *)
From Coq Require Import Sorting.Sorted Sorting.Permutation.
From Anydb Require Import Common.Base Lazy.LazyBase Lazy.LazyBaseProofs Lazy.LazyFrom Lazy.LazyFromProofs
  Lazy.LazyDelta Lazy.LazyDeltaProofs Lazy.LazyAgg Lazy.LazyAggProofs.

(* ---- LazyVecFrom1: all sources, ranges, sorted index lists ------------------------------------- *)
Theorem C15_from1_read_into : forall (A B : Type) (f : N -> A -> B) s from to,
  f1_read_into f s from to = ovals (F1 f s) (range_idx (f1_len s) from to).
Proof. exact (@f1_read_into_spec). Qed.
Print Assumptions C15_from1_read_into.
Theorem C15_from1_for_each : forall (A B : Type) (f : N -> A -> B) s from to,
  f1_for_each f s from to = ovals (F1 f s) (range_idx (f1_len s) from to).
Proof. exact (@f1_for_each_spec). Qed.
Print Assumptions C15_from1_for_each.
Theorem C15_from1_fold : forall (A B : Type) (f : N -> A -> B) s from to,
  f1_try_fold f s from to = ovals (F1 f s) (range_idx (f1_len s) from to).
Proof. exact (@f1_try_fold_spec). Qed.
Print Assumptions C15_from1_fold.
Theorem C15_from1_one : forall (A B : Type) (f : N -> A -> B) s i, f1_one f s i = F1 f s i.
Proof. exact (@f1_one_spec). Qed.
Print Assumptions C15_from1_one.
Theorem C15_from1_out_of_range : forall (A B : Type) (f : N -> A -> B) s i, f1_len s <= i -> F1 f s i = None.
Proof. exact (@F1_out_of_range). Qed.
Print Assumptions C15_from1_out_of_range.
Theorem C15_from1_sorted : forall (A B : Type) (f : N -> A -> B) s idx,
  StronglySorted N.le idx -> f1_sorted f s idx = ovals (F1 f s) idx.
Proof. exact (@f1_sorted_spec). Qed.
Print Assumptions C15_from1_sorted.

(* ---- LazyVecFrom2: unequal lengths, any counting flags -------------------------------------------- *)
Theorem C15_from2_read_into : forall (A1 A2 B : Type) (f : N -> A1 -> A2 -> B) c1 c2 s1 s2 from to,
  f2_read_into f c1 c2 s1 s2 from to = ovals (F2 f s1 s2) (range_idx (f2_len c1 c2 s1 s2) from to).
Proof. exact (@f2_read_into_spec). Qed.
Print Assumptions C15_from2_read_into.
Theorem C15_from2_for_each : forall (A1 A2 B : Type) (f : N -> A1 -> A2 -> B) c1 c2 s1 s2 from to,
  f2_for_each f c1 c2 s1 s2 from to = ovals (F2 f s1 s2) (range_idx (f2_len c1 c2 s1 s2) from to).
Proof. exact (@f2_for_each_spec). Qed.
Print Assumptions C15_from2_for_each.
Theorem C15_from2_fold : forall (A1 A2 B : Type) (f : N -> A1 -> A2 -> B) c1 c2 s1 s2 from to,
  f2_try_fold f c1 c2 s1 s2 from to = ovals (F2 f s1 s2) (range_idx (f2_len c1 c2 s1 s2) from to).
Proof. exact (@f2_try_fold_spec). Qed.
Print Assumptions C15_from2_fold.
Theorem C15_from2_one : forall (A1 A2 B : Type) (f : N -> A1 -> A2 -> B) c1 c2 s1 s2 i,
  f2_one f c1 c2 s1 s2 i = if i <? f2_len c1 c2 s1 s2 then F2 f s1 s2 i else None.
Proof. exact (@f2_one_spec). Qed.
Print Assumptions C15_from2_one.
Theorem C15_from2_in_range : forall (A1 A2 B : Type) (f : N -> A1 -> A2 -> B) c1 c2 s1 s2 i,
  c1 = true -> c2 = true -> i < f2_len c1 c2 s1 s2 -> exists v, F2 f s1 s2 i = Some v.
Proof. exact (@F2_defined). Qed.
Print Assumptions C15_from2_in_range.
Theorem C15_from2_out_of_range : forall (A1 A2 B : Type) (f : N -> A1 -> A2 -> B) c1 c2 s1 s2 i,
  len s1 <= usize_max -> len s2 <= usize_max -> (c1 = true \/ c2 = true) ->
  f2_len c1 c2 s1 s2 <= i -> F2 f s1 s2 i = None.
Proof. exact (@F2_out_of_range). Qed.
Print Assumptions C15_from2_out_of_range.
Theorem C15_from2_sorted : forall (A1 A2 B : Type) (f : N -> A1 -> A2 -> B) s1 s2 idx,
  StronglySorted N.le idx -> f2_sorted f s1 s2 idx = ovals (F2 f s1 s2) idx.
Proof. exact (@f2_sorted_spec). Qed.
Print Assumptions C15_from2_sorted.

(* ---- LazyVecFrom3 ------------------------------------------------------------------------------------ *)
Theorem C15_from3_read_into : forall (A1 A2 A3 B : Type) (f : N -> A1 -> A2 -> A3 -> B) c1 c2 c3 s1 s2 s3 from to,
  f3_read_into f c1 c2 c3 s1 s2 s3 from to = ovals (F3 f s1 s2 s3) (range_idx (f3_len c1 c2 c3 s1 s2 s3) from to).
Proof. exact (@f3_read_into_spec). Qed.
Print Assumptions C15_from3_read_into.
Theorem C15_from3_for_each : forall (A1 A2 A3 B : Type) (f : N -> A1 -> A2 -> A3 -> B) c1 c2 c3 s1 s2 s3 from to,
  f3_for_each f c1 c2 c3 s1 s2 s3 from to = ovals (F3 f s1 s2 s3) (range_idx (f3_len c1 c2 c3 s1 s2 s3) from to).
Proof. exact (@f3_for_each_spec). Qed.
Print Assumptions C15_from3_for_each.
Theorem C15_from3_fold : forall (A1 A2 A3 B : Type) (f : N -> A1 -> A2 -> A3 -> B) c1 c2 c3 s1 s2 s3 from to,
  f3_try_fold f c1 c2 c3 s1 s2 s3 from to = ovals (F3 f s1 s2 s3) (range_idx (f3_len c1 c2 c3 s1 s2 s3) from to).
Proof. exact (@f3_try_fold_spec). Qed.
Print Assumptions C15_from3_fold.
Theorem C15_from3_one : forall (A1 A2 A3 B : Type) (f : N -> A1 -> A2 -> A3 -> B) c1 c2 c3 s1 s2 s3 i,
  f3_one f c1 c2 c3 s1 s2 s3 i = if i <? f3_len c1 c2 c3 s1 s2 s3 then F3 f s1 s2 s3 i else None.
Proof. exact (@f3_one_spec). Qed.
Print Assumptions C15_from3_one.
Theorem C15_from3_in_range : forall (A1 A2 A3 B : Type) (f : N -> A1 -> A2 -> A3 -> B) c1 c2 c3 s1 s2 s3 i,
  c1 = true -> c2 = true -> c3 = true -> i < f3_len c1 c2 c3 s1 s2 s3 -> exists v, F3 f s1 s2 s3 i = Some v.
Proof. exact (@F3_defined). Qed.
Print Assumptions C15_from3_in_range.
Theorem C15_from3_sorted : forall (A1 A2 A3 B : Type) (f : N -> A1 -> A2 -> A3 -> B) s1 s2 s3 idx,
  StronglySorted N.le idx -> f3_sorted f s1 s2 s3 idx = ovals (F3 f s1 s2 s3) idx.
Proof. exact (@f3_sorted_spec). Qed.
Print Assumptions C15_from3_sorted.

(* cursor().get over FromN vectors whose sources all govern the length, any index list *)
Theorem C15_from1_cursor : forall (A B : Type) (f : N -> A -> B) s idx,
  cursor_gets (f1_len s) (fun a b => Ok (f1_read_into f s a b)) cursor_new idx = Ok (map (F1 f s) idx).
Proof. exact (@from1_cursor_spec). Qed.
Print Assumptions C15_from1_cursor.
Theorem C15_from2_cursor : forall (A1 A2 B : Type) (f : N -> A1 -> A2 -> B) s1 s2 idx,
  len s1 <= usize_max -> len s2 <= usize_max ->
  cursor_gets (f2_len true true s1 s2) (fun a b => Ok (f2_read_into f true true s1 s2 a b)) cursor_new idx
  = Ok (map (F2 f s1 s2) idx).
Proof. exact (@from2_cursor_spec). Qed.
Print Assumptions C15_from2_cursor.
Theorem C15_from3_cursor : forall (A1 A2 A3 B : Type) (f : N -> A1 -> A2 -> A3 -> B) s1 s2 s3 idx,
  cursor_gets (f3_len true true true s1 s2 s3) (fun a b => Ok (f3_read_into f true true true s1 s2 s3 a b)) cursor_new idx
  = Ok (map (F3 f s1 s2 s3) idx).
Proof. exact (@from3_cursor_spec). Qed.
Print Assumptions C15_from3_cursor.

(* ---- LazyDeltaVec (DeltaSub on u64/i64/u32, DeltaChange on u32), with and without overflow checks ---- *)
Theorem C15_delta_len : forall src starts, d_len src starts = N.min (len src) (len starts).
Proof. exact (fun src starts => eq_refl). Qed.
Print Assumptions C15_delta_len.
Theorem C15_delta_range : forall ovf t op src starts, wf_starts op src starts -> forall from to,
  d_range ovf t op src starts from to
  = map EV (ovals (Dspec t op src starts) (range_idx (N.min (len src) (len starts)) from to)).
Proof. exact delta_range_spec. Qed.
Print Assumptions C15_delta_range.
Theorem C15_delta_range_no_panic : forall ovf t op src starts, wf_starts op src starts -> forall from to,
  run_all (d_range ovf t op src starts from to)
  = Ok (ovals (Dspec t op src starts) (range_idx (N.min (len src) (len starts)) from to)).
Proof. exact delta_range_run. Qed.
Print Assumptions C15_delta_range_no_panic.
Theorem C15_delta_try_fold_early_exit : forall ovf t op src starts, wf_starts op src starts -> forall from to k,
  run_stop k (d_try_fold ovf t op src starts from to)
  = Ok (take k (ovals (Dspec t op src starts) (range_idx (N.min (len src) (len starts)) from to)),
        k <? len (ovals (Dspec t op src starts) (range_idx (N.min (len src) (len starts)) from to))).
Proof. exact delta_range_stop. Qed.
Print Assumptions C15_delta_try_fold_early_exit.
Theorem C15_delta_one : forall ovf t op src starts, wf_starts op src starts -> forall i,
  d_one ovf t op src starts i = Ok (Dspec t op src starts i).
Proof. exact delta_one_spec. Qed.
Print Assumptions C15_delta_one.
(* read_sorted_into_at: any index list; and for EVERY arrangement of the reads (sort_unstable_by_key) *)
Theorem C15_delta_sorted : forall ovf t op src starts, wf_starts op src starts -> forall idx,
  d_sorted ovf t op src starts idx = Ok (ovals (Dspec t op src starts) idx).
Proof. exact delta_sorted_spec. Qed.
Print Assumptions C15_delta_sorted.
Theorem C15_delta_sorted_any_order : forall ovf t op src starts idx reads rs,
  wf_starts op src starts ->
  d_reads op starts (N.min (len src) (len starts)) 0 idx = Some reads -> Permutation reads rs ->
  d_sorted_with ovf t op src starts idx rs = Ok (ovals (Dspec t op src starts) idx).
Proof. exact delta_sorted_any_order. Qed.
Print Assumptions C15_delta_sorted_any_order.
Theorem C15_delta_cursor : forall ovf t op src starts, wf_starts op src starts -> forall idx,
  cursor_gets (d_len src starts) (fun f t' => run_all (d_read_into ovf t op src starts f t')) cursor_new idx
  = Ok (map (Dspec t op src starts) idx).
Proof. exact delta_cursor_spec. Qed.
Print Assumptions C15_delta_cursor.
Theorem C15_delta_in_range : forall t op src starts, wf_starts op src starts -> forall i,
  i < N.min (len src) (len starts) -> exists v, Dspec t op src starts i = Some v.
Proof. exact (fun t op src starts WF => Dspec_in_range false t op src starts WF). Qed.
Print Assumptions C15_delta_in_range.
Theorem C15_delta_out_of_range : forall t op src starts i,
  N.min (len src) (len starts) <= i -> Dspec t op src starts i = None.
Proof. exact Dspec_out_of_range. Qed.
Print Assumptions C15_delta_out_of_range.
(* empty windows, overflow checks on or off *)
Theorem C15_delta_empty_window : forall ovf, run_all (d_range ovf U64 DSub [5%Z] [1] 0 1) = Ok [0%Z].
Proof. exact delta_empty_window. Qed.
Print Assumptions C15_delta_empty_window.
(* the cap on the window start is needed: monotone alone is not enough *)
Theorem C15_delta_start_cap_needed :
  exists src starts,
    mono_starts starts /\ ~ wf_starts DSub src starts /\
    run_all (d_range false U64 DSub src starts 0 1) = Panic /\
    d_one false U64 DSub src starts 0 = Ok (Some 0%Z).
Proof. exact delta_start_cap_needed. Qed.
Print Assumptions C15_delta_start_cap_needed.

(* ---- LazyAggVec<Sparse>: ALL sources and ALL mappings (any length, past the source end, any order) ---- *)
Theorem C15_agg_range : forall src mapping from to,
  a_range src mapping from to = map EV (ovals (Aspec src mapping) (range_idx (a_len mapping) from to)).
Proof. exact agg_range_spec. Qed.
Print Assumptions C15_agg_range.
Theorem C15_agg_range_no_panic : forall src mapping from to,
  run_all (a_range src mapping from to) = Ok (ovals (Aspec src mapping) (range_idx (a_len mapping) from to)).
Proof. exact agg_range_run. Qed.
Print Assumptions C15_agg_range_no_panic.
Theorem C15_agg_try_fold_early_exit : forall src mapping from to k,
  run_stop k (a_try_fold_range src mapping from to)
  = Ok (take k (ovals (Aspec src mapping) (range_idx (a_len mapping) from to)),
        k <? len (ovals (Aspec src mapping) (range_idx (a_len mapping) from to))).
Proof. exact agg_range_stop. Qed.
Print Assumptions C15_agg_try_fold_early_exit.
Theorem C15_agg_one : forall src mapping i, a_one src mapping i = Ok (Aspec src mapping i).
Proof. exact agg_one_spec. Qed.
Print Assumptions C15_agg_one.
Theorem C15_agg_sorted : forall src mapping idx, a_sorted src mapping idx = Ok (ovals (Aspec src mapping) idx).
Proof. exact agg_sorted_spec. Qed.
Print Assumptions C15_agg_sorted.
Theorem C15_agg_cursor : forall src mapping idx,
  cursor_gets (a_len mapping) (fun f t => run_all (a_read_into src mapping f t)) cursor_new idx
  = Ok (map (Aspec src mapping) idx).
Proof. exact agg_cursor_spec. Qed.
Print Assumptions C15_agg_cursor.
Theorem C15_agg_in_range : forall src mapping i, i < a_len mapping -> exists v, Aspec src mapping i = Some v.
Proof. exact Aspec_in_range. Qed.
Print Assumptions C15_agg_in_range.
Theorem C15_agg_out_of_range : forall src mapping i, a_len mapping <= i -> Aspec src mapping i = None.
Proof. exact Aspec_out_of_range. Qed.
Print Assumptions C15_agg_out_of_range.

(* ---- ReadableVec default wrappers: every request is passed to read_into_at unchanged ------------------- *)
Theorem C15_collect_range : forall (T : Type) esz vlen (rd : N -> N -> res unit (list T)) from to,
  vlen * esz <= isize_max -> collect_range_at esz vlen rd from to = rd from to.
Proof. exact (@collect_range_ok). Qed.
Print Assumptions C15_collect_range.
Theorem C15_collect_all : forall (T : Type) esz vlen (rd : N -> N -> res unit (list T)),
  vlen * esz <= isize_max -> collect_all esz vlen rd = rd 0 vlen.
Proof. exact (@collect_all_ok). Qed.
Print Assumptions C15_collect_all.
Theorem C15_collect_signed_range : forall (T : Type) esz vlen (rd : N -> N -> res unit (list T)) from to,
  vlen * esz <= isize_max ->
  exists f t', f <= vlen /\ t' <= vlen /\ collect_signed_range esz vlen rd from to = rd f t'.
Proof. exact (@collect_signed_ok). Qed.
Print Assumptions C15_collect_signed_range.
