(* Props/C08.v — vecdb: all read paths agree for every range and never panic.
   Statements only.  `good c s ys` (RdProofs): the path's event stream s hands exactly ys to the
   caller, neither panics nor decodes bytes outside the valid data, and every byte range it fetches
   ends at or below the region length; `cgood` is the same for the compressed vector.  `expected`
   is the non-deleted part of the logical contents restricted to [from,to) ∩ [0,len) in index order,
   `expected_one` the element of an index or nothing. *)
From Anydb Require Import Common.Base Gen.Consts Gen.Sizes Vec.RdModel Vec.RdCursor Vec.RdComp Vec.RdProofs
  Vec.RdCursorProofs Vec.RdCompProofs Vec.RdRefuted Vec.RdAgree.

(* ---- raw vector: ALL well-formed states (deleted slots, `updated` overlay, stored_len above the
   on-disk length after a rollback), ALL from/to, both scan back-ends *)
Theorem C08_read_into_at : forall c from to, wf c -> good c (read_into_at c from to) (expected c from to).
Proof. exact read_into_at_good. Qed.
Print Assumptions C08_read_into_at.

Theorem C08_fold_range_at : forall c from to, wf c -> good c (fold_range_at c from to) (expected c from to).
Proof. exact fold_range_at_good. Qed.
Print Assumptions C08_fold_range_at.

Theorem C08_try_fold_range_at : forall c from to, wf c -> good c (try_fold_range_at c from to) (expected c from to).
Proof. exact try_fold_range_at_good. Qed.
Print Assumptions C08_try_fold_range_at.

(* the value a try_fold returns for the closure "accept k elements, then fail", for any good path *)
Theorem C08_try_fold_early_exit : forall (P : acc -> Prop) k s ys, goodP P s ys ->
  fst (try_run k s) = if k <? len ys then TEarly (take k ys) else TOk ys.
Proof. exact try_run_good. Qed.
Print Assumptions C08_try_fold_early_exit.

Theorem C08_fold_dirty : forall c f t, wf c -> f <= t -> t <= rlen c ->
  good c (fold_dirty c f t) (flat_map (V c) (seqN f (N.to_nat (t - f)))).
Proof. exact fold_dirty_good. Qed.
Print Assumptions C08_fold_dirty.

Theorem C08_collect_one_at : forall c i, wf c -> good c (collect_one_at c i) (opt_list (expected_one c i)).
Proof. exact collect_one_good. Qed.
Print Assumptions C08_collect_one_at.

Theorem C08_get_any : forall c i, wf c -> good c (get_any c i) (V c i).
Proof. exact get_any_good. Qed.
Print Assumptions C08_get_any.

Theorem C08_collect_holed_range : forall c from to, wf c ->
  Forall2 (fun s k => good c s (V c k)) (holed_range c from to)
          (seqN (N.min from (rlen c)) (N.to_nat (N.min to (rlen c) - N.min from (rlen c)))).
Proof. exact holed_range_good. Qed.
Print Assumptions C08_collect_holed_range.

(* read_at / read_at_once (repaired in 0cb3a2b): documented to ignore holes and updates *)
Theorem C08_read_at_once : forall c i, wf c -> dirty c = false ->
  good c (read_at_once c i) (opt_list (expected_one c i)).
Proof. exact read_at_once_good. Qed.
Print Assumptions C08_read_at_once.

Theorem C08_read_ref_at : forall c i, wf c ->
  good c (read_ref_at c i)
    (if is_hole c i then [] else if r_stored c <=? i then [] else
       match upd_get c i with Some _ => [] | None => V c i end).
Proof. exact read_ref_at_good. Qed.
Print Assumptions C08_read_ref_at.

(* both scan back-ends over stored data (RawMmapSource, RawIoSource with its refill arithmetic) *)
Theorem C08_fold_source : forall c f t, wf c -> f <= t -> t <= r_stored c -> not_expanded c ->
  good c (fold_source c (r_stored c) f t) (flat_map (D c) (seqN f (N.to_nat (t - f)))).
Proof. exact fold_source_good. Qed.
Print Assumptions C08_fold_source.

(* ---- stored-only paths (documented to ignore the overlays): states without a pending rollback
   overlay; the unrestricted statements are refuted (C20_clone_after_rollback_refuted) *)
Theorem C08_fold_stored_partial : forall io c from to, wf c -> not_expanded c ->
  good c ((if io : bool then fold_stored_io else fold_stored_mmap) c from to)
    (flat_map (D c) (seqN (N.min from (r_stored c)) (N.to_nat (N.min to (r_stored c) - N.min from (r_stored c))))).
Proof. exact fold_stored_good. Qed.
Print Assumptions C08_fold_stored_partial.

Theorem C08_clone_read_into_partial : forall c from to, wf c -> not_expanded c ->
  good c (ro_read_into c from to)
    (flat_map (D c) (seqN (N.min from (r_stored c)) (N.to_nat (N.min to (r_stored c) - N.min from (r_stored c))))).
Proof. exact ro_read_into_good. Qed.
Print Assumptions C08_clone_read_into_partial.

Theorem C08_clone_fold_range_partial : forall c from to, wf c -> not_expanded c ->
  good c (ro_fold_range c from to)
    (flat_map (D c) (seqN (N.min from (r_stored c)) (N.to_nat (N.min to (r_stored c) - N.min from (r_stored c))))).
Proof. exact ro_fold_range_good. Qed.
Print Assumptions C08_clone_fold_range_partial.

(* ---- cursor, sorted reads, CachedVec: well-formed states WITHOUT deleted slots (with a deleted slot
   the statements are refuted below); all index lists, sorted or not *)
Theorem C08_read_sorted : forall c, wf c -> hole_free c -> forall idx,
  exists a, read_sorted (raw_rvec c) idx = (ROk (flat_map (fun i => opt_list (expected_one c i)) idx), a)
            /\ Forall (in_region c) a.
Proof. exact raw_read_sorted. Qed.
Print Assumptions C08_read_sorted.

Theorem C08_cursor_get : forall c, wf c -> hole_free c -> forall cu i, Inv (raw_rvec c) (view c) cu ->
  exists cu' a, cursor_get (raw_rvec c) cu i = (COpt (expected_one c i), cu', a)
    /\ Inv (raw_rvec c) (view c) cu' /\ cu_pos cu' = cu_pos cu /\ Forall (in_region c) a.
Proof. exact raw_cursor_get. Qed.
Print Assumptions C08_cursor_get.

Theorem C08_cursor_next : forall c, wf c -> hole_free c -> forall cu, Inv (raw_rvec c) (view c) cu ->
  exists cu' a, cursor_next (raw_rvec c) cu = (COpt (expected_one c (cu_pos cu)), cu', a)
    /\ Inv (raw_rvec c) (view c) cu'
    /\ cu_pos cu' = (if cu_pos cu <? rlen c then cu_pos cu + 1 else cu_pos cu) /\ Forall (in_region c) a.
Proof. exact raw_cursor_next. Qed.
Print Assumptions C08_cursor_next.

Theorem C08_cursor_fold : forall c, wf c -> hole_free c -> forall k, rlen c <= u64_max ->
  exists cu' a, cursor_fold (raw_rvec c) cursor_new k = (CList (expected c 0 k), cu', a)
    /\ cu_pos cu' = N.min k (rlen c) /\ Forall (in_region c) a.
Proof. exact raw_cursor_fold. Qed.
Print Assumptions C08_cursor_fold.

Theorem C08_cached_fresh : forall c, wf c -> hole_free c -> forall from to,
  exists d a, materialize (raw_rvec c) None = (ROk d, Some (rlen c, d), a) /\ Forall (in_region c) a
    /\ cached_fold d from to = expected c from to /\ cached_read_into d from to = expected c from to
    /\ (forall i, cached_one d i = expected_one c i).
Proof. exact raw_cached_fresh. Qed.
Print Assumptions C08_cached_fresh.

(* ---- compressed vector, under the codec hypothesis (a page decodes to the values compressed into it:
   pg_vals), all well-formed states, all from/to *)
Theorem C08_comp_read_into_at : forall c, cwf c -> forall from to, cgood c (cread_into_at c from to) (cexpected c from to).
Proof. exact cread_into_at_good. Qed.
Print Assumptions C08_comp_read_into_at.

Theorem C08_comp_read_stored_pages_into : forall c, cwf c -> forall f t, f < t -> t <= c_stored c ->
  cgood c (read_stored_pages_into c f t) (flat_map (G c) (seqN f (N.to_nat (t - f)))).
Proof. exact read_stored_pages_into_good. Qed.
Print Assumptions C08_comp_read_stored_pages_into.

(* fold / try_fold through CompressedMmapSource or CompressedIoSource (strict = the try_fold variant);
   io_sized: every page is non-empty on disk and fits the 512 KiB IO buffer *)
Theorem C08_comp_fold_range_at : forall c, cwf c -> forall strict from to, io_sized c ->
  cgood c (cfold_range_at strict c from to) (cexpected c from to).
Proof. exact cfold_range_at_good. Qed.
Print Assumptions C08_comp_fold_range_at.

Theorem C08_comp_mmap_source : forall c, cwf c -> forall strict f t, f <= t -> t <= c_stored c ->
  cgood c (cmmap_src strict c (c_stored c) f t) (flat_map (G c) (seqN f (N.to_nat (t - f)))).
Proof. exact cmmap_src_good. Qed.
Print Assumptions C08_comp_mmap_source.

Theorem C08_comp_io_source : forall c, cwf c -> forall strict f t, io_sized c -> f <= t -> t <= c_stored c ->
  cgood c (cio_src strict c (c_stored c) f t) (flat_map (G c) (seqN f (N.to_nat (t - f)))).
Proof. exact cio_src_good. Qed.
Print Assumptions C08_comp_io_source.

Theorem C08_comp_collect_one_at : forall c, cwf c -> forall i, io_sized c ->
  cgood c (ccollect_one_at c i) (if i <? clen c then G c i else []).
Proof. exact ccollect_one_at_good. Qed.
Print Assumptions C08_comp_collect_one_at.

Theorem C08_comp_clone_read_into : forall c, cwf c -> forall from to,
  cgood c (cro_read_into c from to)
    (flat_map (G c) (seqN (N.min from (c_stored c)) (N.to_nat (N.min to (c_stored c) - N.min from (c_stored c))))).
Proof. exact cro_read_into_good. Qed.
Print Assumptions C08_comp_clone_read_into.

Theorem C08_comp_read_sorted : forall c, cwf c -> forall idx,
  exists a, read_sorted (comp_rvec c) idx = (ROk (flat_map (fun i => opt_list (cview c i)) idx), a)
            /\ Forall (in_cregion c) a.
Proof. exact comp_read_sorted. Qed.
Print Assumptions C08_comp_read_sorted.

Theorem C08_comp_cursor_fold : forall c, cwf c -> forall k, clen c <= u64_max ->
  exists cu' a, cursor_fold (comp_rvec c) cursor_new k = (CList (cexpected c 0 k), cu', a)
    /\ cu_pos cu' = N.min k (clen c) /\ Forall (in_cregion c) a.
Proof. exact comp_cursor_fold. Qed.
Print Assumptions C08_comp_cursor_fold.

(* ---- the conjunction of what is proved *)
Theorem C08_agree : forall c, wf c -> agree_raw c.
Proof. exact agree_raw_proved. Qed.
Print Assumptions C08_agree.

Theorem C08_agree_compressed : forall c, cwf c -> io_sized c -> agree_comp c.
Proof. exact agree_comp_proved. Qed.
Print Assumptions C08_agree_compressed.

(* ---- full statements that stay open or are refuted *)
(* refuted for states with a deleted slot (witnesses below); proved for hole-free states above *)
Definition C08_read_sorted_full : Prop :=
  forall c idx, wf c -> fst (read_sorted (raw_rvec c) idx) = ROk (flat_map (fun i => opt_list (expected_one c i)) idx).
Definition C08_cursor_fold_full : Prop :=
  forall c n, wf c -> fst (fst (cursor_fold (raw_rvec c) cursor_new n)) = CList (expected c 0 n).
(* refuted: the cache key is (len, version) *)
Definition C08_cached_full : Prop :=
  forall c0 c from to, wf c0 -> wf c -> rlen c0 = rlen c ->
  forall k, snd (fst (materialize (raw_rvec c0) None)) = k ->
  exists d, fst (fst (materialize (raw_rvec c) k)) = ROk d /\ cached_fold d from to = expected c from to.
(* open: arbitrary scripts of cursor operations.  Proved: each operation's specification together with
   the preservation of the cursor invariant Inv (C08_cursor_get / _next, cursor_fold_spec, advance_inv);
   missing: the induction over the operation list that strings them together. *)
Definition C08_cursor_script_full : Prop :=
  forall c ops, wf c -> hole_free c -> rlen c <= u64_max ->
  forall o, In o (fst (cursor_script (raw_rvec c) cursor_new ops)) -> o <> CPanic /\ o <> CHang /\ o <> CGarbage.

Theorem C08_read_sorted_refuted : wf w_holed /\ fst (read_sorted (raw_rvec w_holed) [3]) = RPanic.
Proof. exact read_sorted_refuted_panic. Qed.
Print Assumptions C08_read_sorted_refuted.

Theorem C08_read_sorted_wrong_value_refuted :
  wf w_holed /\ fst (read_sorted (raw_rvec w_holed) [2]) = ROk [13] /\ expected_one w_holed 2 = Some 12.
Proof. exact read_sorted_refuted_wrong. Qed.
Print Assumptions C08_read_sorted_wrong_value_refuted.

Theorem C08_cursor_fold_refuted : wf w_holed /\ fst (fst (cursor_fold (raw_rvec w_holed) cursor_new 4)) = CHang.
Proof. exact cursor_fold_refuted_hang. Qed.
Print Assumptions C08_cursor_fold_refuted.

Theorem C08_cached_stale_refuted :
  exists k, snd (fst (materialize (raw_rvec w_before) None)) = k
  /\ fst (fst (materialize (raw_rvec w_after) k)) = ROk [10; 11; 12]
  /\ expected w_after 0 3 = [10; 21; 12].
Proof. exact cached_refuted_stale. Qed.
Print Assumptions C08_cached_stale_refuted.

Theorem C08_cached_shift_refuted :
  fst (fst (materialize (raw_rvec w_holed) None)) = ROk [10; 12; 13]
  /\ cached_one [10; 12; 13] 1 = Some 12 /\ expected_one w_holed 1 = None.
Proof. exact cached_refuted_shift. Qed.
Print Assumptions C08_cached_shift_refuted.

Theorem C08_clone_ignores_deleted_refuted :
  wf w_holed /\ fst (run (ro_collect_one w_holed 1)) = ROk [11] /\ expected_one w_holed 1 = None.
Proof. exact clone_ignores_holes_refuted. Qed.
Print Assumptions C08_clone_ignores_deleted_refuted.
