(* Props/C08.v — vecdb: all read paths agree for every range and never panic.
   Statements only.  `clean s = true` says the path neither panics nor decodes an element from
   bytes outside the valid data; `yields s` are the elements it hands to the caller. *)
From Anydb Require Import Common.Base Gen.Consts Gen.Sizes Vec.RdModel Vec.RdCursor Vec.RdComp Vec.RdProofs.

(* ---- full statements (for ALL well-formed states, ALL from/to, ALL sorted index lists) *)
Definition C08_read_into_at_full : Prop :=
  forall c from to, wf c -> yields (read_into_at c from to) = expected c from to /\ clean (read_into_at c from to) = true.
Definition C08_fold_range_at_full : Prop :=
  forall c from to, wf c -> yields (fold_range_at c from to) = expected c from to /\ clean (fold_range_at c from to) = true.
Definition C08_try_fold_range_at_full : Prop :=
  forall c from to, wf c -> yields (try_fold_range_at c from to) = expected c from to /\ clean (try_fold_range_at c from to) = true.
Definition C08_read_sorted_full : Prop :=
  forall c idx, wf c -> fst (read_sorted (raw_rvec c) idx) = ROk (flat_map (fun i => opt_list (expected_one c i)) idx).
Definition C08_cursor_fold_full : Prop :=
  forall c n, wf c -> fst (fst (cursor_fold (raw_rvec c) cursor_new n)) = CList (expected c 0 n).
Definition C08_cached_full : Prop :=
  forall c0 c from to, wf c0 -> wf c -> rlen c0 = rlen c ->
  forall k, snd (fst (materialize (raw_rvec c0) None)) = k ->
  exists d, fst (fst (materialize (raw_rvec c) k)) = ROk d /\ cached_fold d from to = expected c from to.
Definition C08_compressed_read_into_full : Prop :=
  forall c from to, cwf_b c = true -> yields (cread_into_at c from to) = cexpected c from to /\ clean (cread_into_at c from to) = true.
Definition C08_agree_full : Prop :=
  C08_read_into_at_full /\ C08_fold_range_at_full /\ C08_try_fold_range_at_full /\ C08_read_sorted_full
  /\ C08_cursor_fold_full /\ C08_cached_full /\ C08_compressed_read_into_full.

(* ---- proved for all well-formed states and all indices: the index-addressed raw paths *)
Theorem C08_get_any :
  forall c i, wf c ->
  yields (get_any c i) = opt_list (view c i) /\ clean (get_any c i) = true /\ accesses_ok c (get_any c i).
Proof. exact get_any_correct. Qed.
Print Assumptions C08_get_any.

Theorem C08_collect_one_at :
  forall c i, wf c ->
  yields (collect_one_at c i) = opt_list (expected_one c i)
  /\ clean (collect_one_at c i) = true /\ accesses_ok c (collect_one_at c i).
Proof. exact collect_one_correct. Qed.
Print Assumptions C08_collect_one_at.

(* the stored-only pointer scan: all from/to, states whose stored indices are all on disk.
   Missing for the full range statements: fold_dirty, the IO source, the pushed tail. *)
Theorem C08_fold_stored_mmap_partial :
  forall c from to, not_expanded c ->
  yields (fold_stored_mmap c from to) = slice (N.min from (r_stored c)) (N.min to (r_stored c)) (r_disk c)
  /\ clean (fold_stored_mmap c from to) = true
  /\ accesses_ok c (fold_stored_mmap c from to).
Proof. exact fold_stored_mmap_ok. Qed.
Print Assumptions C08_fold_stored_mmap_partial.

(* ---- refuted by the faithful model (each witness is also a replay in corpus/C08) *)
Theorem C08_read_sorted_refuted : wf w_holed /\ fst (read_sorted (raw_rvec w_holed) [3]) = RPanic.
Proof. exact read_sorted_refuted_panic. Qed.
Print Assumptions C08_read_sorted_refuted.

Theorem C08_read_sorted_wrong_value_refuted :
  wf w_holed /\ fst (read_sorted (raw_rvec w_holed) [2]) = ROk [13] /\ expected_one w_holed 2 = Some 12.
Proof. exact read_sorted_refuted_wrong. Qed.
Print Assumptions C08_read_sorted_wrong_value_refuted.

Theorem C08_cursor_fold_refuted : wf w_holed /\ fst (fst (cursor_fold (raw_rvec w_holed) cursor_new 4)) = CHang.
Proof. exact cursor_fold_refuted_hang. Qed.
Print Assumptions C08_cursor_fold_refuted.

Theorem C08_fold_dirty_refuted :
  wf w_past /\ fst (run (read_into_at w_past 4 6)) = RPanic /\ expected w_past 4 6 = [14; 15].
Proof. exact fold_dirty_refuted_panic. Qed.
Print Assumptions C08_fold_dirty_refuted.

Theorem C08_cached_stale_refuted :
  exists k, snd (fst (materialize (raw_rvec w_before) None)) = k
  /\ fst (fst (materialize (raw_rvec w_after) k)) = ROk [10; 11; 12]
  /\ expected w_after 0 3 = [10; 21; 12].
Proof. exact cached_refuted_stale. Qed.
Print Assumptions C08_cached_stale_refuted.

Theorem C08_cached_shift_refuted :
  fst (fst (materialize (raw_rvec w_holed) None)) = ROk [10; 12; 13]
  /\ cached_one [10; 12; 13] 1 = Some 12 /\ expected_one w_holed 1 = None.
Proof. exact cached_refuted_shift. Qed.
Print Assumptions C08_cached_shift_refuted.
