(* Props/C01link.v — the LAYER LINK of DESIGN.md 2.4: the vector models (Vec/RegionSpec.v for the
   raw vector, Vec/CvRegion.v for the compressed vector) are written against an abstract rawdb
   region = a named byte vector; here it is a theorem about the ALLOCATOR model that every region
   behaves exactly like that, through any history.  Statements only. *)
From Anydb Require Import Common.Base Gen.Consts Rawdb.AMap Rawdb.Alloc Rawdb.AllocSpec Rawdb.AllocInv Rawdb.AllocFacts.
From Anydb Require Import Rawdb.AllocNoPanic Rawdb.AllocRefineAll Rawdb.InvStep Rawdb.RegionLinkSpec Rawdb.RegionLink.
From Anydb Require Vec.RegionSpec Vec.CvRegion.

(* region_bytes s id is what read_all() of region id returns: the first r_len bytes of its extent *)
Theorem C01link_region_bytes : forall s id i m,
  Inv s -> slot s i = Some m -> r_id m = id ->
  region_bytes s id = Some (map (fun k => mem s (r_start m + k)) (seqN 0 (N.to_nat (r_len m)))).
Proof. exact region_bytes_concrete. Qed.
Print Assumptions C01link_region_bytes.

(* write_at: same result, same error rule (at > len -> WriteOutOfBounds, nothing changes) *)
Theorem C01link_write_at : forall s id f n a b,
  Inv s -> op_fits_strong s (WriteAt id f n a) -> region_bytes s id = Some b ->
  match RegionSpec.r_write_at b (data_of f n) a with
  | Ok b' => region_bytes (fst (step_total s (WriteAt id f n a))) id = Some b'
             /\ is_ok (snd (step_total s (WriteAt id f n a))) = true
  | Err e => e = RegionSpec.WriteOutOfBounds
             /\ region_bytes (fst (step_total s (WriteAt id f n a))) id = Some b
             /\ snd (step_total s (WriteAt id f n a)) = Err Alloc.WriteOutOfBounds
  | Panic => False
  end.
Proof. exact link_write_at. Qed.
Print Assumptions C01link_write_at.

Theorem C01link_truncate_write : forall s id f n a b,
  Inv s -> op_fits_strong s (TruncWrite id f n a) -> region_bytes s id = Some b ->
  match RegionSpec.r_truncate_write b a (data_of f n) with
  | Ok b' => region_bytes (fst (step_total s (TruncWrite id f n a))) id = Some b'
             /\ is_ok (snd (step_total s (TruncWrite id f n a))) = true
  | Err e => e = RegionSpec.WriteOutOfBounds
             /\ region_bytes (fst (step_total s (TruncWrite id f n a))) id = Some b
             /\ snd (step_total s (TruncWrite id f n a)) = Err Alloc.WriteOutOfBounds
  | Panic => False
  end.
Proof. exact link_truncate_write. Qed.
Print Assumptions C01link_truncate_write.

(* append = write_at at the current length, never refused *)
Theorem C01link_append : forall s id f n b,
  Inv s -> op_fits_strong s (Write id f n) -> region_bytes s id = Some b ->
  exists b', RegionSpec.r_write_at b (data_of f n) (len b) = Ok b'
             /\ region_bytes (fst (step_total s (Write id f n))) id = Some b'
             /\ is_ok (snd (step_total s (Write id f n))) = true.
Proof. exact link_append. Qed.
Print Assumptions C01link_append.

Theorem C01link_truncate : forall s id from b,
  Inv s -> op_fits_strong s (Truncate id from) -> region_bytes s id = Some b ->
  match RegionSpec.r_truncate b from with
  | Ok b' => region_bytes (fst (step_total s (Truncate id from))) id = Some b'
             /\ is_ok (snd (step_total s (Truncate id from))) = true
  | Err e => e = RegionSpec.TruncateInvalid
             /\ region_bytes (fst (step_total s (Truncate id from))) id = Some b
             /\ snd (step_total s (Truncate id from)) = Err Alloc.TruncateInvalid
  | Panic => False
  end.
Proof. exact link_truncate. Qed.
Print Assumptions C01link_truncate.

Theorem C01link_create : forall s id hold,
  Inv s -> op_fits_strong s (Create id hold) ->
  region_bytes (fst (step_total s (Create id hold))) id
    = Some (match region_bytes s id with Some b => b | None => [] end)
  /\ is_ok (snd (step_total s (Create id hold))) = true.
Proof. exact link_create. Qed.
Print Assumptions C01link_create.

Theorem C01link_remove : forall s id b,
  Inv s -> op_fits_strong s (Remove id) -> region_bytes s id = Some b ->
  (region_bytes (fst (step_total s (Remove id))) id = None /\ is_ok (snd (step_total s (Remove id))) = true)
  \/ (region_bytes (fst (step_total s (Remove id))) id = Some b
      /\ snd (step_total s (Remove id)) = Err RegionStillReferenced).
Proof. exact link_remove. Qed.
Print Assumptions C01link_remove.

(* a request on an absent name: RegionNotFound, nothing changes *)
Theorem C01link_absent : forall s o id,
  Inv s -> op_fits_strong s o -> region_bytes s id = None ->
  (exists f n, o = Write id f n) \/ (exists f n a, o = WriteAt id f n a) \/ (exists f n a, o = TruncWrite id f n a)
  \/ (exists from, o = Truncate id from) \/ o = Remove id ->
  region_bytes (fst (step_total s o)) id = None /\ snd (step_total s o) = Err Alloc.RegionNotFound.
Proof. exact link_absent. Qed.
Print Assumptions C01link_absent.

(* every region the operation is not addressed at keeps its bytes *)
Theorem C01link_frame : forall s o ids id',
  Inv s -> op_fits_strong s o -> op_ids o = Some ids -> ~ In id' ids ->
  region_bytes (fst (step_total s o)) id' = region_bytes s id'.
Proof. exact link_frame. Qed.
Print Assumptions C01link_frame.

Theorem C01link_reopen : forall s id b,
  Inv s -> region_bytes s id = Some b ->
  region_bytes (fst (step_total s Reopen)) id = Some b \/ region_bytes (fst (step_total s Reopen)) id = None.
Proof. exact link_reopen. Qed.
Print Assumptions C01link_reopen.

(* THE LINK: through any history whose operations do not remove / rename / drop the name, the
   region evolves as the independent RegionSpec byte vector receiving the operations addressed
   to it (reg_apply), whatever happens to other regions and wherever the allocator places,
   grows or relocates extents *)
Theorem C01link_run : forall id ops s b,
  Inv s -> ops_ok s ops -> Forall (keeps id) ops -> region_bytes s id = Some b ->
  region_bytes (run s ops) id = Some (fold_left (fun b o => reg_apply id o b) ops b).
Proof. exact link_run. Qed.
Print Assumptions C01link_run.

(* the compressed-vector copy of the interface (Vec/CvRegion.v) is the same interface: at
   element type N its operations are RegionSpec's, except that it reports the assert of
   set_reserved (new length > MAX_RESERVED_SIZE) as Panic — excluded here by op_fits_strong;
   and it is parametric in the element type (commutes with map, e.g. map cell_byte) *)
Theorem C01link_cv_write_at_equiv : forall (r bs : list N) a,
  (CvRegion.r_write_at r bs a = Panic /\ len r >= a /\ MAX_RESERVED_SIZE < N.max (a + len bs) (len r))
  \/ cv_res (CvRegion.r_write_at r bs a) = RegionSpec.r_write_at r bs a.
Proof. exact cv_write_at_equiv. Qed.
Print Assumptions C01link_cv_write_at_equiv.

Theorem C01link_cv_truncate_equiv : forall (r : list N) n,
  cv_res (CvRegion.r_truncate r n) = RegionSpec.r_truncate r n.
Proof. exact cv_truncate_equiv. Qed.
Print Assumptions C01link_cv_truncate_equiv.

Theorem C01link_cv_truncate_write_equiv : forall (r bs : list N) a,
  (CvRegion.r_truncate_write r a bs = Panic /\ len r >= a /\ MAX_RESERVED_SIZE < a + len bs)
  \/ cv_res (CvRegion.r_truncate_write r a bs) = RegionSpec.r_truncate_write r a bs.
Proof. exact cv_truncate_write_equiv. Qed.
Print Assumptions C01link_cv_truncate_write_equiv.

Theorem C01link_cv_write_at : forall s id f n a b,
  Inv s -> op_fits_strong s (WriteAt id f n a) -> region_bytes s id = Some b ->
  match CvRegion.r_write_at b (data_of f n) a with
  | Ok b' => region_bytes (fst (step_total s (WriteAt id f n a))) id = Some b'
             /\ is_ok (snd (step_total s (WriteAt id f n a))) = true
  | Err e => e = CvRegion.WriteOutOfBounds
             /\ region_bytes (fst (step_total s (WriteAt id f n a))) id = Some b
             /\ snd (step_total s (WriteAt id f n a)) = Err Alloc.WriteOutOfBounds
  | Panic => False
  end.
Proof. exact link_write_at_cv. Qed.
Print Assumptions C01link_cv_write_at.

Theorem C01link_cv_truncate_write : forall s id f n a b,
  Inv s -> op_fits_strong s (TruncWrite id f n a) -> region_bytes s id = Some b ->
  match CvRegion.r_truncate_write b a (data_of f n) with
  | Ok b' => region_bytes (fst (step_total s (TruncWrite id f n a))) id = Some b'
             /\ is_ok (snd (step_total s (TruncWrite id f n a))) = true
  | Err e => e = CvRegion.WriteOutOfBounds
             /\ region_bytes (fst (step_total s (TruncWrite id f n a))) id = Some b
             /\ snd (step_total s (TruncWrite id f n a)) = Err Alloc.WriteOutOfBounds
  | Panic => False
  end.
Proof. exact link_truncate_write_cv. Qed.
Print Assumptions C01link_cv_truncate_write.

Theorem C01link_cv_truncate : forall s id from b,
  Inv s -> op_fits_strong s (Truncate id from) -> region_bytes s id = Some b ->
  match CvRegion.r_truncate b from with
  | Ok b' => region_bytes (fst (step_total s (Truncate id from))) id = Some b'
             /\ is_ok (snd (step_total s (Truncate id from))) = true
  | Err e => e = CvRegion.TruncateInvalid
             /\ region_bytes (fst (step_total s (Truncate id from))) id = Some b
             /\ snd (step_total s (Truncate id from)) = Err Alloc.TruncateInvalid
  | Panic => False
  end.
Proof. exact link_truncate_cv. Qed.
Print Assumptions C01link_cv_truncate.

Theorem C01link_cv_parametric : forall (A B : Type) (g : A -> B) (r bs : list A) a n,
  map_res g (CvRegion.r_write_at r bs a) = CvRegion.r_write_at (map g r) (map g bs) a
  /\ map_res g (CvRegion.r_truncate r n) = CvRegion.r_truncate (map g r) n
  /\ map_res g (CvRegion.r_truncate_write r a bs) = CvRegion.r_truncate_write (map g r) a (map g bs).
Proof. exact cv_parametric. Qed.
Print Assumptions C01link_cv_parametric.

(* satisfiable: a history of two regions with appends, an overwrite, a flush and a truncate *)
Theorem C01link_example :
  let ops := [Create 1 false; Write 1 (gen_byte 1) 5000; Create 2 false; Write 2 (gen_byte 2) 9000;
              WriteAt 1 (gen_byte 3) 100 4990; Flush; Truncate 1 3000] in
  ops_ok (init 0) ops /\ Forall (keeps 1) (tl ops) /\
  region_bytes (fst (step_total (init 0) (Create 1 false))) 1 = Some [].
Proof. exact link_example. Qed.
Print Assumptions C01link_example.
