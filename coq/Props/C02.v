(* Props/C02.v — rawdb: region extents never overlap; free space is fully accounted and reused.
   Statements only. *)
From Anydb Require Import Common.Base Gen.Consts Rawdb.AMap Rawdb.Alloc Rawdb.AllocSpec Rawdb.AllocInv Rawdb.AllocFacts.

(* FULL statement: the extent invariant holds in every state of every history *)
Definition C02_reachable_full : Prop :=
  forall min_len ops, Forall (fun o => forall s, op_fits s o) ops -> Inv (run (init min_len) ops).

Theorem C02_inv_init : forall min_len, Inv (init min_len).
Proof. exact inv_init. Qed.
Print Assumptions C02_inv_init.

From Anydb Require Import Rawdb.InvCreate Rawdb.InvStep Rawdb.InvFinal.

(* every operation preserves the extent invariant (a panicking call leaves the state alone) *)
Theorem C02_inv_step : forall s o, Inv s -> op_fits s o -> op_defined s o -> Inv (fst (step_total s o)).
Proof. exact c02_inv_step. Qed.
Print Assumptions C02_inv_step.

(* stronger: no side condition at all (op_fits / op_defined are not needed for preservation) *)
Theorem C02_inv_step_strong : forall s o, Inv s -> Inv (fst (step_total s o)).
Proof. exact inv_step. Qed.
Print Assumptions C02_inv_step_strong.

Theorem C02_reachable : C02_reachable_full.
Proof. exact c02_reachable_full. Qed.
Print Assumptions C02_reachable.

Theorem C02_reachable_strong : forall min_len ops, Inv (run (init min_len) ops).
Proof. exact inv_reachable. Qed.
Print Assumptions C02_reachable_strong.

(* the property text, explicit: distinct live regions have disjoint extents ... *)
Theorem C02_regions_disjoint : forall s i j mi mj,
  Inv s -> i <> j -> slot s i = Some mi -> slot s j = Some mj ->
  r_start mi + r_reserved mi <= r_start mj \/ r_start mj + r_reserved mj <= r_start mi.
Proof. exact inv_regions_disjoint. Qed.
Print Assumptions C02_regions_disjoint.

(* ... each page-aligned, non-empty, holding its data, inside the file ... *)
Theorem C02_region_shape : forall s i m,
  Inv s -> slot s i = Some m ->
  r_start m mod PAGE_SIZE = 0 /\ r_reserved m mod PAGE_SIZE = 0 /\ 0 < r_reserved m /\
  r_len m <= r_reserved m /\ r_start m + r_reserved m <= file_len s.
Proof. exact inv_region_shape. Qed.
Print Assumptions C02_region_shape.

(* ... and every address below layout_len is owned by exactly one extent (live region, hole,
   pending hole or reservation), none at or above it: free space is fully accounted *)
Theorem C02_exact_cover : forall s a,
  Inv s -> owners (extents s) a = if a <? layout_len s then 1%nat else 0%nat.
Proof. exact inv_exact_cover. Qed.
Print Assumptions C02_exact_cover.

(* reuse: a placement (creation or relocation) that happens while a hole of at least the new
   reserve exists does not grow the allocated area *)
Theorem C02_reuse : forall s o s' r i m',
  Inv s -> step s o = AOk (s', r) -> placed s s' i -> slot s' i = Some m' -> has_hole_for s (r_reserved m') ->
  layout_len s' = layout_len s.
Proof. exact step_reuse. Qed.
Print Assumptions C02_reuse.

(* the hypotheses are satisfiable: a reachable state with two live regions (one relocated), a
   two-page hole, after flush/compact/reopen; and an instance of the reuse clause *)
Theorem C02_example_state : Inv ex_state.
Proof. exact ex_state_inv. Qed.
Print Assumptions C02_example_state.

Theorem C02_example_reuse :
  has_hole_for ex_state PAGE_SIZE /\
  placed ex_state (fst (step_total ex_state (Create 9 false))) 2 /\
  layout_len (fst (step_total ex_state (Create 9 false))) = layout_len ex_state.
Proof. exact ex_reuse. Qed.
Print Assumptions C02_example_reuse.

From Anydb Require Import Rawdb.InvBool Rawdb.InvBool2.

(* the executable checker (extractable; never calls N.to_nat on state data) decides the invariant:
   evaluated on an allocator state reconstructed from the implementation, `true` certifies Inv
   and `false` is a proven violation *)
Theorem C02_inv_b_sound : forall s, inv_b s = true -> Inv s.
Proof. exact inv_b_sound. Qed.
Print Assumptions C02_inv_b_sound.

Theorem C02_inv_b_spec : forall s, inv_b s = true <-> Inv s.
Proof. exact inv_b_iff. Qed.
Print Assumptions C02_inv_b_spec.

Theorem C02_inv_b_reachable : forall min_len ops, inv_b (run (init min_len) ops) = true.
Proof. exact inv_b_reachable. Qed.
Print Assumptions C02_inv_b_reachable.
