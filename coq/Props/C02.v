(* Props/C02.v — rawdb: region extents never overlap; free space is fully accounted and reused.
   Statements only. *)
From Anydb Require Import Common.Base Gen.Consts Rawdb.AMap Rawdb.Alloc Rawdb.AllocSpec Rawdb.AllocInv Rawdb.AllocFacts.

(* FULL statement: the extent invariant holds in every state of every history *)
Definition C02_reachable_full : Prop :=
  forall min_len ops, Forall (fun o => forall s, op_fits s o) ops -> Inv (run (init min_len) ops).

Theorem C02_inv_init : forall min_len, Inv (init min_len).
Proof. exact inv_init. Qed.
Print Assumptions C02_inv_init.
