(* Props/C12race.v — C12, concurrent part: compact() / punch_holes racing with a writer that
   extends a region into its reserve.  Statements only (model: Conc/SrSteps.v).
   Level: proof on the step model; partial: hardware/compiler reorderings within a step and the
   kernel's mmap coherence are assumed. *)
From Anydb Require Import Common.Base Gen.Consts Rawdb.AMap Rawdb.Alloc Rawdb.AllocInv Conc.SrSteps Conc.SrScen Conc.SrProofs.

(* FULL statement: an append that fits the reserve, racing with compact(), reads back intact *)
Definition C12_race_full : Prop := race_stmt.

(* REFUTED: punch_holes takes the meta write lock, reads the OLD length and punches
   [ceil_page(len), reserved) after write_with has copied its data there and before it takes the
   meta write lock to publish the new length *)
Theorem C12_race_refuted : ~ C12_race_full.
Proof. exact race_refuted. Qed.
Print Assumptions C12_race_refuted.

(* what holds in every state: the punch of a region's tail changes no byte below
   ceil_page(length published at the time of the punch) and none at or above the reserve's end *)
Theorem C12_race_punch_safe :
  forall s i m a,
    slot s i = Some m ->
    a < r_start m + ceil_page (r_len m) \/ r_start m + r_reserved m <= a ->
    mem (fst (punch_region s i)) a = mem s a.
Proof. exact punch_region_safe. Qed.
Print Assumptions C12_race_punch_safe.

(* hence no byte below the PUBLISHED length is ever zeroed by a punch *)
Theorem C12_race_published_partial :
  forall s i m k,
    slot s i = Some m -> k < r_len m -> mem (fst (punch_region s i)) (r_start m + k) = mem s (r_start m + k).
Proof. exact punch_keeps_published. Qed.
Print Assumptions C12_race_published_partial.

(* the race window: copied-but-unpublished data survives when it ends within the old length's page *)
Theorem C12_race_same_page_partial :
  forall s i m w k,
    slot s i = Some m -> w_start w = r_start m -> w_len w = r_len m ->
    w_wo w + w_n w <= ceil_page (r_len m) -> k < w_n w ->
    mem (fst (punch_region s i)) (w_start w + w_wo w + k) = mem s (w_start w + w_wo w + k).
Proof. exact punch_keeps_unpublished_same_page. Qed.
Print Assumptions C12_race_same_page_partial.

(* every other step of compact and of every other operation leaves the data map alone outside
   its own footprint (frame theorem, shared with C10) *)
Theorem C12_race_step_frame :
  forall s oc t a, covers_any (wfoot s t) a = false -> mem (fst (tstep s oc t)) a = mem s a.
Proof. exact tstep_mem_frame. Qed.
Print Assumptions C12_race_step_frame.
